"""
C10 — parameters are live, bounded and freezable.

Model: LW.Model.Param (Parameter / ParameterDict setters, line by line) and LW.Model.PCircuit
(circuits over symbolic scalars `lit k | view role (const v | param id)`; the existing circuit model
is reused for all bookkeeping, `U` resolves the fields against the parameter store at read time).
Theorems: LW/Properties/C10.lean.

Per generated history (1-8 Parameters of three kinds, 0-2 ParameterDicts, 1-6 circuits; value and
bound updates — accepted and rejected —, updates through a ParameterDict, components with Parameter
fields in all three roles, add / copy / `+` / unpack_groups / heralds, compress_mode_swaps /
remove_non_adjacent_bs, frozen copies) the public
observables of EVERY live object are taken after EVERY call and

  * compared with the model's snapshot after the same call (correspondence: outcome class of the
    call, Parameter.get / min_bound / max_bound, ParameterDict items, Circuit.U or the exception
    class, Circuit.get_all_params as a multiset of Parameter identities);
  * checked against the property's own clauses on the implementation alone (oracle):
      bounds_invariant   min_bound <= get() <= max_bound for every Parameter after every call
      rejected_noop      a call that raised left every observable of every object unchanged
      live / invalid     U equals the U of the same circuit rebuilt from scratch with every Parameter
                         replaced by the plain value it holds now (frozen copies: the values held
                         when the copy was taken); if a component rejects that value when it is
                         given directly, U must raise CircuitCompilationError
      listing            get_all_params has no duplicates, lists only the user's Parameter objects,
                         lists exactly the Parameters that the circuit's accepted construction calls
                         (and those of the circuits added to / copied into it) were given, whatever
                         rewrites happened since, and a Parameter that is not listed does not
                         influence U (perturbation)
      frozen             a frozen copy lists no parameter and its U never changes while it is not
                         itself the target of a call.
      unaffected         an accepted call on one Parameter / ParameterDict leaves (value, min, max) of every
                         OTHER Parameter exactly as it was (each Parameter has its own bounds)
      caller_data        the containers the client handed over (the bounds list / tuple of one or several
                         Parameters, the dict a ParameterDict was filled from, the dict given to mode_swaps) stay
                         the client's: when the client writes into them afterwards, or into a list / dict that a
                         library call returned (get_all_params, ParameterDict.items / params / get_bounds),
                         every observable of every library object is what it was; and no library call writes into
                         a container of the client.

Streams (in this order):
  corpus     hand-written histories (paramgen.corpus): bounds / values exactly 0 in every spelling, equal
             bounds, negative ranges, bounds installed and removed through the setters, ParameterDict
             updates; one circuit with a Parameter in every field role x nesting x every spec-rebuilding
             operation, updated only afterwards (model compared at the end of these, oracles at every call)
  generic    random histories (gen_history)
  boundary   random walks just outside / on / across the bounds of Parameters pinned to a pivot
             (gen_boundary_history)
  rewrite    build -> nest -> rewrite -> update rounds (gen_rewrite_history)
  shared     caller-owned data (gen_shared_history): several Parameters built from ONE bounds container, several
             ParameterDicts filled from ONE dict; bound updates on one holder beyond the value of another, rejected
             updates, updates of the others inside the bounds they were given, the client writing into its
             containers / into returned objects in between, further Parameters from the container as it is then.
             The client's own writes are no calls into the library: they are not sent to the model.
  probe      inputs outside the ordered domain (NaN, ...), implementation only
`shape:` counters in the evidence are computed from the EXECUTED histories (not from the generator's
intent); the run is a machinery fault if the corpus did not exercise every required shape.

NaN, complex numbers, bool and infinities are numeric for the code's isinstance checks but outside
the model's ordered domain: they are probed on the implementation alone (finding F15: NaN passes
every bound check).
"""

from __future__ import annotations

import json
import math
import os
import time
from fractions import Fraction

import numpy as np

import lightworks as lw
import paramgen as pg
from core import Ctx, MachineryFault, ddmin, eprint, mat_close, parse_mat

TRUSTED = [
    "Lean 4.33 kernel; Mathlib v4.33 as compiled on this image",
    "axioms: subset of {propext, Classical.choice, Quot.sound} (audited per theorem on every run)",
    "hand-written model LW.Model.Param / PCircuit (on top of LW.Model.Circuit / Heap) tied to the code by this "
    "correspondence check (all live objects compared after every call)",
    "float evaluation of x**0.5, arccos/cos/sin, exp(1j*x): real-analytic value up to rounding (1e-9 tolerance); "
    "they enter the model as the table `Views` supplied with each case",
    "float comparison of parameter values and bounds agrees with the order of the exact keys (asserted for the "
    "literal tables at import)",
    "Python object identity of Parameter objects (shared by copy/add, duplicated by deepcopy) is modelled by "
    "integer identities; the check observes the implementation's objects",
    "driver JSON parser and harness comparison code",
]
ASSUMPTIONS = [
    "numeric parameter values and bounds are ints/floats that are not NaN (linear order); NaN, complex, bool and "
    "inf inputs are probed on the implementation only",
    "a Parameter is used in the roles for which its values have exact sqrt/trig results: reflectivity and loss "
    "(x = c^2, Pythagorean c) or phase (atan2 of a rational circle point); non-numeric values are str / None",
    "histories: <= 8 Parameters, <= 12 circuits of <= 8 modes, <= 60 calls in the correspondence check "
    "(theorems are unbounded); the directed field-role corpus is compared with the model at the end of each history "
    "(outcome of every call, final observables), every other history after every call",
    "Python numerics outside the exact tables (numpy / Fraction zeros, one-ulp and denormal steps across a bound or "
    "across [0, 1] of a field) are checked on the implementation alone (probe streams, `oracle-only` counters)",
]

# compress_mode_swaps / remove_non_adjacent_bs / unpack_groups are part of the histories: they rebuild
# the spec and must keep the circuit linked to the user's Parameter objects (finding F22, fixed in
# ac87a52: they used to deep-copy the Parameters).  C10_REWRITES=0 leaves the two rewrites out.
INCLUDE_REWRITES = os.environ.get("C10_REWRITES", "1") != "0"
# experiments only: C10_STREAMS=generic,boundary,rewrite leaves the directed corpus out (to measure what the
# random streams find on their own); the default runs everything
STREAMS = [x for x in os.environ.get("C10_STREAMS", "corpus,generic,boundary,rewrite,shared,probe").split(",") if x]

CLAUSES = ("bounds_invariant", "rejected_noop", "live", "invalid_value", "listing", "frozen", "unaffected", "caller_data")


def may_change(op: list, prev: dict) -> set:
    """Parameters whose (value, min, max) an accepted library call is entitled to change"""
    name = op[0]
    if name in ("pnew", "pset", "pmin", "pmax"):
        return {op[1]}
    if name == "dset":
        return {q for key, q, _ in prev["dicts"].get(op[1], []) if key == op[2]}
    return set()


def target_of(op: list):
    return op[1]


def model_run(ctx: Ctx, prog: list, each: bool = True) -> dict:
    return ctx.model.call({"op": "c10", "views": pg.views_for(prog), "prog": prog, "each": each})


def prov_step(prov: dict, op: list, r: str) -> None:
    """Parameters a circuit was GIVEN by its accepted calls (the property's `every such parameter`):
    fields of its own components, plus those of circuits added to / combined or copied into it;
    a frozen copy was given none.  Rewrites do not appear here: they must not change the listing."""
    if r != "ok":
        return
    name = op[0]
    if name in ("new", "unitary", "freeze"):
        prov[op[1]] = set()
    elif name in ("bsp", "psp", "lossp"):
        prov[op[1]] = prov[op[1]] | {a["p"] for a in op[2:] if isinstance(a, dict) and "p" in a}
    elif name == "add":
        prov[op[1]] = prov[op[1]] | prov[op[2]]
    elif name == "plus":
        prov[op[1]] = prov[op[2]] | prov[op[3]]
    elif name == "copy":
        prov[op[1]] = set(prov[op[2]])


def expected_py(v):
    """python value the model's value stands for"""
    if v is None:
        return None
    if isinstance(v, str):
        return pg.BY_KEY[Fraction(v)].py
    if "o" in v:
        return pg.OTHER[v["o"]]
    return pg.BY_KEY[Fraction(v["n"])].py


def val_eq(impl, exp) -> bool:
    if exp is None or isinstance(exp, str):
        return impl is exp or impl == exp and type(impl) is type(exp)
    if isinstance(impl, bool) or not isinstance(impl, (int, float)):
        return False
    return impl == exp


def compare_snap(k: int, op: list, snap: dict, ms: dict) -> list[tuple[str, str, str]]:
    out = []
    mp = {p[0]: p[1:] for p in ms["params"]}
    if set(mp) != set(snap["params"]):
        out.append(("corr", "objects", f"call #{k}: live parameters impl={sorted(snap['params'])} model={sorted(mp)}"))
        return out
    for pid, (val, lo, hi) in snap["params"].items():
        mv, mlo, mhi = mp[pid]
        if not (val_eq(val, expected_py(mv)) and val_eq(lo, expected_py(mlo)) and val_eq(hi, expected_py(mhi))):
            out.append(("corr", "param", f"call #{k} {op[:3]}: parameter {pid} impl (get, min, max)=({val!r}, {lo!r}, {hi!r}) "
                        f"model=({expected_py(mv)!r}, {expected_py(mlo)!r}, {expected_py(mhi)!r})"))
    md = {d[0]: d[1] for d in ms["dicts"]}
    if set(md) != set(snap["dicts"]):
        out.append(("corr", "objects", f"call #{k}: live ParameterDicts impl={sorted(snap['dicts'])} model={sorted(md)}"))
    else:
        for d, items in snap["dicts"].items():
            if [[a, b] for a, b, _ in items] != md[d]:
                out.append(("corr", "dict", f"call #{k} {op[:3]}: ParameterDict {d} impl={[(a, b) for a, b, _ in items]} model={md[d]}"))
            for key, pid, v in items:  # items() must report the referenced parameter's value
                if pid in snap["params"] and not pg.same_val(v, snap["params"][pid][0]):
                    out.append(("oracle", "live", f"call #{k}: ParameterDict {d}.items()[{key!r}]={v!r} is not the "
                                f"value of the parameter it holds ({snap['params'][pid][0]!r})"))
    mc = {c[0]: c[1] for c in ms["circs"]}
    if set(mc) != set(snap["circs"]):
        out.append(("corr", "objects", f"call #{k}: live circuits impl={sorted(snap['circs'])} model={sorted(mc)}"))
        return out
    for cid, o in snap["circs"].items():
        m = mc[cid]
        if o["n"] != m["n"]:
            out.append(("corr", "n_modes", f"call #{k}: circuit {cid} n_modes impl={o['n']} model={m['n']}"))
            continue
        if sorted(o["params"]) != sorted(m["params"]):
            out.append(("corr", "get_all_params", f"call #{k} {op[:3]}: circuit {cid} get_all_params impl={sorted(o['params'])} "
                        f"model={sorted(m['params'])}"))
        if ("err" in o) != ("err" in m):
            out.append(("corr", "U", f"call #{k} {op[:3]}: circuit {cid} U impl={o.get('err', 'matrix')} model={m.get('err', 'matrix')}"))
        elif "err" in o:
            if o["err"] != m["err"]:
                out.append(("corr", "U", f"call #{k}: circuit {cid} U raises impl={o['err']} model={m['err']}"))
        elif not mat_close(o["U"], parse_mat(m["U"])):
            out.append(("corr", "U", f"call #{k} {op[:3]}: circuit {cid} U differs from the model's"))
    return out


def perturb_check(w: pg.World, snap: dict) -> list[tuple[str, str, str]]:
    """a Parameter that get_all_params does not list must not influence U"""
    out = []
    for pid, p in w.params.items():
        cands = [cid for cid, o in snap["circs"].items() if pid not in o["params"] and "U" in o]
        if not cands:
            continue
        old = p.get()
        new = None
        for lit in (*pg.UNIT_IN[3:9], *pg.PHASE[5:9]):
            if pg.same_val(lit.py, old):
                continue
            try:
                p.set(lit.py)
                new = lit.py
                break
            except Exception:  # noqa: BLE001
                continue
        if new is None:
            continue
        try:
            for cid in cands:
                try:
                    u = np.array(w.circs[cid].U)
                except Exception as e:  # noqa: BLE001
                    out.append(("oracle", "listing", f"circuit {cid} does not list parameter {pid}, yet setting it "
                                f"{old!r} -> {new!r} makes U raise {type(e).__name__}"))
                    continue
                if not mat_close(u, snap["circs"][cid]["U"], 1e-12):
                    out.append(("oracle", "listing", f"circuit {cid} does not list parameter {pid} in get_all_params, "
                                f"yet setting it {old!r} -> {new!r} changes U"))
        finally:
            try:
                p.set(old)
            except Exception as e:  # noqa: BLE001
                out.append(("oracle", "bounds_invariant", f"parameter {pid}: restoring its own value {old!r} is "
                            f"rejected ({type(e).__name__})"))
    return out


def run_case(ctx: Ctx, prog: list, sample_pts: int = 3, stats: dict | None = None, model: str = "each",
             must_check: tuple = ()) -> list[tuple[str, str, str]]:
    """returns (tag, clause, text) problems; tag = oracle | corr.
    model = each (model compared after every call) | final (outcomes of every call, observables at the
    end) | none (oracles only: used while shrinking an oracle failure)"""
    probs: list[tuple[str, str, str]] = []
    w = pg.World()
    results: list[str] = []
    snaps: list[dict] = []
    hist_vals: list[dict] = []
    frozen: dict[str, dict] = {}
    prov: dict[str, set] = {}
    mislisted: set = set()
    prev = pg.snapshot(w)
    for k, op in enumerate(prog):
        boxes_before = pg.box_snapshot(w)
        r = pg.apply_op(w, op)
        results.append(r)
        snap = pg.snapshot(w)
        if op[0] not in pg.CLIENT_OPS and op[0] != "swaps":
            d = pg.box_diff(boxes_before, pg.box_snapshot(w))
            if d is not None:
                probs.append(("oracle", "caller_data", f"call #{k} {op[:3]} ({r}) wrote into a container that belongs to the "
                              f"client: {d}"))
        snaps.append(snap)
        hist_vals.append({pid: v[0] for pid, v in snap["params"].items()})
        # -- listing (exactly the parameters the circuit was given)
        prov_step(prov, op, r)
        for cid, o in snap["circs"].items():
            listed = {i for i in o["params"] if i != -1}
            if cid in prov and listed != prov[cid] and cid not in mislisted:
                mislisted.add(cid)
                probs.append(("oracle", "listing", f"after call #{k} {op[:3]} ({r}): circuit {cid} was given the "
                              f"parameters {sorted(prov[cid])} by its construction calls but get_all_params lists "
                              f"{sorted(listed)}"))
        # -- rejected_noop
        if r != "ok":
            d = pg.snap_diff(prev, snap)
            if d is not None:
                probs.append(("oracle", "rejected_noop", f"call #{k} {op[:4]} raised {r} but changed state: {d}"))
        # -- caller_data: what the client does with its own containers / with returned objects
        elif op[0] in pg.CLIENT_OPS:
            d = pg.snap_diff(prev, snap)
            if d is not None:
                what = {"cbox": "made a container", "cmut": f"wrote ({op[2]}) into its own container {op[1]}",
                        "cscrib": f"wrote into the object returned by {op[1]} of {op[2]}"}[op[0]]
                probs.append(("oracle", "caller_data", f"step #{k}: the client {what} - no call into the library - and "
                              f"a library object changed: {d}"))
        # -- unaffected: an accepted call moves only the Parameter it names
        else:
            allowed = may_change(op, prev)
            for pid, was in prev["params"].items():
                now = snap["params"].get(pid)
                if pid not in allowed and now is not None and not all(pg.same_val(a, b) for a, b in zip(was, now)):
                    probs.append(("oracle", "unaffected", f"call #{k} {op[:3]} (accepted) changed parameter {pid}, which it "
                                  f"does not name: (value, min, max) {was} -> {now}"))
        # -- bounds_invariant
        for pid, (val, lo, hi) in snap["params"].items():
            if not pg.in_bounds(val, lo, hi):
                probs.append(("oracle", "bounds_invariant", f"after call #{k} {op[:3]} ({r}): parameter {pid} has value "
                              f"{val!r} outside its bounds [{lo!r}, {hi!r}]"))
        # -- listing (duplicates / foreign objects)
        for cid, o in snap["circs"].items():
            ids = o["params"]
            if len(ids) != len(set(ids)):
                probs.append(("oracle", "listing", f"after call #{k}: get_all_params of {cid} lists a parameter twice: {ids}"))
            if -1 in ids:
                probs.append(("oracle", "listing", f"after call #{k}: get_all_params of {cid} lists a Parameter object "
                              f"that is none of the user's"))
        # -- frozen copies
        if r == "ok":
            frozen.pop(target_of(op), None) if op[0] not in pg.PARAM_OPS and op[0] not in pg.CLIENT_OPS else None
            if op[0] == "freeze":
                o = snap["circs"][op[1]]
                frozen[op[1]] = o
                if o["params"]:
                    probs.append(("oracle", "frozen", f"call #{k}: frozen copy {op[1]} lists parameters {o['params']}"))
        for cid, o in frozen.items():
            if not pg.same_circ(o, snap["circs"][cid]):
                probs.append(("oracle", "frozen", f"after call #{k} {op[:3]}: frozen copy {cid} changed "
                              f"(U / get_all_params) although it was not the target of any call"))
        prev = snap
    # -- live / invalid_value at sampled calls and at the end (shadow rebuild)
    memo: dict = {}
    n = len(prog)
    pts = sorted({n - 1, *(t for t in must_check if 0 <= t < n),
                  *(ctx.rng.randrange(n) for _ in range(sample_pts))}) if n else []
    for t in pts:
        for clause, text in pg.shadow_check(prog, results, hist_vals, t, snaps[t], memo):
            probs.append(("corr" if clause == "shadow" else "oracle", clause, text))
    # -- model
    # (the client's own writes are not calls into the library: the model sees the library calls only, and its
    # snapshot after call j is compared with the implementation's after the same call)
    mprog, at = pg.model_view(prog)
    if model != "none" and mprog:
        mres = model_run(ctx, mprog, each=model == "each")
        lib_results = [results[k] for k in at]
        if mres["results"] != lib_results:
            j = next(i for i, (a, b) in enumerate(zip(lib_results, mres["results"])) if a != b)
            probs.append(("corr", "outcome", f"call #{at[j]} {prog[at[j]][:5]} impl={lib_results[j]} model={mres['results'][j]}"))
        elif model == "each":
            for j, ms in enumerate(mres["snaps"]):
                ps = compare_snap(at[j], prog[at[j]], snaps[at[j]], ms)
                probs += ps
                if ps:
                    break
        else:
            probs += compare_snap(n - 1, prog[-1], snaps[-1], mres["final"])
    # -- listing completeness (perturbs the live objects: last)
    if snaps:
        probs += perturb_check(w, snaps[-1])
    if stats is not None:
        stats["results"] = results
        stats["final"] = snaps[-1] if snaps else None
        stats["snaps"] = snaps
    return probs


def signature(p: tuple[str, str, str], prog: list) -> dict:
    return {"kind": p[1], "nan_input": False, "ops": sorted({o[0] for o in prog})}


def report(ctx: Ctx, prog: list, probs: list) -> None:
    oracle = [p for p in probs if p[0] == "oracle"]
    first = (oracle or probs)[0]

    mode = "none" if first[0] == "oracle" else "each"   # an oracle failure is shrunk on the implementation alone

    def still(sub):
        if not pg.well_formed(sub):
            return False
        ps = run_case(ctx, sub, sample_pts=len(sub), model=mode)
        return any(q[0] == first[0] and q[1] == first[1] for q in ps)

    small = ddmin(prog, still, max_tests=250)
    sprobs = run_case(ctx, small, sample_pts=len(small)) or probs
    soracle = [p for p in sprobs if p[0] == "oracle"]
    texts = [f"{a}[{b}]: {c}" for a, b, c in sprobs]
    if soracle:
        p = soracle[0]
        ctx.violation(f"oracle[{p[1]}]: {p[2]}", {"program": small, "problems": texts}, sig=signature(p, small))
    else:
        p = sprobs[0]
        ctx.disagreement(f"corr[{p[1]}]: {p[2]}", {"program": small, "problems": texts})


# --------------------------------------------------------------------------- excluded points (F15)

NAN = float("nan")


def probe(ctx: Ctx, rng) -> None:
    """Parameter with bounds, a short history, then one input outside the ordered domain; the
    bounds and rejected-update clauses are evaluated on the implementation directly"""
    lits = [*pg.UNIT_IN, *pg.UNIT_OUT]
    v = rng.choice(pg.UNIT_IN)
    lo = rng.choice([None, *[l for l in lits if l.key <= v.key]])
    hi = rng.choice([None, *[l for l in lits if l.key >= v.key]])
    if lo is None and hi is None:
        lo = pg.UNIT_ZERO
    steps = [["new", v.py, [None if lo is None else lo.py, None if hi is None else hi.py]]]
    for _ in range(rng.randint(0, 3)):
        steps.append(["set", rng.choice(lits).py])
    kind = rng.choice(["nan", "nan", "nan_min", "nan_max", "np_nan", "complex", "complex_bound", "bool", "inf", "-inf"])
    special = {"nan": ["set", NAN], "np_nan": ["set", np.float64("nan")], "nan_min": ["min", NAN],
               "nan_max": ["max", NAN], "complex": ["set", 0.5j], "complex_bound": ["max", 2 + 1j],
               "bool": ["set", True], "inf": ["set", math.inf], "-inf": ["set", -math.inf]}[kind]
    steps.append(special)
    steps.append(["set", rng.choice(pg.UNIT_OUT).py])  # the bounds must still bite afterwards
    ctx.count("probe:" + kind)
    probe_run(ctx, steps, kind)


ZERO_SPELLINGS = [0, 0.0, -0.0, np.float64(0.0), np.float64(-0.0), np.int64(0), np.float32(0), Fraction(0)]
PIVOTS = [1, 1.0, 0.3, -0.5, np.float64(1.0), Fraction(1, 3), -2, np.int64(-1), math.pi, -math.pi]


def probe_numeric(ctx: Ctx, rng) -> None:
    """Boundary numerics outside the exact tables, on the implementation alone: a bound that is a zero of
    any numeric type (all falsy), or another pivot; installed by the constructor or by the setter; then
    updates (direct and through a ParameterDict) by one ulp / a denormal / a lot beyond the bound, exactly on
    it, removal and re-installation.  Clauses: value within bounds after every call, rejected call = no-op."""
    zero = rng.random() < 0.7
    pivot = rng.choice(ZERO_SPELLINGS if zero else PIVOTS)
    side = rng.choice(["max", "min"])
    out = 1.0 if side == "max" else -1.0          # direction that leaves the range
    fp = float(pivot)
    tiny = 5e-324 if fp == 0 else abs(fp) * 2e-16

    def beyond():
        return rng.choice([math.nextafter(fp, out * math.inf), fp + out * tiny, fp + out * 1e-9, fp + out * 0.5,
                           fp + out * 3, int(math.floor(fp)) + 1 if out > 0 else int(math.ceil(fp)) - 1])

    def inside():
        return rng.choice([fp - out * 0.25, fp - out * 1.0, math.nextafter(fp, -out * math.inf), pivot,
                           int(math.ceil(fp)) - 1 if out > 0 else int(math.floor(fp)) + 1])

    v0 = inside()
    far = rng.choice([None, None, min(v0, fp) - 2 if side == "max" else max(v0, fp) + 2, v0])
    bounds = [far, pivot] if side == "max" else [pivot, far]
    if rng.random() < 0.5:
        steps = [["new", v0, bounds]]
        how = "ctor"
    else:
        steps = [["new", v0, None if far is None else ([far, None] if side == "max" else [None, far])], [side, pivot]]
        how = "setter"
    for _ in range(rng.randint(2, 6)):
        r = rng.random()
        if r < 0.4:
            steps.append([rng.choice(["set", "dset"]), beyond()])
        elif r < 0.55:
            steps.append([rng.choice(["set", "dset"]), rng.choice([pivot, *ZERO_SPELLINGS[:3]]) if zero else pivot])
        elif r < 0.7:
            steps.append([rng.choice(["set", "dset"]), inside()])
        elif r < 0.8:
            steps.append(["set", rng.choice(["a", None])])
        elif r < 0.9:
            steps += [[side, None], ["set", beyond()], [side, pivot], ["set", inside()], [side, pivot]]
        else:
            other = "min" if side == "max" else "max"
            steps += [[other, None], ["set", rng.choice(["a", None])]]   # the pivot is now the ONLY bound
    steps.append([rng.choice(["set", "dset"]), beyond()])
    ctx.count(f"probe:numeric:{'zero' if zero else 'pivot'} {type(pivot).__name__} as {side} via {how}:oracle-only")
    probe_run(ctx, steps, "numeric")


# values for a Parameter-carrying field, as source text (so that a replay shows exactly what was used)
FIELD_UNIT = ["0", "0.0", "-0.0", "1", "1.0", "np.float64(0.0)", "np.float64(1.0)", "np.int64(0)", "np.int64(1)",
              "0.5", "0.36", "np.float32(0.25)", "5e-324", "math.nextafter(1.0, 0.0)", "1e-300",
              # invalid for reflectivity / loss, by an ulp, a denormal, a little, a lot
              "math.nextafter(1.0, 2.0)", "-5e-324", "1 + 1e-9", "-1e-9", "1.5", "-0.25", "2", "-1"]
FIELD_PHI = ["0", "0.0", "-0.0", "1", "-1", "np.float64(0.0)", "np.int64(0)", "math.pi", "-math.pi", "2 * math.pi",
             "5e-324", "1e-300", "0.7", "-2.5", "1e6"]
FIELD_ENV = {"np": np, "math": math, "Fraction": Fraction}
FIELD_REWRITES = [None, None, "nonadj", "nonadj", "compress", "unpack", "copy", "plus", "add_group", "add_flat",
                  "add_group+nonadj", "add_group+unpack+nonadj"]


def field_build(role: str, x, rw: str | None):
    """a small circuit whose `role` field is x (a Parameter or a plain number), then the rewrite"""
    c = lw.Circuit(4)
    c.ps(0, 0.3)
    c.mode_swaps({0: 1, 1: 0})
    c.mode_swaps({1: 2, 2: 1})
    if role == "refl":
        c.bs(1, 2, reflectivity=x)
    elif role == "refl_far":
        c.bs(3, 0, reflectivity=x, convention="H")
    elif role == "bsloss":
        c.bs(0, 2, reflectivity=0.36, loss=x)
    elif role == "psloss":
        c.ps(2, 0.7, loss=x)
    elif role == "loss":
        c.loss(1, x)
    else:
        c.ps(1, x)
    c.bs(2, 3)
    for step in (rw.split("+") if rw else []):
        if step == "nonadj":
            c.remove_non_adjacent_bs()
        elif step == "compress":
            c.compress_mode_swaps()
        elif step == "unpack":
            c.unpack_groups()
        elif step == "copy":
            c = c.copy()
        elif step == "plus":
            c = c + c
        else:
            host = lw.Circuit(5)
            host.bs(0, 4)
            host.add(c, 1, group=step == "add_group")
            c = host
    return c


def nan_close(a, b, tol: float = 1e-12) -> bool:
    a, b = np.asarray(a, dtype=complex), np.asarray(b, dtype=complex)
    if a.shape != b.shape:
        return False
    na, nb = np.isnan(a), np.isnan(b)
    return bool(np.array_equal(na, nb) and np.all(np.abs(np.where(na, 0, a) - np.where(nb, 0, b)) <= tol))


def probe_field(ctx: Ctx, rng) -> None:
    role = rng.choice(["refl", "refl_far", "refl_far", "bsloss", "psloss", "loss", "phi"])
    tab = FIELD_PHI if role == "phi" else FIELD_UNIT
    desc = {"role": role, "rewrite": rng.choice(FIELD_REWRITES), "v0": rng.choice(tab[:15]),
            "sets": [rng.choice(tab) for _ in range(rng.randint(2, 4))], "via_dict": rng.random() < 0.3}
    ctx.count(f"probe:field:{role}:{desc['rewrite']}:oracle-only")
    field_run(ctx, desc)


def field_run(ctx: Ctx, desc: dict) -> None:
    """live / invalid_value / listing for one Parameter-carrying field and Python numerics outside the exact
    tables: after every update, U of the (rewritten) parametrised circuit = U of the same circuit built from
    the plain value; if the plain value is rejected, U must raise CircuitCompilationError"""
    role, rw = desc["role"], desc["rewrite"]
    rep = {"field_probe": desc}

    def plain(x):
        try:
            return np.array(field_build(role, x, rw).U)
        except Exception as e:  # noqa: BLE001
            return type(e).__name__

    v0 = eval(desc["v0"], FIELD_ENV)  # noqa: S307
    p = lw.Parameter(v0)
    pd = lw.ParameterDict(k=p)
    try:
        c = field_build(role, p, rw)
    except Exception as e:  # noqa: BLE001
        if not isinstance(plain(v0), str):
            ctx.violation(f"oracle[live]: {role}=Parameter({desc['v0']}) is rejected ({type(e).__name__}) although the "
                          f"plain value is accepted", rep, sig={"kind": "live", "nan_input": False})
        return
    for k, src in enumerate([desc["v0"], *desc["sets"]]):
        v = eval(src, FIELD_ENV)  # noqa: S307
        if k:
            if desc["via_dict"]:
                pd["k"] = v
            else:
                p.set(v)
        exp = plain(v)
        try:
            obs = np.array(c.U)
        except Exception as e:  # noqa: BLE001
            obs = type(e).__name__
        listed = c.get_all_params()
        what = None
        if len(listed) != 1 or listed[0] is not p:
            what = ("listing", f"get_all_params lists {len(listed)} parameters / not the user's object")
        elif isinstance(exp, str) and not isinstance(obs, str):
            what = ("invalid_value", f"the plain value is rejected ({exp}) but U returns a matrix")
        elif isinstance(exp, str) and obs != "CircuitCompilationError":
            what = ("invalid_value", f"U raises {obs}, not CircuitCompilationError")
        elif not isinstance(exp, str) and isinstance(obs, str):
            what = ("live", f"U raises {obs} although the same circuit built from the plain value compiles")
        elif not isinstance(exp, str) and not nan_close(obs, exp):
            what = ("live", "U is not the unitary of the same circuit built from the plain value")
        if what:
            ctx.violation(f"oracle[{what[0]}]: field {role} (rewrite {rw}) after update #{k} to {src}: {what[1]}",
                          {"field_probe": {**desc, "sets": desc["sets"][:k]}}, sig={"kind": what[0], "nan_input": False})
            return


NONFINITE = {"nan": NAN, "np_nan": np.float64("nan"), "inf": math.inf, "-inf": -math.inf, "np_inf": np.float64("inf")}


def nonfinite_desc(rng) -> dict:
    return {"role": rng.choice(["loss", "bs_refl", "bs_loss", "ps_loss"]),
            "nest": rng.choice(["flat", "flat", "group", "ungrouped_add", "copy", "unpack", "nonadj"]),
            "value": rng.choice(list(NONFINITE)), "valid_first": rng.choice([0.0, 0.25, 1.0]),
            "read_first": rng.random() < 0.5}


def nonfinite_run(ctx: Ctx, d: dict) -> None:
    """clause 'a value that is invalid for its component surfaces as a compilation error when the circuit is
    used', at the points outside the model's ordered domain (implementation only): a loss / reflectivity
    Parameter that was valid when the component was added and is then moved to NaN / +-inf (Parameter.set accepts
    them without bounds, and NaN even with bounds: F15) must make the next read of U / U_full raise, never
    return a matrix with non-finite entries or one computed from the old value"""
    par = lw.Parameter(d["valid_first"])
    inner = lw.Circuit(3)
    role = d["role"]
    if role == "loss":
        inner.loss(1, par)
    elif role == "bs_refl":
        inner.bs(0, 2, reflectivity=par)
    elif role == "bs_loss":
        inner.bs(0, 1, loss=par)
    else:
        inner.ps(2, 0.3, loss=par)
    inner.bs(1, 2)
    nest = d["nest"]
    if nest == "group":
        c = lw.Circuit(4)
        c.add(inner, 1, group=True)
    elif nest == "ungrouped_add":
        c = lw.Circuit(4)
        c.add(inner, 0, group=False)
    elif nest == "copy":
        c = inner.copy()
    elif nest == "unpack":
        c = lw.Circuit(4)
        c.add(inner, 1, group=True)
        c.unpack_groups()
    elif nest == "nonadj":
        c = inner
        c.remove_non_adjacent_bs()
    else:
        c = inner
    if d["read_first"]:
        _ = c.U_full
    try:
        par.set(NONFINITE[d["value"]])
    except Exception:  # noqa: BLE001
        ctx.count("nonfinite:set_rejected")
        return
    for attr in ("U_full", "U"):
        try:
            u = np.array(getattr(c, attr))
        except Exception:  # noqa: BLE001
            ctx.count("nonfinite:raised_at_use")
            continue
        what = "a matrix with non-finite entries" if not np.all(np.isfinite(u)) else "a finite matrix (stale value?)"
        ctx.violation(f"oracle[invalid_value_error]: a {role} Parameter set to {d['value']} after the component was added "
                      f"({nest}): reading {attr} returned {what} instead of raising a compilation error",
                      {"nonfinite_probe": d}, sig={"kind": "invalid_value_error", "nan_input": False})
        return


def probe_run(ctx: Ctx, steps: list, kind: str) -> None:
    p = None
    pd = None
    nan_seen = False
    for k, st in enumerate(steps):
        before = None if p is None else (p.get(), p.min_bound, p.max_bound)
        arg = st[1]
        nan_seen = nan_seen or (isinstance(arg, float) and math.isnan(arg))
        try:
            if st[0] == "new":
                p = lw.Parameter(st[1], bounds=st[2])
            elif st[0] == "set":
                p.set(arg)
            elif st[0] == "dset":
                if pd is None:
                    pd = lw.ParameterDict(k=p)
                pd["k"] = arg
            elif st[0] == "min":
                p.min_bound = arg
            else:
                p.max_bound = arg
            r = "ok"
        except Exception as e:  # noqa: BLE001
            r = type(e).__name__
        if p is None:
            return
        after = (p.get(), p.min_bound, p.max_bound)
        rep = {"probe": [[s[0], repr(s[1]), *([repr(s[2])] if len(s) > 2 else [])] for s in steps[: k + 1]]}
        if r != "ok" and before is not None and not all(pg.same_val(a, b) for a, b in zip(before, after)):
            ctx.violation(f"oracle[rejected_noop]: Parameter.{st[0]}({arg!r}) raised {r} but changed (value, min, max) "
                          f"{before} -> {after}", rep, sig={"kind": "rejected_noop", "nan_input": nan_seen})
            return
        if not pg.in_bounds(*after):
            ctx.violation(f"oracle[bounds_invariant]: after Parameter.{st[0]}({arg!r}) ({r}) the value {after[0]!r} is "
                          f"not within the bounds [{after[1]!r}, {after[2]!r}]", rep,
                          sig={"kind": "bounds_invariant", "nan_input": nan_seen})
            return


# --------------------------------------------------------------------------- entry points


def nontrivial(prog: list, results: list[str]) -> bool:
    ok = [op[0] for op, r in zip(prog, results) if r == "ok"]
    attached = sum(1 for op, r in zip(prog, results) if r == "ok" and op[0] in ("bsp", "psp", "lossp")
                   and any(isinstance(a, dict) and "p" in a for a in op[2:]))
    upd = sum(1 for o in ok if o in ("pset", "pmin", "pmax", "dset"))
    return attached >= 1 and upd >= 1


REWRITE_OPS = ("nonadj", "compress", "unpack", "copy", "plus", "add", "freeze")

# shapes every run must have exercised (the corpus does so deterministically)
REQUIRED_SHAPES = (
    "shape:set above a max bound == 0 (direct)", "shape:set above a max bound == 0 (dict)",
    "shape:set below a min bound == 0 (direct)", "shape:set below a min bound == 0 (dict)",
    "shape:set exactly on a bound", "shape:set while min == max", "shape:non-numeric set, only bound is 0",
    "shape:bound := 0 accepted", "shape:bound := 0 rejected", "shape:bound set while value == 0",
    "shape:bound removed, then value moved past it", "shape:field attached while its Parameter == 0",
    "shape:frozen while a Parameter == 0", "shape:zero spelled int", "shape:zero spelled float", "shape:zero spelled -0.0",
    "shape:nonadj of a non-adjacent Parameter beam splitter, then update",
    *(f"shape:{r}@depth{d}, then update" for r in REWRITE_OPS[:6] for d in (0, 1, 2) if (r, d) != ("add", 0)),
    "shape:shared bounds container (list), accepted bound update on one holder beyond the value of another",
    "shape:shared bounds container (tuple), accepted bound update on one holder beyond the value of another",
    "shape:shared bounds container, rejected bound update on one holder",
    "shape:shared bounds container, value update of a holder after a bound update of another",
    "shape:client writes into a bounds list it handed over", "shape:Parameter from a bounds list the client has rewritten",
    "shape:client writes into the dict a ParameterDict was filled from", "shape:one client dict, two ParameterDicts",
    "shape:client writes into the dict given to mode_swaps", "shape:client writes into a returned object",
)


def is_zero(x) -> bool:
    return isinstance(x, (int, float)) and not isinstance(x, bool) and x == 0


def shapes(prog: list, results: list[str], snaps: list[dict]) -> list[str]:
    """which boundary / rewrite-before-update shapes this EXECUTED history contained (coverage only)"""
    out: list[str] = []
    prov: dict[str, set] = {}
    far: dict[str, set] = {}      # cid -> Parameters that are the reflectivity of a non-adjacent BS in it
    depth: dict[str, int] = {}    # cid -> nesting depth of its deepest Parameter field
    pending: list = []            # rewrites waiting for a later accepted update of one of their parameters
    dropped: dict = {}            # (pid, side) -> bound that was removed
    box_kind: dict = {}           # the client's containers
    box_holders: dict = {}        # container -> Parameters built from it
    box_written: set = set()
    box_dicts: dict = {}
    squeezed: dict = {}           # container -> holders whose bounds were updated
    for k, (op, r) in enumerate(zip(prog, results)):
        name = op[0]
        before = snaps[k - 1] if k else {"params": {}, "dicts": {}, "circs": {}}
        after = snaps[k]
        if name == "cbox":
            box_kind[op[1]] = op[2]
            box_holders[op[1]] = []
            continue
        if name == "cmut":
            if op[1].startswith("swaps:"):
                out.append("shape:client writes into the dict given to mode_swaps")
            elif op[1] in box_dicts:
                out.append("shape:client writes into the dict a ParameterDict was filled from")
            elif box_kind.get(op[1]) == "list" and box_holders.get(op[1]):
                out.append("shape:client writes into a bounds list it handed over")
                box_written.add(op[1])
            continue
        if name == "cscrib":
            out.append("shape:client writes into a returned object")
            continue
        if name == "pnew" and len(op) > 4 and r == "ok":
            bx = op[4]["box"]
            box_holders.setdefault(bx, []).append(op[1])
            if bx in box_written:
                out.append("shape:Parameter from a bounds list the client has rewritten")
        if name == "dnew" and len(op) > 3 and r == "ok":
            box_dicts[op[3]["box"]] = box_dicts.get(op[3]["box"], 0) + 1
            if box_dicts[op[3]["box"]] == 2:
                out.append("shape:one client dict, two ParameterDicts")
        for bx, hs in box_holders.items():
            if len(hs) < 2 or name not in ("pmin", "pmax", "pset", "dset"):
                continue
            tgt = may_change(op, before)
            if not tgt & set(hs):
                continue
            t = next(iter(tgt & set(hs)))
            if name in ("pmin", "pmax"):
                if r != "ok":
                    out.append("shape:shared bounds container, rejected bound update on one holder")
                elif op[2] is not None and "n" in op[2]:
                    squeezed.setdefault(bx, set()).add(t)
                    b = op[2]["py"]
                    vals = [before["params"][q][0] for q in hs if q != t and q in before["params"]]
                    if any(isinstance(x, (int, float)) and (x > b if name == "pmax" else x < b) for x in vals):
                        out.append(f"shape:shared bounds container ({box_kind.get(bx)}), accepted bound update on one holder "
                                   f"beyond the value of another")
            elif r == "ok" and squeezed.get(bx, set()) - {t}:
                out.append("shape:shared bounds container, value update of a holder after a bound update of another")
        for x in op:
            for v in (x if isinstance(x, list) else [x]):
                if isinstance(v, dict) and "py" in v and is_zero(v["py"]) and "n" in v:
                    out.append("shape:zero spelled " + ("int" if isinstance(v["py"], int) else
                                                       "-0.0" if math.copysign(1, v["py"]) < 0 else "float"))
        pid = v = None
        if name == "pset":
            pid, v = op[1], op[2]
        elif name == "dset":
            pid = next((q for key, q, _ in before["dicts"].get(op[1], []) if key == op[2]), None)
            v = op[3]
        if pid is not None and pid in before["params"]:
            val, lo, hi = before["params"][pid]
            via = "dict" if name == "dset" else "direct"
            if "n" in v:
                x = v["py"]
                if is_zero(hi) and x > 0:
                    out.append(f"shape:set above a max bound == 0 ({via})")
                if is_zero(lo) and x < 0:
                    out.append(f"shape:set below a min bound == 0 ({via})")
                if (lo is not None and x == lo) or (hi is not None and x == hi):
                    out.append("shape:set exactly on a bound")
                if lo is not None and hi is not None and lo == hi:
                    out.append("shape:set while min == max")
                for side, cmp in (("min", lambda a, b: a < b), ("max", lambda a, b: a > b)):
                    b = dropped.get((pid, side))
                    if b is not None and r == "ok" and cmp(x, b):
                        out.append("shape:bound removed, then value moved past it")
            elif (lo is None or is_zero(lo)) and (hi is None or is_zero(hi)) and (lo is not None or hi is not None):
                out.append("shape:non-numeric set, only bound is 0")
            if r == "ok" and not pg.same_val(after["params"][pid][0], val):
                for item in pending:
                    if pid in item[1] and not item[2]:
                        item[2] = True
                        out.extend(item[0])
        if name in ("pmin", "pmax") and op[1] in before["params"]:
            val, lo, hi = before["params"][op[1]]
            b = op[2]
            side = name[1:]
            if b is None:
                if r == "ok" and (lo if side == "min" else hi) is not None:
                    dropped[(op[1], side)] = lo if side == "min" else hi
            elif "n" in b:
                if is_zero(b["py"]):
                    out.append("shape:bound := 0 " + ("accepted" if r == "ok" else "rejected"))
                if is_zero(val):
                    out.append("shape:bound set while value == 0")
                if isinstance(val, (int, float)) and b["py"] == val:
                    out.append("shape:bound := value")
                if r == "ok":
                    dropped.pop((op[1], side), None)
        if r != "ok":
            continue
        prov_step(prov, op, r)
        if name in ("new", "unitary"):
            far[op[1]], depth[op[1]] = set(), -1
        elif name in ("bsp", "psp", "lossp"):
            pids = [a["p"] for a in op[2:] if isinstance(a, dict) and "p" in a]
            if pids:
                depth[op[1]] = max(depth[op[1]], 0)
            if any(q in before["params"] and is_zero(before["params"][q][0]) for q in pids):
                out.append("shape:field attached while its Parameter == 0")
            if name == "bsp" and abs(op[2] - op[3]) >= 2 and isinstance(op[4], dict) and "p" in op[4]:
                far[op[1]] = far[op[1]] | {op[4]["p"]}
        elif name == "copy":
            far[op[1]], depth[op[1]] = set(far[op[2]]), depth[op[2]]
        elif name == "freeze":
            if any(is_zero(before["params"][q][0]) for q in prov.get(op[2], ()) if q in before["params"]):
                out.append("shape:frozen while a Parameter == 0")
            far[op[1]], depth[op[1]] = set(), -1
        elif name == "plus":
            far[op[1]], depth[op[1]] = far[op[2]] | far[op[3]], max(depth[op[2]], depth[op[3]])
        elif name == "add":
            far[op[1]] = far[op[1]] | far[op[2]]
            if depth[op[2]] >= 0:
                depth[op[1]] = max(depth[op[1]], depth[op[2]] + 1)
        if name in REWRITE_OPS and name != "freeze":
            t = op[1]
            labels = [f"shape:{name}@depth{min(depth[t], 2)}, then update"] if depth[t] >= 0 else []
            if name == "nonadj":
                if far[t]:
                    labels.append("shape:nonadj of a non-adjacent Parameter beam splitter, then update")
                far[t] = set()
            if labels:
                pending.append([labels, set(prov[t]), False])
    return out


def self_test(ctx: Ctx) -> None:
    """the comparison must notice an injected difference (a parameter update the model does not see)"""
    v1, v2 = pg.UNIT_IN[4], pg.UNIT_IN[7]
    prog = [["pnew", 0, v1.v(), None], ["new", "c0", 2], ["bsp", "c0", 0, 1, {"p": 0}, "Rx", None]]
    if run_case(ctx, prog, sample_pts=1):
        raise MachineryFault("self-test: a trivial history does not agree with the model")
    w, _ = pg.run_prog(prog)
    w.params[0].set(v2.py)
    ms = model_run(ctx, prog)["final"]
    if not compare_snap(0, prog[-1], pg.snapshot(w), ms):
        raise MachineryFault("self-test: the comparison did not notice an injected difference")


def run(ctx: Ctx) -> None:
    ctx.rule = ("directed corpus (bounds / values exactly 0 in every spelling, equal bounds, negative ranges, bounds "
                "installed / removed by the setters, ParameterDict updates; a Parameter in every field role x nesting "
                "x every spec-rebuilding operation, updated afterwards), then random histories over Parameters "
                "(reflectivity/loss kind, phase kind, unattached), ParameterDicts and "
                "circuits: value/bound updates (accepted and rejected), ParameterDict updates, components with "
                "Parameter fields in every role, add/copy/+/unpack/herald, swap compression and non-adjacent-BS removal, "
                "frozen copies; boundary walks around pinned Parameters; build -> nest -> rewrite -> update rounds; "
                "caller-owned data (one bounds list / tuple for several Parameters, one dict for several ParameterDicts, bound "
                "updates on one holder beyond the value of another, the client writing into its containers and into returned "
                "objects in between); "
                "non-trivial = at least one accepted component holding a Parameter and one accepted update, or (boundary "
                "streams) one accepted and one rejected update; distinct = distinct op list")
    self_test(ctx)
    rng = ctx.rng
    state = {"i": 0}
    secs: dict[str, float] = {}
    ctx.extra["stream_seconds"] = secs

    def one(stream: str, prog: list, counts: dict, **kw) -> bool:
        """run one history; False = stop generating"""
        stats: dict = {}
        t1 = time.time()
        probs = run_case(ctx, prog, stats=stats, **kw)
        secs[stream] = round(secs.get(stream, 0.0) + time.time() - t1, 2)
        res = stats["results"]
        ctx.count("stream:" + stream)
        for k, v in counts.items():
            ctx.count(k, v)
        for op, r in zip(prog, res):
            if r != "ok":
                ctx.count("rejected:" + op[0] + ":" + r)
        for sh in shapes(prog, res, stats["snaps"]):
            ctx.count(sh)
        final = stats["final"]
        if final:
            if any("err" in o for o in final["circs"].values()):
                ctx.count("final:some circuit fails to compile")
            if any(len(o["params"]) >= 2 for o in final["circs"].values()):
                ctx.count("final:circuit with >=2 parameters")
        if any(op[0] == "add" and r == "ok" for op, r in zip(prog, res)):
            ctx.count("history:accepted add")
        upd = [r for op, r in zip(prog, res) if op[0] in ("pset", "pmin", "pmax", "dset")]
        nt = nontrivial(prog, res) or (stream in ("corpus", "boundary", "shared") and "ok" in upd and any(r != "ok" for r in upd))
        ctx.case(json.dumps(prog), nt, sample=prog if state["i"] in (0, 60) else None)
        state["i"] += 1
        if probs:
            ctx.count("histories_with_problems")
            ctx.count("histories_with_problems:" + stream)
            report(ctx, prog, probs)
            if len(ctx.violations) + len(ctx.disagreements) >= 8:
                ctx.notes.append("stopped early: 8 failing histories")
                return False
        return not ctx.out_of_time()

    def streams() -> None:
        # -- directed corpus: always, first
        for name, prog in pg.corpus() if "corpus" in STREAMS else []:
            fields = name.startswith("fields:")
            rw = [k for k, op in enumerate(prog) if op[0] in REWRITE_OPS]
            if fields:
                ctx.count("corpus:model compared at the end only")
            if not one("corpus", prog, {"corpus:" + name.split(":")[0].split("=")[0]: 1},
                       sample_pts=2 if fields else len(prog), model="final" if fields else "each",
                       must_check=tuple(rw[:3])):
                return
        missing = [sh for sh in REQUIRED_SHAPES if not ctx.branches.get(sh)]
        if missing and "corpus" in STREAMS and not (ctx.violations or ctx.disagreements):
            raise MachineryFault(f"the directed corpus no longer exercises: {missing}")
        # -- random streams, interleaved so that a time cap cuts all of them alike
        plan = (["generic"] * ctx.n(300, 2000) + ["boundary"] * ctx.n(300, 2000) + ["rewrite"] * ctx.n(150, 1000)
                + ["shared"] * ctx.n(220, 1500))
        plan = [x for x in plan if x in STREAMS]
        rng.shuffle(plan)
        for i, stream in enumerate(plan):
            if stream == "generic":
                prog, counts = pg.gen_history(rng, big=ctx.thorough, rewrites=INCLUDE_REWRITES)
            elif stream == "boundary":
                prog, counts = pg.gen_boundary_history(rng, big=ctx.thorough)
            elif stream == "shared":
                prog, counts = pg.gen_shared_history(rng, big=ctx.thorough)
            else:
                prog, counts = pg.gen_rewrite_history(rng, big=ctx.thorough)
            # the exact model of a nested, rewritten circuit is the expensive part of a `rewrite` history: two in
            # three of them are compared with the model at the end only (the oracles run after every call anyway)
            mode = "final" if stream == "rewrite" and i % 3 else "each"
            if mode == "final":
                ctx.count("rewrite:model compared at the end only")
            if not one(stream, prog, counts, sample_pts=ctx.n(3, 5), model=mode):
                return
            if ctx.thorough and i % 500 == 499:
                eprint(f"[C10] {i + 1}/{len(plan)} histories, {round(time.time() - ctx.t0)}s")

    streams()
    if STREAMS != ["corpus", "generic", "boundary", "rewrite", "shared", "probe"]:
        ctx.notes.append(f"C10_STREAMS={','.join(STREAMS)}: not the full check")
    for i in range(ctx.n(360, 2400) if "probe" in STREAMS else 0):
        if ctx.out_of_time():
            break
        if len(ctx.violations) >= 8:
            ctx.notes.append("probe stream stopped early: 8 violations")
            break
        if i % 6 == 0:
            d = nonfinite_desc(rng)
            ctx.count("probe:nonfinite:" + d["role"])
            nonfinite_run(ctx, d)
        elif i % 3 == 0:
            probe(ctx, rng)
        elif i % 3 == 1:
            probe_numeric(ctx, rng)
        else:
            probe_field(ctx, rng)
        ctx.evaluations += 1


def replay(ctx: Ctx, path: str) -> None:
    data = json.load(open(path))
    rp = data["replay"]
    if "field_probe" in rp:
        print("replay: field probe", rp["field_probe"])
        field_run(ctx, rp["field_probe"])
        ctx.case("replay", True)
        return
    if "nonfinite_probe" in rp:
        nonfinite_run(ctx, rp["nonfinite_probe"])
        ctx.case("replay", True)
        return
    if "probe" in rp:
        print("replay: probe histories are re-run by the probe stream (values are python reprs):", rp["probe"])
        env = {"nan": NAN, "inf": math.inf, "np": np, "Fraction": Fraction}
        steps = [[s[0], eval(s[1], env), *([eval(s[2], env)] if len(s) > 2 else [])]  # noqa: S307
                 for s in rp["probe"]]
        probe_run(ctx, steps, "replay")
        ctx.case("replay", True)
        return
    prog = rp["program"]
    probs = run_case(ctx, prog, sample_pts=len(prog))
    ctx.case("replay", True, sample=prog)
    for p in probs:
        print(f"replay: {p[0]}[{p[1]}]: {p[2]}")
        if p[0] == "oracle":
            ctx.violation(f"oracle[{p[1]}]: {p[2]}", rp, sig=signature(p, prog))
        else:
            ctx.disagreement(f"corr[{p[1]}]: {p[2]}", rp)
