"""
C11 — executable correspondence between the cache model (LW.Model.Cache, driver op "cache") and the
lazily recomputed distributions of lightworks' Sampler / QuickSampler.

Three parts, all from outside the library (nothing in /repo is touched, no private attribute is read):

  Seams        counting wrappers installed for the duration of a run around the functions that do the
               expensive computation (`lightworks.emulator.simulation.sampler.pdist_calc` for the Sampler,
               `Backend.probability` for the QuickSampler) and around the public `probability_distribution`
               properties (to see that the getter raised).  An observation of a long-lived object
               "recomputed" iff, while it ran, the computation was entered or the getter raised (the getter
               raises only inside its `if self._check_parameter_updates():` branch, e.g. on a mode mismatch or
               when post-selection removes every output, possibly before the computation is reached).
  Abstractor   the configuration of a Sampler / QuickSampler as the model's SamplerCfg / QuickCfg, from public
               attributes; values are interned to natural numbers with the code's own notion of equality
               (arrays: equal shape and element-wise `==`; everything else Python `==`, PostSelection objects:
               identity, they define no `__eq__`).
  Tracker      per long-lived object: the abstract configuration and the implementation's recomputed flag at
               every observation; `compare` runs the model on the same history and reports the first read at
               which model and implementation differ:
                 corr:missed-recomputation   the model recomputes, the implementation returned its stored
                                             distribution: the code's snapshot lacks a field of the model's
                                             (the differing fields are named)
                 corr:over-invalidation      the implementation recomputed although no field of the model's
                                             snapshot changed (harmless for the results; the model's field list
                                             or notion of equality is no longer the code's)
"""

from __future__ import annotations

import numpy as np

import lightworks.emulator.simulation.sampler as _sampler_mod
from core import MachineryFault
from lightworks import emulator

SAMPLER_FIELDS = ["ufull", "nModes", "inHer", "outHer", "input", "backend", "source"]
QUICK_FIELDS = ["ufull", "nModes", "inHer", "outHer", "input", "psId", "psRules", "photonCounting"]
SOURCE_PROPS = ["brightness", "purity", "indistinguishability", "probability_threshold"]
CODE_NAME = {"ufull": "U_full", "nModes": "n_modes", "inHer": "heralds[input]", "outHer": "heralds[output]",
             "input": "input_state", "backend": "backend.backend", "psId": "post_select(object)",
             "psRules": "post_select.rules", "photonCounting": "photon_counting"}


# ------------------------------------------------------------------------------------------------ seams


class Window:
    def __init__(self) -> None:
        self.computes = 0   # entries into the expensive computation
        self.raised = 0     # probability_distribution getters that raised
        self.gets = 0       # probability_distribution getter invocations

    @property
    def recomputed(self) -> bool:
        return self.computes > 0 or self.raised > 0


class Seams:
    """installs / removes the counting wrappers; `window()` opens a counting window"""

    def __init__(self) -> None:
        self.cur: Window | None = None
        self.installed = False
        self._saved: list = []

    def install(self) -> None:
        if self.installed:
            return
        seams = self

        orig_pdist = _sampler_mod.pdist_calc

        def pdist_calc(*a, **k):
            if seams.cur is not None:
                seams.cur.computes += 1
            return orig_pdist(*a, **k)

        _sampler_mod.pdist_calc = pdist_calc
        self._saved.append((_sampler_mod, "pdist_calc", orig_pdist))

        orig_prob = emulator.Backend.probability

        def probability(self, *a, **k):
            if seams.cur is not None:
                seams.cur.computes += 1
            return orig_prob(self, *a, **k)

        emulator.Backend.probability = probability
        self._saved.append((emulator.Backend, "probability", orig_prob))

        for cls in (emulator.Sampler, emulator.QuickSampler):
            orig = cls.__dict__["probability_distribution"]

            def fget(self, _orig=orig):
                w = seams.cur
                if w is not None:
                    w.gets += 1
                try:
                    return _orig.fget(self)
                except Exception:
                    if w is not None:
                        w.raised += 1
                    raise

            setattr(cls, "probability_distribution", property(fget, doc=orig.__doc__))
            self._saved.append((cls, "probability_distribution", orig))
        self.installed = True

    def remove(self) -> None:
        for owner, name, orig in reversed(self._saved):
            setattr(owner, name, orig)
        self._saved = []
        self.installed = False
        self.cur = None

    def window(self) -> "_Win":
        return _Win(self)


class _Win:
    def __init__(self, seams: Seams) -> None:
        self.seams = seams
        self.w = Window()

    def __enter__(self) -> Window:
        if not self.seams.installed:
            raise MachineryFault("C11 correspondence: counting wrappers are not installed")
        self.prev = self.seams.cur
        self.seams.cur = self.w
        return self.w

    def __exit__(self, *a) -> None:
        self.seams.cur = self.prev


SEAMS = Seams()


def seams_selftest() -> None:
    """the wrappers really sit on the path of a recomputation (otherwise every flag would read False)"""
    import lightworks as lw

    c = lw.Circuit(2)
    c.bs(0, 1)
    for obj in (emulator.Sampler(c, lw.State([1, 0])), emulator.QuickSampler(c, lw.State([1, 0]))):
        with SEAMS.window() as w1:
            obj.probability_distribution  # noqa: B018
        with SEAMS.window() as w2:
            obj.probability_distribution  # noqa: B018
        if not (w1.computes > 0 and w1.gets == 1 and not w2.recomputed and w2.gets == 1):
            raise MachineryFault(f"C11 correspondence: the counting wrappers do not see the computation of a "
                                 f"{type(obj).__name__} (first read {w1.computes}/{w1.gets}, second {w2.computes}/{w2.gets})")


# ------------------------------------------------------------------------------------------------ abstraction


class Abstractor:
    """interns the values of configuration fields to natural numbers (one instance per history, so that ids are
    stable inside it; PostSelection objects are kept alive so that identities are not reused)"""

    def __init__(self) -> None:
        self.tables: dict[str, dict] = {}
        self.ps_objs: list = []

    def intern(self, table: str, key) -> int:
        t = self.tables.setdefault(table, {})
        if key not in t:
            t[key] = len(t)
        return t[key]

    def ufull_id(self, u) -> int:
        a = np.asarray(u)
        # element-wise `==` of the code: -0.0 == 0.0, hence `+ 0.0`; otherwise exact bits (NOT rounded: the code
        # compares exactly, a rounded id would merge matrices that the code tells apart)
        if np.iscomplexobj(a):
            key = (a.shape, "c", (a.real + 0.0).tobytes(), (a.imag + 0.0).tobytes())
        else:
            key = (a.shape, "r", (a.astype(float) + 0.0).tobytes(), b"")
        return self.intern("ufull", key)

    def ps_id(self, ps) -> int:
        for i, o in enumerate(self.ps_objs):
            if o is ps:
                return i
        self.ps_objs.append(ps)
        return len(self.ps_objs) - 1

    @staticmethod
    def rules_of(ps) -> list:
        return [[[int(m) for m in r.as_tuple()[0]], [int(n) for n in r.as_tuple()[1]]]
                for r in getattr(ps, "rules", [])]

    def _circuit(self, c) -> dict:
        h = c.heralds
        return {"ufull": self.ufull_id(c.U_full), "nModes": int(c.n_modes),
                "inHer": sorted([int(m), int(n)] for m, n in h["input"].items()),
                "outHer": sorted([int(m), int(n)] for m, n in h["output"].items())}

    def sampler_cfg(self, obj) -> dict:
        cfg = self._circuit(obj.circuit)
        cfg["input"] = [int(x) for x in obj.input_state.s]
        cfg["backend"] = self.intern("backend", obj.backend.backend)
        cfg["source"] = [self.intern("src:" + p, getattr(obj.source, p)) for p in SOURCE_PROPS]
        return cfg

    def quick_own(self, obj) -> dict:
        cfg = self._circuit(obj.circuit)
        cfg["input"] = [int(x) for x in obj.input_state.s]
        cfg["psId"] = self.ps_id(obj.post_select)
        cfg["photonCounting"] = bool(obj.photon_counting)
        return cfg

    def quick_cfg(self, obj) -> dict:
        cfg = self.quick_own(obj)
        cfg["psRules"] = self.rules_of(obj.post_select)
        return cfg

    def cfg(self, kind: str, obj) -> dict:
        return self.sampler_cfg(obj) if kind == "sampler" else self.quick_cfg(obj)


def changed_fields(a: dict, b: dict) -> list[str]:
    """names (in the code's terms) of the snapshot fields on which two abstract configurations differ"""
    out = []
    for f in a:
        if a[f] != b.get(f):
            if f == "source":
                out += [f"source.{p}" for p, x, y in zip(SOURCE_PROPS, a[f], b[f]) if x != y]
            else:
                out.append(CODE_NAME.get(f, f))
    return out


# ------------------------------------------------------------------------------------------------ tracker


class Tracker:
    """one long-lived Sampler ('sampler') or QuickSampler ('quick')"""

    def __init__(self, kind: str, ab: Abstractor | None = None) -> None:
        self.kind = kind
        self.ab = ab or Abstractor()
        self.reads: list[dict] = []   # {"step", "cfg", "recomputed", "raised"}
        self.broken = False

    def snapshot(self, obj):
        """abstract configuration now (None when the public attributes cannot be read, e.g. U_full raises)"""
        try:
            return self.ab.cfg(self.kind, obj)
        except Exception:  # noqa: BLE001
            return None

    def observed(self, step, obj, cfg, w: Window) -> None:
        if self.broken:
            return
        if cfg is None:
            self.broken = True
            return
        self.reads.append({"step": step, "cfg": cfg, "recomputed": w.recomputed, "raised": w.raised > 0})

    def request(self, snap: str) -> dict:
        hist = []
        for r in self.reads:
            hist += [["cfg", r["cfg"]], ["read"]]
        return {"op": "cache", "snap": snap, "history": hist,
                "fails": [i for i, r in enumerate(self.reads) if r["raised"]]}

    def compare(self, ctx, snap: str | None = None) -> list[str]:
        """first read at which the model (default: the repaired snapshot of this kind) and the implementation
        disagree on whether the read recomputed"""
        if not self.reads:
            return []
        snap = snap or f"{self.kind}-fixed"
        res = ctx.model.call(self.request(snap))
        if len(res) != len(self.reads):
            raise MachineryFault(f"C11 driver returned {len(res)} records for {len(self.reads)} reads")
        return compare_flags(self.kind, snap, self.reads, res)


def compare_flags(kind: str, snap: str, reads: list[dict], res: list[dict], who: str = "") -> list[str]:
    stored = None  # index of the read whose configuration the model's cache holds
    for i, (r, m) in enumerate(zip(reads, res)):
        if m["recomputed"] != r["recomputed"]:
            if m["recomputed"]:
                base = reads[stored]["cfg"] if stored is not None else {}
                diff = changed_fields(r["cfg"], base) if stored is not None else ["(nothing stored)"]
                return [f"corr:missed-recomputation: step #{r['step']}: the model ({snap}) recomputes at this read of the "
                        f"long-lived {kind}{who} because {diff} differ(s) from the configuration of the last computed "
                        f"distribution (read at step #{reads[stored]['step'] if stored is not None else '-'}), the "
                        f"implementation returned the stored distribution without recomputing: field(s) {diff} are "
                        f"not (or no longer) part of the code's _gen_calculation_values"]
            return [f"corr:over-invalidation: step #{r['step']}: the implementation recomputed at this read of the "
                    f"long-lived {kind}{who} although no field of the model's snapshot ({snap}) differs from the configuration "
                    f"of the last computed distribution (read at step #{reads[stored]['step'] if stored is not None else '-'}): "
                    f"the code's snapshot holds something the model's does not, or compares it differently"]
        if m["recomputed"] and m["value"] is not None:
            stored = i
        if snap.endswith("-fixed") and m["value"] is not None and m["value"] != m["cfg"]:
            raise MachineryFault(f"C11 model ({snap}) returned the value of configuration {m['value']} at a read of "
                                 f"configuration {m['cfg']}: contradicts history_independent_raising")
    return []


class WorldTracker:
    """several QuickSamplers that share PostSelection objects: the trace for the world model
    (`CWorld.step`: new / set / mutate / read)"""

    def __init__(self, ab: Abstractor | None = None) -> None:
        self.ab = ab or Abstractor()
        self.hist: list = []
        self.reads: list[dict] = []
        self.index: dict[str, int] = {}
        self.own: dict[str, dict] = {}
        self.heap: dict[int, list] = {}
        self.broken = False

    def sync(self, holders: dict) -> None:
        """bring the model's world up to date: `holders` = name -> QuickSampler object (all that exist now)"""
        for name, obj in holders.items():
            own = self.ab.quick_own(obj)
            if name not in self.index:
                self.index[name] = len(self.index)
                self.hist.append(["new", own])
            elif own != self.own[name]:
                self.hist.append(["set", self.index[name], own])
            self.own[name] = own
        for pid, ps in enumerate(self.ab.ps_objs):
            rules = self.ab.rules_of(ps)
            if self.heap.get(pid, []) != rules:
                self.hist.append(["mutate", pid, rules])
                self.heap[pid] = rules

    def observed(self, step, name: str, holders: dict, w: Window, pre=None) -> None:
        """`pre`: call before the observation to have taken the snapshot (see `prepare`)"""
        if self.broken:
            return
        self.hist.append(["read", self.index[name]])
        cfg = dict(self.own[name], psRules=self.heap.get(self.own[name]["psId"], []))
        self.reads.append({"step": step, "cfg": cfg, "recomputed": w.recomputed, "raised": w.raised > 0, "holder": name})

    def prepare(self, holders: dict) -> bool:
        if self.broken:
            return False
        try:
            self.sync(holders)
        except Exception:  # noqa: BLE001
            self.broken = True
            return False
        return True

    def compare(self, ctx, snap: str = "quick-world-fixed") -> list[str]:
        if not self.reads:
            return []
        res = ctx.model.call({"op": "cache", "snap": snap, "heap": [], "history": self.hist,
                              "fails": [i for i, r in enumerate(self.reads) if r["raised"]]})
        if len(res) != len(self.reads) or any(m.get("missing") for m in res):
            raise MachineryFault(f"C11 world driver returned {res} for {len(self.reads)} reads")
        # per holder: the model's cache of a holder is untouched by the reads of the others
        probs: list[str] = []
        for name in self.index:
            idx = [i for i, r in enumerate(self.reads) if r["holder"] == name]
            probs += compare_flags("quick", snap, [self.reads[i] for i in idx], [res[i] for i in idx], who=f" {name}")
        return sorted(probs, key=lambda p: int(p.split("step #")[1].split(":")[0]))[:1]
