"""
Extensions of circgen used by the C01 and C08 checks only (circgen itself is shared with C02/C09 and
is left untouched):

  * Parameter-valued calls.  A bs / ps / loss op whose trailing dict carries {"param": key} is run on
    the implementation with a `lightworks.Parameter` holding the op's value (phase, reflectivity,
    loss) instead of the literal; the same key used in two ops is the same Parameter object.  The
    driver ignores trailing dicts, so the model sees the literal: a Parameter that is never re-set
    must behave exactly like its value.
  * snapshots that also carry `get_all_params` (identity and value of every Parameter) and the class
    of the compilation error, and their comparison.
  * building-block bookkeeping (`Book`): which ids are live, how many user-visible modes each one
    has and how many modes it occupies when it is added to a parent.
"""

from __future__ import annotations

import math

import circgen as cg
import lightworks as lw
from core import CIRCLE, GQ, PYTH, exc_class, mat_close

# index of the value fields per op kind (see circgen.op_bs / op_ps / op_loss)
_VALUE_FIELDS = {"bs": (4, 5), "ps": (3,), "loss": (3, 4)}


def param_key(op: list):
    ex = op[-1] if op and isinstance(op[-1], dict) else None
    return ex.get("param") if ex else None


def apply_op(pool: dict, op: list, params: dict | None = None) -> str:
    """circgen.apply_op plus Parameter-valued bs / ps / loss calls (`params`: key -> Parameter)"""
    if op[0] == "copyf":  # ["copyf", new, src]: copy(freeze_parameters=True); the model sees a plain copy (for_model)
        try:
            pool[op[1]] = pool[op[2]].copy(freeze_parameters=True)
        except Exception as e:  # noqa: BLE001
            return exc_class(e)
        return "ok"
    key = param_key(op)
    if key is None or params is None:
        return cg.apply_op(pool, op)
    name = op[0]
    try:
        if name == "ps":
            _, cid, m, p, lossab, _lv, extras = op
            g = GQ.parse(p)
            val = math.atan2(float(g.im), float(g.re))
            par = params.setdefault(key, lw.Parameter(val, label=key))
            pool[cid].ps(m, par, loss=cg._loss_val(lossab, extras))
        elif name == "bs":
            _, cid, m1, m2, c, _s, conv, lossab, _rv, _lv, extras = op
            par = params.setdefault(key, lw.Parameter(float(cg._f(c) ** 2), label=key))
            pool[cid].bs(m1, m2, reflectivity=par, loss=cg._loss_val(lossab, extras), convention=conv)
        elif name == "loss":
            _, cid, m, _a, b, _lv, extras = op
            par = params.setdefault(key, lw.Parameter(float(cg._f(b) ** 2), label=key))
            pool[cid].loss(m, par)
        else:
            raise AssertionError(f"op {name} cannot carry a Parameter")
    except AssertionError:
        raise
    except Exception as e:  # noqa: BLE001
        return exc_class(e)
    return "ok"


def with_param(rng, op: list, ptab: dict, p: float = 0.3) -> list:
    """with probability p turn a valid-valued bs / ps / loss op into its Parameter-valued form.
    `ptab` (key -> (kind, value fields)) lets a later op reuse an earlier Parameter, in which case it
    takes over that Parameter's value (one Parameter object has one value)."""
    kind = op[0]
    if kind not in _VALUE_FIELDS or not isinstance(op[-1], dict) or op[-1] or rng.random() >= p:
        return op
    if kind == "bs" and not (op[8] and op[9]):
        return op
    if kind in ("ps", "loss") and not op[5]:
        return op
    same_kind = [k for k, (kd, _) in ptab.items() if kd == kind]
    op = list(op)
    if same_kind and rng.random() < 0.4:
        key = rng.choice(same_kind)
        for idx, v in zip(_VALUE_FIELDS[kind], ptab[key][1]):
            op[idx] = v
    else:
        key = f"p{len(ptab)}"
        ptab[key] = (kind, [op[i] for i in _VALUE_FIELDS[kind]])
    op[-1] = {"param": key}
    return op


def snap(c) -> dict:
    """public observables of one live object: circgen.observe + every Parameter it reports"""
    o = cg.observe(c)
    try:
        o["params"] = [(id(p), repr(p.get()), repr(p.min_bound), repr(p.max_bound)) for p in c.get_all_params()]
    except Exception as e:  # noqa: BLE001
        o["params_error"] = exc_class(e)
    return o


def same(a: dict, b: dict, tol: float = 1e-12) -> bool:
    return diff(a, b, tol) is None


def diff(a: dict, b: dict, tol: float = 1e-12):
    """None when the two snapshots of one object agree, else the name of the first observable that differs"""
    if a["n"] != b["n"]:
        return f"n_modes {a['n']}->{b['n']}"
    if a["input_modes"] != b["input_modes"]:
        return f"input_modes {a['input_modes']}->{b['input_modes']}"
    if a["in_heralds"] != b["in_heralds"] or a["out_heralds"] != b["out_heralds"]:
        return "heralds"
    if a.get("params") != b.get("params") or a.get("params_error") != b.get("params_error"):
        return "get_all_params"
    if ("U_full" in a) != ("U_full" in b):
        return f"compilable {'U_full' in a}->{'U_full' in b} ({a.get('U_error')}->{b.get('U_error')})"
    if "U_full" in a:
        if a["U_full"].shape != b["U_full"].shape or not mat_close(a["U_full"], b["U_full"], tol):
            return "U_full"
        if a["U"].shape != b["U"].shape or not mat_close(a["U"], b["U"], tol):
            return "U"
    elif a.get("U_error") != b.get("U_error"):
        return f"compilation error {a.get('U_error')}->{b.get('U_error')}"
    return None


def for_model(prog: list) -> list:
    """the program as the driver knows it: a copy with frozen Parameters is a copy (Parameters are never re-set in these
    histories, so a Parameter is its value)"""
    return [["copy", *op[1:]] if op[0] == "copyf" else op for op in prog]


def well_formed(prog: list) -> bool:
    """circgen.well_formed on the real ops (pseudo-ops such as ["read", ...] are skipped)"""
    return cg.well_formed(for_model([op for op in prog if op[0] != "read"]))


# --------------------------------------------------------------------------- size bookkeeping


class Size:
    """upper estimate of the number of components and of loss elements per object.  Self-addition and
    sums double an object; a few of them in a row make the exact model's matrices (one extra mode per
    loss element) too large to report in reasonable time, so generators ask before they add."""

    def __init__(self, max_w: int = 40, max_loss: int = 6) -> None:
        self.w: dict = {}
        self.loss: dict = {}
        self.max_w, self.max_loss = max_w, max_loss

    def prim(self, op: list) -> None:
        cid = op[1]
        self.w[cid] = self.w.get(cid, 0) + 1
        k = {"bs": 2 if op[0] == "bs" and op[7] else 0, "ps": 1 if op[0] == "ps" and op[4] else 0, "loss": 1}.get(op[0], 0)
        self.loss[cid] = self.loss.get(cid, 0) + k

    def prim_op(self, op: list) -> list:
        self.prim(op)
        return op

    def add(self, par: str, sub: str) -> bool:
        w = self.w.get(par, 0) + self.w.get(sub, 0) + 1
        ls = self.loss.get(par, 0) + self.loss.get(sub, 0)
        if w > self.max_w or ls > self.max_loss:
            return False
        self.w[par], self.loss[par] = w, ls
        return True

    def copy(self, new: str, src: str) -> None:
        self.w[new], self.loss[new] = self.w.get(src, 0), self.loss.get(src, 0)

    def plus(self, new: str, a: str, b: str) -> bool:
        w = self.w.get(a, 0) + self.w.get(b, 0)
        ls = self.loss.get(a, 0) + self.loss.get(b, 0)
        if w > self.max_w or ls > self.max_loss:
            return False
        self.w[new], self.loss[new] = w, ls
        return True


# --------------------------------------------------------------------------- building blocks


class Book:
    """bookkeeping of a history under construction: ids in creation order, `ports` (user-visible modes)
    and `free` (modes occupied in a parent = ports minus own heralds) per id.  Optimistic: a call the
    generator believes valid may still be rejected, identically by the model and the code."""

    def __init__(self, rng, p_param: float = 0.25) -> None:
        self.rng = rng
        self.prog: list = []
        self.ids: list = []
        self.ports: dict = {}
        self.free: dict = {}
        self.has_group: dict = {}
        self.ptab: dict = {}
        self.p_param = p_param
        self.size = Size()
        # families (used by the C08 family stream): how many runs of mergeable swaps an id holds at its top level, and which
        # ids hold the very same component objects (copy() and a + b are shallow)
        self.mergeable: dict = {}
        self.shares: dict = {}

    def reg(self, cid: str, ports: int, free: int | None = None, grp: bool = False) -> None:
        self.size.w.setdefault(cid, 0)
        self.size.loss.setdefault(cid, 0)
        if cid not in self.ids:
            self.ids.append(cid)
        self.ports[cid] = ports
        self.free[cid] = ports if free is None else free
        self.has_group[cid] = grp

    def new(self, cid: str, n: int) -> str:
        self.prog.append(["new", cid, n])
        self.reg(cid, n)
        return cid

    def unitary(self, cid: str, n: int) -> str:
        self.prog.append(["unitary", cid, cg.mat_json(cg.exact_unitary(self.rng, n))])
        self.reg(cid, n)
        self.size.w[cid] = 1
        return cid

    def prim(self, cid: str, p_invalid: float = 0.0, k: int = 1) -> None:
        for _ in range(k):
            if self.ports[cid] < 1:
                return
            op = cg.rand_prim_op(self.rng, cid, self.ports[cid], p_invalid=p_invalid)
            self.size.prim(op)
            self.prog.append(with_param(self.rng, op, self.ptab, self.p_param))

    def herald(self, cid: str, i: int | None = None, o: int | None = None, nph: int | None = None) -> None:
        n = self.ports[cid]
        if n < 1:
            return
        rng = self.rng
        i = rng.randrange(n) if i is None else i
        o = rng.randrange(n) if o is None else o
        self.prog.append(["herald", cid, rng.choice([0, 1, 1, 2]) if nph is None else nph, i, o])
        self.free[cid] = max(0, self.free[cid] - 1)

    def place_mode(self, par: str, sub: str, positive: bool | None = None) -> int:
        """a mode at which `sub` fits in `par` (0 when it cannot fit: rejected by both sides)"""
        room = self.ports[par] - self.free[sub]
        if room <= 0:
            return 0
        if positive is None:
            positive = self.rng.random() < 0.7
        return self.rng.randint(1, room) if positive else 0

    def add(self, par: str, sub: str, m: int, group: bool) -> None:
        if not self.size.add(par, sub):
            return  # would grow beyond what the exact model reports in reasonable time
        self.prog.append(["add", par, sub, m, bool(group)])
        if group or self.has_group.get(sub):
            self.has_group[par] = True

    def copy(self, new: str, src: str) -> str:
        self.size.copy(new, src)
        self.prog.append(["copy", new, src])
        self.reg(new, self.ports[src], self.free[src], self.has_group.get(src, False))
        return new

    def plus(self, new: str, a: str, b: str) -> str:
        if not self.size.plus(new, a, b):
            return self.copy(new, a)
        self.prog.append(["plus", new, a, b])
        self.reg(new, self.ports[a], self.ports[a], self.has_group.get(a, False) or self.has_group.get(b, False))
        return new

    def copyf(self, new: str, src: str) -> str:
        """copy(freeze_parameters=True): a deep copy, shares nothing with its source"""
        self.size.copy(new, src)
        self.prog.append(["copyf", new, src])
        self.reg(new, self.ports[src], self.free[src], self.has_group.get(src, False))
        self.mergeable[new] = self.mergeable.get(src, 0)
        return new

    def relate(self, new: str, *srcs: str) -> None:
        """`new` was made from `srcs` by copy() / + : same component objects"""
        self.mergeable[new] = sum(self.mergeable.get(x, 0) for x in srcs)
        for x in srcs:
            self.shares.setdefault(new, set()).add(x)
            self.shares.setdefault(x, set()).add(new)

    def swap(self, cid: str, modes: list | None = None) -> list:
        """a mode_swaps call that moves something: a permutation without being the identity, on >= 2 (given) modes"""
        rng = self.rng
        n = self.ports[cid]
        if modes is None:
            modes = rng.sample(range(n), rng.randint(2, n))
        tgt = list(modes)
        while tgt == list(modes):
            rng.shuffle(tgt)
        pairs = [[a, b] for a, b in zip(modes, tgt)]
        rng.shuffle(pairs)
        op = ["swaps", cid, pairs]
        self.size.prim(op)
        self.prog.append(op)
        return pairs

    def swap_run(self, cid: str, pattern: str | None = None) -> str | None:
        """>= 2 mode swaps at the top level of `cid` that compress_mode_swaps can merge: next to each other, separated by a
        component on modes the later swap does not touch, or following a swap that is blocked"""
        rng = self.rng
        n = self.ports[cid]
        if n < 2:
            return None
        pattern = pattern or rng.choice(["two", "two", "three", "component-between", "blocked-then-two"])
        if n < 3 and pattern in ("component-between", "blocked-then-two"):
            pattern = "two"
        if pattern == "two":
            self.swap(cid)
            self.swap(cid)
        elif pattern == "three":
            self.swap(cid)
            self.swap(cid)
            self.swap(cid)
        elif pattern == "component-between":
            later = rng.sample(range(n), rng.randint(2, n - 1))
            m = rng.choice([x for x in range(n) if x not in later])
            self.swap(cid)
            op = cg.op_ps(cid, m, rng.choice(CIRCLE)) if rng.random() < 0.7 else ["barrier", cid, [m]]
            self.size.prim(op)
            self.prog.append(op)
            self.swap(cid, later)
        else:
            x, y = rng.sample(range(n), 2)
            self.swap(cid)
            op = cg.op_bs(cid, x, y, *rng.choice(PYTH))
            self.size.prim(op)
            self.prog.append(op)
            rest = [z for z in range(n) if z != x]
            self.swap(cid, [x, rng.choice(rest)])  # touches a blocked mode: stays
            self.swap(cid)                          # merges into the one before
        self.mergeable[cid] = self.mergeable.get(cid, 0) + 1
        return pattern

    def small_heralded(self, cid: str) -> str:
        """2- or 3-mode sub-circuit with one herald (always grouped when added; gives its parent an ancilla)"""
        rng = self.rng
        n = rng.choice([2, 2, 3])
        self.new(cid, n)
        self.prog.append(cg.op_bs(cid, 0, 1, *rng.choice(PYTH)))
        self.size.w[cid] += 2
        if rng.random() < 0.5:
            self.prog.append(cg.op_ps(cid, rng.randrange(n), rng.choice(CIRCLE)))
        self.herald(cid, rng.randrange(n), rng.randrange(n), rng.choice([0, 1]))
        return cid
