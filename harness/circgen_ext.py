"""
Extensions of circgen used by the C01 and C08 checks only (circgen itself is shared with C02/C09 and
is left untouched):

  * Parameter-valued calls.  A bs / ps / loss op whose trailing dict carries {"param": key} is run on
    the implementation with a `lightworks.Parameter` holding the op's value (phase, reflectivity,
    loss) instead of the literal; the same key used in two ops is the same Parameter object.  The
    driver ignores trailing dicts, so the model sees the literal: a Parameter that is never re-set
    must behave exactly like its value.
  * snapshots that also carry `get_all_params` (identity and value of every Parameter) and the class
    of the compilation error, and their comparison.
  * building-block bookkeeping (`Book`): which ids are live, how many user-visible modes each one
    has and how many modes it occupies when it is added to a parent.
  * CALLER-OWNED DATA (`Client`): the client's own containers - the ndarray work buffer a unitary block is read
    from, the dictionary handed to mode_swaps, the list handed to barrier - are RE-USED: refilled for the next
    call, overwritten, cleared (`scrub`), and what the library hands out (U, U_full, heralds) is written into
    (`scribble`).  Pseudo-ops ["client", cfg] / ["scrub", kind, how] / ["scribble", id, attr, how] (never seen by
    the model: for the model a matrix is a value).
"""

from __future__ import annotations

import math

import numpy as np

import circgen as cg
import lightworks as lw
from core import CIRCLE, GQ, PYTH, exc_class, mat_close

# index of the value fields per op kind (see circgen.op_bs / op_ps / op_loss)
_VALUE_FIELDS = {"bs": (4, 5), "ps": (3,), "loss": (3, 4)}


def param_key(op: list):
    ex = op[-1] if op and isinstance(op[-1], dict) else None
    return ex.get("param") if ex else None


def apply_op(pool: dict, op: list, params: dict | None = None) -> str:
    """circgen.apply_op plus Parameter-valued bs / ps / loss calls (`params`: key -> Parameter)"""
    if op[0] == "copyf":  # ["copyf", new, src]: copy(freeze_parameters=True); the model sees a plain copy (for_model)
        try:
            pool[op[1]] = pool[op[2]].copy(freeze_parameters=True)
        except Exception as e:  # noqa: BLE001
            return exc_class(e)
        return "ok"
    key = param_key(op)
    if key is None or params is None:
        return cg.apply_op(pool, op)
    name = op[0]
    try:
        if name == "ps":
            _, cid, m, p, lossab, _lv, extras = op
            g = GQ.parse(p)
            val = math.atan2(float(g.im), float(g.re))
            par = params.setdefault(key, lw.Parameter(val, label=key))
            pool[cid].ps(m, par, loss=cg._loss_val(lossab, extras))
        elif name == "bs":
            _, cid, m1, m2, c, _s, conv, lossab, _rv, _lv, extras = op
            par = params.setdefault(key, lw.Parameter(float(cg._f(c) ** 2), label=key))
            pool[cid].bs(m1, m2, reflectivity=par, loss=cg._loss_val(lossab, extras), convention=conv)
        elif name == "loss":
            _, cid, m, _a, b, _lv, extras = op
            par = params.setdefault(key, lw.Parameter(float(cg._f(b) ** 2), label=key))
            pool[cid].loss(m, par)
        else:
            raise AssertionError(f"op {name} cannot carry a Parameter")
    except AssertionError:
        raise
    except Exception as e:  # noqa: BLE001
        return exc_class(e)
    return "ok"


def with_param(rng, op: list, ptab: dict, p: float = 0.3) -> list:
    """with probability p turn a valid-valued bs / ps / loss op into its Parameter-valued form.
    `ptab` (key -> (kind, value fields)) lets a later op reuse an earlier Parameter, in which case it
    takes over that Parameter's value (one Parameter object has one value)."""
    kind = op[0]
    if kind not in _VALUE_FIELDS or not isinstance(op[-1], dict) or op[-1] or rng.random() >= p:
        return op
    if kind == "bs" and not (op[8] and op[9]):
        return op
    if kind in ("ps", "loss") and not op[5]:
        return op
    same_kind = [k for k, (kd, _) in ptab.items() if kd == kind]
    op = list(op)
    if same_kind and rng.random() < 0.4:
        key = rng.choice(same_kind)
        for idx, v in zip(_VALUE_FIELDS[kind], ptab[key][1]):
            op[idx] = v
    else:
        key = f"p{len(ptab)}"
        ptab[key] = (kind, [op[i] for i in _VALUE_FIELDS[kind]])
    op[-1] = {"param": key}
    return op


def snap(c) -> dict:
    """public observables of one live object: circgen.observe + every Parameter it reports"""
    o = cg.observe(c)
    try:
        o["params"] = [(id(p), repr(p.get()), repr(p.min_bound), repr(p.max_bound)) for p in c.get_all_params()]
    except Exception as e:  # noqa: BLE001
        o["params_error"] = exc_class(e)
    return o


def same(a: dict, b: dict, tol: float = 1e-12) -> bool:
    return diff(a, b, tol) is None


def diff(a: dict, b: dict, tol: float = 1e-12):
    """None when the two snapshots of one object agree, else the name of the first observable that differs"""
    if a["n"] != b["n"]:
        return f"n_modes {a['n']}->{b['n']}"
    if a["input_modes"] != b["input_modes"]:
        return f"input_modes {a['input_modes']}->{b['input_modes']}"
    if a["in_heralds"] != b["in_heralds"] or a["out_heralds"] != b["out_heralds"]:
        return "heralds"
    if a.get("params") != b.get("params") or a.get("params_error") != b.get("params_error"):
        return "get_all_params"
    if ("U_full" in a) != ("U_full" in b):
        return f"compilable {'U_full' in a}->{'U_full' in b} ({a.get('U_error')}->{b.get('U_error')})"
    if "U_full" in a:
        if a["U_full"].shape != b["U_full"].shape or not mat_close(a["U_full"], b["U_full"], tol):
            return "U_full"
        if a["U"].shape != b["U"].shape or not mat_close(a["U"], b["U"], tol):
            return "U"
    elif a.get("U_error") != b.get("U_error"):
        return f"compilation error {a.get('U_error')}->{b.get('U_error')}"
    return None


def for_model(prog: list) -> list:
    """the program as the driver knows it: a copy with frozen Parameters is a copy (Parameters are never re-set in these
    histories, so a Parameter is its value)"""
    return [["copy", *op[1:]] if op[0] == "copyf" else op for op in prog if op[0] not in CLIENT_PSEUDO]


def well_formed(prog: list) -> bool:
    """circgen.well_formed on the real ops (pseudo-ops such as ["read", ...] are skipped)"""
    return cg.well_formed(for_model([op for op in prog if op[0] != "read" and op[0] not in CLIENT_PSEUDO]))


# --------------------------------------------------------------------------- size bookkeeping


class Size:
    """upper estimate of the number of components and of loss elements per object.  Self-addition and
    sums double an object; a few of them in a row make the exact model's matrices (one extra mode per
    loss element) too large to report in reasonable time, so generators ask before they add."""

    def __init__(self, max_w: int = 40, max_loss: int = 6) -> None:
        self.w: dict = {}
        self.loss: dict = {}
        self.max_w, self.max_loss = max_w, max_loss

    def prim(self, op: list) -> None:
        cid = op[1]
        self.w[cid] = self.w.get(cid, 0) + 1
        k = {"bs": 2 if op[0] == "bs" and op[7] else 0, "ps": 1 if op[0] == "ps" and op[4] else 0, "loss": 1}.get(op[0], 0)
        self.loss[cid] = self.loss.get(cid, 0) + k

    def prim_op(self, op: list) -> list:
        self.prim(op)
        return op

    def add(self, par: str, sub: str) -> bool:
        w = self.w.get(par, 0) + self.w.get(sub, 0) + 1
        ls = self.loss.get(par, 0) + self.loss.get(sub, 0)
        if w > self.max_w or ls > self.max_loss:
            return False
        self.w[par], self.loss[par] = w, ls
        return True

    def copy(self, new: str, src: str) -> None:
        self.w[new], self.loss[new] = self.w.get(src, 0), self.loss.get(src, 0)

    def plus(self, new: str, a: str, b: str) -> bool:
        w = self.w.get(a, 0) + self.w.get(b, 0)
        ls = self.loss.get(a, 0) + self.loss.get(b, 0)
        if w > self.max_w or ls > self.max_loss:
            return False
        self.w[new], self.loss[new] = w, ls
        return True


# --------------------------------------------------------------------------- building blocks


class Book:
    """bookkeeping of a history under construction: ids in creation order, `ports` (user-visible modes)
    and `free` (modes occupied in a parent = ports minus own heralds) per id.  Optimistic: a call the
    generator believes valid may still be rejected, identically by the model and the code."""

    def __init__(self, rng, p_param: float = 0.25) -> None:
        self.rng = rng
        self.prog: list = []
        self.ids: list = []
        self.ports: dict = {}
        self.free: dict = {}
        self.has_group: dict = {}
        self.ptab: dict = {}
        self.p_param = p_param
        self.size = Size()
        # families (used by the C08 family stream): how many runs of mergeable swaps an id holds at its top level, and which
        # ids hold the very same component objects (copy() and a + b are shallow)
        self.mergeable: dict = {}
        self.shares: dict = {}

    def reg(self, cid: str, ports: int, free: int | None = None, grp: bool = False) -> None:
        self.size.w.setdefault(cid, 0)
        self.size.loss.setdefault(cid, 0)
        if cid not in self.ids:
            self.ids.append(cid)
        self.ports[cid] = ports
        self.free[cid] = ports if free is None else free
        self.has_group[cid] = grp

    def new(self, cid: str, n: int) -> str:
        self.prog.append(["new", cid, n])
        self.reg(cid, n)
        return cid

    def unitary(self, cid: str, n: int) -> str:
        self.prog.append(["unitary", cid, cg.mat_json(cg.exact_unitary(self.rng, n))])
        self.reg(cid, n)
        self.size.w[cid] = 1
        return cid

    def prim(self, cid: str, p_invalid: float = 0.0, k: int = 1) -> None:
        for _ in range(k):
            if self.ports[cid] < 1:
                return
            op = cg.rand_prim_op(self.rng, cid, self.ports[cid], p_invalid=p_invalid)
            self.size.prim(op)
            self.prog.append(with_param(self.rng, op, self.ptab, self.p_param))

    def herald(self, cid: str, i: int | None = None, o: int | None = None, nph: int | None = None) -> None:
        n = self.ports[cid]
        if n < 1:
            return
        rng = self.rng
        i = rng.randrange(n) if i is None else i
        o = rng.randrange(n) if o is None else o
        self.prog.append(["herald", cid, rng.choice([0, 1, 1, 2]) if nph is None else nph, i, o])
        self.free[cid] = max(0, self.free[cid] - 1)

    def place_mode(self, par: str, sub: str, positive: bool | None = None) -> int:
        """a mode at which `sub` fits in `par` (0 when it cannot fit: rejected by both sides)"""
        room = self.ports[par] - self.free[sub]
        if room <= 0:
            return 0
        if positive is None:
            positive = self.rng.random() < 0.7
        return self.rng.randint(1, room) if positive else 0

    def add(self, par: str, sub: str, m: int, group: bool) -> None:
        if not self.size.add(par, sub):
            return  # would grow beyond what the exact model reports in reasonable time
        self.prog.append(["add", par, sub, m, bool(group)])
        if group or self.has_group.get(sub):
            self.has_group[par] = True

    def copy(self, new: str, src: str) -> str:
        self.size.copy(new, src)
        self.prog.append(["copy", new, src])
        self.reg(new, self.ports[src], self.free[src], self.has_group.get(src, False))
        return new

    def plus(self, new: str, a: str, b: str) -> str:
        if not self.size.plus(new, a, b):
            return self.copy(new, a)
        self.prog.append(["plus", new, a, b])
        self.reg(new, self.ports[a], self.ports[a], self.has_group.get(a, False) or self.has_group.get(b, False))
        return new

    def copyf(self, new: str, src: str) -> str:
        """copy(freeze_parameters=True): a deep copy, shares nothing with its source"""
        self.size.copy(new, src)
        self.prog.append(["copyf", new, src])
        self.reg(new, self.ports[src], self.free[src], self.has_group.get(src, False))
        self.mergeable[new] = self.mergeable.get(src, 0)
        return new

    def relate(self, new: str, *srcs: str) -> None:
        """`new` was made from `srcs` by copy() / + : same component objects"""
        self.mergeable[new] = sum(self.mergeable.get(x, 0) for x in srcs)
        for x in srcs:
            self.shares.setdefault(new, set()).add(x)
            self.shares.setdefault(x, set()).add(new)

    def swap(self, cid: str, modes: list | None = None) -> list:
        """a mode_swaps call that moves something: a permutation without being the identity, on >= 2 (given) modes"""
        rng = self.rng
        n = self.ports[cid]
        if modes is None:
            modes = rng.sample(range(n), rng.randint(2, n))
        tgt = list(modes)
        while tgt == list(modes):
            rng.shuffle(tgt)
        pairs = [[a, b] for a, b in zip(modes, tgt)]
        rng.shuffle(pairs)
        op = ["swaps", cid, pairs]
        self.size.prim(op)
        self.prog.append(op)
        return pairs

    def swap_run(self, cid: str, pattern: str | None = None) -> str | None:
        """>= 2 mode swaps at the top level of `cid` that compress_mode_swaps can merge: next to each other, separated by a
        component on modes the later swap does not touch, or following a swap that is blocked"""
        rng = self.rng
        n = self.ports[cid]
        if n < 2:
            return None
        pattern = pattern or rng.choice(["two", "two", "three", "component-between", "blocked-then-two"])
        if n < 3 and pattern in ("component-between", "blocked-then-two"):
            pattern = "two"
        if pattern == "two":
            self.swap(cid)
            self.swap(cid)
        elif pattern == "three":
            self.swap(cid)
            self.swap(cid)
            self.swap(cid)
        elif pattern == "component-between":
            later = rng.sample(range(n), rng.randint(2, n - 1))
            m = rng.choice([x for x in range(n) if x not in later])
            self.swap(cid)
            op = cg.op_ps(cid, m, rng.choice(CIRCLE)) if rng.random() < 0.7 else ["barrier", cid, [m]]
            self.size.prim(op)
            self.prog.append(op)
            self.swap(cid, later)
        else:
            x, y = rng.sample(range(n), 2)
            self.swap(cid)
            op = cg.op_bs(cid, x, y, *rng.choice(PYTH))
            self.size.prim(op)
            self.prog.append(op)
            rest = [z for z in range(n) if z != x]
            self.swap(cid, [x, rng.choice(rest)])  # touches a blocked mode: stays
            self.swap(cid)                          # merges into the one before
        self.mergeable[cid] = self.mergeable.get(cid, 0) + 1
        return pattern

    def small_heralded(self, cid: str) -> str:
        """2- or 3-mode sub-circuit with one herald (always grouped when added; gives its parent an ancilla)"""
        rng = self.rng
        n = rng.choice([2, 2, 3])
        self.new(cid, n)
        self.prog.append(cg.op_bs(cid, 0, 1, *rng.choice(PYTH)))
        self.size.w[cid] += 2
        if rng.random() < 0.5:
            self.prog.append(cg.op_ps(cid, rng.randrange(n), rng.choice(CIRCLE)))
        self.herald(cid, rng.randrange(n), rng.randrange(n), rng.choice([0, 1]))
        return cid


# --------------------------------------------------------------------------- caller-owned data
#
# circgen.apply_op builds a fresh ndarray / dict / list for every call and drops it afterwards, which is how tests are
# written and not how clients work: a client fills ONE work buffer with the next block in a loop, keeps one dictionary
# for its permutations, resets its matrix to the identity when it is done.  Whatever the library was given is an input
# value: every object built from it must be unaffected by what the client does with its own container afterwards, and
# the call must leave the container as the client filled it.

CLIENT_PSEUDO = ("client", "scrub", "scribble")
CLIENT_UNITARY = ["buffer", "buffer", "view", "fortran"]
SCRUB_HOW = {"unitary": ["identity", "zero", "negate", "transpose", "permute"], "swaps": ["clear", "rotate", "junk"],
             "modes": ["clear", "append", "reverse"]}
SCRIBBLE_ATTR = ["U", "U_full", "heralds"]
SCRIBBLE_HOW = ["zero", "scale", "elem"]


def rand_client_cfg(rng) -> dict:
    return {"unitary": rng.choice(CLIENT_UNITARY), "swaps": "shared" if rng.random() < 0.8 else "fresh",
            "modes": "shared" if rng.random() < 0.8 else "fresh"}


def rand_scrub(rng, kind: str | None = None) -> list:
    kind = kind or rng.choice(["unitary", "unitary", "unitary", "swaps", "modes"])
    return ["scrub", kind, rng.choice(SCRUB_HOW[kind])]


class Client:
    """the client's own containers.  cfg: unitary = buffer (one C-ordered complex array per block size) | view (the
    leading k x k corner of one large array: blocks of different sizes overlap) | fortran (column-major buffer) |
    fresh (as circgen does); swaps / modes = shared (one dict / list for all calls) | fresh"""

    def __init__(self, cfg: dict | None = None) -> None:
        cfg = dict(cfg or {})
        self.unitary = cfg.get("unitary", "buffer")
        self.swaps_mode = cfg.get("swaps", "shared")
        self.modes_mode = cfg.get("modes", "shared")
        self.bufs: dict = {}
        self.big = None
        self.swaps: dict = {}
        self.modes: list = []
        self.used: set = set()      # kinds of container that were handed to the library so far
        self.problems: list = []    # calls that changed the container they were given

    def _buffer(self, sz: int):
        if self.unitary == "view":
            if self.big is None or self.big.shape[0] < sz:
                self.big = np.zeros((max(8, sz), max(8, sz)), dtype=complex)
                self.bufs.clear()
            self.bufs[sz] = self.big[:sz, :sz]
        elif sz not in self.bufs:
            self.bufs[sz] = np.zeros((sz, sz), dtype=complex, order="F" if self.unitary == "fortran" else "C")
        return self.bufs[sz]

    def apply(self, pool: dict, op: list, params: dict | None = None) -> str:
        name = op[0]
        if name == "unitary" and self.unitary != "fresh":
            u = np.array([[complex(GQ.parse(x)) for x in r] for r in op[2]], dtype=complex)
            buf = self._buffer(u.shape[0])
            buf[...] = u
            self.used.add("unitary")
            try:
                pool[op[1]] = lw.Unitary(buf)
                r = "ok"
            except Exception as e:  # noqa: BLE001
                r = exc_class(e)
            if not np.array_equal(buf, u):
                self.problems.append(f"Unitary(array) ({r}) changed the array it was given")
            return r
        if name == "swaps" and self.swaps_mode == "shared":
            want = {k: v for k, v in op[2]}
            d = self.swaps
            d.clear()
            d.update(want)
            self.used.add("swaps")
            try:
                pool[op[1]].mode_swaps(d)
                r = "ok"
            except Exception as e:  # noqa: BLE001
                r = exc_class(e)
            if list(d.items()) != list(want.items()):
                self.problems.append(f"mode_swaps(dict) ({r}) changed the dictionary it was given")
            return r
        if name == "barrier" and self.modes_mode == "shared" and op[2] is not None:
            lst = self.modes
            lst[:] = op[2]
            self.used.add("modes")
            try:
                pool[op[1]].barrier(lst)
                r = "ok"
            except Exception as e:  # noqa: BLE001
                r = exc_class(e)
            if lst != list(op[2]):
                self.problems.append(f"barrier(list) ({r}) changed the list it was given")
            return r
        return apply_op(pool, op, params)

    def scrub(self, kind: str, how: str) -> bool:
        """the client overwrites / clears / refills its own container(s) of one kind; False when the library was never
        given one (nothing can depend on it)"""
        if kind not in self.used:
            return False
        if kind == "unitary":
            arrs = [self.big] if self.unitary == "view" else list(self.bufs.values())
            for a in arrs:
                if how == "identity":
                    a[...] = np.eye(a.shape[0])
                elif how == "zero":
                    a[...] = 0
                elif how == "negate":
                    a *= -1
                elif how == "transpose":
                    a[...] = a.T.copy()
                else:  # rows cycled: another unitary
                    a[...] = np.roll(a, 1, axis=0) * 1j
        elif kind == "swaps":
            d = self.swaps
            if how == "clear":
                d.clear()
            elif how == "rotate":
                ks = list(d)
                vs = [d[k] for k in ks]
                for k, v in zip(ks, vs[1:] + vs[:1]):
                    d[k] = v
                if len(ks) < 2:
                    d[0], d[1] = 1, 0
            else:
                d[97] = 98
        else:
            lst = self.modes
            if how == "clear":
                lst.clear()
            elif how == "append":
                lst += [97, -3]
            else:
                lst.reverse()
                lst.append(0)
        return True


def scribble(pool: dict, cid: str, attr: str, how: str) -> str | None:
    """the client writes into what the library handed out for object `cid` (a post-processing step in place);
    returns what was written into, None when there was nothing to write into"""
    c = pool.get(cid)
    if c is None:
        return None
    try:
        if attr == "heralds":
            h = c.heralds
            h["input"][97] = 1
            h["output"].clear()
            h["junk"] = {0: 0}
            return "the dictionary returned by .heralds"
        m = getattr(c, attr)
    except Exception:  # noqa: BLE001  (does not compile: nothing is handed out)
        return None
    if not isinstance(m, np.ndarray) or m.ndim != 2 or not m.size:
        return None
    if not m.flags.writeable:
        return f"the read-only matrix returned by .{attr} (left alone)"
    if how == "zero":
        m[...] = 0
    elif how == "scale":
        m *= 2j
    else:
        m[0, -1] += 1
    return f"the matrix returned by .{attr}"


def step(pool: dict, op: list, params: dict | None, client: "Client | None") -> str:
    """one REAL op, through the client's containers when there is a client"""
    return client.apply(pool, op, params) if client is not None else apply_op(pool, op, params)


def client_of(prog: list) -> "Client | None":
    """the Client a program asks for with its ["client", cfg] pseudo-op (None: fresh containers per call)"""
    for op in prog:
        if op[0] == "client":
            return Client(op[1])
    return None
