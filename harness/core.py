"""
Shared machinery of the checks: driver client, proof-obligation audit, evidence writer,
violation / known-finding reporting, shrinking.

Everything random derives from one PRNG seeded by VERIF_SEED so that a run replays exactly.
"""

from __future__ import annotations

import json
import os
import random
import re
import subprocess
import sys
import time
from fractions import Fraction
from pathlib import Path

VERIF = Path(__file__).resolve().parent.parent
LEAN = VERIF / "lean"
DRIVER = LEAN / ".lake" / "build" / "bin" / "lwdriver"
# seeded-change runs (tools/run_seeded.py) redirect these so that they never overwrite the evidence of
# the registered checks, which always write to /verif/evidence
EVIDENCE = Path(os.environ.get("VERIF_EVIDENCE_DIR") or VERIF / "evidence")
REPLAYS = Path(os.environ.get("VERIF_REPLAY_DIR") or VERIF / "replays")
KNOWN = VERIF / "known_findings.json"
ALLOWED_AXIOMS = {"propext", "Classical.choice", "Quot.sound"}
FORBIDDEN = [
    r"\bsorry\b",
    r"\badmit\b",
    r"^\s*axiom\s",
    r"\bnative_decide\b",
    r"\bbv_decide\b",
    r"\bimplemented_by\b",
    r"\bunsafe\s",
    r"maxHeartbeats\s+0\b",
    r"\bextern\b",
]


class MachineryFault(Exception):
    """The checking machinery itself is broken (exit 2) — never a property violation."""


class ImplementationStall(BaseException):  # not an Exception: harness code that records the
    # implementation's exceptions (`except Exception`) must not swallow it
    """raised in the main thread by the watchdog (main.py) when the implementation under test has not
    returned for a long time (e.g. a loop that no longer terminates after a change to the code)"""


_PROGRESS = [time.time()]


def heartbeat() -> None:
    _PROGRESS[0] = time.time()


# --------------------------------------------------------------------------- exact numbers


def frac_str(x: Fraction | int) -> str:
    x = Fraction(x)
    return str(x.numerator) if x.denominator == 1 else f"{x.numerator}/{x.denominator}"


class GQ:
    """Gaussian rational, mirrors LW.GQ."""

    __slots__ = ("im", "re")

    def __init__(self, re: Fraction | int = 0, im: Fraction | int = 0) -> None:
        self.re = Fraction(re)
        self.im = Fraction(im)

    def __mul__(self, o: "GQ") -> "GQ":
        o = o if isinstance(o, GQ) else GQ(o)
        return GQ(self.re * o.re - self.im * o.im, self.re * o.im + self.im * o.re)

    __rmul__ = __mul__

    def __add__(self, o: "GQ") -> "GQ":
        o = o if isinstance(o, GQ) else GQ(o)
        return GQ(self.re + o.re, self.im + o.im)

    def __neg__(self) -> "GQ":
        return GQ(-self.re, -self.im)

    def conj(self) -> "GQ":
        return GQ(self.re, -self.im)

    def __complex__(self) -> complex:
        return complex(float(self.re), float(self.im))

    def __eq__(self, o: object) -> bool:
        o = o if isinstance(o, GQ) else GQ(o)  # type: ignore[arg-type]
        return self.re == o.re and self.im == o.im

    def __hash__(self) -> int:
        return hash((self.re, self.im))

    def __repr__(self) -> str:
        return self.s()

    def s(self) -> str:
        return f"{frac_str(self.re)},{frac_str(self.im)}"

    @staticmethod
    def parse(s: str) -> "GQ":
        parts = s.split(",")
        if len(parts) == 1:
            return GQ(Fraction(parts[0]))
        return GQ(Fraction(parts[0]), Fraction(parts[1]))


def parse_mat(rows: list) -> list[list[complex]]:
    return [[complex(GQ.parse(x)) for x in r] for r in rows]


# Pythagorean points (c, s) with c^2 + s^2 = 1, c, s >= 0 (boundary points included).
def pyth_points(max_m: int = 6) -> list[tuple[Fraction, Fraction]]:
    pts = {(Fraction(1), Fraction(0)), (Fraction(0), Fraction(1))}
    for m in range(1, max_m + 1):
        for n in range(1, m):
            a, b, c = m * m - n * n, 2 * m * n, m * m + n * n
            pts.add((Fraction(a, c), Fraction(b, c)))
            pts.add((Fraction(b, c), Fraction(a, c)))
    return sorted(pts)


PYTH = pyth_points()


def circle_points() -> list[GQ]:
    """rational points on the unit circle in all four quadrants"""
    out = []
    for c, s in PYTH:
        for sc in (1, -1):
            for ss in (1, -1):
                g = GQ(sc * c, ss * s)
                if g not in out:
                    out.append(g)
    return out


CIRCLE = circle_points()


# --------------------------------------------------------------------------- driver client


class Model:
    """Line-protocol client for the compiled Lean driver (exact model)."""

    def __init__(self) -> None:
        if not DRIVER.exists():
            build_lean(["lwdriver"])
        self.p = subprocess.Popen(
            [str(DRIVER)],
            stdin=subprocess.PIPE,
            stdout=subprocess.PIPE,
            text=True,
            bufsize=1,
        )
        self.calls = 0
        if self.call({"op": "ping"}) != "pong":
            raise MachineryFault("driver does not answer ping")

    def call(self, req: dict):
        self.calls += 1
        heartbeat()
        assert self.p.stdin and self.p.stdout
        self.p.stdin.write(json.dumps(req) + "\n")
        self.p.stdin.flush()
        line = self.p.stdout.readline()
        if not line:
            raise MachineryFault(f"driver died on request {json.dumps(req)[:400]}")
        resp = json.loads(line)
        if "error" in resp:
            raise MachineryFault(f"driver rejected request: {resp['error']} :: {json.dumps(req)[:400]}")
        return resp["ok"]

    def close(self) -> None:
        try:
            if self.p.stdin:
                self.p.stdin.close()
            self.p.wait(timeout=5)
        except Exception:  # noqa: BLE001
            self.p.kill()


# --------------------------------------------------------------------------- Lean side


def run_cmd(cmd: list[str], cwd: Path, timeout: int = 3600) -> tuple[int, str]:
    r = subprocess.run(cmd, cwd=cwd, capture_output=True, text=True, timeout=timeout, check=False)
    return r.returncode, r.stdout + r.stderr


def build_lean(targets: list[str]) -> str:
    rc, out = run_cmd(["lake", "build", *targets], LEAN)
    if rc != 0:
        raise MachineryFault("lake build failed:\n" + out[-4000:])
    return out


def strip_comments(src: str) -> str:
    # remove nested block comments and line comments
    out = []
    i, depth, n = 0, 0, len(src)
    while i < n:
        if src.startswith("/-", i):
            depth += 1
            i += 2
        elif depth and src.startswith("-/", i):
            depth -= 1
            i += 2
        elif depth:
            if src[i] == "\n":
                out.append("\n")
            i += 1
        elif src.startswith("--", i):
            while i < n and src[i] != "\n":
                i += 1
        else:
            out.append(src[i])
            i += 1
    return "".join(out)


def forbidden_tokens() -> list[str]:
    hits = []
    files = list((LEAN / "LW").rglob("*.lean")) + [LEAN / "Driver.lean", LEAN / "LW.lean"]
    for f in files:
        code = strip_comments(f.read_text())
        for ln, line in enumerate(code.splitlines(), 1):
            for pat in FORBIDDEN:
                if re.search(pat, line):
                    hits.append(f"{f.relative_to(LEAN)}:{ln}: {line.strip()[:120]}")
    return hits


# further theorem files audited together with a property (shared results the property relies on)
EXTRA_MODULES = {
    "C01": ["Reach"],
    "C02": ["Reach", "C02Sem", "C02Amp"],
    "C09": ["Reach"],
    "C16": ["C16Proj"],
    "C05": ["PostSel"],
    "C07": ["PostSel"],
}


def property_theorems(prop: str) -> list[str]:
    """names of the theorems stated in LW/Properties/<prop>.lean (fully qualified)"""
    names: list[str] = []
    for mod in [prop, *EXTRA_MODULES.get(prop, [])]:
        names += _theorems_in(mod)
    return names


def _theorems_in(prop: str) -> list[str]:
    f = LEAN / "LW" / "Properties" / f"{prop}.lean"
    if not f.exists():
        raise MachineryFault(f"no property file {f}")
    code = strip_comments(f.read_text())
    ns: list[str] = []
    names = []
    for line in code.splitlines():
        m = re.match(r"^namespace\s+(\S+)", line)
        if m:
            ns.append(m.group(1))
            continue
        m = re.match(r"^end\s+(\S+)", line)
        if m and ns and ns[-1] == m.group(1):
            ns.pop()
            continue
        m = re.match(r"^(?:@\[[^\]]*\]\s*)?(?:protected\s+|private\s+)?theorem\s+(\S+)", line)
        if m:
            names.append(".".join([*ns, m.group(1)]))
    return names


def proof_audit(prop: str, thorough: bool = False) -> dict:
    """build the property module, grep forbidden tokens, audit axioms of every property theorem
    (serialised across concurrently running checks: lake builds must not race on .lake)"""
    import fcntl

    (LEAN / ".lake").mkdir(exist_ok=True)
    with open(LEAN / ".lake" / "verif.lock", "w") as lock:
        fcntl.flock(lock, fcntl.LOCK_EX)
        try:
            return _proof_audit(prop, thorough)
        finally:
            fcntl.flock(lock, fcntl.LOCK_UN)


def _proof_audit(prop: str, thorough: bool = False) -> dict:
    t0 = time.time()
    mod = f"LW.Properties.{prop}"
    extra = [f"LW.Properties.{m}" for m in EXTRA_MODULES.get(prop, [])]
    build_lean([mod, *extra, "lwdriver"])
    hits = forbidden_tokens()
    if hits:
        raise MachineryFault("forbidden tokens in Lean sources:\n" + "\n".join(hits))
    thms = property_theorems(prop)
    if not thms:
        raise MachineryFault(f"{mod} states no theorem")
    audit_dir = LEAN / ".lake" / "audit"
    audit_dir.mkdir(parents=True, exist_ok=True)
    af = audit_dir / f"Audit{prop}.lean"
    af.write_text("".join(f"import {m}\n" for m in [mod, *extra]) + "".join(f"#print axioms {t}\n" for t in thms))
    rc, out = run_cmd(["lake", "env", "lean", str(af)], LEAN)
    if rc != 0:
        raise MachineryFault("axiom audit failed:\n" + out[-4000:])
    # parse "'name' depends on axioms: [a, b]" / "'name' does not depend on any axioms"
    axioms: dict[str, list[str]] = {}
    for m in re.finditer(r"'([^']+)' depends on axioms: \[([^\]]*)\]", out.replace("\n", " ")):
        axioms[m.group(1)] = [a.strip() for a in m.group(2).split(",") if a.strip()]
    for m in re.finditer(r"'([^']+)' does not depend on any axioms", out):
        axioms[m.group(1)] = []
    bad = {t: a for t, a in axioms.items() if not set(a) <= ALLOWED_AXIOMS}
    missing = [t for t in thms if t not in axioms]
    if bad or missing:
        raise MachineryFault(f"axiom audit: unexpected axioms {bad}, unreported theorems {missing}")
    res = {
        "module": mod,
        "theorems": thms,
        "axioms": {t: axioms[t] for t in thms},
        "obligations": len(thms),
        "discharged": len([t for t in thms if t in axioms]),
        "audit_s": round(time.time() - t0, 2),
    }
    if thorough:
        t1 = time.time()
        rc, out = run_cmd(["lake", "env", "leanchecker", mod, *extra], LEAN, timeout=3000)
        res["leanchecker"] = {"rc": rc, "tail": out[-300:], "s": round(time.time() - t1, 1)}
        if rc != 0:
            raise MachineryFault("leanchecker rejected the compiled proofs:\n" + out[-3000:])
    return res


# --------------------------------------------------------------------------- implementation coverage


class ImplCoverage:
    """Measures which lines of the property's anchor files (properties.jsonl: anchors.files) the
    correspondence run executed on the implementation.  Reported in the evidence so that a reader
    can see how much of the modelled code the model was actually compared against; it decides
    nothing."""

    def __init__(self, prop: str, repo: str) -> None:
        self.repo = os.path.realpath(repo)
        self.files: list[str] = []
        for line in (VERIF / "properties.jsonl").read_text().splitlines():
            if line.strip():
                rec = json.loads(line)
                if rec.get("id") == prop:
                    self.files = list(rec.get("anchors", {}).get("files", []))
        self.cov = None

    def start(self) -> None:
        try:
            import coverage
        except ImportError:
            return
        inc = [os.path.join(self.repo, "lightworks", "*")]
        self.cov = coverage.Coverage(data_file=None, include=inc, branch=False, config_file=False)
        self.cov.start()

    def stop(self) -> dict:
        if self.cov is None:
            return {"measured": False, "why": "coverage package not importable"}
        cov = self.cov
        cov.stop()
        self.cov = None
        out: dict = {"measured": True, "files": {}}
        tot_s = tot_m = 0
        for f in self.files:
            path = os.path.join(self.repo, f)
            try:
                _, stmts, _, missing, _ = cov.analysis2(path)
            except Exception as e:  # noqa: BLE001
                out["files"][f] = {"error": str(e)[:100]}
                continue
            tot_s += len(stmts)
            tot_m += len(missing)
            out["files"][f] = {"statements": len(stmts), "executed": len(stmts) - len(missing),
                               "missing_lines": _ranges(missing)}
        out["statements"] = tot_s
        out["executed"] = tot_s - tot_m
        # the rest of the package (not anchor files of this property): executed statements only
        other: dict = {}
        for path in sorted(cov.get_data().measured_files()):
            rel = os.path.relpath(path, self.repo)
            if rel in self.files:
                continue
            try:
                _, stmts, _, missing, _ = cov.analysis2(path)
            except Exception:  # noqa: BLE001
                continue
            if len(stmts) > len(missing):
                other[rel] = {"statements": len(stmts), "executed": len(stmts) - len(missing),
                              "missing_lines": _ranges(missing)}
        out["other_files"] = other
        return out


def _ranges(xs: list[int]) -> str:
    xs = sorted(xs)
    out = []
    i = 0
    while i < len(xs):
        j = i
        while j + 1 < len(xs) and xs[j + 1] == xs[j] + 1:
            j += 1
        out.append(str(xs[i]) if i == j else f"{xs[i]}-{xs[j]}")
        i = j + 1
    return ",".join(out)


# --------------------------------------------------------------------------- source drift


def source_drift(prop: str, repo: str) -> dict:
    """Compare the definitions in the property's anchor files with harness/pinned_sources.json (written
    by tools/pin_sources.py at the commit the model was last validated against).  Returns
    {"changed": [file::qualname, ...], "pinned_at": commit}.  A difference is never a violation: it makes
    the check run more cases (Ctx.n) because the code the model mirrors has been edited."""
    pins_file = VERIF / "harness" / "pinned_sources.json"
    if not pins_file.exists():
        return {"changed": [], "pinned_at": None, "note": "no pins"}
    import importlib.util

    spec = importlib.util.spec_from_file_location("pin_sources", VERIF / "tools" / "pin_sources.py")
    mod = importlib.util.module_from_spec(spec)
    assert spec and spec.loader
    spec.loader.exec_module(mod)
    pins = json.loads(pins_file.read_text())
    if pins.get("python") != list(sys.version_info[:2]):
        return {"changed": [], "pinned_at": pins.get("repo_head"), "note": "pins were written by another Python version"}
    changed = []
    anchors = set(pins.get("anchors", {}).get(prop, []))
    cur_files = {p.relative_to(repo).as_posix() for p in (Path(repo) / "lightworks").rglob("*.py")}
    for f in sorted(set(pins.get("files", {})) | cur_files):
        old = pins.get("files", {}).get(f, {})
        cur = mod.function_hashes(Path(repo) / f) if f in cur_files else {}
        for name in sorted(set(old) | set(cur)):
            if old.get(name) != cur.get(name):
                changed.append(f"{f}::{name}" + ("" if f in anchors else "  (outside this property's anchor files)"))
    return {"changed": changed, "pinned_at": pins.get("repo_head")}


# --------------------------------------------------------------------------- check context


class Ctx:
    def __init__(self, prop: str, tier: str) -> None:
        self.prop = prop
        self.tier = tier
        self.thorough = tier == "thorough"
        self.seed = int(os.environ.get("VERIF_SEED", "0") or 0)
        self.seed0 = self.seed
        self.extra_passes = 0
        self.rng = random.Random(f"{prop}-{self.seed}")
        self.t0 = time.time()
        self._model: Model | None = None
        self.evaluations = 0
        self.nontrivial: set = set()
        self.samples: list = []
        self.branches: dict[str, int] = {}
        self.violations: list[dict] = []
        self.known_hits: list[dict] = []
        self.disagreements: list[dict] = []
        self.notes: list[str] = []
        self.extra: dict = {}
        self.rule = ""
        self.known = json.loads(KNOWN.read_text()) if KNOWN.exists() else {"findings": []}
        self._nrep = 0
        self.max_reports = 5
        # the code the model mirrors was edited since it was pinned: run more cases (never an alarm by itself)
        try:
            self.drift = source_drift(prop, os.environ.get("LW_REPO", "/repo"))
        except Exception as e:  # noqa: BLE001
            self.drift = {"changed": [], "pinned_at": None, "note": f"drift check failed: {e}"}
        # number of additional passes (fresh random streams) allowed when the source has drifted
        self.escalation = int(os.environ.get("VERIF_ESCALATION") or (3 if self.drift["changed"] else 0))

    # -- model
    @property
    def model(self) -> Model:
        if self._model is None:
            self._model = Model()
        return self._model

    # -- coverage bookkeeping
    def count(self, branch: str, k: int = 1) -> None:
        heartbeat()
        self.branches[branch] = self.branches.get(branch, 0) + k

    def case(self, key, nontrivial: bool, sample=None) -> None:
        """register one evaluated case; `key` identifies it for distinctness"""
        heartbeat()
        self.evaluations += 1
        if nontrivial:
            self.nontrivial.add(key if isinstance(key, (str, int, tuple)) else json.dumps(key, sort_keys=True))
        if sample is not None and len(self.samples) < 3:
            self.samples.append(sample)

    def n(self, quick, thorough):
        return thorough if self.thorough else quick

    def reseed(self, k: int) -> None:
        """start an additional pass of the same check with fresh random streams (used when the code the
        model mirrors has drifted from the pins: main.py runs extra passes while the time budget lasts)"""
        self.seed = self.seed0 + 104729 * k
        self.rng = random.Random(f"{self.prop}-{self.seed}")
        self.extra_passes = k

    def out_of_time(self) -> bool:
        """safety cap on the run time of the generated-case loops (case counts are fixed per tier and
        tuned to stay well below it; when the cap is hit the run stops generating, reports what it
        explored and says so in the evidence)"""
        budget = float(os.environ.get("VERIF_BUDGET_S") or (1500 if self.thorough else 420))
        if time.time() - self.t0 > budget:
            if not self.extra.get("stopped_by_time_budget"):
                self.extra["stopped_by_time_budget"] = {"budget_s": budget, "at_case": self.evaluations}
                self.notes.append(f"time budget of {budget:.0f}s reached after {self.evaluations} cases; remaining cases not generated")
            return True
        return False

    # -- reporting
    def _match_known(self, sig: dict) -> dict | None:
        for f in self.known.get("findings", []):
            if f.get("status") != "known" or f.get("property") != self.prop:
                continue
            if all(sig.get(k) == v for k, v in f.get("match", {}).items()):
                return f
        return None

    def violation(self, what: str, replay: dict, sig: dict | None = None, found_input: bool = True) -> None:
        """report a property violation; `replay` holds the concrete failing input (or, when
        found_input is False, the name of the theorem / correspondence that no longer checks)"""
        sig = sig or {}
        k = self._match_known(sig)
        if k is not None:
            if not any(h["id"] == k["id"] for h in self.known_hits):
                self.known_hits.append(k)
                print(f"KNOWN-FINDING: property={self.prop} {k['id']}: {k['text']}", flush=True)
            return
        self.violations.append({"what": what, "sig": sig, "found_input": found_input})
        if self._nrep >= self.max_reports:
            return
        self._nrep += 1
        REPLAYS.mkdir(parents=True, exist_ok=True)
        path = REPLAYS / f"{self.prop}-{self.seed}-{self._nrep}.json"
        path.write_text(
            json.dumps(
                {"property": self.prop, "seed": self.seed, "tier": self.tier, "what": what, "signature": sig,
                 "failing_input_found": found_input, "pythonhashseed": os.environ.get("PYTHONHASHSEED"),
                 "replay": replay},
                indent=1, default=str,
            )
        )
        tail = "" if found_input else " no-failing-input-found"
        print(f"VIOLATION property={self.prop} replay={path}{tail}", flush=True)
        print(f"  {what}", flush=True)

    def disagreement(self, what: str, case: dict) -> None:
        """model and implementation differ on an observable that is not itself the property's
        oracle; resolved at the end of the run (search for a failing input, else
        no-failing-input-found)"""
        self.disagreements.append({"what": what, "case": case})

    def finish(self, audit: dict, trusted: list[str], assumptions: list[str]) -> int:
        # unresolved disagreements: correspondence broken but no failing input of the property
        if self.disagreements and not self.violations:
            d = self.disagreements[0]
            self.violation(
                "correspondence between the Lean model and the implementation no longer holds: " + d["what"],
                {"correspondence": d["what"], "case": d["case"],
                 "theorems_no_longer_tied_to_code": audit.get("theorems", [])},
                sig={"kind": "correspondence", "what": d["what"]},
                found_input=False,
            )
        wall = round(time.time() - self.t0, 2)
        cov = {
            "obligations": audit["obligations"],
            "discharged": audit["discharged"],
            "checker_cmd": f"cd lean && lake build {audit['module']} && lake env lean .lake/audit/Audit{self.prop}.lean  (#print axioms on every property theorem)"
            + ("; lake env leanchecker " + audit["module"] if "leanchecker" in audit else ""),
            "trusted_base": trusted,
            "theorems": audit["theorems"],
            "axioms_used": sorted({a for v in audit["axioms"].values() for a in v}),
            "evaluations": self.evaluations,
            "distinct_nontrivial": len(self.nontrivial),
            "rule": self.rule,
            "samples": self.samples[:3] if self.samples else [{"obligations": audit["theorems"][:3]}],
            "branches": dict(sorted(self.branches.items())),
            "model_calls": self._model.calls if self._model else 0,
            "disagreements_checked": len(self.disagreements),
            "known_findings_reported": [h["id"] for h in self.known_hits],
            "notes": self.notes,
            "pythonhashseed": os.environ.get("PYTHONHASHSEED"),
            "source_drift": {"pinned_at": self.drift.get("pinned_at"), "changed_definitions": self.drift["changed"][:40],
                             "extra_passes_allowed": self.escalation, "extra_passes_run": self.extra_passes},
        }
        if "leanchecker" in audit:
            cov["leanchecker"] = audit["leanchecker"]
        cov.update(self.extra)
        ev = {
            "property_id": self.prop,
            "tier": self.tier,
            "seed": self.seed0,
            "level": "proof",
            "coverage": cov,
            "assumptions": assumptions,
            "wall_s": wall,
            "violations": len(self.violations),
        }
        EVIDENCE.mkdir(parents=True, exist_ok=True)
        (EVIDENCE / f"{self.prop}.json").write_text(json.dumps(ev, indent=1, default=str) + "\n")
        if self._model:
            self._model.close()
        status = "VIOLATED" if self.violations else "held"
        print(
            f"[{self.prop} {self.tier} seed={self.seed0}] {status}: {audit['discharged']}/{audit['obligations']} theorems, "
            f"{self.evaluations} cases ({len(self.nontrivial)} distinct non-trivial), "
            f"{len(self.violations)} violations, {len(self.known_hits)} known findings, {wall}s",
            flush=True,
        )
        return 1 if self.violations else 0


# --------------------------------------------------------------------------- shrinking


def ddmin(items: list, fails, max_tests: int = 400) -> list:
    """delta debugging: smallest sublist (order kept) on which `fails(sublist)` is still True"""
    tests = 0
    n = 2
    cur = list(items)
    while len(cur) >= 2 and tests < max_tests:
        chunk = max(1, len(cur) // n)
        reduced = False
        for i in range(0, len(cur), chunk):
            cand = cur[:i] + cur[i + chunk:]
            tests += 1
            heartbeat()
            try:
                bad = bool(cand) and fails(cand)
            except MachineryFault:
                raise
            except Exception:  # noqa: BLE001
                bad = False
            if bad:
                cur = cand
                n = max(n - 1, 2)
                reduced = True
                break
        if not reduced:
            if chunk == 1:
                break
            n = min(len(cur), n * 2)
    return cur


def exc_class(e: BaseException) -> str:
    return type(e).__name__


def close(a: complex, b: complex, tol: float = 1e-9) -> bool:
    return abs(complex(a) - complex(b)) <= tol


def mat_close(a, b, tol: float = 1e-9) -> bool:
    import numpy as np

    a = np.asarray(a, dtype=complex)
    b = np.asarray(b, dtype=complex)
    return a.shape == b.shape and bool(np.all(np.abs(a - b) <= tol))


def eprint(*a) -> None:
    print(*a, file=sys.stderr, flush=True)
