"""
Generation helpers and reference semantics used only by props/c09.py.

A *history* is a list of ops in the vocabulary of circgen (understood by the driver's `circ` handler)
extended by
  * Parameter-valued calls: a bs / ps / loss op whose trailing dict carries {"param": key} passes a
    `lightworks.Parameter` as reflectivity / phase / loss, {"lparam": key} passes one as the `loss=`
    keyword of bs / ps (one Parameter shared by the two Loss components of a beam splitter).  The first
    use of a key creates the Parameter with the op's exact value; a later use of the same key passes the
    SAME object (its current value counts, the literal of the op is ignored);
  * ["set", key, kind, value]     Parameter.set with an exact value (kind "ps": Gaussian rational on the
                                   unit circle; "bs": [c, s]; "loss": [a, b] with loss = b^2);
  * ["copyf", new, src]           src.copy(freeze_parameters=True).
A phase may be *wound*: the value [g, k] (g a Gaussian rational on the unit circle) stands for the float
atan2(g) + 2*pi*k handed to the library (exactly 2*pi, -pi, ...); the model and the rebuilt programs see g.
A constant wound phase is a ps op whose trailing dict carries {"wind": k}.

VALUES AT REWRITE TIME.  A rewrite may not specialise on the value a live Parameter happens to hold when it
runs: `DEGENERATE` lists, per field, the values at which a component degenerates (loss 0 = identity, loss 1,
reflectivity 1 = identity in the Rx convention, reflectivity 0 = a pure swap in the H convention, phase 0, pi,
2*pi, -pi).  `corpus_degenerate` and the "degenerate" mode of `random_history` put such components - Parameter
valued and constant - as the ONLY element between two swaps of which the second acts on the component's modes,
at the top level and inside groups, apply every rewrite sequence to copies that stay linked to the same
Parameters, and only THEN move the Parameters to generic values (and back to another degenerate value, and on).
`bs(.., loss=P)` / `ps(.., loss=P)` are recorded by `Sym` as the call without loss followed by loss(m, P) calls:
the library adds the Loss components of a Parameter-valued `loss=` even when its value is 0, those of a literal
0 it does not, so this is the only spelling whose rebuild is right for every value of P.

`Sym` is the reference semantics of such a history at the level the property speaks about: for every
live circuit it keeps a *recipe* - the construction calls that made it, with sub-circuits as nested
recipes, Parameters as references, frozen copies with the values substituted at the time of the copy -
from which the three rewrites (unpack_groups, compress_mode_swaps, remove_non_adjacent_bs) are LEFT OUT,
because the property says they change nothing.  `Sym.flatten` turns a recipe, with the current
Parameter values, into a plain circgen program without Parameters, copies or rewrites; building that
program from scratch (on the implementation: oracle; on the model: correspondence) gives what the live,
rewritten / copied / related circuit must still be.  (unpack_groups makes the private ancillas
addressable, i.e. changes the meaning of later mode arguments; it is therefore kept in a recipe exactly
when construction calls on the same circuit follow it.)

`Sym` also keeps a transcription of the library's mode bookkeeping (user modes, ancilla positions, spans
of the added blocks).  That part is used ONLY to steer the generation and to label coverage, never as
an oracle.
"""

from __future__ import annotations

import json
import math
from fractions import Fraction

import circgen as cg
import lightworks as lw
from core import CIRCLE, GQ, PYTH, exc_class, frac_str

REWRITE_OPS = ("unpack", "compress", "nonadj")
NT_PYTH = [(c, s) for c, s in PYTH if 0 < c < 1]  # beam splitters that really mix
NT_CIRCLE = [g for g in CIRCLE if g.im != 0]  # phases that are not +-1
LOSSY = [(a, b) for a, b in PYTH if b != 0]
NT_LOSS = [(a, b) for a, b in PYTH if 0 < b < 1]
# values at which a component degenerates (see the module docstring); phases as value specs (g | [g, wind])
DEGENERATE = {"ps": ["1,0", "-1,0", ["1,0", 1], ["-1,0", -1], ["1,0", -1]],
              "bs": [["1", "0"], ["0", "1"]],
              "loss": [["1", "0"], ["0", "1"]]}

# --------------------------------------------------------------------------- op helpers


def extras(op: list) -> dict:
    return op[-1] if op and isinstance(op[-1], dict) else {}


def val_float(kind: str, v) -> float:
    """the float handed to the library for an exact value (same conversions as circgen.apply_op)"""
    if kind == "ps":
        wind = 0
        if isinstance(v, list):
            v, wind = v
        g = GQ.parse(v)
        return math.atan2(float(g.im), float(g.re)) + 2 * math.pi * wind
    if kind == "bs":
        return float(Fraction(v[0]) ** 2)
    return float(Fraction(v[1]) ** 2)


def _lossab_float(lossab) -> float:
    return 0 if lossab is None else float(Fraction(lossab[1]) ** 2)


def op_value(op: list, which: str):
    name = op[0]
    if which == "lparam":
        return list(op[7]) if name == "bs" else list(op[4])
    if name == "ps":
        k = extras(op).get("wind", 0)
        return [op[3], k] if k else op[3]
    if name == "bs":
        return [op[4], op[5]]
    return [op[3], op[4]]


def kind_of(op: list, which: str) -> str:
    return "loss" if which == "lparam" else op[0]


def literal_op(op: list, vals: dict) -> list:
    """the same call with every Parameter replaced by its value in `vals`"""
    ex = extras(op)
    if "param" not in ex and "lparam" not in ex:
        return list(op)
    new = list(op[:-1])
    name = op[0]
    if "param" in ex:
        v = vals[ex["param"]]
        if name == "ps":
            new[3] = v[0] if isinstance(v, list) else v
        elif name == "bs":
            new[4], new[5] = v[0], v[1]
        else:
            new[3], new[4] = v[0], v[1]
    if "lparam" in ex:
        v = vals[ex["lparam"]]
        new[7 if name == "bs" else 4] = list(v)
    new.append({k: x for k, x in ex.items() if k not in ("param", "lparam", "wind")})
    return new


def apply_op(pool: dict, pars: dict, op: list) -> str:
    """run one op of a history on the implementation ('ok' or the exception class name)"""
    name = op[0]
    ex = extras(op)
    new: dict = {}

    def par(key, kind, v):
        if key in pars:
            return pars[key]
        if key not in new:
            new[key] = lw.Parameter(val_float(kind, v), label=key)
        return new[key]

    try:
        if name == "copyf":
            pool[op[1]] = pool[op[2]].copy(freeze_parameters=True)
        elif name == "set":
            pars[op[1]].set(val_float(op[2], op[3]))
        elif name == "ps" and ("param" in ex or "lparam" in ex or "wind" in ex):
            _, cid, m, p, lossab, *_ = op
            p = [p, ex["wind"]] if ex.get("wind") else p
            phi = par(ex["param"], "ps", p) if "param" in ex else val_float("ps", p)
            loss = par(ex["lparam"], "loss", lossab) if "lparam" in ex else _lossab_float(lossab)
            pool[cid].ps(m, phi, loss=loss)
        elif name == "bs" and ("param" in ex or "lparam" in ex):
            _, cid, m1, m2, c, s, conv, lossab, *_ = op
            refl = par(ex["param"], "bs", [c, s]) if "param" in ex else val_float("bs", [c, s])
            loss = par(ex["lparam"], "loss", lossab) if "lparam" in ex else _lossab_float(lossab)
            pool[cid].bs(m1, m2, reflectivity=refl, loss=loss, convention=conv)
        elif name == "loss" and "param" in ex:
            _, cid, m, a, b, *_ = op
            pool[cid].loss(m, par(ex["param"], "loss", [a, b]))
        else:
            return cg.apply_op(pool, op)
    except Exception as e:  # noqa: BLE001
        return exc_class(e)
    pars.update(new)
    return "ok"


def well_formed(prog: list) -> bool:
    """every circuit id is defined before it is used"""
    defined: set = set()
    for op in prog:
        name = op[0]
        if name in ("new", "unitary"):
            defined.add(op[1])
        elif name == "plus":
            if op[2] not in defined or op[3] not in defined:
                return False
            defined.add(op[1])
        elif name in ("copy", "copyf"):
            if op[2] not in defined:
                return False
            defined.add(op[1])
        elif name == "add":
            if op[1] not in defined or op[2] not in defined:
                return False
        elif name == "set":
            continue
        elif op[1] not in defined:
            return False
    return True


# --------------------------------------------------------------------------- reference semantics


class Lay:
    """generator-side transcription of the mode bookkeeping of one circuit (never an oracle)"""

    def __init__(self, n: int) -> None:
        self.n = n  # user-addressable modes
        self.anc: list[int] = []  # full positions of the private ancillas
        self.hin: set[int] = set()  # USER modes with a declared input / output herald
        self.hout: set[int] = set()
        self.hfull: list[int] = []  # full positions of declared input heralds
        self.spans: list[list[int]] = []  # [a, b, is_group] full extents of the blocks added so far
        self.uspans: list[tuple[int, int]] = []  # the same in user modes (stable)
        self.unpacked = False

    def copy(self) -> "Lay":
        x = Lay(self.n)
        x.anc, x.hin, x.hout, x.hfull = list(self.anc), set(self.hin), set(self.hout), list(self.hfull)
        x.spans, x.uspans, x.unpacked = [list(s) for s in self.spans], list(self.uspans), self.unpacked
        return x

    def map(self, u: int) -> int:
        for i in sorted(self.anc):
            if u >= i:
                u += 1
        return u

    @property
    def total(self) -> int:
        return self.n + len(self.anc)

    @property
    def nher(self) -> int:
        return len(self.hfull) + len(self.anc)

    @property
    def q(self) -> int:
        """user modes occupied in a parent"""
        return self.total - self.nher

    def herald_positions(self) -> list[int]:
        return sorted(set(self.anc) | set(self.hfull))

    def declare(self, i: int, o: int) -> None:
        self.hin.add(i)
        self.hout.add(o)
        self.hfull.append(self.map(i))

    def _insert(self, pos: int, only_groups: bool = False) -> list[str]:
        labels = []
        for s in self.spans:
            a, b = s[0], s[1]
            if only_groups and not s[2]:
                pass
            elif pos < a:
                labels.append("before")
            elif pos == a == b:
                labels.append("at-single-mode-span")
            elif pos == a:
                labels.append("at-lower-boundary")
            elif pos < b:
                labels.append("inside")
            elif pos == b:
                labels.append("at-upper-boundary")
            elif pos == b + 1:
                labels.append("just-after")
            else:
                labels.append("after")
            s[0] += 1 if a >= pos else 0
            s[1] += 1 if b >= pos else 0
        self.anc = [x + 1 if x >= pos else x for x in self.anc]
        self.hfull = [x + 1 if x >= pos else x for x in self.hfull]
        self.anc.append(pos)
        return labels

    def add(self, sub: "Lay", m: int, group: bool, only_groups: bool = False) -> list[str]:
        """returns the position classes of the new ancillas relative to the earlier blocks"""
        mode = self.map(m)
        sh = sub.herald_positions()
        stot = sub.total
        for i in sorted(self.anc):
            t = i - mode
            for h in sorted(sh):
                if t > h:
                    t += 1
            if 0 <= t < stot:
                sh = [h + 1 if h >= t else h for h in sh]
                stot += 1
        labels: list[str] = []
        for h in sorted(sh):
            labels += self._insert(mode + h, only_groups)
        self.spans.append([mode, mode + stot - 1, bool(group or sh)])
        self.uspans.append((m, m + sub.q - 1))
        return labels

    def unpack(self) -> None:
        # every mode becomes addressable; the heralds stay where they are (full positions)
        self.hfull = self.herald_positions()
        self.n = self.total
        self.anc = []
        self.hin = set(self.hfull)
        self.hout = set(range(self.n))  # unknown: no further heralds are generated on this circuit
        self.uspans = [(s[0], s[1]) for s in self.spans]
        self.unpacked = True


class Sym:
    def __init__(self) -> None:
        self.rec: dict[str, list] = {}
        self.val: dict = {}
        self.kind: dict[str, str] = {}
        self.lay: dict[str, Lay] = {}
        self.last_labels: list[str] = []

    # -- recording (only calls that succeeded on the implementation are recorded)
    def record(self, op: list) -> None:
        name = op[0]
        if name == "set":
            if op[1] in self.val:
                self.val[op[1]] = op[3]
            return
        cid = op[1]
        if name == "new":
            self.rec[cid] = [("new", op[2])]
            self.lay[cid] = Lay(op[2])
        elif name == "unitary":
            self.rec[cid] = [("unitary", op[2])]
            self.lay[cid] = Lay(len(op[2]))
        elif name in ("copy", "copyf"):
            src = self.rec[op[2]]
            self.rec[cid] = list(src) if name == "copy" else self.freeze(src)
            self.lay[cid] = self.lay[op[2]].copy()
        elif name == "plus":
            a, b = self.rec[op[2]], self.rec[op[3]]
            n = self.lay[op[2]].total
            self.rec[cid] = [("new", n), *self._as_tail(a), *self._as_tail(b)]
            self.lay[cid] = Lay(n)
            self.lay[cid].spans = [list(s) for s in self.lay[op[2]].spans + self.lay[op[3]].spans]
            self.lay[cid].uspans = list(self.lay[op[2]].uspans + self.lay[op[3]].uspans)
        elif name in REWRITE_OPS:
            if name == "unpack":
                # kept by `flatten` only when construction calls follow (their mode arguments then address
                # the former ancillas); harmless there for a circuit without ancillas
                self.rec[cid].append(("rw", "unpack"))
                try:
                    self.lay[cid].unpack()
                except Exception:  # noqa: BLE001  (bookkeeping only)
                    pass
        elif name == "add":
            self.rec[cid].append(("add", list(self.rec[op[2]]), op[3], bool(op[4])))
            try:
                self.last_labels = self.lay[cid].add(self.lay[op[2]], op[3], bool(op[4]))
            except Exception:  # noqa: BLE001  (bookkeeping only)
                self.last_labels = []
        else:
            ex = extras(op)
            for which in ("param", "lparam"):
                if which in ex and ex[which] not in self.val:
                    self.val[ex[which]] = op_value(op, which)
                    self.kind[ex[which]] = kind_of(op, which)
            if "lparam" in ex:
                # bs / ps with loss=Parameter == the call without loss, then loss(mode, Parameter) per mode
                core = [*op[:-1], {k: x for k, x in ex.items() if k != "lparam"}]
                core[7 if name == "bs" else 4] = None
                self.rec[cid].append(("op", core))
                a, b = op_value(op, "lparam")
                for m in (op[2], op[3]) if name == "bs" else (op[2],):
                    lop = cg.op_loss(cid, m, Fraction(a), Fraction(b))
                    lop[-1]["param"] = ex["lparam"]
                    self.rec[cid].append(("op", lop))
            else:
                self.rec[cid].append(("op", op))
            if name == "herald":
                self.lay[cid].declare(op[3], op[4])

    @staticmethod
    def _as_tail(items: list) -> list:
        head = items[0]
        if head[0] == "unitary":
            return [("addu", head[1]), *items[1:]]
        return list(items[1:])

    def freeze(self, items: list) -> list:
        out = []
        for it in items:
            if it[0] == "op":
                out.append(("op", literal_op(it[1], self.val)))
            elif it[0] == "add":
                out.append(("add", self.freeze(it[1]), it[2], it[3]))
            else:
                out.append(it)
        return out

    def params_of(self, cid: str) -> list[str]:
        """keys of the Parameters the circuit is still linked to"""
        out: list[str] = []

        def walk(items):
            for it in items:
                if it[0] == "op":
                    ex = extras(it[1])
                    for which in ("param", "lparam"):
                        if which in ex and ex[which] not in out:
                            out.append(ex[which])
                elif it[0] == "add":
                    walk(it[1])

        walk(self.rec.get(cid, []))
        return out

    # -- flattening
    def flatten(self, cid: str, prefix: str = "r") -> tuple[list, str]:
        out: list = []
        counter = [0]
        top = self._flat(self.rec[cid], out, counter, prefix)
        return out, top

    def _flat(self, items: list, out: list, counter: list, prefix: str) -> str:
        me = f"{prefix}{counter[0]}"
        counter[0] += 1
        last_constr = max([k for k, it in enumerate(items) if it[0] in ("op", "add", "addu")], default=-1)
        for k, it in enumerate(items):
            kind = it[0]
            if kind == "new":
                out.append(["new", me, it[1]])
            elif kind == "unitary":
                out.append(["unitary", me, it[1]])
            elif kind == "addu":
                tmp = f"{prefix}{counter[0]}"
                counter[0] += 1
                out.append(["unitary", tmp, it[1]])
                out.append(["add", me, tmp, 0, False])
            elif kind == "op":
                op = literal_op(it[1], self.val)
                op[1] = me
                out.append(op)
            elif kind == "add":
                sub = self._flat(it[1], out, counter, prefix)
                out.append(["add", me, sub, it[2], it[3]])
            elif kind == "rw" and k < last_constr:
                out.append([it[1], me])
        return me


# --------------------------------------------------------------------------- generation


class HistGen:
    """builds a history op by op, keeping `Sym` up to date so that every generated call is valid"""

    def __init__(self, ctx, rng, p_param: float = 0.25) -> None:
        self.ctx = ctx
        self.rng = rng
        self.sym = Sym()
        self.prog: list = []
        self.k = 0
        self.keys: dict[str, list[str]] = {"ps": [], "bs": [], "loss": [], "lloss": []}
        self.p_param = p_param
        self.p_degen = 0.0  # probability that a generated value is drawn from DEGENERATE

    # -- plumbing
    def emit(self, op: list) -> None:
        self.prog.append(op)
        self.sym.record(op)

    def fresh(self, pre: str = "c") -> str:
        self.k += 1
        return f"{pre}{self.k}"

    def lay(self, cid: str) -> Lay:
        return self.sym.lay[cid]

    def new(self, n: int, pre: str = "c") -> str:
        cid = self.fresh(pre)
        self.emit(["new", cid, n])
        return cid

    def attach(self, op: list, which: str, kind: str, p_reuse: float = 0.3) -> None:
        rng = self.rng
        if self.keys[kind] and rng.random() < p_reuse:
            key = rng.choice(self.keys[kind])
            self.ctx.count("param:shared-between-components")
        else:
            key = f"{kind}{len(self.keys[kind])}"
            self.keys[kind].append(key)
        op[-1][which] = key
        self.ctx.count(f"param:{kind}")

    def all_keys(self) -> list[tuple[str, str]]:
        return [(k, kind) for kind, ks in self.keys.items() for k in ks if k in self.sym.val]

    # -- primitive calls
    def prim(self, cid: str, kinds: list[str] | None = None, p_param: float | None = None) -> None:
        rng = self.rng
        n = self.lay(cid).n
        pp = self.p_param if p_param is None else p_param
        kinds = list(kinds or ["bs", "bs", "bs", "bs", "ps", "ps", "ps", "loss", "barrier", "bs_loss", "ps_loss", "ps"])
        if n < 2:
            kinds = [k for k in kinds if not k.startswith("bs")] or ["ps"]
        kind = rng.choice(kinds)
        deg = self.p_degen > 0 and rng.random() < self.p_degen
        if deg:
            self.ctx.count("value:degenerate:" + kind)

        def loss_kw(op: list, loss) -> None:
            """the loss= of bs / ps: a Parameter may hold 0; a literal 0 is the same call as no loss at all"""
            if loss is None:
                return
            as_par = rng.random() < pp
            if as_par:
                self.attach(op, "lparam", "lloss")
            if deg and rng.random() < 0.7:
                v = ["1", "0"] if as_par and rng.random() < 0.7 else ["0", "1"]
                op[7 if op[0] == "bs" else 4] = v

        if kind in ("bs", "bs_loss"):
            m1, m2 = rng.sample(range(n), 2)
            c, s = rng.choice(NT_PYTH if rng.random() < 0.8 else PYTH)
            loss = rng.choice(LOSSY) if kind == "bs_loss" else None
            if deg and (kind == "bs" or rng.random() < 0.5):
                c, s = (Fraction(x) for x in rng.choice(DEGENERATE["bs"]))
            op = cg.op_bs(cid, m1, m2, c, s, rng.choice(["Rx", "H"]), loss)
            if rng.random() < pp:
                self.attach(op, "param", "bs")
            loss_kw(op, loss)
        elif kind in ("ps", "ps_loss"):
            loss = rng.choice(LOSSY) if kind == "ps_loss" else None
            op = cg.op_ps(cid, rng.randrange(n), rng.choice(NT_CIRCLE if rng.random() < 0.8 else CIRCLE), loss)
            if deg and (kind == "ps" or rng.random() < 0.5):
                v = rng.choice(DEGENERATE["ps"])
                if isinstance(v, list):
                    op[3] = v[0]
                    op[-1]["wind"] = v[1]
                else:
                    op[3] = v
            if rng.random() < pp:
                self.attach(op, "param", "ps")
            loss_kw(op, loss)
        elif kind == "loss":
            a, b = rng.choice(PYTH)
            if deg:
                a, b = (Fraction(x) for x in rng.choice(DEGENERATE["loss"]))
            op = cg.op_loss(cid, rng.randrange(n), a, b)
            if rng.random() < pp:
                self.attach(op, "param", "loss")
        else:
            op = ["barrier", cid, [m for m in range(n) if rng.random() < 0.5]]
        self.emit(op)

    def swap(self, cid: str, boundary_bias: float = 0.7) -> None:
        """a swap on a small support, preferably touching a boundary mode of an added block"""
        rng = self.rng
        lay = self.lay(cid)
        n = lay.n
        if n < 2:
            return
        k = 2 if (n == 2 or rng.random() < 0.7) else min(n, rng.choice([3, 3, 4]))
        # the boundary modes of the blocks (inside: weight 3, just outside: weight 1)
        cand = [m for a, b in lay.uspans for m in (a - 1, a, a, a, b, b, b, b + 1) if 0 <= m < n]
        if cand and rng.random() < boundary_bias:
            first = rng.choice(cand)
            pool = [m for m in range(n) if m != first]
            outside = [m for m in pool if not any(a <= m <= b for a, b in lay.uspans)]
            if len(outside) >= k - 1 and rng.random() < 0.6:
                pool = outside  # the other modes lie outside all blocks
            rest = rng.sample(pool, k - 1)
            modes = [first, *rest]
            self.ctx.count("swap:touches-block-boundary")
        else:
            modes = rng.sample(range(n), k)
        tgt = modes[1:] + modes[:1] if rng.random() < 0.85 else None
        if tgt is None:
            pairs = cg.rand_perm_pairs(rng, modes)
        else:
            pairs = [[a, b] for a, b in zip(modes, tgt)]
            rng.shuffle(pairs)
        self.emit(["swaps", cid, pairs])

    def herald(self, cid: str) -> bool:
        rng = self.rng
        lay = self.lay(cid)
        if lay.unpacked:
            return False
        fi = [m for m in range(lay.n) if m not in lay.hin]
        fo = [m for m in range(lay.n) if m not in lay.hout]
        if not fi or not fo:
            return False
        i = rng.choice(fi)
        o = i if (i in fo and rng.random() < 0.55) else rng.choice(fo)
        self.emit(["herald", cid, rng.choice([0, 1, 1, 2]), i, o])
        self.ctx.count("herald:in!=out" if i != o else "herald:in==out")
        return True

    # -- building blocks
    def leaf(self, maxq: int, heralded: bool, nops: tuple[int, int] = (1, 4), p_param: float | None = None) -> str:
        """a small circuit occupying at most maxq user modes of a parent"""
        rng = self.rng
        if heralded:
            q = rng.randint(0 if rng.random() < 0.1 else 1, max(1, min(2, maxq)))
            nh = rng.choice([1, 1, 1, 2])
        else:
            q = rng.randint(1, max(1, min(3, maxq)))
            nh = 0
        cid = self.new(q + nh, "s")
        todo = ["prim"] * rng.randint(*nops) + ["herald"] * nh + (["swap"] if rng.random() < 0.3 else [])
        rng.shuffle(todo)
        for t in todo:
            if t == "prim":
                self.prim(cid, p_param=p_param)
            elif t == "swap":
                self.swap(cid, boundary_bias=0)
            else:
                self.herald(cid)
        return cid

    def generic_prim(self, cid: str, kinds: list[str] | None = None) -> None:
        """a constant call with a generic value (content that tells the modes apart)"""
        keep = self.p_degen
        self.p_degen = 0.0
        self.prim(cid, kinds=kinds or ["bs", "bs", "ps"], p_param=0.0)
        self.p_degen = keep

    def leaf_sandwich(self, maxq: int, heralded: bool) -> str:
        """a small circuit that holds a `sandwich` (generic content before and after it)"""
        rng = self.rng
        q = rng.randint(min(2, max(1, maxq)), max(1, min(3, maxq)))
        nh = 1 if heralded else 0
        cid = self.new(q + nh, "s")
        self.generic_prim(cid)
        self.sandwich(cid)
        if rng.random() < 0.6:
            self.generic_prim(cid)
        for _ in range(nh):
            self.herald(cid)
        self.ctx.count("block:leaf-with-sandwich" + (":heralded" if heralded else ""))
        return cid

    def unitary(self, maxq: int) -> str:
        rng = self.rng
        sz = rng.randint(1, max(1, min(3, maxq)))
        uid = self.fresh("u")
        self.emit(["unitary", uid, cg.mat_json(cg.exact_unitary(rng, sz, depth=rng.randint(1, 2 * sz)))])
        return uid

    def cell(self, maxq: int, heralded: bool) -> str:
        """a circuit that itself holds an added (grouped or not) leaf: the parameters of the leaf end up
        inside a group of whoever adds the cell"""
        rng = self.rng
        n = rng.randint(1, max(1, min(3, maxq)))
        cid = self.new(n, "k")
        if rng.random() < 0.5:
            self.prim(cid)
        inner = self.leaf(n, heralded)
        self.place(cid, inner, group=rng.random() < 0.6)
        for _ in range(rng.randint(0, 2)):
            self.prim(cid) if rng.random() < 0.7 else self.swap(cid)
        self.ctx.count("block:cell-with-inner-block")
        return cid

    def place(self, parent: str, sub: str, group: bool | None = None, m: int | None = None,
              steer: float = 0.0) -> bool:
        """add `sub` to `parent`; with probability `steer` at a position where a new ancilla lands on a
        boundary of / inside an earlier block (when there is such a position)"""
        rng = self.rng
        lp, ls = self.lay(parent), self.lay(sub)
        q = ls.q
        if q > lp.n or lp.n == 0:
            return False
        if group is None:
            group = rng.random() < 0.6
        if m is None:
            valid = list(range(0, lp.n - q + 1)) if q > 0 else list(range(lp.n))
            m = rng.choice(valid)
            if ls.nher and lp.spans and rng.random() < steer:
                want = rng.choice([("at-upper-boundary",), ("at-upper-boundary", "at-lower-boundary", "inside",
                                                             "at-single-mode-span", "just-after")])
                good = [x for x in valid if set(lp.copy().add(ls, x, True, only_groups=True)) & set(want)]
                if good:
                    m = rng.choice(good)
                    self.ctx.count("add:heralded-steered-to-block-boundary")
        had = bool(lp.spans)
        self.emit(["add", parent, sub, m, bool(group)])
        if ls.nher:
            self.ctx.count("add:heralded")
            if had:
                for lab in set(self.sym.last_labels):
                    self.ctx.count(f"ancilla-vs-earlier-block:{lab}")
        else:
            self.ctx.count("add:grouped" if group else "add:ungrouped")
        return True

    def add_block(self, parent: str, heralded: bool | None = None, subs: list[str] | None = None,
                  steer: float = 0.0, maxq: int | None = None) -> None:
        rng = self.rng
        lp = self.lay(parent)
        room = lp.n if maxq is None else max(1, min(lp.n, maxq))
        if heralded is None:
            heralded = rng.random() < 0.4
        reuse = [s for s in (subs or []) if s != parent and self.lay(s).q <= lp.n and
                 (self.lay(s).nher > 0) == heralded]
        r = rng.random()
        if reuse and r < 0.2:
            sub = rng.choice(reuse)
            self.ctx.count("block:reused-object")
        elif r < 0.55 or heralded and r < 0.75:
            sub = self.leaf(room, heralded)
        elif r < 0.85:
            sub = self.cell(room, heralded)
        else:
            sub = self.unitary(room)
        if subs is not None and sub not in subs:
            subs.append(sub)
        self.place(parent, sub, steer=steer)

    # -- values
    def new_value(self, key: str, kind: str, how: str = "any"):
        """a value other than the current one; how = 'any' | 'generic' (the component really acts) | 'degenerate'"""
        rng = self.rng
        cur = self.sym.val.get(key)
        fam = "loss" if kind == "lloss" else kind
        for _ in range(20):
            if how == "degenerate":
                v = rng.choice(DEGENERATE[fam])
            elif kind == "ps":
                v = rng.choice(NT_CIRCLE if how == "generic" else CIRCLE).s()
            elif kind == "bs":
                c, s = rng.choice(NT_PYTH if how == "generic" else PYTH)
                v = [frac_str(c), frac_str(s)]
            else:
                a, b = rng.choice(NT_LOSS if how == "generic" else LOSSY if kind == "lloss" else PYTH)
                v = [frac_str(a), frac_str(b)]
            if v != cur:
                return v
        return v

    def set_param(self, key: str, kind: str, how: str = "any") -> None:
        self.emit(["set", key, "loss" if kind == "lloss" else kind, self.new_value(key, kind, how)])
        self.ctx.count("set:" + kind + ("" if how == "any" else ":" + how))

    def sandwich(self, cid: str) -> None:
        """swap, one or two primitive calls, then a swap that acts on a mode of those calls: the calls are all that
        keeps the second swap from being merged into the first"""
        rng = self.rng
        n = self.lay(cid).n
        if n < 2:
            self.prim(cid, kinds=["ps", "loss", "ps_loss"])
            return
        self.swap(cid, boundary_bias=0.3)
        k0 = len(self.prog)
        for _ in range(rng.choice([1, 1, 1, 2])):
            self.prim(cid, kinds=["ps", "loss", "loss", "bs", "bs", "ps_loss", "bs_loss"])
        touched = sorted({m for op in self.prog[k0:] for m in ([op[2], op[3]] if op[0] == "bs" else [op[2]])})
        first = rng.choice(touched)
        k = 2 if (n == 2 or rng.random() < 0.7) else 3
        modes = [first, *rng.sample([m for m in range(n) if m != first], k - 1)]
        pairs = [[a, b] for a, b in zip(modes, modes[1:] + modes[:1])]
        rng.shuffle(pairs)
        self.emit(["swaps", cid, pairs])
        self.ctx.count("sandwich:swap-calls-swap")


# --------------------------------------------------------------------------- random histories


def random_history(ctx, rng) -> tuple[list, str]:
    """one history: a main circuit built by interleaving swaps, plain / grouped / heralded additions,
    unitary blocks and primitive calls; then a family of related circuits; then rewrites on any
    member interleaved with Parameter updates and further edits"""
    mode = rng.choice(["hoist", "pattern", "pattern", "params", "family", "mixed"])
    ctx.count("history:" + mode)
    g = HistGen(ctx, rng, p_param={"hoist": 0.1, "pattern": 0.1, "params": 0.5, "family": 0.2, "mixed": 0.3}[mode])
    n = rng.randint(4, 6) if mode == "pattern" else rng.randint(3, 6)
    main = g.new(n, "m")
    subs: list[str] = []
    members = [main]
    # -- phase 1: the main circuit
    steps = rng.randint(4, 10) if mode == "hoist" else rng.randint(3, 8)
    hoist = mode == "hoist"
    if mode == "pattern":
        # swap, one or two blocks, a heralded addition steered to a block boundary, swap on the boundary modes;
        # little else, so that few modes are blocked for other reasons
        steps = 0
        for rep in range(rng.choice([1, 1, 2])):
            g.swap(main, boundary_bias=0.5 if rep else 0.0)
            if rng.random() < 0.3:
                g.prim(main, kinds=["ps", "bs", "loss"])
            order = ["block"] * rng.choice([1, 1, 2]) + ["heralded"] * rng.choice([1, 1, 2])
            if rng.random() < 0.25:
                rng.shuffle(order)
            for what in order:
                g.add_block(main, heralded=what == "heralded", subs=subs, steer=0.8, maxq=2)
            if rng.random() < 0.3:
                g.prim(main, kinds=["ps", "barrier"])
            g.swap(main, boundary_bias=0.9)
    for _ in range(steps):
        r = rng.random()
        if r < (0.4 if hoist else 0.32):
            g.swap(main)
        elif r < (0.85 if hoist else 0.62):
            g.add_block(main, subs=subs, steer=0.6 if hoist else 0.2)
        elif r < 0.66:
            g.herald(main)
        elif r < 0.72 and mode != "hoist":
            rw = rng.choice(REWRITE_OPS)
            g.emit([rw, main])
            ctx.count("rewrite-in-mid-construction:" + rw)
        else:
            g.prim(main)
    if mode != "pattern":
        if not any(op[0] == "swaps" and op[1] == main for op in g.prog):
            g.swap(main)
        g.swap(main)
    # -- phase 2: related circuits
    if mode == "pattern":
        g.emit(["compress", main])
        ctx.count("rewrite:compress")
    nfam = {"hoist": rng.choice([0, 0, 1]), "pattern": rng.choice([0, 0, 1]), "params": rng.choice([0, 1, 2]),
            "family": rng.randint(2, 5), "mixed": rng.randint(1, 3)}[mode]
    for _ in range(nfam):
        src = rng.choice(members)
        ls = g.lay(src)
        kinds = ["copy", "copy", "copyf", "host", "host"] + (["plus", "plus", "plus"] if ls.nher == 0 else [])
        kind = rng.choice(kinds)
        if kind in ("copy", "copyf"):
            new = g.fresh("m")
            g.emit([kind, new, src])
        elif kind == "plus":
            other = g.new(ls.total, "x")
            for _ in range(rng.randint(1, 4)):
                g.swap(other, 0) if rng.random() < 0.5 else g.prim(other)
            new = g.fresh("m")
            a, b = (src, other) if rng.random() < 0.5 else (other, src)
            g.emit(["plus", new, a, b])
            ctx.count("family:sum-left" if a == src else "family:sum-right")
        else:
            host_n = ls.q + rng.randint(0, 2)
            if host_n == 0:
                continue
            new = g.new(host_n, "h")
            for _ in range(rng.randint(0, 2)):
                g.swap(new, 0) if rng.random() < 0.5 else g.prim(new)
            g.place(new, src)
            for _ in range(rng.randint(0, 2)):
                g.swap(new) if rng.random() < 0.6 else g.prim(new)
        ctx.count("family:" + kind)
        members.append(new)
        # edits after the relation was made (on either side)
        for _ in range(rng.choice([0, 0, 1, 2])):
            tgt = rng.choice([src, new])
            r = rng.random()
            if r < 0.3:
                g.swap(tgt)
            elif r < 0.5 and g.herald(tgt):
                ctx.count("edit-after-relation:herald")
            elif r < 0.65:
                g.add_block(tgt, subs=subs)
            else:
                g.prim(tgt)
    # -- phase 3: rewrites on any member, Parameter updates, edits
    everyone = members + [s for s in subs if rng.random() < 0.3]
    events = rng.randint(2, 7)
    keys = g.all_keys()
    pending = list(keys) if mode == "params" else []
    done_rw = False
    for _ in range(events):
        r = rng.random()
        if keys and done_rw and (r < 0.35 or pending and r < 0.6):
            key, kind = pending.pop(rng.randrange(len(pending))) if pending else rng.choice(keys)
            g.set_param(key, kind)
        elif r < 0.9 or not done_rw:
            tgt = rng.choice(everyone if rng.random() < 0.85 else members)
            rw = rng.choice(REWRITE_OPS)
            g.emit([rw, tgt])
            ctx.count("rewrite:" + rw)
            done_rw = True
        else:
            tgt = rng.choice(members)
            g.swap(tgt) if rng.random() < 0.5 else g.prim(tgt)
    for key, kind in pending[:3]:
        g.set_param(key, kind)
    if keys and rng.random() < 0.5:
        g.emit([rng.choice(REWRITE_OPS), rng.choice(members)])
        g.set_param(*rng.choice(keys))
    return g.prog, main


def degenerate_history(ctx, rng) -> tuple[list, str]:
    """values at rewrite time: components (Parameter-valued and constant) whose value is degenerate while the
    rewrites run, as the only thing between two swaps, at the top level and inside blocks; related circuits that
    stay linked to the same Parameters (copies, hosts) or not (frozen copies); rewrites on any of them; THEN every
    Parameter moves to a generic value; further rewrites; some Parameters back to a degenerate value; rewrites;
    generic again"""
    g = HistGen(ctx, rng, p_param=rng.choice([0.35, 0.6, 0.85]))
    g.p_degen = rng.choice([0.5, 0.7, 0.9])
    n = rng.randint(3, 5)
    main = g.new(n, "m")
    subs: list[str] = []
    for _ in range(rng.randint(1, 3)):
        g.generic_prim(main)
    for _ in range(rng.randint(1, 3)):
        r = rng.random()
        if r < 0.55:
            g.sandwich(main)
        elif r < 0.9:
            sub = g.leaf_sandwich(min(n, 3), heralded=rng.random() < 0.35)
            subs.append(sub)
            g.place(main, sub, group=rng.random() < 0.6)
            if rng.random() < 0.7:
                g.swap(main, boundary_bias=0.9)
        else:
            g.prim(main)
        if rng.random() < 0.4:
            g.generic_prim(main)
    for _ in range(rng.randint(1, 2)):
        g.generic_prim(main)
    members = [main]
    for _ in range(rng.choice([0, 1, 1, 2])):
        src = rng.choice(members)
        kind = rng.choice(["copy", "copy", "copyf", "host"])
        if kind == "host":
            ls = g.lay(src)
            if ls.q == 0:
                continue
            new = g.new(ls.q + rng.randint(0, 1), "h")
            if rng.random() < 0.5:
                g.swap(new, 0)
            g.place(new, src)
            if rng.random() < 0.7:
                g.swap(new)
        else:
            new = g.fresh("m")
            g.emit([kind, new, src])
        ctx.count("degenerate:family:" + kind)
        members.append(new)
    everyone = members + [s for s in subs if rng.random() < 0.5]

    def rewrites(k: int) -> None:
        for _ in range(k):
            rw = rng.choice(["compress", "compress", "compress", "nonadj", "unpack"])
            g.emit([rw, rng.choice(everyone)])
            ctx.count("rewrite:" + rw)

    keys = g.all_keys()
    rewrites(rng.randint(1, 3))
    for key, kind in keys:
        g.set_param(key, kind, "generic")
    rewrites(rng.randint(0, 2))
    if keys and rng.random() < 0.6:
        back = rng.sample(keys, rng.randint(1, min(2, len(keys))))
        for key, kind in back:
            g.set_param(key, kind, "degenerate")
        rewrites(rng.randint(1, 2))
        if rng.random() < 0.3:
            tgt = rng.choice(members)
            new = g.fresh("m")
            g.emit(["copyf" if rng.random() < 0.5 else "copy", new, tgt])
            everyone.append(new)
        for key, kind in back:
            g.set_param(key, kind, "generic")
    return g.prog, main


# --------------------------------------------------------------------------- directed corpus


def _chain(g: HistGen, cid: str, w: int, idx: int, key_kind: str | None = None) -> None:
    """content that acts non-trivially on every mode of a w-mode circuit (deterministic in idx)"""
    for j in range(w):
        g.emit(cg.op_ps(cid, j, NT_CIRCLE[(3 * idx + 5 * j + 1) % len(NT_CIRCLE)]))
    for j in range(w - 1):
        c, s = NT_PYTH[(idx + 3 * j) % len(NT_PYTH)]
        g.emit(cg.op_bs(cid, j, j + 1, c, s, "H" if (idx + j) % 2 else "Rx"))


def _pairs(x: int, y: int) -> list:
    return [[x, y], [y, x]]


def corpus_hoist(ctx, rng):
    """a block on user modes a..a+w-1 of a 4-mode circuit, a heralded sub-circuit whose ancilla is
    inserted at EVERY position (before / at either boundary / inside / after the block), one swap before
    and one after, the latter on modes at the boundary of the block; then every rewrite"""
    n = 4
    idx = 0
    for w in (1, 2, 3):
        for a in range(n - w + 1):
            b = a + w - 1
            for m in range(n):
                for h in (0, 1):
                    cand = []
                    if b + 1 < n:
                        cand.append((b, b + 1))
                    if a - 1 >= 0:
                        cand.append((a - 1, a))
                    if a - 1 >= 0 and b + 1 < n:
                        cand.append((a - 1, b + 1))
                    outside = [x for x in range(n) if x < a or x > b]
                    if len(outside) >= 2 and (outside[0], outside[-1]) not in cand:
                        cand.append((outside[0], outside[-1]))
                    if not cand:
                        cand.append((0, n - 1))
                    for pair in cand:
                        idx += 1
                        variant = idx % 6
                        kind = ["group", "group", "group", "unitary-grouped", "flat", "group"][variant]
                        herald_first = variant == 5
                        g = HistGen(ctx, rng, p_param=0.0)
                        main = g.new(n, "m")
                        others = [(x, y) for x in range(n) for y in range(x + 1, n) if (x, y) != pair]
                        first = pair if idx % 2 else others[idx % len(others)]
                        g.emit(["swaps", main, _pairs(*first)])

                        def block():
                            if kind == "unitary-grouped":
                                sub = g.fresh("u")
                                g.emit(["unitary", sub, cg.mat_json(cg.exact_unitary(rng, w, depth=2 * w + 1))])
                            else:
                                sub = g.new(w, "s")
                                _chain(g, sub, w, idx)
                            g.place(main, sub, group=kind != "flat", m=a)

                        def heralded():
                            hs = g.new(2, "s")
                            c, s = NT_PYTH[idx % len(NT_PYTH)]
                            g.emit(cg.op_bs(hs, 0, 1, c, s, "Rx"))
                            g.emit(["herald", hs, idx % 2, h, h])
                            g.place(main, hs, group=True, m=m)

                        if herald_first:
                            heralded()
                            block()
                        else:
                            block()
                            heralded()
                        g.emit(["swaps", main, _pairs(*pair)])
                        for rw in (["compress"], ["compress", "nonadj"], ["nonadj", "compress", "unpack"],
                                   ["compress", "unpack", "compress"])[idx % 4]:
                            g.emit([rw, main])
                        ctx.count("corpus:hoist:" + kind + (":herald-first" if herald_first else ""))
                        yield g.prog, main


def _param_prim(g: HistGen, cid: str, n: int, pk: str, idx: int) -> None:
    """one Parameter-valued call of kind pk on a circuit with n >= 1 user modes"""
    c, s = NT_PYTH[idx % len(NT_PYTH)]
    if pk == "bs" and n >= 2:
        op = cg.op_bs(cid, n - 1, 0, c, s, "H")  # reversed, non-adjacent when n >= 3
        g.attach(op, "param", "bs", 0)
    elif pk == "lloss" and n >= 2:
        op = cg.op_bs(cid, 0, n - 1, c, s, "Rx", LOSSY[idx % len(LOSSY)])
        g.attach(op, "lparam", "lloss", 0)
    elif pk == "loss":
        a, b = PYTH[idx % len(PYTH)]
        op = cg.op_loss(cid, n - 1, a, b)
        g.attach(op, "param", "loss", 0)
    else:
        op = cg.op_ps(cid, 0, NT_CIRCLE[idx % len(NT_CIRCLE)])
        g.attach(op, "param", "ps", 0)
    g.emit(op)


PLACEMENTS = ["top", "group", "ungrouped", "nested-gg", "nested-gu", "nested-ug", "heralded", "shared"]
RW_SEQS = [["compress"], ["nonadj"], ["unpack"], ["copy", "compress"], ["copy", "nonadj"], ["copyf"],
           ["compress", "nonadj", "unpack"], ["nonadj", "compress"], ["unpack", "compress", "nonadj"],
           ["compress", "copy"], ["nonadj", "copyf", "compress"]]


def corpus_params(ctx, rng):
    """a Parameter used at the top level / inside a group / inside a group that came through a nested
    addition / inside a heralded group / shared between the top level and a group; each rewrite
    sequence; then Parameter.set, a further rewrite, Parameter.set again"""
    idx = 0
    for placement in PLACEMENTS:
        for pk in ("ps", "bs", "loss", "lloss"):
            for seq in RW_SEQS:
                idx += 1
                g = HistGen(ctx, rng, p_param=0.0)
                n = 5
                main = g.new(n, "m")
                g.emit(["swaps", main, _pairs(0, 1)])
                c, s = NT_PYTH[(idx + 2) % len(NT_PYTH)]
                g.emit(cg.op_bs(main, 4, 2, c, s, "H"))
                if placement in ("top", "shared"):
                    _param_prim(g, main, 3, pk, idx)  # acts on modes 0..2 of the main circuit
                if placement != "top":
                    her = placement == "heralded"
                    leaf = g.new(3 + (1 if her else 0), "s")
                    _chain(g, leaf, 3, idx)
                    if placement == "shared":
                        key = g.keys[pk][-1]
                        op = {"ps": lambda: cg.op_ps(leaf, 1, NT_CIRCLE[idx % len(NT_CIRCLE)]),
                              "bs": lambda: cg.op_bs(leaf, 2, 0, c, s, "H"),
                              "loss": lambda: cg.op_loss(leaf, 1, *PYTH[idx % len(PYTH)]),
                              "lloss": lambda: cg.op_ps(leaf, 1, NT_CIRCLE[idx % len(NT_CIRCLE)],
                                                        LOSSY[idx % len(LOSSY)])}[pk]()
                        op[-1]["lparam" if pk == "lloss" else "param"] = key
                        g.emit(op)
                    else:
                        _param_prim(g, leaf, 3, pk, idx)
                    if her:
                        g.emit(cg.op_bs(leaf, 2, 3, *NT_PYTH[(idx + 5) % len(NT_PYTH)], "Rx"))
                        g.emit(["herald", leaf, idx % 2, 3, 3])
                    if placement.startswith("nested"):
                        cellc = g.new(3, "k")
                        g.emit(cg.op_ps(cellc, 2, NT_CIRCLE[(idx + 7) % len(NT_CIRCLE)]))
                        g.place(cellc, leaf, group=placement[7] == "g", m=0)
                        g.place(main, cellc, group=placement[8] == "g", m=1)
                    else:
                        g.place(main, leaf, group=placement != "ungrouped", m=1)
                g.emit(["swaps", main, _pairs(0, 1)])
                g.emit(["swaps", main, [[0, 4], [4, 1], [1, 0]]])
                cur = main
                for rw in seq:
                    if rw in ("copy", "copyf"):
                        new = g.fresh("m")
                        g.emit([rw, new, cur])
                        cur = new
                    else:
                        g.emit([rw, cur])
                keys = g.all_keys()
                for key, kind in keys:
                    g.set_param(key, kind)
                g.emit([["nonadj", "compress", "unpack"][idx % 3], cur])
                for key, kind in keys:
                    g.set_param(key, kind)
                ctx.count(f"corpus:params:{placement}")
                yield g.prog, main


def corpus_family(ctx, rng):
    """families of related circuits (original, copy, frozen copy, copy of the copy, a + b, b + a, hosts that
    contain the original grouped / ungrouped): rewrite ONE member, look at all, then rewrite the others"""
    idx = 0
    for base in ("plain", "params", "heralded"):
        rel = ["orig", "copy", "copyf", "copy2", "host-g", "host-u"] + ([] if base == "heralded" else ["sum-l", "sum-r"])
        for target in rel:
            for rw in REWRITE_OPS:
                idx += 1
                g = HistGen(ctx, rng, p_param=0.0)
                n = 5
                orig = g.new(n, "m")
                g.emit(["swaps", orig, [[0, 1], [1, 2], [2, 0]]])
                c, s = NT_PYTH[idx % len(NT_PYTH)]
                g.emit(cg.op_bs(orig, 3, 4, c, s, "Rx"))
                sub = g.new(3 if base == "heralded" else 2, "s")
                _chain(g, sub, 2, idx)
                if base == "params":
                    _param_prim(g, sub, 2, ["ps", "bs", "loss", "lloss"][idx % 4], idx)
                    _param_prim(g, orig, 5, ["bs", "ps", "lloss", "loss"][idx % 4], idx + 1)
                if base == "heralded":
                    g.emit(cg.op_bs(sub, 1, 2, *NT_PYTH[(idx + 4) % len(NT_PYTH)], "H"))
                    g.emit(["herald", sub, idx % 2, 2, 2])
                g.place(orig, sub, group=True, m=3)
                g.emit(cg.op_bs(orig, 4, 0, *NT_PYTH[(idx + 1) % len(NT_PYTH)], "H"))
                g.emit(["swaps", orig, _pairs(1, 2)])
                g.emit(["swaps", orig, _pairs(0, 2)])
                ids = {"orig": orig}
                ids["copy"] = g.fresh("m")
                g.emit(["copy", ids["copy"], orig])
                ids["copyf"] = g.fresh("m")
                g.emit(["copyf", ids["copyf"], orig])
                ids["copy2"] = g.fresh("m")
                g.emit(["copy", ids["copy2"], ids["copy"]])
                if base != "heralded":
                    x = g.new(n, "x")
                    g.emit(["swaps", x, _pairs(3, 4)])
                    g.emit(cg.op_ps(x, 0, NT_CIRCLE[idx % len(NT_CIRCLE)]))
                    g.emit(["swaps", x, _pairs(3, 4)])
                    ids["sum-l"] = g.fresh("m")
                    g.emit(["plus", ids["sum-l"], orig, x])
                    ids["sum-r"] = g.fresh("m")
                    g.emit(["plus", ids["sum-r"], x, orig])
                for name, grp in (("host-g", True), ("host-u", False)):
                    hid = g.new(n + 1, "h")
                    g.emit(["swaps", hid, _pairs(0, 5)])
                    g.place(hid, orig, group=grp, m=idx % 2)
                    g.emit(["swaps", hid, _pairs(0, 5)])
                    ids[name] = hid
                if idx % 2 == 0:
                    # an edit that updates the herald tables of ONE member in place
                    g.emit(["herald", ids[target], idx % 3, 0, 0])
                g.emit([rw, ids[target]])
                for other in rel:
                    if other != target:
                        g.emit([REWRITE_OPS[(idx + len(other)) % 3], ids[other]])
                for key, kind in g.all_keys():
                    g.set_param(key, kind)
                g.emit(["compress", ids[target]])
                ctx.count(f"corpus:family:{base}")
                yield g.prog, orig


DEG_FIELDS = ["ps", "bs-adj", "bs-far", "loss", "bs-loss", "ps-loss"]
DEG_PLACEMENTS = ["top", "group", "ungrouped", "nested", "heralded", "shared"]
DEG_SEQS = [["compress"], ["nonadj", "compress"], ["unpack", "compress"], ["copyf", "compress"],
            ["compress", "nonadj", "unpack"], ["unpack", "nonadj", "compress"], ["copy", "compress"], ["copyf"],
            ["compress", "compress"], ["nonadj"], ["unpack"], ["compress", "copy", "unpack", "compress"],
            ["nonadj", "copyf", "unpack", "compress"]]


def _deg_values(field: str, carrier: str) -> list:
    if field == "ps":
        return DEGENERATE["ps"][:4]
    if field in ("bs-adj", "bs-far"):
        return [(v, conv) for v in DEGENERATE["bs"] for conv in ("Rx", "H")]
    if field == "loss" or carrier == "param":
        return DEGENERATE["loss"]
    return DEGENERATE["loss"][1:]  # loss=0 as a literal is the same call as no loss


def _deg_sandwich(g: HistGen, cid: str, w: int, field: str, val, carrier: str, idx: int, key: str | None = None) -> str | None:
    """on the w >= 3 user modes of cid: a swap, ONE component with a degenerate value, a swap that acts on a
    mode of that component; returns the key of the Parameter"""
    if field == "bs-far":
        m1, m2 = (w - 1, 0) if idx % 2 else (0, w - 1)
    elif field in ("bs-adj", "bs-loss"):
        lo = idx % (w - 1)
        m1, m2 = (lo, lo + 1) if idx % 2 else (lo + 1, lo)
    else:
        m1 = m2 = idx % w
    x = m1 if (idx // 2) % 2 else m2
    others = [m for m in range(w) if m != x]
    o1, o2 = others[idx % len(others)], others[(idx + 1) % len(others)]
    g.emit(["swaps", cid, _pairs(x, o1) if (idx // 4) % 2 == 0 else _pairs(o1, o2)])
    c, s = NT_PYTH[idx % len(NT_PYTH)]
    which, kind = "param", field
    if field == "ps":
        wound = isinstance(val, list)
        op = cg.op_ps(cid, x, GQ.parse(val[0] if wound else val))
        if wound:
            op[-1]["wind"] = val[1]
    elif field in ("bs-adj", "bs-far"):
        (vc, vs), conv = val
        op = cg.op_bs(cid, m1, m2, Fraction(vc), Fraction(vs), conv)
        kind = "bs"
    elif field == "loss":
        op = cg.op_loss(cid, x, Fraction(val[0]), Fraction(val[1]))
    elif field == "bs-loss":
        op = cg.op_bs(cid, m1, m2, c, s, "H" if idx % 2 else "Rx", (Fraction(val[0]), Fraction(val[1])))
        which, kind = "lparam", "lloss"
    else:
        op = cg.op_ps(cid, x, NT_CIRCLE[idx % len(NT_CIRCLE)], (Fraction(val[0]), Fraction(val[1])))
        which, kind = "lparam", "lloss"
    if carrier == "param":
        if key is None:
            g.attach(op, which, kind, 0)
            key = op[-1][which]
        else:
            op[-1][which] = key
    g.emit(op)
    g.emit(["swaps", cid, _pairs(x, o2) if idx % 3 else [[x, o1], [o1, o2], [o2, x]]])
    return key


def _tail(g: HistGen, cid: str, w: int, idx: int) -> None:
    """generic content after a sandwich: what the modes meet afterwards differs from mode to mode"""
    for j in range(w - 1):
        c, s = NT_PYTH[(2 * idx + 5 * j + 3) % len(NT_PYTH)]
        g.emit(cg.op_bs(cid, j, j + 1, c, s, "Rx" if (idx + j) % 2 else "H"))
    g.emit(cg.op_ps(cid, idx % w, NT_CIRCLE[(idx + 11) % len(NT_CIRCLE)]))


def corpus_degenerate(ctx, rng):
    """VALUE AT REWRITE TIME x field x placement x carrier: the component (phase, reflectivity of an adjacent /
    a reversed non-adjacent beam splitter, loss element, loss= of a beam splitter / phase shifter) holds a
    degenerate value while the rewrites run and is all that separates two swaps; four copies (linked to the
    same Parameters) and the original each get another rewrite sequence; then the Parameter moves to a generic
    value, everyone is rewritten again, it moves to another degenerate value, rewrites, generic again"""
    idx = 0
    for placement in DEG_PLACEMENTS:
        for carrier in ("param", "const"):
            if carrier == "const" and placement not in ("top", "group", "heralded"):
                continue
            for field in DEG_FIELDS:
                for val in _deg_values(field, carrier):
                    idx += 1
                    g = HistGen(ctx, rng, p_param=0.0)
                    subs: list[str] = []
                    if placement == "top":
                        main = g.new(4, "m")
                        _chain(g, main, 4, idx)
                        _deg_sandwich(g, main, 4, field, val, carrier, idx)
                        _tail(g, main, 4, idx)
                    else:
                        main = g.new(5, "m")
                        _chain(g, main, 5, idx)
                        g.emit(["swaps", main, _pairs(0, 1)])
                        her = placement == "heralded"
                        leaf = g.new(3 + (1 if her else 0), "s")
                        subs.append(leaf)
                        _chain(g, leaf, 3, idx + 1)
                        key = _deg_sandwich(g, leaf, 3, field, val, carrier, idx)
                        _tail(g, leaf, 3, idx + 2)
                        if her:
                            g.emit(cg.op_bs(leaf, 2, 3, *NT_PYTH[(idx + 5) % len(NT_PYTH)], "Rx"))
                            g.emit(["herald", leaf, idx % 2, 3, 3])
                        if placement == "nested":
                            cellc = g.new(3, "k")
                            g.emit(cg.op_ps(cellc, 2, NT_CIRCLE[(idx + 7) % len(NT_CIRCLE)]))
                            g.place(cellc, leaf, group=idx % 2 == 0, m=0)
                            g.place(main, cellc, group=True, m=1)
                        else:
                            g.place(main, leaf, group=placement != "ungrouped", m=1)
                        g.emit(["swaps", main, _pairs(0, 1)])
                        if placement == "shared":
                            _deg_sandwich(g, main, 5, field, val, carrier, idx + 1, key)
                        g.emit(["swaps", main, [[0, 4], [4, 1], [1, 0]]])
                        _tail(g, main, 5, idx)
                    live = []
                    for j in range(4):
                        cur = g.fresh("m")
                        g.emit(["copy", cur, main])
                        for rw in DEG_SEQS[(4 * idx + j) % len(DEG_SEQS)]:
                            if rw in ("copy", "copyf"):
                                new = g.fresh("m")
                                g.emit([rw, new, cur])
                                cur = new
                            else:
                                g.emit([rw, cur])
                        live.append(cur)
                    g.emit(["compress" if idx % 2 else "unpack", main])
                    g.emit(["compress", main])
                    live.append(main)
                    for sub in subs:
                        g.emit(["compress", sub])
                    keys = g.all_keys()
                    for key, kind in keys:
                        g.set_param(key, kind, "generic")
                    if keys:
                        for j, cid in enumerate(live):
                            g.emit([REWRITE_OPS[(idx + j) % 3], cid])
                        for key, kind in keys:
                            g.set_param(key, kind, "degenerate")
                        for j, cid in enumerate(live):
                            g.emit([["compress", "compress", "nonadj"][(idx + j) % 3], cid])
                        fz = g.fresh("m")
                        g.emit(["copyf", fz, live[idx % len(live)]])
                        for key, kind in keys:
                            g.set_param(key, kind, "generic")
                    ctx.count(f"corpus:degenerate:{placement}:{carrier}")
                    ctx.count(f"corpus:degenerate:field:{field}")
                    yield g.prog, main


def prog_key(prog: list) -> str:
    return json.dumps(prog, sort_keys=True, default=str)
