import LW.Model.Scalar
import LW.Model.Mat
import LW.Model.Circuit
