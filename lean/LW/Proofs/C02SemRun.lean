/-
  LW.Proofs.C02SemRun — compiling a relabelled list of components is the embedding of the compiled
  original (generic statement for a family of partial injections stable under adding loss modes).
-/
import LW.Proofs.C02SemEmbed
import LW.Proofs.C01Lead
import LW.Proofs.SwapDict

open scoped BigOperators

namespace LW.Proofs.C02Sem

open LW LW.Proofs.C01Aux

variable {K : Type} [CommRing K] [StarRing K]

set_option linter.unusedSectionVars false

/-! ### generic component matrices under an embedding -/

section Generic
variable {d D : Nat} {fwd : Nat → Nat} {inv : Nat → Option Nat}

theorem PInj.eq_iff (h : PInj d D fwd inv) {x y : Nat} (hx : x < d) (hy : y < d) :
    fwd x = fwd y ↔ x = y := ⟨h.inj hx hy, fun e => by rw [e]⟩

theorem embed2_embedVia (h : PInj d D fwd inv) {m1 m2 : Nat} (h1 : m1 < d) (h2 : m2 < d)
    (a b c e : K) :
    embed2 D (fwd m1) (fwd m2) a b c e = Optic.embedVia D (embed2 d m1 m2 a b c e) inv := by
  refine M.ext_get (M.isOfFn_ofFn _ _) (isOfFn_embedVia _ _ _) rfl ?_
  intro r k hr hk
  rw [embed2_n] at hr hk
  rw [get_embed2 _ _ _ _ _ _ hr hk]
  cases hir : inv r with
  | none =>
    rw [get_embedVia_none_left _ hr hk hir]
    have e1 : r ≠ fwd m1 := (h.ne_of_none h1 hir).symm
    have e2 : r ≠ fwd m2 := (h.ne_of_none h2 hir).symm
    simp only [e1, e2, false_and, if_false]
  | some x =>
    obtain ⟨hx, ex⟩ := h.inv_some r x hr hir
    subst ex
    cases hik : inv k with
    | none =>
      rw [get_embedVia_none_right _ (h.fwd_lt x hx) hk hik]
      have e1 : k ≠ fwd m1 := (h.ne_of_none h1 hik).symm
      have e2 : k ≠ fwd m2 := (h.ne_of_none h2 hik).symm
      simp only [e1, e2, and_false, if_false]
    | some y =>
      obtain ⟨hy, ey⟩ := h.inv_some k y hk hik
      subst ey
      rw [get_embedVia_fwd h _ hx hy, get_embed2 _ _ _ _ _ _ hx hy]
      simp only [h.eq_iff hx h1, h.eq_iff hx h2, h.eq_iff hy h1, h.eq_iff hy h2, h.eq_iff hx hy]

theorem embed1_embedVia (h : PInj d D fwd inv) {m : Nat} (h1 : m < d) (p : K) :
    embed1 D (fwd m) p = Optic.embedVia D (embed1 d m p) inv := by
  refine M.ext_get (M.isOfFn_ofFn _ _) (isOfFn_embedVia _ _ _) rfl ?_
  intro r k hr hk
  rw [embed1_n] at hr hk
  rw [get_embed1 _ _ hr hk]
  cases hir : inv r with
  | none =>
    rw [get_embedVia_none_left _ hr hk hir]
    have e1 : r ≠ fwd m := (h.ne_of_none h1 hir).symm
    simp only [e1, if_false]
  | some x =>
    obtain ⟨hx, ex⟩ := h.inv_some r x hr hir
    subst ex
    cases hik : inv k with
    | none =>
      rw [get_embedVia_none_right _ (h.fwd_lt x hx) hk hik]
      have e1 : fwd x ≠ k := h.ne_of_none hx hik
      simp only [e1, if_false]
    | some y =>
      obtain ⟨hy, ey⟩ := h.inv_some k y hk hik
      subst ey
      rw [get_embedVia_fwd h _ hx hy, get_embed1 _ _ hx hy]
      simp only [h.eq_iff hx h1, h.eq_iff hx hy]

theorem permF_embedVia (h : PInj d D fwd inv) (t t' : Nat → Nat) (ht : ∀ x, x < d → t x < d)
    (hc : ∀ x, x < d → t' (fwd x) = fwd (t x)) (hfix : ∀ r, r < D → inv r = none → t' r = r) :
    (permF t' D : M K) = Optic.embedVia D (permF t d) inv := by
  refine M.ext_get (isOfFn_permF _ _) (isOfFn_embedVia _ _ _) rfl ?_
  intro r k hr hk
  rw [permF_n] at hr hk
  rw [get_permF _ hr hk]
  cases hik : inv k with
  | none =>
    rw [get_embedVia_none_right _ hr hk hik, hfix k hk hik]
    by_cases e : k = r
    · rw [if_pos e, if_pos e.symm]
    · rw [if_neg e, if_neg (fun e' => e e'.symm)]
  | some y =>
    obtain ⟨hy, ey⟩ := h.inv_some k y hk hik
    subst ey
    rw [hc y hy]
    cases hir : inv r with
    | none =>
      rw [get_embedVia_none_left _ hr (h.fwd_lt y hy) hir, if_neg (h.ne_of_none (ht y hy) hir),
        if_neg (fun e => h.ne_of_none hy hir e.symm)]
    | some x =>
      obtain ⟨hx, ex⟩ := h.inv_some r x hr hir
      subst ex
      rw [get_embedVia_fwd h _ hx hy, get_permF _ hx hy]
      simp only [h.eq_iff (ht y hy) hx]

end Generic

/-! ### the relabelled dictionary of a swap -/

theorem fn_map_pair (σ : Dict) (f : Nat → Nat) (hf : ∀ a b, f a = f b → a = b) (x : Nat) :
    Dict.fn (σ.map fun p => (f p.1, f p.2)) (f x) = f (Dict.fn σ x) := by
  induction σ with
  | nil => rfl
  | cons p σ ih =>
    obtain ⟨k, v⟩ := p
    rw [List.map_cons, Dict.fn_cons, Dict.fn_cons, ih]
    by_cases e : k = x
    · rw [if_pos e, if_pos (by rw [e])]
    · rw [if_neg e, if_neg (fun e' => e (hf _ _ e'))]

theorem fn_map_pair_fix (σ : Dict) (f : Nat → Nat) (r : Nat) (hr : ∀ x, f x ≠ r) :
    Dict.fn (σ.map fun p => (f p.1, f p.2)) r = r := by
  apply Dict.fn_of_not_mem
  intro hm
  simp only [Dict.keys, List.map_map, List.mem_map, Function.comp] at hm
  obtain ⟨p, -, e⟩ := hm
  exact hr _ e

theorem fn_ofPairs_map (σ : Dict) (hnd : σ.keys.Nodup) (f : Nat → Nat)
    (hf : ∀ a b, f a = f b → a = b) (c : Nat) :
    Dict.fn (Dict.ofPairs (σ.map fun p => (f p.1, f p.2))) c
      = Dict.fn (σ.map fun p => (f p.1, f p.2)) c := by
  apply Dict.fn_ofPairs
  have : Dict.keys (σ.map fun p => (f p.1, f p.2)) = σ.keys.map f := by
    simp [Dict.keys, Function.comp_def]
  rw [this]
  exact hnd.map (fun a b e => hf a b e)

theorem swapsOk_fn_lt {n : Nat} {σ : Dict} (h : SwapsOk n σ) {N x : Nat} (hN : n ≤ N) (hx : x < N) :
    Dict.fn σ x < N :=
  Dict.getD_lt h.2.1 (fun k hk => lt_of_lt_of_le (h.2.2 k hk) hN) hx

/-! ### the kind of a component -/

def isBarrier : Prim K → Bool
  | .barrier _ => true
  | _ => false

theorem compilePrim_barrier (i : K) (U : M K) (p : Prim K) (h : isBarrier p = true) :
    compilePrim i U p = U := by
  cases p <;> first | rfl | simp [isBarrier] at h

theorem compilePrim_loss' (i : K) (U : M K) (p : Prim K) (h : p.isLoss = true) :
    compilePrim i U p = (p.mat i (U.n + 1)).mul (U.pad 1) := by
  cases p <;> first | rfl | simp [Prim.isLoss] at h

theorem compilePrim_other (i : K) (U : M K) (p : Prim K) (hl : p.isLoss = false)
    (hb : isBarrier p = false) : compilePrim i U p = (p.mat i U.n).mul U := by
  apply compilePrim_of_not_loss i U p hl
  intro ms e
  subst e
  simp [isBarrier] at hb

theorem not_loss_of_barrier (p : Prim K) (h : isBarrier p = true) : p.isLoss = false := by
  cases p <;> first | rfl | simp [isBarrier] at h

/-- `q'` is `q` seen through the embedding, for every number `L` of loss modes already present -/
structure MatRel (i : K) (inv : Nat → Option Nat) (nS T : Nat) (q q' : Prim K) : Prop where
  loss : q'.isLoss = q.isLoss
  barrier : isBarrier q' = isBarrier q
  mat : ∀ L, (q.isLoss = true → 1 ≤ L) →
    q'.mat i (T + L) = Optic.embedVia (T + L) (q.mat i (nS + L)) inv

theorem pad_pad (V : M K) (a b : Nat) : (V.pad a).pad b = V.pad (a + b) := by
  refine M.ext_get (M.isOfFn_pad _ _) (M.isOfFn_pad _ _) (by simp [Nat.add_assoc]) ?_
  intro r c hr hc
  simp only [M.pad_n] at hr hc
  rw [M.get_pad' _ b (by simpa using hr) (by simpa using hc),
    M.get_pad' _ (a + b) (by omega) (by omega), M.pad_n]
  by_cases h1 : r < V.n + a ∧ c < V.n + a
  · rw [if_pos h1, M.get_pad' _ a h1.1 h1.2]
  · have h2 : ¬(r < V.n ∧ c < V.n) := fun h => h1 ⟨by omega, by omega⟩
    rw [if_neg h1, if_neg h2]

theorem pad_zero (V : M K) (hV : V.IsOfFn) : V.pad 0 = V := by
  refine M.ext_get (M.isOfFn_pad _ _) hV rfl ?_
  intro r c hr hc
  simp only [M.pad_n, Nat.add_zero] at hr hc
  rw [M.get_pad' _ 0 (by simpa using hr) (by simpa using hc), if_pos ⟨hr, hc⟩]

theorem isOfFn_compilePrim (i : K) (U : M K) (hU : U.IsOfFn) (p : Prim K) :
    (compilePrim i U p).IsOfFn := by
  cases p <;> first | exact M.isOfFn_mul _ _ | exact hU

theorem isOfFn_foldl_compilePrim (i : K) (qs : List (Prim K)) (U : M K) (hU : U.IsOfFn) :
    (qs.foldl (compilePrim i) U).IsOfFn := by
  induction qs generalizing U with
  | nil => exact hU
  | cons q qs ih => exact ih _ (isOfFn_compilePrim i U hU q)

def lossN (qs : List (Prim K)) : Nat := (qs.filter Prim.isLoss).length

theorem lossN_cons (q : Prim K) (qs : List (Prim K)) :
    lossN (q :: qs) = (if q.isLoss then 1 else 0) + lossN qs := by
  unfold lossN
  rw [List.filter_cons]
  split
  · simp; omega
  · simp

/-- THE RUN LEMMA: compiling the relabelled components on top of `Embed(U) · V` yields
`Embed(compiled U) · V` padded by the new loss modes -/
theorem run_rel (i : K) {fwd : Nat → Nat} {inv : Nat → Option Nat} {nS T : Nat}
    (hP : ∀ L, PInj (nS + L) (T + L) fwd inv) (qs qs' : List (Prim K))
    (hrel : List.Forall₂ (MatRel i inv nS T) qs qs') (U V : M K) (L : Nat)
    (hU : U.n = nS + L) (hV : V.n = T + L) (hVf : V.IsOfFn) :
    qs'.foldl (compilePrim i) ((Optic.embedVia (T + L) U inv).mul V) =
      (Optic.embedVia (T + L + lossN qs) (qs.foldl (compilePrim i) U) inv).mul (V.pad (lossN qs)) := by
  induction hrel generalizing U V L with
  | nil =>
    simp only [List.foldl_nil, lossN, List.filter_nil, List.length_nil, Nat.add_zero]
    rw [pad_zero V hVf]
  | @cons q q' qs qs' hq _ ih =>
    rw [List.foldl_cons, List.foldl_cons, lossN_cons]
    by_cases hb : isBarrier q = true
    · have hl := not_loss_of_barrier q hb
      rw [compilePrim_barrier i _ q' (by rw [hq.barrier]; exact hb), compilePrim_barrier i _ q hb,
        ih U V L hU hV hVf, hl]
      simp
    · have hb' : isBarrier q = false := by simpa using hb
      by_cases hl : q.isLoss = true
      · have hlq' : q'.isLoss = true := by rw [hq.loss]; exact hl
        rw [compilePrim_loss' i _ q' hlq', compilePrim_loss' i U q hl, M.mul_n, embedVia_n]
        have e1 : T + (L + 1) = T + L + 1 := by omega
        have e2 : nS + (L + 1) = nS + L + 1 := by omega
        have hm := hq.mat (L + 1) (fun _ => by omega)
        rw [e1, e2] at hm
        rw [pad_mul _ _ (by rw [embedVia_n]; exact hV),
          embedVia_pad (hP L) (by have := hP (L + 1); simpa [Nat.add_assoc] using this) U hU,
          hm, hU]
        have hP1 : PInj (nS + L + 1) (T + L + 1) fwd inv := by
          have := hP (L + 1); simpa [Nat.add_assoc] using this
        rw [← M.mul_assoc' _ _ _ (by simp [embedVia_n]),
          ← embedVia_mul hP1 _ _ (by simp [Prim.mat_n])]
        have := ih ((q.mat i (nS + L + 1)).mul (U.pad 1)) (V.pad 1) (L + 1)
          (by simp [Prim.mat_n]; omega) (by simp [hV]; omega) (M.isOfFn_pad _ _)
        rw [e1] at this
        rw [this, hl, pad_pad]
        simp only [if_true]
        have e3 : T + L + 1 + lossN qs = T + L + (1 + lossN qs) := by omega
        rw [e3]
      · have hl' : q.isLoss = false := by simpa using hl
        have hlq' : q'.isLoss = false := by rw [hq.loss]; exact hl'
        have hbq' : isBarrier q' = false := by rw [hq.barrier]; exact hb'
        rw [compilePrim_other i _ q' hlq' hbq', compilePrim_other i U q hl' hb', M.mul_n,
          embedVia_n, hq.mat L (fun h => by rw [hl'] at h; cases h), hU,
          ← M.mul_assoc' _ _ _ (by simp [embedVia_n]),
          ← embedVia_mul (hP L) _ _ (by simp [Prim.mat_n])]
        rw [ih ((q.mat i (nS + L)).mul U) V L (by simp [Prim.mat_n]) hV hVf, hl']
        simp

end LW.Proofs.C02Sem
