/-
  C05 helper: the error rate reported by `analyze` lies in `[0, 1]`.

  Ingredients: the reported outputs are pairwise distinct, every entry of the probability table is
  non-negative, `analyze` refuses an empty list of inputs, and the per-input error rate lies in
  `[0, 1]` (`error_fold_in_unit_interval`).
-/
import LW.Model.Analysis
import LW.Proofs.C03
import LW.Proofs.C05Aux
import LW.Proofs.C05Analyze
import LW.Proofs.C05Err

namespace LW.Proofs.C05
open LW

set_option linter.unusedSectionVars false

variable {K Q : Type} [CommRing K] [Field Q] [LinearOrder Q] [IsStrictOrderedRing Q]

/-! ### the reported outputs are pairwise distinct -/

theorem analyzerOutputs_nodup (rules : List Rule) (im n : Nat) (lossy : Bool) :
    (analyzerOutputs rules im n lossy).Nodup := by
  unfold analyzerOutputs
  apply List.Nodup.filter
  cases lossy with
  | false => exact C03.fockBasis_nodup im n
  | true =>
    rw [if_pos rfl, List.nodup_flatMap]
    refine ⟨fun k _ => C03.fockBasis_nodup im k, ?_⟩
    refine List.Pairwise.imp ?_ (List.nodup_range (n := n + 1))
    intro v w hvw
    simp only [Function.onFun]
    rw [List.disjoint_left]
    intro s hv hw
    cases im with
    | zero => simp [fockBasis] at hv
    | succ im =>
      rw [C03.fockBasis_complete _ _ (by omega)] at hv hw
      exact hvw (hv.2.symm.trans hw.2)

/-! ### the probability table is non-negative -/

theorem transProb_nonneg' (nsq : K → Q) (hn : ∀ z, 0 ≤ nsq z) (U : M K) (a b : FState) :
    0 ≤ transProb nsq U a b := by
  unfold transProb
  exact div_nonneg (hn _) (Nat.cast_nonneg _)

theorem analyzerProb_nonneg (nsq : K → Q) (hn : ∀ z, 0 ≤ nsq z) (U : M K) (lossModes : Nat)
    (fin fo : FState) (p : Q) (h : analyzerProb nsq U lossModes fin fo = .ok p) : 0 ≤ p := by
  unfold analyzerProb at h
  split at h
  · cases h; exact transProb_nonneg' nsq hn U _ _
  · split at h
    · cases h; exact transProb_nonneg' nsq hn U _ _
    · split at h
      · cases h
      · cases h
        rw [foldl_add_map_eq_sum, zero_add]
        apply List.sum_nonneg
        intro x hx
        obtain ⟨ls, _, rfl⟩ := List.mem_map.1 hx
        exact transProb_nonneg' nsq hn U _ _

/-- every entry of the table of a successful `analyze` is non-negative -/
theorem analyze_probs_nonneg (i : K) (nsq : K → Q) (hn : ∀ z, 0 ≤ nsq z) (c : Circ K)
    (rules : List Rule) (inputs : List (List Occ)) (ex : Option (List (List FState)))
    (r : AnalysisResult Q) (h : analyze i nsq c rules inputs ex = .ok r) :
    ∀ row ∈ r.probs, ∀ p ∈ row, 0 ≤ p := by
  obtain ⟨ins, _, _, hprobs, _, _⟩ := analyze_ok_form i nsq c rules inputs ex r h
  intro row hrow p hp
  obtain ⟨fi, _, hfi⟩ := mapM_ok_mem _ _ _ hprobs hrow
  obtain ⟨fo, _, hfo⟩ := mapM_ok_mem _ _ _ hfi hp
  exact analyzerProb_nonneg nsq hn _ _ _ _ p hfo

/-- the outputs of a successful `analyze` are pairwise distinct -/
theorem analyze_outputs_nodup (i : K) (nsq : K → Q) (c : Circ K)
    (rules : List Rule) (inputs : List (List Occ)) (ex : Option (List (List FState)))
    (r : AnalysisResult Q) (h : analyze i nsq c rules inputs ex = .ok r) : r.outputs.Nodup := by
  obtain ⟨ins, _, houts, _, _, _⟩ := analyze_ok_form i nsq c rules inputs ex r h
  rw [houts]
  exact analyzerOutputs_nodup _ _ _ _

/-- `analyze` refuses an empty list of inputs -/
theorem analyze_inputs_ne_nil (i : K) (nsq : K → Q) (c : Circ K)
    (rules : List Rule) (inputs : List (List Occ)) (ex : Option (List (List FState)))
    (r : AnalysisResult Q) (h : analyze i nsq c rules inputs ex = .ok r) : inputs ≠ [] := by
  rintro rfl
  unfold analyze at h
  simp only [bind, Except.bind, throw, throwThe, MonadExceptOf.throw, List.map_nil] at h
  cases h

/-! ### a mean of numbers in `[0, 1]` lies in `[0, 1]` -/

theorem mean_in_unit_interval (l : List Q) (hl : l ≠ []) (h : ∀ x ∈ l, 0 ≤ x ∧ x ≤ 1) :
    0 ≤ sumQ l / ((l.length : Nat) : Q) ∧ sumQ l / ((l.length : Nat) : Q) ≤ 1 := by
  have hpos : (0 : Q) < ((l.length : Nat) : Q) := by
    rw [Nat.cast_pos]
    exact List.length_pos_iff.2 hl
  rw [sumQ_eq_sum]
  refine ⟨div_nonneg (List.sum_nonneg fun x hx => (h x hx).1) hpos.le, ?_⟩
  rw [div_le_one hpos]
  have := List.sum_le_card_nsmul l 1 (fun x hx => (h x hx).2)
  simpa using this

/-! ### (3) the error rate of `analyze` -/

theorem analyze_error_rate_in_unit_interval (i : K) (nsq : K → Q) (hn : ∀ z, 0 ≤ nsq z)
    (c : Circ K) (rules : List Rule) (inputs : List (List Occ)) (ex : List (List FState))
    (r : AnalysisResult Q) (h : analyze i nsq c rules inputs (some ex) = .ok r)
    (hpos : ∀ row ∈ r.probs, 0 < sumQ row) (hlen : ex.length = inputs.length) :
    ∃ e, r.errorRate = some e ∧ 0 ≤ e ∧ e ≤ 1 := by
  refine ⟨_, analyze_error_rate_def i nsq c rules inputs ex r h, ?_⟩
  have hnn := analyze_probs_nonneg i nsq hn c rules inputs (some ex) r h
  have hnd := analyze_outputs_nodup i nsq c rules inputs (some ex) r h
  have hne := analyze_inputs_ne_nil i nsq c rules inputs (some ex) r h
  have hpl := (analyze_performance_def i nsq c rules inputs (some ex) r h).2.1
  have hzl : (r.probs.zip ex).length = inputs.length := by
    rw [List.length_zip, hpl, hlen, Nat.min_self]
  have hzne : r.probs.zip ex ≠ [] := by
    intro h0
    rw [h0, List.length_nil] at hzl
    exact hne (List.length_eq_zero_iff.1 hzl.symm)
  have := mean_in_unit_interval
    ((r.probs.zip ex).map fun (row, exps) =>
      exps.eraseDups.foldl (fun e o => match r.outputs.idxOf? o with
        | some k => e - row.getD k 0 / sumQ row
        | none => e) 1)
    (by simpa using hzne)
    (by
      intro x hx
      obtain ⟨⟨row, exps⟩, hmem, rfl⟩ := List.mem_map.1 hx
      have hrow : row ∈ r.probs := (List.of_mem_zip hmem).1
      exact error_fold_in_unit_interval row r.outputs exps (hnn row hrow) (hpos row hrow) hnd)
  rw [List.length_map] at this
  exact this

/-! ### non-vacuity of (3): the lossy two-mode instance of LW/Proofs/C05.lean (beam splitter
`[[3/5, 4/5], [4/5, -3/5]]`, then 64 % loss on mode 0), inputs `|1,1⟩` and `|2,0⟩`, the first with
an expected output listed twice -/

section NonVacuity

private def cexE : Circ Rat :=
  { n := 2, spec := [.prim (.bs 0 1 (3/5) (4/5) .h), .prim (.loss 0 (3/5) (4/5))] }
private def nsqE : Rat → Rat := fun z => z * z
private def insE : List (List Occ) := [[.int 1, .int 1], [.int 2, .int 0]]
private def exE : List (List FState) := [[[1, 1], [1, 1], [2, 0]], [[0, 2]]]

/-- all hypotheses of `analyze_error_rate_in_unit_interval` hold on this instance -/
example : ∃ r, analyze 0 nsqE cexE [] insE (some exE) = .ok r ∧
    (∀ row ∈ r.probs, 0 < sumQ row) ∧ exE.length = insE.length ∧
    ∃ e, r.errorRate = some e ∧ 0 ≤ e ∧ e ≤ 1 := by
  have hdec : (match analyze 0 nsqE cexE [] insE (some exE) with
      | .ok r => decide (∀ row ∈ r.probs, 0 < sumQ row)
      | .error _ => false) = true := by decide +kernel
  cases hr : analyze 0 nsqE cexE [] insE (some exE) with
  | error e => rw [hr] at hdec; cases hdec
  | ok r =>
    have hpos : ∀ row ∈ r.probs, 0 < sumQ row := by
      rw [hr] at hdec
      exact of_decide_eq_true hdec
    exact ⟨r, rfl, hpos, rfl,
      analyze_error_rate_in_unit_interval 0 nsqE (fun z => mul_self_nonneg z) cexE [] insE exE r hr
        hpos rfl⟩

end NonVacuity

end LW.Proofs.C05
