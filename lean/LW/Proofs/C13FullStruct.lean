/-
  LW.Proofs.C13FullStruct — what `SWAP([a0, a1], [b0, b1])` builds for four distinct natural mode
  numbers, for every scalar type: `Circuit(max + 1)` with the single component
  `mode_swaps({a0: b0, b0: a0, a1: b1, b1: a1})`, no heralds.
-/
import LW.Proofs.C02Basic
import LW.Model.Gates

set_option linter.unusedSimpArgs false

namespace LW.Gates

/-- the swap dictionary of `SWAP` -/
def swapDict (a0 a1 b0 b1 : Nat) : Dict := [(a0, b0), (b0, a0), (a1, b1), (b1, a1)]

/-- the circuit `SWAP` returns -/
def swapCirc {K : Type} (a0 a1 b0 b1 : Nat) : Circ K :=
  { n := max (max a0 a1) (max b0 b1) + 1, spec := [.prim (.swaps (swapDict a0 a1 b0 b1))] }

theorem dictLit_swap (a0 a1 b0 b1 : Int) (h01 : a0 ≠ a1) (h02 : a0 ≠ b0) (h03 : a0 ≠ b1)
    (h12 : a1 ≠ b0) (h13 : a1 ≠ b1) (h23 : b0 ≠ b1) :
    dictLit [(a0, b0), (b0, a0), (a1, b1), (b1, a1)] = [(a0, b0), (b0, a0), (a1, b1), (b1, a1)] := by
  have e1 : (a1 == a0) = false := by simpa using Ne.symm h01
  have e2 : (b0 == a0) = false := by simpa using Ne.symm h02
  have e3 : (b1 == a0) = false := by simpa using Ne.symm h03
  have e4 : (b0 == a1) = false := by simpa using Ne.symm h12
  have e5 : (b1 == a1) = false := by simpa using Ne.symm h13
  have e6 : (b1 == b0) = false := by simpa using Ne.symm h23
  have e1' : (a0 == a1) = false := by simpa using h01
  have e2' : (a0 == b0) = false := by simpa using h02
  have e3' : (a0 == b1) = false := by simpa using h03
  have e4' : (a1 == b0) = false := by simpa using h12
  have e5' : (a1 == b1) = false := by simpa using h13
  have e6' : (b0 == b1) = false := by simpa using h23
  simp [dictLit, List.find?, List.filter, bne, e1, e2, e3, e4, e5, e6, e1', e2', e3', e4', e5', e6']

theorem sortNat_swap (a0 a1 b0 b1 : Nat) : sortNat [a0, b0, a1, b1] = sortNat [b0, a0, b1, a1] := by
  have hp : (sortNat [a0, b0, a1, b1]).Perm (sortNat [b0, a0, b1, a1]) := by
    refine (LW.Proofs.C02.perm_sortNat _).trans (List.Perm.trans ?_ (LW.Proofs.C02.perm_sortNat _).symm)
    exact (List.Perm.swap b0 a0 _).trans (List.Perm.cons _ (List.Perm.cons _ (List.Perm.swap b1 a1 _)))
  exact List.Perm.eq_of_pairwise (fun a b _ _ hab hba => Nat.le_antisymm hab hba)
    (LW.Proofs.C02.sorted_sortNat _) (LW.Proofs.C02.sorted_sortNat _) hp

theorem ofPairs_swap (a0 a1 b0 b1 : Nat) (h : [a0, a1, b0, b1].Nodup) :
    Dict.ofPairs [(a0, b0), (b0, a0), (a1, b1), (b1, a1)] = swapDict a0 a1 b0 b1 := by
  simp only [List.nodup_cons, List.mem_cons, List.not_mem_nil, or_false, not_or, List.nodup_nil,
    and_true, not_false_eq_true] at h
  obtain ⟨⟨h01, h02, h03⟩, ⟨h12, h13⟩, h23⟩ := h
  simp [Dict.ofPairs, Dict.set, Dict.contains, swapDict, h01, h02, h03, h12, h13, h23, Ne.symm h01,
    Ne.symm h02, Ne.symm h03, Ne.symm h12, Ne.symm h13, Ne.symm h23]

variable {K : Type}

theorem SWAP_struct (a0 a1 b0 b1 : Nat) (h : [a0, a1, b0, b1].Nodup) :
    SWAP (K := K) [(a0 : Int), (a1 : Int)] [(b0 : Int), (b1 : Int)] = .ok (swapCirc a0 a1 b0 b1) := by
  have hnd := h
  simp only [List.nodup_cons, List.mem_cons, List.not_mem_nil, or_false, not_or, List.nodup_nil,
    and_true, not_false_eq_true] at h
  obtain ⟨⟨h01, h02, h03⟩, ⟨h12, h13⟩, h23⟩ := h
  have hN : ([(a0 : Int), (a1 : Int), (b0 : Int), (b1 : Int)].foldl max (a0 : Int) + 1).toNat
      = max (max a0 a1) (max b0 b1) + 1 := by
    simp only [List.foldl]
    omega
  unfold SWAP
  simp only [hN]
  rw [dictLit_swap _ _ _ _ (by omega) (by omega) (by omega) (by omega) (by omega) (by omega)]
  have hr : ∀ a : Nat, a ≤ max (max a0 a1) (max b0 b1) →
      (Circ.new (max (max a0 a1) (max b0 b1) + 1) : Circ K).modeInRange
        ((Circ.new (max (max a0 a1) (max b0 b1) + 1) : Circ K).mapMode (a : Int)) = .ok a := by
    intro a ha
    simp [Circ.modeInRange, Circ.mapMode, Circ.new, sortNat]
    omega
  unfold Circ.modeSwaps
  simp only [List.map_cons, List.map_nil, List.mapM_cons, List.mapM_nil]
  rw [hr a0 (by omega), hr a1 (by omega), hr b0 (by omega), hr b1 (by omega)]
  simp only [bind, Except.bind, pure, Except.pure, List.zip_cons_cons, List.zip_nil_right]
  rw [ofPairs_swap a0 a1 b0 b1 hnd]
  have hs : (sortNat (swapDict a0 a1 b0 b1).keys != sortNat (swapDict a0 a1 b0 b1).vals) = false := by
    simp only [swapDict, Dict.keys, Dict.vals, List.map_cons, List.map_nil, sortNat_swap a0 a1 b0 b1]
    simp
  simp only [hs]
  rfl

end LW.Gates
