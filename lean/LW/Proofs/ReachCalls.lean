/-
  LW.Proofs.ReachCalls — accepted primitive construction calls only append leaf components, so
  they preserve `SpecGroupOk`.
-/
import LW.Proofs.GroupWf
import LW.Proofs.C01Api

set_option linter.unusedSectionVars false

namespace LW.Proofs.Reach

open LW LW.Proofs.C01Aux

variable {K : Type} [CommRing K] [StarRing K]

theorem bs_grp (c c' : Circ K) (hg : SpecGroupOk c.spec) (m1 m2 : Int) (cs : K × K) (cv : Conv)
    (l : Option (K × K)) (h : c.bs m1 m2 cs cv l = .ok c') : SpecGroupOk c'.spec := by
  unfold Circ.bs at h
  cases ha : c.modeInRange (c.mapMode m1) with
  | error e => simp [ha, bind, Except.bind] at h
  | ok a =>
    by_cases he : (a : Int) = c.mapMode m2
    · simp [ha, he, bind, Except.bind, throw, throwThe, MonadExceptOf.throw] at h
    cases hb : c.modeInRange (c.mapMode m2) with
    | error e => simp [ha, hb, he, bind, Except.bind] at h
    | ok b =>
      simp only [ha, hb, he, bind, Except.bind, if_false] at h
      cases l with
      | none =>
        simp [pure, Except.pure] at h
        subst h
        intro x hx
        simp only [List.mem_append, List.mem_cons, List.not_mem_nil, or_false] at hx
        rcases hx with hx | rfl
        · exact hg x hx
        · trivial
      | some ab =>
        obtain ⟨la, lb⟩ := ab
        simp [pure, Except.pure] at h
        subst h
        intro x hx
        simp only [List.mem_append, List.mem_cons, List.not_mem_nil, or_false] at hx
        rcases hx with hx | rfl | rfl | rfl
        · exact hg x hx
        · trivial
        · trivial
        · trivial

theorem ps_grp (c c' : Circ K) (hg : SpecGroupOk c.spec) (m : Int) (p : K) (l : Option (K × K))
    (h : c.ps m p l = .ok c') : SpecGroupOk c'.spec := by
  unfold Circ.ps at h
  cases ha : c.modeInRange (c.mapMode m) with
  | error e => simp [ha, bind, Except.bind] at h
  | ok a =>
    simp only [ha, bind, Except.bind] at h
    cases l with
    | none =>
      simp [pure, Except.pure] at h
      subst h
      intro x hx
      simp only [List.mem_append, List.mem_cons, List.not_mem_nil, or_false] at hx
      rcases hx with hx | rfl
      · exact hg x hx
      · trivial
    | some ab =>
      obtain ⟨la, lb⟩ := ab
      simp [pure, Except.pure] at h
      subst h
      intro x hx
      simp only [List.mem_append, List.mem_cons, List.not_mem_nil, or_false] at hx
      rcases hx with hx | rfl | rfl
      · exact hg x hx
      · trivial
      · trivial

theorem loss_grp (c c' : Circ K) (hg : SpecGroupOk c.spec) (m : Int) (ab : K × K)
    (h : c.loss m ab = .ok c') : SpecGroupOk c'.spec := by
  unfold Circ.loss at h
  cases ha : c.modeInRange (c.mapMode m) with
  | error e => simp [ha, bind, Except.bind] at h
  | ok a =>
    simp [ha, bind, Except.bind, pure, Except.pure] at h
    subst h
    intro x hx
    simp only [List.mem_append, List.mem_cons, List.not_mem_nil, or_false] at hx
    rcases hx with hx | rfl
    · exact hg x hx
    · trivial

theorem barrier_grp_aux (c c' : Circ K) (hg : SpecGroupOk c.spec) (ml : List Int)
    (h : (do
      let ms' ← ml.mapM fun m => c.modeInRange (c.mapMode m)
      (pure ({ c with spec := c.spec ++ [Comp.prim (Prim.barrier ms')] } : Circ K) :
        Except Err (Circ K))) = .ok c') :
    SpecGroupOk c'.spec := by
  cases hm : ml.mapM (fun m => c.modeInRange (c.mapMode m)) with
  | error e => simp [hm, bind, Except.bind] at h
  | ok ms' =>
    simp [hm, bind, Except.bind, pure, Except.pure] at h
    subst h
    intro x hx
    simp only [List.mem_append, List.mem_cons, List.not_mem_nil, or_false] at hx
    rcases hx with hx | rfl
    · exact hg x hx
    · trivial

theorem barrier_grp (c c' : Circ K) (hg : SpecGroupOk c.spec) (ms : Option (List Int))
    (h : c.barrier ms = .ok c') : SpecGroupOk c'.spec := by
  unfold Circ.barrier at h
  cases ms with
  | none => exact barrier_grp_aux c c' hg _ h
  | some l => exact barrier_grp_aux c c' hg _ h

theorem modeSwaps_grp (c c' : Circ K) (hg : SpecGroupOk c.spec) (sw : List (Int × Int))
    (h : c.modeSwaps sw = .ok c') : SpecGroupOk c'.spec := by
  unfold Circ.modeSwaps at h
  generalize sw.map (fun p => (c.mapMode p.1, c.mapMode p.2)) = rm at h
  cases hk : rm.mapM (fun p => c.modeInRange p.1) with
  | error e => simp [hk, bind, Except.bind] at h
  | ok ks =>
    cases hv : rm.mapM (fun p => c.modeInRange p.2) with
    | error e => simp [hk, hv, bind, Except.bind] at h
    | ok vs =>
      by_cases hs : sortNat (Dict.ofPairs (ks.zip vs)).keys = sortNat (Dict.ofPairs (ks.zip vs)).vals
      · simp [hk, hv, hs, bind, Except.bind, pure, Except.pure] at h
        subst h
        intro x hx
        simp only [List.mem_append, List.mem_cons, List.not_mem_nil, or_false] at hx
        rcases hx with hx | rfl
        · exact hg x hx
        · trivial
      · simp [hk, hv, hs, bind, Except.bind, throw, throwThe, MonadExceptOf.throw] at h

end LW.Proofs.Reach
