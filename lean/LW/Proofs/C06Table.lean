/-
  LW.Proofs.C06Table — the single-photon outcome table of the imperfect source: sums to one,
  non-negative on the documented ranges, photon-number statistics and g2; the `Real.sqrt` root
  computed by `purity_to_prob` is the two-photon weight `x` with `2x/(1+x)² = 1 - purity`.
-/
import Mathlib.Algebra.Order.Field.Basic
import Mathlib.Analysis.Real.Sqrt
import Mathlib.Tactic.Ring
import Mathlib.Tactic.FieldSimp
import Mathlib.Tactic.Linarith
import Mathlib.Tactic.LinearCombination
import LW.Model.Source

namespace LW.Proofs.C06

open LW.Src

section Ring
variable {Q : Type} [CommRing Q]

/-- the six outcome probabilities sum to one (any parameters, any commutative ring) -/
theorem table_sums_to_one (P : Params Q) :
    c0 P + c1 P + c1d P + c1dp P + c12d P + c1d2d P = 1 := by
  simp only [c0, c1, c1d, c1dp, c12d, c1d2d, p1, pd]
  ring

theorem c0_eq (P : Params Q) : c0 P = (1 - P.nu) * (1 - P.nu * P.p2) := by
  simp only [c0, p1]; ring

theorem keep_eq (P : Params Q) : p1 P + (1 - P.nu) * P.p2 = 1 - P.nu * P.p2 := by
  simp only [p1]; ring

end Ring

/-- probability that one emitter delivers exactly one photon -/
def pn1 {Q : Type} [Add Q] [Mul Q] [Sub Q] [Zero Q] [One Q] (P : Params Q) : Q :=
  c1 P + c1d P + c1dp P
/-- probability that one emitter delivers two photons -/
def pn2 {Q : Type} [Add Q] [Mul Q] [Sub Q] [Zero Q] [One Q] (P : Params Q) : Q :=
  c12d P + c1d2d P
/-- second-order correlation `⟨n(n-1)⟩ / ⟨n⟩²` of the emitted photon-number statistics -/
def g2 {Q : Type} [Add Q] [Mul Q] [Sub Q] [Div Q] [Zero Q] [One Q] (P : Params Q) : Q :=
  (1 + 1) * pn2 P / ((pn1 P + (1 + 1) * pn2 P) * (pn1 P + (1 + 1) * pn2 P))

section Ordered
variable {Q : Type} [Field Q] [LinearOrder Q] [IsStrictOrderedRing Q]

/-- every outcome probability is non-negative on the documented parameter ranges -/
theorem table_nonneg (P : Params Q) (hν0 : 0 ≤ P.nu) (hν1 : P.nu ≤ 1) (hx0 : 0 ≤ P.p2)
    (hx1 : P.p2 ≤ 1) (hq0 : 0 ≤ P.pi) (hq1 : P.pi ≤ 1) :
    0 ≤ c0 P ∧ 0 ≤ c1 P ∧ 0 ≤ c1d P ∧ 0 ≤ c1dp P ∧ 0 ≤ c12d P ∧ 0 ≤ c1d2d P := by
  have h1ν : 0 ≤ 1 - P.nu := sub_nonneg.2 hν1
  have h1q : 0 ≤ 1 - P.pi := sub_nonneg.2 hq1
  have hνx : P.nu * P.p2 ≤ 1 := by
    calc P.nu * P.p2 ≤ 1 * 1 := mul_le_mul hν1 hx1 hx0 zero_le_one
      _ = 1 := one_mul 1
  have hk : 0 ≤ 1 - P.nu * P.p2 := sub_nonneg.2 hνx
  refine ⟨?_, ?_, ?_, ?_, ?_, ?_⟩
  · rw [c0_eq]; exact mul_nonneg h1ν hk
  · simp only [c1]; rw [keep_eq]; exact mul_nonneg (mul_nonneg hq0 hν0) hk
  · simp only [c1d, pd]; rw [keep_eq]; exact mul_nonneg (mul_nonneg h1q hν0) hk
  · simp only [c1dp]; exact mul_nonneg (mul_nonneg hν0 h1ν) hx0
  · simp only [c12d]; exact mul_nonneg (mul_nonneg (mul_nonneg hν0 hν0) hq0) hx0
  · simp only [c1d2d, pd]; exact mul_nonneg (mul_nonneg (mul_nonneg hν0 hν0) h1q) hx0

/-- the photon-number statistics of one emitter have `g2 = 2x/(1+x)²`, whatever the brightness
(`ν ≠ 0`) and the indistinguishability -/
theorem g2_table (P : Params Q) (hν : P.nu ≠ 0) (hx : 1 + P.p2 ≠ 0) :
    g2 P = (1 + 1) * P.p2 / ((1 + P.p2) * (1 + P.p2)) := by
  have h1 : pn1 P + (1 + 1) * pn2 P = P.nu * (1 + P.p2) := by
    simp only [pn1, pn2, c1, c1d, c1dp, c12d, c1d2d, p1, pd]; ring
  have h2 : pn2 P = P.nu * P.nu * P.p2 := by
    simp only [pn2, c12d, c1d2d, pd]; ring
  unfold g2
  rw [h1, h2]
  field_simp

end Ordered

/-! ### `purity_to_prob` over the reals -/

/-- `purity_to_prob` (for purity > 1/2; `(b² - 4) ** 0.5` is the real square root) -/
noncomputable def purityToProb (purity : ℝ) : ℝ :=
  if purity < 1 then
    let g := 1 - purity
    let b := 2 * (1 - 1 / g)
    1 - (-b - Real.sqrt (b ^ 2 - 4)) / 2
  else 1

/-- the two-photon weight the code derives from the purity -/
noncomputable def twoPhotonWeight (purity : ℝ) : ℝ := 1 - purityToProb purity

theorem twoPhotonWeight_one : twoPhotonWeight 1 = 0 := by
  simp [twoPhotonWeight, purityToProb]

/-- for purity in (1/2, 1) the weight `x` lies in (0,1) and satisfies `2x = (1 - purity)(1+x)²` -/
theorem twoPhotonWeight_spec (purity : ℝ) (h0 : 1 / 2 < purity) (h1 : purity < 1) :
    0 < twoPhotonWeight purity ∧ twoPhotonWeight purity < 1 ∧
      2 * twoPhotonWeight purity =
        (1 - purity) * ((1 + twoPhotonWeight purity) * (1 + twoPhotonWeight purity)) := by
  have hg0 : 0 < 1 - purity := by linarith
  have hg2 : 1 - purity < 1 / 2 := by linarith
  set g := 1 - purity with hg
  set b := 2 * (1 - 1 / g) with hb
  have hx : twoPhotonWeight purity = (-b - Real.sqrt (b ^ 2 - 4)) / 2 := by
    simp only [twoPhotonWeight, purityToProb, if_pos h1]
    ring
  have hginv : 2 < 1 / g := by
    rw [lt_div_iff₀ hg0]; linarith
  have hbneg : b < -2 := by rw [hb]; linarith
  have hdisc : 0 < b ^ 2 - 4 := by nlinarith
  set r := Real.sqrt (b ^ 2 - 4) with hr
  have hr0 : 0 < r := Real.sqrt_pos.2 hdisc
  have hrr : r * r = b ^ 2 - 4 := Real.mul_self_sqrt hdisc.le
  -- r < -b
  have hrb : r < -b := by
    by_contra hcon
    have hcon : -b ≤ r := not_lt.1 hcon
    have : (-b) * (-b) ≤ r * r := mul_self_le_mul_self (by linarith) hcon
    nlinarith
  -- -b - 2 < r
  have hrb2 : -b - 2 < r := by
    by_contra hcon
    have hcon : r ≤ -b - 2 := not_lt.1 hcon
    have : r * r ≤ (-b - 2) * (-b - 2) := mul_self_le_mul_self hr0.le hcon
    nlinarith
  rw [hx]
  refine ⟨by linarith, by linarith, ?_⟩
  -- root equation x² + b x + 1 = 0
  set x := (-b - r) / 2 with hxdef
  have hroot : x * x + b * x + 1 = 0 := by
    rw [hxdef]; nlinarith
  -- b = 2 (1 - 1/g)  ⇒  g (2 - b) = 2
  have hgb : g * (2 - b) = 2 := by
    rw [hb]; field_simp; ring
  -- (1+x)² = x (2 - b)
  have hsq : (1 + x) * (1 + x) = x * (2 - b) := by nlinarith
  rw [hsq]
  calc 2 * x = x * 2 := by ring
    _ = x * (g * (2 - b)) := by rw [hgb]
    _ = g * (x * (2 - b)) := by ring

/-- g2 OF THE EMITTED LIGHT = 1 − PURITY, with the two-photon weight computed as the code does -/
theorem g2_eq_one_sub_purity (purity nu q thr : ℝ) (h0 : 1 / 2 < purity) (h1 : purity ≤ 1)
    (hν : nu ≠ 0) :
    g2 (⟨nu, twoPhotonWeight purity, q, thr⟩ : Params ℝ) = 1 - purity := by
  rcases lt_or_eq_of_le h1 with hlt | heq
  · obtain ⟨hx0, _, hspec⟩ := twoPhotonWeight_spec purity h0 hlt
    have hne : 1 + twoPhotonWeight purity ≠ 0 := by linarith
    rw [g2_table _ hν hne]
    show (1 + 1) * twoPhotonWeight purity /
      ((1 + twoPhotonWeight purity) * (1 + twoPhotonWeight purity)) = 1 - purity
    rw [div_eq_iff (mul_ne_zero hne hne)]
    linarith
  · subst heq
    rw [g2_table _ hν (by simp [twoPhotonWeight_one])]
    simp [twoPhotonWeight_one]

end LW.Proofs.C06
