/-
  LW.Proofs.C06Perfect — perfect source settings (brightness = purity = indistinguishability = 1, no
  threshold) reduce to the ideal source: the statistics are `{state: 1}` and the sampler
  distribution is the ideal-source distribution of C04.
-/
import LW.Proofs.C06Norm
import LW.Proofs.FockIsoDeps

set_option linter.unusedSectionVars false

namespace LW.Proofs.C06

open LW.Src LW.SV

/-- occupation vector of a list of mode indices -/
def countVec (n : Nat) (ms : List Nat) : FState := (List.range n).map fun j => ms.count j

theorem countVec_partitionIdx (s : FState) : countVec s.length (partitionIdx s) = s := by
  apply List.ext_getElem
  · simp [countVec]
  · intro i h1 h2
    simp only [countVec, List.getElem_map, List.getElem_range]
    rw [(FockIso.partitionIdx_spec s).2 i]
    simp [List.getD_eq_getElem?_getD, h2]

theorem zipWith_countVec (n : Nat) (ms : List Nat) (m : Nat) :
    List.zipWith (· + ·) (countVec n ms) (unitVec n m) = countVec n (ms ++ [m]) := by
  unfold countVec unitVec
  rw [List.zipWith_map_left, List.zipWith_map_right, List.zipWith_self]
  apply List.map_congr_left
  intro j _
  rw [List.count_append, List.count_singleton]
  simp only [beq_iff_eq]

section
variable {Q : Type} [Field Q] [LinearOrder Q] [IsStrictOrderedRing Q]

theorem basic_fold_perfect (P : Params Q) (hν : P.nu = 1) (n : Nat) (rest done : List Nat) :
    rest.foldl (basicStep P n) [((1 : Q), countVec n done)] = [((1 : Q), countVec n (done ++ rest))] := by
  induction rest generalizing done with
  | nil => simp
  | cons m rest ih =>
    rw [List.foldl_cons]
    have hstep : basicStep P n [((1 : Q), countVec n done)] m = [((1 : Q), countVec n (done ++ [m]))] := by
      unfold basicStep
      simp only [hν, lt_irrefl, if_false, List.isEmpty_cons, Bool.false_eq_true, List.flatMap_cons,
        List.flatMap_nil, List.map_cons, List.map_nil, List.append_nil, mul_one]
      rw [zipWith_countVec]
    rw [hstep, ih]
    simp

theorem buildStatisticsBasic_perfect (P : Params Q) (hν : P.nu = 1) (s : FState) :
    buildStatisticsBasic P s = [(s, 1)] := by
  rw [buildStatisticsBasic_eq]
  simp only
  cases hp : partitionIdx s with
  | nil => simp [KD.ofPairs]
  | cons m ms =>
    rw [List.foldl_cons]
    have h1 : basicStep P s.length [] m = [((1 : Q), countVec s.length [m])] := by
      unfold basicStep
      simp only [hν, lt_irrefl, if_false, List.isEmpty_nil, if_true]
      congr 2
      unfold countVec unitVec
      apply List.map_congr_left
      intro j _
      rw [List.count_singleton]
      simp only [beq_iff_eq]
    rw [h1, basic_fold_perfect P hν, List.singleton_append, ← hp, countVec_partitionIdx]
    simp [KD.ofPairs, KD.addTo]

/-- PERFECT SETTINGS: the source statistics are the target state with probability one -/
theorem buildStatistics_perfect (P : Params Q) (hν : P.nu = 1) (hx : P.p2 = 0) (hq : P.pi = 1)
    (hthr : ¬ 0 < P.thr) (s : FState) : buildStatistics P s = .ok (.basic [(s, 1)]) := by
  unfold buildStatistics
  rw [if_pos ⟨hx, hq⟩]
  simp only
  have : applyThreshold P.thr (buildStatisticsBasic P s) = [(s, 1)] := by
    unfold applyThreshold
    rw [if_neg hthr, buildStatisticsBasic_perfect P hν]
  rw [this]
  rfl

/-- PERFECT SETTINGS REDUCE TO THE IDEAL SOURCE: the sampler distribution is `pdist_calc` on the
single input `{state: 1}` (what the Sampler computes without a source object) -/
theorem perfect_reduces_to_ideal {K : Type} [Add K] [Mul K] [Zero K] [One K] (b : BackendKind)
    (nsq : K → Q) (eps : Q) (U : M K) (nReal : Nat) (P : Params Q) (hν : P.nu = 1) (hx : P.p2 = 0)
    (hq : P.pi = 1) (hthr : ¬ 0 < P.thr) (full : FState) :
    samplerDistSrc b nsq eps U nReal P full =
      .ok (let pd := pdistCalc b nsq eps U nReal [(full, 1)]
           if pd.isEmpty then [(List.replicate nReal 0, 1)] else pd) := by
  unfold samplerDistSrc
  rw [buildStatistics_perfect P hν hx hq hthr]

end

end LW.Proofs.C06
