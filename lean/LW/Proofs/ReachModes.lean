/-
  LW.Proofs.ReachModes — `Comp.addEmptyMode` and `Comp.shift` preserve the documented parameter
  ranges (`Comp.Wf`) and the group-span condition (`Comp.GroupOk`).
-/
import LW.Proofs.ReachSwaps
import LW.Proofs.ReachUnitary

set_option linter.unusedSectionVars false

namespace LW.Proofs.Reach

open LW LW.Proofs.C02

variable {K : Type} [CommRing K] [StarRing K]

theorem bump_mono {t a b : Nat} (h : a ≤ b) : bump t a ≤ bump t b := by
  unfold bump; split <;> split <;> omega

theorem bump_lt_succ {t a n : Nat} (h : a < n) : bump t a < n + 1 := by
  have := bump_le_succ t a; omega

/-! ### `addEmptyMode` -/

theorem Prim.Wf.addEmptyMode {n : Nat} {p : Prim K} (h : p.Wf n) (t : Nat) :
    (p.addEmptyMode t).Wf (n + 1) := by
  cases p with
  | bs m1 m2 c s cv =>
    obtain ⟨h1, h2, h3, h4⟩ := h
    exact ⟨bump_lt_succ h1, bump_lt_succ h2, fun e => h3 (bump_inj e), h4⟩
  | ps m q => exact ⟨bump_lt_succ h.1, h.2⟩
  | loss m a b => exact ⟨bump_lt_succ h.1, h.2⟩
  | barrier ms =>
    intro m hm
    simp only [List.mem_map] at hm
    obtain ⟨a, ha, rfl⟩ := hm
    exact bump_lt_succ (h a ha)
  | swaps σ =>
    exact SwapsOk.relabel h (bump t) (fun a b => bump_inj) (fun k hk => bump_lt_succ hk)
  | unitary m u =>
    obtain ⟨h1, h2⟩ := h
    simp only [Prim.addEmptyMode]
    split
    · rename_i hc
      have hb : bump t m = m := by
        unfold bump at hc ⊢
        split <;> rename_i h' <;> simp only [h', if_true, if_false] at hc <;> omega
      rw [hb] at hc ⊢
      refine ⟨?_, isUnitary_addModeToUnitary u (t - m) (by omega) h2⟩
      show m + (u.n + 1) ≤ n + 1
      omega
    · refine ⟨?_, h2⟩
      have := bump_le_succ t m
      show bump t m + u.n ≤ n + 1
      omega

theorem Prim.modes_addEmptyMode_range (t a b : Nat) (p : Prim K)
    (h : ∀ m ∈ p.modes, a ≤ m ∧ m ≤ b) :
    ∀ m ∈ (p.addEmptyMode t).modes, bump t a ≤ m ∧ m ≤ bump t b := by
  cases p with
  | bs m1 m2 c s cv =>
    intro m hm
    simp only [Prim.addEmptyMode, Prim.modes, List.mem_cons, List.not_mem_nil, or_false] at hm h
    rcases hm with rfl | rfl
    · exact ⟨bump_mono (h m1 (Or.inl rfl)).1, bump_mono (h m1 (Or.inl rfl)).2⟩
    · exact ⟨bump_mono (h m2 (Or.inr rfl)).1, bump_mono (h m2 (Or.inr rfl)).2⟩
  | ps m0 q =>
    intro m hm
    simp only [Prim.addEmptyMode, Prim.modes, List.mem_cons, List.not_mem_nil, or_false] at hm h
    subst hm
    exact ⟨bump_mono (h m0 rfl).1, bump_mono (h m0 rfl).2⟩
  | loss m0 x y =>
    intro m hm
    simp only [Prim.addEmptyMode, Prim.modes, List.mem_cons, List.not_mem_nil, or_false] at hm h
    subst hm
    exact ⟨bump_mono (h m0 rfl).1, bump_mono (h m0 rfl).2⟩
  | barrier ms =>
    intro m hm
    simp only [Prim.addEmptyMode, Prim.modes, List.mem_map] at hm h
    obtain ⟨x, hx, rfl⟩ := hm
    exact ⟨bump_mono (h x hx).1, bump_mono (h x hx).2⟩
  | swaps σ =>
    intro m hm
    simp only [Prim.addEmptyMode, Prim.modes, List.mem_append] at hm h
    rcases hm with hm | hm
    · have := mem_keys_ofPairs.mp hm
      simp only [List.map_map, List.mem_map, Function.comp] at this
      obtain ⟨q, hq, rfl⟩ := this
      have := h q.1 (Or.inl (by simp only [Dict.keys, List.mem_map]; exact ⟨q, hq, rfl⟩))
      exact ⟨bump_mono this.1, bump_mono this.2⟩
    · have := mem_vals_ofPairs hm
      simp only [List.map_map, List.mem_map, Function.comp] at this
      obtain ⟨q, hq, rfl⟩ := this
      have := h q.2 (Or.inr (by simp only [Dict.vals, List.mem_map]; exact ⟨q, hq, rfl⟩))
      exact ⟨bump_mono this.1, bump_mono this.2⟩
  | unitary m0 u =>
    intro m hm
    simp only [Prim.modes, List.mem_map, List.mem_range] at h
    simp only [Prim.addEmptyMode] at hm
    split at hm
    · rename_i hc
      simp only [Prim.modes, List.mem_map, List.mem_range] at hm
      obtain ⟨r, hr, rfl⟩ := hm
      have hn : (addModeToUnitary u (t - bump t m0)).n = u.n + 1 := rfl
      rw [hn] at hr
      have hb : bump t m0 = m0 := by
        unfold bump at hc ⊢
        split <;> rename_i h' <;> simp only [h', if_true, if_false] at hc <;> omega
      rw [hb] at hc ⊢
      have hlo := h (0 + m0) ⟨0, by omega, rfl⟩
      have hhi := h (u.n - 1 + m0) ⟨u.n - 1, by omega, rfl⟩
      have e1 : bump t a = a := bump_of_lt (by omega)
      have e2 : bump t b = b + 1 := by unfold bump; rw [if_pos (by omega)]
      rw [e1, e2]
      omega
    · rename_i hc
      simp only [Prim.modes, List.mem_map, List.mem_range] at hm
      obtain ⟨r, hr, rfl⟩ := hm
      have hx := h (r + m0) ⟨r, hr, rfl⟩
      have e : r + bump t m0 = bump t (r + m0) := by
        unfold bump at hc ⊢
        split <;> rename_i h' <;> simp only [h', if_true, if_false] at hc
        · rw [if_pos (by omega)]; omega
        · rw [if_neg (by omega)]
      rw [e]
      exact ⟨bump_mono hx.1, bump_mono hx.2⟩

theorem Comp.Wf.addEmptyMode {n : Nat} {c : Comp K} (h : c.Wf n) (t : Nat) :
    (c.addEmptyMode t).Wf (n + 1) := by
  cases c with
  | prim p => exact Prim.Wf.addEmptyMode (p := p) h t
  | group cs m1 m2 hin hout =>
    intro p hp
    simp only [List.mem_map] at hp
    obtain ⟨p0, hp0, rfl⟩ := hp
    exact Prim.Wf.addEmptyMode (h p0 hp0) t

theorem Comp.GroupOk.addEmptyMode {c : Comp K} (h : c.GroupOk) (t : Nat) :
    (c.addEmptyMode t).GroupOk := by
  cases c with
  | prim p => trivial
  | group cs m1 m2 hin hout =>
    intro p hp
    simp only [List.mem_map] at hp
    obtain ⟨p0, hp0, rfl⟩ := hp
    exact Prim.modes_addEmptyMode_range t m1 m2 p0 (h p0 hp0)

theorem SpecWf.addEmptyMode {n : Nat} {spec : List (Comp K)} (h : SpecWf n spec) (t : Nat) :
    SpecWf (n + 1) (Circ.addEmptyModeSpec spec t) := by
  intro c hc
  simp only [Circ.addEmptyModeSpec, List.mem_map] at hc
  obtain ⟨c0, hc0, rfl⟩ := hc
  exact Comp.Wf.addEmptyMode (h c0 hc0) t

theorem SpecGroupOk.addEmptyMode {spec : List (Comp K)} (h : SpecGroupOk spec) (t : Nat) :
    SpecGroupOk (Circ.addEmptyModeSpec spec t) := by
  intro c hc
  simp only [Circ.addEmptyModeSpec, List.mem_map] at hc
  obtain ⟨c0, hc0, rfl⟩ := hc
  exact Comp.GroupOk.addEmptyMode (h c0 hc0) t

/-! ### `shift` -/

theorem Prim.Wf.shift {n : Nat} {p : Prim K} (h : p.Wf n) (k : Nat) : (p.shift k).Wf (n + k) := by
  cases p with
  | bs m1 m2 c s cv =>
    obtain ⟨h1, h2, h3, h4⟩ := h
    exact ⟨by omega, by omega, by omega, h4⟩
  | ps m q => exact ⟨by have := h.1; omega, h.2⟩
  | loss m a b => exact ⟨by have := h.1; omega, h.2⟩
  | barrier ms =>
    intro m hm
    simp only [List.mem_map] at hm
    obtain ⟨a, ha, rfl⟩ := hm
    have := h a ha; omega
  | swaps σ =>
    exact SwapsOk.relabel h (· + k) (fun a b e => by simpa using e) (fun x hx => by simp; omega)
  | unitary m u =>
    refine ⟨?_, h.2⟩
    have := h.1
    show m + k + u.n ≤ n + k
    omega

theorem Prim.modes_shift_ge (k : Nat) (p : Prim K) :
    ∀ m ∈ (p.shift k).modes, ∃ m0 ∈ p.modes, m = m0 + k := by
  cases p with
  | bs m1 m2 c s cv =>
    intro m hm
    simp only [Prim.shift, Prim.modes, List.mem_cons, List.not_mem_nil, or_false] at hm ⊢
    rcases hm with rfl | rfl
    · exact ⟨m1, Or.inl rfl, rfl⟩
    · exact ⟨m2, Or.inr rfl, rfl⟩
  | ps m0 q =>
    intro m hm
    simp only [Prim.shift, Prim.modes, List.mem_cons, List.not_mem_nil, or_false] at hm ⊢
    exact ⟨m0, rfl, hm⟩
  | loss m0 x y =>
    intro m hm
    simp only [Prim.shift, Prim.modes, List.mem_cons, List.not_mem_nil, or_false] at hm ⊢
    exact ⟨m0, rfl, hm⟩
  | barrier ms =>
    intro m hm
    simp only [Prim.shift, Prim.modes, List.mem_map] at hm ⊢
    obtain ⟨x, hx, rfl⟩ := hm
    exact ⟨x, hx, rfl⟩
  | swaps σ =>
    intro m hm
    simp only [Prim.shift, Prim.modes, List.mem_append] at hm ⊢
    rcases hm with hm | hm
    · have := mem_keys_ofPairs.mp hm
      simp only [List.map_map, List.mem_map, Function.comp] at this
      obtain ⟨q, hq, rfl⟩ := this
      exact ⟨q.1, Or.inl (by simp only [Dict.keys, List.mem_map]; exact ⟨q, hq, rfl⟩), rfl⟩
    · have := mem_vals_ofPairs hm
      simp only [List.map_map, List.mem_map, Function.comp] at this
      obtain ⟨q, hq, rfl⟩ := this
      exact ⟨q.2, Or.inr (by simp only [Dict.vals, List.mem_map]; exact ⟨q, hq, rfl⟩), rfl⟩
  | unitary m0 u =>
    intro m hm
    simp only [Prim.shift, Prim.modes, List.mem_map, List.mem_range] at hm ⊢
    obtain ⟨r, hr, rfl⟩ := hm
    exact ⟨r + m0, ⟨r, hr, rfl⟩, by omega⟩

theorem Comp.Wf.shift {n : Nat} {c : Comp K} (h : c.Wf n) (k : Nat) : (c.shift k).Wf (n + k) := by
  cases c with
  | prim p => exact Prim.Wf.shift (p := p) h k
  | group cs m1 m2 hin hout =>
    intro p hp
    simp only [List.mem_map] at hp
    obtain ⟨p0, hp0, rfl⟩ := hp
    exact Prim.Wf.shift (h p0 hp0) k

theorem Comp.GroupOk.shift {c : Comp K} (h : c.GroupOk) (k : Nat) : (c.shift k).GroupOk := by
  cases c with
  | prim p => trivial
  | group cs m1 m2 hin hout =>
    intro p hp m hm
    simp only [List.mem_map] at hp
    obtain ⟨p0, hp0, rfl⟩ := hp
    obtain ⟨m0, hm0, rfl⟩ := Prim.modes_shift_ge k p0 m hm
    have := h p0 hp0 m0 hm0
    omega

theorem Comp.modes_shift_ge (k : Nat) (c : Comp K) : ∀ m ∈ (c.shift k).modes, k ≤ m := by
  cases c with
  | prim p =>
    intro m hm
    obtain ⟨m0, _, rfl⟩ := Prim.modes_shift_ge k p m hm
    omega
  | group cs m1 m2 hin hout =>
    intro m hm
    simp only [Comp.shift, Comp.modes, List.mem_flatMap, List.mem_map] at hm
    obtain ⟨p', ⟨p, hp, rfl⟩, hm⟩ := hm
    obtain ⟨m0, _, rfl⟩ := Prim.modes_shift_ge k p m hm
    omega

/-- `Comp.Wf` seen through `toPrims` -/
theorem Comp.wf_iff_toPrims {n : Nat} (c : Comp K) : c.Wf n ↔ ∀ p ∈ c.toPrims, p.Wf n := by
  cases c with
  | prim p => simp [Comp.Wf, Comp.toPrims]
  | group cs m1 m2 hin hout => rfl

end LW.Proofs.Reach
