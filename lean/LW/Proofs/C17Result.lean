/-
  LW.Proofs.C17Result — SimulationResult / SamplingResult: construction, indexing coherence,
  mappings.
-/
import LW.Proofs.C17Accum

namespace LW.Res

/-! ### the per-mode functions: repeated application -/

theorem thr_idem : thr false ∘ thr false = thr false := by
  funext s
  simp only [Function.comp, thr, List.map_map]
  congr 1
  apply List.map_congr_left
  intro x _
  simp only [Function.comp, Bool.false_eq_true, if_false]
  split <;> simp

theorem thr_inv_inv : thr true ∘ thr true = thr false := by
  funext s
  simp only [Function.comp, thr, List.map_map]
  congr 1
  apply List.map_congr_left
  intro x _
  simp only [Function.comp, if_true, Bool.false_eq_true, if_false]
  split <;> simp

theorem par_idem : par false ∘ par false = par false := by
  funext s
  simp only [Function.comp, par, List.map_map]
  congr 1
  apply List.map_congr_left
  intro x _
  simp only [Function.comp, Bool.false_eq_true, if_false]
  omega

theorem par_inv_inv : par true ∘ par true = par false := by
  funext s
  simp only [Function.comp, par, List.map_map]
  congr 1
  apply List.map_congr_left
  intro x _
  simp only [Function.comp, if_true, Bool.false_eq_true, if_false]
  omega

/-- the images are states over {0, 1} of the same length -/
theorem image_binary (k : MapKind) (inv : Bool) (s : St) :
    (k.fn inv s).s.length = s.s.length ∧ ∀ x ∈ (k.fn inv s).s, x = 0 ∨ x = 1 := by
  cases k <;> cases inv <;>
    simp only [MapKind.fn, thr, par, List.length_map, List.mem_map, true_and] <;>
    rintro x ⟨y, _, rfl⟩
  · simp only [Bool.false_eq_true, if_false]; split <;> simp
  · simp only [if_true]; split <;> simp
  · simp only [Bool.false_eq_true, if_false]; omega
  · simp only [if_true]; omega

variable {V : Type}

/-! ### SamplingResult -/

section Samp
variable [AddCommMonoid V]

theorem samp_new_ok_iff (results : List (St × V)) (input : Option St) :
    (∃ r, SampResult.new results input = .ok r) ↔ input.isSome := by
  cases input <;> simp [SampResult.new]

/-- ROUND TRIP: a sampling result built from a dictionary of counts (distinct keys) holds exactly
those counts, lists the outputs in the dictionary's order, and returns them through `[]` -/
theorem samp_roundtrip (results : List (St × V)) (hn : (results.map (·.1)).Nodup) (i : St) :
    ∃ r, SampResult.new results (some i) = .ok r ∧ r.input = i ∧ r.dict = results ∧
      r.outputs = results.map (·.1) ∧
      (∀ s v, (s, v) ∈ results → r.getItem (some s) = .ok v) ∧
      (∀ s, s ∉ results.map (·.1) → r.getItem (some s) = .error .other) ∧
      r.getItem none = .error .type := by
  have hd : PD.ofPairs results = results := PD.ofPairs_of_nodup results hn
  refine ⟨_, rfl, rfl, hd, by simp [hd, PD.keys], ?_, ?_, rfl⟩
  · intro s v hsv
    have hmem : s ∈ PD.keys results := by
      simp only [PD.keys, List.mem_map]; exact ⟨(s, v), hsv, rfl⟩
    obtain ⟨j, hj, hjs⟩ := List.getElem_of_mem hsv
    have h1 := PD.get?_ofPairs_zip_nodup (results.map (·.1)) (results.map (·.2)) hn j (by simpa using hj)
      (by simpa using hj)
    have hz : (results.map (·.1)).zip (results.map (·.2)) = results := by
      rw [← List.unzip_fst, ← List.unzip_snd]
      exact List.zip_unzip results
    rw [hz] at h1
    simp only [List.getElem_map, hjs] at h1
    simp only [SampResult.getItem, h1]
  · intro s hs
    have : PD.get? (PD.ofPairs results) s = none :=
      PD.get?_eq_none_of_not_mem _ _ (by rw [hd]; exact hs)
    simp only [SampResult.getItem, this]

/-- a mapping of a sampling result is never refused; the mapped result keeps the input, lists the
images in order of first occurrence, and holds for each image the sum of the counts mapped to it;
the total count is unchanged -/
theorem samp_mapping (r : SampResult V) (f : St → St) :
    ∃ r', r.applyMapping f = .ok r' ∧ r'.input = r.input ∧ r'.dict = accum f r.dict ∧
      r'.outputs = dedup (r.dict.keys.map f) ∧
      (∀ g, r'.getItem (some g) =
        if r.dict.any (fun p => decide (f p.1 = g)) then .ok (imageWeight f r.dict g) else .error .other) ∧
      r'.dict.vals.sum = r.dict.vals.sum := by
  have hd : PD.ofPairs (accum f r.dict) = accum f r.dict :=
    PD.ofPairs_of_nodup _ (nodup_keys_accum f r.dict)
  refine ⟨_, rfl, rfl, hd, ?_, ?_, ?_⟩
  · show PD.keys (PD.ofPairs (accum f r.dict)) = _
    rw [hd, keys_accum]
  · intro g
    show SampResult.getItem _ (some g) = _
    simp only [SampResult.getItem, hd, get?_accum]
    by_cases hany : r.dict.any (fun p => decide (f p.1 = g)) = true <;> simp [hany]
  · show (PD.vals (PD.ofPairs (accum f r.dict))).sum = _
    rw [hd, sum_vals_accum]

/-- REPEATED APPLICATION (exact, order included): mapping by `f` then by `f'` is the mapping by
`f' ∘ f` -/
theorem samp_mapping_compose (r : SampResult V) (f f' : St → St) :
    (r.applyMapping f >>= fun r' => r'.applyMapping f') = r.applyMapping (f' ∘ f) := by
  have hd : PD.ofPairs (accum f r.dict) = accum f r.dict :=
    PD.ofPairs_of_nodup _ (nodup_keys_accum f r.dict)
  simp only [SampResult.applyMapping, SampResult.new, bind, Except.bind, hd, accum_accum]

end Samp

/-! ### SimulationResult -/

/-- the array really has the stated shape -/
def Arr.WF (A : Arr V) : Prop := A.a.length = A.r ∧ ∀ row ∈ A.a, row.length = A.c

theorem sim_new_ok_iff (rtype : Option RType) (A : Arr V) (ins outs : List St) :
    (∃ r, SimResult.new rtype A ins outs = .ok r) ↔
      rtype.isSome ∧ ins.length = A.r ∧ outs.length = A.c := by
  cases rtype with
  | none => simp [SimResult.new]
  | some t =>
    by_cases h1 : ins.length = A.r <;> by_cases h2 : outs.length = A.c <;> simp [SimResult.new, h1, h2]

theorem sim_new_error (rtype : Option RType) (A : Arr V) (ins outs : List St) (e : Err)
    (h : SimResult.new rtype A ins outs = .error e) : e = .other := by
  unfold SimResult.new at h
  split at h
  · cases h; rfl
  · split at h
    · cases h; rfl
    · split at h
      · cases h; rfl
      · cases h

theorem sim_new_fields (t : RType) (A : Arr V) (ins outs : List St) (r : SimResult V)
    (h : SimResult.new (some t) A ins outs = .ok r) :
    r.rtype = t ∧ r.inputs = ins ∧ r.outputs = outs ∧ r.array = A ∧ r.dict = buildDict ins outs A ∧
    ins.length = A.r ∧ outs.length = A.c := by
  unfold SimResult.new at h
  simp only at h
  split at h
  · cases h
  · split at h
    · cases h
    · cases h
      rename_i h1 h2
      exact ⟨rfl, rfl, rfl, rfl, rfl, not_not.mp h1, not_not.mp h2⟩

section Index
variable [Zero V]

theorem Arr.get_eq (A : Arr V) (hA : A.WF) (i j : Nat) (hi : i < A.r) (hj : j < A.c) :
    ∃ (h1 : i < A.a.length) (h2 : j < (A.a[i]).length), A.get i j = (A.a[i])[j] := by
  have h1 : i < A.a.length := by rw [hA.1]; exact hi
  have h2 : j < (A.a[i]).length := by rw [hA.2 _ (List.getElem_mem h1)]; exact hj
  refine ⟨h1, h2, ?_⟩
  simp [Arr.get, List.getD_eq_getElem?_getD, List.getElem?_eq_getElem h1, List.getElem?_eq_getElem h2]

/-- INDEXING COHERENCE: for every position `(i, j)` whose input and output state do not occur again
later in the lists (every position, when the lists are duplicate-free), pair indexing, nested
indexing and the array give the same value -/
theorem sim_index_coherent (t : RType) (A : Arr V) (hA : A.WF) (ins outs : List St) (r : SimResult V)
    (h : SimResult.new (some t) A ins outs = .ok r) (i j : Nat) (hi : i < ins.length) (hj : j < outs.length)
    (hli : ∀ i' (h' : i' < ins.length), i < i' → ins[i'] ≠ ins[i])
    (hlj : ∀ j' (h' : j' < outs.length), j < j' → outs[j'] ≠ outs[j]) :
    ∃ row, r.getItem (.st ins[i]) = .ok (.row row) ∧
      r.getItem (.tup [.st ins[i], .none]) = .ok (.row row) ∧
      row.get? outs[j] = some (A.get i j) ∧
      r.getItem (.tup [.st ins[i], .st outs[j]]) = .ok (.val (A.get i j)) ∧
      r.array.get i j = A.get i j := by
  obtain ⟨_, _, _, harr, hdict, hl1, hl2⟩ := sim_new_fields t A ins outs r h
  obtain ⟨h1, h2, hget⟩ := A.get_eq hA i j (by omega) (by omega)
  have hrow : r.dict.get? ins[i] = some (buildRow outs A.a[i]) := by
    rw [hdict]
    unfold buildDict
    have := PD.get?_ofPairs_zip_last ins (A.a.map (buildRow outs)) i hi (by simpa using h1) hli
    simpa using this
  have hval : (buildRow outs A.a[i]).get? outs[j] = some (A.get i j) := by
    unfold buildRow
    rw [PD.get?_ofPairs_zip_last outs A.a[i] j hj h2 hlj, hget]
  refine ⟨_, ?_, ?_, hval, ?_, by rw [harr]⟩
  · simp only [SimResult.getItem, hrow]
  · simp [SimResult.getItem, hrow]
  · simp [SimResult.getItem, hrow, hval]

/-- ORDER: with duplicate-free lists the result's keys are its inputs in order and every row lists
the outputs in order -/
theorem sim_key_order (t : RType) (A : Arr V) (hA : A.WF) (ins outs : List St) (r : SimResult V)
    (h : SimResult.new (some t) A ins outs = .ok r) (hni : ins.Nodup) (hno : outs.Nodup) :
    r.dict.keys = ins ∧ ∀ p ∈ r.dict, p.2.keys = outs := by
  obtain ⟨_, _, _, _, hdict, hl1, hl2⟩ := sim_new_fields t A ins outs r h
  have hz : ins.length = (A.a.map (buildRow outs)).length := by simp [hl1, hA.1]
  have hd : r.dict = ins.zip (A.a.map (buildRow outs)) := by
    rw [hdict]; exact PD.ofPairs_zip_nodup _ _ hni hz
  constructor
  · rw [hd]; exact List.map_fst_zip (by omega)
  · intro p hp
    rw [hd] at hp
    have := (List.of_mem_zip hp).2
    simp only [List.mem_map] at this
    obtain ⟨row, hrow, hq⟩ := this
    rw [← hq]
    have hlen : outs.length = row.length := by rw [hA.2 row hrow]; exact hl2
    unfold buildRow
    rw [PD.ofPairs_zip_nodup _ _ hno hlen]
    exact List.map_fst_zip (by omega)

/-- a state that is not an input is refused (KeyError); a subscript that is not a State, or a tuple
with a non-State element, is a TypeError; more than two elements a ValueError -/
theorem sim_getitem_refusals (t : RType) (A : Arr V) (ins outs : List St) (r : SimResult V)
    (h : SimResult.new (some t) A ins outs = .ok r) (hl : ins.length = A.a.length) :
    (∀ s, s ∉ ins → r.getItem (.st s) = .error .other) ∧
    r.getItem .bad = .error .type ∧
    (∀ a b c l, r.getItem (.tup (a :: b :: c :: l)) = .error .value) ∧
    (∀ o, r.getItem (.tup [.bad, o]) = .error .type) ∧
    r.getItem (.tup []) = .error .other := by
  obtain ⟨_, _, _, _, hdict, _, _⟩ := sim_new_fields t A ins outs r h
  refine ⟨?_, rfl, ?_, ?_, rfl⟩
  · intro s hs
    have : r.dict.get? s = none := by
      apply PD.get?_eq_none_of_not_mem
      rw [hdict, buildDict, PD.keys_ofPairs, mem_dedup, List.map_fst_zip (by simp [hl])]
      exact hs
    simp only [SimResult.getItem, this]
  · intro a b c l
    simp [SimResult.getItem]
  · intro o
    cases o <;> rfl

end Index

/-! ### mappings of a SimulationResult -/

section Map
variable [AddCommMonoid V]

/-- a mapping of amplitudes is refused (ValueError) -/
theorem sim_mapping_refused (r : SimResult V) (f : St → St) (order : List St → List St)
    (h : r.rtype = .amplitude) : r.applyMapping f order = .error .value := by
  simp [SimResult.applyMapping, h]

theorem mapDict_eq (f : St → St) (d : PD (PD V)) (hn : d.keys.Nodup) :
    mapDict f d = d.map fun p => (p.1, accum f p.2) := by
  unfold mapDict
  have h1 : d.foldl (fun (m : PD (PD V)) p => PD.set m p.1 (accum f p.2)) [] =
      PD.ofPairs (d.map fun p => (p.1, accum f p.2)) := by
    unfold PD.ofPairs
    rw [List.foldl_map]
  rw [h1]
  apply PD.ofPairs_of_nodup
  simpa [PD.keys, List.map_map, Function.comp_def] using hn

theorem get?_mapDict (f : St → St) (d : PD (PD V)) (hn : d.keys.Nodup) (k : St) :
    (mapDict f d).get? k = (d.get? k).map (accum f) := by
  rw [mapDict_eq f d hn, PD.get?_map_vals]

theorem mapM_ok (F : St → Except Err (List V)) (w : St → List V) (ins : List St)
    (h : ∀ i ∈ ins, F i = .ok (w i)) : ins.mapM F = .ok (ins.map w) := by
  induction ins with
  | nil => rfl
  | cons i ins ih =>
    have ih' := ih (fun i' hi' => h i' (by simp [hi']))
    simp only [List.mapM_cons, h i (by simp), bind, Except.bind, ih', pure, Except.pure, List.map_cons]

/-- the weight the mapped result holds for input `i` and image `g` -/
def mappedWeight (f : St → St) (r : SimResult V) (i g : St) : V :=
  imageWeight f ((r.dict.get? i).getD []) g

/-- THE MAPPED RESULT: for a probability-typed result the mapping is accepted and yields the result
constructed from the same inputs, the collected images `uo` (in the order the set was iterated) and
the array of summed weights — so the indexing theorems above apply to it again -/
theorem sim_mapping_eq (A : Arr V) (hA : A.WF) (ins outs : List St) (r : SimResult V)
    (h : SimResult.new (some .probability) A ins outs = .ok r) (f : St → St) (order : List St → List St) :
    r.applyMapping f order =
      SimResult.new (some .probability)
        ⟨ins.length, (order (imagesOf (mapDict f r.dict))).length,
          ins.map fun i => (order (imagesOf (mapDict f r.dict))).map fun g => mappedWeight f r i g⟩
        ins (order (imagesOf (mapDict f r.dict))) := by
  obtain ⟨hty, hins, _, _, hdict, hl1, hl2⟩ := sim_new_fields _ A ins outs r h
  have hn : r.dict.keys.Nodup := by rw [hdict]; exact PD.nodup_keys_ofPairs _
  unfold SimResult.applyMapping SimResult.recombine
  simp only [hty, reduceCtorEq, if_false, hins]
  generalize order (imagesOf (mapDict f r.dict)) = uo
  have hkeys : ∀ i ∈ ins, i ∈ r.dict.keys := by
    intro i hi
    rw [hdict, buildDict, PD.keys_ofPairs, mem_dedup, List.map_fst_zip (by simp [hl1, hA.1])]
    exact hi
  simp only [bind, Except.bind]
  rw [mapM_ok _ (fun i => uo.map fun g => mappedWeight f r i g) ins (by
    intro i hi
    obtain ⟨row, hrow⟩ := Option.isSome_iff_exists.mp ((PD.mem_keys_iff_get? _ _).mp (hkeys i hi))
    simp only [get?_mapDict f r.dict hn, hrow, Option.map_some, Except.ok.injEq]
    apply List.map_congr_left
    intro g _
    unfold mappedWeight
    rw [hrow, get?_accum]
    simp only [Option.getD_some]
    split
    · rfl
    · rename_i hno
      simp only [Option.getD_none]
      symm
      apply imageWeight_of_no_hit
      intro p hp e
      apply hno
      simp only [List.any_eq_true, decide_eq_true_eq]
      exact ⟨p, hp, e⟩)]

theorem sim_mapping_ok (A : Arr V) (hA : A.WF) (ins outs : List St) (r : SimResult V)
    (h : SimResult.new (some .probability) A ins outs = .ok r) (f : St → St) (order : List St → List St) :
    ∃ r', r.applyMapping f order = .ok r' ∧ r'.rtype = .probability ∧ r'.inputs = ins ∧
      r'.outputs = order (imagesOf (mapDict f r.dict)) := by
  rw [sim_mapping_eq A hA ins outs r h f order]
  simp only [SimResult.new, ne_eq, not_true_eq_false, if_false]
  exact ⟨_, rfl, rfl, rfl, rfl⟩

/-- the array built for the mapped result has the stated shape -/
theorem mapped_arr_wf (ins uo : List St) (w : St → St → V) :
    Arr.WF (⟨ins.length, uo.length, ins.map fun i => uo.map fun g => w i g⟩ : Arr V) := by
  constructor
  · simp
  · intro row hrow
    simp only [List.mem_map] at hrow
    obtain ⟨i, _, rfl⟩ := hrow
    simp

theorem mapped_arr_get (ins uo : List St) (w : St → St → V) (i j : Nat) (hi : i < ins.length) (hj : j < uo.length) :
    (⟨ins.length, uo.length, ins.map fun i => uo.map fun g => w i g⟩ : Arr V).get i j = w ins[i] uo[j] := by
  simp [Arr.get, List.getD_eq_getElem?_getD, hi, hj]

/-- INDEXING THE MAPPED RESULT: with duplicate-free inputs and any duplicate-free enumeration `uo`
of the image set, the mapped result returns — through pair indexing and through its array — for
input `ins[i]` and image `uo[j]` the summed weight of the outputs of that input mapped to `uo[j]` -/
theorem sim_mapping_index (A : Arr V) (hA : A.WF) (ins outs : List St) (r : SimResult V)
    (h : SimResult.new (some .probability) A ins outs = .ok r) (f : St → St) (order : List St → List St)
    (hni : ins.Nodup) (hnu : (order (imagesOf (mapDict f r.dict))).Nodup) :
    ∃ r', r.applyMapping f order = .ok r' ∧
      ∀ i j (hi : i < ins.length) (hj : j < (order (imagesOf (mapDict f r.dict))).length),
        r'.getItem (.tup [.st ins[i], .st (order (imagesOf (mapDict f r.dict)))[j]]) =
          .ok (.val (mappedWeight f r ins[i] (order (imagesOf (mapDict f r.dict)))[j])) ∧
        r'.array.get i j = mappedWeight f r ins[i] (order (imagesOf (mapDict f r.dict)))[j] := by
  rw [sim_mapping_eq A hA ins outs r h f order]
  generalize order (imagesOf (mapDict f r.dict)) = uo at *
  obtain ⟨r', hr'⟩ := (sim_new_ok_iff (some RType.probability)
    (⟨ins.length, uo.length, ins.map fun i => uo.map fun g => mappedWeight f r i g⟩ : Arr V) ins uo).mpr
    ⟨rfl, rfl, rfl⟩
  refine ⟨r', hr', ?_⟩
  intro i j hi hj
  obtain ⟨row, _, _, _, h4, h5⟩ := sim_index_coherent .probability _ (mapped_arr_wf ins uo (mappedWeight f r))
    ins uo r' hr' i j hi hj
    (fun i' h' hlt e => by have := (List.Nodup.getElem_inj_iff hni).mp e; omega)
    (fun j' h' hlt e => by have := (List.Nodup.getElem_inj_iff hnu).mp e; omega)
  rw [mapped_arr_get ins uo (mappedWeight f r) i j hi hj] at h4 h5
  exact ⟨h4, h5⟩

/-- the collected outputs are exactly the images of the outputs (when there is at least one input),
each listed once, for EVERY iteration order of the set -/
theorem sim_mapping_outputs (A : Arr V) (hA : A.WF) (ins outs : List St) (r : SimResult V)
    (h : SimResult.new (some .probability) A ins outs = .ok r) (f : St → St) (uo : List St)
    (hperm : uo.Perm (imagesOf (mapDict f r.dict))) :
    uo.Nodup ∧ ∀ g, g ∈ uo ↔ (ins ≠ [] ∧ ∃ o ∈ outs, f o = g) := by
  obtain ⟨_, _, _, _, hdict, hl1, hl2⟩ := sim_new_fields _ A ins outs r h
  have hn : r.dict.keys.Nodup := by rw [hdict]; exact PD.nodup_keys_ofPairs _
  refine ⟨hperm.nodup_iff.mpr (nodup_dedup _), ?_⟩
  intro g
  rw [hperm.mem_iff, imagesOf, mem_dedup, List.mem_flatMap, mapDict_eq f r.dict hn]
  have hrows : ∀ p ∈ r.dict, p.2.keys = dedup outs := by
    intro p hp
    rw [hdict, buildDict] at hp
    obtain ⟨q, hq, hpq⟩ := PD.mem_ofPairs_val _ p hp
    have := (List.of_mem_zip hq).2
    simp only [List.mem_map] at this
    obtain ⟨row, hrow, hq2⟩ := this
    rw [hpq, ← hq2, buildRow, PD.keys_ofPairs, List.map_fst_zip (by rw [hA.2 row hrow]; omega)]
  have hne : r.dict ≠ [] ↔ ins ≠ [] := by
    have hk : r.dict.keys = dedup ins := by
      rw [hdict, buildDict, PD.keys_ofPairs, List.map_fst_zip (by simp [hl1, hA.1])]
    constructor
    · intro h1 h2
      apply h1
      have : r.dict.keys = [] := by rw [hk, h2]; rfl
      simpa [PD.keys] using this
    · intro h1 h2
      apply h1
      have : dedup ins = [] := by rw [← hk, h2]; rfl
      cases ins with
      | nil => rfl
      | cons x xs => simp [dedup] at this
  constructor
  · rintro ⟨q, hq, hg⟩
    simp only [List.mem_map] at hq
    obtain ⟨p, hp, rfl⟩ := hq
    simp only at hg
    rw [mem_keys_accum, hrows p hp] at hg
    obtain ⟨o, ho, hog⟩ := hg
    exact ⟨hne.mp (List.ne_nil_of_mem hp), o, (mem_dedup _ _).mp ho, hog⟩
  · rintro ⟨hins, o, ho, hog⟩
    obtain ⟨p, hp⟩ := List.exists_mem_of_ne_nil _ (hne.mpr hins)
    refine ⟨(p.1, accum f p.2), List.mem_map_of_mem hp, ?_⟩
    simp only
    rw [mem_keys_accum, hrows p hp]
    exact ⟨o, (mem_dedup _ _).mpr ho, hog⟩

/-- CONSERVATION: for every input, the total of the mapped row equals the total of the original row,
whenever the collected outputs list every image once -/
theorem sim_mapping_total (f : St → St) (r : SimResult V) (i : St) (uo : List St) (hn : uo.Nodup)
    (hall : ∀ p ∈ (r.dict.get? i).getD [], f p.1 ∈ uo) :
    (uo.map fun g => mappedWeight f r i g).sum = ((r.dict.get? i).getD []).vals.sum := by
  have := sum_regroup f ((r.dict.get? i).getD []) uo hn hall (fun _ => true)
  simpa [mappedWeight, PD.vals] using this

/-- REPEATED APPLICATION: the weights obtained by mapping the mapped row `[(g, w g) | g ∈ uo]` with
`f'` are the weights of the original row under `f' ∘ f` -/
theorem sim_mapping_compose (f f' : St → St) (r : SimResult V) (i : St) (uo : List St) (hn : uo.Nodup)
    (hall : ∀ p ∈ (r.dict.get? i).getD [], f p.1 ∈ uo) (g' : St) :
    imageWeight f' (uo.map fun g => (g, mappedWeight f r i g)) g'
      = imageWeight (f' ∘ f) ((r.dict.get? i).getD []) g' := by
  have := sum_regroup f ((r.dict.get? i).getD []) uo hn hall (fun g => decide (f' g = g'))
  have e := sum_filter_map_pairs uo (fun g => mappedWeight f r i g) (fun g => decide (f' g = g'))
  unfold imageWeight at e ⊢
  rw [e]
  exact this

end Map

end LW.Res
