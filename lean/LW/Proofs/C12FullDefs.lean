/-
  LW.Proofs.C12FullDefs — the polynomial (second-quantised, characteristic-free) form of the Fock
  functor used in the proof of `convert_correct`:

  a linear-optical transformation with entry function `U` on `D` modes acts on the polynomial ring
  in the creation operators `X 0, X 1, …` by the substitution `X j ↦ Σ_{i<D} U i j · X i` (modes
  `≥ D` are left alone).  This is an algebra homomorphism, so composition of transformations is
  composition of homomorphisms, with no factorials.  The amplitude between occupations `s → t`
  is the coefficient of `X^t` in the image of `X^s`; the permanent-based amplitude of the model is
  `∏ t_k!` times it.
-/
import Mathlib.Algebra.MvPolynomial.Eval
import Mathlib.Algebra.MvPolynomial.Rename
import Mathlib.Data.List.ToFinsupp
import LW.Model.QFock

open MvPolynomial

namespace LW.C12F

variable {R : Type} [CommRing R]

/-- column `j` of the entry function `U` at dimension `D` as a linear form in the creation
operators -/
noncomputable def colForm (U : Nat → Nat → R) (D j : Nat) : MvPolynomial ℕ R :=
  ∑ i ∈ Finset.range D, C (U i j) * X i

/-- the substitution homomorphism of `U` at dimension `D` -/
noncomputable def homOf (U : Nat → Nat → R) (D : Nat) : MvPolynomial ℕ R →ₐ[R] MvPolynomial ℕ R :=
  aeval fun j => if j < D then colForm U D j else X j

/-- amplitude of a homomorphism between occupations `s → t` -/
noncomputable def amp (φ : MvPolynomial ℕ R →ₐ[R] MvPolynomial ℕ R) (t s : ℕ →₀ ℕ) : R :=
  coeff t (φ (monomial s 1))

/-- product of the factorials of the entries of a state -/
def factProd (l : List Nat) : Nat := (l.map Nat.factorial).prod

end LW.C12F
