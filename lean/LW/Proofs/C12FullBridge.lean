/-
  LW.Proofs.C12FullBridge — the model's permanent amplitude `LW.QF.permAmpFull` is `∏ t_k!` times
  the coefficient amplitude of the substitution homomorphism `homOf U D`.
-/
import LW.Proofs.C12FullBridgePerm
import LW.Proofs.C12FullBridgeIdx
import LW.Proofs.C12FullBridgePoly

open MvPolynomial Finset

namespace LW.C12F

open LW.QF LW.Proofs.FockIso

variable {R : Type} [CommRing R]

theorem factProd_eq_prod_fin {D : ℕ} (t : List ℕ) (ht : t.length = D) :
    factProd t = ∏ z : Fin D, (t.getD z.val 0).factorial := by
  unfold factProd
  conv_lhs => rw [← ofFn_toW t ht]
  rw [List.map_ofFn, List.prod_ofFn]
  rfl

theorem sum_eq_sum_fin {D : ℕ} (t : List ℕ) (ht : t.length = D) :
    t.sum = ∑ z : Fin D, t.getD z.val 0 := by
  conv_lhs => rw [← ofFn_toW t ht]
  rw [List.sum_ofFn]
  rfl

theorem toFinsupp_eq_occ {p D : ℕ} (s : List ℕ) (hl : s.length = D) (hp : s.sum = p) (j : ℕ) :
    s.toFinsupp j = if h : j < D then occ (stF s hl hp) ⟨j, h⟩ else 0 := by
  rw [List.toFinsupp_apply]
  split_ifs with h
  · rw [occ_stF]
  · rw [List.getD_eq_getElem?_getD, List.getElem?_eq_none (by omega)]
    rfl

theorem toFinsupp_eq_cnt {p D : ℕ} (s : List ℕ) (hl : s.length = D) (hp : s.sum = p) :
    s.toFinsupp = cnt (stF s hl hp) := by
  ext j
  rw [toFinsupp_eq_occ s hl hp, cnt_apply]

/-- the sum of the values of `cnt f` is the number of photons -/
theorem sum_cnt {p D : ℕ} (f : Fin p → Fin D) : ∑ z : Fin D, cnt f z.val = p := by
  have : ∀ z : Fin D, cnt f z.val = occ f z := fun z => by rw [cnt_apply, dif_pos z.2]
  rw [Finset.sum_congr rfl fun z _ => this z, sum_occ, Fintype.card_fin]

/-- the permanent side in Mathlib form -/
theorem permAmpFull_eq_permanent {p : ℕ} (U : ℕ → ℕ → R) (D : ℕ) (ins outs : List ℕ)
    (hi : ins.length = D) (ho : outs.length = D) (hip : ins.sum = p) (hop : outs.sum = p) :
    permAmpFull U ins outs =
      ((Matrix.of fun i j : Fin D => U i.val j.val).submatrix
        (stF outs ho hop) (stF ins hi hip)).permanent := by
  unfold permAmpFull
  simp only []
  rw [length_idxs, length_idxs, hip, hop, if_pos rfl, permN_eq_permanent]
  congr 1
  ext r c
  simp only [Matrix.of_apply, Matrix.submatrix_apply, stF_val]

theorem permAmpFull_eq_amp_aux {p : ℕ} (U : Nat → Nat → R) (D : Nat) (ins outs : List Nat)
    (hi : ins.length = D) (ho : outs.length = D) (hip : ins.sum = p) (hop : outs.sum = p) :
    LW.QF.permAmpFull U ins outs =
      ((factProd outs : Nat) : R) * amp (homOf U D) outs.toFinsupp ins.toFinsupp := by
  rw [permAmpFull_eq_permanent U D ins outs hi ho hip hop, permanent_eq_fibre, nsmul_eq_mul,
    amp_eq_sum U (stF ins hi hip) ins.toFinsupp outs.toFinsupp (toFinsupp_eq_occ ins hi hip),
    factProd_eq_prod_fin outs ho]
  congr 1
  · congr 1
    refine Finset.prod_congr rfl fun z _ => ?_
    rw [occ_stF]
  · refine Finset.sum_congr ?_ fun f _ => rfl
    ext f
    simp only [Finset.mem_filter, Finset.mem_univ, true_and]
    rw [toFinsupp_eq_cnt outs ho hop, cnt_eq_iff]

theorem permAmpFull_eq_amp (U : Nat → Nat → R) (D : Nat) (ins outs : List Nat)
    (hi : ins.length = D) (ho : outs.length = D) (hsum : ins.sum = outs.sum) :
    LW.QF.permAmpFull U ins outs =
      ((factProd outs : Nat) : R) * amp (homOf U D) outs.toFinsupp ins.toFinsupp :=
  permAmpFull_eq_amp_aux U D ins outs hi ho hsum rfl

/-- the same without the hypothesis on photon numbers: both sides vanish when they differ -/
theorem permAmpFull_eq_amp' (U : Nat → Nat → R) (D : Nat) (ins outs : List Nat)
    (hi : ins.length = D) (ho : outs.length = D) :
    LW.QF.permAmpFull U ins outs =
      ((factProd outs : Nat) : R) * amp (homOf U D) outs.toFinsupp ins.toFinsupp := by
  by_cases hsum : ins.sum = outs.sum
  · exact permAmpFull_eq_amp U D ins outs hi ho hsum
  · have hl : permAmpFull U ins outs = 0 := by
      unfold permAmpFull
      simp only []
      rw [length_idxs, length_idxs, if_neg fun h => hsum h.symm]
    rw [hl, amp_eq_sum U (stF ins hi rfl) ins.toFinsupp outs.toFinsupp
      (toFinsupp_eq_occ ins hi rfl), Finset.sum_eq_zero, mul_zero]
    intro f hf
    exfalso
    simp only [Finset.mem_filter, Finset.mem_univ, true_and] at hf
    apply hsum
    rw [sum_eq_sum_fin outs ho, ← sum_cnt f, hf]
    simp only [List.toFinsupp_apply]

/-! non-vacuity: a 2-mode instance with two photons bunching -/
example : LW.QF.permAmpFull (fun i j => ((i + 2 * j + 1 : ℕ) : ℤ)) [1, 1] [2, 0] = 6 := by
  decide

end LW.C12F
