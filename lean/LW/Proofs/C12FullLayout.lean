/-
  LW.Proofs.C12FullLayout — the layout map `[free modes ascending | herald modes in dictionary
  order] → modes` is a bijection of `[0, n)`, agrees with the selector `colM` of the canonical closed
  form, and carries `fullState her n s` to `s ++ her.map (·.2)`.
-/
import Mathlib.Algebra.BigOperators.Group.List.Basic
import Mathlib.Data.Nat.Factorial.Basic
import LW.Proofs.C12FullLayoutGo

namespace LW.C12F

open LW LW.Proofs.C02Sem

/-! ### list helpers -/

theorem getD_mem (l : List Nat) (y : Nat) (hy : y < l.length) : l.getD y 0 ∈ l := by
  rw [List.getD_eq_getElem _ _ hy]; exact List.getElem_mem hy

theorem getD_inj {l : List Nat} (hnd : l.Nodup) {i j : Nat} (hi : i < l.length) (hj : j < l.length)
    (h : l.getD i 0 = l.getD j 0) : i = j := by
  rw [List.getD_eq_getElem _ _ hi, List.getD_eq_getElem _ _ hj] at h
  exact hnd.getElem_inj_iff.mp h

theorem exists_getD_of_mem {l : List Nat} {z : Nat} (h : z ∈ l) :
    ∃ j, j < l.length ∧ l.getD j 0 = z := by
  obtain ⟨j, hj, e⟩ := List.getElem_of_mem h
  exact ⟨j, hj, by rw [List.getD_eq_getElem _ _ hj]; exact e⟩

theorem list_eq_map_range (l : List Nat) :
    l = (List.range l.length).map (fun i => l.getD i 0) := by
  apply List.ext_getElem
  · simp
  · intro i h1 h2
    simp only [List.getElem_map, List.getElem_range]
    exact (List.getD_eq_getElem _ _ h1).symm

/-! ### free modes -/

theorem freeOf_nodup (n : Nat) (l : List Nat) : (freeOf n l).Nodup := by
  unfold freeOf
  exact List.nodup_range.filter _

theorem freeFrom_append (l : List Nat) (s a b : Nat) :
    freeFrom l s (a + b) = freeFrom l s a ++ freeFrom l (s + a) b := by
  unfold freeFrom
  rw [← List.range'_append_1, List.filter_append]

theorem freeOf_split (l : List Nat) (z n : Nat) (hz : z < n) (h : z ∉ l) :
    freeOf n l = freeOf z l ++ z :: freeFrom l (z + 1) (n - (z + 1)) := by
  rw [freeOf_eq_freeFrom, freeOf_eq_freeFrom, ← freeFrom_succ_not_mem _ h]
  have e : n = z + (n - (z + 1) + 1) := by omega
  conv_lhs => rw [e]
  rw [freeFrom_append, Nat.zero_add]

/-- the number of free modes below the `y`-th free mode is `y` -/
theorem freeOf_index (l : List Nat) (n y : Nat) (hy : y < (freeOf n l).length) :
    (freeOf ((freeOf n l).getD y 0) l).length = y := by
  obtain ⟨z, hz⟩ : ∃ z, (freeOf n l).getD y 0 = z := ⟨_, rfl⟩
  have hzmem : z ∈ freeOf n l := hz ▸ getD_mem _ y hy
  rw [hz]
  obtain ⟨hzn, hzl⟩ := mem_freeOf.mp hzmem
  have hsplit := freeOf_split l z n hzn hzl
  have hA : (freeOf z l).length < (freeOf n l).length := by
    have := congrArg List.length hsplit
    simp only [List.length_append, List.length_cons] at this
    omega
  have e : (freeOf n l).getD (freeOf z l).length 0 = z := by
    rw [hsplit, List.getD_append_right _ _ _ _ (Nat.le_refl _), Nat.sub_self]
    rfl
  exact getD_inj (freeOf_nodup n l) hA hy (e.trans hz.symm)

/-! ### the layout map -/

/-- the layout map: position in `[free modes ascending | herald modes in dict order]` ↦ mode -/
def layout (her : Dict) (n : Nat) (y : Nat) : Nat :=
  if y < n - her.length then (freeOf n her.keys).getD y 0
  else if y < n then her.keys.getD (y - (n - her.length)) 0
  else y

theorem keys_len (her : Dict) : her.keys.length = her.length := by simp [Dict.keys]

section
variable {her : Dict} {n : Nat}

theorem her_length_le (hnd : her.keys.Nodup) (hlt : ∀ k ∈ her.keys, k < n) : her.length ≤ n := by
  have := LW.Proofs.C02.length_le_of_nodup_lt _ _ hnd hlt
  rwa [keys_len] at this

theorem length_freeOf_keys (hnd : her.keys.Nodup) (hlt : ∀ k ∈ her.keys, k < n) :
    (freeOf n her.keys).length = n - her.length := by
  rw [length_freeOf n _ hnd hlt, keys_len]

theorem layout_free (hnd : her.keys.Nodup) (hlt : ∀ k ∈ her.keys, k < n) {y : Nat}
    (hy : y < n - her.length) : layout her n y ∈ freeOf n her.keys := by
  unfold layout
  rw [if_pos hy]
  exact getD_mem _ _ (by rw [length_freeOf_keys hnd hlt]; exact hy)

theorem layout_key {y : Nat} (h1 : ¬ y < n - her.length) (h2 : y < n) :
    layout her n y ∈ her.keys := by
  unfold layout
  rw [if_neg h1, if_pos h2]
  exact getD_mem _ _ (by rw [keys_len]; omega)

theorem layout_lt (hnd : her.keys.Nodup) (hlt : ∀ k ∈ her.keys, k < n) {y : Nat} (hy : y < n) :
    layout her n y < n := by
  by_cases h1 : y < n - her.length
  · exact (mem_freeOf.mp (layout_free hnd hlt h1)).1
  · exact hlt _ (layout_key h1 hy)

theorem layout_inj (hnd : her.keys.Nodup) (hlt : ∀ k ∈ her.keys, k < n) {y y' : Nat}
    (hy : y < n) (hy' : y' < n) (h : layout her n y = layout her n y') : y = y' := by
  have hfl := length_freeOf_keys hnd hlt
  by_cases h1 : y < n - her.length
  · by_cases h2 : y' < n - her.length
    · unfold layout at h
      rw [if_pos h1, if_pos h2] at h
      exact getD_inj (freeOf_nodup n _) (by rw [hfl]; exact h1) (by rw [hfl]; exact h2) h
    · exfalso
      have a := (mem_freeOf.mp (layout_free hnd hlt h1)).2
      have b := layout_key h2 hy'
      rw [← h] at b
      exact a b
  · by_cases h2 : y' < n - her.length
    · exfalso
      have a := (mem_freeOf.mp (layout_free hnd hlt h2)).2
      have b := layout_key h1 hy
      rw [h] at b
      exact a b
    · unfold layout at h
      rw [if_neg h1, if_pos hy, if_neg h2, if_pos hy'] at h
      have := getD_inj hnd (by rw [keys_len]; omega) (by rw [keys_len]; omega) h
      omega

theorem layout_surj (hnd : her.keys.Nodup) (hlt : ∀ k ∈ her.keys, k < n) {z : Nat} (hz : z < n) :
    ∃ y < n, layout her n y = z := by
  have hle := her_length_le hnd hlt
  by_cases hk : z ∈ her.keys
  · obtain ⟨j, hj, e⟩ := exists_getD_of_mem hk
    rw [keys_len] at hj
    refine ⟨n - her.length + j, by omega, ?_⟩
    unfold layout
    rw [if_neg (by omega), if_pos (by omega)]
    have : n - her.length + j - (n - her.length) = j := by omega
    rw [this]
    exact e
  · obtain ⟨j, hj, e⟩ := exists_getD_of_mem (mem_freeOf.mpr ⟨hz, hk⟩)
    rw [length_freeOf_keys hnd hlt] at hj
    refine ⟨j, by omega, ?_⟩
    unfold layout
    rw [if_pos hj]
    exact e

end

theorem layout_eq_colM {K : Type} (c : Circ K) (hwf : c.WF) (y : Nat) :
    layout c.inHer c.n y = colM c y := by
  have hle := her_length_le hwf.inNodup hwf.inLt
  by_cases h1 : y < c.n - c.inHer.length
  · simp only [layout, colM, if_pos h1]
  · by_cases h2 : y < c.n
    · have h2' : y < c.n - c.inHer.length + c.inHer.length := by omega
      simp only [layout, colM, if_neg h1, if_pos h2, if_pos h2']
    · have h2' : ¬ y < c.n - c.inHer.length + c.inHer.length := by omega
      simp only [layout, colM, if_neg h1, if_neg h2, if_neg h2']
      omega

/-! ### `fullState` through the layout -/

section
variable {her : Dict} {n : Nat}

theorem fullState_layout (hnd : her.keys.Nodup) (hlt : ∀ k ∈ her.keys, k < n) (s : List Nat)
    (hs : s.length = n - her.length) (y : Nat) (hy : y < n) :
    (LW.QF.fullState her n s).getD (layout her n y) 0 = (s ++ her.map (·.2)).getD y 0 := by
  have hle := her_length_le hnd hlt
  by_cases h1 : y < n - her.length
  · have hm := layout_free hnd hlt h1
    obtain ⟨hzn, hzk⟩ := mem_freeOf.mp hm
    rw [fullState_getD_free her n s _ hzn hzk, List.getD_append _ _ _ _ (by omega)]
    refine congrArg (fun i => s.getD i 0) ?_
    unfold layout
    rw [if_pos h1]
    exact freeOf_index _ _ _ (by rw [length_freeOf_keys hnd hlt]; exact h1)
  · have hj : y - (n - her.length) < her.length := by omega
    have hg := get?_key her hnd _ hj
    have hl : layout her n y = her.keys.getD (y - (n - her.length)) 0 := by
      unfold layout
      rw [if_neg h1, if_pos hy]
    have hlt' : her.keys.getD (y - (n - her.length)) 0 < n := by
      rw [← hl]; exact layout_lt hnd hlt hy
    rw [hl, fullState_getD_herald her n s _ _ hlt' hg,
      List.getD_append_right _ _ _ _ (by omega), hs]

theorem range_map_layout_perm (hnd : her.keys.Nodup) (hlt : ∀ k ∈ her.keys, k < n) :
    ((List.range n).map (layout her n)).Perm (List.range n) := by
  have hn : ((List.range n).map (layout her n)).Nodup := by
    apply List.Nodup.map_on _ List.nodup_range
    intro x hx y hy h
    exact layout_inj hnd hlt (List.mem_range.mp hx) (List.mem_range.mp hy) h
  apply (List.perm_ext_iff_of_nodup hn List.nodup_range).mpr
  intro a
  simp only [List.mem_map, List.mem_range]
  constructor
  · rintro ⟨y, hy, rfl⟩
    exact layout_lt hnd hlt hy
  · intro ha
    obtain ⟨y, hy, e⟩ := layout_surj hnd hlt ha
    exact ⟨y, hy, e⟩

theorem fullState_perm (hnd : her.keys.Nodup) (hlt : ∀ k ∈ her.keys, k < n) (s : List Nat)
    (hs : s.length = n - her.length) :
    (LW.QF.fullState her n s).Perm (s ++ her.map (·.2)) := by
  have hle := her_length_le hnd hlt
  have hL := fullState_length her n s
  have hR : (s ++ her.map (·.2)).length = n := by
    rw [List.length_append, List.length_map, hs]; omega
  have e1 := list_eq_map_range (LW.QF.fullState her n s)
  have e2 := list_eq_map_range (s ++ her.map (·.2))
  rw [hL] at e1
  rw [hR] at e2
  have e3 : (s ++ her.map (·.2)) = ((List.range n).map (layout her n)).map
      (fun z => (LW.QF.fullState her n s).getD z 0) := by
    rw [List.map_map]
    refine e2.trans ?_
    apply List.map_congr_left
    intro y hy
    exact (fullState_layout hnd hlt s hs y (List.mem_range.mp hy)).symm
  have p := (range_map_layout_perm hnd hlt).map (fun z => (LW.QF.fullState her n s).getD z 0)
  exact (p.trans (List.Perm.of_eq e1.symm)).symm.trans (List.Perm.of_eq e3.symm)

/-- transfer of any commutative product over the entries, e.g. the product of factorials -/
theorem fullState_prod {M : Type} [CommMonoid M] (f : Nat → M) (hnd : her.keys.Nodup)
    (hlt : ∀ k ∈ her.keys, k < n) (s : List Nat) (hs : s.length = n - her.length) :
    ((LW.QF.fullState her n s).map f).prod = ((s ++ her.map (·.2)).map f).prod :=
  ((fullState_perm hnd hlt s hs).map f).prod_eq

theorem fullState_factProd (hnd : her.keys.Nodup) (hlt : ∀ k ∈ her.keys, k < n) (s : List Nat)
    (hs : s.length = n - her.length) :
    ((LW.QF.fullState her n s).map Nat.factorial).prod
      = ((s ++ her.map (·.2)).map Nat.factorial).prod :=
  fullState_prod Nat.factorial hnd hlt s hs

theorem fullState_le (hnd : her.keys.Nodup) (hlt : ∀ k ∈ her.keys, k < n) (s : List Nat)
    (hs : s.length = n - her.length) (B : Nat) (h : ∀ e ∈ s ++ her.map (·.2), e ≤ B) :
    ∀ e ∈ LW.QF.fullState her n s, e ≤ B :=
  fun e he => h e ((fullState_perm hnd hlt s hs).mem_iff.mp he)

end

/-! ### non-vacuity -/

example : LW.QF.fullState [(3, 7), (1, 5)] 5 [10, 20, 30] = [10, 5, 20, 7, 30] := by decide
example : (List.range 5).map (layout [(3, 7), (1, 5)] 5) = [0, 2, 4, 3, 1] := by decide

end LW.C12F
