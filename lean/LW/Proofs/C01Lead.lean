/-
  LW.Proofs.C01Lead — the leading `n × n` block of `compile` is the ordered product.
-/
import LW.Proofs.C01Dim
import LW.Proofs.DictLemmas

open scoped BigOperators

namespace LW.Proofs.C01Aux

variable {K : Type} [CommRing K] [StarRing K]

set_option linter.unusedSectionVars false

/-- generic step: the leading block of a product, when the left factor does not mix the leading
modes with the trailing ones (entrywise form so that it covers the loss dilation as well) -/
theorem lead_mul {n : Nat} (G U G' V : M K) (hn : n ≤ G.n) (hG' : G'.n = n)
    (ha : ∀ r c k, r < n → c < n → k < n → G.get r k * U.get k c = G'.get r k * V.get k c)
    (hb : ∀ r c k, r < n → c < n → n ≤ k → k < G.n → G.get r k * U.get k c = 0) :
    (G.mul U).lead n = G'.mul V := by
  unfold M.lead
  conv_rhs => unfold M.mul
  rw [hG']
  apply M.ofFn_congr
  intro r c hr hc
  rw [M.get_mul _ _ (by omega) (by omega), M.sumN_eq_sum]
  symm
  rw [Finset.sum_congr rfl (fun k hk => (ha r c k hr hc (Finset.mem_range.mp hk)).symm)]
  apply Finset.sum_subset
  · intro k hk; rw [Finset.mem_range] at *; omega
  · intro k hk hk'
    rw [Finset.mem_range] at *
    exact hb r c k hr hc (by omega) hk

theorem one_mul_lead (n : Nat) (U : M K) : (M.one n : M K).mul (U.lead n) = U.lead n := by
  unfold M.mul M.lead
  rw [M.one_n]
  apply M.ofFn_congr
  intro r c hr hc
  rw [M.sumN_eq_sum]
  rw [Finset.sum_congr rfl (fun k hk => by
    rw [M.get_one hr (Finset.mem_range.mp hk), M.get_ofFn _ (Finset.mem_range.mp hk) hc])]
  simp [hr]

/-! entries of the component matrices -/

theorem get_embed2 {N r k : Nat} (m1 m2 : Nat) (a b c d : K) (hr : r < N) (hk : k < N) :
    (embed2 N m1 m2 a b c d).get r k =
      if r = m1 ∧ k = m1 then a else if r = m1 ∧ k = m2 then b
      else if r = m2 ∧ k = m1 then c else if r = m2 ∧ k = m2 then d
      else if r = k then 1 else 0 := by
  unfold embed2; rw [M.get_ofFn _ hr hk]

theorem get_embed1 {N r k : Nat} (m : Nat) (p : K) (hr : r < N) (hk : k < N) :
    (embed1 N m p).get r k = if r = k then (if r = m then p else 1) else 0 := by
  unfold embed1; rw [M.get_ofFn _ hr hk]

theorem get_permMat {N r k : Nat} (σ : Dict) (hr : r < N) (hk : k < N) :
    (permMat σ N : M K).get r k = if σ.getD k k = r then 1 else 0 := by
  unfold permMat; rw [M.get_ofFn _ hr hk]

theorem get_embedBlock {N r k : Nat} (m : Nat) (u : M K) (hr : r < N) (hk : k < N) :
    (embedBlock N m u).get r k =
      if m ≤ r ∧ r < m + u.n ∧ m ≤ k ∧ k < m + u.n then u.get (r - m) (k - m)
      else if r = k then 1 else 0 := by
  unfold embedBlock; rw [M.get_ofFn _ hr hk]

theorem embed2_lead_b {n N r k m1 m2 : Nat} (a b c d : K) (h1 : m1 < n) (h2 : m2 < n)
    (hr : r < n) (hk : n ≤ k) (hkN : k < N) : (embed2 N m1 m2 a b c d).get r k = 0 := by
  rw [get_embed2 _ _ _ _ _ _ (by omega) hkN]
  have e1 : k ≠ m1 := by omega
  have e2 : k ≠ m2 := by omega
  have e3 : r ≠ k := by omega
  simp [e1, e2, e3]

/-- non-loss components: leading block of the `N`-mode matrix is the `n`-mode matrix and the
leading rows vanish on trailing columns -/
theorem mat_lead {n N : Nat} (i : K) (p : Prim K) (hp : p.Wf n) (hl : p.isLoss = false)
    (hN : n ≤ N) :
    (∀ r k, r < n → k < n → (p.mat i N).get r k = (p.mat i n).get r k) ∧
    (∀ r k, r < n → n ≤ k → k < N → (p.mat i N).get r k = 0) := by
  rcases p with ⟨m1, m2, c, s, cv⟩ | ⟨m, ph⟩ | ⟨m, a, b⟩ | ms | σ | ⟨m, u⟩
  · obtain ⟨h1, h2, -⟩ := hp
    cases cv
    · refine ⟨fun r k hr hk => ?_, fun r k hr hk hkN => embed2_lead_b _ _ _ _ h1 h2 hr hk hkN⟩
      simp only [Prim.mat]
      rw [get_embed2 _ _ _ _ _ _ (by omega) (by omega), get_embed2 _ _ _ _ _ _ hr hk]
    · refine ⟨fun r k hr hk => ?_, fun r k hr hk hkN => embed2_lead_b _ _ _ _ h1 h2 hr hk hkN⟩
      simp only [Prim.mat]
      rw [get_embed2 _ _ _ _ _ _ (by omega) (by omega), get_embed2 _ _ _ _ _ _ hr hk]
  · refine ⟨fun r k hr hk => ?_, fun r k hr hk hkN => ?_⟩
    · simp only [Prim.mat]
      rw [get_embed1 _ _ (by omega) (by omega), get_embed1 _ _ hr hk]
    · simp only [Prim.mat]
      rw [get_embed1 _ _ (by omega) hkN, if_neg (by omega)]
  · simp [Prim.isLoss] at hl
  · refine ⟨fun r k hr hk => ?_, fun r k hr hk hkN => ?_⟩
    · simp only [Prim.mat]
      rw [M.get_one (by omega) (by omega), M.get_one hr hk]
    · simp only [Prim.mat]
      rw [M.get_one (by omega) hkN, if_neg (by omega)]
  · refine ⟨fun r k hr hk => ?_, fun r k hr hk hkN => ?_⟩
    · simp only [Prim.mat]
      rw [get_permMat _ (by omega) (by omega), get_permMat _ hr hk]
    · simp only [Prim.mat]
      have hk' : k ∉ σ.keys := fun hmem => by have := hp.2.2 k hmem; omega
      rw [get_permMat _ (by omega) hkN, Dict.getD_of_not_mem_keys hk', if_neg (by omega)]
  · obtain ⟨h1, -⟩ := hp
    refine ⟨fun r k hr hk => ?_, fun r k hr hk hkN => ?_⟩
    · simp only [Prim.mat]
      rw [get_embedBlock _ _ (by omega) (by omega), get_embedBlock _ _ hr hk]
    · simp only [Prim.mat]
      rw [get_embedBlock _ _ (by omega) hkN, if_neg (by omega), if_neg (by omega)]

theorem specMat_n (i : K) (n : Nat) (p : Prim K) : (p.specMat i n).n = n := by
  rcases p with ⟨m1, m2, c, s, cv⟩ | _ | _ | _ | _ | _
  · cases cv <;> rfl
  all_goals rfl

theorem specMat_of_not_loss (i : K) (n : Nat) (p : Prim K) (hl : p.isLoss = false) :
    p.specMat i n = p.mat i n := by
  rcases p with ⟨m1, m2, c, s, cv⟩ | _ | _ | _ | _ | _
  · cases cv <;> rfl
  · rfl
  · simp [Prim.isLoss] at hl
  all_goals rfl

theorem compilePrim_of_not_loss (i : K) (U : M K) (p : Prim K) (hl : p.isLoss = false)
    (hb : ∀ ms, p ≠ .barrier ms) : compilePrim i U p = (p.mat i U.n).mul U := by
  rcases p with ⟨m1, m2, c, s, cv⟩ | _ | _ | ms | _ | _
  · rfl
  · rfl
  · simp [Prim.isLoss] at hl
  · exact absurd rfl (hb ms)
  all_goals rfl

/-- one compile step on the leading block -/
theorem compilePrim_lead {n : Nat} (i : K) (U : M K) (p : Prim K) (hp : p.Wf n) (hn : n ≤ U.n) :
    (compilePrim i U p).lead n = (p.specMat i n).mul (U.lead n) := by
  by_cases hbar : ∃ ms, p = .barrier ms
  · obtain ⟨ms, rfl⟩ := hbar
    simp only [compilePrim, Prim.specMat, Prim.mat]
    rw [one_mul_lead]
  by_cases hl : p.isLoss = false
  · rw [compilePrim_of_not_loss i U p hl (fun ms h => hbar ⟨ms, h⟩), specMat_of_not_loss i n p hl]
    obtain ⟨ha, hb⟩ := mat_lead i p hp hl hn
    apply lead_mul _ _ _ _ (by rw [Prim.mat_n]; exact hn) (Prim.mat_n i n p)
    · intro r c k hr hc hk
      rw [ha r k hr hk, M.get_lead _ hk hc]
    · intro r c k hr hc hk hkN
      rw [Prim.mat_n] at hkN
      rw [hb r k hr hk hkN, zero_mul]
  · rcases p with ⟨m1, m2, c, s, cv⟩ | _ | ⟨m, a, b⟩ | _ | _ | _ <;> try (simp [Prim.isLoss] at hl)
    obtain ⟨hm, -⟩ := hp
    simp only [compilePrim, Prim.specMat, Prim.mat, M.pad_n, Nat.add_sub_cancel]
    have hdim : (embed2 (U.n + 1) m U.n a b (-b) a).n = U.n + 1 := rfl
    apply lead_mul (n := n) _ _ _ _ (by rw [hdim]; omega) rfl
    · intro r c k hr hc hk
      rw [get_embed2 _ _ _ _ _ _ (by omega) (by omega), get_embed1 _ _ hr hk,
        M.get_pad _ (by omega) (by omega), M.get_lead _ hk hc,
        if_pos (by omega : k < U.n ∧ c < U.n)]
      have e1 : k ≠ U.n := by omega
      have e2 : r ≠ U.n := by omega
      congr 1
      by_cases hrk : r = k
      · subst hrk
        by_cases hrm : r = m
        · simp [hrm]
        · simp [hrm, e1]
      · simp [hrk, e1, e2]
        intro h1 h2; omega
    · intro r c k hr hc hk hkN
      rw [hdim] at hkN
      by_cases hkU : k = U.n
      · subst hkU
        rw [M.get_pad _ (by omega) (by omega), if_neg (by omega), if_neg (by omega), mul_zero]
      · rw [get_embed2 _ _ _ _ _ _ (by omega) (by omega)]
        have e1 : k ≠ m := by omega
        have e3 : r ≠ k := by omega
        simp [e1, hkU, e3]

theorem foldl_compilePrim_lead {n : Nat} (i : K) (cs : List (Prim K)) (U : M K)
    (hcs : ∀ p ∈ cs, p.Wf n) (hn : n ≤ U.n) :
    (cs.foldl (compilePrim i) U).lead n =
      cs.foldl (fun V p => (p.specMat i n).mul V) (U.lead n) := by
  induction cs generalizing U with
  | nil => rfl
  | cons p cs ih =>
    rw [List.foldl_cons, List.foldl_cons,
      ih _ (fun q hq => hcs q (List.mem_cons_of_mem _ hq))
        (le_trans hn (le_compilePrim_n i U p)),
      compilePrim_lead i U p (hcs p List.mem_cons_self) hn]

theorem compileComp_eq_foldl (i : K) (U : M K) (c : Comp K) :
    compileComp i U c = c.toPrims.foldl (compilePrim i) U := by
  cases c <;> rfl

theorem foldl_compileComp_eq (i : K) (spec : List (Comp K)) (U : M K) :
    spec.foldl (compileComp i) U = (flattenSpec spec).foldl (compilePrim i) U := by
  induction spec generalizing U with
  | nil => rfl
  | cons c cs ih =>
    rw [List.foldl_cons, ih, compileComp_eq_foldl]
    simp [flattenSpec, List.foldl_append]

theorem mem_flattenSpec_wf {n : Nat} {spec : List (Comp K)} (h : SpecWf n spec) :
    ∀ p ∈ flattenSpec spec, p.Wf n := by
  intro p hp
  simp only [flattenSpec, List.mem_flatMap] at hp
  obtain ⟨c, hc, hpc⟩ := hp
  have := h c hc
  cases c with
  | prim q =>
    simp only [Comp.toPrims, List.mem_singleton] at hpc
    subst hpc; exact this
  | group cs m1 m2 hin hout => exact this p hpc

theorem one_lead (n : Nat) : (M.one n : M K).lead n = M.one n := by
  unfold M.lead M.one
  apply M.ofFn_congr
  intro r c hr hc
  rw [M.get_ofFn _ hr hc]

end LW.Proofs.C01Aux
