/-
  LW.Proofs.ReachSynth — the herald-returning swap dictionary synthesised by `Circuit.add` is a
  permutation of a set of modes `< n` (`SwapsOk`).
-/
import Mathlib.Data.List.Perm.Subperm
import LW.Proofs.C02Swaps
import LW.Proofs.ReachSwaps

set_option linter.unusedSectionVars false

namespace LW.Proofs.Reach

open LW LW.Proofs.C02

/-! ### list helpers -/

theorem perm_range_of_nodup {l : List Nat} {n : Nat} (hnd : l.Nodup) (hlt : ∀ x ∈ l, x < n)
    (hlen : l.length = n) : l.Perm (List.range n) := by
  have hsub : l.Subperm (List.range n) := hnd.subperm (fun x hx => List.mem_range.mpr (hlt x hx))
  exact hsub.perm_of_length_le (by simp [hlen])

theorem getD_pair_mem {d : Dict} {k dflt : Nat} (h : k ∈ d.keys) : (k, d.getD k dflt) ∈ d := by
  induction d with
  | nil => simp [Dict.keys] at h
  | cons p d ih =>
    unfold Dict.getD
    rw [get?_cons]
    by_cases e : p.1 = k
    · rw [if_pos e]
      simp only [Option.getD_some]
      rw [← e]
      exact List.mem_cons_self
    · rw [if_neg e]
      have hk : k ∈ Dict.keys d := by
        simp only [Dict.keys, List.map_cons, List.mem_cons] at h
        rcases h with h | h
        · exact absurd h.symm e
        · exact h
      exact List.mem_cons_of_mem _ (ih hk)

theorem keys_snoc (d : Dict) (k v : Nat) : Dict.keys (d ++ [(k, v)]) = Dict.keys d ++ [k] := by
  simp [Dict.keys]

theorem vals_snoc (d : Dict) (k v : Nat) : Dict.vals (d ++ [(k, v)]) = Dict.vals d ++ [v] := by
  simp [Dict.vals]

/-! ### the skip loop -/

theorem le_synthSkip (prov : Dict) (fuel cur : Nat) : cur ≤ Circ.synthSkip prov fuel cur := by
  induction fuel generalizing cur with
  | zero => exact Nat.le_refl _
  | succ fuel ih =>
    simp only [Circ.synthSkip]
    split
    · have := ih (cur + 1); omega
    · exact Nat.le_refl _

theorem synthSkip_not_mem_or (prov : Dict) (fuel cur : Nat) :
    Circ.synthSkip prov fuel cur ∉ prov.vals ∨ Circ.synthSkip prov fuel cur = cur + fuel := by
  induction fuel generalizing cur with
  | zero => right; rfl
  | succ fuel ih =>
    simp only [Circ.synthSkip]
    by_cases hc : prov.vals.contains cur = true
    · rw [if_pos hc]
      rcases ih (cur + 1) with h | h
      · left; exact h
      · right; omega
    · rw [if_neg hc]
      left
      simpa using hc

/-! ### the invariant of `synthGo` -/

/-- `acc` is the dictionary built so far, `F` the modes found to be fixed points (not recorded) -/
structure SInv (n : Nat) (prov : Dict) (i cur : Nat) (acc : Dict) (F : List Nat) : Prop where
  klt : ∀ x ∈ acc.keys ++ F, x < i
  knd : (acc.keys ++ F).Nodup
  klen : (acc.keys ++ F).length = i
  vnd : (acc.vals ++ F).Nodup
  vlt : ∀ v ∈ acc.vals ++ F, v < n
  vprov : ∀ v ∈ acc.vals ++ F, v ∈ prov.vals → ∃ j, j < i ∧ (j, v) ∈ prov
  vcur : ∀ v ∈ acc.vals ++ F, v ∉ prov.vals → v < cur

theorem SInv.init (n : Nat) (prov : Dict) : SInv n prov 0 0 [] [] := by
  refine ⟨?_, ?_, ?_, ?_, ?_, ?_, ?_⟩ <;> simp [Dict.keys, Dict.vals]

theorem SInv.push {n : Nat} {prov : Dict} {i cur : Nat} {acc : Dict} {F : List Nat}
    (inv : SInv n prov i cur acc F) (v cur' : Nat) (hv : v < n) (hnew : v ∉ acc.vals ++ F)
    (hprov : v ∈ prov.vals → (i, v) ∈ prov) (hcc : cur ≤ cur') (hcur : v ∉ prov.vals → v < cur') :
    SInv n prov (i + 1) cur' (acc ++ [(i, v)]) F := by
  have hi : i ∉ acc.keys ++ F := fun h => by have := inv.klt i h; omega
  have ek : Dict.keys (acc ++ [(i, v)]) ++ F = acc.keys ++ i :: F := by
    rw [keys_snoc]; simp
  have ev : Dict.vals (acc ++ [(i, v)]) ++ F = acc.vals ++ v :: F := by
    rw [vals_snoc]; simp
  have mk : ∀ x, x ∈ acc.keys ++ i :: F ↔ x = i ∨ x ∈ acc.keys ++ F := by
    intro x; simp only [List.mem_append, List.mem_cons]; tauto
  have mv : ∀ x, x ∈ acc.vals ++ v :: F ↔ x = v ∨ x ∈ acc.vals ++ F := by
    intro x; simp only [List.mem_append, List.mem_cons]; tauto
  refine ⟨?_, ?_, ?_, ?_, ?_, ?_, ?_⟩
  · intro x hx
    rw [ek, mk] at hx
    rcases hx with rfl | hx
    · omega
    · have := inv.klt x hx; omega
  · rw [ek, List.nodup_middle, List.nodup_cons]
    exact ⟨hi, inv.knd⟩
  · rw [ek]
    have := inv.klen
    simp only [List.length_append, List.length_cons] at this ⊢
    omega
  · rw [ev, List.nodup_middle, List.nodup_cons]
    exact ⟨hnew, inv.vnd⟩
  · intro x hx
    rw [ev, mv] at hx
    rcases hx with rfl | hx
    · exact hv
    · exact inv.vlt x hx
  · intro x hx hxp
    rw [ev, mv] at hx
    rcases hx with rfl | hx
    · exact ⟨i, by omega, hprov hxp⟩
    · obtain ⟨j, hj, hjm⟩ := inv.vprov x hx hxp
      exact ⟨j, by omega, hjm⟩
  · intro x hx hxp
    rw [ev, mv] at hx
    rcases hx with rfl | hx
    · exact hcur hxp
    · have := inv.vcur x hx hxp; omega

theorem SInv.fix {n : Nat} {prov : Dict} {i cur : Nat} {acc : Dict} {F : List Nat}
    (inv : SInv n prov i cur acc F) (cur' : Nat) (hv : i < n) (hnew : i ∉ acc.vals ++ F)
    (hprov : i ∉ prov.vals) (hcc : cur ≤ cur') (hcur : i < cur') :
    SInv n prov (i + 1) cur' acc (F ++ [i]) := by
  have hi : i ∉ acc.keys ++ F := fun h => by have := inv.klt i h; omega
  have mk : ∀ x, x ∈ acc.keys ++ (F ++ [i]) ↔ x = i ∨ x ∈ acc.keys ++ F := by
    intro x; simp only [List.mem_append, List.mem_singleton]; tauto
  have mv : ∀ x, x ∈ acc.vals ++ (F ++ [i]) ↔ x = i ∨ x ∈ acc.vals ++ F := by
    intro x; simp only [List.mem_append, List.mem_singleton]; tauto
  have nd : ∀ l : List Nat, (l ++ F).Nodup → i ∉ l ++ F → (l ++ (F ++ [i])).Nodup := by
    intro l h1 h2
    rw [← List.append_assoc, List.nodup_append]
    refine ⟨h1, List.nodup_singleton i, ?_⟩
    intro a ha b hb
    rw [List.mem_singleton] at hb
    subst hb
    exact fun e => h2 (e ▸ ha)
  refine ⟨?_, ?_, ?_, ?_, ?_, ?_, ?_⟩
  · intro x hx
    rw [mk] at hx
    rcases hx with rfl | hx
    · omega
    · have := inv.klt x hx; omega
  · exact nd _ inv.knd hi
  · have := inv.klen
    simp only [List.length_append, List.length_cons, List.length_nil] at this ⊢
    omega
  · exact nd _ inv.vnd hnew
  · intro x hx
    rw [mv] at hx
    rcases hx with rfl | hx
    · exact hv
    · exact inv.vlt x hx
  · intro x hx hxp
    rw [mv] at hx
    rcases hx with rfl | hx
    · exact absurd hxp hprov
    · obtain ⟨j, hj, hjm⟩ := inv.vprov x hx hxp
      exact ⟨j, by omega, hjm⟩
  · intro x hx hxp
    rw [mv] at hx
    rcases hx with rfl | hx
    · exact hcur
    · have := inv.vcur x hx hxp; omega

theorem synthGo_inv (n : Nat) (prov : Dict) (hvnd : prov.vals.Nodup) (hv : ∀ x ∈ prov.vals, x < n)
    (fuel i cur : Nat) (acc : Dict) (F : List Nat) (hfi : fuel + i = n)
    (hcnt : cnt (fun j => !decide (j ∈ prov.keys)) (n - i) i
        ≤ cnt (fun v => !decide (v ∈ prov.vals)) (n - cur) cur)
    (inv : SInv n prov i cur acc F) :
    ∃ cur' F', SInv n prov n cur' (Circ.synthGo n prov fuel i cur acc) F' := by
  induction fuel generalizing i cur acc F with
  | zero =>
    have : i = n := by omega
    subst this
    exact ⟨cur, F, inv⟩
  | succ fuel ih =>
    have hi : i < n := by omega
    have e := cnt_sub (P := fun j => !decide (j ∈ prov.keys)) hi
    have hik : i ∉ acc.keys := fun h => by
      have := inv.klt i (List.mem_append_left _ h); omega
    simp only [Circ.synthGo]
    by_cases hc : prov.contains i = true
    · rw [if_pos hc]
      have hik' := contains_iff.mp hc
      simp only [hik', decide_true, Bool.not_true, Bool.toNat_false, Nat.zero_add] at e
      rw [set_of_not_mem hik]
      have hpair : (i, prov.getD i 0) ∈ prov := getD_pair_mem hik'
      have hval : prov.getD i 0 ∈ prov.vals := Dict.mem_vals.mpr ⟨i, hpair⟩
      apply ih (i + 1) cur _ F (by omega) (by rw [← e]; exact hcnt)
      apply inv.push _ cur (hv _ hval) _ (fun _ => hpair) (Nat.le_refl _)
        (fun h => absurd hval h)
      intro hmem
      obtain ⟨j, hj, hjm⟩ := inv.vprov _ hmem hval
      have := Dict.key_unique_of_vals_nodup hvnd hjm hpair
      omega
    · rw [if_neg hc]
      have hik' : i ∉ prov.keys := fun h => hc (contains_iff.mpr h)
      simp only [hik', decide_false, Bool.not_false, Bool.toNat_true] at e
      have hpos : 1 ≤ cnt (fun v => !decide (v ∈ prov.vals)) (n - cur) cur := by omega
      obtain ⟨hr, hcr⟩ := synthSkip_spec prov n (n + 1) cur (by omega) hpos
      have hge := le_synthSkip prov (n + 1) cur
      have hnp : Circ.synthSkip prov (n + 1) cur ∉ prov.vals := by
        rcases synthSkip_not_mem_or prov (n + 1) cur with h | h
        · exact h
        · omega
      have hnew : Circ.synthSkip prov (n + 1) cur ∉ acc.vals ++ F := by
        intro hmem
        have := inv.vcur _ hmem hnp
        omega
      apply ih (i + 1) (Circ.synthSkip prov (n + 1) cur + 1) _
        (if i ≠ Circ.synthSkip prov (n + 1) cur then F else F ++ [i]) (by omega) (by omega)
      by_cases hne : i ≠ Circ.synthSkip prov (n + 1) cur
      · rw [if_pos hne, if_pos hne, set_of_not_mem hik]
        exact inv.push _ _ hr hnew (fun h => absurd h hnp) (by omega) (fun _ => by omega)
      · rw [if_neg hne, if_neg hne]
        have heq : i = Circ.synthSkip prov (n + 1) cur := Classical.not_not.mp hne
        rw [← heq] at hnew hnp
        exact inv.fix _ hi hnew hnp (by omega) (by omega)

/-- the synthesised swap dictionary is a permutation of a set of modes `< n` -/
theorem synthSwaps_swapsOk (n : Nat) (prov : Dict) (hnd : prov.keys.Nodup) (hvnd : prov.vals.Nodup)
    (hk : ∀ x ∈ prov.keys, x < n) (hv : ∀ x ∈ prov.vals, x < n) :
    SwapsOk n (Circ.synthSwaps n prov) := by
  unfold Circ.synthSwaps
  obtain ⟨cur', F, inv⟩ := synthGo_inv n prov hvnd hv n 0 0 [] [] (by omega)
    (cnt_not_mem_le prov.keys prov.vals n hnd hk (by simp [Dict.keys, Dict.vals]))
    (SInv.init n prov)
  generalize Circ.synthGo n prov n 0 0 [] = R at inv
  have hkp := perm_range_of_nodup inv.knd inv.klt inv.klen
  have hvlen : (R.vals ++ F).length = n := by
    have := inv.klen
    simp only [List.length_append, vals_length] at this ⊢
    exact this
  have hvp := perm_range_of_nodup inv.vnd inv.vlt hvlen
  refine ⟨(List.nodup_append.mp inv.knd).1, ?_, fun k hk => inv.klt k (List.mem_append_left _ hk)⟩
  exact (List.perm_append_right_iff F).mp (hkp.trans hvp.symm)

end LW.Proofs.Reach
