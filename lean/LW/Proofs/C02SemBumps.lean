/-
  LW.Proofs.C02SemBumps — iterated mode insertion: the composite re-indexing `bumps ks`, its
  partial inverse, the iterated INSERT-MODE lemma for `compile`, and the rank characterisation of
  `bumps` for an increasing list of insertion points.
-/
import LW.Proofs.C02SemRel

open scoped BigOperators

namespace LW.Proofs.C02Sem

open LW LW.Proofs.C01Aux LW.Proofs.C02

variable {K : Type}

/-- insert modes at `ks`, first to last -/
def bumps (ks : List Nat) (x : Nat) : Nat := ks.foldl (fun x k => bump k x) x

def unbumps : List Nat → Nat → Option Nat
  | [], r => some r
  | k :: ks, r => (unbumps ks r).bind (unbump k)

/-- every insertion point is at most the current number of modes -/
def InsOk : Nat → List Nat → Prop
  | _, [] => True
  | n, k :: ks => k ≤ n ∧ InsOk (n + 1) ks

@[simp] theorem bumps_nil (x : Nat) : bumps [] x = x := rfl
@[simp] theorem bumps_cons (k : Nat) (ks : List Nat) (x : Nat) :
    bumps (k :: ks) x = bumps ks (bump k x) := rfl

theorem bumps_append (ks ls : List Nat) (x : Nat) : bumps (ks ++ ls) x = bumps ls (bumps ks x) := by
  unfold bumps; rw [List.foldl_append]

theorem bump_strictMono {k a b : Nat} (h : a < b) : bump k a < bump k b := by
  unfold bump; split <;> split <;> omega

theorem bumps_strictMono (ks : List Nat) {a b : Nat} (h : a < b) : bumps ks a < bumps ks b := by
  induction ks generalizing a b with
  | nil => exact h
  | cons k ks ih => exact ih (bump_strictMono h)

theorem bumps_inj (ks : List Nat) {a b : Nat} (h : bumps ks a = bumps ks b) : a = b := by
  rcases Nat.lt_trichotomy a b with h1 | h1 | h1
  · have := bumps_strictMono ks h1; omega
  · exact h1
  · have := bumps_strictMono ks h1; omega

theorem le_bumps (ks : List Nat) (x : Nat) : x ≤ bumps ks x := by
  induction ks generalizing x with
  | nil => exact Nat.le_refl _
  | cons k ks ih => exact Nat.le_trans (le_bump k x) (ih _)

theorem bumps_le (ks : List Nat) (x : Nat) : bumps ks x ≤ x + ks.length := by
  induction ks generalizing x with
  | nil => exact Nat.le_refl _
  | cons k ks ih =>
    have := ih (bump k x); have := bump_le_succ k x
    simp only [bumps_cons, List.length_cons]; omega

theorem bumps_of_lt (ks : List Nat) (x : Nat) (h : ∀ k ∈ ks, x < k) : bumps ks x = x := by
  induction ks generalizing x with
  | nil => rfl
  | cons k ks ih =>
    rw [bumps_cons, bump_of_lt (h k (by simp))]
    exact ih x (fun k' hk' => h k' (by simp [hk']))

theorem bumps_of_ge (n : Nat) (ks : List Nat) (h : InsOk n ks) (x : Nat) (hx : n ≤ x) :
    bumps ks x = x + ks.length := by
  induction ks generalizing n x with
  | nil => rfl
  | cons k ks ih =>
    have hb : bump k x = x + 1 := by unfold bump; rw [if_pos (by have := h.1; omega)]
    rw [bumps_cons, hb, ih (n + 1) h.2 (x + 1) (by omega)]
    simp only [List.length_cons]; omega

theorem bumps_not_mem (ks : List Nat) (hs : ks.Pairwise (· < ·)) (x : Nat) : bumps ks x ∉ ks := by
  induction ks generalizing x with
  | nil => simp
  | cons k ks ih =>
    rw [bumps_cons]
    intro hm
    rcases List.mem_cons.mp hm with e | hm
    · have hk : ∀ k' ∈ ks, k < k' := fun k' hk' => List.rel_of_pairwise_cons hs hk'
      by_cases hx : x ≥ k
      · have hb : bump k x = x + 1 := by unfold bump; rw [if_pos hx]
        have := le_bumps ks (bump k x)
        omega
      · have hb : bump k x = x := by unfold bump; rw [if_neg hx]
        rw [hb, bumps_of_lt ks x (fun k' hk' => by have := hk k' hk'; omega)] at e
        omega
    · exact ih hs.of_cons _ hm

theorem pinj_bumps (n L : Nat) (ks : List Nat) (h : InsOk n ks) :
    PInj (n + L) (n + ks.length + L) (bumps ks) (unbumps ks) := by
  induction ks generalizing n with
  | nil =>
    refine ⟨fun x hx => by simpa using hx, fun x _ => rfl, ?_⟩
    intro r x hr e
    injection e with e; subst e
    exact ⟨by simpa using hr, rfl⟩
  | cons k ks ih =>
    have h1 : PInj (n + L) (n + L + 1) (bump k) (unbump k) := pinj_bump k (n + L) (by have := h.1; omega)
    have h2 := ih (n + 1) h.2
    have e1 : n + L + 1 = n + 1 + L := by omega
    have e2 : n + 1 + ks.length + L = n + (k :: ks).length + L := by simp only [List.length_cons]; omega
    rw [e1] at h1
    rw [e2] at h2
    exact h1.comp h2

/-- number of elements of `ks` below `y` -/
def cntLt (ks : List Nat) (y : Nat) : Nat := (ks.filter fun k => decide (k < y)).length

theorem cntLt_cons (k : Nat) (ks : List Nat) (y : Nat) :
    cntLt (k :: ks) y = (if k < y then 1 else 0) + cntLt ks y := by
  unfold cntLt
  rw [List.filter_cons]
  by_cases h : k < y
  · simp [h]; omega
  · simp [h]

theorem cntLt_le_length (ks : List Nat) (y : Nat) : cntLt ks y ≤ ks.length :=
  List.length_filter_le _ _

/-- an increasing list above `k` has fewer than `y - k` elements below `y` -/
theorem cntLt_bound (k : Nat) (ks : List Nat) (hs : ks.Pairwise (· < ·)) (hk : ∀ k' ∈ ks, k < k')
    (y : Nat) (hy : k < y) : cntLt ks y + k + 1 ≤ y := by
  induction ks generalizing k with
  | nil => simp [cntLt]; omega
  | cons a ks ih =>
    rw [cntLt_cons]
    have hka : k < a := hk a (by simp)
    by_cases hay : a < y
    · rw [if_pos hay]
      have := ih a hs.of_cons (fun k' hk' => List.rel_of_pairwise_cons hs hk') hay
      omega
    · rw [if_neg hay]
      have : cntLt ks y = 0 := by
        unfold cntLt
        rw [List.length_eq_zero_iff, List.filter_eq_nil_iff]
        intro b hb
        have := List.rel_of_pairwise_cons hs hb
        simp only [decide_eq_true_eq]; omega
      omega

theorem cntLt_of_le (ks : List Nat) (y : Nat) (h : ∀ k ∈ ks, y ≤ k) : cntLt ks y = 0 := by
  unfold cntLt
  rw [List.length_eq_zero_iff, List.filter_eq_nil_iff]
  intro b hb
  have := h b hb
  simp only [decide_eq_true_eq]; omega

/-- `bumps ks` is the increasing enumeration of the complement of `ks` -/
theorem bumps_unrank (ks : List Nat) (hs : ks.Pairwise (· < ·)) (y : Nat) (hy : y ∉ ks) :
    bumps ks (y - cntLt ks y) = y := by
  induction ks with
  | nil => simp [cntLt]
  | cons k ks ih =>
    have hk : ∀ k' ∈ ks, k < k' := fun k' hk' => List.rel_of_pairwise_cons hs hk'
    have hyk : y ≠ k := fun e => hy (by simp [e])
    have hy' : y ∉ ks := fun h => hy (by simp [h])
    rw [bumps_cons, cntLt_cons]
    by_cases hky : k < y
    · rw [if_pos hky]
      have hb := cntLt_bound k ks hs.of_cons hk y hky
      have : bump k (y - (1 + cntLt ks y)) = y - cntLt ks y := by
        unfold bump; rw [if_pos (by omega)]; omega
      rw [this]
      exact ih hs.of_cons hy'
    · rw [if_neg hky]
      have h0 : cntLt ks y = 0 := cntLt_of_le ks y (fun k' hk' => by have := hk k' hk'; omega)
      rw [h0]
      have : bump k (y - (0 + 0)) = y := by
        unfold bump; rw [if_neg (by omega)]; omega
      rw [this]
      have := ih hs.of_cons hy'
      rw [h0] at this
      simpa using this

/-- rank characterisation: `y ∉ ks` with `y = x + #{k < y}` is `bumps ks x` -/
theorem bumps_eq_of_rank (ks : List Nat) (hs : ks.Pairwise (· < ·)) (x y : Nat) (hy : y ∉ ks)
    (h : y = x + cntLt ks y) : bumps ks x = y := by
  have := bumps_unrank ks hs y hy
  rw [← this]
  congr 1
  omega

/-! ### iterated insertion into a spec -/

section Spec
variable [CommRing K] [StarRing K]

set_option linter.unusedSectionVars false

def specIns (ks : List Nat) (spec : List (Comp K)) : List (Comp K) :=
  ks.foldl (fun s k => Circ.addEmptyModeSpec s k) spec

@[simp] theorem specIns_nil (spec : List (Comp K)) : specIns [] spec = spec := rfl
@[simp] theorem specIns_cons (k : Nat) (ks : List Nat) (spec : List (Comp K)) :
    specIns (k :: ks) spec = specIns ks (Circ.addEmptyModeSpec spec k) := rfl

theorem specIns_append (ks ls : List Nat) (spec : List (Comp K)) :
    specIns (ks ++ ls) spec = specIns ls (specIns ks spec) := by
  unfold specIns; rw [List.foldl_append]

theorem lossCount_addEmptyMode (spec : List (Comp K)) (k : Nat) :
    lossCount (Circ.addEmptyModeSpec spec k) = lossCount spec := by
  rw [← lossN_flatten, ← lossN_flatten, flatten_addEmptyMode]
  unfold lossN
  rw [List.filter_map, List.length_map]
  congr 1
  apply List.filter_congr
  intro p _
  cases p <;> first | rfl | (simp only [Function.comp, Prim.addEmptyMode]; split <;> rfl)

theorem lossCount_specIns (ks : List Nat) (spec : List (Comp K)) :
    lossCount (specIns ks spec) = lossCount spec := by
  induction ks generalizing spec with
  | nil => rfl
  | cons k ks ih => rw [specIns_cons, ih, lossCount_addEmptyMode]

theorem specWf_specIns (n : Nat) (ks : List Nat) (spec : List (Comp K)) (hw : SpecWf n spec) :
    SpecWf (n + ks.length) (specIns ks spec) := by
  induction ks generalizing n spec with
  | nil => exact hw
  | cons k ks ih =>
    have := ih (n + 1) _ (LW.Proofs.Reach.SpecWf.addEmptyMode hw k)
    rw [specIns_cons]
    simpa [Nat.add_assoc, Nat.add_comm 1] using this

/-- ITERATED INSERT-MODE LEMMA -/
theorem compile_specIns (i : K) (n : Nat) (ks : List Nat) (hok : InsOk n ks) (spec : List (Comp K))
    (hw : SpecWf n spec) :
    compile i (n + ks.length) (specIns ks spec)
      = Optic.embedVia (n + ks.length + lossCount spec) (compile i n spec) (unbumps ks) := by
  induction ks generalizing n spec with
  | nil =>
    simp only [specIns_nil, List.length_nil, Nat.add_zero]
    have hP : PInj (n + lossCount spec) (n + lossCount spec) (bumps []) (unbumps []) := by
      have := pinj_bumps n (lossCount spec) [] trivial
      simpa using this
    refine M.ext_get (isOfFn_compile i n spec) (isOfFn_embedVia _ _ _) (compile_n i n spec) ?_
    intro r c hr hc
    rw [compile_n] at hr hc
    exact (get_embedVia_fwd hP _ hr hc).symm
  | cons k ks ih =>
    have hw1 := LW.Proofs.Reach.SpecWf.addEmptyMode hw k
    have h1 := ih (n + 1) hok.2 _ hw1
    rw [compile_addEmptyMode i n k hok.1 spec hw, lossCount_addEmptyMode] at h1
    have e1 : n + (k :: ks).length = n + 1 + ks.length := by simp only [List.length_cons]; omega
    rw [specIns_cons, e1, h1]
    have hP2 := pinj_bumps (n + 1) (lossCount spec) ks hok.2
    exact embedVia_comp (f1 := bump k) hP2 _

end Spec

end LW.Proofs.C02Sem
