/-
  LW.Proofs.C15Cex — the circuits clause of C15 is FALSE as originally written: for a base circuit
  with an ancilla mode between the two rails of a qubit (`Circuit(2).add(S, 0)` with `S` a 3-mode
  circuit heralded on its middle mode gives ancilla list `[1]`), `Circuit.add` passes the ancilla
  through the basis change, which then acts on full modes `0, 2` — not on `0, 1` as the original
  statement (plain shift by `_map_mode(2k)`) claims.  The base circuit of the witness is
  constructible through the API (`Reach`).  Also: a non-vacuity instance of the corrected statement
  on that base.
-/
import LW.Proofs.C15Full5

namespace LW.Tomo

/-- `S = Circuit(3)` heralded (0 photons) on its middle mode -/
def cexSub : Circ Int :=
  { n := 3, inHer := [(1, 0)], outHer := [(1, 0)], extIn := [(1, 0)], extOut := [(1, 0)] }

/-- `Circuit(2).add(S, 0)`: three full modes, the ancilla (full mode 1) lies between the two rails
(full modes 0 and 2) of the only qubit -/
def cexBase : Circ Int :=
  { n := 3, spec := [.group [] 0 2 [(1, 0)] [(1, 0)]], inHer := [(1, 0)], outHer := [(1, 0)],
    internal := [1] }

theorem cexSub_built : (Circ.new 3 : Circ Int).herald 0 1 1 = .ok cexSub := by rfl

theorem cexBase_built : (Circ.new 2 : Circ Int).add cexSub 0 false = .ok cexBase := by rfl

/-- the base of the witness is constructible through the API -/
theorem cexBase_reach : Reach cexBase :=
  Reach.add 0 false (Reach.new 2) (Reach.herald 0 1 1 (Reach.new 3) cexSub_built) cexBase_built

theorem cexBase_WF : cexBase.WF := Proofs.Reach.reach_WF _ cexBase_reach

theorem cexBase_inputModes : cexBase.inputModes = 2 * 1 := rfl

/-- the rails of qubit 0 are the full modes 0 and 2 -/
theorem cexBase_rails : cexBase.mapMode 0 = 0 ∧ cexBase.mapMode 1 = 2 := by decide

/-- the circuit `_create_circuit` really returns for the setting `X` -/
theorem cex_created :
    createCircuit 1 cexBase ([Pauli.X].map (measCirc (0 : Int) 1))
      = .ok { cexBase with spec := cexBase.spec ++
          [.prim (.unitary 0 (addModeToUnitary (hM 1) 1))] } := by rfl

/-- the original statement of the circuits clause is false -/
theorem requested_circuits_original_false :
    ¬ (∀ (R : Type) [CommRing R] (i h : R) (nQ : Nat) (base : Circ R) (s : Meas),
      base.inputModes = 2 * nQ → s.length = nQ →
      ∃ c, createCircuit nQ base (s.map (measCirc i h)) = .ok c ∧ c.n = base.n ∧
        c.inHer = base.inHer ∧ c.outHer = base.outHer ∧
        Circ.Ufull i c = ((List.range nQ).zip s).foldl
          (fun U ks => ((measCirc i h ks.2).spec.map
              (Comp.shift (base.mapMode (2 * (ks.1 : Int))).toNat)).foldl (compileComp i) U)
          (base.Ufull i)) := by
  intro H
  obtain ⟨c, h1, _, _, _, h5⟩ := H Int 0 1 1 cexBase [Pauli.X] rfl rfl
  rw [cex_created] at h1
  injection h1 with h1
  subst h1
  have e := congrArg (fun A : M Int => A.get 0 1) h5
  exact absurd e (by decide)

/-- non-vacuity of the corrected statement: on the constructible base above (ancilla between the
rails) and the setting `X`, the requested circuit's `U_full` is the Hadamard-type matrix
`[[1, 1], [1, -1]]` (`h = 1` over ℤ) on the full modes 0 and 2, the ancilla mode 1 untouched -/
theorem cex_corrected_instance :
    ∃ c, createCircuit 1 cexBase ([Pauli.X].map (measCirc (0 : Int) 1)) = .ok c ∧
      c.n = 3 ∧ c.inHer = [(1, 0)] ∧ c.outHer = [(1, 0)] ∧
      Circ.Ufull 0 c = (embed2 3 0 2 1 1 1 (-1)).mul (cexBase.Ufull 0) := by
  obtain ⟨c, h1, _, h3, h4, h5, _, h7⟩ :=
    requested_circuits_reach (0 : Int) 1 1 cexBase [Pauli.X] cexBase_reach rfl rfl
  exact ⟨c, h1, h3, h4, h5, h7⟩

end LW.Tomo
