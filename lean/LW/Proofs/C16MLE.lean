/-
  LW.Proofs.C16MLE — the rows of the MLE model matrix `_a_mat` applied to the reference Choi matrix
  give the noiseless outcome probabilities `tr(Π± · V ρ_in V†) / 4ⁿ`, i.e. exactly the data vector
  `_n_vec_from_data` builds from noiseless expectation values, up to the constant `len(data)/4ⁿ`.
  (Repaired `_p_vec`, F8: no transpose of the Choi matrix.)
-/
import LW.Proofs.C16GateFid

open scoped BigOperators

namespace LW.Tomo

variable {K : Type} [Field K] [StarRing K] [DecidableEq K]

set_option linter.unusedSectionVars false

@[simp] theorem scale_n (c : K) (A : M K) : (scale c A).n = A.n := rfl
@[simp] theorem madd_n (A B : M K) : (madd A B).n = A.n := rfl
@[simp] theorem transpose_n (A : M K) : A.transpose.n = A.n := rfl

theorem get_scale (c : K) (A : M K) {r k : Nat} (hr : r < A.n) (hk : k < A.n) :
    (scale c A).get r k = c * A.get r k := by
  unfold scale; rw [M.get_ofFn _ hr hk]

theorem get_madd (A B : M K) {r k : Nat} (hr : r < A.n) (hk : k < A.n) :
    (madd A B).get r k = A.get r k + B.get r k := by
  unfold madd; rw [M.get_ofFn _ hr hk]

theorem get_transpose (A : M K) {r k : Nat} (hr : r < A.n) (hk : k < A.n) :
    A.transpose.get r k = A.get k r := by
  unfold M.transpose; rw [M.get_ofFn _ hr hk]

/-- `pairing(kron(ρ, Bᵀ), C_V) = Σ_{c,e} B[e,c] · (V ρ V†)[c,e] = tr(B · V ρ V†)` -/
theorem pairing_kron_choi (n : Nat) (V rho B : M K) (hV : V.n = 2 ^ n) (hr : rho.n = 2 ^ n)
    (hB : B.n = 2 ^ n) :
    pairing (kron rho B.transpose) (choiFromUnitary V)
      = ∑ c ∈ Finset.range (2 ^ n), ∑ e ∈ Finset.range (2 ^ n), B.get e c * (channel V rho).get c e := by
  have hN : (kron rho B.transpose).n = 2 ^ n * 2 ^ n := by rw [kron_n, hr, transpose_n, hB]
  unfold pairing
  rw [M.sumN_eq_sum, hN, sum_range_mul]
  have e1 : ∀ a ∈ Finset.range (2 ^ n), ∀ c ∈ Finset.range (2 ^ n),
      M.sumN (2 ^ n * 2 ^ n) (fun k => (kron rho B.transpose).get (a * 2 ^ n + c) k
          * (choiFromUnitary V).get (a * 2 ^ n + c) k)
        = ∑ b ∈ Finset.range (2 ^ n), ∑ e ∈ Finset.range (2 ^ n),
            rho.get a b * B.get e c * (choiFromUnitary V).get (a * 2 ^ n + c) (b * 2 ^ n + e) := by
    intro a ha c hc
    rw [M.sumN_eq_sum, sum_range_mul]
    refine Finset.sum_congr rfl fun b hb => Finset.sum_congr rfl fun e he => ?_
    have ha' := Finset.mem_range.mp ha
    have hc' := Finset.mem_range.mp hc
    have hb' := Finset.mem_range.mp hb
    have he' := Finset.mem_range.mp he
    rw [get_kron_gen _ _ (by rw [hr, transpose_n, hB]; exact idx_lt ha' hc')
      (by rw [hr, transpose_n, hB]; exact idx_lt hb' he'), transpose_n, hB, idx_div hc', idx_mod hc',
      idx_div he', idx_mod he', get_transpose B (by rw [hB]; exact hc') (by rw [hB]; exact he')]
  rw [Finset.sum_congr rfl fun a ha => Finset.sum_congr rfl fun c hc => e1 a ha c hc, Finset.sum_comm]
  refine Finset.sum_congr rfl fun c hc => ?_
  rw [Finset.sum_congr rfl fun a _ => Finset.sum_comm, Finset.sum_comm]
  refine Finset.sum_congr rfl fun e he => ?_
  have hc' : c < V.n := by rw [hV]; exact Finset.mem_range.mp hc
  have he' : e < V.n := by rw [hV]; exact Finset.mem_range.mp he
  have := choi_channel V rho hc' he'
  rw [hV] at this
  rw [← this, Finset.mul_sum]
  refine Finset.sum_congr rfl fun a _ => ?_
  rw [Finset.mul_sum]
  refine Finset.sum_congr rfl fun b _ => ?_
  ring

/-- the two rows of `_a_mat` for `(input, measurement)` applied to the reference Choi matrix:
`p± = (tr(Vρ V†) ± tr(P·Vρ V†)) / (2·4ⁿ)` -/
theorem mle_rows (i : K) (n : Nat) (V : M K) (hV : V.n = 2 ^ n) (ins : Ins) (hins : ins.length = n)
    (meas : Meas) (hm : meas.length = n) :
    pairing (aRowMats i n ins meas).1 (choiFromUnitary V)
        = (twoPow (2 * n))⁻¹ * (half * (trN n (channel V (rhoKron i ins))
            + trPauli i (channel V (rhoKron i ins)) meas)) ∧
    pairing (aRowMats i n ins meas).2 (choiFromUnitary V)
        = (twoPow (2 * n))⁻¹ * (half * (trN n (channel V (rhoKron i ins))
            + -trPauli i (channel V (rhoKron i ins)) meas)) := by
  have hr : (rhoKron i ins).n = 2 ^ n := by rw [rhoKron_n, hins]
  have hP : (pauliKron i meas).n = 2 ^ n := by rw [pauliKron_n, hm]
  -- pairing is linear in the first argument's scalar
  have pscale : ∀ (c : K) (A C : M K), pairing (scale c A) C = c * pairing A C := by
    intro c A C
    unfold pairing
    rw [scale_n, M.sumN_eq_sum, M.sumN_eq_sum, Finset.mul_sum]
    refine Finset.sum_congr rfl fun j hj => ?_
    rw [M.sumN_eq_sum, M.sumN_eq_sum, Finset.mul_sum]
    refine Finset.sum_congr rfl fun l hl => ?_
    rw [get_scale c A (Finset.mem_range.mp hj) (Finset.mem_range.mp hl)]
    ring
  have key : ∀ (sg : K) (Q : M K), Q.n = 2 ^ n →
      (∀ e c, e < 2 ^ n → c < 2 ^ n → Q.get e c = sg * (pauliKron i meas).get e c) →
      pairing (kron (rhoKron i ins) (scale half (madd (M.one (2 ^ n)) Q)).transpose) (choiFromUnitary V)
        = half * (trN n (channel V (rhoKron i ins))
            + sg * trPauli i (channel V (rhoKron i ins)) meas) := by
    intro sg Q hQn hQ
    have hBn : (scale half (madd (M.one (2 ^ n)) Q)).n = 2 ^ n := rfl
    rw [pairing_kron_choi n V _ _ hV hr hBn]
    unfold trN trPauli
    rw [hm]
    have perc : ∀ c ∈ Finset.range (2 ^ n),
        (∑ e ∈ Finset.range (2 ^ n), (scale half (madd (M.one (2 ^ n)) Q)).get e c
            * (channel V (rhoKron i ins)).get c e)
          = half * ((channel V (rhoKron i ins)).get c c
              + sg * ∑ e ∈ Finset.range (2 ^ n),
                  (channel V (rhoKron i ins)).get c e * (pauliKron i meas).get e c) := by
      intro c hc
      have hc' := Finset.mem_range.mp hc
      have hB2 : ∀ e ∈ Finset.range (2 ^ n),
          (scale half (madd (M.one (2 ^ n)) Q)).get e c * (channel V (rhoKron i ins)).get c e
          = half * ((if e = c then (channel V (rhoKron i ins)).get c e else 0)
              + sg * ((channel V (rhoKron i ins)).get c e * (pauliKron i meas).get e c)) := by
        intro e he
        have he' := Finset.mem_range.mp he
        rw [get_scale _ _ (by simpa using he') (by simpa using hc'),
          get_madd _ _ (by simpa using he') (by simpa using hc'), M.get_one he' hc', hQ e c he' hc']
        by_cases h : e = c <;> simp [h] <;> ring
      rw [Finset.sum_congr rfl hB2, ← Finset.mul_sum, Finset.sum_add_distrib, Finset.sum_ite_eq' _ c,
        if_pos hc, ← Finset.mul_sum]
    rw [Finset.sum_congr rfl perc, ← Finset.mul_sum, Finset.sum_add_distrib, ← Finset.mul_sum]
  constructor
  · simp only [aRowMats]
    rw [pscale, key 1 (pauliKron i meas) hP (fun e c _ _ => (one_mul _).symm), one_mul]
  · simp only [aRowMats]
    rw [pscale, key (-1) (scale (-1) (pauliKron i meas)) hP
      (fun e c he hc => get_scale _ _ (by rw [hP]; exact he) (by rw [hP]; exact hc))]
    ring

end LW.Tomo
