/-
  LW.Proofs.C02SemAdd3 — positions after `Circuit.add`: where the parent's modes, its ancillas and
  the sub-circuit's free modes end up (the combinatorial core of the refinement).
-/
import LW.Proofs.C02SemAdd2

open scoped BigOperators

namespace LW.Proofs.C02Sem

open LW LW.Proofs.C01Aux LW.Proofs.C02

variable {K : Type} [CommRing K] [StarRing K]

set_option linter.unusedSectionVars false

/-! ### list helpers -/

theorem sorted_idx_lt (P : List Nat) (hP : P.Pairwise (· < ·)) {i1 i2 : Nat} (h1 : i1 < P.length)
    (h2 : i2 < P.length) (h : P[i1] < P[i2]) : i1 < i2 := by
  by_contra hc
  by_cases e : i1 = i2
  · subst e; omega
  · have := List.pairwise_iff_getElem.mp hP i2 i1 h2 h1 (by omega)
    omega

/-! ### the situation after an accepted `add` -/

/-- positional facts about an accepted `add` (all derived from `AddData`) -/
structure AddPos (par sub : Circ K) (mode : Nat) (ts : List Nat) (f : Nat → Nat) : Prop where
  f_mono : ∀ a b, a < b → f a < f b
  f_not_new : ∀ x k, k ∈ sub.inHer.keys → f x ≠ mode + bumps ts k
  f_surj : ∀ y, y < par.n + sub.inHer.length → (∀ k ∈ sub.inHer.keys, y ≠ mode + bumps ts k) →
    ∃ x, x < par.n ∧ f x = y
  f_low : ∀ x, x < mode → f x = x
  f_ge : ∀ x, x ≤ f x
  f_loss : ∀ x, par.n ≤ x → f x = x + sub.inHer.length
  f_lt : ∀ x, x < par.n → f x < par.n + sub.inHer.length
  anc : ∀ i ∈ par.internal, f i < mode ∨ (∃ t ∈ ts, f i = mode + t) ∨ mode + (sub.n + ts.length) ≤ f i
  pt : ∀ t ∈ ts, ∃ i ∈ par.internal, f i = mode + t
  fit : mode + (sub.n + ts.length) ≤ par.n + sub.inHer.length
  b_lt : ∀ x, x < sub.n → bumps ts x < sub.n + ts.length
  b_surj : ∀ w, w < sub.n + ts.length → w ∉ ts → ∃ x, x < sub.n ∧ bumps ts x = w

theorem addPos (par sub res : Circ K) (m : Int) (g : Bool) (mode : Nat) (ts : List Nat)
    (d : AddData par sub res m g mode ts) (hwfs : sub.WF) :
    AddPos par sub mode ts (bumps ((sortNat (sub.inHer.keys.map (bumps ts))).map (mode + ·))) := by
  set H'k := sub.inHer.keys.map (bumps ts) with hH'k
  set Kk := (sortNat H'k).map (mode + ·) with hKk
  have hKlen : Kk.length = sub.inHer.length := by
    rw [hKk, List.length_map, length_sortNat, hH'k, List.length_map, keys_length]
  have hknd : H'k.Nodup := nodup_map_of_inj (fun a b => bumps_inj ts) hwfs.inNodup
  have hKs : Kk.Pairwise (· < ·) := by
    rw [hKk, List.pairwise_map]
    exact (strictSorted_sortNat hknd).imp (fun hab => by omega)
  have hb_lt : ∀ x, x < sub.n → bumps ts x < sub.n + ts.length := by
    intro x hx
    have h1 := bumps_of_ge sub.n ts d.ok sub.n (Nat.le_refl _)
    have h2 := bumps_strictMono ts hx
    omega
  have hmemK : ∀ y, y ∈ Kk ↔ ∃ k ∈ sub.inHer.keys, y = mode + bumps ts k := by
    intro y
    rw [hKk, List.mem_map]
    constructor
    · rintro ⟨w, hw, rfl⟩
      rw [mem_sortNat, hH'k, List.mem_map] at hw
      obtain ⟨k, hk, rfl⟩ := hw
      exact ⟨k, hk, rfl⟩
    · rintro ⟨k, hk, rfl⟩
      exact ⟨bumps ts k, by rw [mem_sortNat, hH'k]; exact List.mem_map.mpr ⟨k, hk, rfl⟩, rfl⟩
  have hKlt : ∀ x ∈ Kk, x < mode + (sub.n + ts.length) := by
    intro x hx
    obtain ⟨k, hk, rfl⟩ := (hmemK x).mp hx
    have := hb_lt k (hwfs.inLt k hk)
    omega
  have hKlt' : ∀ x ∈ Kk, x < par.n + Kk.length := by
    intro x hx
    have := hKlt x hx
    have := d.fit
    rw [hKlen]; omega
  have hKok : InsOk par.n Kk := insOk_sorted par.n Kk hKs hKlt'
  have hKge : ∀ x ∈ Kk, mode ≤ x := by
    intro x hx
    obtain ⟨k, -, rfl⟩ := (hmemK x).mp hx
    omega
  have hcnt : ∀ t, cntLt Kk (mode + t) = cntLt H'k t := by
    intro t
    rw [hKk, cntLt_map_add, cntLt_sortNat]
  have hloss : ∀ x, par.n ≤ x → bumps Kk x = x + sub.inHer.length := by
    intro x hx
    rw [bumps_of_ge par.n Kk hKok x hx, hKlen]
  -- an ancilla with a recorded target
  have hrank : ∀ i t, mode ≤ i → t ∈ ts → i - mode + cntLt H'k t = t → bumps Kk i = mode + t := by
    intro i t hi ht he
    apply bumps_eq_of_rank Kk hKs
    · intro hmem
      obtain ⟨k, -, e⟩ := (hmemK _).mp hmem
      have : t = bumps ts k := by omega
      exact bumps_not_mem ts d.sorted k (this ▸ ht)
    · rw [hcnt]; omega
  refine ⟨fun a b => bumps_strictMono Kk, ?_, ?_, ?_, le_bumps Kk, hloss, ?_, ?_, ?_, d.fit, hb_lt, ?_⟩
  · intro x k hk e
    exact bumps_not_mem Kk hKs x (e ▸ (hmemK _).mpr ⟨k, hk, rfl⟩)
  · intro y hy hne
    have hyK : y ∉ Kk := by
      intro hmem
      obtain ⟨k, hk, e⟩ := (hmemK y).mp hmem
      exact hne k hk e
    refine ⟨y - cntLt Kk y, ?_, bumps_unrank Kk hKs y hyK⟩
    by_contra hc
    have := hloss (y - cntLt Kk y) (by omega)
    rw [bumps_unrank Kk hKs y hyK] at this
    omega
  · intro x hx
    exact bumps_of_lt Kk x (fun k hk => by have := hKge k hk; omega)
  · intro x hx
    have := hloss par.n (Nat.le_refl _)
    have := bumps_strictMono Kk hx
    omega
  · intro i hi
    rcases d.fwd i hi with h | ⟨h1, t, ht, h2⟩ | ⟨h1, h2⟩
    · left
      rw [bumps_of_lt Kk i (fun k hk => by have := hKge k hk; omega)]
      exact h
    · right; left
      exact ⟨t, ht, hrank i t h1 ht h2⟩
    · right; right
      have h2 : ((sub.n + ts.length : Nat) : Int) ≤ targetOf H'k ((i : Int) - (mode : Int)) := h2
      obtain ⟨-, b2, -⟩ := targetOf_bounds H'k ((i : Int) - (mode : Int))
      have hlen : H'k.length = sub.inHer.length := by rw [hH'k, List.length_map, keys_length]
      rw [hlen] at b2
      have hy : bumps Kk i = i + sub.inHer.length := by
        apply bumps_eq_of_rank Kk hKs
        · intro hmem
          have := hKlt _ hmem
          omega
        · rw [cntLt_all Kk _ (fun k hk => by have := hKlt k hk; omega), hKlen]
      rw [hy]
      omega
  · intro t ht
    obtain ⟨i, hi, h1, h2⟩ := d.bwd t ht
    exact ⟨i, hi, hrank i t h1 ht h2⟩
  · intro w hw hwt
    refine ⟨w - cntLt ts w, ?_, bumps_unrank ts d.sorted w hwt⟩
    by_contra hc
    have := bumps_of_ge sub.n ts d.ok (w - cntLt ts w) (by omega)
    rw [bumps_unrank ts d.sorted w hwt] at this
    omega

/-- abstract form of the window lemma: two increasing enumerations of the same set agree -/
theorem window_aux (P FS : List Nat) (f b : Nat → Nat) (mode m : Nat) (hPs : P.Pairwise (· < ·))
    (hFSs : FS.Pairwise (· < ·)) (hm : m < P.length) (hmode : P[m] = mode)
    (hfmono : ∀ x y, x < y → f x < f y) (hbmono : ∀ x y, x < y → b x < b y)
    (hpre : ∀ x ∈ FS, ∃ y, y ∈ P ∧ mode ≤ y ∧ f y = mode + b x)
    (hdc : ∀ a ∈ P, mode ≤ a → (∃ x ∈ FS, f a ≤ mode + b x) → ∃ x ∈ FS, f a = mode + b x) :
    ∀ j (hj : j < FS.length), ∃ hmj : m + j < P.length, f P[m + j] = mode + b FS[j] := by
  have hfinj : ∀ x y, f x = f y → x = y := by
    intro x y e
    rcases Nat.lt_trichotomy x y with h | h | h
    · have := hfmono x y h; omega
    · exact h
    · have := hfmono y x h; omega
  have hflt : ∀ x y, f x < f y → x < y := by
    intro x y h
    by_contra hc
    rcases Nat.lt_or_eq_of_le (Nat.le_of_not_lt hc) with h' | h'
    · have := hfmono _ _ h'; omega
    · rw [h'] at h; omega
  have hblt : ∀ x y, b x < b y → x < y := by
    intro x y h
    by_contra hc
    rcases Nat.lt_or_eq_of_le (Nat.le_of_not_lt hc) with h' | h'
    · have := hbmono _ _ h'; omega
    · rw [h'] at h; omega
  intro j
  induction j using Nat.strong_induction_on with
  | _ j ih =>
    intro hj
    obtain ⟨y, hyP, hym, hfy⟩ := hpre FS[j] (List.getElem_mem hj)
    obtain ⟨idx, hidx, hidxe⟩ := List.mem_iff_getElem.mp hyP
    have hlow : m + j ≤ idx := by
      by_cases hj0 : j = 0
      · subst hj0
        by_contra hc
        have := List.pairwise_iff_getElem.mp hPs idx m hidx hm (by omega)
        omega
      · obtain ⟨hmj', e'⟩ := ih (j - 1) (by omega) (by omega)
        have hlt : FS[j - 1] < FS[j] :=
          List.pairwise_iff_getElem.mp hFSs (j - 1) j (by omega) hj (by omega)
        have hb := hbmono _ _ hlt
        have hvl : P[m + (j - 1)] < P[idx] := by
          apply hflt
          rw [hidxe, e', hfy]; omega
        have := sorted_idx_lt P hPs hmj' hidx hvl
        omega
    have hup : idx ≤ m + j := by
      by_contra hc
      have hmj : m + j < P.length := by omega
      have hay : P[m + j] < P[idx] := List.pairwise_iff_getElem.mp hPs (m + j) idx hmj hidx (by omega)
      have hma : mode ≤ P[m + j] := by
        by_cases hj0 : j = 0
        · subst hj0
          have : P[m + 0] = P[m] := by congr 1
          omega
        · have := List.pairwise_iff_getElem.mp hPs m (m + j) hm hmj (by omega); omega
      have hfa : f P[m + j] < f y := by rw [← hidxe]; exact hfmono _ _ hay
      obtain ⟨x', hx', e'⟩ := hdc P[m + j] (List.getElem_mem hmj) hma ⟨FS[j], List.getElem_mem hj, by omega⟩
      obtain ⟨j2, hj2, hj2e⟩ := List.mem_iff_getElem.mp hx'
      have hlt : FS[j2] < FS[j] := by
        apply hblt
        rw [hj2e]; omega
      have hj2j : j2 < j := sorted_idx_lt FS hFSs hj2 hj hlt
      obtain ⟨hmj2, e2⟩ := ih j2 hj2j hj2
      have : f P[m + j2] = f P[m + j] := by rw [e2, e', hj2e]
      have hpe := hfinj _ _ this
      have hnd : P.Nodup := hPs.imp (fun h => Nat.ne_of_lt h)
      have := (List.Nodup.getElem_inj_iff hnd (hi := hmj2) (hj := hmj)).mp hpe
      omega
    have hidx' : idx = m + j := by omega
    subst hidx'
    exact ⟨hidx, by rw [hidxe]; exact hfy⟩

/-- WINDOW LEMMA: the `j`-th free mode of the sub-circuit lands on the `(m+j)`-th port of the
parent -/
theorem window (par sub : Circ K) (mode : Nat) (ts : List Nat)
    (f : Nat → Nat) (pos : AddPos par sub mode ts f) (hts : ts.Pairwise (· < ·)) (m : Nat)
    (hm : m < par.portModes.length) (hmode : par.portModes[m] = mode) (j : Nat)
    (hj : j < (freeOf sub.n sub.inHer.keys).length) :
    ∃ hmj : m + j < par.portModes.length,
      f (par.portModes[m + j]) = mode + bumps ts ((freeOf sub.n sub.inHer.keys)[j]) := by
  have hfinj : ∀ a b, f a = f b → a = b := by
    intro a b e
    rcases Nat.lt_trichotomy a b with h | h | h
    · have := pos.f_mono a b h; omega
    · exact h
    · have := pos.f_mono b a h; omega
  apply window_aux par.portModes (freeOf sub.n sub.inHer.keys) f (bumps ts) mode m
    (portModes_sorted par) (freeOf_sorted _ _) hm hmode pos.f_mono (fun x y => bumps_strictMono ts)
  · -- every shifted free mode is the image of a port above `mode`
    intro x hx
    obtain ⟨hxn, hxk⟩ := mem_freeOf.mp hx
    have hbx := pos.b_lt x hxn
    obtain ⟨y, hy, e⟩ := pos.f_surj (mode + bumps ts x) (by have := pos.fit; omega) (by
      intro k hk e2
      have : bumps ts x = bumps ts k := by omega
      exact hxk (bumps_inj ts this ▸ hk))
    refine ⟨y, ?_, ?_, e⟩
    · rw [mem_portModes]
      refine ⟨hy, ?_⟩
      intro hyi
      rcases pos.anc y hyi with h | ⟨t, ht, h⟩ | h
      · omega
      · have : bumps ts x = t := by omega
        exact bumps_not_mem ts hts x (this ▸ ht)
      · omega
    · by_contra hc
      have := pos.f_low y (by omega)
      omega
  · -- every port in the window is a shifted free mode
    intro a ha hma ⟨x0, hx0, hle⟩
    have hb0 := pos.b_lt x0 (mem_freeOf.mp hx0).1
    have hge := pos.f_ge a
    have hwt : f a - mode ∉ ts := by
      intro ht
      obtain ⟨i, hi, e⟩ := pos.pt _ ht
      have : f i = f a := by omega
      have := hfinj _ _ this
      subst this
      exact ((mem_portModes par).mp ha).2 hi
    obtain ⟨x, hx, e⟩ := pos.b_surj (f a - mode) (by omega) hwt
    refine ⟨x, ?_, by omega⟩
    rw [mem_freeOf]
    refine ⟨hx, ?_⟩
    intro hk
    exact pos.f_not_new a x hk (by omega)

end LW.Proofs.C02Sem
