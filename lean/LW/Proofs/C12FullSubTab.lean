/-
  LW.Proofs.C12FullSubTab — the coefficient amplitudes (`amp` of `circHom`) of the explicit
  sub-circuits behind the placements of the converter's plan:
  * `amp_sq`: a single-qubit gate has the entries of its 2×2 matrix;
  * `circHom_swap`: the SWAP circuit renames the creation operators by `qswap`;
  * `amp_two` / `amp_two_leak` / `amp_three`: the CZ-type gates have the amplitude tables of
    LW/Proofs/C13Field.lean (`HasTable`), transported from the model's permanent amplitude `gateAmp`
    by `gateAmp_eq_amp` (the factorial factor is 1 on dual-rail outputs with 0/1 heralds, and a
    product of 1s and 2s — invertible — on the leak outputs).
-/
import LW.Proofs.C12FullSubOk
import LW.Proofs.C12FullGateAmp
import LW.Proofs.SwapDict

open MvPolynomial

namespace LW.C12F

open LW LW.QC LW.Gates LW.QF

set_option linter.unusedSectionVars false

/-! ### membership in the enumerations of `HasTable` -/

theorem mem_bitStrings_self (β : List Bool) : β ∈ bitStrings β.length := by
  induction β with
  | nil => simp [bitStrings]
  | cons b t ih => cases b <;> simp [bitStrings, ih]

theorem mem_bitStrings_of {n : Nat} {β : List Bool} (h : β.length = n) : β ∈ bitStrings n :=
  h ▸ mem_bitStrings_self β

theorem mem_fockStates_of {m p : Nat} {o : List Nat} (hl : o.length = m) (hs : o.sum = p) :
    o ∈ fockStates m p := by
  induction m generalizing p o with
  | zero =>
    have : o = [] := List.eq_nil_of_length_eq_zero hl
    subst this
    simp only [List.sum_nil] at hs
    subst hs
    simp [fockStates]
  | succ m ih =>
    cases o with
    | nil => simp at hl
    | cons k t =>
      simp only [List.length_cons, Nat.add_right_cancel_iff] at hl
      simp only [List.sum_cons] at hs
      simp only [fockStates, List.mem_flatMap, List.mem_reverse, List.mem_range, List.mem_map]
      exact ⟨k, by omega, t, ih hl (by omega), rfl⟩

/-! ### dual-rail states and factorial products -/

theorem dualRail_length_B (β : List Bool) : (dualRail β).length = 2 * β.length := by
  induction β with
  | nil => rfl
  | cons b t ih => cases b <;> simp only [dualRail, List.length_cons, ih] <;> omega

theorem dualRail_le_one (β : List Bool) : ∀ x ∈ dualRail β, x ≤ 1 := by
  induction β with
  | nil => intro x hx; simp [dualRail] at hx
  | cons b t ih =>
    intro x hx
    cases b <;> simp only [dualRail, List.mem_cons] at hx <;>
      rcases hx with rfl | rfl | hx <;> first | omega | exact ih x hx

theorem factProd_nil : factProd [] = 1 := rfl

theorem factProd_cons (x : Nat) (l : List Nat) : factProd (x :: l) = x.factorial * factProd l := by
  simp [factProd]

theorem factProd_eq_one (l : List Nat) (h : ∀ x ∈ l, x ≤ 1) : factProd l = 1 := by
  induction l with
  | nil => rfl
  | cons x l ih =>
    rw [factProd_cons, ih (fun y hy => h y (List.mem_cons_of_mem _ hy)), Nat.mul_one]
    have hx : x ≤ 1 := h x List.mem_cons_self
    have : x = 0 ∨ x = 1 := by omega
    rcases this with rfl | rfl <;> rfl

theorem le_sum_of_mem {l : List Nat} {x : Nat} (h : x ∈ l) : x ≤ l.sum := by
  induction l with
  | nil => simp at h
  | cons y l ih =>
    simp only [List.mem_cons] at h
    simp only [List.sum_cons]
    rcases h with rfl | h
    · omega
    · have := ih h; omega

theorem factProd_cast_ne_zero {R : Type} [Field R] (h2 : (2 : R) ≠ 0) (l : List Nat)
    (h : ∀ x ∈ l, x ≤ 2) : ((factProd l : ℕ) : R) ≠ 0 := by
  induction l with
  | nil => rw [factProd_nil, Nat.cast_one]; exact one_ne_zero
  | cons x l ih =>
    rw [factProd_cons, Nat.cast_mul]
    refine mul_ne_zero ?_ (ih (fun y hy => h y (List.mem_cons_of_mem _ hy)))
    have hx : x ≤ 2 := h x List.mem_cons_self
    have : x = 0 ∨ x = 1 ∨ x = 2 := by omega
    rcases this with rfl | rfl | rfl
    · rw [Nat.factorial_zero, Nat.cast_one]; exact one_ne_zero
    · rw [Nat.factorial_one, Nat.cast_one]; exact one_ne_zero
    · rw [Nat.factorial_two, Nat.cast_ofNat]; exact h2

/-! ### from the model's `gateAmp` to `amp` for a `SubOk` circuit -/

section Ring
variable {R : Type} [CommRing R] [StarRing R]

theorem gateAmp_of_subOk (i : R) (sub : Circ R) {q : Nat} {H : List Nat} (hsub : SubOk sub q H)
    (ins outs : List Nat) (hi : ins.length = q) (ho : outs.length = q) :
    gateAmp i sub ins outs =
      ((factProd (outs ++ H) : ℕ) : R) *
        amp (circHom i sub) (outs ++ H).toFinsupp (ins ++ H).toFinsupp := by
  have h := gateAmp_eq_amp i sub hsub.wf hsub.io ins outs (by rw [hsub.ports]; exact hi)
    (by rw [hsub.ports]; exact ho)
  rw [hsub.her] at h
  exact h

/-- table entry of a gate with heralds `H ⊆ {0, 1}` between dual-rail states -/
theorem amp_of_table (i : R) (g : Except Err (Circ R)) (sub : Circ R) (hg : g = .ok sub)
    (nq : Nat) (k : R) (G : List Bool → List Bool → Int) (lf : Bool) (H : List Nat)
    (hsub : SubOk sub (2 * nq) H) (hH : ∀ x ∈ H, x ≤ 1)
    (ht : HasTable Eq i g nq k G lf) (β β' : List Bool) (hβ : β.length = nq)
    (hβ' : β'.length = nq) :
    amp (circHom i sub) (dualRail β' ++ H).toFinsupp (dualRail β ++ H).toFinsupp
      = scaleBy k (G β' β) := by
  obtain ⟨c', hc', _, htab⟩ := ht
  rw [hg] at hc'
  have e : sub = c' := Except.ok.inj hc'
  subst e
  have h1 := (htab β (mem_bitStrings_of hβ)).1 β' (mem_bitStrings_of hβ')
  have hf : factProd (dualRail β' ++ H) = 1 := by
    apply factProd_eq_one
    intro x hx
    rcases List.mem_append.mp hx with hx | hx
    · exact dualRail_le_one β' x hx
    · exact hH x hx
  rw [gateAmp_of_subOk i sub hsub _ _ (by rw [dualRail_length_B, hβ])
    (by rw [dualRail_length_B, hβ']), hf, Nat.cast_one, one_mul] at h1
  exact h1

theorem amp_sq (c : GC R) (g : SQ R) (b b' : Bool) :
    amp (circHom c.i (sqCirc c g)) (dualRail [b']).toFinsupp (dualRail [b]).toFinsupp
      = sqEntry c g b'.toNat b.toNat := by
  have h1 := single_qubit_amp c g b b'
  have hf : factProd (dualRail [b'] ++ []) = 1 := by
    apply factProd_eq_one
    intro x hx
    rw [List.append_nil] at hx
    exact dualRail_le_one [b'] x hx
  rw [gateAmp_of_subOk c.i (sqCirc c g) (subOk_sq c g) _ _ (by rw [dualRail_length_B]; rfl)
    (by rw [dualRail_length_B]; rfl), hf, Nat.cast_one, one_mul, List.append_nil,
    List.append_nil] at h1
  exact h1

/-! ### SWAP -/

/-- a permutation matrix multiplied onto the identity, entrywise -/
theorem permMat_mul_one_get' (σ : Dict) (N : Nat) {r c : Nat} (hr : r < N) (hc : c < N) :
    ((permMat σ N : M R).mul (M.one N)).get r c = if Dict.fn σ c = r then 1 else 0 := by
  have hn : (permMat σ N : M R).n = N := rfl
  rw [M.get_mul _ _ (by rw [hn]; exact hr) (by rw [hn]; exact hc), hn]
  rw [Finset.sum_eq_single c]
  · rw [M.get_one hc hc, if_pos rfl, mul_one]
    unfold permMat
    rw [M.get_ofFn _ hr hc]
    rfl
  · intro k hk hkc
    rw [M.get_one (Finset.mem_range.mp hk) hc, if_neg hkc, mul_zero]
  · intro h
    exact absurd (Finset.mem_range.mpr hc) h

theorem layout_nil (N : Nat) {y : Nat} (hy : y < N) : layout [] N y = y := by
  unfold layout
  rw [if_pos (by simpa using hy)]
  have e : LW.Proofs.C02Sem.freeOf N (Dict.keys []) = List.range N := by
    unfold LW.Proofs.C02Sem.freeOf
    simp [Dict.keys]
  rw [e, List.getD_eq_getElem _ _ (by simpa using hy), List.getElem_range]

theorem closedE_swap (i : R) (a b : Nat) {r k : Nat} (hr : r < 2 * max a b + 2)
    (hk : k < 2 * max a b + 2) :
    closedE i (swapCirc R a b) r k = if Dict.fn (swapDict a b) k = r then 1 else 0 := by
  have hU : (swapCirc R a b).Ufull i
      = (permMat (swapDict a b) (2 * max a b + 2) : M R).mul (M.one (2 * max a b + 2)) := rfl
  show ((swapCirc R a b).Ufull i).get (layout [] (2 * max a b + 2) r)
    (layout [] (2 * max a b + 2) k) = _
  rw [layout_nil _ hr, layout_nil _ hk, hU]
  exact permMat_mul_one_get' _ _ hr hk

omit [CommRing R] [StarRing R] in
theorem swapDict_fn (a b : Nat) (j : Nat) :
    Dict.fn (swapDict a b) j = qswap a b j := by
  unfold swapDict qswap
  simp only [Dict.fn_cons, Dict.fn_nil]
  split_ifs <;> omega

omit [CommRing R] [StarRing R] in
theorem qswap_lt_max (a b : Nat) {j : Nat} (hj : j < 2 * max a b + 2) :
    qswap a b j < 2 * max a b + 2 := by
  unfold qswap
  split_ifs <;> omega

theorem circHom_swap (i : R) (a b : Nat) (_hab : a ≠ b) (j : Nat) (hj : j < 2 * max a b + 2) :
    circHom i (swapCirc R a b) (X j) = X (qswap a b j) := by
  show homOf (closedE i (swapCirc R a b)) (2 * max a b + 2) (X j) = _
  rw [homOf_X_lt _ hj]
  unfold colForm
  have hq := qswap_lt_max a b hj
  rw [Finset.sum_eq_single (qswap a b j)]
  · rw [closedE_swap i a b hq hj, swapDict_fn a b, if_pos rfl, C_1, one_mul]
  · intro r hr hne
    rw [closedE_swap i a b (Finset.mem_range.mp hr) hj, swapDict_fn a b,
      if_neg (fun e => hne e.symm), C_0, zero_mul]
  · intro h
    exact absurd (Finset.mem_range.mpr hq) h

end Ring

/-! ### the CZ-type gates over a field with valid constants -/

section Field
variable {R : Type} [Field R] [StarRing R]

/-- leak-free table entry: the amplitude to an accepted non-dual-rail output vanishes -/
theorem amp_leak_of_table (h2 : (2 : R) ≠ 0) (i : R) (g : Except Err (Circ R)) (sub : Circ R)
    (hg : g = .ok sub) (nq : Nat) (hnq : nq ≤ 2) (k : R) (G : List Bool → List Bool → Int)
    (H : List Nat) (hsub : SubOk sub (2 * nq) H) (hH : ∀ x ∈ H, x ≤ 2)
    (ht : HasTable Eq i g nq k G true) (β : List Bool) (hβ : β.length = nq)
    (o : List Nat) (ho : o.length = 2 * nq) (hs : o.sum = nq) (hnd : isDualRail o = false) :
    amp (circHom i sub) (o ++ H).toFinsupp (dualRail β ++ H).toFinsupp = 0 := by
  obtain ⟨c', hc', _, htab⟩ := ht
  rw [hg] at hc'
  have e : sub = c' := Except.ok.inj hc'
  subst e
  have h1 := (htab β (mem_bitStrings_of hβ)).2 rfl o (mem_fockStates_of ho hs) hnd
  rw [gateAmp_of_subOk i sub hsub _ _ (by rw [dualRail_length_B, hβ]) ho] at h1
  have hf : ((factProd (o ++ H) : ℕ) : R) ≠ 0 := by
    apply factProd_cast_ne_zero h2
    intro x hx
    rcases List.mem_append.mp hx with hx | hx
    · have := le_sum_of_mem hx; omega
    · exact hH x hx
  exact (mul_eq_zero.mp h1).resolve_left hf

theorem amp_two (c : GC R) (hv : c.Valid) (cx ps : Bool) (t : Nat) (ht : t < 2)
    (β β' : List Bool) (hβ : β.length = 2) (hβ' : β'.length = 2) :
    amp (circHom c.i (twoCirc c cx ps t))
        (dualRail β' ++ (if ps then [0, 0] else [0, 1, 1, 0])).toFinsupp
        (dualRail β ++ (if ps then [0, 0] else [0, 1, 1, 0])).toFinsupp
      = scaleBy (if ps then -c.third else c.half * c.half)
          ((if cx then namedCNOT t else namedCZ) β' β) := by
  have ht2 : t = 0 ∨ t = 1 := by omega
  cases ps
  · have hs := subOk_two c cx false t ht
    simp only [Bool.false_eq_true, if_false] at hs ⊢
    cases cx
    · simp only [Bool.false_eq_true, if_false]
      exact amp_of_table c.i (CZH c) _ (CZH_struct c) 2 _ namedCZ true [0, 1, 1, 0] hs
        (by decide) (CZH_table_field c hv) β β' hβ hβ'
    · simp only [if_true]
      rcases ht2 with rfl | rfl
      · exact amp_of_table c.i (CNOTH c 0) _ (CNOTH0_struct c) 2 _ (namedCNOT 0) true
          [0, 1, 1, 0] hs (by decide) (CNOTH0_table_field c hv) β β' hβ hβ'
      · exact amp_of_table c.i (CNOTH c 1) _ (CNOTH1_struct c) 2 _ (namedCNOT 1) true
          [0, 1, 1, 0] hs (by decide) (CNOTH1_table_field c hv) β β' hβ hβ'
  · have hs := subOk_two c cx true t ht
    simp only [if_true] at hs ⊢
    cases cx
    · simp only [Bool.false_eq_true, if_false]
      exact amp_of_table c.i (CZ c) _ (CZ_struct c) 2 _ namedCZ false [0, 0] hs
        (by decide) (CZ_table_field c hv) β β' hβ hβ'
    · simp only [if_true]
      rcases ht2 with rfl | rfl
      · exact amp_of_table c.i (CNOT c 0) _ (CNOT0_struct c) 2 _ (namedCNOT 0) false
          [0, 0] hs (by decide) (CNOT0_table_field c hv) β β' hβ hβ'
      · exact amp_of_table c.i (CNOT c 1) _ (CNOT1_struct c) 2 _ (namedCNOT 1) false
          [0, 0] hs (by decide) (CNOT1_table_field c hv) β β' hβ hβ'

theorem amp_two_leak (c : GC R) (hv : c.Valid) (cx : Bool) (t : Nat) (ht : t < 2)
    (β : List Bool) (hβ : β.length = 2) (o : List Nat) (ho : o.length = 4) (hs : o.sum = 2)
    (hnd : isDualRail o = false) :
    amp (circHom c.i (twoCirc c cx false t)) (o ++ [0, 1, 1, 0]).toFinsupp
        (dualRail β ++ [0, 1, 1, 0]).toFinsupp = 0 := by
  have ht2 : t = 0 ∨ t = 1 := by omega
  have hsub := subOk_two c cx false t ht
  simp only [Bool.false_eq_true, if_false] at hsub
  have h2 := hv.two_ne
  cases cx
  · exact amp_leak_of_table h2 c.i (CZH c) _ (CZH_struct c) 2 (le_refl _) _ namedCZ [0, 1, 1, 0]
      hsub (by decide) (CZH_table_field c hv) β hβ o ho hs hnd
  · rcases ht2 with rfl | rfl
    · exact amp_leak_of_table h2 c.i (CNOTH c 0) _ (CNOTH0_struct c) 2 (le_refl _) _ (namedCNOT 0)
        [0, 1, 1, 0] hsub (by decide) (CNOTH0_table_field c hv) β hβ o ho hs hnd
    · exact amp_leak_of_table h2 c.i (CNOTH c 1) _ (CNOTH1_struct c) 2 (le_refl _) _ (namedCNOT 1)
        [0, 1, 1, 0] hsub (by decide) (CNOTH1_table_field c hv) β hβ o ho hs hnd

theorem amp_three (c : GC R) (hv : c.Valid) (ccx : Bool) (t : Nat) (ht : t < 3)
    (β β' : List Bool) (hβ : β.length = 3) (hβ' : β'.length = 3) :
    amp (circHom c.i (threeCirc c ccx t)) (dualRail β' ++ [0, 0, 0, 0]).toFinsupp
        (dualRail β ++ [0, 0, 0, 0]).toFinsupp
      = scaleBy (c.i * (c.rh * (c.half * c.third)))
          ((if ccx then namedCNOT t else namedCZ) β' β) := by
  have ht3 : t = 0 ∨ t = 1 ∨ t = 2 := by omega
  have hs := subOk_three c ccx t ht
  cases ccx
  · simp only [Bool.false_eq_true, if_false]
    exact amp_of_table c.i (CCZ c) _ (CCZ_struct c) 3 _ namedCZ false [0, 0, 0, 0] hs
      (by decide) (CCZ_table_field c hv) β β' hβ hβ'
  · simp only [if_true]
    rcases ht3 with rfl | rfl | rfl
    · exact amp_of_table c.i (CCNOT c 0) _ (CCNOT0_struct c) 3 _ (namedCNOT 0) false
        [0, 0, 0, 0] hs (by decide) (CCNOT0_table_field c hv) β β' hβ hβ'
    · exact amp_of_table c.i (CCNOT c 1) _ (CCNOT1_struct c) 3 _ (namedCNOT 1) false
        [0, 0, 0, 0] hs (by decide) (CCNOT1_table_field c hv) β β' hβ hβ'
    · exact amp_of_table c.i (CCNOT c 2) _ (CCNOT2_struct c) 3 _ (namedCNOT 2) false
        [0, 0, 0, 0] hs (by decide) (CCNOT2_table_field c hv) β β' hβ hβ'

end Field

end LW.C12F
