/-
  LW.Proofs.C17Dict — Python dictionaries keyed by State as association lists: lookup after
  assignment, key order, `dict(pairs)`.
-/
import Mathlib.Data.List.Basic
import Mathlib.Data.List.Nodup
import Mathlib.Algebra.BigOperators.Group.List.Basic
import LW.Model.Result

namespace LW.Res

namespace PD
variable {β : Type}

theorem get?_nil (k : St) : PD.get? ([] : PD β) k = none := rfl

theorem get?_cons (k k' : St) (v : β) (d : PD β) :
    PD.get? ((k', v) :: d) k = if k = k' then some v else PD.get? d k := by
  simp only [get?, List.lookup_cons]
  by_cases h : k = k'
  · simp [h]
  · have : (k == k') = false := by simpa using h
    simp [this, h]

theorem get?_set_self (d : PD β) (k : St) (v : β) : (d.set k v).get? k = some v := by
  induction d with
  | nil => simp [set, get?_cons]
  | cons p d ih =>
    obtain ⟨k', v'⟩ := p
    simp only [set]
    split
    · rename_i h; simp [get?_cons, h]
    · rename_i h
      have : ¬ k = k' := fun e => h e.symm
      simp [get?_cons, this, ih]

theorem get?_set_other (d : PD β) (k k₂ : St) (v : β) (hne : k₂ ≠ k) : (d.set k v).get? k₂ = d.get? k₂ := by
  induction d with
  | nil => simp [set, get?_cons, hne, get?_nil]
  | cons p d ih =>
    obtain ⟨k', v'⟩ := p
    simp only [set]
    split
    · rename_i h
      subst h
      simp [get?_cons, hne]
    · simp [get?_cons, ih]

theorem keys_set (d : PD β) (k : St) (v : β) :
    (d.set k v).keys = if k ∈ d.keys then d.keys else d.keys ++ [k] := by
  induction d with
  | nil => simp [set, keys]
  | cons p d ih =>
    obtain ⟨k', v'⟩ := p
    simp only [set]
    split
    · rename_i h; subst h; simp [keys]
    · rename_i h
      have hne : ¬ k = k' := fun e => h e.symm
      simp only [keys, List.map_cons, List.mem_cons, hne, false_or] at ih ⊢
      rw [ih]
      split <;> simp [*]

theorem mem_keys_iff_get? (d : PD β) (k : St) : k ∈ d.keys ↔ (d.get? k).isSome := by
  induction d with
  | nil => simp [keys, get?_nil]
  | cons p d ih =>
    obtain ⟨k', v'⟩ := p
    simp only [keys, List.map_cons, List.mem_cons, get?_cons] at ih ⊢
    by_cases h : k = k'
    · simp [h]
    · simp [h, ih]

theorem get?_eq_none_of_not_mem (d : PD β) (k : St) (h : k ∉ d.keys) : d.get? k = none := by
  have := (mem_keys_iff_get? d k).not.mp h
  simpa using this

/-- a dictionary (unique keys) is its key list paired with its lookups -/
theorem eq_map_keys [Zero β] (d : PD β) (hn : d.keys.Nodup) :
    d = d.keys.map fun k => (k, (d.get? k).getD 0) := by
  induction d with
  | nil => rfl
  | cons p d ih =>
    obtain ⟨k', v'⟩ := p
    simp only [keys, List.map_cons, List.nodup_cons] at hn
    simp only [keys, List.map_cons, get?_cons, if_true, Option.getD_some, List.cons.injEq, true_and]
    conv_lhs => rw [ih hn.2]
    simp only [keys, List.map_map]
    apply List.map_congr_left
    intro q hq
    have : ¬ q.1 = k' := by
      intro e
      apply hn.1
      rw [← e]
      exact List.mem_map_of_mem hq
    simp [Function.comp, this]

/-! ### folds of assignments -/

/-- a fold in which every step assigns to the key `κ p` -/
theorem get?_foldl_set_not_mem {α : Type} (κ : α → St) (ν : PD β → α → β) (ps : List α) (d0 : PD β) (k : St)
    (h : k ∉ ps.map κ) : (ps.foldl (fun m p => m.set (κ p) (ν m p)) d0).get? k = d0.get? k := by
  induction ps generalizing d0 with
  | nil => rfl
  | cons p ps ih =>
    simp only [List.map_cons, List.mem_cons, not_or] at h
    simp only [List.foldl_cons]
    rw [ih _ h.2, get?_set_other _ _ _ _ h.1]

end PD

/-! ### first-occurrence de-duplication -/

theorem mem_dedup (l : List St) (x : St) : x ∈ dedup l ↔ x ∈ l := by
  induction l with
  | nil => simp [dedup]
  | cons y ys ih =>
    simp only [dedup, List.mem_cons, List.mem_filter, ih, decide_eq_true_eq]
    constructor
    · rintro (h | ⟨h, _⟩)
      · exact Or.inl h
      · exact Or.inr h
    · rintro (h | h)
      · exact Or.inl h
      · by_cases e : x = y
        · exact Or.inl e
        · exact Or.inr ⟨h, e⟩

theorem nodup_dedup (l : List St) : (dedup l).Nodup := by
  induction l with
  | nil => simp [dedup]
  | cons y ys ih =>
    simp only [dedup, List.nodup_cons, List.mem_filter, decide_eq_true_eq, not_and, not_not]
    exact ⟨fun _ => trivial |> fun _ => by simp, ih.filter _⟩

theorem dedup_of_nodup (l : List St) (h : l.Nodup) : dedup l = l := by
  induction l with
  | nil => rfl
  | cons y ys ih =>
    simp only [List.nodup_cons] at h
    simp only [dedup, ih h.2, List.cons.injEq, true_and]
    rw [List.filter_eq_self]
    intro a ha
    simp only [decide_eq_true_eq]
    intro e
    exact h.1 (e ▸ ha)

namespace PD
variable {β : Type}

theorem keys_foldl_set {α : Type} (κ : α → St) (ν : PD β → α → β) (ps : List α) (d0 : PD β) :
    (ps.foldl (fun m p => m.set (κ p) (ν m p)) d0).keys
      = d0.keys ++ (dedup (ps.map κ)).filter (fun k => decide (k ∉ d0.keys)) := by
  induction ps generalizing d0 with
  | nil => simp [dedup]
  | cons p ps ih =>
    simp only [List.foldl_cons, List.map_cons, dedup]
    rw [ih, keys_set]
    by_cases hk : κ p ∈ d0.keys
    · simp only [hk, if_true, List.filter_cons, not_true_eq_false, decide_false, Bool.false_eq_true,
        if_false, List.filter_filter]
      congr 1
      apply List.filter_congr
      intro x _
      by_cases hx : x ∈ d0.keys
      · simp [hx]
      · have : x ≠ κ p := fun e => hx (e ▸ hk)
        simp [hx, this]
    · simp only [hk, if_false, List.filter_cons, not_false_eq_true, decide_true, if_true,
        List.append_assoc, List.singleton_append, List.filter_filter]
      congr 2
      apply List.filter_congr
      intro x _
      simp only [List.mem_append, List.mem_singleton, not_or, Bool.decide_and, ne_eq, decide_not,
        Bool.and_comm]

theorem keys_ofPairs (ps : List (St × β)) : (ofPairs ps).keys = dedup (ps.map (·.1)) := by
  have := keys_foldl_set (β := β) (fun p : St × β => p.1) (fun _ p => p.2) ps []
  simp only [keys, List.map_nil, List.nil_append, List.not_mem_nil, not_false_eq_true, decide_true,
    List.filter_true] at this
  exact this

theorem nodup_keys_ofPairs (ps : List (St × β)) : (ofPairs ps).keys.Nodup := by
  rw [keys_ofPairs]; exact nodup_dedup _

/-- `dict(zip(ks, vs))[ks[i]] = vs[i]` when no later key repeats `ks[i]` (later value wins) -/
theorem get?_foldl_zip_last : ∀ (ks : List St) (vs : List β) (d0 : PD β) (i : Nat)
    (hi : i < ks.length) (hv : i < vs.length),
    (∀ i' (h' : i' < ks.length), i < i' → ks[i'] ≠ ks[i]) →
    ((ks.zip vs).foldl (fun d p => d.set p.1 p.2) d0).get? ks[i] = some vs[i]
  | [], _, _, _, hi, _, _ => by simp at hi
  | _ :: _, [], _, _, _, hv, _ => by simp at hv
  | k :: ks, v :: vs, d0, 0, _, _, hlast => by
    simp only [List.zip_cons_cons, List.foldl_cons, List.getElem_cons_zero]
    rw [get?_foldl_set_not_mem (fun p : St × β => p.1) (fun _ p => p.2)]
    · exact get?_set_self _ _ _
    · intro hmem
      simp only [List.mem_map] at hmem
      obtain ⟨p, hp, hpk⟩ := hmem
      have hk : k ∈ ks := by
        rw [← hpk]
        exact (List.of_mem_zip hp).1
      obtain ⟨j, hj, hjk⟩ := List.getElem_of_mem hk
      exact hlast (j + 1) (by simpa using hj) (by omega) (by simpa using hjk)
  | k :: ks, v :: vs, d0, i + 1, hi, hv, hlast => by
    simp only [List.zip_cons_cons, List.foldl_cons, List.getElem_cons_succ]
    exact get?_foldl_zip_last ks vs _ i (by simpa using hi) (by simpa using hv)
      (fun i' h' hlt => by
        have := hlast (i' + 1) (by simpa using h') (by omega)
        simpa using this)

theorem get?_ofPairs_zip_last (ks : List St) (vs : List β) (i : Nat) (hi : i < ks.length) (hv : i < vs.length)
    (hlast : ∀ i' (h' : i' < ks.length), i < i' → ks[i'] ≠ ks[i]) :
    (ofPairs (ks.zip vs)).get? ks[i] = some vs[i] :=
  get?_foldl_zip_last ks vs [] i hi hv hlast

theorem get?_ofPairs_zip_nodup (ks : List St) (vs : List β) (hn : ks.Nodup) (i : Nat) (hi : i < ks.length)
    (hv : i < vs.length) : (ofPairs (ks.zip vs)).get? ks[i] = some vs[i] :=
  get?_ofPairs_zip_last ks vs i hi hv (fun i' h' hlt e => by
    have := (List.Nodup.getElem_inj_iff hn).mp e
    omega)

/-- assigning fresh, pairwise distinct keys appends them in order -/
theorem foldl_set_append_of_nodup : ∀ (ps : List (St × β)) (d0 : PD β), (ps.map (·.1)).Nodup →
    (∀ p ∈ ps, p.1 ∉ d0.keys) → ps.foldl (fun d p => d.set p.1 p.2) d0 = d0 ++ ps := by
  intro ps
  induction ps with
  | nil => intro d0 _ _; simp
  | cons p ps ih =>
    intro d0 hnd hdis
    simp only [List.map_cons, List.nodup_cons] at hnd
    have hset : d0.set p.1 p.2 = d0 ++ [p] := by
      have hp := hdis p (by simp)
      clear ih hdis
      induction d0 with
      | nil => rfl
      | cons q d0 ih2 =>
        simp only [keys, List.map_cons, List.mem_cons, not_or] at hp
        simp only [set]
        split
        · rename_i e; exact absurd e.symm hp.1
        · rw [ih2 (by simpa [keys] using hp.2)]; rfl
    simp only [List.foldl_cons]
    rw [hset, ih (d0 ++ [p]) hnd.2]
    · simp
    · intro q hq
      simp only [keys, List.map_append, List.map_cons, List.map_nil, List.mem_append,
        List.mem_singleton, not_or]
      refine ⟨hdis q (by simp [hq]), ?_⟩
      intro e
      apply hnd.1
      rw [← e]
      exact List.mem_map_of_mem hq

/-- `dict(pairs)` of pairs with distinct keys is the pair list itself (order included) -/
theorem ofPairs_of_nodup (ps : List (St × β)) (hn : (ps.map (·.1)).Nodup) : ofPairs ps = ps := by
  have := foldl_set_append_of_nodup ps [] hn (by simp [keys])
  simpa [ofPairs] using this

/-- with distinct keys `dict(zip(ks, vs))` is the zipped list itself (order included) -/
theorem ofPairs_zip_nodup (ks : List St) (vs : List β) (hn : ks.Nodup) (hl : ks.length = vs.length) :
    ofPairs (ks.zip vs) = ks.zip vs :=
  ofPairs_of_nodup _ (by rw [List.map_fst_zip (by omega)]; exact hn)

theorem get?_map_vals {γ : Type} (φ : β → γ) (d : PD β) (k : St) :
    PD.get? (d.map fun p => (p.1, φ p.2)) k = (d.get? k).map φ := by
  induction d with
  | nil => rfl
  | cons p d ih =>
    obtain ⟨k', v'⟩ := p
    simp only [List.map_cons, get?_cons, ih]
    split <;> rfl

theorem mem_set_val (d : PD β) (k : St) (v : β) (q : St × β) (hq : q ∈ d.set k v) : q ∈ d ∨ q.2 = v := by
  induction d with
  | nil => simp only [set, List.mem_singleton] at hq; exact Or.inr (by rw [hq])
  | cons y ys ih =>
    simp only [set] at hq
    split at hq
    · rcases List.mem_cons.mp hq with h2 | h2
      · exact Or.inr (by rw [h2])
      · exact Or.inl (List.mem_cons_of_mem _ h2)
    · rcases List.mem_cons.mp hq with h2 | h2
      · exact Or.inl (by rw [h2]; simp)
      · rcases ih h2 with h3 | h3
        · exact Or.inl (List.mem_cons_of_mem _ h3)
        · exact Or.inr h3

/-- every value held by `dict(pairs)` is the value of one of the pairs -/
theorem mem_ofPairs_val (ps : List (St × β)) (q : St × β) (hq : q ∈ ofPairs ps) : ∃ p ∈ ps, q.2 = p.2 := by
  have key : ∀ (ps : List (St × β)) (d0 : PD β) q, q ∈ ps.foldl (fun d p => d.set p.1 p.2) d0 →
      q ∈ d0 ∨ ∃ p ∈ ps, q.2 = p.2 := by
    intro ps
    induction ps with
    | nil => intro d0 q hq; exact Or.inl hq
    | cons x xs ih =>
      intro d0 q hq
      simp only [List.foldl_cons] at hq
      rcases ih _ q hq with h1 | ⟨p, hp, h1⟩
      · rcases mem_set_val d0 x.1 x.2 q h1 with h2 | h2
        · exact Or.inl h2
        · exact Or.inr ⟨x, by simp, h2⟩
      · exact Or.inr ⟨p, by simp [hp], h1⟩
  rcases key ps [] q hq with h | h
  · simp at h
  · exact h

end PD

end LW.Res
