/-
  LW.Proofs.C02PassThrough — C02: invariants of the pass-through loop of `add`.
-/
import LW.Proofs.C02Swaps
namespace LW.Proofs.C02
variable {K : Type} [Zero K] [One K]

/-! ### the pass-through loop -/
structure SubInv (h : Nat) (st : Circ.AddSt K) : Prop where
  nodup : st.sub.inHer.keys.Nodup
  len : st.sub.inHer.length = h
  lt : ∀ k ∈ st.sub.inHer.keys, k < st.sub.n
  modes : ∀ comp ∈ st.spec, ∀ m ∈ comp.modes, m < st.sub.n

theorem SubInv.insert {h : Nat} {st : Circ.AddSt K} (inv : SubInv h st) (t : Nat) :
    SubInv h { sub := st.sub.addEmptyModeBook t, spec := Circ.addEmptyModeSpec st.spec t } := by
  have hb : (st.sub.addEmptyModeBook t).inHer = Dict.mapKeys (bump t) st.sub.inHer :=
    bumpDict_of_nodup inv.nodup
  refine ⟨?_, ?_, ?_, ?_⟩
  · show (st.sub.addEmptyModeBook t).inHer.keys.Nodup
    rw [hb, keys_mapKeys]
    exact nodup_map_of_inj (fun a b => bump_inj) inv.nodup
  · show (st.sub.addEmptyModeBook t).inHer.length = h
    rw [hb, length_mapKeys]; exact inv.len
  · show ∀ k ∈ (st.sub.addEmptyModeBook t).inHer.keys, k < st.sub.n + 1
    rw [hb, keys_mapKeys]
    intro k hk
    simp only [List.mem_map] at hk
    obtain ⟨a, ha, rfl⟩ := hk
    have := inv.lt a ha; have := bump_le_succ t a; omega
  · exact spec_addEmptyMode_lt t st.sub.n st.spec inv.modes

theorem ptStep_cases (mode : Nat) (st : Circ.AddSt K) (i : Nat) :
    (ptStep mode st i = st ∧
      ¬ (0 ≤ targetOf st.sub.inHer.keys ((i : Int) - (mode : Int)) ∧
          targetOf st.sub.inHer.keys ((i : Int) - (mode : Int)) < (st.sub.n : Int))) ∨
    (ptStep mode st i =
        { sub := st.sub.addEmptyModeBook (targetOf st.sub.inHer.keys ((i : Int) - (mode : Int))).toNat,
          spec := Circ.addEmptyModeSpec st.spec (targetOf st.sub.inHer.keys ((i : Int) - (mode : Int))).toNat } ∧
      (0 ≤ targetOf st.sub.inHer.keys ((i : Int) - (mode : Int)) ∧
          targetOf st.sub.inHer.keys ((i : Int) - (mode : Int)) < (st.sub.n : Int))) := by
  unfold ptStep
  simp only
  split
  · rename_i h; exact Or.inr ⟨rfl, h⟩
  · rename_i h; exact Or.inl ⟨rfl, h⟩

theorem SubInv.step {h : Nat} {st : Circ.AddSt K} (inv : SubInv h st) (mode i : Nat) :
    SubInv h (ptStep mode st i) := by
  rcases ptStep_cases mode st i with ⟨e, -⟩ | ⟨e, -⟩
  · rw [e]; exact inv
  · rw [e]; exact inv.insert _

theorem SubInv.fold {h : Nat} (mode : Nat) (l : List Nat) {st : Circ.AddSt K} (inv : SubInv h st) :
    SubInv h (l.foldl (ptStep mode) st) := by
  induction l generalizing st with
  | nil => exact inv
  | cons i t ih => exact ih (inv.step mode i)

omit [Zero K] [One K] in
/-- the sub-circuit actually inserted, and its group flag -/
theorem pick_props (sub : Circ K) (g : Bool) :
    (pick sub g).1.n = sub.n ∧ (pick sub g).1.inHer = sub.inHer ∧ (pick sub g).1.outHer = sub.outHer ∧
    (∀ n, (∀ c ∈ sub.spec, ∀ m ∈ c.modes, m < n) → ∀ c ∈ (pick sub g).1.spec, ∀ m ∈ c.modes, m < n) := by
  unfold pick
  simp only
  split
  · refine ⟨rfl, rfl, rfl, ?_⟩
    intro n h
    exact modes_unpackSpec_lt n sub.spec h
  · exact ⟨rfl, rfl, rfl, fun n h => h⟩

omit [Zero K] [One K] in
theorem swapSpec_modes (c : Circ K) (hin : ∀ k ∈ c.inHer.keys, k < c.n)
    (hout : ∀ k ∈ c.outHer.keys, k < c.n) (hm : ∀ x ∈ c.spec, ∀ m ∈ x.modes, m < c.n) :
    ∀ x ∈ swapSpec c, ∀ m ∈ x.modes, m < c.n := by
  unfold swapSpec
  simp only
  split
  · intro x hx m hmm
    rcases List.mem_append.mp hx with hx | hx
    · exact hm x hx m hmm
    · simp only [List.mem_singleton] at hx; subst hx
      have := synthSwaps_lt c.n (Dict.ofPairs (c.outHer.keys.zip c.inHer.keys))
        (nodup_keys_ofPairs _)
        (by
          intro x hx
          have := mem_keys_ofPairs.mp hx
          simp only [List.mem_map] at this
          obtain ⟨p, hp, rfl⟩ := this
          exact hout _ (List.of_mem_zip hp).1)
        (by
          intro x hx
          have := mem_vals_ofPairs hx
          simp only [List.mem_map] at this
          obtain ⟨p, hp, rfl⟩ := this
          exact hin _ (List.of_mem_zip hp).2)
      simp only [Comp.modes, Prim.modes, List.mem_append] at hmm
      rcases hmm with h | h
      · exact this.1 m h
      · exact this.2 m h
  · exact hm

omit [Zero K] [One K] in
theorem SubInv.init (sub : Circ K) (hsub : sub.WF) (g : Bool) :
    SubInv sub.inHer.length ⟨(pick sub g).1, swapSpec (pick sub g).1⟩ := by
  obtain ⟨h1, h2, h3, h4⟩ := pick_props sub g
  refine ⟨?_, ?_, ?_, ?_⟩
  · show (pick sub g).1.inHer.keys.Nodup
    rw [h2]; exact hsub.inNodup
  · show (pick sub g).1.inHer.length = _
    rw [h2]
  · show ∀ k ∈ (pick sub g).1.inHer.keys, k < (pick sub g).1.n
    rw [h1, h2]; exact hsub.inLt
  · show ∀ comp ∈ swapSpec (pick sub g).1, ∀ m ∈ comp.modes, m < (pick sub g).1.n
    apply swapSpec_modes
    · rw [h1, h2]; exact hsub.inLt
    · rw [h1, h3]; exact hsub.outLt
    · rw [h1]; exact h4 sub.n hsub.modesLt

end LW.Proofs.C02
