/-
  LW.Proofs.C14Main — `Reck.map` end to end: accepted, heralds carried over, well-formed spec
  (hence a unitary `U_full` for every valid error model), and `U` equal to the original for the
  default error model.
-/
import LW.Proofs.C14Api

open Matrix

namespace LW

/-- on exact inputs the two tolerance checks of `reck_decomposition` accept what they are meant to
accept: a unitary matrix, a matrix whose off-diagonal entries vanish -/
structure Reck.ChecksOk {K : Type} [CommRing K] [StarRing K] (N : Reck.Num K) : Prop where
  unitary_accepts : ∀ V : M K, V.toMatN V.n ∈ Matrix.unitaryGroup (Fin V.n) K → N.isUnitary V = true
  null_accepts : ∀ V : M K, (∀ r k : Fin V.n, r ≠ k → V.toMatN V.n r k = 0) → N.isNull V = true

/-- the values an error model returns are valid component parameters: reflectivities and losses
as real `(cos, sin)` pairs, phase offsets on the unit circle -/
structure Reck.EMOk {K : Type} [CommRing K] [StarRing K] (em : Reck.EM K) : Prop where
  bs1 : ∀ a j, star (em.bs1 a j).1 = (em.bs1 a j).1 ∧ star (em.bs1 a j).2 = (em.bs1 a j).2 ∧
    (em.bs1 a j).1 * (em.bs1 a j).1 + (em.bs1 a j).2 * (em.bs1 a j).2 = 1
  bs2 : ∀ a j, star (em.bs2 a j).1 = (em.bs2 a j).1 ∧ star (em.bs2 a j).2 = (em.bs2 a j).2 ∧
    (em.bs2 a j).1 * (em.bs2 a j).1 + (em.bs2 a j).2 * (em.bs2 a j).2 = 1
  loss : ∀ a j la lb, em.loss a j = some (la, lb) →
    star la = la ∧ star lb = lb ∧ la * la + lb * lb = 1
  offTheta : ∀ a j, em.offTheta a j * star (em.offTheta a j) = 1
  offPhi : ∀ a j, em.offPhi a j * star (em.offPhi a j) = 1
  offEnd : ∀ k, em.offEnd k * star (em.offEnd k) = 1
  flags : ∀ a j, em.refl1Ok a j = true ∧ em.refl2Ok a j = true ∧ em.lossOk a j = true

end LW

namespace LW.Proofs.C14

open LW.Reck LW.Proofs.C01Aux

variable {K : Type} [CommRing K] [StarRing K]

set_option linter.unusedSectionVars false

theorem w_unit {i : K} (hi : IsImagUnit i) {x : Cell K} (hx : CellOk i x) : x.w * star x.w = 1 := by
  rw [hx.w_def, star_add, star_mul', hi.star, hx.c_real, hx.s_real]
  linear_combination (-(x.s * x.s)) * hi.sq + hx.norm

theorem unit_mul {p o : K} (hp : p * star p = 1) (ho : o * star o = 1) :
    (p * o) * star (p * o) = 1 := by
  rw [star_mul']
  linear_combination (o * star o) * hp + ho

theorem EMOk_ideal {h : K} (hh : 2 * (h * h) = 1) (hhr : star h = h) : EMOk (EM.ideal h) := by
  refine ⟨fun _ _ => ⟨hhr, hhr, ?_⟩, fun _ _ => ⟨hhr, hhr, ?_⟩, ?_, ?_, ?_, ?_, ?_⟩
  · simp only [EM.ideal]; linear_combination hh
  · simp only [EM.ideal]; linear_combination hh
  · intro a j la lb h; simp [EM.ideal] at h
  · intro a j; simp [EM.ideal]
  · intro a j; simp [EM.ideal]
  · intro k; simp [EM.ideal]
  · intro a j; exact ⟨rfl, rfl, rfl⟩

theorem cellSpec_wf {i : K} (hi : IsImagUnit i) {em : EM K} (hem : EMOk em) {n j : Nat}
    (hj : j + 1 < n) {x : Cell K} (hx : CellOk i x) (a : Nat) : SpecWf n (cellSpec em n x a j) := by
  have hm1 : n - j - 2 < n := by omega
  have hm2 : n - j - 2 + 1 < n := by omega
  obtain ⟨b11, b12, b13⟩ := hem.bs1 a j
  obtain ⟨b21, b22, b23⟩ := hem.bs2 a j
  unfold cellSpec
  apply specWf_append
  · intro c hc
    simp only [List.mem_cons, List.not_mem_nil, or_false] at hc
    rcases hc with rfl | rfl | rfl | rfl | rfl
    · intro m hm; simp at hm; omega
    · exact ⟨hm2, unit_mul hx.p_unit (hem.offPhi a j)⟩
    · exact ⟨hm1, hm2, by omega, b11, b12, b13⟩
    · exact ⟨hm1, unit_mul (unit_mul (w_unit hi hx) (w_unit hi hx)) (hem.offTheta a j)⟩
    · exact ⟨hm1, hm2, by omega, b21, b22, b23⟩
  · cases hl : em.loss a j with
    | none => intro c hc; cases hc
    | some ab =>
      obtain ⟨la, lb⟩ := ab
      obtain ⟨l1, l2, l3⟩ := hem.loss a j la lb hl
      intro c hc
      simp only [List.mem_cons, List.not_mem_nil, or_false] at hc
      rcases hc with rfl | rfl
      · exact ⟨hm1, l1, l2, l3⟩
      · exact ⟨hm2, l1, l2, l3⟩

theorem mapSpec_wf {i : K} (hi : IsImagUnit i) {em : EM K} (hem : EMOk em) {n : Nat}
    (cs : List ((Nat × Nat) × Cell K)) (hcs : ∀ e ∈ cs, e.1.2 + 1 < n ∧ CellOk i e.2)
    (ends : List K) (hends : ∀ k, k < n → ends.getD k 1 * star (ends.getD k 1) = 1) :
    SpecWf n (mapSpec em n cs ends) := by
  unfold mapSpec
  apply specWf_append
  · apply specWf_append
    · intro c hc
      obtain ⟨e, he, hce⟩ := List.mem_flatMap.mp hc
      exact cellSpec_wf hi hem (hcs e he).1 (hcs e he).2 e.1.1 c hce
    · apply specWf_single
      intro m hm
      exact List.mem_range.mp hm
  · intro c hc
    obtain ⟨k, hk, rfl⟩ := List.mem_map.mp hc
    have hk := List.mem_range.mp hk
    exact ⟨by omega, unit_mul (hends k hk) (hem.offEnd k)⟩

/-- the settings of the cells used by the loop are all valid -/
theorem cells_ok {i : K} (hi : IsImagUnit i) {N : Num K} (hN : NumOk i N) {n : Nat} (W : M K)
    (e : (Nat × Nat) × Cell K) (he : e ∈ (steps n).zip (cellsGo N i (steps n) W)) :
    e.1.2 + 1 < n ∧ CellOk i e.2 := by
  have h1 := mem_steps (List.of_mem_zip he).1
  have hmem := (List.of_mem_zip he).2
  refine ⟨h1, ?_⟩
  clear he h1
  revert hmem
  generalize steps n = l
  intro hmem
  induction l generalizing W with
  | nil => simp [cellsGo] at hmem
  | cons aj rest ih =>
    simp only [cellsGo, List.mem_cons] at hmem
    rcases hmem with hm | hmem
    · rw [hm]; exact stepCell_ok hi hN W aj.1 aj.2
    · exact ih _ hmem

/-- **`Reck.map` is accepted and builds `mapSpec` with the original's heralds**, for every valid
error model -/
theorem map_ok {i : K} (hi : IsImagUnit i) {N : Num K} (hN : NumOk i N) (hC : ChecksOk N)
    {em : EM K} (hem : EMOk em) (src : Src K) (hn : src.U.n = src.n)
    (hU : src.U.toMatN src.n ∈ Matrix.unitaryGroup (Fin src.n) K)
    (hH : HeraldsOk src.n src.inHer src.outHer) :
    ∃ c', map N em i src = .ok c' ∧ c'.n = src.n ∧ c'.internal = [] ∧
      c'.inHer = src.inHer ∧ c'.outHer = src.outHer ∧
      c'.spec = mapSpec em src.n ((steps src.n).zip (cellsGo N i (steps src.n) (flip src.U)))
        ((List.range src.n).map fun k =>
          N.ang ((finalGo N i (steps src.n) (flip src.U)).get k k)) := by
  obtain ⟨n, U, inH, outH⟩ := src
  simp only at hn hU hH ⊢
  subst hn
  have hW : (flip U).n = U.n := rfl
  have hWu : (flip U).toMatN U.n ∈ Matrix.unitaryGroup (Fin U.n) K := by
    rw [toMatN_flip U rfl]; exact Rev_unitary hU
  obtain ⟨_, h2, h3⟩ := decomp_facts hi hN (flip U) hW hWu
  have hfn : (finalGo N i (steps U.n) (flip U)).n = U.n := by rw [finalGo_n]; exact hW
  -- the decomposition succeeds
  have hdec : reckDecomposition N i (flip U) =
      .ok (((steps U.n).zip (cellsGo N i (steps U.n) (flip U))).map keyed,
        (List.range U.n).map fun k => N.ang ((finalGo N i (steps U.n) (flip U)).get k k)) := by
    unfold reckDecomposition decompLoop
    rw [hC.unitary_accepts (flip U) hWu, foldl_decompStep]
    have : N.isNull (finalGo N i (steps U.n) (flip U)) = true := by
      apply hC.null_accepts
      rw [hfn]
      exact h2
    simp only [hW, this]
    simp
  set fin := finalGo N i (steps U.n) (flip U) with hfin
  set cs := (steps U.n).zip (cellsGo N i (steps U.n) (flip U)) with hcsdef
  have hlen : (steps U.n).length ≤ (cellsGo N i (steps U.n) (flip U)).length := by
    rw [cellsGo_length]
  have hsteps : steps U.n = cs.map Prod.fst := (List.map_fst_zip hlen).symm
  have hcs : ∀ e ∈ cs, e.1.2 + 1 < U.n ∧ lookup (cs.map keyed) (keyed e).1 = .ok e.2 := by
    intro e he
    exact ⟨(cells_ok hi hN (flip U) e he).1, lookup_zip cs (keys_nodup U.n _ hlen) e he⟩
  unfold Reck.map
  simp only [hdec, bind, Except.bind]
  rw [show steps U.n = cs.map Prod.fst from hsteps,
    foldlM_mapCell em hem.flags (cs.map keyed) cs hcs (Circ.new U.n) rfl rfl]
  simp only
  rw [barrier_none_ok (by rfl)]
  simp only
  rw [foldlM_mapEnd em _ (by simp) U.n (le_refl _) _ rfl rfl]
  simp only
  have hl : (inH.length != outH.length) = false := by simp [hH.len]
  simp only [hl]
  obtain ⟨c', hc1, hc2, hc3, hc4, hc5, hc6⟩ := foldlM_mapHerald (n := U.n) inH outH
    { (Circ.new U.n : Circ K) with
      spec := ((Circ.new U.n : Circ K).spec ++ cs.flatMap fun e => cellSpec em U.n e.2 e.1.1 e.1.2) ++
        [Comp.prim (Prim.barrier (List.range U.n))] ++
        (List.range U.n).map (fun k => Comp.prim (Prim.ps (U.n - k - 1)
          (((List.range U.n).map fun k => N.ang (fin.get k k)).getD k 1 * em.offEnd k))) }
    rfl rfl hH.len hH.counts (by simpa [Circ.new, Dict.keys] using hH.in_nodup)
    (by simpa [Circ.new, Dict.keys] using hH.out_nodup) hH.in_lt hH.out_lt
  refine ⟨c', ?_, hc2, hc4, ?_, ?_, ?_⟩
  · simpa [throw, throwThe, MonadExceptOf.throw, Circ.new] using hc1
  · rw [hc5]; simp [Circ.new]
  · rw [hc6]; simp [Circ.new]
  · rw [hc3]; simp [Circ.new, mapSpec]

/-- residual phases handed to the phase shifters are on the unit circle -/
theorem ends_unit {i : K} (hi : IsImagUnit i) {N : Num K} (hN : NumOk i N) (U : M K)
    (hU : U.toMatN U.n ∈ Matrix.unitaryGroup (Fin U.n) K) (k : Nat) (hk : k < U.n) :
    ((List.range U.n).map fun k => N.ang ((finalGo N i (steps U.n) (flip U)).get k k)).getD k 1 *
      star (((List.range U.n).map fun k =>
        N.ang ((finalGo N i (steps U.n) (flip U)).get k k)).getD k 1) = 1 := by
  have hW : (flip U).n = U.n := rfl
  have hWu : (flip U).toMatN U.n ∈ Matrix.unitaryGroup (Fin U.n) K := by
    rw [toMatN_flip U rfl]; exact Rev_unitary hU
  obtain ⟨_, _, h3⟩ := decomp_facts hi hN (flip U) hW hWu
  have e : ((List.range U.n).map fun k =>
      N.ang ((finalGo N i (steps U.n) (flip U)).get k k)).getD k 1 =
      N.ang ((finalGo N i (steps U.n) (flip U)).get k k) := by
    simp [List.getD_eq_getElem?_getD, hk]
  have h : (finalGo N i (steps U.n) (flip U)).get k k *
      star ((finalGo N i (steps U.n) (flip U)).get k k) = 1 := h3 ⟨k, hk⟩
  rw [e, hN.ang_unit _ h]
  exact h

/-- for every valid error model the mapped circuit is a valid circuit: `U_full` is unitary and the
heralds are those of the original -/
theorem map_valid {i : K} (hi : IsImagUnit i) {N : Num K} (hN : NumOk i N) (hC : ChecksOk N)
    {em : EM K} (hem : EMOk em) (src : Src K) (hn : src.U.n = src.n)
    (hU : src.U.toMatN src.n ∈ Matrix.unitaryGroup (Fin src.n) K)
    (hH : HeraldsOk src.n src.inHer src.outHer) :
    ∃ c', Reck.map N em i src = .ok c' ∧ c'.n = src.n ∧ c'.inHer = src.inHer ∧
      c'.outHer = src.outHer ∧ SpecWf c'.n c'.spec ∧ IsUnitary (c'.Ufull i) := by
  obtain ⟨c', h1, h2, _, h4, h5, h6⟩ := map_ok hi hN hC hem src hn hU hH
  obtain ⟨n, U, inH, outH⟩ := src
  simp only at hn hU hH h1 h2 h4 h5 h6
  subst hn
  have hwf : SpecWf c'.n c'.spec := by
    rw [h2, h6]
    exact mapSpec_wf hi hem _ (fun e he => cells_ok hi hN (flip U) e he) _
      (fun k hk => ends_unit hi hN U hU k hk)
  exact ⟨c', h1, h2, h4, h5, hwf, LW.Proofs.C01.Ufull_unitary i hi c'.n c'.spec hwf⟩

/-- **with the default error model the mapped circuit implements the original matrix** -/
theorem map_U_eq {i h : K} (hi : IsImagUnit i) (hh : 2 * (h * h) = 1) (hhr : star h = h)
    {N : Num K} (hN : NumOk i N) (hC : ChecksOk N) (src : Src K) (hn : src.U.n = src.n)
    (hU : src.U.toMatN src.n ∈ Matrix.unitaryGroup (Fin src.n) K)
    (hH : HeraldsOk src.n src.inHer src.outHer) :
    ∃ c', Reck.map N (EM.ideal h) i src = .ok c' ∧ c'.n = src.n ∧ c'.inHer = src.inHer ∧
      c'.outHer = src.outHer ∧
      ∀ r k, r < src.n → k < src.n → (c'.U i).get r k = src.U.get r k := by
  have hem := EMOk_ideal hh hhr
  obtain ⟨c', h1, h2, _, h4, h5, h6⟩ := map_ok hi hN hC hem src hn hU hH
  obtain ⟨n, U, inH, outH⟩ := src
  simp only at hn hU hH h1 h2 h4 h5 h6
  subst hn
  have hwf : SpecWf c'.n c'.spec := by
    rw [h2, h6]
    exact mapSpec_wf hi hem _ (fun e he => cells_ok hi hN (flip U) e he) _
      (fun k hk => ends_unit hi hN U hU k hk)
  refine ⟨c', h1, h2, h4, h5, fun r k hr hk => ?_⟩
  have hUeq : c'.U i = orderedProd i c'.n (flattenSpec c'.spec) :=
    LW.Proofs.C01.U_eq_orderedProd i c'.n c'.spec hwf
  have hm : (c'.U i).toMatN U.n = U.toMatN U.n := by
    rw [hUeq, h2, toMatN_orderedProd, h6]
    exact mapSpec_prodMat hi hh hN U rfl hU
  exact congrFun (congrFun hm ⟨r, hr⟩) ⟨k, hk⟩

/-- a matrix the unitarity check refuses (a lossy circuit) is rejected with `ValueError` -/
theorem map_rejects {N : Num K} (em : EM K) (i : K) (src : Src K)
    (h : N.isUnitary (flip src.U) = false) : Reck.map N em i src = .error .value := by
  unfold Reck.map reckDecomposition
  simp [h, bind, Except.bind]

end LW.Proofs.C14
