/-
  C07 helper: the exact detector kernel (binomial thinning, dark count, threshold, merge).
-/
import Mathlib.Data.Nat.Choose.Sum
import LW.Proofs.C07Merge

set_option linter.unusedSimpArgs false

namespace LW.Proofs.C07

theorem binom_eq_choose (n k : Nat) : binom n k = Nat.choose n k := by
  induction n generalizing k with
  | zero => cases k <;> simp [binom]
  | succ n ih =>
    cases k with
    | zero => simp [binom]
    | succ k => simp [binom, ih, Nat.choose_succ_succ]

theorem list_range_map_sum (f : Nat → Rat) (n : Nat) :
    ((List.range n).map f).sum = ∑ k ∈ Finset.range n, f k := by
  induction n with
  | zero => simp
  | succ n ih => rw [List.sum_range_succ, Finset.sum_range_succ, ih]

/-- thinning stage -/
def thinL (d : Det) (n : Nat) : List (Nat × Rat) :=
  (List.range (n + 1)).map fun k => (k, (binom n k : Rat) * d.eta ^ k * (1 - d.eta) ^ (n - k))

/-- dark-count stage -/
def darkL (d : Det) (n : Nat) : List (Nat × Rat) :=
  (thinL d n).flatMap fun kp => [(kp.1, kp.2 * (1 - d.pDark)), (kp.1 + 1, kp.2 * d.pDark)]

/-- threshold stage -/
def thrL (d : Det) (n : Nat) : List (Nat × Rat) :=
  if d.pnr then darkL d n else (darkL d n).map fun kp => (if kp.1 ≥ 1 then 1 else 0, kp.2)

theorem modeKernel_eq (d : Det) (n : Nat) : modeKernel d n = (thrL d n).foldl mergeStep [] := rfl


/-! ### totals -/

theorem thinL_sum (d : Det) (n : Nat) : ((thinL d n).map (·.2)).sum = 1 := by
  unfold thinL
  rw [List.map_map]
  show ((List.range (n + 1)).map fun k =>
    (binom n k : Rat) * d.eta ^ k * (1 - d.eta) ^ (n - k)).sum = 1
  rw [list_range_map_sum]
  have h := add_pow d.eta (1 - d.eta) n
  have h1 : d.eta + (1 - d.eta) = 1 := by ring
  rw [h1, one_pow] at h
  refine Eq.trans ?_ h.symm
  apply Finset.sum_congr rfl
  intro k _
  rw [binom_eq_choose]; ring

theorem dark_sum (l : List (Nat × Rat)) (q : Rat) :
    ((l.flatMap fun kp => [(kp.1, kp.2 * (1 - q)), (kp.1 + 1, kp.2 * q)]).map (·.2)).sum =
      (l.map (·.2)).sum := by
  induction l with
  | nil => simp
  | cons x l ih =>
    rw [List.flatMap_cons, List.map_append, List.sum_append, ih]
    simp
    ring

theorem darkL_sum (d : Det) (n : Nat) : ((darkL d n).map (·.2)).sum = 1 := by
  unfold darkL; rw [dark_sum, thinL_sum]

theorem thrL_sum (d : Det) (n : Nat) : ((thrL d n).map (·.2)).sum = 1 := by
  unfold thrL
  split
  · exact darkL_sum d n
  · rw [List.map_map]; exact darkL_sum d n

theorem modeKernel_sum (d : Det) (n : Nat) : ((modeKernel d n).map (·.2)).sum = 1 := by
  rw [modeKernel_eq, sum_foldl_mergeStep _ _ (by simp), thrL_sum]; simp

/-! ### signs -/

theorem thinL_nonneg (d : Det) (h0 : 0 ≤ d.eta) (h1 : d.eta ≤ 1) (n : Nat) :
    ∀ x ∈ thinL d n, 0 ≤ x.2 := by
  intro x hx
  unfold thinL at hx
  rw [List.mem_map] at hx
  obtain ⟨k, _, rfl⟩ := hx
  have : (0 : Rat) ≤ 1 - d.eta := by linarith
  positivity

theorem darkL_nonneg (d : Det) (h0 : 0 ≤ d.eta) (h1 : d.eta ≤ 1) (h2 : 0 ≤ d.pDark)
    (h3 : d.pDark ≤ 1) (n : Nat) : ∀ x ∈ darkL d n, 0 ≤ x.2 := by
  intro x hx
  unfold darkL at hx
  rw [List.mem_flatMap] at hx
  obtain ⟨kp, hkp, hx⟩ := hx
  have hp := thinL_nonneg d h0 h1 n kp hkp
  have : (0 : Rat) ≤ 1 - d.pDark := by linarith
  simp only [List.mem_cons, List.not_mem_nil, or_false] at hx
  rcases hx with rfl | rfl
  · exact mul_nonneg hp this
  · exact mul_nonneg hp h2

theorem thrL_nonneg (d : Det) (h0 : 0 ≤ d.eta) (h1 : d.eta ≤ 1) (h2 : 0 ≤ d.pDark)
    (h3 : d.pDark ≤ 1) (n : Nat) : ∀ x ∈ thrL d n, 0 ≤ x.2 := by
  unfold thrL
  split
  · exact darkL_nonneg d h0 h1 h2 h3 n
  · intro x hx
    rw [List.mem_map] at hx
    obtain ⟨y, hy, rfl⟩ := hx
    exact darkL_nonneg d h0 h1 h2 h3 n y hy

theorem modeKernel_nonneg (d : Det) (h0 : 0 ≤ d.eta) (h1 : d.eta ≤ 1) (h2 : 0 ≤ d.pDark)
    (h3 : d.pDark ≤ 1) (n : Nat) : ∀ x ∈ modeKernel d n, 0 ≤ x.2 := by
  rw [modeKernel_eq]
  exact nonneg_foldl_mergeStep _ _ (by simp) (thrL_nonneg d h0 h1 h2 h3 n)

/-! ### product over modes -/

theorem sum_map_scale {γ δ : Type} (r : List (γ × Rat)) (c : γ → δ) (p : Rat) :
    ((r.map fun tq => (c tq.1, p * tq.2)).map (·.2)).sum = p * (r.map (·.2)).sum := by
  induction r with
  | nil => simp
  | cons y r ihr =>
    simp only [List.map_cons, List.sum_cons] at ihr ⊢
    rw [ihr]; ring

theorem sum_flatMap_prod {β γ : Type} (l : List (β × Rat)) (r : List (γ × Rat)) {δ : Type}
    (c : β → γ → δ) :
    ((l.flatMap fun kp => r.map fun tq => (c kp.1 tq.1, kp.2 * tq.2)).map (·.2)).sum =
      (l.map (·.2)).sum * (r.map (·.2)).sum := by
  induction l with
  | nil => simp
  | cons x l ih =>
    rw [List.flatMap_cons, List.map_append, List.sum_append, ih, List.map_cons, List.sum_cons,
      sum_map_scale r (c x.1) x.2, add_mul]

theorem detectorKernel_cons (d : Det) (n : Nat) (rest : FState) :
    detectorKernel d (n :: rest) =
      (modeKernel d n).flatMap fun kp =>
        (detectorKernel d rest).map fun tq => (kp.1 :: tq.1, kp.2 * tq.2) := rfl

theorem detectorKernel_sum_one (d : Det) (s : FState) :
    ((detectorKernel d s).map (·.2)).sum = 1 := by
  induction s with
  | nil => simp [detectorKernel]
  | cons n rest ih =>
    rw [detectorKernel_cons, sum_flatMap_prod (modeKernel d n) (detectorKernel d rest) List.cons,
      ih, modeKernel_sum]
    norm_num

theorem detectorKernel_nonneg (d : Det) (h0 : 0 ≤ d.eta) (h1 : d.eta ≤ 1) (h2 : 0 ≤ d.pDark)
    (h3 : d.pDark ≤ 1) (s : FState) : ∀ x ∈ detectorKernel d s, 0 ≤ x.2 := by
  induction s with
  | nil => intro x hx; simp [detectorKernel] at hx; subst hx; norm_num
  | cons n rest ih =>
    intro x hx
    rw [detectorKernel_cons, List.mem_flatMap] at hx
    obtain ⟨kp, hkp, hx⟩ := hx
    rw [List.mem_map] at hx
    obtain ⟨tq, htq, rfl⟩ := hx
    exact mul_nonneg (modeKernel_nonneg d h0 h1 h2 h3 n kp hkp) (ih tq htq)

/-! ### closed form of one mode -/

theorem filter_map_key (l : List (Nat × Rat)) (t : Nat → Nat) (k : Nat) :
    (((l.map fun kp => (t kp.1, kp.2)).filter (·.1 == k)).map (·.2)) =
      (l.filter (fun x => t x.1 == k)).map (·.2) := by
  induction l with
  | nil => rfl
  | cons x l ih =>
    simp only [List.map_cons, List.filter_cons]
    by_cases h : t x.1 == k
    · simp only [h, if_true, List.map_cons, ih]
    · simp only [h, if_false, ih, Bool.false_eq_true]

theorem modeKernel_closed_form (d : Det) (n k : Nat) :
    (((modeKernel d n).find? (·.1 == k)).map (·.2)).getD 0 =
      ((((List.range (n + 1)).flatMap fun j =>
          let p : Rat := (binom n j : Rat) * d.eta ^ j * (1 - d.eta) ^ (n - j)
          [(j, p * (1 - d.pDark)), (j + 1, p * d.pDark)]).filter
        (fun x => (if d.pnr then x.1 else min x.1 1) == k)).map (·.2)).sum := by
  have hdark : ((List.range (n + 1)).flatMap fun j =>
          let p : Rat := (binom n j : Rat) * d.eta ^ j * (1 - d.eta) ^ (n - j)
          [(j, p * (1 - d.pDark)), (j + 1, p * d.pDark)]) = darkL d n := by
    unfold darkL thinL
    rw [List.flatMap_map]
  rw [hdark]
  show lookup (modeKernel d n) k = _
  rw [modeKernel_eq, lookup_foldl_mergeStep, lookup_nil, zero_add]
  unfold thrL
  cases hp : d.pnr
  · simp only [Bool.false_eq_true, if_false]
    rw [filter_map_key (darkL d n) (fun c => if c ≥ 1 then 1 else 0) k]
    congr 2
    apply List.filter_congr
    intro x _
    congr 1
    by_cases h : x.1 ≥ 1
    · simp [h]
    · simp [h]; omega
  · simp

end LW.Proofs.C07
