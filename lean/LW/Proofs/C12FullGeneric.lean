/-
  LW.Proofs.C12FullGeneric — facts shared by all non-swap instructions, for a sub-circuit `U` of
  dimension `2·|Q| + h` placed on distinct qubits `Q < nq` with heralds from `P ≥ 2·nq` on:
  non-user modes outside the heralds are untouched, the photon numbers of the other qubits are
  unchanged, the photons on `Q` are conserved, and the amplitude between dual-rail states is 0
  when the bit strings differ outside `Q` and the sub-circuit's local amplitude otherwise.
-/
import LW.Proofs.C12FullLocal

open MvPolynomial

namespace LW.C12F

open LW LW.QC LW.Gates LW.QF LW.Proofs.C02Sem

variable {R : Type} [CommRing R]

/-! ### dual-rail states, mode by mode -/

theorem mk_dualRail_even {nq : ℕ} {b : List Bool} (hb : b.length = nq) {η : ℕ →₀ ℕ}
    (hη : ∀ z ∈ η.support, 2 * nq ≤ z) {q : ℕ} (hq : q < nq) :
    mk (dualRail b) η (2 * q) = if getBit b q = false then 1 else 0 := by
  have hl : (dualRail b).length = 2 * nq := by rw [dualRail_length, hb]
  rw [mk_apply_lt (by rw [hl]; exact hη) (by omega), dualRail_getD_even]
  simp [hb, hq]

theorem mk_dualRail_odd {nq : ℕ} {b : List Bool} (hb : b.length = nq) {η : ℕ →₀ ℕ}
    (hη : ∀ z ∈ η.support, 2 * nq ≤ z) {q : ℕ} (hq : q < nq) :
    mk (dualRail b) η (2 * q + 1) = if getBit b q = true then 1 else 0 := by
  have hl : (dualRail b).length = 2 * nq := by rw [dualRail_length, hb]
  rw [mk_apply_lt (by rw [hl]; exact hη) (by omega), dualRail_getD_odd]
  simp [hb, hq]

/-- two dual-rail states with the same herald part agree on the modes of a qubit where the bit
strings agree -/
theorem mk_dualRail_agree {nq : ℕ} {b b' : List Bool} (hb : b.length = nq) (hb' : b'.length = nq)
    {η : ℕ →₀ ℕ} (hη : ∀ z ∈ η.support, 2 * nq ≤ z) {z : ℕ} (hz : z < 2 * nq)
    (h : getBit b' (z / 2) = getBit b (z / 2)) : mk (dualRail b') η z = mk (dualRail b) η z := by
  have hq : z / 2 < nq := by omega
  rcases Nat.mod_two_eq_zero_or_one z with h0 | h1
  · have e : z = 2 * (z / 2) := by omega
    rw [e, mk_dualRail_even hb hη hq, mk_dualRail_even hb' hη hq, h]
  · have e : z = 2 * (z / 2) + 1 := by omega
    rw [e, mk_dualRail_odd hb hη hq, mk_dualRail_odd hb' hη hq, h]

theorem mk_dualRail_differ {nq : ℕ} {b b' : List Bool} (hb : b.length = nq) (hb' : b'.length = nq)
    {η : ℕ →₀ ℕ} (hη : ∀ z ∈ η.support, 2 * nq ≤ z) {q : ℕ} (hq : q < nq)
    (h : getBit b' q ≠ getBit b q) : mk (dualRail b') η (2 * q) ≠ mk (dualRail b) η (2 * q) := by
  rw [mk_dualRail_even hb hη hq, mk_dualRail_even hb' hη hq]
  cases h1 : getBit b' q <;> cases h2 : getBit b q <;> simp_all

theorem cfgN_lt {nq : ℕ} (s : ℕ →₀ ℕ) {q : ℕ} (hq : q < nq) :
    cfgN nq s q = s (2 * q) + s (2 * q + 1) := by
  unfold cfgN; rw [if_pos hq]

section generic

variable (nq : ℕ) (Q : List ℕ) (P h : ℕ) (U : ℕ → ℕ → R) (hnd : Q.Nodup)
  (hQlt : ∀ q ∈ Q, q < nq) (hP : 2 * nq ≤ P)

include hnd hQlt hP

theorem gen_hlt : ∀ q ∈ Q, 2 * q + 1 < P := by
  intro q hq
  have := hQlt q hq
  omega

theorem gen_touch {z : ℕ} (hz : 2 * nq ≤ z) (hz2 : ¬ (P ≤ z ∧ z < P + h)) :
    Pres (wtP (· = z)) (placeHomG (homOf U (2 * Q.length + h)) (fwdQ Q P) (invQ Q P) (P + h)) := by
  apply place_pres_outside Q P h U hnd (gen_hlt nq Q P hnd hQlt hP) _ hz2
  rintro ⟨hm, _⟩
  have := hQlt _ hm
  omega

theorem gen_cfg_outside {w s : ℕ →₀ ℕ}
    (hne : amp (placeHomG (homOf U (2 * Q.length + h)) (fwdQ Q P) (invQ Q P) (P + h)) w s ≠ 0)
    {q : ℕ} (hq : q ∉ Q) : cfgN nq w q = cfgN nq s q := by
  have hlt := gen_hlt nq Q P hnd hQlt hP
  unfold cfgN
  by_cases hqn : q < nq
  · rw [if_pos hqn, if_pos hqn]
    have h1 := place_outside Q P h U hnd hlt hne (z := 2 * q)
      (by rintro ⟨hm, _⟩; apply hq; have e : 2 * q / 2 = q := by omega
          rwa [e] at hm) (by omega)
    have h2 := place_outside Q P h U hnd hlt hne (z := 2 * q + 1)
      (by rintro ⟨hm, _⟩; apply hq; have e : (2 * q + 1) / 2 = q := by omega
          rwa [e] at hm) (by omega)
    rw [h1, h2]
  · rw [if_neg hqn, if_neg hqn]

theorem gen_cfg_sum {H : List ℕ} (hH : H.length = h) {w s : ℕ →₀ ℕ}
    (hne : amp (placeHomG (homOf U (2 * Q.length + h)) (fwdQ Q P) (invQ Q P) (P + h)) w s ≠ 0)
    (hw : HerAt P H w) (hs : HerAt P H s) :
    (Q.map (cfgN nq w)).sum = (Q.map (cfgN nq s)).sum := by
  have hlt := gen_hlt nq Q P hnd hQlt hP
  have := place_sum Q P h U hnd hlt hH hne hw hs
  have e : ∀ t : ℕ →₀ ℕ, Q.map (cfgN nq t) = Q.map fun q => t (2 * q) + t (2 * q + 1) := by
    intro t
    apply List.map_congr_left
    intro q hq
    exact cfgN_lt t (hQlt q hq)
  rw [e w, e s]
  exact this

/-- the amplitude between dual-rail states vanishes when the bit strings differ outside `Q` -/
theorem gen_table_zero {ib mid : List Bool} (hib : ib.length = nq) (hmid : mid.length = nq)
    {η : ℕ →₀ ℕ} (hη : ∀ z ∈ η.support, 2 * nq ≤ z) {q : ℕ} (hq : q < nq) (hqQ : q ∉ Q)
    (hdiff : getBit mid q ≠ getBit ib q) :
    amp (placeHomG (homOf U (2 * Q.length + h)) (fwdQ Q P) (invQ Q P) (P + h))
      (mk (dualRail mid) η) (mk (dualRail ib) η) = 0 := by
  have hlt := gen_hlt nq Q P hnd hQlt hP
  by_contra hne
  have h1 := place_outside Q P h U hnd hlt hne (z := 2 * q)
    (by rintro ⟨hm, _⟩; apply hqQ; have e : 2 * q / 2 = q := by omega
        rwa [e] at hm) (by omega)
  exact mk_dualRail_differ hib hmid hη hq hdiff h1

/-- … and is the local amplitude of the sub-circuit when they agree outside `Q` -/
theorem gen_table_local {H : List ℕ} (hH : H.length = h) {ib mid : List Bool}
    (hib : ib.length = nq) (hmid : mid.length = nq) {η : ℕ →₀ ℕ}
    (hη : ∀ z ∈ η.support, 2 * nq ≤ z) (hher : HerAt P H η)
    (hag : ∀ q, q < nq → q ∉ Q → getBit mid q = getBit ib q) :
    amp (placeHomG (homOf U (2 * Q.length + h)) (fwdQ Q P) (invQ Q P) (P + h))
      (mk (dualRail mid) η) (mk (dualRail ib) η) =
    amp (homOf U (2 * Q.length + h)) (dualRail (Q.map (getBit mid)) ++ H).toFinsupp
      (dualRail (Q.map (getBit ib)) ++ H).toFinsupp := by
  have hlt := gen_hlt nq Q P hnd hQlt hP
  have hlm : (dualRail mid).length = 2 * nq := by rw [dualRail_length, hmid]
  have hli : (dualRail ib).length = 2 * nq := by rw [dualRail_length, hib]
  have hr : rest (P + h) (invQ Q P) (mk (dualRail mid) η) = rest (P + h) (invQ Q P) (mk (dualRail ib) η) := by
    apply rest_eq_of_agree
    intro z hz1 _
    by_cases hz : z < 2 * nq
    · apply mk_dualRail_agree hib hmid hη hz
      apply hag _ (by omega)
      intro hm
      exact hz1 ⟨hm, by omega⟩
    · rw [mk_apply_ge (by omega), mk_apply_ge (by omega)]
  rw [amp_local Q P h U hnd hlt hH _ _ hr ((herAt_mk (by omega)).mpr hher)
    ((herAt_mk (by omega)).mpr hher),
    userList_dualRail Q mid η (by rw [hmid]; exact hη) (by rw [hmid]; exact hQlt),
    userList_dualRail Q ib η (by rw [hib]; exact hη) (by rw [hib]; exact hQlt)]

end generic

end LW.C12F
