/-
  LW.Proofs.C12FullPlanDefs — shared definitions for the proof of `convert_correct`:
  the explicit sub-circuits behind each placement of the converter's plan, bit strings as
  functions, the index maps of a placement.
-/
import LW.Model.QConvertSem
import LW.Proofs.C13Struct

namespace LW.C12F

open LW LW.QC LW.Gates LW.QF

variable {K : Type}

/-! ### the sub-circuits -/

/-- the dictionary of `SWAP([2a, 2a+1], [2b, 2b+1])` -/
def swapDict (a b : Nat) : Dict :=
  [(2 * a, 2 * b), (2 * b, 2 * a), (2 * a + 1, 2 * b + 1), (2 * b + 1, 2 * a + 1)]

/-- the circuit returned by `SWAP([2a, 2a+1], [2b, 2b+1])` for `a ≠ b` -/
def swapCirc (K : Type) (a b : Nat) : Circ K :=
  { n := 2 * max a b + 2, spec := [.prim (.swaps (swapDict a b))] }

section
variable [Add K] [Mul K] [Neg K] [Zero K] [One K]

/-- the blocks of the CZ-type gate selected by a `.two` placement -/
def twoPrims (c : GC K) (cx ps : Bool) (target : Nat) : List (Prim K) :=
  let big : M K := if ps then czUnitary c else czhUnitary c
  if cx then
    let m := (if ps then 1 else 2) + 2 * target
    [.unitary m (sqMat c .H), .unitary 0 big, .unitary m (sqMat c .H)]
  else [.unitary 0 big]

/-- the circuit of a `.two` placement (`target < 2`) -/
def twoCirc (c : GC K) (cx ps : Bool) (target : Nat) : Circ K :=
  if ps then gateCirc 6 herCZ (twoPrims c cx ps target)
  else gateCirc 8 herCZH (twoPrims c cx ps target)

/-- the circuit of a `.three` placement (`target < 3`) -/
def threeCirc (c : GC K) (ccx : Bool) (target : Nat) : Circ K :=
  gateCirc 10 herCCZ
    (if ccx then [.unitary (2 + 2 * target) (sqMat c .H), .unitary 0 (cczUnitary c),
        .unitary (2 + 2 * target) (sqMat c .H)]
     else [.unitary 0 (cczUnitary c)])

end

/-! ### index maps of a placement: a closed sub-circuit with `q` ports and some heralds is wired
onto ports `m … m+q-1`, its heralds onto the indices from `P'` on -/

def fwdS (m q P' : Nat) (x : Nat) : Nat := if x < q then m + x else P' + (x - q)

def invS' (m q P' : Nat) (r : Nat) : Option Nat :=
  if m ≤ r ∧ r < m + q then some (r - m) else if P' ≤ r then some (q + (r - P')) else none

/-! ### bit strings as functions -/

/-- `b ↦ (q ↦ b[q])` -/
def bitsOf (b : List Bool) : Nat → Bool := fun q => getBit b q

/-- two bit assignments agree on the qubits `< nq` outside `Q` -/
def AgreeOff (nq : Nat) (Q : List Nat) (β β' : Nat → Bool) : Prop :=
  ∀ q, q < nq → q ∉ Q → β' q = β q

instance (nq : Nat) (Q : List Nat) (β β' : Nat → Bool) : Decidable (AgreeOff nq Q β β') := by
  unfold AgreeOff
  exact Nat.decidableBallLT nq fun q _ => q ∉ Q → β' q = β q

end LW.C12F
