/-
  LW.Proofs.C02AddDefs — `Circ.add` split into named steps (C02).
-/
import LW.Proofs.C02Calls
namespace LW.Proofs.C02
variable {K : Type} [Zero K] [One K]

def targetOf (keys : List Nat) (t0 : Int) : Int :=
  (sortNat keys).foldl (fun (t : Int) (m : Nat) => if t > (m : Int) then t + 1 else t) t0

def ptStep (mode : Nat) (st : Circ.AddSt K) (i : Nat) : Circ.AddSt K :=
  let target : Int := targetOf st.sub.inHer.keys ((i : Int) - (mode : Int))
  if 0 ≤ target ∧ target < (st.sub.n : Int) then
    { sub := st.sub.addEmptyModeBook target.toNat,
      spec := Circ.addEmptyModeSpec st.spec target.toNat }
  else st

def ancStep (mode : Nat) (s : Circ K) (m : Nat) : Circ K :=
  let s' := s.addEmptyModeBook (mode + m)
  { s' with spec := Circ.addEmptyModeSpec s'.spec (mode + m), internal := s'.internal ++ [mode + m] }

def herStep (mode : Nat) (s : Circ K) (p : Nat × Nat) : Circ K :=
  { s with inHer := s.inHer.set (p.1 + mode) p.2, outHer := s.outHer.set (p.1 + mode) p.2 }

def swapSpec (circuit : Circ K) : List (Comp K) :=
  let prov : Dict := Dict.ofPairs (circuit.outHer.keys.zip circuit.inHer.keys)
  let swaps := Circ.synthSwaps circuit.n prov
  if swaps.keys != swaps.vals then circuit.spec ++ [.prim (.swaps swaps)] else circuit.spec

def addFinal (self : Circ K) (st : Circ.AddSt K) (mode : Nat) (grouped : Bool) : Circ K :=
  let self1 := (sortNat st.sub.inHer.keys).foldl (ancStep mode) self
  let self2 := st.sub.inHer.foldl (herStep mode) self1
  let addCs := st.spec.map (Comp.shift mode)
  if !grouped then { self2 with spec := self2.spec ++ addCs }
  else { self2 with spec := self2.spec ++
      [.group (addCs.flatMap Comp.toPrims) mode (mode + st.sub.n - 1) st.sub.inHer st.sub.inHer] }

def addFinalDo (self : Circ K) (st : Circ.AddSt K) (mode : Nat) (grouped : Bool) : Except Err (Circ K) :=
  let self1 := (sortNat st.sub.inHer.keys).foldl (ancStep mode) self
  let self2 := st.sub.inHer.foldl (herStep mode) self1
  let addCs := st.spec.map (Comp.shift mode)
  if !grouped then pure { self2 with spec := self2.spec ++ addCs }
  else pure { self2 with spec := self2.spec ++
      [.group (addCs.flatMap Comp.toPrims) mode (mode + st.sub.n - 1) st.sub.inHer st.sub.inHer] }

def addTailDo (self circuit : Circ K) (mode : Nat) (grouped : Bool) : Except Err (Circ K) := do
  if mode + circuit.n - circuit.inHer.length > self.n then throw .modeRange
  let st := (sortNat self.internal).foldl (ptStep mode) ⟨circuit, swapSpec circuit⟩
  if mode + st.sub.n - circuit.inHer.length > self.n then throw .modeRange
  addFinalDo self st mode grouped

def addTail (self circuit : Circ K) (mode : Nat) (grouped : Bool) : Except Err (Circ K) :=
  if mode + circuit.n - circuit.inHer.length > self.n then .error .modeRange
  else
    let st := (sortNat self.internal).foldl (ptStep mode) ⟨circuit, swapSpec circuit⟩
    if mode + st.sub.n - circuit.inHer.length > self.n then .error .modeRange
    else .ok (addFinal self st mode grouped)

def pick (circuit : Circ K) (g : Bool) : Circ K × Bool :=
  let cc := circuit.unpackGroups
  let grouped := g || !cc.inHer.isEmpty
  (if grouped then cc else circuit, grouped)

theorem add_eq0 (self circuit : Circ K) (m : Int) (g : Bool) :
    self.add circuit m g =
      (self.modeInRange (self.mapMode m)).bind fun mode =>
        addTailDo self (pick circuit g).1 mode (pick circuit g).2 := rfl

theorem addTailDo_eq (self circuit : Circ K) (mode : Nat) (grouped : Bool) :
    addTailDo self circuit mode grouped = addTail self circuit mode grouped := by
  unfold addTailDo addTail
  by_cases h1 : mode + circuit.n - circuit.inHer.length > self.n
  · simp only [h1, if_true]; rfl
  · simp only [h1, if_false]
    by_cases h2 : mode + ((sortNat self.internal).foldl (ptStep mode) ⟨circuit, swapSpec circuit⟩).sub.n
        - circuit.inHer.length > self.n
    · simp only [h2, if_true]; rfl
    · simp only [h2, if_false]
      cases grouped <;> rfl

theorem add_eq (self circuit : Circ K) (m : Int) (g : Bool) :
    self.add circuit m g =
      (self.modeInRange (self.mapMode m)).bind fun mode =>
        addTail self (pick circuit g).1 mode (pick circuit g).2 := by
  rw [add_eq0]
  congr
  funext mode
  exact addTailDo_eq _ _ _ _

end LW.Proofs.C02
