/-
  LW.Proofs.C12FullIface2 — the interface `Iface` for `cx` / `cz` on two arbitrary distinct
  qubits (post-selected or heralded variant).
-/
import LW.Proofs.C12FullIface1

open MvPolynomial

namespace LW.C12F

open LW LW.QC LW.Gates LW.QF LW.Proofs.C02Sem

/-- a dual-rail user state has one photon in every pair of modes -/
theorem isDualRail_pairs : ∀ (u : List ℕ), isDualRail u = true → ∀ j, 2 * j + 1 < u.length →
    u.getD (2 * j) 0 + u.getD (2 * j + 1) 0 = 1
  | [], _, j, hj => by simp at hj
  | [_], h, _, _ => by simp [isDualRail] at h
  | a :: b :: t, h, j, hj => by
    simp only [isDualRail, Bool.and_eq_true, beq_iff_eq] at h
    cases j with
    | zero => simpa using h.1
    | succ j =>
      have e1 : 2 * (j + 1) = 2 * j + 1 + 1 := by omega
      rw [e1, List.getD_cons_succ, List.getD_cons_succ, List.getD_cons_succ, List.getD_cons_succ]
      exact isDualRail_pairs t h.2 j (by simp at hj; omega)

section bits

variable {K : Type} [CommRing K]

theorem delta_cx (n a b : ℕ) (ib mid : List Bool) (hib : ib.length = n) (hmid : mid.length = n)
    (hab : a ≠ b) (hb : b < n)
    (hag : ∀ q, q < n → q ∉ [a, b] → getBit mid q = getBit ib q) :
    (delta ib (if getBit mid a = true then mid.set b (!getBit mid b) else mid) : K) =
      if getBit mid a = getBit ib a ∧ (getBit mid b != getBit mid a) = getBit ib b then 1 else 0 := by
  cases ha : getBit mid a
  · simp only [Bool.false_eq_true, if_false]
    rw [delta_on (K := K) hmid hib [a, b] hag]
    simp only [List.forall_mem_cons, List.not_mem_nil, false_imp_iff, implies_true, and_true, ha]
    cases getBit mid b <;> cases getBit ib a <;> cases getBit ib b <;> simp
  · simp only [if_true]
    have hx : (mid.set b (!getBit mid b)).length = n := by simpa using hmid
    have hag' : ∀ q, q < n → q ∉ [a, b] →
        getBit (mid.set b (!getBit mid b)) q = getBit ib q := by
      intro q hq hqn
      rw [getBit_set, if_neg]
      · exact hag q hq hqn
      · intro hc
        apply hqn
        simp [hc.1]
    have hxa : getBit (mid.set b (!getBit mid b)) a = true := by
      rw [getBit_set, if_neg (fun hc => hab hc.1), ha]
    have hxb : getBit (mid.set b (!getBit mid b)) b = !getBit mid b := by
      rw [getBit_set, if_pos ⟨rfl, by omega⟩]
    rw [delta_on (K := K) hx hib [a, b] hag']
    simp only [List.forall_mem_cons, List.not_mem_nil, false_imp_iff, implies_true, and_true,
      hxa, hxb]
    cases getBit mid b <;> cases getBit ib a <;> cases getBit ib b <;> simp

theorem delta_two (n a b : ℕ) (ib mid : List Bool) (hib : ib.length = n) (hmid : mid.length = n)
    (hag : ∀ q, q < n → q ∉ [a, b] → getBit mid q = getBit ib q) :
    (delta ib mid : K) =
      if getBit mid a = getBit ib a ∧ getBit mid b = getBit ib b then 1 else 0 := by
  rw [delta_on (K := K) hmid hib [a, b] hag]
  simp only [List.forall_mem_cons, List.not_mem_nil, false_imp_iff, implies_true, and_true]

end bits

variable {R : Type} [Field R] [StarRing R]

theorem iface_two (c : GC R) (hv : c.Valid) (par : ℕ → R × R) (nq : ℕ) (g : Instr) (f : Bool)
    (a b : ℕ) (hq : g.qubits = [a, b]) (hab : a ≠ b) (ha : a < nq) (hb : b < nq)
    (hn : g.name ≠ "swap") : Iface c par nq g f := by
  have hsw : isSwap g = false := by simp [isSwap, hq, hn]
  have hQ : instrQ g = [min a b, max a b] := by simp [instrQ, hq]
  have hH : instrHer g f = if f then [0, 0] else [0, 1, 1, 0] := by simp [instrHer, hq, hn]
  have hHl : (instrHer g f).length = if f then 2 else 4 := by rw [hH]; cases f <;> rfl
  have hnd : [min a b, max a b].Nodup := by
    simp only [List.nodup_cons, List.mem_cons, List.not_mem_nil, or_false, not_false_eq_true,
      List.nodup_nil, and_true]
    omega
  have hQlt : ∀ q' ∈ [min a b, max a b], q' < nq := by
    intro q' hq'
    simp only [List.mem_cons, List.not_mem_nil, or_false] at hq'
    rcases hq' with rfl | rfl <;> omega
  have hperm : [min a b, max a b].Perm [a, b] := by
    rcases Nat.lt_or_gt_of_ne hab with h | h
    · rw [show min a b = a by omega, show max a b = b by omega]
    · rw [show min a b = b by omega, show max a b = a by omega]
      exact List.Perm.swap _ _ _
  have hmem : ∀ q', q' ∈ [min a b, max a b] ↔ q' ∈ [a, b] := fun q' => hperm.mem_iff
  set tg : ℕ := if g.name = "cx" then (if a < b then 1 else 0) else 0 with htg
  have htg2 : tg < 2 := by rw [htg]; split_ifs <;> omega
  set sub : Circ R := twoCirc c (g.name = "cx") f tg with hsub
  have hsubn : sub.n = 2 * [min a b, max a b].length + (instrHer g f).length := by
    rw [hH, hsub]; cases f <;> rfl
  have hφ : ∀ idx P, instrHom c par idx g f P =
      placeHomG (homOf (closedE c.i sub) (2 * [min a b, max a b].length + (instrHer g f).length))
        (fwdQ [min a b, max a b] P) (invQ [min a b, max a b] P) (P + (instrHer g f).length) := by
    intro idx P
    unfold instrHom
    rw [hsw, hQ]
    simp only [Bool.false_eq_true, if_false]
    have : instrSub c par idx g f = sub := by simp [instrSub, hq, hsub, htg]
    rw [this]
    unfold circHom
    rw [hsubn]
  have hK : instrK c g f = if f then -c.third else c.half * c.half := by simp [instrK, hq, hn]
  refine ⟨?_, ?_, ?_, ?_⟩
  · intro idx P z hP hz hz2
    rw [hφ]
    exact gen_touch nq _ P _ _ hnd hQlt hP hz hz2
  · intro idx P w s hP hne hw hs
    rw [hφ] at hne
    unfold stepRel
    rw [if_neg (by rw [hq]; simp), if_neg hn, hq]
    refine ⟨⟨?_, ?_⟩, ?_⟩
    · intro q' hq'
      exact gen_cfg_outside nq _ P _ _ hnd hQlt hP hne (fun hc => hq' ((hmem q').mp hc))
    · have := gen_cfg_sum nq _ P _ _ hnd hQlt hP rfl hne hw hs
      rw [(hperm.map (cfgN nq w)).sum_eq, (hperm.map (cfgN nq s)).sum_eq] at this
      exact this.symm
    · intro hf hall
      subst hf
      have hlt := gen_hlt nq _ P hnd hQlt hP
      have hr := place_rest _ P _ _ hnd hlt hne
      have hne0 := hne
      rw [amp_local _ P _ _ hnd hlt rfl w s hr hw hs] at hne
      -- the local input is a dual-rail state
      have hsl := userList_length [min a b, max a b] s
      have hwl := userList_length [min a b, max a b] w
      have hpair : ∀ (t : ℕ →₀ ℕ) j, j < 2 →
          (userList [min a b, max a b] t).getD (2 * j) 0 + (userList [min a b, max a b] t).getD (2 * j + 1) 0
            = cfgN nq t ([min a b, max a b].getD j 0) := by
        intro t j hj
        have h0 := userList_getD [min a b, max a b] t j 0 (by simpa using hj) (by omega)
        have h1 := userList_getD [min a b, max a b] t j 1 (by simpa using hj) (by omega)
        simp only [Nat.add_zero] at h0
        rw [h0, h1, cfgN_lt t (hQlt _ (getD_mem' (by simpa using hj)))]
      have hsdr : isDualRail (userList [min a b, max a b] s) = true := by
        apply isDualRail_of_allOne _ 2 (by rw [hsl]; rfl)
        intro j hj
        rw [hpair s j hj]
        exact hall _ ((hmem _).mp (getD_mem' (by simpa using hj)))
      have hssum : (userList [min a b, max a b] s).sum = 2 := by
        rw [userList_sum]
        have e : ([min a b, max a b].map fun q => s (2 * q) + s (2 * q + 1))
            = [min a b, max a b].map (cfgN nq s) := by
          apply List.map_congr_left
          intro q hq'
          exact (cfgN_lt s (hQlt q hq')).symm
        rw [e, (hperm.map (cfgN nq s)).sum_eq]
        simp [hall a (by simp), hall b (by simp)]
      have hwsum : (userList [min a b, max a b] w).sum = 2 := by
        rw [← hssum, userList_sum, userList_sum]
        exact place_sum _ P _ _ hnd hlt rfl hne0 hw hs
      have hwdr : isDualRail (userList [min a b, max a b] w) = true := by
        by_contra hc
        apply hne
        rw [← dualRail_unDualRail _ hsdr]
        have := amp_two_leak c hv (g.name = "cx") tg htg2 (unDualRail (userList [min a b, max a b] s))
          (unDualRail_length _ 2 (by rw [hsl]; rfl)) (userList [min a b, max a b] w)
          (by rw [hwl]; rfl) hwsum (by simpa using hc)
        rw [hH]
        exact this
      intro q' hq'
      have hq'Q := (hmem q').mpr hq'
      obtain ⟨j, hj, hjq⟩ := List.getElem_of_mem hq'Q
      have hj2 : j < 2 := by simpa using hj
      have := isDualRail_pairs _ hwdr j (by rw [hwl]; simp; omega)
      rw [hpair w j hj2, List.getD_eq_getElem _ _ hj, hjq] at this
      exact this
  · intro idx P ib mid η hP hib hmid hη hher
    rw [hφ]
    by_cases hag : ∀ q', q' < nq → q' ∉ [min a b, max a b] → getBit mid q' = getBit ib q'
    · have hag' : ∀ q', q' < nq → q' ∉ [a, b] → getBit mid q' = getBit ib q' :=
        fun q' h1 h2 => hag q' h1 (fun hc => h2 ((hmem q').mp hc))
      rw [gen_table_local nq _ P _ _ hnd hQlt hP rfl hib hmid hη hher hag]
      have htab := amp_two c hv (g.name = "cx") f tg htg2
        ([min a b, max a b].map (getBit ib)) ([min a b, max a b].map (getBit mid)) rfl rfl
      have hcirc : amp (homOf (closedE c.i sub) (2 * [min a b, max a b].length + (instrHer g f).length))
          (dualRail ([min a b, max a b].map (getBit mid)) ++ instrHer g f).toFinsupp
          (dualRail ([min a b, max a b].map (getBit ib)) ++ instrHer g f).toFinsupp
          = scaleBy (if f = true then -c.third else c.half * c.half)
            ((if decide (g.name = "cx") = true then namedCNOT tg else namedCZ)
              ([min a b, max a b].map (getBit mid)) ([min a b, max a b].map (getBit ib))) := by
        have hcH : circHom c.i sub = homOf (closedE c.i sub)
            (2 * [min a b, max a b].length + (instrHer g f).length) := by
          unfold circHom; rw [hsubn]
        rw [← hcH, hH]
        exact htab
      rw [hcirc, hK]
      by_cases hcx : g.name = "cx"
      · have hA : applyInstr c par idx g (delta ib) mid =
            delta ib (if getBit mid a = true then mid.set b (!getBit mid b) else mid) := by
          simp only [applyInstr, hq]
          rw [if_neg hn, if_pos hcx]
        rw [hA, delta_cx nq a b ib mid hib hmid hab hb hag']
        simp only [hcx, decide_true, if_true]
        rcases Nat.lt_or_gt_of_ne hab with h | h
        · have etg : tg = 1 := by rw [htg, if_pos hcx, if_pos h]
          rw [etg, show min a b = a by omega, show max a b = b by omega]
          simp only [List.map_cons, List.map_nil]
          rw [(namedCNOT_two (getBit mid a) (getBit mid b) (getBit ib a) (getBit ib b)).1, scaleBy_ite]
        · have etg : tg = 0 := by rw [htg, if_pos hcx, if_neg (by omega)]
          rw [etg, show min a b = b by omega, show max a b = a by omega]
          simp only [List.map_cons, List.map_nil]
          rw [(namedCNOT_two (getBit mid a) (getBit mid b) (getBit ib a) (getBit ib b)).2, scaleBy_ite]
      · have hA : applyInstr c par idx g (delta ib) mid =
            if (getBit mid a && getBit mid b) = true then -(delta ib mid) else delta ib mid := by
          simp only [applyInstr, hq]
          rw [if_neg hn, if_neg hcx]
        rw [hA, delta_two nq a b ib mid hib hmid hag']
        simp only [hcx, decide_false, Bool.false_eq_true, if_false]
        rcases Nat.lt_or_gt_of_ne hab with h | h
        · rw [show min a b = a by omega, show max a b = b by omega]
          simp only [List.map_cons, List.map_nil]
          rw [(namedCZ_two (getBit mid a) (getBit mid b) (getBit ib a) (getBit ib b)).1, scaleBy_sign]
        · rw [show min a b = b by omega, show max a b = a by omega]
          simp only [List.map_cons, List.map_nil]
          rw [(namedCZ_two (getBit mid a) (getBit mid b) (getBit ib a) (getBit ib b)).2, scaleBy_sign]
    · push Not at hag
      obtain ⟨q', hq', hq'Q, hd⟩ := hag
      have hq'ab : q' ∉ [a, b] := fun hc => hq'Q ((hmem q').mpr hc)
      have hq'b : q' ≠ b := fun hc => hq'ab (by simp [hc])
      rw [gen_table_zero nq _ P _ _ hnd hQlt hP hib hmid hη hq' hq'Q hd]
      have hz : applyInstr c par idx g (delta ib) mid = 0 := by
        simp only [applyInstr, hq]
        rw [if_neg hn]
        by_cases hcx : g.name = "cx"
        · rw [if_pos hcx]
          apply delta_eq_zero q'
          split
          · rw [getBit_set, if_neg (fun hc => hq'b hc.1)]; exact hd
          · exact hd
        · rw [if_neg hcx]
          show (if (getBit mid a && getBit mid b) = true then -(delta ib mid) else delta ib mid) = 0
          rw [delta_eq_zero q' hd, neg_zero, ite_self]
      rw [hz, mul_zero]
  · intro cf _
    unfold stepRel
    rw [if_neg (by rw [hq]; simp), if_neg hn]
    exact ⟨⟨fun _ _ => rfl, rfl⟩, fun _ h => h⟩

end LW.C12F
