/-
  LW.Proofs.C12FullCircAdd — the substitution homomorphism of `self.add sub m` in closed layout:
  for a circuit `self` satisfying the converter's invariant `HerInv` and a loss-free sub-circuit with
  equal, sorted heralds, `circHom` of the result is `circHom self` followed by `circHom sub` placed
  on the ports `m …` (heralds on the fresh modes from `self.n` on).
-/
import LW.Proofs.C12FullPoly2
import LW.Proofs.C12FullSem
import LW.Proofs.C12FullTidy
import LW.Proofs.C12FullAddInv
import LW.Proofs.C12FullPlanDefs

open MvPolynomial

namespace LW.C12F

open LW LW.Proofs.C01Aux LW.Proofs.C02 LW.Proofs.C02Sem

variable {R : Type} [CommRing R]

/-! ### generalities on `placeHomG` and `PInj` -/

/-- `placeHomG` only reads the partial inverse below `D` -/
theorem placeHomG_congr (φ : Hom R) (fwd : ℕ → ℕ) {inv inv' : ℕ → Option ℕ} {D : ℕ}
    (h : ∀ j, j < D → inv j = inv' j) : placeHomG φ fwd inv D = placeHomG φ fwd inv' D := by
  apply algHom_ext
  intro j
  unfold placeHomG
  rw [aeval_X, aeval_X]
  by_cases hj : j < D
  · rw [if_pos hj, if_pos hj, h j hj]
  · rw [if_neg hj, if_neg hj]

/-- placing `homOf U d` through the identity on `[0, d)` does nothing -/
theorem placeHomG_id (U : ℕ → ℕ → R) {d D : ℕ} (inv : ℕ → Option ℕ) (hdD : d ≤ D)
    (h1 : ∀ j, j < d → inv j = some j) (h2 : ∀ j, d ≤ j → j < D → inv j = none) :
    placeHomG (homOf U d) (fun r => r) inv D = homOf U d := by
  apply algHom_ext
  intro j
  by_cases hj : j < d
  · rw [placeHomG_X_some _ _ _ (by omega) (h1 j hj)]
    exact rename_id_apply _
  · rw [homOf_X_ge _ (by omega)]
    exact placeHomG_X_none _ _ _ (fun hh => h2 j (by omega) hh)

theorem pinj_congr_inv {d D : ℕ} {fwd : ℕ → ℕ} {inv inv' : ℕ → Option ℕ} (h : PInj d D fwd inv)
    (e : ∀ r, r < D → inv' r = inv r) : PInj d D fwd inv' :=
  ⟨h.fwd_lt, fun x hx => by rw [e _ (h.fwd_lt x hx)]; exact h.inv_fwd x hx,
    fun r x hr hi => h.inv_some r x hr (by rw [← e r hr]; exact hi)⟩

/-- the index maps of a placement form a partial injection -/
theorem pinj_invS' (m q P a : ℕ) (hm : m + q ≤ P) :
    PInj (q + a) (P + a) (fwdS m q P) (invS' m q P) := by
  refine ⟨?_, ?_, ?_⟩
  · intro x hx
    unfold fwdS
    split_ifs <;> omega
  · intro x hx
    unfold fwdS invS'
    by_cases h1 : x < q
    · rw [if_pos h1, if_pos (by omega)]
      congr 1
      omega
    · rw [if_neg h1, if_neg (by omega), if_pos (by omega)]
      congr 1
      omega
  · intro r x hr e
    unfold invS' at e
    unfold fwdS
    by_cases h1 : m ≤ r ∧ r < m + q
    · rw [if_pos h1] at e
      injection e with e
      subst e
      rw [if_pos (by omega)]
      omega
    · rw [if_neg h1] at e
      by_cases h2 : P ≤ r
      · rw [if_pos h2] at e
        injection e with e
        subst e
        rw [if_neg (by omega)]
        omega
      · rw [if_neg h2] at e
        cases e

/-- the product of two placed matrices is the composition of the placed homomorphisms -/
theorem homOf_mul_embedVia {dA dB D : ℕ} {fA fB : ℕ → ℕ} {iA iB : ℕ → Option ℕ}
    (hA : PInj dA D fA iA) (hB : PInj dB D fB iB) (A B : M R) :
    homOf ((Optic.embedVia D A iA).mul (Optic.embedVia D B iB)).get D =
      (placeHomG (homOf A.get dA) fA iA D).comp (placeHomG (homOf B.get dB) fB iB D) := by
  rw [← homOf_embedVia hA, ← homOf_embedVia hB, ← homOf_mulE]
  apply homOf_congr
  intro r c hr hc
  rw [M.get_mul _ _ (by rw [embedVia_n]; exact hr) (by rw [embedVia_n]; exact hc), embedVia_n]
  rfl

/-! ### the index maps of `Optic.compose` for a loss-free parent -/

section
variable {K : Type}

theorem pinj_invP (x : Optic K) (aS : ℕ) :
    PInj (x.p + x.a) (x.p + x.a + aS) (fun r => r) (invP x aS) := by
  refine ⟨fun y hy => by omega, ?_, ?_⟩
  · intro y hy
    unfold invP
    rw [if_pos hy]
  · intro r y hr e
    unfold invP at e
    by_cases h1 : r < x.p + x.a
    · rw [if_pos h1] at e
      injection e with e
      subst e
      exact ⟨h1, rfl⟩
    · rw [if_neg h1, if_pos hr] at e
      cases e

theorem invS_eq_invS' (x : Optic K) (s : Closed K) (m : ℕ) (hl : x.l = 0) {j : ℕ}
    (hj : j < x.p + x.a + s.hn.length) : invS x s m j = invS' m s.q (x.p + x.a) j := by
  unfold invS invS'
  by_cases h1 : m ≤ j ∧ j < m + s.q
  · rw [if_pos h1, if_pos h1]
  · rw [if_neg h1, if_neg h1]
    by_cases h2 : x.p + x.a ≤ j
    · rw [if_pos ⟨h2, hj⟩, if_pos h2]
    · rw [if_neg (fun hh => h2 hh.1), if_neg (by omega), if_neg h2]

theorem rowM_eq_colM (c : Circ K) (hio : c.outHer = c.inHer) (y : ℕ) : rowM c y = colM c y := by
  unfold rowM colM
  rw [hio]

end

/-- the matrix of `x.compose s m` (no loss) as a composition of homomorphisms -/
theorem homOf_compose_tidy (x : Optic R) (s : Closed R) (m : ℕ) (hl : x.l = 0)
    (hm : m + s.q ≤ x.p + x.a) :
    homOf ((Optic.embedVia (x.p + x.a + s.hn.length) s.W (invS x s m)).mul
        (Optic.embedVia (x.p + x.a + s.hn.length) x.W (invP x s.hn.length))).get
        (x.p + x.a + s.hn.length) =
      (placeHomG (homOf s.W.get (s.q + s.hn.length)) (fwdS m s.q (x.p + x.a))
        (invS' m s.q (x.p + x.a)) (x.p + x.a + s.hn.length)).comp
        (homOf x.W.get (x.p + x.a)) := by
  have hS : PInj (s.q + s.hn.length) (x.p + x.a + s.hn.length) (fwdS m s.q (x.p + x.a))
      (invS x s m) :=
    pinj_congr_inv (pinj_invS' m s.q (x.p + x.a) s.hn.length hm)
      (fun r hr => invS_eq_invS' x s m hl hr)
  have hP := pinj_invP x s.hn.length
  rw [homOf_mul_embedVia hS hP,
    placeHomG_congr _ _ (fun j hj => invS_eq_invS' x s m hl hj),
    placeHomG_id _ _ (by omega) (fun j hj => hP.inv_fwd j hj)]
  intro j h1 h2
  unfold invP
  rw [if_neg (by omega), if_pos h2]

/-! ### `circHom` through the canonical closed form -/

variable [StarRing R]

/-- for a loss-free circuit with equal heralds, `circHom` is the homomorphism of the matrix of the
canonical closed form -/
theorem circHom_eq_closed (i : R) (c : Circ R) (hwf : c.WF) (hio : c.outHer = c.inHer)
    (hl : lossCount c.spec = 0) : circHom i c = homOf (c.toOptic i).closed.W.get c.n := by
  have hle := her_length_le hwf.inNodup hwf.inLt
  unfold circHom
  apply homOf_congr
  intro r k hr hk
  rw [closed_toOptic i c hwf]
  show closedE i c r k = (M.ofFn _ _).get r k
  rw [M.get_ofFn _ (by omega) (by omega), rowM_eq_colM c hio, ← layout_eq_colM c hwf,
    ← layout_eq_colM c hwf]
  rfl

/-! ### the theorem -/

theorem circHom_add (i : R) (self sub self' : Circ R)
    (hs : HerInv self) (hok : SpecOk self.n self.spec)
    (hwfs : sub.WF) (hsok : SpecOk sub.n sub.spec) (hio : sub.outHer = sub.inHer)
    (hsorted : sub.inHer.keys.Pairwise (· < ·)) (hloss : lossCount sub.spec = 0)
    (m : Nat) (g : Bool) (h : self.add sub (m : Int) g = .ok self') :
    circHom i self' =
      (placeHomG (circHom i sub) (fwdS m (sub.n - sub.inHer.length) self.n)
        (invS' m (sub.n - sub.inHer.length) self.n) (self.n + sub.inHer.length)).comp
        (circHom i self) := by
  have hwf := hs.wf
  obtain ⟨hs', -, -⟩ := add_herInv self sub self' hs hwfs hio hsorted hloss (m : Int) g h
  obtain ⟨mode, ts, d⟩ := add_data self sub self' hwf hwfs (m : Int) g h
  have hfit : m + (sub.n - sub.inHer.length) ≤ self.n := by
    have hrej := add_rejects self sub hwf hwfs (m : Int) g
    have hcond : ¬ ((m : Int) < 0 ∨
        (self.ports : Int) < (m : Int) + ((sub.n - sub.inHer.length : Nat) : Int)) := by
      intro hc
      rw [hrej hc] at h
      cases h
    have hports : self.ports = self.n - self.internal.length := rfl
    omega
  have hx : Tidy (self.toOptic i) := tidy_toOptic i self hwf hs.keys hs.io hs.loss
  have hsq : (sub.toOptic i).closed.q = sub.n - sub.inHer.length := by
    rw [closed_toOptic i sub hwfs]
  have hshn : (sub.toOptic i).closed.hn.length = sub.inHer.length := closed_hn_length i sub hwfs
  have hsl : (sub.toOptic i).closed.l = 0 := by
    rw [closed_toOptic i sub hwfs]
    exact hloss
  have hpa : (self.toOptic i).p + (self.toOptic i).a = self.n := portModes_length self hwf
  have hsubn : sub.n - sub.inHer.length + sub.inHer.length = sub.n := by
    have := her_length_le hwfs.inNodup hwfs.inLt
    omega
  have hsem := sem_add_weak i self sub self' hwf hwfs hok hsok (m : Int) g h
  rw [Int.toNat_natCast, hx.closed_compose _ hsl m] at hsem
  have hW : (self'.toOptic i).closed.W =
      (Optic.embedVia ((self.toOptic i).p + (self.toOptic i).a + (sub.toOptic i).closed.hn.length)
          (sub.toOptic i).closed.W (invS (self.toOptic i) (sub.toOptic i).closed m)).mul
        (Optic.embedVia ((self.toOptic i).p + (self.toOptic i).a + (sub.toOptic i).closed.hn.length)
          (self.toOptic i).W (invP (self.toOptic i) (sub.toOptic i).closed.hn.length)) := by
    rw [hsem]
  have hD : self'.n = (self.toOptic i).p + (self.toOptic i).a + (sub.toOptic i).closed.hn.length := by
    rw [d.n_eq, hpa, hshn]
  have hself : homOf (self.toOptic i).W.get self.n = circHom i self := by
    rw [circHom_eq_closed i self hwf hs.io hs.loss, hx.closed_eq]
  rw [circHom_eq_closed i self' hs'.wf hs'.io hs'.loss, hW, hD,
    homOf_compose_tidy (self.toOptic i) (sub.toOptic i).closed m hx.l0
      (by rw [hsq, hpa]; exact hfit),
    hsq, hshn, hpa, hsubn, ← circHom_eq_closed i sub hwfs hio hloss, hself]

/-! ### non-vacuity: the hypotheses hold for the 2-mode circuit `exC` (one port, one heralded
ancilla) added to itself on port 0 -/

example (i : Int) : ∃ c' : Circ Int, exC.add exC ((0 : Nat) : Int) false = .ok c' ∧
    circHom i c' =
      (placeHomG (circHom i exC) (fwdS 0 1 2) (invS' 0 1 2) 3).comp (circHom i exC) := by
  obtain ⟨c', h⟩ := add_succeeds exC exC exC_herInv.wf exC_herInv.wf 0 false (by decide) (by decide)
  have hok : SpecOk exC.n exC.spec := by
    intro p hp
    cases hp
  exact ⟨c', h, circHom_add i exC exC c' exC_herInv hok exC_herInv.wf hok rfl (by decide) rfl 0
    false h⟩

end LW.C12F
