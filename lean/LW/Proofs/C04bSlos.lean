/-
  LW.Proofs.C04bSlos — the SLOS layer recursion computes `fsum` (sum of row products over all index
  functions of the given occupation), hence the permanent divided by `t!`.
-/
import LW.Proofs.DistDefs
import LW.Proofs.C04a
import LW.Proofs.FockIso
import LW.Proofs.C04bCore

open Finset

namespace LW.Proofs.C04b

open LW LW.Proofs.C04a
open LW.Proofs.FockIso (occ toW)

variable {K : Type}

/-! ### list bookkeeping -/

theorem list_sum_range {A : Type} [AddCommMonoid A] (n : ℕ) (f : ℕ → A) :
    ((List.range n).map f).sum = ∑ j : Fin n, f j := by
  rw [← Finset.sum_range (fun j => f j)]
  induction n with
  | zero => simp
  | succ n ih => rw [List.range_succ, List.map_append, List.sum_append, ih, Finset.sum_range_succ]; simp

theorem set_succ_eq_iff (t t' : List ℕ) (j : ℕ) (hj : j < t.length) (hlen : t'.length = t.length) :
    t.set j (t.getD j 0 + 1) = t' ↔ 0 < t'.getD j 0 ∧ t = t'.set j (t'.getD j 0 - 1) := by
  constructor
  · intro h
    subst h
    have : (t.set j (t.getD j 0 + 1)).getD j 0 = t.getD j 0 + 1 := by
      simp [List.getD_eq_getElem?_getD, hj]
    rw [this]
    refine ⟨by omega, ?_⟩
    rw [List.set_set, Nat.add_sub_cancel]
    simp [List.getD_eq_getElem?_getD, hj]
  · rintro ⟨h1, h2⟩
    have hj' : j < t'.length := hlen ▸ hj
    have : t.getD j 0 = t'.getD j 0 - 1 := by
      rw [h2]
      simp [List.getD_eq_getElem?_getD, hj']
    rw [this, h2, List.set_set, Nat.sub_add_cancel h1]
    simp [List.getD_eq_getElem?_getD, hj']

theorem toW_set {N : ℕ} (t : List ℕ) (j : Fin N) (v : ℕ) (ht : t.length = N) :
    toW N (t.set j v) = Function.update (toW N t) j v := by
  funext z
  unfold toW
  by_cases hz : z = j
  · subst hz
    rw [Function.update_self]
    simp [List.getD_eq_getElem?_getD, ht]
  · rw [Function.update_of_ne hz]
    have : (j : ℕ) ≠ z := fun h => hz (Fin.ext h.symm)
    simp [List.getD_eq_getElem?_getD, this]

theorem toW_eq_zero_iff {N : ℕ} (t : List ℕ) (ht : t.length = N) :
    toW N t = 0 ↔ List.replicate N 0 = t := by
  constructor
  · intro h
    rw [← FockIso.ofFn_toW t ht, h]
    show List.replicate N 0 = List.ofFn (fun _ => 0)
    rw [List.ofFn_const]
  · intro h
    subst h
    funext z
    simp [toW, List.getD_eq_getElem?_getD]

/-! ### lookups in tables with distinct keys -/

section Table
variable [AddCommMonoid K]

theorem slosGet_eq (d : List (FState × K)) (t : FState) :
    slosGet d t = (PDist.get? d t).getD 0 := rfl

theorem slosGet_cons (x : FState × K) (d : List (FState × K)) (t : FState) :
    slosGet (x :: d) t = if x.1 = t then x.2 else slosGet d t := by
  rw [slosGet_eq, get?_cons]
  by_cases h : x.1 = t
  · simp [h]
  · simp [h, slosGet_eq]

theorem slosGet_of_not_mem (d : List (FState × K)) (t : FState) (h : t ∉ d.map (·.1)) :
    slosGet d t = 0 := by
  rw [slosGet_eq, get?_eq_none_of_not_mem d t h]
  rfl

theorem slosGet_of_mem (d : List (FState × K)) (hd : (d.map (·.1)).Nodup) (x : FState × K)
    (hx : x ∈ d) : slosGet d x.1 = x.2 := by
  induction d with
  | nil => simp at hx
  | cons a d ih =>
    simp only [List.map_cons, List.nodup_cons] at hd
    rw [slosGet_cons]
    rcases List.mem_cons.1 hx with h | h
    · rw [h, if_pos rfl]
    · have : a.1 ≠ x.1 := fun h' => hd.1 (h' ▸ List.mem_map.2 ⟨x, h, rfl⟩)
      rw [if_neg this]
      exact ih hd.2 h

end Table

section Single
variable [Semiring K]

theorem sum_filter_key (d : List (FState × K)) (hd : (d.map (·.1)).Nodup) (t0 : FState) (c : K) :
    ((d.filter (fun x => decide (x.1 = t0))).map (fun x => x.2 * c)).sum = slosGet d t0 * c := by
  induction d with
  | nil => simp [slosGet]
  | cons a d ih =>
    simp only [List.map_cons, List.nodup_cons] at hd
    rw [slosGet_cons]
    by_cases h : a.1 = t0
    · rw [if_pos h, List.filter_cons_of_pos (by simpa using h), List.map_cons, List.sum_cons,
        ih hd.2, slosGet_of_not_mem d t0 (h ▸ hd.1)]
      simp
    · rw [if_neg h, List.filter_cons_of_neg (by simpa using h), ih hd.2]

end Single

/-! ### one layer -/

section Layer
variable [CommRing K]

theorem slosLayer_eq (U : M K) (i : ℕ) (d : List (FState × K)) :
    slosLayer U i d = (List.range U.n).foldl (fun (out : PDist K) j =>
      d.foldl (fun (out : PDist K) (x : FState × K) =>
        PDist.addTo out (x.1.set j (x.1.getD j 0 + 1)) (x.2 * U.get j i)) out) [] := rfl

theorem nested_nodup (l : List ℕ) (d : List (FState × K)) (kf : ℕ → FState × K → FState)
    (vf : ℕ → FState × K → K) (init : PDist K) (h0 : (init.map (·.1)).Nodup) :
    ((l.foldl (fun (out : PDist K) j =>
      d.foldl (fun (out : PDist K) (x : FState × K) => PDist.addTo out (kf j x) (vf j x)) out)
      init).map (·.1)).Nodup := by
  apply foldl_inv (fun pd : PDist K => (pd.map (·.1)).Nodup) _ l init h0
  intro acc j _ hacc
  exact fold_keys_nodup _ (fun _ => True) (kf j) (vf j) (fun _ _ => (if_pos trivial).symm) d acc hacc

theorem nested_getD (l : List ℕ) (d : List (FState × K)) (kf : ℕ → FState × K → FState)
    (vf : ℕ → FState × K → K) (init : PDist K) (r : FState) :
    ((l.foldl (fun (out : PDist K) j =>
      d.foldl (fun (out : PDist K) (x : FState × K) => PDist.addTo out (kf j x) (vf j x)) out)
      init).get? r).getD 0 =
      (init.get? r).getD 0 +
        (l.map fun j => ((d.filter fun x => decide (kf j x = r)).map (vf j)).sum).sum := by
  induction l generalizing init with
  | nil => simp
  | cons j l ih =>
    rw [List.foldl_cons, ih, List.map_cons, List.sum_cons, ← add_assoc]
    congr 1
    rw [fold_getD _ (fun _ => True) (kf j) (vf j) (fun _ _ => (if_pos trivial).symm) d init r]
    simp

theorem slosLayer_nodup (U : M K) (i : ℕ) (d : List (FState × K)) :
    ((slosLayer U i d).map (·.1)).Nodup := by
  rw [slosLayer_eq]
  exact nested_nodup _ d _ _ [] (by simp)

theorem slosLayer_get (U : M K) (i : ℕ) (d : List (FState × K)) (hd : (d.map (·.1)).Nodup)
    (hlen : ∀ t ∈ d.map (·.1), t.length = U.n) (t' : FState) (ht' : t'.length = U.n) :
    slosGet (slosLayer U i d) t' = ∑ j : Fin U.n,
      if 0 < t'.getD j 0 then slosGet d (t'.set j (t'.getD j 0 - 1)) * U.get j i else 0 := by
  rw [slosLayer_eq, slosGet_eq,
    nested_getD _ d (fun j x => x.1.set j (x.1.getD j 0 + 1)) (fun j x => x.2 * U.get j i) [] t',
    get?_nil, Option.getD_none, zero_add, list_sum_range]
  apply Finset.sum_congr rfl
  intro j _
  have hfil : (d.filter fun x => decide (x.1.set j (x.1.getD j 0 + 1) = t')) =
      d.filter fun x => decide (0 < t'.getD j 0 ∧ x.1 = t'.set j (t'.getD j 0 - 1)) := by
    apply List.filter_congr
    intro x hx
    have hxl := hlen x.1 (List.mem_map.2 ⟨x, hx, rfl⟩)
    rw [decide_eq_decide]
    exact set_succ_eq_iff x.1 t' j (by rw [hxl]; exact j.2) (by rw [ht', hxl])
  rw [hfil]
  by_cases hj : 0 < t'.getD j 0
  · rw [if_pos hj]
    simp only [hj, true_and]
    exact sum_filter_key d hd _ _
  · rw [if_neg hj]
    have : (d.filter fun x => decide (0 < t'.getD j 0 ∧ x.1 = t'.set j (t'.getD j 0 - 1))) = [] := by
      apply List.filter_eq_nil_iff.2
      intro x _
      simp only [decide_eq_true_eq]
      exact fun h => hj h.1
    rw [this]
    rfl

end Layer

/-! ### all layers -/

section All
variable [CommRing K]

/-- the table after injecting photons in the modes `y 0, y 1, …` -/
def slosTab (U : M K) {k : ℕ} (y : Fin k → ℕ) : List (FState × K) :=
  (List.ofFn y).foldl (fun d i => slosLayer U i d) [(List.replicate U.n 0, 1)]

theorem slosTab_succ (U : M K) {k : ℕ} (y : Fin (k + 1) → ℕ) :
    slosTab U y = slosLayer U (y (Fin.last k)) (slosTab U fun m => y (Fin.castSucc m)) := by
  unfold slosTab
  rw [List.ofFn_succ', List.concat_eq_append, List.foldl_append]
  rfl

theorem slosTab_len (U : M K) {k : ℕ} (y : Fin k → ℕ) :
    ∀ t ∈ (slosTab U y).map (·.1), t.length = U.n := by
  intro t ht
  refine (slos_fold_keys U (List.ofFn y) [(List.replicate U.n 0, 1)] 0 ?_ t ht).1
  intro t ht
  simp only [List.map_cons, List.map_nil, List.mem_singleton] at ht
  subst ht
  exact ⟨by simp, photons_replicate_zero _⟩

theorem slosTab_nodup (U : M K) {k : ℕ} (y : Fin k → ℕ) : ((slosTab U y).map (·.1)).Nodup := by
  cases k with
  | zero => simp [slosTab]
  | succ k => rw [slosTab_succ]; exact slosLayer_nodup _ _ _

theorem slosTab_get (U : M K) {k : ℕ} (y : Fin k → ℕ) (t : FState) (ht : t.length = U.n) :
    slosGet (slosTab U y) t = fsum (fun a b => U.get a b) y (toW U.n t) := by
  induction k generalizing t with
  | zero =>
    rw [fsum_zero]
    simp only [slosTab, List.ofFn_zero, List.foldl_nil]
    rw [slosGet_cons]
    simp only [toW_eq_zero_iff t ht]
    by_cases h : List.replicate U.n 0 = t
    · simp [h]
    · simp [h, slosGet]
  | succ k ih =>
    rw [slosTab_succ, slosLayer_get U _ _ (slosTab_nodup U _) (slosTab_len U _) t ht, fsum_succ]
    apply Finset.sum_congr rfl
    intro j _
    show (if 0 < t.getD j 0 then _ else _) = if 0 < t.getD j 0 then _ else _
    by_cases hj : 0 < t.getD j 0
    · rw [if_pos hj, if_pos hj, ih _ _ (by rw [List.length_set]; exact ht), toW_set t j _ ht]
      rfl
    · rw [if_neg hj, if_neg hj]

end All

end LW.Proofs.C04b
