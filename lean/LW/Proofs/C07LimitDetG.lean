/-
  C07 limit statements, part C2 (deterministic core): closed form of the tape-driven detector, its
  real-valued twin, and agreement of the twin with the model on rational tapes.

  Closed form (every tape, also one that runs out): with `lost u := u > η`, `dark u := u < p_dark`,
  * efficiency stage: mode `n` reads the next `n` entries and keeps `n - #lost` (`keptList`);
  * dark-count stage: each mode reads one entry and adds 1 if `dark` (`darkList`);
  * threshold stage `stage3`.
-/
import Mathlib.Data.Real.Basic
import LW.Proofs.C07Sample

namespace LW.Proofs.C07

section closed
variable {α : Type} (lost dark : α → Prop) [DecidablePred lost] [DecidablePred dark]

/-- kept photons per mode: mode `n` reads the next `n` tape entries (fewer if the tape runs out) -/
def keptList : FState → List α → FState
  | [], _ => []
  | n :: s, tape =>
    (n - (tape.take n).countP (fun u => decide (lost u))) :: keptList s (tape.drop n)

/-- dark counts: one tape entry per mode (none if the tape has run out) -/
def darkList : FState → List α → FState
  | [], _ => []
  | n :: o, [] => n :: darkList o []
  | n :: o, u :: t => (if dark u then n + 1 else n) :: darkList o t

theorem inner_closed {β : Type} (step : Nat × List α → β → Nat × List α)
    (h1 : ∀ c u rest x, step (c, u :: rest) x = (if lost u then c - 1 else c, rest))
    (h0 : ∀ c x, step (c, []) x = (c, []))
    (l : List β) (c : Nat) (tape : List α) :
    l.foldl step (c, tape) =
      (c - (tape.take l.length).countP (fun u => decide (lost u)), tape.drop l.length) := by
  induction l generalizing c tape with
  | nil => simp
  | cons x l ih =>
    rw [List.foldl_cons]
    cases tape with
    | nil =>
      rw [h0, ih]; simp
    | cons u rest =>
      rw [h1, ih]
      simp only [List.length_cons, List.take_succ_cons, List.drop_succ_cons, List.countP_cons]
      by_cases h : lost u
      · simp only [h, if_true, decide_true]
        congr 1; omega
      · simp [h]

theorem stage1_closed (estep : FState × List α → Nat → FState × List α)
    (h : ∀ acc tape n, estep (acc, tape) n =
      (acc ++ [n - (tape.take n).countP (fun u => decide (lost u))], tape.drop n))
    (s : FState) (acc : FState) (tape : List α) :
    s.foldl estep (acc, tape) = (acc ++ keptList lost s tape, tape.drop s.sum) := by
  induction s generalizing acc tape with
  | nil => simp [keptList]
  | cons n s ih =>
    rw [List.foldl_cons, h, ih]
    simp [keptList, List.drop_drop]

theorem stage2_closed (dstep : FState × List α → Nat → FState × List α)
    (h1 : ∀ acc u rest n, dstep (acc, u :: rest) n = (acc ++ [if dark u then n + 1 else n], rest))
    (h0 : ∀ acc n, dstep (acc, []) n = (acc ++ [n], []))
    (o : FState) (acc : FState) (tape : List α) :
    o.foldl dstep (acc, tape) = (acc ++ darkList dark o tape, tape.drop o.length) := by
  induction o generalizing acc tape with
  | nil => simp [darkList]
  | cons n o ih =>
    rw [List.foldl_cons]
    cases tape with
    | nil => rw [h0, ih]; simp [darkList]
    | cons u t => rw [h1, ih]; simp [darkList]

/-- the closed form shared by the model and its real twin -/
def detClosed (d : Det) (s : FState) (tape : List α) : FState × List α :=
  (stage3 d (if d.pDark > 0 then
      darkList dark (if d.eta < 1 then keptList lost s tape else s)
        (if d.eta < 1 then tape.drop s.sum else tape)
    else (if d.eta < 1 then keptList lost s tape else s)),
   if d.pDark > 0 then
      (if d.eta < 1 then tape.drop s.sum else tape).drop
        (if d.eta < 1 then keptList lost s tape else s).length
    else (if d.eta < 1 then tape.drop s.sum else tape))

theorem keptList_length (s : FState) (tape : List α) : (keptList lost s tape).length = s.length := by
  induction s generalizing tape with
  | nil => rfl
  | cons n s ih => simp [keptList, ih]

theorem darkList_length (o : FState) (tape : List α) : (darkList dark o tape).length = o.length := by
  induction o generalizing tape with
  | nil => rfl
  | cons n o ih => cases tape <;> simp [darkList, ih]

end closed

/-! ### the model -/

theorem effStep_closed (d : Det) (acc : FState) (tape : List Rat) (n : Nat) :
    effStep d (acc, tape) n =
      (acc ++ [n - (tape.take n).countP (fun u => decide (u > d.eta))], tape.drop n) := by
  unfold effStep
  simp only
  rw [inner_closed (fun u : Rat => u > d.eta) _ (fun _ _ _ _ => rfl) (fun _ _ => rfl)]
  simp

theorem darkStep_cons (d : Det) (acc : FState) (u : Rat) (rest : List Rat) (n : Nat) :
    darkStep d (acc, u :: rest) n = (acc ++ [if u < d.pDark then n + 1 else n], rest) := rfl

theorem darkStep_nil (d : Det) (acc : FState) (n : Nat) :
    darkStep d (acc, []) n = (acc ++ [n], []) := rfl

/-- CLOSED FORM of the model's `detectorSample`, for every tape -/
theorem detectorSample_closed (d : Det) (s : FState) (tape : List Rat) :
    detectorSample d s tape =
      detClosed (fun u : Rat => u > d.eta) (fun u : Rat => u < d.pDark) d s tape := by
  rw [detectorSample_eq]
  unfold detClosed
  by_cases hperf : d.eta = 1 ∧ d.pDark = 0 ∧ d.pnr
  · obtain ⟨h1, h2, h3⟩ := hperf
    simp [h1, h2, h3, stage3]
  · rw [if_neg hperf]
    unfold stage1 stage2
    by_cases he : d.eta < 1 <;> by_cases hq : d.pDark > 0
    · simp only [he, hq, if_true,
        stage1_closed (fun u : Rat => u > d.eta) (effStep d) (effStep_closed d) s [] tape,
        stage2_closed (fun u : Rat => u < d.pDark) (darkStep d) (darkStep_cons d) (darkStep_nil d),
        List.nil_append]
    · simp only [he, hq, if_true, if_false,
        stage1_closed (fun u : Rat => u > d.eta) (effStep d) (effStep_closed d) s [] tape,
        List.nil_append]
    · simp only [he, hq, if_true, if_false,
        stage2_closed (fun u : Rat => u < d.pDark) (darkStep d) (darkStep_cons d) (darkStep_nil d),
        List.nil_append]
    · simp only [he, hq, if_false]

/-! ### the real-valued twin -/

/-- real-valued twin of `detectorSample`: the same program on a tape of real variates (the
detector settings stay rational and are compared as reals) -/
noncomputable def detectorSampleR (d : Det) (s : FState) (tape : List ℝ) : FState × List ℝ :=
  if d.eta = 1 ∧ d.pDark = 0 ∧ d.pnr then (s, tape)
  else
    -- efficiency
    let (out1, tape1) :=
      if d.eta < 1 then
        s.foldl (fun (acc : FState × List ℝ) n =>
          let (kept, tp) := (List.range n).foldl (fun (st : Nat × List ℝ) _ =>
            match st.2 with
            | u :: rest => (if u > (d.eta : ℝ) then st.1 - 1 else st.1, rest)
            | [] => st) (n, acc.2)
          (acc.1 ++ [kept], tp)) ([], tape)
      else (s, tape)
    -- dark counts
    let (out2, tape2) :=
      if d.pDark > 0 then
        out1.foldl (fun (acc : FState × List ℝ) n =>
          match acc.2 with
          | u :: rest => (acc.1 ++ [if u < (d.pDark : ℝ) then n + 1 else n], rest)
          | [] => (acc.1 ++ [n], [])) ([], tape1)
      else (out1, tape1)
    let out3 := if d.pnr then out2 else out2.map fun c => if c ≥ 1 then 1 else 0
    (out3, tape2)

noncomputable def effStepR (d : Det) (acc : FState × List ℝ) (n : Nat) : FState × List ℝ :=
  let (kept, tp) := (List.range n).foldl (fun (st : Nat × List ℝ) _ =>
    match st.2 with
    | u :: rest => (if u > (d.eta : ℝ) then st.1 - 1 else st.1, rest)
    | [] => st) (n, acc.2)
  (acc.1 ++ [kept], tp)

noncomputable def darkStepR (d : Det) (acc : FState × List ℝ) (n : Nat) : FState × List ℝ :=
  match acc.2 with
  | u :: rest => (acc.1 ++ [if u < (d.pDark : ℝ) then n + 1 else n], rest)
  | [] => (acc.1 ++ [n], [])

theorem detectorSampleR_eq (d : Det) (s : FState) (tape : List ℝ) :
    detectorSampleR d s tape =
      if d.eta = 1 ∧ d.pDark = 0 ∧ d.pnr then (s, tape)
      else
        (stage3 d
          ((if d.pDark > 0 then
            (if d.eta < 1 then s.foldl (effStepR d) ([], tape) else (s, tape)).1.foldl (darkStepR d)
              ([], (if d.eta < 1 then s.foldl (effStepR d) ([], tape) else (s, tape)).2)
          else (if d.eta < 1 then s.foldl (effStepR d) ([], tape) else (s, tape))).1),
         (if d.pDark > 0 then
            (if d.eta < 1 then s.foldl (effStepR d) ([], tape) else (s, tape)).1.foldl (darkStepR d)
              ([], (if d.eta < 1 then s.foldl (effStepR d) ([], tape) else (s, tape)).2)
          else (if d.eta < 1 then s.foldl (effStepR d) ([], tape) else (s, tape))).2) := rfl

theorem effStepR_closed (d : Det) (acc : FState) (tape : List ℝ) (n : Nat) :
    effStepR d (acc, tape) n =
      (acc ++ [n - (tape.take n).countP (fun u => decide (u > (d.eta : ℝ)))], tape.drop n) := by
  unfold effStepR
  simp only
  rw [inner_closed (fun u : ℝ => u > (d.eta : ℝ)) _ (fun _ _ _ _ => rfl) (fun _ _ => rfl)]
  simp

/-- CLOSED FORM of the real twin, for every tape -/
theorem detectorSampleR_closed (d : Det) (s : FState) (tape : List ℝ) :
    detectorSampleR d s tape =
      detClosed (fun u : ℝ => u > (d.eta : ℝ)) (fun u : ℝ => u < (d.pDark : ℝ)) d s tape := by
  rw [detectorSampleR_eq]
  unfold detClosed
  by_cases hperf : d.eta = 1 ∧ d.pDark = 0 ∧ d.pnr
  · obtain ⟨h1, h2, h3⟩ := hperf
    simp [h1, h2, h3, stage3]
  · rw [if_neg hperf]
    by_cases he : d.eta < 1 <;> by_cases hq : d.pDark > 0
    · simp only [he, hq, if_true,
        stage1_closed (fun u : ℝ => u > (d.eta : ℝ)) (effStepR d) (effStepR_closed d) s [] tape,
        stage2_closed (fun u : ℝ => u < (d.pDark : ℝ)) (darkStepR d) (fun _ _ _ _ => rfl)
          (fun _ _ => rfl),
        List.nil_append]
    · simp only [he, hq, if_true, if_false,
        stage1_closed (fun u : ℝ => u > (d.eta : ℝ)) (effStepR d) (effStepR_closed d) s [] tape,
        List.nil_append]
    · simp only [he, hq, if_true, if_false,
        stage2_closed (fun u : ℝ => u < (d.pDark : ℝ)) (darkStepR d) (fun _ _ _ _ => rfl)
          (fun _ _ => rfl),
        List.nil_append]
    · simp only [he, hq, if_false]

/-! ### naturality in the tape alphabet, and agreement of the twin with the model -/

section nat
variable {α β : Type}

theorem keptList_map (lost : α → Prop) [DecidablePred lost] (f : β → α) (s : FState)
    (tape : List β) :
    keptList lost s (tape.map f) = keptList (fun b => lost (f b)) s tape := by
  induction s generalizing tape with
  | nil => rfl
  | cons n s ih =>
    simp only [keptList, ← List.map_take, ← List.map_drop, List.countP_map, ih]
    rfl

theorem darkList_map (dark : α → Prop) [DecidablePred dark] (f : β → α) (o : FState)
    (tape : List β) :
    darkList dark o (tape.map f) = darkList (fun b => dark (f b)) o tape := by
  induction o generalizing tape with
  | nil => rfl
  | cons n o ih =>
    cases tape with
    | nil => simpa [darkList] using ih []
    | cons u t => simp [darkList, ih]

theorem keptList_congr (lost lost' : α → Prop) [DecidablePred lost] [DecidablePred lost']
    (h : ∀ a, lost a ↔ lost' a) (s : FState) (tape : List α) :
    keptList lost s tape = keptList lost' s tape := by
  induction s generalizing tape with
  | nil => rfl
  | cons n s ih =>
    simp only [keptList, ih]
    congr 3
    funext u
    exact decide_eq_decide.mpr (h u)

theorem darkList_congr (dark dark' : α → Prop) [DecidablePred dark] [DecidablePred dark']
    (h : ∀ a, dark a ↔ dark' a) (o : FState) (tape : List α) :
    darkList dark o tape = darkList dark' o tape := by
  induction o generalizing tape with
  | nil => rfl
  | cons n o ih =>
    cases tape with
    | nil => simp [darkList, ih]
    | cons u t =>
      simp only [darkList, ih]
      by_cases hu : dark u
      · simp [hu, (h u).mp hu]
      · have hu' : ¬ dark' u := fun h' => hu ((h u).mpr h')
        simp [hu, hu']

end nat

/-- AGREEMENT: on a rational tape the real twin does what the model does (same detected state, and
the same unread tape) -/
theorem detectorSampleR_cast (d : Det) (s : FState) (tape : List ℚ) :
    detectorSampleR d s (tape.map (fun q : ℚ => (q : ℝ))) =
      ((detectorSample d s tape).1, (detectorSample d s tape).2.map (fun q : ℚ => (q : ℝ))) := by
  rw [detectorSampleR_closed, detectorSample_closed]
  unfold detClosed
  have hk : ∀ tp : List ℚ, keptList (fun u : ℝ => u > (d.eta : ℝ)) s (tp.map (fun q : ℚ => (q : ℝ))) =
      keptList (fun u : ℚ => u > d.eta) s tp := by
    intro tp
    rw [keptList_map]
    exact keptList_congr _ _ (fun a => by exact_mod_cast Iff.rfl) s tp
  have hd : ∀ (o : FState) (tp : List ℚ),
      darkList (fun u : ℝ => u < (d.pDark : ℝ)) o (tp.map (fun q : ℚ => (q : ℝ))) =
      darkList (fun u : ℚ => u < d.pDark) o tp := by
    intro o tp
    rw [darkList_map]
    exact darkList_congr _ _ (fun a => by exact_mod_cast Iff.rfl) o tp
  by_cases he : d.eta < 1 <;> by_cases hq : d.pDark > 0 <;>
    simp only [he, hq, if_true, if_false, hk, ← List.map_drop, hd]

end LW.Proofs.C07
