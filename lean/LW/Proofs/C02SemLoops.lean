/-
  LW.Proofs.C02SemLoops — explicit description of the two loops of `Circuit.add`:
  the pass-through insertion loop (targets, rank equations) and the new-ancilla loop.
-/
import LW.Proofs.C02SemBumps
import LW.Proofs.C02Final
import LW.Proofs.C02Reject

open scoped BigOperators

namespace LW.Proofs.C02Sem

open LW LW.Proofs.C01Aux LW.Proofs.C02

variable {K : Type}

/-! ### counting below a bound -/

theorem cntLt_perm {l1 l2 : List Nat} (h : l1.Perm l2) (y : Nat) : cntLt l1 y = cntLt l2 y := by
  unfold cntLt
  exact (h.filter _).length_eq

theorem cntLt_sortNat (l : List Nat) (y : Nat) : cntLt (sortNat l) y = cntLt l y :=
  cntLt_perm (perm_sortNat l) y

theorem cntLt_map_add (l : List Nat) (s y : Nat) : cntLt (l.map (s + ·)) (s + y) = cntLt l y := by
  unfold cntLt
  rw [List.filter_map, List.length_map]
  congr 1
  apply List.filter_congr
  intro k _
  simp only [Function.comp, decide_eq_decide]
  omega

theorem cntLt_map_bump (l : List Nat) (t y : Nat) (h : y ≤ t) :
    cntLt (l.map (bump t)) y = cntLt l y := by
  unfold cntLt
  rw [List.filter_map, List.length_map]
  congr 1
  apply List.filter_congr
  intro k _
  simp only [Function.comp, decide_eq_decide]
  unfold bump
  split <;> omega

theorem cntLt_all (l : List Nat) (y : Nat) (h : ∀ k ∈ l, k < y) : cntLt l y = l.length := by
  unfold cntLt
  rw [List.filter_eq_self.mpr]
  intro k hk
  simp only [decide_eq_true_eq]
  exact h k hk

/-- on a duplicate-free list the count grows at most as fast as the bound -/
theorem cntLt_gap_sorted (l : List Nat) (hs : l.Pairwise (· < ·)) (y1 y2 : Nat) (h : y1 ≤ y2) :
    cntLt l y2 + y1 ≤ cntLt l y1 + y2 := by
  induction l with
  | nil => simp [cntLt]; exact h
  | cons a l ih =>
    have hk : ∀ k' ∈ l, a < k' := fun k' hk' => List.rel_of_pairwise_cons hs hk'
    rw [cntLt_cons, cntLt_cons]
    have := ih hs.of_cons
    by_cases h1 : a < y1
    · rw [if_pos h1, if_pos (by omega)]; omega
    · rw [if_neg h1]
      have z1 : cntLt l y1 = 0 := cntLt_of_le l y1 (fun k hk' => by have := hk k hk'; omega)
      by_cases h2 : a < y2
      · rw [if_pos h2]
        have := cntLt_bound a l hs.of_cons hk y2 h2
        omega
      · rw [if_neg h2]; omega

theorem cntLt_gap (l : List Nat) (hnd : l.Nodup) (y1 y2 : Nat) (h : y1 ≤ y2) :
    cntLt l y2 + y1 ≤ cntLt l y1 + y2 := by
  rw [← cntLt_sortNat l y1, ← cntLt_sortNat l y2]
  exact cntLt_gap_sorted _ (strictSorted_sortNat hnd) y1 y2 h

/-- solutions of the rank equation are ordered like their offsets -/
theorem rank_lt (l : List Nat) (hnd : l.Nodup) {a1 a2 t1 t2 : Nat} (h1 : a1 + cntLt l t1 = t1)
    (h2 : a2 + cntLt l t2 = t2) (ha : a1 < a2) : t1 < t2 := by
  by_contra hc
  have := cntLt_gap l hnd t2 t1 (by omega)
  omega

/-! ### the target computation -/

abbrev stepFold (l : List Nat) (t0 : Int) : Int :=
  l.foldl (fun (t : Int) (m : Nat) => if t > (m : Int) then t + 1 else t) t0

theorem stepFold_mono (l : List Nat) {a b : Int} (h : a ≤ b) : stepFold l a ≤ stepFold l b := by
  induction l generalizing a b with
  | nil => exact h
  | cons m l ih =>
    simp only [stepFold, List.foldl_cons]
    apply ih
    split <;> split <;> omega

theorem stepFold_of_le (l : List Nat) (t0 : Int) (h : ∀ a ∈ l, t0 ≤ (a : Int)) : stepFold l t0 = t0 := by
  induction l with
  | nil => rfl
  | cons m l ih =>
    simp only [stepFold, List.foldl_cons]
    have : ¬ t0 > (m : Int) := by have := h m (by simp); omega
    rw [if_neg this]
    exact ih (fun a ha => h a (by simp [ha]))

theorem stepFold_count (l : List Nat) (hs : l.Pairwise (· < ·)) (t0 : Int) :
    stepFold l t0 = t0 + ((l.filter fun (a : Nat) => decide ((a : Int) < stepFold l t0)).length : Int) := by
  induction l generalizing t0 with
  | nil => simp [stepFold]
  | cons m l ih =>
    by_cases hc : t0 > (m : Int)
    · have e : stepFold (m :: l) t0 = stepFold l (t0 + 1) := by
        simp only [stepFold, List.foldl_cons, if_pos hc]
      rw [e]
      have hR := (stepFold_bounds l (t0 + 1)).1
      have := ih hs.of_cons (t0 + 1)
      have hi : (m : Int) < stepFold l (t0 + 1) := by
        show (m : Int) < List.foldl _ _ _
        omega
      simp only [List.filter_cons, hi, decide_true, if_true, List.length_cons]
      omega
    · have e : stepFold (m :: l) t0 = stepFold l t0 := by
        simp only [stepFold, List.foldl_cons, if_neg hc]
      have e2 : stepFold l t0 = t0 := stepFold_of_le l t0 (fun b hb => by
        have := List.rel_of_pairwise_cons hs hb
        omega)
      rw [e, e2]
      have : (m :: l).filter (fun (a : Nat) => decide ((a : Int) < t0)) = [] := by
        rw [List.filter_eq_nil_iff]
        intro a ha
        simp only [decide_eq_true_eq]
        rcases List.mem_cons.mp ha with rfl | ha
        · omega
        · have := List.rel_of_pairwise_cons hs ha; omega
      rw [this]; simp

/-- the target satisfies the rank equation (for a non-negative offset) -/
theorem targetOf_rank (keys : List Nat) (hnd : keys.Nodup) (a : Nat) :
    0 ≤ targetOf keys (a : Int) ∧
    a + cntLt keys (targetOf keys (a : Int)).toNat = (targetOf keys (a : Int)).toNat := by
  have h0 : (a : Int) ≤ targetOf keys (a : Int) := (targetOf_bounds keys (a : Int)).1
  have hc := stepFold_count (sortNat keys) (strictSorted_sortNat hnd) (a : Int)
  have ht : targetOf keys (a : Int) = stepFold (sortNat keys) (a : Int) := rfl
  rw [← ht] at hc
  have hf : (sortNat keys).filter (fun (x : Nat) => decide ((x : Int) < targetOf keys (a : Int)))
      = (sortNat keys).filter (fun x => decide (x < (targetOf keys (a : Int)).toNat)) := by
    apply List.filter_congr
    intro x _
    simp only [decide_eq_decide]
    omega
  rw [hf] at hc
  have : cntLt keys (targetOf keys (a : Int)).toNat
      = ((sortNat keys).filter (fun x => decide (x < (targetOf keys (a : Int)).toNat))).length := by
    rw [← cntLt_sortNat]; rfl
  refine ⟨by omega, ?_⟩
  omega

theorem targetOf_mono (keys : List Nat) {a b : Int} (h : a ≤ b) : targetOf keys a ≤ targetOf keys b :=
  stepFold_mono _ h

/-! ### `InsOk` of an extended list -/

theorem insOk_append (n : Nat) (ks : List Nat) (t : Nat) (h : InsOk n ks) (ht : t ≤ n + ks.length) :
    InsOk n (ks ++ [t]) := by
  induction ks generalizing n with
  | nil => exact ⟨by simpa using ht, trivial⟩
  | cons k ks ih =>
    refine ⟨h.1, ih (n + 1) h.2 ?_⟩
    simp only [List.length_cons] at ht; omega

theorem insOk_of_sorted_lt (n : Nat) (ks : List Nat) (hlt : ∀ k ∈ ks, k ≤ n) : InsOk n ks := by
  induction ks generalizing n with
  | nil => trivial
  | cons k ks ih =>
    exact ⟨hlt k (by simp), ih (n + 1) (fun k' hk' => by have := hlt k' (by simp [hk']); omega)⟩

/-! ### the pass-through loop -/

section
variable [Zero K] [One K]

/-- state of the pass-through loop after processing the ancillas `done` -/
structure PtInv (sub0 : Circ K) (spec0 : List (Comp K)) (mode : Nat) (done ts : List Nat)
    (st : Circ.AddSt K) : Prop where
  spec : st.spec = ts.foldl (fun s k => Circ.addEmptyModeSpec s k) spec0
  inHer : st.sub.inHer = Dict.mapKeys (bumps ts) sub0.inHer
  n_eq : st.sub.n = sub0.n + ts.length
  sorted : ts.Pairwise (· < ·)
  ok : InsOk sub0.n ts
  lt : ∀ t ∈ ts, t < st.sub.n
  fwd : ∀ i ∈ done, i < mode ∨
    (mode ≤ i ∧ ∃ t ∈ ts, i - mode + cntLt st.sub.inHer.keys t = t) ∨
    (mode ≤ i ∧ (st.sub.n : Int) ≤ targetOf st.sub.inHer.keys ((i : Int) - (mode : Int)))
  bwd : ∀ t ∈ ts, ∃ i ∈ done, mode ≤ i ∧ i - mode + cntLt st.sub.inHer.keys t = t

theorem PtInv.init (sub0 : Circ K) (spec0 : List (Comp K)) (mode : Nat) :
    PtInv sub0 spec0 mode [] [] ⟨sub0, spec0⟩ := by
  refine ⟨rfl, ?_, rfl, List.Pairwise.nil, trivial, ?_, ?_, ?_⟩
  · simp [Dict.mapKeys, bumps]
  · intro t ht; cases ht
  · intro i hi; cases hi
  · intro t ht; cases ht

theorem PtInv.step {sub0 : Circ K} {spec0 : List (Comp K)} {mode : Nat} {done ts : List Nat}
    {st : Circ.AddSt K} (inv : PtInv sub0 spec0 mode done ts st) (hnd : sub0.inHer.keys.Nodup)
    (i : Nat) (hi : ∀ j ∈ done, j < i) :
    ∃ ts', PtInv sub0 spec0 mode (done ++ [i]) ts' (ptStep mode st i) := by
  have hkeys : st.sub.inHer.keys = sub0.inHer.keys.map (bumps ts) := by
    rw [inv.inHer, keys_mapKeys]
  have hknd : st.sub.inHer.keys.Nodup := by
    rw [hkeys]; exact nodup_map_of_inj (fun a b => bumps_inj ts) hnd
  rcases ptStep_cases mode st i with ⟨e, hno⟩ | ⟨e, hyes⟩
  · -- nothing inserted
    rw [e]
    refine ⟨ts, inv.spec, inv.inHer, inv.n_eq, inv.sorted, inv.ok, inv.lt, ?_, ?_⟩
    · intro j hj
      rcases List.mem_append.mp hj with hj | hj
      · exact inv.fwd j hj
      · simp only [List.mem_singleton] at hj; subst hj
        obtain ⟨b1, -, b3⟩ := targetOf_bounds st.sub.inHer.keys ((j : Int) - (mode : Int))
        by_cases hjm : j < mode
        · exact Or.inl hjm
        · right; right
          refine ⟨by omega, ?_⟩
          by_contra hc
          exact hno ⟨by omega, by omega⟩
    · intro t ht
      obtain ⟨j, hj, h1, h2⟩ := inv.bwd t ht
      exact ⟨j, List.mem_append_left _ hj, h1, h2⟩
  · -- a pass-through mode is inserted at the target
    rw [e]
    obtain ⟨-, -, b3⟩ := targetOf_bounds st.sub.inHer.keys ((i : Int) - (mode : Int))
    have him : mode ≤ i := by
      by_contra hc
      have := b3 (by omega)
      omega
    have hcast : ((i : Int) - (mode : Int)) = ((i - mode : Nat) : Int) := by omega
    obtain ⟨r0, r1⟩ := targetOf_rank st.sub.inHer.keys hknd (i - mode)
    rw [← hcast] at r0 r1
    set T := targetOf st.sub.inHer.keys ((i : Int) - (mode : Int)) with hT
    set t := T.toNat with ht
    have htn : t < st.sub.n := by omega
    -- the new target lies above all previous ones
    have habove : ∀ t' ∈ ts, t' < t := by
      intro t' ht'
      obtain ⟨j, hj, hj1, hj2⟩ := inv.bwd t' ht'
      have := hi j hj
      exact rank_lt _ hknd hj2 r1 (by omega)
    have hkeys' : (st.sub.addEmptyModeBook t).inHer.keys = st.sub.inHer.keys.map (bump t) := by
      show (bumpDict t st.sub.inHer).keys = _
      rw [bumpDict_of_nodup hknd, keys_mapKeys]
    refine ⟨ts ++ [t], ?_, ?_, ?_, ?_, ?_, ?_, ?_, ?_⟩
    · show Circ.addEmptyModeSpec st.spec t = _
      rw [List.foldl_append, ← inv.spec]; rfl
    · show bumpDict t st.sub.inHer = _
      rw [bumpDict_of_nodup hknd, inv.inHer, mapKeys_mapKeys]
      congr 1
      funext x
      simp only [Function.comp, bumps_append, bumps_cons, bumps_nil]
    · show st.sub.n + 1 = _
      rw [inv.n_eq, List.length_append]; simp; omega
    · rw [List.pairwise_append]
      refine ⟨inv.sorted, List.pairwise_singleton _ _, ?_⟩
      intro a ha b hb
      simp only [List.mem_singleton] at hb; subst hb
      exact habove a ha
    · exact insOk_append _ _ _ inv.ok (by rw [← inv.n_eq]; omega)
    · intro t' ht'
      show t' < st.sub.n + 1
      rcases List.mem_append.mp ht' with h | h
      · have := inv.lt t' h; omega
      · simp only [List.mem_singleton] at h; subst h; omega
    · intro j hj
      rw [hkeys']
      rcases List.mem_append.mp hj with hj | hj
      · rcases inv.fwd j hj with h | ⟨h1, t', ht', h2⟩ | ⟨h1, h2⟩
        · exact Or.inl h
        · right; left
          refine ⟨h1, t', List.mem_append_left _ ht', ?_⟩
          rw [cntLt_map_bump _ _ _ (by have := habove t' ht'; omega)]
          exact h2
        · exfalso
          have hji := hi j hj
          have := targetOf_mono st.sub.inHer.keys
            (a := (j : Int) - (mode : Int)) (b := (i : Int) - (mode : Int)) (by omega)
          omega
      · simp only [List.mem_singleton] at hj; subst hj
        right; left
        refine ⟨him, t, by simp, ?_⟩
        rw [cntLt_map_bump _ _ _ (Nat.le_refl _)]
        exact r1
    · intro t' ht'
      rw [hkeys']
      rcases List.mem_append.mp ht' with h | h
      · obtain ⟨j, hj, h1, h2⟩ := inv.bwd t' h
        refine ⟨j, List.mem_append_left _ hj, h1, ?_⟩
        rw [cntLt_map_bump _ _ _ (by have := habove t' h; omega)]
        exact h2
      · simp only [List.mem_singleton] at h; subst h
        refine ⟨i, by simp, him, ?_⟩
        rw [cntLt_map_bump _ _ _ (Nat.le_refl _)]
        exact r1

theorem PtInv.fold {sub0 : Circ K} {spec0 : List (Comp K)} {mode : Nat} (hnd : sub0.inHer.keys.Nodup)
    (S : List Nat) (hS : S.Pairwise (· < ·)) {done ts : List Nat} {st : Circ.AddSt K}
    (inv : PtInv sub0 spec0 mode done ts st) (hd : ∀ j ∈ done, ∀ i ∈ S, j < i) :
    ∃ ts', PtInv sub0 spec0 mode (done ++ S) ts' (S.foldl (ptStep mode) st) := by
  induction S generalizing done ts st with
  | nil => exact ⟨ts, by simpa using inv⟩
  | cons i S ih =>
    obtain ⟨ts1, inv1⟩ := inv.step hnd i (fun j hj => hd j hj i (by simp))
    obtain ⟨ts2, inv2⟩ := ih hS.of_cons inv1 (by
      intro j hj x hx
      rcases List.mem_append.mp hj with h | h
      · exact hd j h x (by simp [hx])
      · simp only [List.mem_singleton] at h; subst h
        exact List.rel_of_pairwise_cons hS hx)
    exact ⟨ts2, by simpa using inv2⟩

/-! ### the new-ancilla loop -/

theorem ancFold_explicit (mode : Nat) (L : List Nat) (hL : L.Pairwise (· < ·)) (s : Circ K)
    (hin : s.inHer.keys.Nodup) (hout : s.outHer.keys.Nodup) :
    (L.foldl (ancStep mode) s).n = s.n + L.length ∧
    (L.foldl (ancStep mode) s).spec
      = (L.map (mode + ·)).foldl (fun sp k => Circ.addEmptyModeSpec sp k) s.spec ∧
    (L.foldl (ancStep mode) s).inHer = Dict.mapKeys (bumps (L.map (mode + ·))) s.inHer ∧
    (L.foldl (ancStep mode) s).outHer = Dict.mapKeys (bumps (L.map (mode + ·))) s.outHer ∧
    (L.foldl (ancStep mode) s).internal
      = s.internal.map (bumps (L.map (mode + ·))) ++ L.map (mode + ·) := by
  induction L generalizing s with
  | nil =>
    have e : bumps [] = id := rfl
    refine ⟨rfl, rfl, ?_, ?_, ?_⟩ <;> simp [Dict.mapKeys, e]
  | cons m L ih =>
    have hm : ∀ m' ∈ L, m < m' := fun m' hm' => List.rel_of_pairwise_cons hL hm'
    have e_in : (ancStep mode s m).inHer = Dict.mapKeys (bump (mode + m)) s.inHer :=
      bumpDict_of_nodup hin
    have e_out : (ancStep mode s m).outHer = Dict.mapKeys (bump (mode + m)) s.outHer :=
      bumpDict_of_nodup hout
    have hin' : (ancStep mode s m).inHer.keys.Nodup := by
      rw [e_in, keys_mapKeys]; exact nodup_map_of_inj (fun a b => bump_inj) hin
    have hout' : (ancStep mode s m).outHer.keys.Nodup := by
      rw [e_out, keys_mapKeys]; exact nodup_map_of_inj (fun a b => bump_inj) hout
    obtain ⟨h1, h2, h3, h4, h5⟩ := ih hL.of_cons (ancStep mode s m) hin' hout'
    simp only [List.foldl_cons, List.map_cons]
    refine ⟨?_, ?_, ?_, ?_, ?_⟩
    · rw [h1]; show s.n + 1 + L.length = _; simp only [List.length_cons]; omega
    · rw [h2]; rfl
    · rw [h3, e_in, mapKeys_mapKeys]; rfl
    · rw [h4, e_out, mapKeys_mapKeys]; rfl
    · rw [h5]
      show (s.internal.map (bump (mode + m)) ++ [mode + m]).map _ ++ _ = _
      rw [List.map_append, List.map_map, List.append_assoc]
      congr 1
      show [bumps (L.map (mode + ·)) (mode + m)] ++ _ = _
      rw [bumps_of_lt _ _ (by
        intro k hk
        simp only [List.mem_map] at hk
        obtain ⟨m', hm', rfl⟩ := hk
        have := hm m' hm'; omega)]
      rfl

end

end LW.Proofs.C02Sem
