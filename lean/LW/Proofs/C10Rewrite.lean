/-
  LW.Proofs.C10Rewrite — the two circuit rewrites (`compress_mode_swaps`,
  `remove_non_adjacent_bs`) are natural in the scalar type as well: they look at modes only, so a
  circuit stays linked to its parameters across them (finding F22 was the code deep-copying the
  Parameter objects at this point).
-/
import LW.Proofs.C10Map

namespace LW

variable {K K' : Type}

theorem Comp.blocked_map (f : K → K') (c : Comp K) : (c.map f).blocked = c.blocked := by
  cases c with
  | prim p => cases p <;> rfl
  | group cs m1 m2 hin hout => rfl

theorem compressScan_map (f : K → K') (l : List (Nat × Comp K)) (σ : Dict) (b s : List Nat) :
    compressScan (l.map fun p => (p.1, p.2.map f)) σ b s = compressScan l σ b s := by
  induction l generalizing σ b s with
  | nil => rfl
  | cons x xs ih =>
    obtain ⟨k, c⟩ := x
    simp only [List.map_cons]
    generalize hxs : xs.map (fun p => (p.1, p.2.map f)) = xs' at ih
    cases c with
    | group cs m1 m2 hin hout =>
      simp only [Comp.map, compressScan, ih]
      rfl
    | prim p =>
      cases p <;> simp only [Comp.map, Prim.map, compressScan, ih] <;> rfl

theorem compressGo_map (f : K → K') (l : List (Nat × Comp K)) (s : List Nat) :
    compressGo (l.map fun p => (p.1, p.2.map f)) s = (compressGo l s).map (Comp.map f) := by
  induction l generalizing s with
  | nil => rfl
  | cons x xs ih =>
    obtain ⟨k, c⟩ := x
    simp only [List.map_cons]
    have hsc : ∀ σ b s, compressScan (xs.map fun p => (p.1, p.2.map f)) σ b s = compressScan xs σ b s :=
      fun σ b s => compressScan_map f xs σ b s
    generalize hxs : xs.map (fun p => (p.1, p.2.map f)) = xs' at ih hsc
    cases c with
    | group cs m1 m2 hin hout =>
      simp only [Comp.map, compressGo, ih]
      split <;> rfl
    | prim p =>
      cases p <;> simp only [Comp.map, Prim.map, compressGo, ih, hsc] <;> split <;> rfl

theorem compressSwaps_map (f : K → K') (spec : List (Comp K)) :
    compressSwaps (spec.map (Comp.map f)) = (compressSwaps spec).map (Comp.map f) := by
  unfold compressSwaps
  rw [List.length_map, ← compressGo_map]
  congr 1
  rw [List.zip_map_right]
  rfl

theorem Prim.convertNonAdj_map (f : K → K') (p : Prim K) :
    (p.map f).convertNonAdj = p.convertNonAdj.map (Prim.map f) := by
  cases p with
  | bs m1 m2 c s cv =>
    simp only [Prim.map, Prim.convertNonAdj]
    split
    · rfl
    · split <;> rfl
  | _ => rfl

theorem convertNonAdj_map (f : K → K') (spec : List (Comp K)) :
    convertNonAdj (spec.map (Comp.map f)) = (convertNonAdj spec).map (Comp.map f) := by
  unfold convertNonAdj
  induction spec with
  | nil => rfl
  | cons c cs ih =>
    simp only [List.map_cons, List.flatMap_cons, List.map_append, ih]
    congr 1
    cases c with
    | prim p =>
      simp only [Comp.map, Prim.convertNonAdj_map, List.map_map]
      rfl
    | group ps m1 m2 hin hout =>
      simp only [Comp.map, List.map_cons, List.map_nil]
      congr 2
      rw [List.flatMap_map, List.map_flatMap]
      congr 1
      funext p
      exact Prim.convertNonAdj_map f p

namespace Circ

theorem map_compress (f : K → K') (c : Circ K) : (c.map f).compress = c.compress.map f := by
  simp only [Circ.compress, Circ.map, compressSwaps_map]

theorem map_removeNonAdj (f : K → K') (c : Circ K) : (c.map f).removeNonAdj = c.removeNonAdj.map f := by
  simp only [Circ.removeNonAdj, Circ.map, convertNonAdj_map]

end Circ

end LW
