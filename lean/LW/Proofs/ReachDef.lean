/-
  LW.Proofs.ReachDef — the circuits constructible through the API (definition only).
  Parameters handed to the API are constrained exactly as DESIGN §3.1 prescribes
  (c² + s² = 1 real, |p| = 1, a² + b² = 1 real, unitary blocks unitary).
-/
import LW.Proofs.CircuitWf
import LW.Proofs.CircInv
import LW.Proofs.GroupWf
import LW.Model.Rewrite

namespace LW

variable {K : Type} [CommRing K] [StarRing K]

/-- a real pair on the unit circle: the algebraic image of a reflectivity / loss in `[0,1]` -/
def UnitPair (x : K × K) : Prop := x.1 * x.1 + x.2 * x.2 = 1 ∧ star x.1 = x.1 ∧ star x.2 = x.2

/-- circuits constructible through the API -/
inductive Reach : Circ K → Prop
  | new (n : Nat) : Reach (Circ.new n)
  | unitary (u : M K) (hu : IsUnitary u) : Reach { n := u.n, spec := [.prim (.unitary 0 u)] }
  | bs {c c' : Circ K} (m1 m2 : Int) (cs : K × K) (cv : Conv) (l : Option (K × K)) :
      Reach c → UnitPair cs → (∀ ab, l = some ab → UnitPair ab) → c.bs m1 m2 cs cv l = .ok c' → Reach c'
  | ps {c c' : Circ K} (m : Int) (p : K) (l : Option (K × K)) :
      Reach c → p * star p = 1 → (∀ ab, l = some ab → UnitPair ab) → c.ps m p l = .ok c' → Reach c'
  | loss {c c' : Circ K} (m : Int) (ab : K × K) :
      Reach c → UnitPair ab → c.loss m ab = .ok c' → Reach c'
  | barrier {c c' : Circ K} (ms : Option (List Int)) : Reach c → c.barrier ms = .ok c' → Reach c'
  | swaps {c c' : Circ K} (sw : List (Int × Int)) : Reach c → c.modeSwaps sw = .ok c' → Reach c'
  | herald {c c' : Circ K} (k : Nat) (i o : Int) : Reach c → c.herald k i o = .ok c' → Reach c'
  | add {c s c' : Circ K} (m : Int) (g : Bool) : Reach c → Reach s → c.add s m g = .ok c' → Reach c'
  | plus {a b c' : Circ K} : Reach a → Reach b → a.plus b = .ok c' → Reach c'
  | unpack {c : Circ K} : Reach c → Reach c.unpackGroups
  | compress {c : Circ K} : Reach c → Reach c.compress
  | nonadj {c : Circ K} : Reach c → Reach c.removeNonAdj

end LW
