/-
  LW.Proofs.C01Unitary — every component matrix is unitary, hence so is `compile`.
-/
import Mathlib.Tactic.LinearCombination
import Mathlib.Tactic.Ring
import LW.Proofs.UnitaryAlg
import LW.Proofs.C01Lead

open scoped BigOperators

namespace LW.Proofs.C01Aux

variable {K : Type} [CommRing K] [StarRing K]

set_option linter.unusedSectionVars false

/-! ### embed1 -/

theorem UN_embed1 {N : Nat} (m : Nat) (p : K) (hp : p * star p = 1) : (embed1 N m p).UN N := by
  rw [M.UN_iff_rows]
  intro r c hr hc
  rw [Finset.sum_congr rfl (g := fun k => (if r = k then (1 : K) else 0) *
      ((if r = m then p else 1) * star ((embed1 N m p).get c k))) (fun k hk => by
    rw [get_embed1 _ _ hr (Finset.mem_range.mp hk)]
    by_cases h : r = k <;> simp [h])]
  rw [sum_delta_left hr, get_embed1 _ _ hc hr]
  by_cases h : r = c
  · subst h
    by_cases hm : r = m <;> simp [hm, hp]
  · simp [h, Ne.symm h]

/-! ### embed2 -/

theorem embed2_other_row {N r k m1 m2 : Nat} (a b c d : K) (hr : r < N) (hk : k < N)
    (h1 : r ≠ m1) (h2 : r ≠ m2) :
    (embed2 N m1 m2 a b c d).get r k = if r = k then 1 else 0 := by
  rw [get_embed2 _ _ _ _ _ _ hr hk]; simp [h1, h2]

theorem embed2_other_col {N r k m1 m2 : Nat} (a b c d : K) (hr : r < N) (hk : k < N)
    (h1 : k ≠ m1) (h2 : k ≠ m2) :
    (embed2 N m1 m2 a b c d).get r k = if r = k then 1 else 0 := by
  rw [get_embed2 _ _ _ _ _ _ hr hk]; simp [h1, h2]

theorem UN_embed2 {N m1 m2 : Nat} (a b c d : K) (h1 : m1 < N) (h2 : m2 < N) (hne : m1 ≠ m2)
    (haa : a * star a + b * star b = 1) (hdd : c * star c + d * star d = 1)
    (had : a * star c + b * star d = 0) : (embed2 N m1 m2 a b c d).UN N := by
  have hda : c * star a + d * star b = 0 := by
    have := congrArg star had
    simp only [star_add, star_mul', star_star, star_zero] at this
    rw [← this]; ring
  have hne' : m2 ≠ m1 := Ne.symm hne
  have g11 : (embed2 N m1 m2 a b c d).get m1 m1 = a := by
    rw [get_embed2 _ _ _ _ _ _ h1 h1]; simp
  have g12 : (embed2 N m1 m2 a b c d).get m1 m2 = b := by
    rw [get_embed2 _ _ _ _ _ _ h1 h2]; simp [hne']
  have g21 : (embed2 N m1 m2 a b c d).get m2 m1 = c := by
    rw [get_embed2 _ _ _ _ _ _ h2 h1]; simp [hne, hne']
  have g22 : (embed2 N m1 m2 a b c d).get m2 m2 = d := by
    rw [get_embed2 _ _ _ _ _ _ h2 h2]; simp [hne']
  rw [M.UN_iff_rows]
  intro r c' hr hc
  by_cases hro : r ≠ m1 ∧ r ≠ m2
  · -- `r` is an untouched mode
    rw [Finset.sum_congr rfl (fun k hk => by
      rw [embed2_other_row a b c d hr (Finset.mem_range.mp hk) hro.1 hro.2])]
    rw [sum_delta_left hr, embed2_other_col a b c d hc hr hro.1 hro.2]
    by_cases h : r = c'
    · simp [h]
    · simp [h, Ne.symm h]
  by_cases hco : c' ≠ m1 ∧ c' ≠ m2
  · rw [Finset.sum_congr rfl (fun k hk => by
      rw [embed2_other_row a b c d hc (Finset.mem_range.mp hk) hco.1 hco.2])]
    rw [sum_mul_star_delta hc, embed2_other_col a b c d hr hc hco.1 hco.2]
  · have hsupp : ∀ k, k < N → k ≠ m1 → k ≠ m2 →
        (embed2 N m1 m2 a b c d).get r k * star ((embed2 N m1 m2 a b c d).get c' k) = 0 := by
      intro k hk e1 e2
      rw [embed2_other_col a b c d hr hk e1 e2, if_neg (by omega), zero_mul]
    rw [sum_two h1 h2 hne _ hsupp]
    have hr' : r = m1 ∨ r = m2 := by omega
    have hc' : c' = m1 ∨ c' = m2 := by omega
    rcases hr' with rfl | rfl <;> rcases hc' with rfl | rfl
    · rw [g11, g12]; simp [haa]
    · rw [g11, g12, g21, g22]; simp [hne, had]
    · rw [g11, g12, g21, g22]; simp [hne', hda]
    · rw [g21, g22]; simp [hdd]

/-! ### embedBlock -/

theorem embedBlock_out_row {N r k m : Nat} (u : M K) (hr : r < N) (hk : k < N)
    (h : ¬ (m ≤ r ∧ r < m + u.n)) : (embedBlock N m u).get r k = if r = k then 1 else 0 := by
  rw [get_embedBlock _ _ hr hk, if_neg (by omega)]

theorem embedBlock_out_col {N r k m : Nat} (u : M K) (hr : r < N) (hk : k < N)
    (h : ¬ (m ≤ k ∧ k < m + u.n)) : (embedBlock N m u).get r k = if r = k then 1 else 0 := by
  rw [get_embedBlock _ _ hr hk, if_neg (by omega)]

theorem UN_embedBlock {N m : Nat} (u : M K) (h : m + u.n ≤ N) (hu : u.UN u.n) :
    (embedBlock N m u).UN N := by
  rw [M.UN_iff_rows] at hu ⊢
  intro r c hr hc
  by_cases hrB : m ≤ r ∧ r < m + u.n
  · by_cases hcB : m ≤ c ∧ c < m + u.n
    · rw [Finset.sum_congr rfl (g := fun k => if m ≤ k ∧ k < m + u.n then
          (fun j => u.get (r - m) j * star (u.get (c - m) j)) (k - m) else 0) (fun k hk => by
        have hk := Finset.mem_range.mp hk
        by_cases hkB : m ≤ k ∧ k < m + u.n
        · rw [get_embedBlock _ _ hr hk, get_embedBlock _ _ hc hk, if_pos (by omega),
            if_pos (by omega), if_pos hkB]
        · rw [embedBlock_out_col u hr hk hkB, if_neg (by omega), if_neg hkB, zero_mul])]
      refine (sum_block h (fun j => u.get (r - m) j * star (u.get (c - m) j))).trans ?_
      rw [hu (r - m) (c - m) (by omega) (by omega)]
      by_cases hrc : r = c
      · simp [hrc]
      · rw [if_neg (by omega), if_neg hrc]
    · rw [Finset.sum_congr rfl (fun k hk => by
        rw [embedBlock_out_row u hc (Finset.mem_range.mp hk) hcB])]
      rw [sum_mul_star_delta hc, embedBlock_out_col u hr hc hcB]
  · rw [Finset.sum_congr rfl (fun k hk => by
      rw [embedBlock_out_row u hr (Finset.mem_range.mp hk) hrB])]
    rw [sum_delta_left hr, embedBlock_out_col u hc hr hrB]
    by_cases hrc : r = c
    · simp [hrc]
    · simp [hrc, Ne.symm hrc]

/-! ### permutation matrices -/

theorem UN_permMat {N : Nat} (σ : Dict)
    (hinj : ∀ a b, σ.getD a a = σ.getD b b → a = b) (hlt : ∀ a, a < N → σ.getD a a < N) :
    (permMat σ N : M K).UN N := by
  rw [M.UN_iff_cols]
  intro r c hr hc
  rw [Finset.sum_congr rfl (fun k hk => by
    rw [get_permMat σ (Finset.mem_range.mp hk) hr])]
  rw [sum_star_delta_mul (hlt r hr), get_permMat σ (hlt r hr) hc]
  by_cases hrc : r = c
  · simp [hrc]
  · rw [if_neg hrc, if_neg (fun h => hrc (hinj _ _ h).symm)]

theorem UN_swaps {n N : Nat} (σ : Dict) (h : SwapsOk n σ) (hN : n ≤ N) :
    (permMat σ N : M K).UN N :=
  UN_permMat σ (fun _ _ hab => Dict.getD_injective h.2.1 h.1 hab)
    (fun _ ha => Dict.getD_lt h.2.1 (fun k hk => lt_of_lt_of_le (h.2.2 k hk) hN) ha)

/-! ### components -/

theorem UN_mat {n N : Nat} (i : K) (hi : IsImagUnit i) (p : Prim K) (hp : p.Wf n)
    (hl : p.isLoss = false) (hN : n ≤ N) : (p.mat i N).UN N := by
  rcases p with ⟨m1, m2, c, s, cv⟩ | ⟨m, ph⟩ | ⟨m, a, b⟩ | ms | σ | ⟨m, u⟩
  · obtain ⟨h1, h2, hne, hc, hs, hcs⟩ := hp
    cases cv
    · apply UN_embed2 _ _ _ _ (by omega) (by omega) hne
      · simp only [star_mul', hc, hs, hi.star]
        linear_combination hcs - s * s * hi.sq
      · simp only [star_mul', hc, hs, hi.star]
        linear_combination hcs - s * s * hi.sq
      · simp only [star_mul', hc, hs, hi.star]
        ring
    · apply UN_embed2 _ _ _ _ (by omega) (by omega) hne
      · simp only [hc, hs]; exact hcs
      · simp only [star_neg, hc, hs]; linear_combination hcs
      · simp only [star_neg, hc, hs]; ring
  · exact UN_embed1 m ph hp.2
  · simp [Prim.isLoss] at hl
  · exact M.UN_one N
  · exact UN_swaps σ hp hN
  · exact UN_embedBlock u (le_trans hp.1 hN) hp.2

theorem UN_lossMat {N m : Nat} (a b : K) (hm : m < N) (ha : star a = a) (hb : star b = b)
    (hab : a * a + b * b = 1) : (embed2 (N + 1) m N a b (-b) a).UN (N + 1) := by
  apply UN_embed2 _ _ _ _ (by omega) (by omega) (by omega)
  · simp only [ha, hb]; exact hab
  · simp only [star_neg, ha, hb]; linear_combination hab
  · simp only [star_neg, ha, hb]; ring

theorem isUnitary_compilePrim {n : Nat} (i : K) (hi : IsImagUnit i) (U : M K) (p : Prim K)
    (hp : p.Wf n) (hn : n ≤ U.n) (hU : IsUnitary U) : IsUnitary (compilePrim i U p) := by
  by_cases hbar : ∃ ms, p = .barrier ms
  · obtain ⟨ms, rfl⟩ := hbar
    exact hU
  by_cases hl : p.isLoss = false
  · rw [compilePrim_of_not_loss i U p hl (fun ms h => hbar ⟨ms, h⟩), M.isUnitary_iff, M.mul_n,
      Prim.mat_n]
    exact M.UN_mul (Prim.mat_n i U.n p) (UN_mat i hi p hp hl hn) hU
  · rcases p with ⟨m1, m2, c, s, cv⟩ | _ | ⟨m, a, b⟩ | _ | _ | _ <;> try (simp [Prim.isLoss] at hl)
    obtain ⟨hm, ha, hb, hab⟩ := hp
    simp only [compilePrim, Prim.mat, M.pad_n, Nat.add_sub_cancel]
    rw [M.isUnitary_iff]
    exact M.UN_mul rfl (UN_lossMat a b (by omega) ha hb hab) (M.UN_pad rfl hU)

theorem isUnitary_foldl_compilePrim {n : Nat} (i : K) (hi : IsImagUnit i) (cs : List (Prim K))
    (U : M K) (hcs : ∀ p ∈ cs, p.Wf n) (hn : n ≤ U.n) (hU : IsUnitary U) :
    IsUnitary (cs.foldl (compilePrim i) U) := by
  induction cs generalizing U with
  | nil => exact hU
  | cons p cs ih =>
    rw [List.foldl_cons]
    exact ih _ (fun q hq => hcs q (List.mem_cons_of_mem _ hq))
      (le_trans hn (le_compilePrim_n i U p))
      (isUnitary_compilePrim i hi U p (hcs p List.mem_cons_self) hn hU)

theorem isUnitary_one (n : Nat) : IsUnitary (M.one n : M K) := M.UN_one n

end LW.Proofs.C01Aux
