/-
  LW.Proofs.C06FullMain — the two clauses of C06 that were only proved for the input `[1, 1]`, for
  every input state:

  * `zero_indist_classical` : purity 1, indistinguishability 0 ⇒ the sampler's output is that of
    independent classical particles (`classicalMix`);
  * `basic_path_eq_full_path` : purity 1, indistinguishability 1 ⇒ the annotated path gives the
    same output as the brightness-only path (`buildStatisticsBasic` + `pdist_calc`).

  Both sides of both statements are brought to the common normal form `emitMix ν (partitionIdx s) Φ`
  (independent emission of the photons, head first), as weighted sums for an arbitrary observable.
-/
import LW.Proofs.C06FullGroups

set_option linter.unusedSectionVars false

namespace LW.Proofs.C06

open LW.Src LW.SV

section Classical
variable {Q : Type} [Field Q] [LinearOrder Q] [IsStrictOrderedRing Q]

/-- the emitted photons `e` (given by their modes) move independently, outputs merged -/
def clEnd (fd : FState → PDist Q) (n : Nat) : List Nat → Option FState → (FState → Q) → Q
  | [], none, F => mix (fd (List.replicate n 0)) F
  | [], some a, F => F a
  | m :: e, o, F => mix (fd (unitVec n m)) (fun b => clEnd fd n e (some (mergeO o b)) F)

theorem clEnd_cons (fd : FState → PDist Q) (n m : Nat) (e : List Nat) (o : Option FState)
    (F : FState → Q) :
    clEnd fd n (m :: e) o F =
      mix (fd (unitVec n m)) (fun b => clEnd fd n e (some (mergeO o b)) F) := by
  cases o <;> rfl

theorem classicalMix_cons (fd : FState → PDist Q) (n : Nat) (nu : Q) (m : Nat) (ms : List Nat)
    (o : Option FState) (F : FState → Q) :
    classicalMix fd n nu (m :: ms) o F =
      (1 - nu) * classicalMix fd n nu ms o F +
        nu * mix (fd (unitVec n m)) (fun b => classicalMix fd n nu ms (some (mergeO o b)) F) := by
  cases o <;> rfl

/-- `classicalMix` is the emission mixture of the independent motion of the emitted photons -/
theorem classicalMix_eq_emitMix (fd : FState → PDist Q) (n : Nat) (nu : Q) (ms : List Nat)
    (o : Option FState) (F : FState → Q) :
    classicalMix fd n nu ms o F = emitMix nu ms (fun e => clEnd fd n e o F) := by
  induction ms generalizing o with
  | nil => cases o <;> rfl
  | cons m ms ih =>
    rw [classicalMix_cons, ih o]
    simp only [emitMix, clEnd_cons]
    rw [← mix_emitMix]
    congr 2
    apply mix_congr
    intro x _
    exact ih _

theorem clEnd_some (fd : FState → PDist Q) (n : Nat) (e : List Nat) (a : FState) (F : FState → Q) :
    clEnd fd n e (some a) F = specConvO (e.map fun m => fd (unitVec n m)) (some a) F := by
  induction e generalizing a with
  | nil => rfl
  | cons m e ih =>
    rw [clEnd_cons, List.map_cons]
    unfold specConvO
    apply mix_congr
    intro x _
    exact ih _

theorem clEnd_none_cons (fd : FState → PDist Q) (n m : Nat) (e : List Nat) (F : FState → Q) :
    clEnd fd n (m :: e) none F = mixGroups ((m :: e).map fun m => fd (unitVec n m)) F := by
  rw [mixGroups_eq, clEnd_cons, List.map_cons]
  unfold specConvO
  apply mix_congr
  intro x _
  exact clEnd_some fd n e _ F

end Classical

/-! ### zero indistinguishability: classical particles, any input -/

/-- ZERO INDISTINGUISHABILITY GIVES CLASSICAL PARTICLES, for every input state -/
theorem zero_indist_classical : zero_indist_classical_statement := by
  intro K Q _ _ _ _ b nsq eps U nReal P h hx hq s _ hs hne F
  rw [output_mixture b nsq eps U nReal P h s hs hne F]
  have htable : ∀ (ctr : Int) (H : List Int → Q),
      mix (outcomeTable P ctr) H = (1 - P.nu) * H [] + P.nu * H [id ctr] := by
    intro ctr H
    rw [mix_outcomeTable_pure P hx, hq]
    simp
  rw [mix_specFull_emit P id htable s _
    (fun e => mixGroups ((groupsP nReal e).map (fullDist b nsq eps U nReal)) F)
    (fun rows => mixGroups_perm ((groupsOf_new_perm nReal rows).map _) F),
    classicalMix_eq_emitMix, ← emitL_fst P.nu id (partitionIdx s) 1]
  apply emitL_congr
  intro e ⟨cs, h1, _, h3⟩
  have hnd : (e.map (·.2)).Nodup := by
    rw [h3, List.map_id]
    exact h1.imp (fun hlt => ne_of_lt hlt)
  rw [mixGroups_perm ((groupsP_distinct nReal e hnd).map _) F]
  cases e with
  | nil => rfl
  | cons p e' =>
    simp only [List.isEmpty_cons, Bool.false_eq_true, if_false, List.map_cons]
    rw [clEnd_none_cons]
    simp [List.map_map, Function.comp_def]

/-! ### the brightness-only path as an emission mixture -/

section Basic
variable {Q : Type} [Field Q] [LinearOrder Q] [IsStrictOrderedRing Q]

theorem mergeF_zeros_right (a : FState) : mergeF a (List.replicate a.length 0) = a := by
  induction a with
  | nil => rfl
  | cons x a ih =>
    simp only [mergeF, List.length_cons, List.replicate_succ, List.zipWith_cons_cons,
      Nat.add_zero] at ih ⊢
    rw [ih]

theorem mergeF_zeros_left (a : FState) : mergeF (List.replicate a.length 0) a = a := by
  rw [mergeF_comm, mergeF_zeros_right]

theorem countVec_length (n : Nat) (e : List Nat) : (countVec n e).length = n := by
  simp [countVec]

theorem mergeF_unitVec_countVec (n m : Nat) (e : List Nat) :
    mergeF (unitVec n m) (countVec n e) = countVec n (m :: e) := by
  unfold mergeF countVec unitVec
  rw [List.zipWith_map_left, List.zipWith_map_right, List.zipWith_self]
  apply List.map_congr_left
  intro j _
  rw [List.count_cons]
  simp only [beq_iff_eq]
  omega

theorem mix_swap_product (A B : List (Q × FState)) (g : FState → FState → FState)
    (H : FState → Q) :
    mix ((A.flatMap fun a => B.map fun b => (a.1 * b.1, g a.2 b.2)).map fun x => (x.2, x.1)) H =
      mix (A.map fun x => (x.2, x.1))
        (fun a => mix (B.map fun x => (x.2, x.1)) (fun b => H (g a b))) := by
  rw [← mix_product]
  congr 1
  simp [List.map_flatMap, List.flatMap_map, Function.comp_def]

theorem mix_subS (P : Params Q) (h : InRange P) (n m : Nat) (Φ : FState → Q) :
    mix (((P.nu, unitVec n m) ::
        (if P.nu < 1 then [(1 - P.nu, List.replicate n 0)] else [])).map fun x => (x.2, x.1)) Φ =
      P.nu * Φ (unitVec n m) + (1 - P.nu) * Φ (List.replicate n 0) := by
  by_cases hν : P.nu < 1
  · simp [hν]
  · have : P.nu = 1 := le_antisymm h.nu1 (not_lt.1 hν)
    simp [this]

theorem mix_basicStep (P : Params Q) (h : InRange P) (n : Nat) (stats : List (Q × FState))
    (m : Nat) (hne : stats ≠ []) (Φ : FState → Q) :
    mix ((basicStep P n stats m).map fun x => (x.2, x.1)) Φ =
      mix (stats.map fun x => (x.2, x.1)) (fun a =>
        P.nu * Φ (mergeF a (unitVec n m)) + (1 - P.nu) * Φ (mergeF a (List.replicate n 0))) := by
  unfold basicStep
  simp only
  have he : ¬ stats.isEmpty = true := fun he => hne (List.isEmpty_iff.1 he)
  rw [if_neg he]
  have := mix_swap_product stats ((P.nu, unitVec n m) ::
        (if P.nu < 1 then [(1 - P.nu, List.replicate n 0)] else [])) mergeF Φ
  unfold mergeF at this ⊢
  rw [this]
  apply mix_congr
  intro x _
  exact mix_subS P h n m _

theorem sum_one_ne_nil (stats : List (Q × FState)) (hsum : (stats.map (·.1)).sum = 1) :
    stats ≠ [] := by
  intro h0
  subst h0
  simp at hsum

/-- the loop of `_build_statistics_basic` from a non-empty list of partial statistics on -/
theorem mix_basic_fold (P : Params Q) (h : InRange P) (n : Nat) (ms : List Nat)
    (stats : List (Q × FState)) (hsum : (stats.map (·.1)).sum = 1)
    (hlen : ∀ x ∈ stats, x.2.length = n) (H : FState → Q) :
    mix ((ms.foldl (basicStep P n) stats).map fun x => (x.2, x.1)) H =
      mix (stats.map fun x => (x.2, x.1))
        (fun a => emitMix P.nu ms (fun e => H (mergeF a (countVec n e)))) := by
  induction ms generalizing stats with
  | nil =>
    apply mix_congr
    intro x hx
    obtain ⟨y, hy, rfl⟩ := List.mem_map.1 hx
    simp only [emitMix, countVec_nil]
    rw [← hlen y hy, mergeF_zeros_right]
  | cons m ms ih =>
    rw [List.foldl_cons, ih _ (basicStep_sum P h n stats m (Or.inr hsum))
      (basicStep_len P n stats m hlen), mix_basicStep P h n stats m (sum_one_ne_nil stats hsum)]
    apply mix_congr
    intro x hx
    obtain ⟨y, hy, rfl⟩ := List.mem_map.1 hx
    simp only [emitMix]
    have e1 : mergeF y.2 (List.replicate n 0) = y.2 := by
      rw [← hlen y hy, mergeF_zeros_right]
    have e2 : ∀ e, mergeF (mergeF y.2 (unitVec n m)) (countVec n e) =
        mergeF y.2 (countVec n (m :: e)) := by
      intro e
      rw [mergeF_assoc, mergeF_unitVec_countVec]
    simp only [e1, e2]
    ring

/-- THE BRIGHTNESS-ONLY STATISTICS as the mixture over independently emitted photons: every photon
of the input is emitted with probability `ν`; the emitted ones are counted per mode -/
theorem mix_buildStatisticsBasic (P : Params Q) (h : InRange P) (s : FState) (H : FState → Q) :
    mix (buildStatisticsBasic P s) H =
      emitMix P.nu (partitionIdx s) (fun e => H (countVec s.length e)) := by
  rw [buildStatisticsBasic_eq]
  simp only
  cases hp : partitionIdx s with
  | nil =>
    have hs : countVec s.length [] = s := by rw [← hp]; exact countVec_partitionIdx s
    simp [KD.ofPairs, emitMix, hs]
  | cons m ms =>
    rw [List.foldl_cons]
    have h1 := basicStep_sum P h s.length [] m (Or.inl rfl)
    have hl : ∀ x ∈ basicStep P s.length [] m, x.2.length = s.length :=
      basicStep_len P s.length [] m (by simp)
    have hform : ∀ H' : FState → Q,
        mix (KD.ofPairs ((ms.foldl (basicStep P s.length) (basicStep P s.length [] m)).map
          fun x => (x.2, x.1))) H' =
        emitMix P.nu (m :: ms) (fun e => H' (countVec s.length e)) := by
      intro H'
      rw [mix_ofPairs, mix_basic_fold P h s.length ms _ h1 hl]
      have hb : basicStep P s.length [] m = (P.nu, unitVec s.length m) ::
          (if P.nu < 1 then [(1 - P.nu, List.replicate s.length 0)] else []) := rfl
      rw [hb, mix_subS P h]
      simp only [emitMix, mergeF_unitVec_countVec]
      have e0 : ∀ e, mergeF (List.replicate s.length 0) (countVec s.length e) =
          countVec s.length e := by
        intro e
        have := mergeF_zeros_left (countVec s.length e)
        rwa [countVec_length] at this
      simp only [e0]
      ring
    by_cases he : (KD.ofPairs ((ms.foldl (basicStep P s.length) (basicStep P s.length [] m)).map
          fun x => (x.2, x.1)) : KD FState Q).isEmpty = true
    · have := hform (fun _ => 1)
      rw [List.isEmpty_iff.1 he, mix_nil, emitMix_const] at this
      exact absurd this zero_ne_one
    · rw [if_neg he]
      exact hform H

end Basic

/-! ### purity = indistinguishability = 1: the brightness-only path, any input -/

/-- BRIGHTNESS-ONLY PATH = ANNOTATED PATH AT PURITY = INDISTINGUISHABILITY = 1, for every input -/
theorem basic_path_eq_full_path : basic_path_eq_full_path_statement := by
  intro K Q _ _ _ _ b nsq eps U nReal P h hx hq s hlen hs hne F
  rw [output_mixture b nsq eps U nReal P h s hs hne F, mix_calcPd,
    mix_buildStatisticsBasic P h s]
  have htable : ∀ (ctr : Int) (H : List Int → Q),
      mix (outcomeTable P ctr) H = (1 - P.nu) * H [] + P.nu * H [(fun _ => (0 : Int)) ctr] := by
    intro ctr H
    rw [mix_outcomeTable_pure P hx, hq]
    simp
  rw [mix_specFull_emit P (fun _ => 0) htable s _
    (fun e => mixGroups ((groupsP nReal e).map (fullDist b nsq eps U nReal)) F)
    (fun rows => mixGroups_perm ((groupsOf_new_perm nReal rows).map _) F),
    ← emitL_fst P.nu (fun _ => 0) (partitionIdx s) 1]
  apply emitL_congr
  intro e ⟨cs, _, _, h3⟩
  have h0 : ∀ p ∈ e, p.2 = 0 := by
    intro p hp
    have : p.2 ∈ e.map (·.2) := List.mem_map.2 ⟨p, hp, rfl⟩
    rw [h3] at this
    obtain ⟨_, _, hc⟩ := List.mem_map.1 this
    exact hc.symm
  rw [groupsP_zero nReal e h0, hlen]
  rfl

end LW.Proofs.C06
