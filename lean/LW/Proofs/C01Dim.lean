/-
  LW.Proofs.C01Dim — dimension bookkeeping of `compile`.
-/
import LW.Proofs.CircuitWf

namespace LW.Proofs.C01Aux

variable {K : Type} [CommRing K] [StarRing K]

set_option linter.unusedSectionVars false

/-! ### dimensions -/

theorem Prim.mat_n (i : K) (N : Nat) (p : Prim K) : (p.mat i N).n = N := by
  rcases p with ⟨m1, m2, c, s, cv⟩ | _ | _ | _ | _ | _
  · cases cv <;> rfl
  all_goals rfl

theorem compilePrim_n (i : K) (U : M K) (p : Prim K) :
    (compilePrim i U p).n = U.n + (if p.isLoss then 1 else 0) := by
  rcases p with ⟨m1, m2, c, s, cv⟩ | _ | _ | _ | _ | _ <;>
    simp [compilePrim, Prim.isLoss, Prim.mat_n]

theorem foldl_compilePrim_n (i : K) (cs : List (Prim K)) (U : M K) :
    (cs.foldl (compilePrim i) U).n = U.n + (cs.filter Prim.isLoss).length := by
  induction cs generalizing U with
  | nil => simp
  | cons p cs ih =>
    rw [List.foldl_cons, ih, compilePrim_n, List.filter_cons]
    split <;> (simp; try omega)

theorem compileComp_n (i : K) (U : M K) (c : Comp K) :
    (compileComp i U c).n = U.n + c.lossCount := by
  cases c with
  | prim p => simp [compileComp, Comp.lossCount, compilePrim_n]
  | group cs m1 m2 hin hout => simp [compileComp, Comp.lossCount, foldl_compilePrim_n]

theorem foldl_compileComp_n (i : K) (spec : List (Comp K)) (U : M K) :
    (spec.foldl (compileComp i) U).n = U.n + lossCount spec := by
  induction spec generalizing U with
  | nil => simp [lossCount]
  | cons c cs ih =>
    rw [List.foldl_cons, ih, compileComp_n]
    simp [lossCount]; omega

theorem le_compilePrim_n (i : K) (U : M K) (p : Prim K) : U.n ≤ (compilePrim i U p).n := by
  rw [compilePrim_n]; omega

end LW.Proofs.C01Aux
