/-
  C04a helper: facts about the insertion-ordered dictionary `PDist` (get?, addTo, total) and about
  folds whose step is a conditional `addTo`.
-/
import Mathlib.Algebra.Order.Field.Basic
import Mathlib.Algebra.BigOperators.Group.List.Basic
import LW.Model.Dist

namespace LW.Proofs.C04a
open LW

/-- generic fold invariant with membership information -/
theorem foldl_inv {α β : Type} (P : β → Prop) (f : β → α → β) (l : List α) (init : β)
    (h0 : P init) (hs : ∀ acc x, x ∈ l → P acc → P (f acc x)) : P (l.foldl f init) := by
  induction l generalizing init with
  | nil => exact h0
  | cons a l ih =>
    rw [List.foldl_cons]
    apply ih
    · exact hs init a (by simp) h0
    · intro acc x hx hacc
      exact hs acc x (by simp [hx]) hacc

section Basic
variable {Q : Type}

theorem any_key_iff (d : PDist Q) (s : FState) :
    d.any (·.1 == s) = true ↔ s ∈ d.map (·.1) := by
  simp only [List.any_eq_true, List.mem_map, beq_iff_eq]

theorem get?_nil (r : FState) : PDist.get? ([] : PDist Q) r = none := rfl

theorem get?_cons (x : FState × Q) (d : PDist Q) (r : FState) :
    PDist.get? (x :: d) r = if x.1 = r then some x.2 else PDist.get? d r := by
  unfold PDist.get?
  by_cases h : x.1 = r
  · simp [h]
  · simp [h]

theorem get?_eq_none_of_not_mem (d : PDist Q) (r : FState) (h : r ∉ d.map (·.1)) :
    PDist.get? d r = none := by
  induction d with
  | nil => rfl
  | cons x d ih =>
    rw [get?_cons]
    simp only [List.map_cons, List.mem_cons, not_or] at h
    rw [if_neg (fun h' => h.1 h'.symm)]
    exact ih h.2

end Basic

section Keys
variable {Q : Type} [Add Q]

theorem addTo_keys (d : PDist Q) (s : FState) (p : Q) :
    (d.addTo s p).map (·.1) = if s ∈ d.map (·.1) then d.map (·.1) else d.map (·.1) ++ [s] := by
  unfold PDist.addTo
  by_cases h : d.any (·.1 == s) = true
  · rw [if_pos h, if_pos ((any_key_iff d s).1 h), List.map_map]
    apply List.map_congr_left
    intro x _
    by_cases hx : x.1 = s
    · simp [hx]
    · simp [hx]
  · rw [if_neg h, if_neg (fun h' => h ((any_key_iff d s).2 h'))]
    simp

theorem mem_addTo_keys (d : PDist Q) (s : FState) (p : Q) (k : FState) :
    k ∈ (d.addTo s p).map (·.1) ↔ k ∈ d.map (·.1) ∨ k = s := by
  rw [addTo_keys]
  by_cases h : s ∈ d.map (·.1)
  · rw [if_pos h]
    constructor
    · exact Or.inl
    · rintro (h' | h')
      · exact h'
      · exact h' ▸ h
  · rw [if_neg h]; simp

theorem addTo_keys_nodup (d : PDist Q) (s : FState) (p : Q) (hd : (d.map (·.1)).Nodup) :
    ((d.addTo s p).map (·.1)).Nodup := by
  rw [addTo_keys]
  by_cases h : s ∈ d.map (·.1)
  · rw [if_pos h]; exact hd
  · rw [if_neg h]
    rw [List.nodup_append]
    refine ⟨hd, by simp, ?_⟩
    intro a ha b hb
    simp only [List.mem_singleton] at hb
    subst hb
    intro hab
    exact h (hab ▸ ha)

/-- all keys of an `addTo` satisfy `R` when the old ones and the new one do -/
theorem addTo_keys_all (R : FState → Prop) (d : PDist Q) (s : FState) (p : Q)
    (hd : ∀ k ∈ d.map (·.1), R k) (hs : R s) : ∀ k ∈ (d.addTo s p).map (·.1), R k := by
  intro k hk
  rcases (mem_addTo_keys d s p k).1 hk with h | h
  · exact hd k h
  · exact h ▸ hs

end Keys

section Alg
variable {Q : Type} [AddCommMonoid Q]

theorem getD_map_upd (s : FState) (p : Q) (r : FState) (d : PDist Q) :
    ((PDist.get? (d.map fun x => if x.1 == s then (s, x.2 + p) else x) r).getD 0) =
      (PDist.get? d r).getD 0 + if s = r ∧ s ∈ d.map (·.1) then p else 0 := by
  induction d with
  | nil => simp [get?_nil]
  | cons x d ih =>
    obtain ⟨k, v⟩ := x
    rw [List.map_cons, get?_cons, get?_cons]
    simp only [beq_iff_eq] at ih ⊢
    by_cases hxs : k = s
    · subst hxs
      by_cases hr : k = r
      · simp [hr]
      · simp [hr, ih]
    · by_cases hr : k = r
      · subst hr
        have hsr : ¬ s = k := fun h => hxs h.symm
        simp [hxs, hsr]
      · have hsx : ¬ s = k := fun h => hxs h.symm
        simp only [hxs, hr, if_false]
        rw [ih]
        simp only [List.map_cons, List.mem_cons, hsx, false_or]

theorem getD_append_single (d : PDist Q) (s : FState) (p : Q) (r : FState)
    (hs : s ∉ d.map (·.1)) :
    ((PDist.get? (d ++ [(s, p)]) r).getD 0) =
      (PDist.get? d r).getD 0 + if s = r then p else 0 := by
  induction d with
  | nil =>
    rw [List.nil_append, get?_cons, get?_nil]
    by_cases h : s = r
    · simp [h]
    · simp [h]
  | cons x d ih =>
    simp only [List.map_cons, List.mem_cons, not_or] at hs
    rw [List.cons_append, get?_cons, get?_cons]
    by_cases hr : x.1 = r
    · have hsr : ¬ s = r := fun h => hs.1 (h.trans hr.symm)
      simp [hr, hsr]
    · simp [hr, ih hs.2]

/-- `get?` after `addTo`: adds `p` at `s`, unchanged elsewhere -/
theorem getD_addTo (d : PDist Q) (s : FState) (p : Q) (r : FState) :
    ((d.addTo s p).get? r).getD 0 = (d.get? r).getD 0 + if s = r then p else 0 := by
  unfold PDist.addTo
  by_cases h : d.any (·.1 == s) = true
  · rw [if_pos h, getD_map_upd]
    have hm := (any_key_iff d s).1 h
    by_cases hr : s = r
    · simp [hr, hr ▸ hm]
    · simp [hr]
  · rw [if_neg h]
    exact getD_append_single d s p r (fun h' => h ((any_key_iff d s).2 h'))

theorem foldl_add_eq (a : Q) (d : PDist Q) :
    d.foldl (fun acc x => acc + x.2) a = a + (d.map (·.2)).sum := by
  induction d generalizing a with
  | nil => simp
  | cons x d ih => rw [List.foldl_cons, ih, List.map_cons, List.sum_cons, add_assoc]

theorem total_eq_sum (d : PDist Q) : d.total = (d.map (·.2)).sum := by
  unfold PDist.total
  rw [foldl_add_eq, zero_add]

theorem sum_map_upd (s : FState) (p : Q) (d : PDist Q) (hd : (d.map (·.1)).Nodup) :
    ((d.map fun x => if x.1 == s then (s, x.2 + p) else x).map (·.2)).sum =
      (d.map (·.2)).sum + if s ∈ d.map (·.1) then p else 0 := by
  induction d with
  | nil => simp
  | cons x d ih =>
    simp only [List.map_cons, List.nodup_cons] at hd
    rw [List.map_cons, List.map_cons, List.sum_cons, ih hd.2, List.map_cons, List.sum_cons]
    by_cases hxs : x.1 = s
    · have hns : s ∉ d.map (·.1) := hxs ▸ hd.1
      simp only [List.map_cons, List.mem_cons, hxs, beq_self_eq_true, if_true, true_or,
        if_neg hns, add_zero]
      rw [add_right_comm]
    · have hsx : ¬ s = x.1 := fun h => hxs h.symm
      simp only [List.map_cons, List.mem_cons, hsx, false_or, beq_iff_eq, hxs, if_false]
      rw [add_assoc]

/-- `total` after `addTo` on a dictionary with distinct keys -/
theorem total_addTo (d : PDist Q) (s : FState) (p : Q) (hd : (d.map (·.1)).Nodup) :
    (d.addTo s p).total = d.total + p := by
  rw [total_eq_sum, total_eq_sum]
  unfold PDist.addTo
  by_cases h : d.any (·.1 == s) = true
  · rw [if_pos h, sum_map_upd s p d hd, if_pos ((any_key_iff d s).1 h)]
  · rw [if_neg h]; simp

end Alg

/-! ### folds whose step is a conditional `addTo` -/

section FoldKeys
variable {Q : Type} [Add Q] {α : Type}

theorem fold_keys_mem (step : PDist Q → α → PDist Q) (c : α → Prop) [DecidablePred c]
    (k : α → FState) (v : α → Q)
    (hstep : ∀ pd o, step pd o = if c o then pd.addTo (k o) (v o) else pd)
    (l : List α) (init : PDist Q) (x : FState) (hx : x ∈ (l.foldl step init).map (·.1)) :
    x ∈ init.map (·.1) ∨ ∃ o ∈ l, c o ∧ k o = x := by
  induction l generalizing init with
  | nil => exact Or.inl hx
  | cons a l ih =>
    rw [List.foldl_cons] at hx
    rcases ih _ hx with h | ⟨o, ho, hc, hk⟩
    · rw [hstep] at h
      by_cases hca : c a
      · rw [if_pos hca] at h
        rcases (mem_addTo_keys _ _ _ _).1 h with h | h
        · exact Or.inl h
        · exact Or.inr ⟨a, by simp, hca, h.symm⟩
      · rw [if_neg hca] at h; exact Or.inl h
    · exact Or.inr ⟨o, by simp [ho], hc, hk⟩

theorem fold_keys_nodup (step : PDist Q → α → PDist Q) (c : α → Prop) [DecidablePred c]
    (k : α → FState) (v : α → Q)
    (hstep : ∀ pd o, step pd o = if c o then pd.addTo (k o) (v o) else pd)
    (l : List α) (init : PDist Q) (h0 : (init.map (·.1)).Nodup) :
    ((l.foldl step init).map (·.1)).Nodup := by
  apply foldl_inv (fun pd : PDist Q => (pd.map (·.1)).Nodup) step l init h0
  intro acc o _ hacc
  rw [hstep]
  by_cases hc : c o
  · rw [if_pos hc]; exact addTo_keys_nodup _ _ _ hacc
  · rw [if_neg hc]; exact hacc

end FoldKeys

section FoldAlg
variable {Q : Type} [AddCommMonoid Q] {α : Type}

theorem fold_getD (step : PDist Q → α → PDist Q) (c : α → Prop) [DecidablePred c]
    (k : α → FState) (v : α → Q)
    (hstep : ∀ pd o, step pd o = if c o then pd.addTo (k o) (v o) else pd)
    (l : List α) (init : PDist Q) (r : FState) :
    ((l.foldl step init).get? r).getD 0 =
      (init.get? r).getD 0 + ((l.filter fun o => c o ∧ k o = r).map v).sum := by
  induction l generalizing init with
  | nil => simp
  | cons a l ih =>
    rw [List.foldl_cons, ih, hstep]
    by_cases hc : c a
    · rw [if_pos hc, getD_addTo]
      by_cases hk : k a = r
      · simp [hc, hk, add_assoc]
      · simp [hk]
    · rw [if_neg hc]
      simp [hc]

theorem fold_total (step : PDist Q → α → PDist Q) (c : α → Prop) [DecidablePred c]
    (k : α → FState) (v : α → Q)
    (hstep : ∀ pd o, step pd o = if c o then pd.addTo (k o) (v o) else pd)
    (l : List α) (init : PDist Q) (h0 : (init.map (·.1)).Nodup) :
    (l.foldl step init).total = init.total + ((l.filter fun o => c o).map v).sum := by
  induction l generalizing init with
  | nil => simp
  | cons a l ih =>
    rw [List.foldl_cons, hstep]
    by_cases hc : c a
    · rw [if_pos hc, ih _ (addTo_keys_nodup _ _ _ h0), total_addTo _ _ _ h0]
      simp [hc, add_assoc]
    · rw [if_neg hc, ih _ h0]
      simp [hc]

end FoldAlg

section FoldOrd
variable {Q : Type} [Field Q] [LinearOrder Q] [IsStrictOrderedRing Q] {α : Type}

theorem addTo_nonneg (d : PDist Q) (s : FState) (p : Q) (hd : ∀ x ∈ d, 0 ≤ x.2) (hp : 0 ≤ p) :
    ∀ x ∈ d.addTo s p, 0 ≤ x.2 := by
  unfold PDist.addTo
  by_cases h : d.any (·.1 == s) = true
  · rw [if_pos h]
    intro x hx
    rw [List.mem_map] at hx
    obtain ⟨y, hy, rfl⟩ := hx
    by_cases hys : y.1 = s
    · simp only [hys, beq_self_eq_true, if_true]
      exact add_nonneg (hd y hy) hp
    · simp only [beq_iff_eq, hys, if_false]
      exact hd y hy
  · rw [if_neg h]
    intro x hx
    rw [List.mem_append, List.mem_singleton] at hx
    rcases hx with hx | hx
    · exact hd x hx
    · rw [hx]; exact hp

theorem fold_nonneg (step : PDist Q → α → PDist Q) (c : α → Prop) [DecidablePred c]
    (k : α → FState) (v : α → Q)
    (hstep : ∀ pd o, step pd o = if c o then pd.addTo (k o) (v o) else pd)
    (l : List α) (init : PDist Q) (h0 : ∀ x ∈ init, 0 ≤ x.2)
    (hv : ∀ o ∈ l, c o → 0 ≤ v o) :
    ∀ x ∈ l.foldl step init, 0 ≤ x.2 := by
  apply foldl_inv (fun pd : PDist Q => ∀ x ∈ pd, 0 ≤ x.2) step l init h0
  intro acc o ho hacc
  rw [hstep]
  by_cases hc : c o
  · rw [if_pos hc]; exact addTo_nonneg _ _ _ hacc (hv o ho hc)
  · rw [if_neg hc]; exact hacc

end FoldOrd

end LW.Proofs.C04a
