/-
  LW.Proofs.C12FullInd — the forward induction of `convert_correct` over the instruction list,
  relative to an interface `Iface` of facts about the homomorphism of one instruction:
  * `listHom_touch`: an instruction list leaves alone every non-user mode outside its heralds;
  * `listHom_path`: a non-zero amplitude of the list (heralds in place on both sides) is witnessed
    by a run of the abstract photon-number semantics `Run`;
  * `main_ind`: if the post-selection rules are safe for the list (`Safe`), the amplitude from a
    dual-rail input to an output satisfying the rules is the product of the per-instruction
    scalars times the ideal action, and 0 outside the qubit subspace.
-/
import LW.Proofs.C12FullIdx
import LW.Proofs.C12FullIdeal
import LW.Proofs.C12

open MvPolynomial

namespace LW.C12F

open LW LW.QC LW.Gates LW.QF

variable {R : Type} [CommRing R]

/-- what the induction needs to know about one instruction `g` converted with flag `f` -/
structure Iface (c : GC R) (par : ℕ → R × R) (nq : ℕ) (g : Instr) (f : Bool) : Prop where
  touch : ∀ idx P z, 2 * nq ≤ P → 2 * nq ≤ z → ¬ (P ≤ z ∧ z < P + (instrHer g f).length) →
    Pres (wtP (· = z)) (instrHom c par idx g f P)
  step : ∀ idx P (w s : ℕ →₀ ℕ), 2 * nq ≤ P → amp (instrHom c par idx g f P) w s ≠ 0 →
    HerAt P (instrHer g f) w → HerAt P (instrHer g f) s → stepRel g f (cfgN nq s) (cfgN nq w)
  table : ∀ idx P (ib mid : List Bool) (η : ℕ →₀ ℕ), 2 * nq ≤ P → ib.length = nq →
    mid.length = nq → (∀ z ∈ η.support, 2 * nq ≤ z) → HerAt P (instrHer g f) η →
    amp (instrHom c par idx g f P) (mk (dualRail mid) η) (mk (dualRail ib) η)
      = instrK c g f * applyInstr c par idx g (delta ib) mid
  idle : ∀ cf, AllOne nq cf → stepRel g f cf cf

/-- the rules `rules` (one photon on each listed qubit at the end) force every intermediate
configuration of a run from one photon per qubit to have one photon per qubit -/
def Safe (nq : ℕ) (gs : List Instr) (fs : List Bool) (rules : List ℕ) : Prop :=
  ∀ c0 tr, AllOne nq c0 → Run gs fs c0 tr → (∀ q ∈ rules, finalOf c0 tr q = 1) →
    ∀ cf ∈ tr, AllOne nq cf

theorem Safe.tail {nq : ℕ} {g : Instr} {f : Bool} {gs : List Instr} {fs : List Bool}
    {rules : List ℕ} (hidle : ∀ cf, AllOne nq cf → stepRel g f cf cf)
    (h : Safe nq (g :: gs) (f :: fs) rules) : Safe nq gs fs rules := by
  intro c0 tr h0 hrun hfin cf hcf
  have hrun' : Run (g :: gs) (f :: fs) c0 (c0 :: tr) := Run.cons g f gs fs c0 c0 tr (hidle c0 h0) hrun
  exact h c0 (c0 :: tr) h0 hrun' (by
    intro q hq
    rw [finalOf_cons]
    exact hfin q hq) cf (List.mem_cons_of_mem _ hcf)

/-! ### amplitudes of a composition -/

theorem exists_of_amp_comp_ne (φ ψ : Hom R) (t s : ℕ →₀ ℕ) (h : amp (φ.comp ψ) t s ≠ 0) :
    ∃ w, amp ψ w s ≠ 0 ∧ amp φ t w ≠ 0 := by
  rw [amp_comp] at h
  obtain ⟨w, _, hw⟩ := Finset.exists_ne_zero_of_sum_ne_zero h
  exact ⟨w, left_ne_zero_of_mul hw, right_ne_zero_of_mul hw⟩

/-! ### configurations of dual-rail states -/

theorem cfgN_mk_dualRail (nq : ℕ) (b : List Bool) (hb : b.length = nq) (η : ℕ →₀ ℕ)
    (hη : ∀ z ∈ η.support, 2 * nq ≤ z) : AllOne nq (cfgN nq (mk (dualRail b) η)) := by
  intro q hq
  have hl : (dualRail b).length = 2 * nq := by rw [dualRail_length, hb]
  unfold cfgN
  rw [if_pos hq, mk_apply_lt (by rw [hl]; exact hη) (by omega),
    mk_apply_lt (by rw [hl]; exact hη) (by omega), dualRail_getD_even, dualRail_getD_odd]
  cases hgb : getBit b q <;> simp [hb, hq]

/-! ### the list leaves the other modes alone -/

theorem listHom_touch {c : GC R} {par : ℕ → R × R} {nq : ℕ} {gs : List Instr} {fs : List Bool}
    (h : List.Forall₂ (Iface c par nq) gs fs) :
    ∀ idx P z, 2 * nq ≤ P → 2 * nq ≤ z → ¬ (P ≤ z ∧ z < P + (listHer gs fs).length) →
      Pres (wtP (· = z)) (listHom c par idx gs fs P) := by
  induction h with
  | nil =>
    intro idx P z _ _ _
    exact Pres.id _
  | @cons g f gs' fs' hg _ ih =>
    intro idx P z hP hz hn
    simp only [listHom, listHer, List.headD_cons, List.tail_cons, List.length_append] at hn ⊢
    apply Pres.comp
    · exact ih (idx + 1) (P + (instrHer g f).length) z (by omega) hz (by omega)
    · exact hg.touch idx P z hP hz (by omega)

/-! ### non-zero amplitudes are witnessed by runs -/

theorem listHom_path {c : GC R} {par : ℕ → R × R} {nq : ℕ} {gs : List Instr} {fs : List Bool}
    (h : List.Forall₂ (Iface c par nq) gs fs) :
    ∀ idx P (w t : ℕ →₀ ℕ), 2 * nq ≤ P → amp (listHom c par idx gs fs P) t w ≠ 0 →
      HerAt P (listHer gs fs) w → HerAt P (listHer gs fs) t →
      ∃ tr, Run gs fs (cfgN nq w) tr ∧ finalOf (cfgN nq w) tr = cfgN nq t := by
  induction h with
  | nil =>
    intro idx P w t _ hne _ _
    simp only [listHom] at hne
    rw [amp_id] at hne
    have : w = t := by
      by_contra hc
      rw [if_neg hc] at hne
      exact hne rfl
    subst this
    exact ⟨[], Run.nil _, rfl⟩
  | @cons g f gs' fs' hg hrest ih =>
    intro idx P w t hP hne hw ht
    simp only [listHom, listHer, List.headD_cons, List.tail_cons] at hne hw ht
    obtain ⟨w', h1, h2⟩ := exists_of_amp_comp_ne _ _ _ _ hne
    obtain ⟨hw1, hw2⟩ := herAt_append.mp hw
    obtain ⟨ht1, ht2⟩ := herAt_append.mp ht
    -- heralds of `g` in `w'` are those of `t`, the later heralds those of `w`
    have hw'1 : HerAt P (instrHer g f) w' := by
      apply herAt_congr _ ht1
      intro z hz1 hz2
      exact ((listHom_touch hrest (idx + 1) (P + (instrHer g f).length) z (by omega) (by omega)
        (by omega)).apply_eq h2).symm
    have hw'2 : HerAt (P + (instrHer g f).length) (listHer gs' fs') w' := by
      apply herAt_congr _ hw2
      intro z hz1 hz2
      exact (hg.touch idx P z hP (by omega) (by omega)).apply_eq h1
    have hstep := hg.step idx P w' w hP h1 hw'1 hw1
    obtain ⟨tr, hrun, hfin⟩ := ih (idx + 1) (P + (instrHer g f).length) w' t (by omega) h2 hw'2 ht2
    exact ⟨cfgN nq w' :: tr, Run.cons g f gs' fs' _ _ tr hstep hrun, by rw [finalOf_cons]; exact hfin⟩

/-! ### the main induction -/

theorem main_ind {c : GC R} {par : ℕ → R × R} {nq : ℕ} {gs : List Instr} {fs : List Bool}
    (h : List.Forall₂ (Iface c par nq) gs fs) (rules : List ℕ) (out : List ℕ)
    (hout : out.length = 2 * nq) :
    ∀ idx P (ib : List Bool) (η : ℕ →₀ ℕ), 2 * nq ≤ P → Safe nq gs fs rules → ib.length = nq →
      (∀ z ∈ η.support, 2 * nq ≤ z) → HerAt P (listHer gs fs) η →
      (∀ q ∈ rules, cfgN nq (mk out η) q = 1) →
      amp (listHom c par idx gs fs P) (mk out η) (mk (dualRail ib) η) =
        if isDualRail out = true then
          listK c gs fs * idealRun c par idx gs (delta ib) (unDualRail out)
        else 0 := by
  induction h with
  | nil =>
    intro idx P ib η _ _ hib hη _ _
    simp only [listHom, listK, idealRun, one_mul]
    rw [amp_id]
    have hl : (dualRail ib).length = out.length := by rw [dualRail_length, hib, hout]
    by_cases hdr : isDualRail out = true
    · rw [if_pos hdr]
      unfold delta
      by_cases he : unDualRail out = ib
      · rw [if_pos he, if_pos]
        rw [← he, dualRail_unDualRail out hdr]
      · rw [if_neg he, if_neg]
        intro hc
        apply he
        rw [← mk_injective_left hl hc, unDualRail_dualRail]
    · rw [if_neg hdr, if_neg]
      intro hc
      apply hdr
      rw [← mk_injective_left hl hc]
      exact isDualRail_dualRail ib
  | @cons g f gs' fs' hg hrest ih =>
    intro idx P ib η hP hsafe hib hη hher hrules
    simp only [listHom, listHer, listK, idealRun, List.headD_cons, List.tail_cons] at hher ⊢
    obtain ⟨hη1, hη2⟩ := herAt_append.mp hher
    have hsafe' : Safe nq gs' fs' rules := hsafe.tail hg.idle
    have hlib : (dualRail ib).length = 2 * nq := by rw [dualRail_length, hib]
    -- the intermediate states that matter: dual-rail states with the same herald part
    have hA : ∀ w, w ∉ (bitStrings nq).toFinset.image (fun mid => mk (dualRail mid) η) →
        amp (instrHom c par idx g f P) w (mk (dualRail ib) η) *
          amp (listHom c par (idx + 1) gs' fs' (P + (instrHer g f).length)) (mk out η) w = 0 := by
      intro w hw
      by_contra hne
      have h1 := left_ne_zero_of_mul hne
      have h2 := right_ne_zero_of_mul hne
      apply hw
      have hwge : ∀ z, 2 * nq ≤ z → w z = η z := by
        intro z hz
        by_cases hzr : P ≤ z ∧ z < P + (instrHer g f).length
        · have := (listHom_touch hrest (idx + 1) (P + (instrHer g f).length) z (by omega) hz
            (by omega)).apply_eq h2
          rw [← this, mk_apply_ge (by omega)]
        · have := (hg.touch idx P z hP hz hzr).apply_eq h1
          rw [this, mk_apply_ge (by omega)]
      have hwmk := eq_mk_of_agree (2 * nq) w η hη hwge
      have hw1 : HerAt P (instrHer g f) w :=
        herAt_congr (fun z hz1 _ => hwge z (by omega)) hη1
      have hw2 : HerAt (P + (instrHer g f).length) (listHer gs' fs') w :=
        herAt_congr (fun z hz1 _ => hwge z (by omega)) hη2
      have hstep := hg.step idx P w (mk (dualRail ib) η) hP h1 hw1
        ((herAt_mk (by omega)).mpr hη1)
      obtain ⟨tr, hrun, hfin⟩ := listHom_path hrest (idx + 1) (P + (instrHer g f).length) w
        (mk out η) (by omega) h2 hw2 ((herAt_mk (by omega)).mpr hη2)
      have hall := hsafe (cfgN nq (mk (dualRail ib) η)) (cfgN nq w :: tr)
        (cfgN_mk_dualRail nq ib hib η hη) (Run.cons g f gs' fs' _ _ tr hstep hrun) (by
          intro q hq
          rw [finalOf_cons, hfin]
          exact hrules q hq) (cfgN nq w) List.mem_cons_self
      -- so the user part of `w` is a dual-rail state
      have hul : ((List.range (2 * nq)).map w).length = 2 * nq := by simp
      have hu : ∀ z, z < 2 * nq → ((List.range (2 * nq)).map w).getD z 0 = w z := by
        intro z hz
        rw [List.getD_eq_getElem _ _ (by simpa using hz)]
        simp
      have hdr : isDualRail ((List.range (2 * nq)).map w) = true := by
        apply isDualRail_of_allOne _ nq hul
        intro q hq
        rw [hu _ (by omega), hu _ (by omega)]
        have := hall q hq
        unfold cfgN at this
        rwa [if_pos hq] at this
      rw [Finset.mem_image]
      refine ⟨unDualRail ((List.range (2 * nq)).map w), ?_, ?_⟩
      · exact mem_bitsF.mpr (unDualRail_length _ nq hul)
      · rw [dualRail_unDualRail _ hdr]
        exact hwmk.symm
    rw [amp_comp_subset _ _ _ _ _ hA, Finset.sum_image (by
      intro m1 hm1 m2 hm2 he
      have e1 := mem_bitsF.mp hm1
      have e2 := mem_bitsF.mp hm2
      exact dualRail_injective (mk_injective_left (by
        rw [dualRail_length, dualRail_length, e1, e2]) he))]
    have hterm : ∀ mid ∈ (bitStrings nq).toFinset,
        amp (instrHom c par idx g f P) (mk (dualRail mid) η) (mk (dualRail ib) η) *
          amp (listHom c par (idx + 1) gs' fs' (P + (instrHer g f).length)) (mk out η)
            (mk (dualRail mid) η)
        = (instrK c g f * applyInstr c par idx g (delta ib) mid) *
            (if isDualRail out = true then
              listK c gs' fs' * idealRun c par (idx + 1) gs' (delta mid) (unDualRail out)
            else 0) := by
      intro mid hmid
      rw [hg.table idx P ib mid η hP hib (mem_bitsF.mp hmid) hη hη1,
        ih (idx + 1) (P + (instrHer g f).length) mid η (by omega) hsafe' (mem_bitsF.mp hmid) hη hη2
          hrules]
    rw [Finset.sum_congr rfl hterm]
    by_cases hdr : isDualRail out = true
    · simp only [if_pos hdr]
      rw [idealRun_linear c par nq gs' (idx + 1) (applyInstr c par idx g (delta ib)) (unDualRail out)
        (unDualRail_length out nq hout), Finset.mul_sum]
      apply Finset.sum_congr rfl
      intro mid _
      ring
    · simp only [if_neg hdr, mul_zero, Finset.sum_const_zero]

end LW.C12F
