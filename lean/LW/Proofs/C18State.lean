/-
  LW.Proofs.C18State — State: equality/hash, +, merge, counts, integer subscripts, slices.
-/
import Mathlib.Data.List.Basic
import Mathlib.Algebra.BigOperators.Group.List.Basic
import Mathlib.Tactic.Ring
import LW.Model.StateVal

namespace LW.SV

/-! ### integer subscripts -/

theorem pyIndex_nonneg {n : Nat} {i : Int} (h0 : 0 ≤ i) (h1 : i < n) : pyIndex n i = some i.toNat := by
  simp [pyIndex, h0, h1]

theorem pyIndex_neg {n : Nat} {i : Int} (h0 : i < 0) (h1 : -(n : Int) ≤ i) :
    pyIndex n i = some (i + n).toNat := by
  have : ¬ 0 ≤ i := by omega
  have h2 : 0 ≤ i + (n : Int) := by omega
  simp [pyIndex, this, h2]

theorem pyIndex_none {n : Nat} {i : Int} (h : (n : Int) ≤ i ∨ i < -(n : Int)) : pyIndex n i = none := by
  unfold pyIndex
  split
  · split
    · omega
    · rfl
  · split
    · omega
    · rfl

theorem pyIndex_lt {n k : Nat} {i : Int} (h : pyIndex n i = some k) : k < n := by
  unfold pyIndex at h
  split at h
  · split at h
    · cases h; omega
    · cases h
  · split at h
    · cases h; omega
    · cases h

theorem pyIndex_isSome_iff {n : Nat} {i : Int} :
    (pyIndex n i).isSome ↔ -(n : Int) ≤ i ∧ i < n := by
  unfold pyIndex
  split
  · split <;> simp <;> omega
  · split <;> simp <;> omega

theorem getItem_ok_of_pyIndex {α : Type} {l : List α} {i : Int} {k : Nat} (h : pyIndex l.length i = some k) :
    getItem l i = .ok (l[k]'(pyIndex_lt h)) := by
  unfold getItem
  rw [h]
  simp [List.getElem?_eq_getElem (pyIndex_lt h)]

/-- `l[i]` for `0 ≤ i < len` is the `i`-th element -/
theorem getItem_nonneg {α : Type} (l : List α) (i : Nat) (h : i < l.length) :
    getItem l (i : Int) = .ok l[i] := by
  have := pyIndex_nonneg (n := l.length) (i := (i : Int)) (by omega) (by omega)
  rw [getItem_ok_of_pyIndex this]
  simp

/-- `l[-j]` for `1 ≤ j ≤ len` is the element `len - j` -/
theorem getItem_neg {α : Type} (l : List α) (j : Nat) (h1 : 1 ≤ j) (h2 : j ≤ l.length) :
    getItem l (-(j : Int)) = .ok (l[l.length - j]'(by omega)) := by
  have := pyIndex_neg (n := l.length) (i := -(j : Int)) (by omega) (by omega)
  rw [getItem_ok_of_pyIndex this]
  congr 1
  have : (-(j : Int) + (l.length : Int)).toNat = l.length - j := by omega
  simp [this]

/-- outside `[-len, len)` the subscript is refused (IndexError) -/
theorem getItem_out_of_range {α : Type} (l : List α) (i : Int)
    (h : (l.length : Int) ≤ i ∨ i < -(l.length : Int)) : getItem l i = .error .other := by
  unfold getItem
  rw [pyIndex_none h]

theorem getItem_ok_iff {α : Type} (l : List α) (i : Int) :
    (∃ x, getItem l i = .ok x) ↔ -(l.length : Int) ≤ i ∧ i < l.length := by
  constructor
  · rintro ⟨x, hx⟩
    by_contra hc
    rw [getItem_out_of_range l i (by omega)] at hx
    cases hx
  · intro h
    have := (pyIndex_isSome_iff (n := l.length) (i := i)).mpr h
    obtain ⟨k, hk⟩ := Option.isSome_iff_exists.mp this
    exact ⟨_, getItem_ok_of_pyIndex hk⟩

/-! ### slices -/

theorem adjust_pos_bounds (n : Nat) (step : Int) (hs : 0 < step) (x : Option Int) (d : Int)
    (hd : 0 ≤ d ∧ d ≤ n) : 0 ≤ adjust n step x d ∧ adjust n step x d ≤ n := by
  unfold adjust
  cases x with
  | none => exact hd
  | some v =>
    have hns : ¬ step < 0 := by omega
    simp only [hns, if_false]
    split <;> split <;> (try split) <;> omega

theorem adjust_neg_bounds (n : Nat) (step : Int) (hs : step < 0) (x : Option Int) (d : Int)
    (hd : -1 ≤ d ∧ d ≤ (n : Int) - 1) : -1 ≤ adjust n step x d ∧ adjust n step x d ≤ (n : Int) - 1 := by
  unfold adjust
  cases x with
  | none => exact hd
  | some v =>
    simp only [hs, if_true]
    split <;> split <;> (try split) <;> omega

/-- the adjusted bounds and the number of selected positions, as functions -/
def sStart (n : Nat) (sl : Slice) : Int :=
  adjust n (sl.step.getD 1) sl.start (if sl.step.getD 1 < 0 then (n : Int) - 1 else 0)
def sStop (n : Nat) (sl : Slice) : Int :=
  adjust n (sl.step.getD 1) sl.stop (if sl.step.getD 1 < 0 then -1 else (n : Int))
def sCnt (n : Nat) (sl : Slice) : Nat :=
  (if sl.step.getD 1 < 0 then
      (if sStop n sl < sStart n sl then (sStart n sl - sStop n sl - 1) / (-(sl.step.getD 1)) + 1 else 0)
    else (if sStart n sl < sStop n sl then (sStop n sl - sStart n sl - 1) / (sl.step.getD 1) + 1 else 0) : Int).toNat

theorem sliceIdx_eq (n : Nat) (sl : Slice) : sliceIdx n sl =
    if sl.step.getD 1 = 0 then .error .value
    else .ok ((List.range (sCnt n sl)).map fun (k : Nat) => sStart n sl + (k : Int) * sl.step.getD 1) := by
  by_cases h : sl.step.getD 1 = 0
  · simp [sliceIdx, sliceParams, h, bind, Except.bind]
  · simp only [sliceIdx, sliceParams, sCnt, sStart, sStop, h, bind, Except.bind, pure, Except.pure, if_false]
    rfl

theorem step_getD_eq_zero_iff (sl : Slice) : sl.step.getD 1 = 0 ↔ sl.step = some 0 := by
  cases h : sl.step with
  | none => simp
  | some v => simp

/-- every position selected by a slice lies inside the sequence -/
theorem sliceIdx_valid (n : Nat) (sl : Slice) (idx : List Int) (h : sliceIdx n sl = .ok idx) :
    ∀ i ∈ idx, 0 ≤ i ∧ i < n := by
  rw [sliceIdx_eq] at h
  split at h
  · cases h
  · rename_i hstep
    simp only [Except.ok.injEq] at h
    subst h
    intro i hi
    simp only [List.mem_map, List.mem_range] at hi
    obtain ⟨k, hk, rfl⟩ := hi
    unfold sCnt at hk
    unfold sStart sStop at *
    generalize sl.step.getD 1 = step at *
    by_cases hneg : step < 0
    · simp only [hneg, if_true] at hk ⊢
      have hb1 := adjust_neg_bounds n step hneg sl.start ((n : Int) - 1) (by omega)
      have hb2 := adjust_neg_bounds n step hneg sl.stop (-1) (by omega)
      generalize adjust (↑n) step sl.start (↑n - 1) = start at *
      generalize adjust (↑n) step sl.stop (-1) = stop at *
      split at hk
      · rename_i hlt
        have hpos : 0 < -step := by omega
        have hk' : (k : Int) ≤ (start - stop - 1) / (-step) := by omega
        have hmul : (k : Int) * (-step) ≤ start - stop - 1 := (Int.le_ediv_iff_mul_le hpos).mp hk'
        have hk0 : 0 ≤ (k : Int) * (-step) := Int.mul_nonneg (by omega) (by omega)
        have e : (k : Int) * step = -((k : Int) * (-step)) := by ring
        constructor <;> omega
      · simp at hk
    · have hpos : 0 < step := by omega
      simp only [hneg, if_false] at hk ⊢
      have hb1 := adjust_pos_bounds n step hpos sl.start 0 (by omega)
      have hb2 := adjust_pos_bounds n step hpos sl.stop n (by omega)
      generalize adjust (↑n) step sl.start 0 = start at *
      generalize adjust (↑n) step sl.stop ↑n = stop at *
      split at hk
      · rename_i hlt
        have hk' : (k : Int) ≤ (stop - start - 1) / step := by omega
        have hmul : (k : Int) * step ≤ stop - start - 1 := (Int.le_ediv_iff_mul_le hpos).mp hk'
        have hk0 : 0 ≤ (k : Int) * step := Int.mul_nonneg (by omega) (by omega)
        constructor <;> omega
      · simp at hk

/-- a slice is refused exactly for `step = 0` (ValueError) -/
theorem sliceIdx_error_iff (n : Nat) (sl : Slice) :
    (∃ e, sliceIdx n sl = .error e) ↔ sl.step = some 0 := by
  rw [sliceIdx_eq, ← step_getD_eq_zero_iff]
  by_cases h : sl.step.getD 1 = 0 <;> simp [h]

theorem sliceIdx_step_zero (n : Nat) (sl : Slice) (h : sl.step = some 0) : sliceIdx n sl = .error .value := by
  rw [sliceIdx_eq]
  simp [(step_getD_eq_zero_iff sl).mpr h]

/-- the elements of `l[sl]` are the elements of `l` at the selected positions, in order -/
theorem sliceList_spec {α : Type} [Inhabited α] (l : List α) (sl : Slice) (r : List α)
    (h : sliceList l sl = .ok r) :
    ∃ idx, sliceIdx l.length sl = .ok idx ∧ r.length = idx.length ∧
      ∀ k (hk : k < idx.length), ∃ (hv : (idx[k]).toNat < l.length), 0 ≤ idx[k] ∧ r[k]? = some l[(idx[k]).toNat] := by
  unfold sliceList at h
  simp only [bind, Except.bind] at h
  split at h
  · cases h
  · rename_i idx hidx
    simp only [pure, Except.pure, Except.ok.injEq] at h
    subst h
    refine ⟨idx, hidx, by simp, ?_⟩
    intro k hk
    have hv := sliceIdx_valid l.length sl idx hidx idx[k] (List.getElem_mem hk)
    have hlt : (idx[k]).toNat < l.length := by omega
    refine ⟨hlt, hv.1, ?_⟩
    simp [hk, List.getD_eq_getElem?_getD, List.getElem?_eq_getElem hlt]

/-- with step 1 (or omitted) a slice is the contiguous block between the two clamped bounds -/
theorem sliceList_step_one {α : Type} [Inhabited α] (l : List α) (a b : Option Int) (st : Option Int)
    (hst : st = none ∨ st = some 1) :
    sliceList l ⟨a, b, st⟩ =
      .ok ((l.drop (adjust l.length 1 a 0).toNat).take
        ((adjust l.length 1 b l.length) - (adjust l.length 1 a 0)).toNat) := by
  have hstep : (Slice.mk a b st).step.getD 1 = 1 := by
    rcases hst with rfl | rfl <;> rfl
  unfold sliceList
  rw [sliceIdx_eq]
  unfold sCnt sStart sStop
  simp only [hstep, bind, Except.bind, pure, Except.pure]
  have hb1 := adjust_pos_bounds l.length 1 (by omega) a 0 (by omega)
  have hb2 := adjust_pos_bounds l.length 1 (by omega) b l.length (by omega)
  simp only [show ((1 : Int) = 0) = False by simp, if_false, show ¬ ((1 : Int) < 0) by omega]
  generalize adjust (↑l.length) 1 a 0 = s at *
  generalize adjust (↑l.length) 1 b ↑l.length = e at *
  congr 1
  have hcnt : (if s < e then (e - s - 1) / 1 + 1 else 0 : Int).toNat = (e - s).toNat := by
    split
    · rw [Int.ediv_one]; omega
    · omega
  rw [hcnt]
  apply List.ext_getElem?
  intro k
  by_cases hk : k < (e - s).toNat
  · have h1 : s.toNat + k < l.length := by omega
    simp only [List.getElem?_map, List.getElem?_range hk, Option.map_some, List.getElem?_take, hk,
      if_true, List.getElem?_drop]
    have : (s + (k : Int) * 1).toNat = s.toNat + k := by omega
    rw [this, List.getD_eq_getElem?_getD, List.getElem?_eq_getElem h1]
    rfl
  · have : (List.range (e - s).toNat)[k]? = none := by
      rw [List.getElem?_eq_none_iff]; simp; omega
    simp [hk]

/-- `l[:k] + l[k:] = l` for every integer `k` (negative or out of range included) -/
theorem slice_split {α : Type} [Inhabited α] (l : List α) (k : Int) :
    ∃ p q, sliceList l ⟨none, some k, none⟩ = .ok p ∧ sliceList l ⟨some k, none, none⟩ = .ok q ∧
      p ++ q = l := by
  refine ⟨_, _, sliceList_step_one l none (some k) none (Or.inl rfl),
    sliceList_step_one l (some k) none none (Or.inl rfl), ?_⟩
  have hb := adjust_pos_bounds l.length 1 (by omega) (some k) 0 (by omega)
  have e1 : adjust (↑l.length) 1 (some k) ↑l.length = adjust (↑l.length) 1 (some k) 0 := rfl
  have e2 : adjust (↑l.length) 1 none 0 = 0 := rfl
  have e3 : adjust (↑l.length) 1 none (l.length : Int) = l.length := rfl
  rw [e1, e2, e3]
  generalize adjust (↑l.length) 1 (some k) 0 = s at *
  simp only [Int.toNat_zero, List.drop_zero, Int.sub_zero]
  have : (↑l.length - s).toNat = l.length - s.toNat := by omega
  rw [this]
  have : List.take (l.length - s.toNat) (List.drop s.toNat l) = List.drop s.toNat l := by
    apply List.take_of_length_le; simp
  rw [this, List.take_append_drop]

/-- `l[:]` is `l` -/
theorem slice_full {α : Type} [Inhabited α] (l : List α) : sliceList l ⟨none, none, none⟩ = .ok l := by
  rw [sliceList_step_one l none none none (Or.inl rfl)]
  have e2 : adjust (↑l.length) 1 none 0 = 0 := rfl
  have e3 : adjust (↑l.length) 1 none (l.length : Int) = l.length := rfl
  rw [e2, e3]
  simp

/-- `l[::-1]` is `l` reversed -/
theorem slice_reverse {α : Type} [Inhabited α] (l : List α) :
    sliceList l ⟨none, none, some (-1)⟩ = .ok l.reverse := by
  unfold sliceList
  rw [sliceIdx_eq]
  unfold sCnt sStart sStop adjust
  simp only [Option.getD_some, bind, Except.bind, pure, Except.pure]
  simp only [show ((-1 : Int) = 0) = False by simp, if_false, show ((-1 : Int) < 0) by omega, if_true]
  congr 1
  have hcnt : (if (-1 : Int) < ↑l.length - 1 then ((l.length : Int) - 1 - -1 - 1) / - -1 + 1 else 0).toNat
      = l.length := by
    split
    · simp only [Int.neg_neg, Int.ediv_one]; omega
    · omega
  rw [hcnt]
  apply List.ext_getElem?
  intro k
  by_cases hk : k < l.length
  · have h1 : l.length - 1 - k < l.length := by omega
    simp only [List.getElem?_map, List.getElem?_range hk, Option.map_some]
    rw [List.getElem?_reverse hk]
    have : ((l.length : Int) - 1 + (k : Int) * -1).toNat = l.length - 1 - k := by omega
    rw [this, List.getD_eq_getElem?_getD, List.getElem?_eq_getElem h1]
    rfl
  · have : (List.range l.length)[k]? = none := by
      rw [List.getElem?_eq_none_iff]; simp; omega
    have h2 : l.reverse[k]? = none := by
      rw [List.getElem?_eq_none_iff]; simp; omega
    simp [this, h2]

/-! ### State -/

namespace State

theorem eq_iff (a b : State) : a.eq b = true ↔ a.s = b.s := by
  simp [eq, getS]

theorem eq_iff' (a b : State) : a.eq b = true ↔ a = b := by
  rw [eq_iff]
  cases a; cases b; simp

theorem eq_hash {H : Type} (h : String → H) (a b : State) (e : a.eq b = true) : a.hash h = b.hash h := by
  rw [(eq_iff' a b).mp e]

theorem add_s (a b : State) : (a.add b).s = a.s ++ b.s := rfl

theorem add_assoc (a b c : State) : (a.add b).add c = a.add (b.add c) := by
  simp [add, List.append_assoc]

theorem nModes_add (a b : State) : (a.add b).nModes = a.nModes + b.nModes := by
  simp [add, nModes]

theorem nPhotons_add (a b : State) : (a.add b).nPhotons = a.nPhotons + b.nPhotons := by
  simp [add, nPhotons]

theorem add_empty (a : State) : a.add ⟨[]⟩ = a ∧ (⟨[]⟩ : State).add a = a := by
  simp [add]

theorem merge_ok_iff (a b : State) : (∃ c, a.merge b = .ok c) ↔ a.nModes = b.nModes := by
  unfold merge
  by_cases h : a.nModes = b.nModes <;> simp [h]

theorem merge_error (a b : State) (h : a.nModes ≠ b.nModes) : a.merge b = .error .value := by
  simp [merge, h]

theorem merge_ok (a b : State) (h : a.nModes = b.nModes) :
    a.merge b = .ok ⟨List.zipWith (· + ·) a.s b.s⟩ := by
  simp [merge, h, getS]

theorem merge_nModes (a b c : State) (h : a.merge b = .ok c) : c.nModes = a.nModes ∧ c.nModes = b.nModes := by
  have hn := (merge_ok_iff a b).mp ⟨c, h⟩
  rw [merge_ok a b hn] at h
  cases h
  simp only [nModes] at hn ⊢
  simp [hn]

/-- mode-wise addition -/
theorem merge_getElem (a b c : State) (h : a.merge b = .ok c) (i : Nat) (hi : i < c.nModes) :
    c.s[i]'hi = a.s[i]'(by have := merge_nModes a b c h; simp only [nModes] at *; omega) +
      b.s[i]'(by have := merge_nModes a b c h; simp only [nModes] at *; omega) := by
  have hn := (merge_ok_iff a b).mp ⟨c, h⟩
  rw [merge_ok a b hn] at h
  cases h
  exact List.getElem_zipWith ..

theorem merge_comm (a b : State) : a.merge b = b.merge a := by
  by_cases h : a.nModes = b.nModes
  · rw [merge_ok a b h, merge_ok b a h.symm]
    congr 2
    rw [List.zipWith_comm]
    congr 1
    funext x y
    exact Int.add_comm y x
  · rw [merge_error a b h, merge_error b a (Ne.symm h)]

theorem merge_assoc (a b c ab bc : State) (h1 : a.merge b = .ok ab) (h2 : b.merge c = .ok bc) :
    ab.merge c = a.merge bc := by
  have hab := (merge_ok_iff a b).mp ⟨ab, h1⟩
  have hbc := (merge_ok_iff b c).mp ⟨bc, h2⟩
  have n1 := merge_nModes a b ab h1
  have n2 := merge_nModes b c bc h2
  rw [merge_ok a b hab] at h1
  rw [merge_ok b c hbc] at h2
  cases h1; cases h2
  rw [merge_ok _ _ (by omega), merge_ok _ _ (by omega)]
  congr 2
  apply List.ext_getElem?
  intro i
  simp only [List.getElem?_zipWith]
  cases a.s[i]? <;> cases b.s[i]? <;> cases c.s[i]? <;> simp [Int.add_assoc]

theorem sum_zipWith_add : ∀ (l₁ l₂ : List Int), l₁.length = l₂.length →
    (List.zipWith (· + ·) l₁ l₂).sum = l₁.sum + l₂.sum
  | [], [], _ => by simp
  | x :: xs, y :: ys, h => by
    simp only [List.length_cons, Nat.add_right_cancel_iff] at h
    simp only [List.zipWith_cons_cons, List.sum_cons, sum_zipWith_add xs ys h]
    ring
  | [], _ :: _, h => by simp at h
  | _ :: _, [], h => by simp at h

theorem nPhotons_merge (a b c : State) (h : a.merge b = .ok c) : c.nPhotons = a.nPhotons + b.nPhotons := by
  have hn := (merge_ok_iff a b).mp ⟨c, h⟩
  rw [merge_ok a b hn] at h
  cases h
  exact sum_zipWith_add _ _ hn

theorem slice_spec (a b : State) (sl : Slice) (h : a.slice sl = .ok b) :
    ∃ idx, sliceIdx a.nModes sl = .ok idx ∧ b.nModes = idx.length ∧
      ∀ k (hk : k < idx.length), ∃ (hv : (idx[k]).toNat < a.nModes), 0 ≤ idx[k] ∧
        b.s[k]? = some (a.s[(idx[k]).toNat]'hv) := by
  unfold slice at h
  simp only [bind, Except.bind] at h
  split at h
  · cases h
  · rename_i r hr
    simp only [pure, Except.pure, Except.ok.injEq] at h
    subst h
    exact sliceList_spec a.s sl r hr

theorem slice_error_iff (a : State) (sl : Slice) : (∃ e, a.slice sl = .error e) ↔ sl.step = some 0 := by
  rw [← sliceIdx_error_iff a.s.length sl]
  unfold slice sliceList
  simp only [bind, Except.bind, pure, Except.pure]
  constructor
  · rintro ⟨e, he⟩
    cases hs : sliceIdx a.s.length sl with
    | error e' => exact ⟨e', rfl⟩
    | ok v => simp [hs] at he
  · rintro ⟨e, he⟩
    exact ⟨e, by simp [he]⟩

theorem slice_split (a : State) (k : Int) :
    ∃ p q, a.slice ⟨none, some k, none⟩ = .ok p ∧ a.slice ⟨some k, none, none⟩ = .ok q ∧ p.add q = a := by
  obtain ⟨p, q, hp, hq, hpq⟩ := SV.slice_split a.s k
  refine ⟨⟨p⟩, ⟨q⟩, ?_, ?_, ?_⟩
  · simp [slice, hp, bind, Except.bind, pure, Except.pure]
  · simp [slice, hq, bind, Except.bind, pure, Except.pure]
  · simp [add, hpq]

theorem slice_full (a : State) : a.slice ⟨none, none, none⟩ = .ok a := by
  simp [slice, SV.slice_full, bind, Except.bind, pure, Except.pure]

theorem slice_reverse (a : State) : a.slice ⟨none, none, some (-1)⟩ = .ok ⟨a.s.reverse⟩ := by
  simp [slice, SV.slice_reverse, bind, Except.bind, pure, Except.pure]

end State

end LW.SV
