/-
  LW.Proofs.C06FullGroups — evaluation of `groupsOf` (the per-label photon groups of
  `annotated_state_pdist_calc`) on an arbitrary annotated state `AState.new rows`, in terms of the
  `(mode, label)` pairs of its photons; the two special cases needed for the classical limit
  (pairwise distinct labels: one single-photon group per photon) and for the brightness-only path
  (all labels `0`: one group, the occupation vector).  Group lists are compared up to permutation
  (`mixGroups_perm`), so the order of first appearance of the labels never has to be computed.
-/
import LW.Proofs.C06FullEmit

set_option linter.unusedSectionVars false

namespace LW.Proofs.C06

open LW.Src LW.SV

/-- photons with label `lab` per mode, from the `(mode, label)` pairs -/
def groupP (n : Nat) (e : List (Nat × Int)) (lab : Int) : FState :=
  (List.range n).map fun i => e.count (i, lab)

/-- `groupsOf` from the `(mode, label)` pairs -/
def groupsP (n : Nat) (e : List (Nat × Int)) : List FState :=
  let labs := dedup (e.map (·.2))
  if labs.isEmpty then [List.replicate n 0] else labs.map (groupP n e)

theorem ite_map_perm {α β : Type} {l1 l2 : List α} (hp : l1.Perm l2) (z : List β) (f : α → β) :
    (if l1.isEmpty then z else l1.map f).Perm (if l2.isEmpty then z else l2.map f) := by
  by_cases h : l1 = []
  · subst h
    have : l2 = [] := hp.symm.eq_nil
    subst this
    exact List.Perm.refl _
  · have h2 : l2 ≠ [] := fun h2 => h (by subst h2; exact hp.eq_nil)
    rw [if_neg (by simpa using h), if_neg (by simpa using h2)]
    exact hp.map f

theorem count_map_pair (c i : Nat) (lab : Int) (row : List Int) :
    (row.map (fun x => (c, x))).count (i, lab) = if c = i then row.count lab else 0 := by
  induction row with
  | nil => simp
  | cons x row ih =>
    rw [List.map_cons, List.count_cons, ih, List.count_cons]
    by_cases h : c = i <;> simp [h]

theorem count_pairsFrom (rows : List (List Int)) (c i : Nat) (lab : Int) :
    (pairsFrom c rows).count (i, lab) =
      if c ≤ i then (rows.getD (i - c) []).count lab else 0 := by
  induction rows generalizing c with
  | nil => simp [pairsFrom]
  | cons row rows ih =>
    rw [pairsFrom, List.count_append, count_map_pair, ih]
    by_cases h1 : c = i
    · subst h1; simp
    · by_cases h2 : c < i
      · have e : i - c = (i - (c + 1)) + 1 := by omega
        rw [if_neg h1, if_pos (by omega), if_pos (by omega), e, List.getD_cons_succ]
        simp
      · rw [if_neg h1, if_neg (by omega), if_neg (by omega)]

theorem groupState_new (n : Nat) (rows : List (List Int)) (lab : Int) :
    groupState n (AState.new rows) lab = groupP n (pairsFrom 0 rows) lab := by
  unfold groupState groupP
  apply List.map_congr_left
  intro i _
  rw [count_pairsFrom]
  simp only [Nat.zero_le, if_true, Nat.sub_zero, AState.new]
  have h1 : (rows.map sortInt).getD i [] = sortInt (rows.getD i []) := by
    have := List.getD_map (l := rows) (d := ([] : List Int)) (n := i) sortInt
    simpa [sortInt] using this
  rw [h1, (sortInt_perm _).count_eq]

theorem labelsOf_new_perm (rows : List (List Int)) :
    (labelsOf (AState.new rows)).Perm (dedup ((pairsFrom 0 rows).map (·.2))) := by
  rw [pairsFrom_map_snd, List.perm_ext_iff_of_nodup (labelsOf_nodup _) (dedup_nodup _)]
  intro x
  rw [mem_labelsOf, mem_dedup, List.mem_flatten]
  simp only [AState.new, List.mem_map]
  constructor
  · rintro ⟨row', ⟨row, hrow, rfl⟩, hx⟩
    exact ⟨row, hrow, (sortInt_perm _).mem_iff.1 hx⟩
  · rintro ⟨row, hrow, hx⟩
    exact ⟨_, ⟨row, hrow, rfl⟩, (sortInt_perm _).mem_iff.2 hx⟩

/-- THE GROUPS OF AN ARBITRARY ANNOTATED STATE, up to their order -/
theorem groupsOf_new_perm (n : Nat) (rows : List (List Int)) :
    (groupsOf n (AState.new rows)).Perm (groupsP n (pairsFrom 0 rows)) := by
  unfold groupsOf groupsP
  simp only
  have hf : groupState n (AState.new rows) = groupP n (pairsFrom 0 rows) :=
    funext (groupState_new n rows)
  rw [hf]
  exact ite_map_perm (labelsOf_new_perm rows) _ _

/-! ### pairwise distinct labels -/

theorem groupP_distinct (n : Nat) (e : List (Nat × Int)) (hnd : (e.map (·.2)).Nodup)
    (p : Nat × Int) (hp : p ∈ e) : groupP n e p.2 = unitVec n p.1 := by
  unfold groupP unitVec
  apply List.map_congr_left
  intro i _
  have hne : e.Nodup := List.Nodup.of_map _ hnd
  by_cases h : p.1 = i
  · rw [if_pos h]
    have : (i, p.2) = p := by rw [← h]
    rw [this]
    exact List.count_eq_one_of_mem hne hp
  · rw [if_neg h]
    apply List.count_eq_zero_of_not_mem
    intro hmem
    have := List.inj_on_of_nodup_map hnd hmem hp rfl
    exact h (by rw [← this])

/-- ALL-DISTINCT-LABEL STATES: one single-photon group per photon -/
theorem groupsP_distinct (n : Nat) (e : List (Nat × Int)) (hnd : (e.map (·.2)).Nodup) :
    (groupsP n e).Perm
      (if e.isEmpty then [List.replicate n 0] else e.map (fun p => unitVec n p.1)) := by
  have hp : (dedup (e.map (·.2))).Perm (e.map (·.2)) := by
    rw [List.perm_ext_iff_of_nodup (dedup_nodup _) hnd]
    intro x
    exact mem_dedup _ x
  have h1 := ite_map_perm hp [List.replicate n 0] (groupP n e)
  unfold groupsP
  simp only
  refine h1.trans (List.Perm.of_eq ?_)
  cases e with
  | nil => rfl
  | cons q e' =>
    have h2 : ((q :: e').map (·.2)).isEmpty = false := rfl
    have h3 : (q :: e').isEmpty = false := rfl
    rw [h2, h3]
    simp only [Bool.false_eq_true, if_false]
    rw [List.map_map]
    apply List.map_congr_left
    intro p hp
    exact groupP_distinct n (q :: e') hnd p hp

/-! ### all labels `0` -/

theorem count_pair_zero (e : List (Nat × Int)) (h0 : ∀ p ∈ e, p.2 = 0) (i : Nat) :
    e.count (i, 0) = (e.map (·.1)).count i := by
  induction e with
  | nil => rfl
  | cons p e ih =>
    rw [List.map_cons, List.count_cons, List.count_cons, ih (fun q hq => h0 q (by simp [hq]))]
    have hp : p.2 = 0 := h0 p (by simp)
    congr 1
    obtain ⟨a, b⟩ := p
    simp only at hp
    subst hp
    simp

theorem countVec_nil (n : Nat) : countVec n [] = List.replicate n 0 := by
  simp [countVec, List.map_const']

theorem nodup_all_zero (L : List Int) (hnd : L.Nodup) (h0 : ∀ x ∈ L, x = 0) (hne : L ≠ []) :
    L = [0] := by
  cases L with
  | nil => exact absurd rfl hne
  | cons x L' =>
    have hx : x = 0 := h0 x (by simp)
    subst hx
    cases L' with
    | nil => rfl
    | cons y L'' =>
      have hy : y = 0 := h0 y (by simp)
      subst hy
      simp at hnd

/-- ALL-EQUAL-LABEL STATES: one group, the occupation vector of the photons -/
theorem groupsP_zero (n : Nat) (e : List (Nat × Int)) (h0 : ∀ p ∈ e, p.2 = 0) :
    groupsP n e = [countVec n (e.map (·.1))] := by
  have hg : groupP n e 0 = countVec n (e.map (·.1)) := by
    unfold groupP countVec
    apply List.map_congr_left
    intro i _
    exact count_pair_zero e h0 i
  unfold groupsP
  simp only
  cases e with
  | nil =>
    have : dedup (([] : List (Nat × Int)).map (·.2)) = [] := rfl
    rw [this]
    simp [countVec_nil]
  | cons q e' =>
    have hL : dedup ((q :: e').map (·.2)) = [0] := by
      apply nodup_all_zero _ (dedup_nodup _)
      · intro x hx
        rw [mem_dedup] at hx
        obtain ⟨p, hp, rfl⟩ := List.mem_map.1 hx
        exact h0 p hp
      · intro hnil
        have : q.2 ∈ dedup ((q :: e').map (·.2)) := by
          rw [mem_dedup]; simp
        rw [hnil] at this
        cases this
    rw [hL]
    simp [hg]

end LW.Proofs.C06
