/-
  LW.Proofs.C11 — proofs for the additions to C11: reads whose computation may raise, and
  components shared by several long-lived objects (a heap that every holder sees).
  Statements are re-exported from LW/Properties/C11.lean.
-/
import LW.Model.Cache

namespace LW.C11P

open Cached

variable {Cfg Snap Val : Type} [DecidableEq Snap]

/-! ### `stale` and `read` -/

theorem stale_eq_false_iff (snap : Cfg → Snap) (s : Cached Cfg Snap Val) :
    s.stale snap = false ↔ ∃ v, s.cache = some (snap s.cfg, v) := by
  cases hc : s.cache with
  | none => simp [Cached.stale, hc]
  | some kv =>
    obtain ⟨k, v⟩ := kv
    by_cases hk : k = snap s.cfg
    · simp [Cached.stale, hc, hk]
    · simp [Cached.stale, hc, hk]

/-- `read` recomputes exactly when `stale` says so -/
theorem read_eq_of_stale (snap : Cfg → Snap) (compute : Cfg → Val) (s : Cached Cfg Snap Val) :
    s.read snap compute =
      if s.stale snap then (compute s.cfg, { s with cache := some (snap s.cfg, compute s.cfg) })
      else match s.cache with
        | some (_, v) => (v, s)
        | none => (compute s.cfg, s) := by
  cases hc : s.cache with
  | none => simp [Cached.read, Cached.stale, hc]
  | some kv =>
    obtain ⟨k, v⟩ := kv
    by_cases hk : k = snap s.cfg
    · simp [Cached.read, Cached.stale, hc, hk]
    · simp [Cached.read, Cached.stale, hc, hk]

/-- a computation that never raises: `readE` is `read` -/
theorem readE_ok {E : Type} (snap : Cfg → Snap) (compute : Cfg → Val) (s : Cached Cfg Snap Val) :
    s.readE snap (fun c => (Except.ok (compute c) : Except E Val)) =
      (Except.ok (s.read snap compute).1, (s.read snap compute).2) := by
  cases hc : s.cache with
  | none => simp [Cached.readE, Cached.read, Cached.stale, hc]
  | some kv =>
    obtain ⟨k, v⟩ := kv
    by_cases hk : k = snap s.cfg
    · simp [Cached.readE, Cached.read, Cached.stale, hc, hk]
    · simp [Cached.readE, Cached.read, Cached.stale, hc, hk]

/-! ### reads whose computation may raise -/

/-- cache invariant: a stored value is the successful computation of some configuration with that
snapshot -/
def InvE {E : Type} (snap : Cfg → Snap) (compute : Cfg → Except E Val)
    (s : Cached Cfg Snap Val) : Prop :=
  ∀ k v, s.cache = some (k, v) → ∃ c, snap c = k ∧ compute c = .ok v

theorem readE_correct {E : Type} (snap : Cfg → Snap) (compute : Cfg → Except E Val)
    (hf : ∀ c1 c2, snap c1 = snap c2 → compute c1 = compute c2)
    (s : Cached Cfg Snap Val) (hs : InvE snap compute s) :
    (s.readE snap compute).1 = compute s.cfg ∧ InvE snap compute (s.readE snap compute).2 ∧
    (s.readE snap compute).2.cfg = s.cfg := by
  have miss : ∀ (_ : s.stale snap = true),
      (s.readE snap compute).1 = compute s.cfg ∧ InvE snap compute (s.readE snap compute).2 ∧
      (s.readE snap compute).2.cfg = s.cfg := by
    intro hst
    cases hcomp : compute s.cfg with
    | error e =>
      have hr : s.readE snap compute = (.error e, s) := by simp [Cached.readE, hst, hcomp]
      rw [hr]; exact ⟨rfl, hs, rfl⟩
    | ok v' =>
      have hr : s.readE snap compute = (.ok v', { s with cache := some (snap s.cfg, v') }) := by
        simp [Cached.readE, hst, hcomp]
      rw [hr]
      refine ⟨rfl, ?_, rfl⟩
      intro k v h
      simp only [Option.some.injEq, Prod.mk.injEq] at h
      exact ⟨s.cfg, h.1, by rw [hcomp, h.2]⟩
  cases hst : s.stale snap with
  | true => exact miss hst
  | false =>
    obtain ⟨v, hv⟩ := (stale_eq_false_iff snap s).mp hst
    have hr : s.readE snap compute = (.ok v, s) := by simp [Cached.readE, hst, hv]
    rw [hr]
    obtain ⟨c, hc1, hc2⟩ := hs _ v hv
    refine ⟨?_, hs, rfl⟩
    show Except.ok v = compute s.cfg
    rw [← hc2]
    exact hf c s.cfg hc1

theorem history_independentE {E : Type} (snap : Cfg → Snap) (compute : Cfg → Except E Val)
    (hf : ∀ c1 c2, snap c1 = snap c2 → compute c1 = compute c2)
    (ops : List (Op Cfg)) (s : Cached Cfg Snap Val) (hs : InvE snap compute s) :
    ∀ r ∈ runE snap compute s ops, r.2.2 = compute r.1 := by
  induction ops generalizing s with
  | nil => intro r h; simp [runE] at h
  | cons op ops ih =>
    intro r h
    cases op with
    | reconfig f =>
      simp only [runE, stepE] at h
      exact ih _ (by intro k v hkv; exact hs k v hkv) r h
    | read =>
      simp only [runE, stepE] at h
      obtain ⟨h1, h2, h3⟩ := readE_correct snap compute hf s hs
      rcases List.mem_cons.mp h with h | h
      · rw [h]; simp only; rw [h1, h3]
      · exact ih _ h2 r h

/-- the flag reported with a read is `true` exactly when nothing usable was stored -/
theorem runE_flag {E : Type} (snap : Cfg → Snap) (compute : Cfg → Except E Val)
    (s : Cached Cfg Snap Val) (ops : List (Op Cfg)) :
    runE snap compute s (.read :: ops) =
      (s.cfg, s.stale snap, (s.readE snap compute).1) ::
        runE snap compute (s.readE snap compute).2 ops := by
  have hcfg : (s.readE snap compute).2.cfg = s.cfg := by
    unfold Cached.readE
    split
    · split <;> rfl
    · split <;> rfl
  simp only [runE, stepE, hcfg]

/-! ### shared components -/

variable {H Own E : Type}

/-- invariant of one holder's cache in a world: the stored value is the successful computation of
SOME configuration with the stored snapshot.  It does not mention the heap, so an in-place change
of a shared component preserves it trivially. -/
def InvW (snap : Cfg → Snap) (compute : Cfg → Except E Val) (s : Cached Own Snap Val) : Prop :=
  ∀ k v, s.cache = some (k, v) → ∃ c, snap c = k ∧ compute c = .ok v

theorem read_correctW (r : Own → Cfg) (snap : Cfg → Snap) (compute : Cfg → Except E Val)
    (hf : ∀ c1 c2, snap c1 = snap c2 → compute c1 = compute c2)
    (s : Cached Own Snap Val) (hs : InvW snap compute s) :
    (s.readE (fun o => snap (r o)) (fun o => compute (r o))).1 = compute (r s.cfg) ∧
    InvW snap compute (s.readE (fun o => snap (r o)) (fun o => compute (r o))).2 ∧
    (s.readE (fun o => snap (r o)) (fun o => compute (r o))).2.cfg = s.cfg := by
  cases hst : s.stale (fun o => snap (r o)) with
  | true =>
    cases hcomp : compute (r s.cfg) with
    | error e =>
      have hr : s.readE (fun o => snap (r o)) (fun o => compute (r o)) = (.error e, s) := by
        simp [Cached.readE, hst, hcomp]
      rw [hr]; exact ⟨rfl, hs, rfl⟩
    | ok v' =>
      have hr : s.readE (fun o => snap (r o)) (fun o => compute (r o)) =
          (.ok v', { s with cache := some (snap (r s.cfg), v') }) := by
        simp [Cached.readE, hst, hcomp]
      rw [hr]
      refine ⟨rfl, ?_, rfl⟩
      intro k v h
      simp only [Option.some.injEq, Prod.mk.injEq] at h
      exact ⟨r s.cfg, h.1, by rw [hcomp, h.2]⟩
  | false =>
    obtain ⟨v, hv⟩ := (stale_eq_false_iff (fun o => snap (r o)) s).mp hst
    have hr : s.readE (fun o => snap (r o)) (fun o => compute (r o)) = (.ok v, s) := by
      simp [Cached.readE, hst, hv]
    rw [hr]
    obtain ⟨c, hc1, hc2⟩ := hs _ v hv
    refine ⟨?_, hs, rfl⟩
    show Except.ok v = compute (r s.cfg)
    rw [← hc2]
    exact hf c (r s.cfg) hc1

theorem set_of_getElem? {α : Type} {l : List α} {i : Nat} {a : α} (h : l[i]? = some a) :
    l.set i a = l := by
  induction l generalizing i with
  | nil => rfl
  | cons x xs ih =>
    cases i with
    | zero => simp at h; simp [h]
    | succ j => simp at h; simp [ih h]

/-- forget the caches of a world -/
def forget (w : CWorld H Own Snap Val) : H × List Own := (w.heap, w.holders.map (·.cfg))

theorem shared_history_independent (resolve : H → Own → Cfg) (snap : Cfg → Snap)
    (compute : Cfg → Except E Val) (hf : ∀ c1 c2, snap c1 = snap c2 → compute c1 = compute c2)
    (ops : List (WOp H Own)) (w : CWorld H Own Snap Val)
    (hw : ∀ s ∈ w.holders, InvW snap compute s) :
    CWorld.run resolve snap compute w ops = CWorld.specRun resolve compute (forget w) ops := by
  induction ops generalizing w with
  | nil => simp [CWorld.run, CWorld.specRun]
  | cons op ops ih =>
    cases op with
    | new o =>
      simp only [CWorld.run, CWorld.step, CWorld.specRun, CWorld.specStep]
      rw [ih]
      · simp [forget]
      · intro s hs
        rcases List.mem_append.mp hs with h | h
        · exact hw s h
        · have : s = { cfg := o } := by simpa using h
          subst this
          intro k v hkv; simp at hkv
    | mutate g =>
      simp only [CWorld.run, CWorld.step, CWorld.specRun, CWorld.specStep]
      exact ih ⟨g w.heap, w.holders⟩ hw
    | reconfig i f =>
      simp only [CWorld.run, CWorld.step, CWorld.specRun, CWorld.specStep, forget]
      cases hi : w.holders[i]? with
      | none =>
        simp only [List.getElem?_map, hi, Option.map_none]
        rw [ih _ hw]; rfl
      | some s =>
        simp only [List.getElem?_map, hi, Option.map_some]
        rw [ih]
        · simp [forget, List.map_set]
        · intro s' hs'
          rcases List.mem_or_eq_of_mem_set hs' with h | h
          · exact hw s' h
          · subst h
            have := hw s (List.mem_of_getElem? hi)
            intro k v hkv; exact this k v hkv
    | read i =>
      simp only [CWorld.run, CWorld.step, CWorld.specRun, CWorld.specStep, forget]
      cases hi : w.holders[i]? with
      | none =>
        simp only [List.getElem?_map, hi, Option.map_none]
        rw [ih _ hw]; rfl
      | some s =>
        have hsinv := hw s (List.mem_of_getElem? hi)
        obtain ⟨h1, h2, h3⟩ := read_correctW (resolve w.heap) snap compute hf s hsinv
        simp only [List.getElem?_map, hi, Option.map_some]
        rw [ih]
        · rw [h1]
          congr 1
          simp only [forget, List.map_set, h3]
          congr 1
          rw [set_of_getElem? (by rw [List.getElem?_map, hi]; rfl)]
        · intro s' hs'
          rcases List.mem_or_eq_of_mem_set hs' with h | h
          · exact hw s' h
          · subst h; exact h2

/-- every read of the cache-free history is the computation on the configuration of that moment -/
theorem specRun_computes (resolve : H → Own → Cfg) (compute : Cfg → Except E Val)
    (ops : List (WOp H Own)) (w : H × List Own) :
    ∀ r ∈ CWorld.specRun resolve compute w ops, r.2.2 = compute r.2.1 := by
  induction ops generalizing w with
  | nil => intro r h; simp [CWorld.specRun] at h
  | cons op ops ih =>
    intro r h
    cases op with
    | new o => simp only [CWorld.specRun, CWorld.specStep] at h; exact ih _ r h
    | mutate g => simp only [CWorld.specRun, CWorld.specStep] at h; exact ih _ r h
    | reconfig i f =>
      simp only [CWorld.specRun, CWorld.specStep] at h
      cases hi : w.2[i]? with
      | none => simp only [hi] at h; exact ih _ r h
      | some o => simp only [hi] at h; exact ih _ r h
    | read i =>
      simp only [CWorld.specRun, CWorld.specStep] at h
      cases hi : w.2[i]? with
      | none => simp only [hi] at h; exact ih _ r h
      | some o =>
        simp only [hi] at h
        rcases List.mem_cons.mp h with h | h
        · rw [h]
        · exact ih _ r h

end LW.C11P
