/-
  LW.Proofs.C12FullSem — REFINEMENT of `Circuit.add` for circuits whose unitary blocks are
  arbitrary (possibly non-invertible) matrices: the conclusion of `C02Sem.sem_add` under the
  positional hypothesis `SpecOk` (plus `Circ.WF`) instead of `Reach`.
-/
import LW.Proofs.C12FullSemRel
import LW.Proofs.C02SemAdd6

open scoped BigOperators

namespace LW.C12F

open LW LW.Proofs.C01Aux LW.Proofs.C02 LW.Proofs.C02Sem

variable {K : Type} [CommRing K] [StarRing K]

set_option linter.unusedSectionVars false

/-! ### the sub-circuit actually inserted -/

theorem flatten_unpack (spec : List (Comp K)) : flattenSpec (unpackSpec spec) = flattenSpec spec := by
  unfold flattenSpec unpackSpec
  induction spec with
  | nil => rfl
  | cons c cs ih =>
    simp only [List.flatMap_cons, List.flatMap_append, ih]
    congr 1
    cases c with
    | prim p => rfl
    | group cs' m1 m2 hin hout =>
      simp only [Comp.toPrims, List.flatMap_map, List.flatMap_singleton']

theorem pick_specOk (sub : Circ K) (g : Bool) (hwfs : sub.WF) (hsub : SpecOk sub.n sub.spec) :
    (pick sub g).1.WF ∧ SpecOk sub.n (pick sub g).1.spec := by
  unfold pick
  simp only
  split
  · refine ⟨LW.Proofs.Reach.unpackGroups_WF sub hwfs, ?_⟩
    intro p hp
    have hp' : p ∈ flattenSpec (unpackSpec sub.spec) := hp
    rw [flatten_unpack] at hp'
    exact hsub p hp'
  · exact ⟨hwfs, hsub⟩

theorem specOk_swapSpec (c : Circ K) (hwf : c.WF) (h : SpecOk c.n c.spec) :
    SpecOk c.n (swapSpec c) := by
  unfold swapSpec
  simp only
  rw [prov_eq c hwf]
  split
  · intro p hp
    rw [flatten_append] at hp
    rcases List.mem_append.mp hp with hp | hp
    · exact h p hp
    · simp only [flattenSpec, List.flatMap_cons, List.flatMap_nil, Comp.toPrims, List.append_nil,
        List.mem_singleton] at hp
      subst hp
      exact swapDict_swapsOk c hwf
  · exact h

theorem specOk_swapSpec_pick (sub : Circ K) (g : Bool) (hwfs : sub.WF)
    (hsub : SpecOk sub.n sub.spec) : SpecOk sub.n (swapSpec (pick sub g).1) := by
  obtain ⟨pwf, pok⟩ := pick_specOk sub g hwfs hsub
  have hpn : (pick sub g).1.n = sub.n := (pick_props sub g).1
  have := specOk_swapSpec (pick sub g).1 pwf (by rw [hpn]; exact pok)
  rwa [hpn] at this

/-! ### the matrix of the result -/

theorem Ufull_add' (i : K) (self sub self' : Circ K) (m : Int) (g : Bool) (mode : Nat) (ts : List Nat)
    (d : AddData self sub self' m g mode ts) (hwfs : sub.WF)
    (hws : SpecOk self.n self.spec) (hwsub : SpecOk sub.n (swapSpec (pick sub g).1)) :
    self'.Ufull i =
      (Optic.embedVia (self.n + sub.inHer.length + lossCount self.spec + lossCount sub.spec)
        (Optic.embedVia (sub.n + ts.length + lossCount sub.spec)
          (compile i sub.n (swapSpec (pick sub g).1)) (unbumps ts))
        (winInv (sub.n + ts.length) mode (self.n + sub.inHer.length + lossCount self.spec))).mul
      ((Optic.embedVia (self.n + sub.inHer.length + lossCount self.spec) (self.Ufull i)
        (unbumps ((sortNat (sub.inHer.keys.map (bumps ts))).map (mode + ·)))).pad (lossCount sub.spec)) := by
  set Kk := (sortNat (sub.inHer.keys.map (bumps ts))).map (mode + ·) with hKk
  have hKlen : Kk.length = sub.inHer.length := by
    rw [hKk, List.length_map, length_sortNat, List.length_map, keys_length]
  have hknd : (sub.inHer.keys.map (bumps ts)).Nodup :=
    nodup_map_of_inj (fun a b => bumps_inj ts) hwfs.inNodup
  have hKs : Kk.Pairwise (· < ·) := by
    rw [hKk, List.pairwise_map]
    exact (strictSorted_sortNat hknd).imp (fun hab => by omega)
  have hKlt : ∀ x ∈ Kk, x < self.n + Kk.length := by
    intro x hx
    rw [hKk] at hx
    obtain ⟨k, hk, rfl⟩ := List.mem_map.mp hx
    rw [mem_sortNat] at hk
    obtain ⟨x0, hx0, rfl⟩ := List.mem_map.mp hk
    have hxn := hwfs.inLt x0 hx0
    have h1 := bumps_of_ge sub.n ts d.ok sub.n (Nat.le_refl _)
    have h2 := bumps_strictMono ts hxn
    have := d.fit
    rw [hKlen]; omega
  have hKok : InsOk self.n Kk := insOk_sorted self.n Kk hKs hKlt
  have hL2 : lossCount (swapSpec (pick sub g).1) = lossCount sub.spec := by
    rw [lossCount_swapSpec]
    exact (pick_facts i sub g).2.2.2.1
  have hpn : (pick sub g).1.n = sub.n := (pick_props sub g).1
  show compile i self'.n self'.spec = _
  rw [compile_eq_foldl, d.flat, List.foldl_append, d.n_eq]
  have hV : (flattenSpec (specIns Kk self.spec)).foldl (compilePrim i) (M.one (self.n + sub.inHer.length))
      = compile i (self.n + Kk.length) (specIns Kk self.spec) := by
    rw [compile_eq_foldl, hKlen]
  rw [hV, compile_specIns' i self.n Kk hKok self.spec hws, hKlen]
  have hT : mode + (sub.n + ts.length) ≤ self.n + sub.inHer.length + lossCount self.spec := by
    have := d.fit; omega
  have hw2 := specOk_specIns sub.n ts _ hwsub
  rw [foldl_shift' i (sub.n + ts.length) mode (self.n + sub.inHer.length + lossCount self.spec) hT
    (specIns ts (swapSpec (pick sub g).1)) hw2 _ rfl (isOfFn_embedVia _ _ _)]
  rw [lossCount_specIns, hL2, compile_specIns' i sub.n ts d.ok _ hwsub, hL2]
  rfl

/-! ### the result is positionally well formed -/

theorem add_specOk (self sub self' : Circ K) (hwf : self.WF) (hwfs : sub.WF)
    (hs : SpecOk self.n self.spec) (hsub : SpecOk sub.n sub.spec) (m : Int) (g : Bool)
    (h : self.add sub m g = .ok self') : SpecOk self'.n self'.spec := by
  obtain ⟨mode, ts, d⟩ := add_data self sub self' hwf hwfs m g h
  have hwsub := specOk_swapSpec_pick sub g hwfs hsub
  have hKlen : ((sortNat (sub.inHer.keys.map (bumps ts))).map (mode + ·)).length = sub.inHer.length := by
    rw [List.length_map, length_sortNat, List.length_map, keys_length]
  intro p hp
  rw [d.flat] at hp
  rw [d.n_eq]
  rcases List.mem_append.mp hp with hp | hp
  · have := specOk_specIns self.n ((sortNat (sub.inHer.keys.map (bumps ts))).map (mode + ·))
      self.spec hs
    rw [hKlen] at this
    exact this p hp
  · have h1 := specOk_specIns sub.n ts _ hwsub
    have h2 := SpecOk.shift h1 mode
    have := d.fit
    exact (SpecOk.mono h2 (by omega)) p hp

/-! ### the theorem -/

theorem sem_add_weak (i : K) (self sub self' : Circ K) (hwf : self.WF) (hwfs : sub.WF)
    (hs : SpecOk self.n self.spec) (hsub : SpecOk sub.n sub.spec) (m : Int) (g : Bool)
    (h : self.add sub m g = .ok self') :
    (self'.toOptic i).closed = ((self.toOptic i).compose (sub.toOptic i).closed m.toNat).closed := by
  have hwf' : self'.WF := (add_preserves_WF self sub self' hwf hwfs m g h).1
  obtain ⟨mode, ts, d⟩ := add_data self sub self' hwf hwfs m g h
  have pos := addPos self sub self' m g mode ts d hwfs
  obtain ⟨hm0, hm1, hmode, -, -⟩ := mapped_port self hwf d.hmode
  have hrej := add_rejects self sub hwf hwfs m g
  have hcond : ¬ (m < 0 ∨ (self.ports : Int) < m + ((sub.n - sub.inHer.length : Nat) : Int)) := by
    intro hc
    rw [hrej hc] at h
    cases h
  have hP := portModes_length_eq_ports self hwf
  have c : Ctx self sub self' m g mode ts :=
    ⟨hwf, hwfs, hwf', d, pos, hm0, by omega, hmode.symm, by omega⟩
  -- the sub-circuit's swap spec is positionally well formed
  have hwsub := specOk_swapSpec_pick sub g hwfs hsub
  have hU := Ufull_add' i self sub self' m g mode ts d hwfs hs hwsub
  -- both closed forms
  rw [closed_toOptic i self' hwf', closed_eq]
  have hxle := c.hx_le
  have hfi := freeIn_length i self hwf
  have hhl := her_length i self hwf
  have hsl := closed_hn_length i sub hwfs
  have hq : self'.n - self'.inHer.length = self.n - self.inHer.length := by
    rw [d.n_eq, c.res_inLen]; omega
  have hl := lossCount_res d
  rw [compose_freeIn, compose_her_length, compose_her_n, compose_l, hfi, hhl, hsl, hq, c.res_inLen, hl,
    her_map_n i self hwf, toOptic_l]
  have hsn : (sub.toOptic i).closed.hn = sub.inHer.map (·.2) := by rw [closed_toOptic i sub hwfs]
  have hsl2 : (sub.toOptic i).closed.l = lossCount sub.spec := by rw [closed_toOptic i sub hwfs]
  have hhn : self'.inHer.map (·.2) = self.inHer.map (·.2) ++ sub.inHer.map (·.2) := by
    rw [d.inHer, List.map_append]
    simp [Dict.mapKeys, Function.comp_def]
  rw [hsn, hsl2, hhn]
  congr 1
  apply M.ofFn_congr
  intro r k hr hk
  obtain ⟨r1, r2⟩ := c.row_corr i hr
  obtain ⟨k1, k2⟩ := c.col_corr i hk
  rw [r1, k1, hU, compose_W]
  -- both sides are products over the same index space
  have hpl := portModes_length self hwf
  have hD : (self.toOptic i).p + (self.toOptic i).a + (sub.toOptic i).closed.hn.length
      + (self.toOptic i).l + (sub.toOptic i).closed.l
      = self.n + sub.inHer.length + lossCount self.spec + lossCount sub.spec := by
    rw [hsl, toOptic_l, hsl2]
    show self.portModes.length + self.internal.length + _ + _ + _ = _
    rw [hpl]
  rw [hD, hsl]
  have hN : self.n + sub.inHer.length ≤ self.n + sub.inHer.length + lossCount self.spec + lossCount sub.spec := by
    omega
  rw [M.get_mul _ _ (by rw [embedVia_n]; exact c.tau_lt hN r2) (by rw [embedVia_n]; exact c.tau_lt hN k2),
    M.get_mul _ _ (by rw [embedVia_n]; exact r2) (by rw [embedVia_n]; exact k2), embedVia_n, embedVia_n,
    c.sum_tau _ hN]
  apply Finset.sum_congr rfl
  intro x hx
  have hx' := Finset.mem_range.mp hx
  rw [c.factorS i r2 hx', c.factorP i hx' k2]

end LW.C12F
