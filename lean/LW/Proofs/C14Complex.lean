/-
  LW.Proofs.C14Complex — the float operations of `reck_decomposition` instantiated with the real
  functions they approximate (arctan, cos, sin, exp, angle over ℂ), written exactly as in the
  code, and the proof that this instance satisfies `NumOk` / `ChecksOk`.  This discharges the
  "trigonometric contracts" for the real-analytic functions; what remains trusted is only that the
  floats approximate them.
-/
import Mathlib.Analysis.SpecialFunctions.Trigonometric.Arctan
import Mathlib.Analysis.SpecialFunctions.Complex.Arg
import Mathlib.Analysis.Complex.Trigonometric
import LW.Proofs.C14Main

open Matrix

namespace LW.Proofs.C14

open LW.Reck Complex

/-- `theta = 2*arctan(|u1|/|u0|)` -/
noncomputable def thetaOf (u0 u1 : ℂ) : ℝ := 2 * Real.arctan (‖u1‖ / ‖u0‖)
/-- `phi = angle(u0) - angle(u1)` -/
noncomputable def phiOf (u0 u1 : ℂ) : ℝ := Complex.arg u0 - Complex.arg u1

open Classical in
/-- the operations of the code over the complex numbers: `cos(theta/2)`, `sin(theta/2)`,
`exp(1j*theta/2)`, `exp(1j*phi)`, `exp(1j*angle(z))`; thresholds idealised to exact tests -/
noncomputable def complexNum : Num ℂ where
  small z := decide (z = 0)
  trig u0 u1 :=
    ⟨(Real.cos (thetaOf u0 u1 / 2) : ℂ), (Real.sin (thetaOf u0 u1 / 2) : ℂ),
     Complex.exp (I * (thetaOf u0 u1 : ℂ) / 2), Complex.exp (I * (phiOf u0 u1 : ℂ))⟩
  ang z := Complex.exp (I * (Complex.arg z : ℂ))
  isUnitary V := decide (V.toMatN V.n ∈ Matrix.unitaryGroup (Fin V.n) ℂ)
  isNull V := decide (∀ r k : Fin V.n, r ≠ k → V.toMatN V.n r k = 0)

theorem imagUnit_I : IsImagUnit Complex.I := ⟨Complex.I_mul_I, Complex.conj_I⟩

theorem exp_I_unit (x : ℝ) : Complex.exp (I * (x : ℂ)) * star (Complex.exp (I * (x : ℂ))) = 1 := by
  have h : star (Complex.exp (I * (x : ℂ))) = Complex.exp (-(I * (x : ℂ))) := by
    rw [Complex.star_def, ← Complex.exp_conj]
    congr 1
    simp [Complex.conj_ofReal]
  rw [h, ← Complex.exp_add, add_neg_cancel, Complex.exp_zero]

theorem half_theta (u0 u1 : ℂ) : thetaOf u0 u1 / 2 = Real.arctan (‖u1‖ / ‖u0‖) := by
  unfold thetaOf; ring

theorem complexNum_ok : NumOk Complex.I complexNum := by
  refine ⟨?_, ?_, ?_, ?_⟩
  · intro z hz
    exact of_decide_eq_true hz
  · intro u0 u1 _
    refine ⟨?_, ?_, ?_, ?_, ?_⟩
    · simp only [complexNum]
      exact Complex.conj_ofReal _
    · simp only [complexNum]
      exact Complex.conj_ofReal _
    · simp only [complexNum]
      have := Real.cos_sq_add_sin_sq (thetaOf u0 u1 / 2)
      rw [← Complex.ofReal_mul, ← Complex.ofReal_mul, ← Complex.ofReal_add,
        show Real.cos (thetaOf u0 u1 / 2) * Real.cos (thetaOf u0 u1 / 2) +
          Real.sin (thetaOf u0 u1 / 2) * Real.sin (thetaOf u0 u1 / 2) = 1 by nlinarith [this]]
      exact Complex.ofReal_one
    · simp only [complexNum]
      rw [show I * (thetaOf u0 u1 : ℂ) / 2 = ((thetaOf u0 u1 / 2 : ℝ) : ℂ) * I by push_cast; ring,
        Complex.exp_mul_I, ← Complex.ofReal_cos, ← Complex.ofReal_sin]
      ring
    · exact exp_I_unit _
  · intro u0 u1 hs
    have hu0 : u0 ≠ 0 := by
      intro h
      simp [complexNum, h] at hs
    have hn0 : ‖u0‖ ≠ 0 := norm_ne_zero_iff.mpr hu0
    simp only [complexNum]
    rw [half_theta]
    set x := ‖u1‖ / ‖u0‖ with hx
    -- sin = x · cos
    have hcos := Real.cos_arctan_pos x
    have hsin : Real.sin (Real.arctan x) = x * Real.cos (Real.arctan x) := by
      have := Real.tan_arctan x
      rw [Real.tan_eq_sin_div_cos] at this
      field_simp at this
      linarith
    have hsu : Real.sin (Real.arctan x) * ‖u0‖ = Real.cos (Real.arctan x) * ‖u1‖ := by
      rw [hsin, hx]; field_simp
    have e0 := Complex.norm_mul_exp_arg_mul_I u0
    have e1 := Complex.norm_mul_exp_arg_mul_I u1
    have hp : star (Complex.exp (I * (phiOf u0 u1 : ℂ))) =
        Complex.exp (-(Complex.arg u0 : ℂ) * I) * Complex.exp ((Complex.arg u1 : ℂ) * I) := by
      rw [Complex.star_def, ← Complex.exp_conj, ← Complex.exp_add]
      congr 1
      simp [phiOf, Complex.conj_ofReal]
      ring
    rw [hp]
    have hsuC : (Real.sin (Real.arctan x) : ℂ) * (‖u0‖ : ℂ) =
        (Real.cos (Real.arctan x) : ℂ) * (‖u1‖ : ℂ) := by exact_mod_cast hsu
    have hcancel : Complex.exp (-(Complex.arg u0 : ℂ) * I) * Complex.exp ((Complex.arg u0 : ℂ) * I) = 1 := by
      rw [← Complex.exp_add]; simp
    calc (Real.cos (Real.arctan x) : ℂ) * u1
        = (Real.cos (Real.arctan x) : ℂ) * ((‖u1‖ : ℂ) * Complex.exp ((Complex.arg u1 : ℂ) * I)) := by
          rw [e1]
      _ = ((Real.sin (Real.arctan x) : ℂ) * (‖u0‖ : ℂ)) * Complex.exp ((Complex.arg u1 : ℂ) * I) := by
          rw [hsuC]; ring
      _ = (Complex.exp (-(Complex.arg u0 : ℂ) * I) * Complex.exp ((Complex.arg u0 : ℂ) * I)) *
            ((Real.sin (Real.arctan x) : ℂ) * (‖u0‖ : ℂ)) * Complex.exp ((Complex.arg u1 : ℂ) * I) := by
          rw [hcancel]; ring
      _ = Complex.exp (-(Complex.arg u0 : ℂ) * I) * Complex.exp ((Complex.arg u1 : ℂ) * I) *
            (Real.sin (Real.arctan x) : ℂ) * ((‖u0‖ : ℂ) * Complex.exp ((Complex.arg u0 : ℂ) * I)) := by
          ring
      _ = _ := by rw [e0]
  · intro z hz
    simp only [complexNum]
    have hnorm : ‖z‖ = 1 := by
      have h1 : (Complex.normSq z : ℂ) = 1 := by rw [← Complex.mul_conj]; exact hz
      have h2 : Complex.normSq z = 1 := by exact_mod_cast h1
      rw [Complex.normSq_eq_norm_sq] at h2
      have h3 : 0 ≤ ‖z‖ := norm_nonneg z
      nlinarith
    have := Complex.norm_mul_exp_arg_mul_I z
    rw [hnorm] at this
    simp only [Complex.ofReal_one, one_mul] at this
    rw [mul_comm]
    exact this

theorem complexNum_checks : ChecksOk complexNum := by
  classical
  refine ⟨fun V h => ?_, fun V h => ?_⟩
  · simp only [complexNum]; exact decide_eq_true h
  · simp only [complexNum]; exact decide_eq_true h

/-- `√½` over ℂ -/
noncomputable def rtHalfC : ℂ := ((Real.sqrt 2 / 2 : ℝ) : ℂ)

theorem rtHalfC_sq : 2 * (rtHalfC * rtHalfC) = 1 := by
  unfold rtHalfC
  have h : Real.sqrt 2 * Real.sqrt 2 = 2 := Real.mul_self_sqrt (by norm_num)
  have : (2 * ((Real.sqrt 2 / 2) * (Real.sqrt 2 / 2)) : ℝ) = 1 := by nlinarith
  exact_mod_cast this

theorem rtHalfC_real : star rtHalfC = rtHalfC := by
  unfold rtHalfC
  rw [Complex.star_def, Complex.conj_ofReal]

end LW.Proofs.C14
