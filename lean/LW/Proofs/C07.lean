/-
  C07 — proofs of the sampling properties (see LW/Properties/C07.lean).
  The work is in the helper files:
  * C07Merge  — merging equal keys of a weighted association list (total, lookup, Nodup, sign)
  * C07Kernel — exact detector kernel (binomial theorem, product over modes, closed form)
  * C07Cdf    — inverse-CDF selection
  * C07Sample — tape-driven detector, acceptance, the sampling loops
  Limit statements (law of large numbers, laws under an ideal uniform tape):
  * C07LimitGrid, C07LimitGridTendsto — equidistribution of inverse-CDF selection on the uniform grid
  * C07LimitReal  — real twin `inverseCdfR`, interval form, measurability, push-forward of U[0,1)
  * C07LimitLLN   — strong law for the selection step
  * C07LimitState — `sampleOne` = state at the selected index; strong law for states
  * C07LimitDetG       — closed form of the tape-driven detector, real twin, agreement on rational tapes
  * C07LimitDetComb    — expectation over independent bits; bit-tape law = exact kernel
  * C07LimitDetLaw     — law of the detected state on an i.i.d. uniform tape
  * C07LimitExample — non-vacuity (an ideal tape exists; concrete instances)
-/
import Mathlib.Algebra.Order.Field.Basic
import Mathlib.Algebra.Order.Field.Rat
import Mathlib.Algebra.BigOperators.Group.List.Basic
import Mathlib.Tactic.NormNum
import LW.Model.Sampling
import LW.Proofs.C07Merge
import LW.Proofs.C07Kernel
import LW.Proofs.C07Cdf
import LW.Proofs.C07Sample
import LW.Proofs.C07LimitGridTendsto
import LW.Proofs.C07LimitState
import LW.Proofs.C07LimitDetLaw
import LW.Proofs.C07LimitExample

namespace LW.Proofs.C07

/-! All lemmas used by `LW/Properties/C07.lean` live in this namespace:
`cum`, `inverseCdf_interval`, `inverseCdf_lt` (C07Cdf); `detectorKernel_nonneg`,
`detectorKernel_sum_one`, `modeKernel_closed_form` (C07Kernel); `detectorSample_shape`,
`detectorSample_perfect`, `acceptState_spec`, `sampleNInputs_ok`, `outputsDist_spec`,
`sampleNOutputs_count` (C07Sample). -/

/-! ### non-vacuity on the concrete detector ⟨1/2, 1/4, threshold⟩ and the state [2,0,1] -/

/-- the hypotheses of `detectorKernel_nonneg` hold for this detector -/
example : (0 : Rat) ≤ (⟨1/2, 1/4, false⟩ : Det).eta ∧ (⟨1/2, 1/4, false⟩ : Det).eta ≤ 1 ∧
    (0 : Rat) ≤ (⟨1/2, 1/4, false⟩ : Det).pDark ∧ (⟨1/2, 1/4, false⟩ : Det).pDark ≤ 1 := by
  norm_num

/-- the kernel is a genuine non-trivial distribution: 8 outcomes of total 1 -/
example : (detectorKernel ⟨1/2, 1/4, false⟩ [2, 0, 1]).length = 8 ∧
    ((detectorKernel ⟨1/2, 1/4, false⟩ [2, 0, 1]).map (·.2)).sum = 1 := by
  decide +kernel

/-- one mode with two photons, threshold detection: P(no click) = (1/4)(3/4), P(click) = 13/16 -/
example : modeKernel ⟨1/2, 1/4, false⟩ 2 = [(0, 3/16), (1, 13/16)] := by decide +kernel

/-- one mode with two photons, number resolving: counts 0..3 -/
example : modeKernel ⟨1/2, 1/4, true⟩ 2 = [(0, 3/16), (1, 7/16), (2, 5/16), (3, 1/16)] := by
  decide +kernel

/-- every tape gives a state in the support; one concrete tape -/
example : (detectorSample ⟨1/2, 1/4, false⟩ [2, 0, 1] [3/4, 1/4, 1/4, 1/2, 1/8, 1/2]).1 ∈
    (detectorKernel ⟨1/2, 1/4, false⟩ [2, 0, 1]).map (·.1) := by decide +kernel

end LW.Proofs.C07
