/-
  LW.Proofs.C13Struct — what the gate constructors build, for EVERY scalar type: one group of
  unitary blocks on fixed modes with fixed heralds.  The bookkeeping of `Circuit.add` / `herald`
  never looks at matrix entries, so these are definitional equalities; they are checked by the
  kernel alone (`kernel_rfl`: the elaborator's unifier is too slow on them).
-/
import Lean.Elab.Tactic
import LW.Model.Gates

set_option linter.unusedSectionVars false

namespace LW.Gates

open Lean Elab Tactic Meta in
/-- close a goal `a = b` with `Eq.refl a`, leaving the definitional-equality check to the kernel
(the elaborator's unifier is not run; nothing is assumed — the kernel rejects the declaration if the
two sides are not definitionally equal) -/
elab "kernel_rfl" : tactic => do
  let g ← getMainGoal
  let t ← instantiateMVars (← g.getType)
  let some (_, lhs, _) := t.eq? | throwError "kernel_rfl: goal is not an equality"
  g.assign (← mkEqRefl lhs)

variable {K : Type} [Add K] [Mul K] [Neg K] [Zero K] [One K]

/-- a circuit consisting of one group of components on all its modes, with heralds `her`
(input = output) on internal modes -/
def gateCirc (n : Nat) (her : Dict) (prims : List (Prim K)) : Circ K :=
  { n := n, spec := [.group prims 0 (n - 1) her her], inHer := her, outHer := her,
    extIn := [], extOut := [], internal := her.keys }

def herCZ : Dict := [(0, 0), (5, 0)]
def herCZH : Dict := [(0, 0), (1, 1), (6, 1), (7, 0)]
def herCCZ : Dict := [(0, 0), (1, 0), (8, 0), (9, 0)]

theorem CZ_struct (c : GC K) : CZ c = .ok (gateCirc 6 herCZ [.unitary 0 (czUnitary c)]) := by
  kernel_rfl
theorem CNOT0_struct (c : GC K) : CNOT c 0 = .ok (gateCirc 6 herCZ
    [.unitary 1 (sqMat c .H), .unitary 0 (czUnitary c), .unitary 1 (sqMat c .H)]) := by kernel_rfl
theorem CNOT1_struct (c : GC K) : CNOT c 1 = .ok (gateCirc 6 herCZ
    [.unitary 3 (sqMat c .H), .unitary 0 (czUnitary c), .unitary 3 (sqMat c .H)]) := by kernel_rfl
theorem CZH_struct (c : GC K) : CZH c = .ok (gateCirc 8 herCZH [.unitary 0 (czhUnitary c)]) := by
  kernel_rfl
theorem CNOTH0_struct (c : GC K) : CNOTH c 0 = .ok (gateCirc 8 herCZH
    [.unitary 2 (sqMat c .H), .unitary 0 (czhUnitary c), .unitary 2 (sqMat c .H)]) := by kernel_rfl
theorem CNOTH1_struct (c : GC K) : CNOTH c 1 = .ok (gateCirc 8 herCZH
    [.unitary 4 (sqMat c .H), .unitary 0 (czhUnitary c), .unitary 4 (sqMat c .H)]) := by kernel_rfl
theorem CCZ_struct (c : GC K) : CCZ c = .ok (gateCirc 10 herCCZ [.unitary 0 (cczUnitary c)]) := by
  kernel_rfl
theorem CCNOT0_struct (c : GC K) : CCNOT c 0 = .ok (gateCirc 10 herCCZ
    [.unitary 2 (sqMat c .H), .unitary 0 (cczUnitary c), .unitary 2 (sqMat c .H)]) := by kernel_rfl
theorem CCNOT1_struct (c : GC K) : CCNOT c 1 = .ok (gateCirc 10 herCCZ
    [.unitary 4 (sqMat c .H), .unitary 0 (cczUnitary c), .unitary 4 (sqMat c .H)]) := by kernel_rfl
theorem CCNOT2_struct (c : GC K) : CCNOT c 2 = .ok (gateCirc 10 herCCZ
    [.unitary 6 (sqMat c .H), .unitary 0 (cczUnitary c), .unitary 6 (sqMat c .H)]) := by kernel_rfl

/-- `U_full` of such a circuit: the blocks multiplied onto the identity in order -/
theorem gateCirc_Ufull (i : K) (n : Nat) (her : Dict) (prims : List (Prim K)) :
    (gateCirc n her prims).Ufull i = prims.foldl (compilePrim i) (M.one n) := rfl

end LW.Gates
