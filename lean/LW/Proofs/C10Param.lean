/-
  LW.Proofs.C10Param — the bounds invariant of `Parameter` and "a rejected call changes nothing"
  for the whole world of live objects (C10).
-/
import Mathlib.Order.Defs.LinearOrder
import Mathlib.Tactic.SplitIfs
import LW.Model.PCircuit

namespace LW

variable {α K : Type}

/-- the value lies within the bounds: a bound that is set implies a numeric value on its right side -/
def Param.InBounds [LE α] (p : Param α) : Prop :=
  (∀ m, p.min = some m → ∃ x, p.value = .num x ∧ m ≤ x) ∧
  (∀ mx, p.max = some mx → ∃ x, p.value = .num x ∧ x ≤ mx)

/-- every live parameter is within its bounds -/
def World.AllInBounds [LE α] (w : World α K) : Prop :=
  ∀ id p, w.store.get? id = some p → p.InBounds

namespace Param

variable [LinearOrder α]

theorem set_num_ok {p p' : Param α} {x : α} (h : p.set (.num x) = .ok p') :
    p' = { p with value := .num x } ∧ (∀ m, p.min = some m → ¬ x < m) ∧
      (∀ mx, p.max = some mx → ¬ mx < x) := by
  unfold Param.set at h
  cases hmin : p.min <;> cases hmax : p.max <;> simp only [hmin, hmax] at h <;>
    split_ifs at h <;> simp_all

theorem set_inBounds {p p' : Param α} {v : Val α} (hp : p.InBounds) (h : p.set v = .ok p') :
    p'.InBounds := by
  unfold Param.set at h
  cases v with
  | other t =>
    simp only at h
    split at h
    · cases h
    · rename_i hb
      injection h with h
      subst h
      have hmin : p.min = none := by
        cases hm : p.min with
        | none => rfl
        | some m => simp [hasBounds, hm] at hb
      have hmax : p.max = none := by
        cases hm : p.max with
        | none => rfl
        | some m => simp [hasBounds, hm] at hb
      constructor
      · intro m hm; simp [hmin] at hm
      · intro m hm; simp [hmax] at hm
  | num x =>
    obtain ⟨he, h1, h2⟩ := set_num_ok h
    subst he
    exact ⟨fun m hm => ⟨x, rfl, not_lt.mp (h1 m hm)⟩, fun mx hm => ⟨x, rfl, not_lt.mp (h2 mx hm)⟩⟩

theorem setMin_inBounds {p p' : Param α} {b : Option (Val α)} (hp : p.InBounds)
    (h : p.setMin b = .ok p') : p'.InBounds := by
  unfold Param.setMin at h
  cases b with
  | none =>
    simp only at h
    injection h with h
    subst h
    exact ⟨fun m hm => by simp at hm, hp.2⟩
  | some b =>
    simp only at h
    split at h
    · cases h
    · cases h
    · rename_i x m hv
      split at h
      · cases h
      · rename_i hlt
        injection h with h
        subst h
        constructor
        · intro m' hm'
          simp only [Option.some.injEq] at hm'
          subst hm'
          exact ⟨x, hv, not_lt.mp hlt⟩
        · exact hp.2

theorem setMax_inBounds {p p' : Param α} {b : Option (Val α)} (hp : p.InBounds)
    (h : p.setMax b = .ok p') : p'.InBounds := by
  unfold Param.setMax at h
  cases b with
  | none =>
    simp only at h
    injection h with h
    subst h
    exact ⟨hp.1, fun m hm => by simp at hm⟩
  | some b =>
    simp only at h
    split at h
    · cases h
    · cases h
    · rename_i x m hv
      split at h
      · cases h
      · rename_i hlt
        injection h with h
        subst h
        constructor
        · exact hp.1
        · intro m' hm'
          simp only [Option.some.injEq] at hm'
          subst hm'
          exact ⟨x, hv, not_lt.mp hlt⟩

theorem unbounded_inBounds (v : Val α) : ({ value := v } : Param α).InBounds :=
  ⟨fun m hm => by simp at hm, fun m hm => by simp at hm⟩

theorem new_inBounds {v : Val α} {b : Option (List (Option (Val α)))} {p : Param α}
    (h : Param.new v b = .ok p) : p.InBounds := by
  cases b with
  | none =>
    simp only [Param.new] at h
    injection h with h; subst h; exact unbounded_inBounds v
  | some l =>
    match l, h with
    | [b0, b1], h =>
      cases v with
      | other t => simp [Param.new] at h
      | num x =>
        simp only [Param.new, bind, Except.bind] at h
        cases h1 : ({ value := .num x } : Param α).setMin b0 with
        | error e => rw [h1] at h; cases h
        | ok p1 =>
          rw [h1] at h
          exact setMax_inBounds (setMin_inBounds (unbounded_inBounds _) h1) h
    | [], h => simp [Param.new] at h
    | [_], h => simp [Param.new] at h
    | _ :: _ :: _ :: _, h => simp [Param.new] at h

end Param

/-! ### the parameter store -/

namespace Store

theorem find_map_ne (s : Store α) (k k' : Nat) (p : Param α) (hne : k' ≠ k) :
    ((s.map fun x => if x.1 == k then (k, p) else x).find? (·.1 == k')).map (·.2) =
      (s.find? (·.1 == k')).map (·.2) := by
  induction s with
  | nil => rfl
  | cons x xs ih =>
    rw [List.map_cons]
    by_cases hx : x.1 = k
    · have hf : (if (x.1 == k) = true then (k, p) else x) = (k, p) := by simp [hx]
      have h1 : (x.1 == k') = false := by simp [hx, Ne.symm hne]
      have h2 : (k == k') = false := by simp [Ne.symm hne]
      rw [hf, List.find?_cons, List.find?_cons]
      simp only [h1, h2]
      exact ih
    · have hf : (if (x.1 == k) = true then (k, p) else x) = x := by simp [hx]
      rw [hf, List.find?_cons, List.find?_cons]
      cases hxk : (x.1 == k')
      · exact ih
      · rfl

theorem get?_set_ne (s : Store α) (k k' : Nat) (p : Param α) (hne : k' ≠ k) :
    (s.set k p).get? k' = s.get? k' := by
  unfold Store.set Store.get?
  split
  · exact find_map_ne s k k' p hne
  · rw [List.find?_append]
    have : ([(k, p)] : Store α).find? (·.1 == k') = none := by simp [hne.symm]
    simp [this]

theorem find_map_eq (s : Store α) (k : Nat) (p : Param α) (h : s.any (·.1 == k) = true) :
    ((s.map fun x => if x.1 == k then (k, p) else x).find? (·.1 == k)).map (·.2) = some p := by
  induction s with
  | nil => simp at h
  | cons x xs ih =>
    rw [List.map_cons, List.find?_cons]
    by_cases hx : x.1 = k
    · simp [hx]
    · have hf : (if (x.1 == k) = true then (k, p) else x) = x := by simp [hx]
      have hx' : (x.1 == k) = false := by simp [hx]
      rw [hf, hx']
      simp only [List.any_cons, hx', Bool.false_or] at h
      exact ih h

theorem get?_set_eq (s : Store α) (k : Nat) (p : Param α) : (s.set k p).get? k = some p := by
  unfold Store.set Store.get?
  split
  · rename_i h; exact find_map_eq s k p h
  · rename_i h
    rw [List.find?_append]
    have hnone : s.find? (·.1 == k) = none := by
      rw [List.find?_eq_none]
      intro x hx hxk
      exact h (List.any_eq_true.mpr ⟨x, hx, hxk⟩)
    simp [hnone]

end Store

namespace World

variable [LinearOrder α] [Zero K] [One K]

theorem allInBounds_set {w : World α K} (hw : w.AllInBounds) (id : Nat) (p : Param α)
    (hp : p.InBounds) : ({ w with store := w.store.set id p } : World α K).AllInBounds := by
  intro id' p' h
  by_cases he : id' = id
  · subst he
    rw [Store.get?_set_eq] at h
    injection h with h
    subst h; exact hp
  · rw [Store.get?_set_ne _ _ _ _ he] at h
    exact hw id' p' h

theorem updParam_inBounds {w w' : World α K} {id : Nat} {r : Except PErr (Param α)} {o : Option Fail}
    (hw : w.AllInBounds) (hr : ∀ p, r = .ok p → p.InBounds) (h : w.updParam id r = (w', o)) :
    w'.AllInBounds := by
  unfold updParam at h
  cases r with
  | error e => simp only [Prod.mk.injEq] at h; rw [← h.1]; exact hw
  | ok p =>
    simp only [Prod.mk.injEq] at h
    rw [← h.1]
    exact allInBounds_set hw id p (hr p rfl)

theorem updCirc_store {w w' : World α K} {cid : String} {r : Except Err (PCirc α K)} {o : Option Fail}
    (h : w.updCirc cid r = (w', o)) : w'.store = w.store := by
  unfold updCirc at h
  cases r <;> (simp only [Prod.mk.injEq] at h; rw [← h.1])

theorem setDict_store (w : World α K) (d : String) (pd : PDict) : (w.setDict d pd).store = w.store := rfl

/-- BOUNDS INVARIANT, one call: whatever the call and whether it is accepted or rejected, every
live parameter is within its bounds afterwards -/
theorem step_inBounds (ν : Views α K) {w w' : World α K} {op : POp α K} {o : Option Fail}
    (hw : w.AllInBounds) (h : World.step ν w op = some (w', o)) : w'.AllInBounds := by
  cases op with
  | pNew id v bounds =>
    simp only [step] at h
    split at h
    · cases h
    · injection h with h
      exact updParam_inBounds hw (fun p hp => Param.new_inBounds hp) h
  | pSet id v =>
    simp only [step] at h
    cases hg : w.store.get? id with
    | none => simp [hg] at h
    | some p =>
      simp only [hg, Option.map_some, Option.some.injEq] at h
      exact updParam_inBounds hw (fun p' hp' => Param.set_inBounds (hw id p hg) hp') h
  | pMin id b =>
    simp only [step] at h
    cases hg : w.store.get? id with
    | none => simp [hg] at h
    | some p =>
      simp only [hg, Option.map_some, Option.some.injEq] at h
      exact updParam_inBounds hw (fun p' hp' => Param.setMin_inBounds (hw id p hg) hp') h
  | pMax id b =>
    simp only [step] at h
    cases hg : w.store.get? id with
    | none => simp [hg] at h
    | some p =>
      simp only [hg, Option.map_some, Option.some.injEq] at h
      exact updParam_inBounds hw (fun p' hp' => Param.setMax_inBounds (hw id p hg) hp') h
  | dNew d items =>
    simp only [step] at h
    split at h
    · simp only [Option.some.injEq, Prod.mk.injEq] at h
      rw [← h.1]; exact hw
    · cases h
  | dSet d key arg =>
    simp only [step, Option.bind_eq_bind] at h
    cases hd : w.getDict d with
    | none => simp [hd] at h
    | some pd =>
      simp only [hd, Option.bind_some] at h
      cases hs : pd.setItem w.store key arg with
      | none => simp [hs] at h
      | some r =>
        simp only [hs, Option.bind_some] at h
        cases r with
        | error e =>
          simp only [Option.pure_def, Option.some.injEq, Prod.mk.injEq] at h
          rw [← h.1]; exact hw
        | ok wr =>
          cases wr with
          | dict pd' =>
            simp only [Option.pure_def, Option.some.injEq, Prod.mk.injEq] at h
            rw [← h.1]; exact hw
          | param id p =>
            simp only [Option.pure_def, Option.some.injEq, Prod.mk.injEq] at h
            rw [← h.1]
            apply allInBounds_set hw
            -- the written parameter is the result of `set` on a live parameter
            unfold PDict.setItem at hs
            cases arg with
            | par q => simp only at hs; split at hs <;> simp at hs
            | val v =>
              simp only at hs
              split at hs
              · simp at hs
              · rename_i id0 hk
                split at hs
                · simp at hs
                · rename_i p0 hp0
                  split at hs
                  · rename_i p1 hset
                    simp only [Option.some.injEq, Except.ok.injEq, DWrite.param.injEq] at hs
                    rw [← hs.2]
                    exact Param.set_inBounds (hw id0 p0 hp0) hset
                  · simp at hs
  | dRemove d key =>
    simp only [step, Option.bind_eq_bind] at h
    cases hd : w.getDict d with
    | none => simp [hd] at h
    | some pd =>
      simp only [hd, Option.bind_some] at h
      split at h <;>
        (simp only [Option.pure_def, Option.some.injEq, Prod.mk.injEq] at h; rw [← h.1]; exact hw)
  | circ cop =>
    simp only [step] at h
    split at h
    · cases h
    · simp only [Option.some.injEq, Prod.mk.injEq] at h
      rw [← h.1]; exact hw
  | bs cid m1 m2 r cv l =>
    simp only [step] at h
    cases hg : Heap.get? w.circs cid with
    | none => simp [hg] at h
    | some c =>
      simp only [hg, Option.map_some, Option.some.injEq] at h
      intro id p hp
      rw [updCirc_store h] at hp
      exact hw id p hp
  | ps cid m phi l =>
    simp only [step] at h
    cases hg : Heap.get? w.circs cid with
    | none => simp [hg] at h
    | some c =>
      simp only [hg, Option.map_some, Option.some.injEq] at h
      intro id p hp
      rw [updCirc_store h] at hp
      exact hw id p hp
  | loss cid m l =>
    simp only [step] at h
    cases hg : Heap.get? w.circs cid with
    | none => simp [hg] at h
    | some c =>
      simp only [hg, Option.map_some, Option.some.injEq] at h
      intro id p hp
      rw [updCirc_store h] at hp
      exact hw id p hp
  | freeze dst src =>
    simp only [step] at h
    cases hg : Heap.get? w.circs src with
    | none => simp [hg] at h
    | some c =>
      simp only [hg, Option.map_some, Option.some.injEq] at h
      intro id p hp
      rw [updCirc_store h] at hp
      exact hw id p hp

/-- BOUNDS INVARIANT over every history -/
theorem run_inBounds (ν : Views α K) (ops : List (POp α K)) {w w' : World α K} {rs : List (Option Fail)}
    (hw : w.AllInBounds) (h : World.run ν w ops = some (w', rs)) : w'.AllInBounds := by
  induction ops generalizing w w' rs with
  | nil =>
    simp only [run, Option.some.injEq, Prod.mk.injEq] at h
    rw [← h.1]; exact hw
  | cons op ops ih =>
    simp only [run, Option.bind_eq_bind] at h
    cases hs : step ν w op with
    | none => simp [hs] at h
    | some p =>
      obtain ⟨w1, r⟩ := p
      simp only [hs, Option.bind_some] at h
      cases hr : run ν w1 ops with
      | none => simp [hr] at h
      | some q =>
        obtain ⟨w2, rs2⟩ := q
        simp only [hr, Option.bind_some, Option.pure_def, Option.some.injEq, Prod.mk.injEq] at h
        rw [← h.1]
        exact ih (step_inBounds ν hw hs) hr

omit [Zero K] [One K] in
theorem empty_inBounds : ({} : World α K).AllInBounds := by
  intro id p h
  simp [Store.get?] at h

/-- REJECTED CALLS: a call that raises leaves the whole world — every parameter, dictionary and
circuit — exactly as it was -/
theorem failed_step_noop (ν : Views α K) {w w' : World α K} {op : POp α K} {e : Fail}
    (h : World.step ν w op = some (w', some e)) : w' = w := by
  have upd : ∀ (id : Nat) (r : Except PErr (Param α)), w.updParam id r = (w', some e) → w' = w := by
    intro id r h
    unfold updParam at h
    cases r <;> simp only [Prod.mk.injEq] at h
    · exact h.1.symm
    · exact absurd h.2 (by simp)
  have updc : ∀ (cid : String) (r : Except Err (PCirc α K)), w.updCirc cid r = (w', some e) → w' = w := by
    intro cid r h
    unfold updCirc at h
    cases r <;> simp only [Prod.mk.injEq] at h
    · exact h.1.symm
    · exact absurd h.2 (by simp)
  cases op with
  | pNew id v bounds =>
    simp only [step] at h
    split at h
    · cases h
    · injection h with h; exact upd _ _ h
  | pSet id v =>
    simp only [step] at h
    cases hg : w.store.get? id with
    | none => simp [hg] at h
    | some p => simp only [hg, Option.map_some, Option.some.injEq] at h; exact upd _ _ h
  | pMin id b =>
    simp only [step] at h
    cases hg : w.store.get? id with
    | none => simp [hg] at h
    | some p => simp only [hg, Option.map_some, Option.some.injEq] at h; exact upd _ _ h
  | pMax id b =>
    simp only [step] at h
    cases hg : w.store.get? id with
    | none => simp [hg] at h
    | some p => simp only [hg, Option.map_some, Option.some.injEq] at h; exact upd _ _ h
  | dNew d items =>
    simp only [step] at h
    split at h
    · simp at h
    · cases h
  | dSet d key arg =>
    simp only [step, Option.bind_eq_bind] at h
    cases hd : w.getDict d with
    | none => simp [hd] at h
    | some pd =>
      simp only [hd, Option.bind_some] at h
      cases hs : pd.setItem w.store key arg with
      | none => simp [hs] at h
      | some r =>
        simp only [hs, Option.bind_some] at h
        cases r with
        | error e' =>
          simp only [Option.pure_def, Option.some.injEq, Prod.mk.injEq] at h
          exact h.1.symm
        | ok wr => cases wr <;> simp at h
  | dRemove d key =>
    simp only [step, Option.bind_eq_bind] at h
    cases hd : w.getDict d with
    | none => simp [hd] at h
    | some pd =>
      simp only [hd, Option.bind_some] at h
      split at h
      · simp only [Option.pure_def, Option.some.injEq, Prod.mk.injEq] at h; exact h.1.symm
      · simp at h
  | circ cop =>
    simp only [step] at h
    cases hh : heapStep w.circs cop with
    | none => simp [hh] at h
    | some p =>
      obtain ⟨h', r⟩ := p
      simp only [hh, Option.some.injEq, Prod.mk.injEq] at h
      cases r with
      | none => simp at h
      | some e' =>
        -- `heapStep` returns the pool unchanged on an error (C08)
        unfold heapStep at hh
        split at hh
        · cases hh
        · simp at hh
        · simp only [Option.some.injEq, Prod.mk.injEq] at hh
          rw [← h.1, ← hh.1]
  | bs cid m1 m2 r cv l =>
    simp only [step] at h
    cases hg : Heap.get? w.circs cid with
    | none => simp [hg] at h
    | some c => simp only [hg, Option.map_some, Option.some.injEq] at h; exact updc _ _ h
  | ps cid m phi l =>
    simp only [step] at h
    cases hg : Heap.get? w.circs cid with
    | none => simp [hg] at h
    | some c => simp only [hg, Option.map_some, Option.some.injEq] at h; exact updc _ _ h
  | loss cid m l =>
    simp only [step] at h
    cases hg : Heap.get? w.circs cid with
    | none => simp [hg] at h
    | some c => simp only [hg, Option.map_some, Option.some.injEq] at h; exact updc _ _ h
  | freeze dst src =>
    simp only [step] at h
    cases hg : Heap.get? w.circs src with
    | none => simp [hg] at h
    | some c => simp only [hg, Option.map_some, Option.some.injEq] at h; exact updc _ _ h

end World

end LW
