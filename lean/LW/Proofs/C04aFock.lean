/-
  C04a helper: photon counting, `fockBasis` soundness (length and photon number), `partitionIdx`
  length, and the key invariant of the SLOS layers.
-/
import LW.Proofs.C04aPDist

namespace LW.Proofs.C04a
open LW

theorem photons_eq_sum (s : FState) : photons s = s.sum := by
  unfold photons
  exact List.sum_eq_foldl_nat.symm

theorem photons_append (a b : FState) : photons (a ++ b) = photons a + photons b := by
  simp only [photons_eq_sum, List.sum_append_nat]

theorem photons_replicate_zero (k : Nat) : photons (List.replicate k 0) = 0 := by
  simp only [photons_eq_sum, List.sum_replicate_nat, Nat.mul_zero]

theorem photons_take_le (l : FState) (k : Nat) : photons (l.take k) ≤ photons l := by
  have h : photons l = photons (l.take k) + photons (l.drop k) := by
    rw [← photons_append, List.take_append_drop]
  omega

theorem photons_set_succ (l : FState) (j : Nat) (hj : j < l.length) :
    photons (l.set j (l.getD j 0 + 1)) = photons l + 1 := by
  simp only [photons_eq_sum]
  induction l generalizing j with
  | nil => simp at hj
  | cons a l ih =>
    cases j with
    | zero => simp; omega
    | succ j =>
      simp only [List.length_cons, Nat.add_lt_add_iff_right] at hj
      simp only [List.set_cons_succ, List.getD_cons_succ, List.sum_cons, ih j hj]
      omega

/-- soundness of `fockBasis`: every element has `N` modes and `n` photons -/
theorem fockBasis_sound (N n : Nat) (o : FState) (ho : o ∈ fockBasis N n) :
    o.length = N ∧ photons o = n := by
  fun_induction fockBasis N n generalizing o with
  | case1 => simp at ho
  | case2 n =>
    simp only [List.mem_singleton] at ho
    subst ho
    simp [photons]
  | case3 N n ih =>
    simp only [List.mem_flatMap, List.mem_range, List.mem_map] at ho
    obtain ⟨v, hv, p, hp, rfl⟩ := ho
    obtain ⟨h1, h2⟩ := ih v p hp
    refine ⟨by simp [h1], ?_⟩
    rw [photons_append, h2]
    simp only [photons, List.foldl_cons, List.foldl_nil]
    omega

theorem length_flatMap_replicate (l : List (Nat × Nat)) :
    (l.flatMap fun (x : Nat × Nat) => List.replicate x.2 x.1).length = (l.map Prod.snd).sum := by
  induction l with
  | nil => rfl
  | cons a l ih => simp [List.flatMap_cons, ih]

theorem partitionIdx_length (s : FState) : (partitionIdx s).length = photons s := by
  unfold partitionIdx
  rw [photons_eq_sum]
  have h := length_flatMap_replicate ((List.range s.length).zip s)
  rw [List.map_snd_zip (by simp)] at h
  exact h

section Slos
variable {K : Type} [Add K] [Mul K] [Zero K] [One K]

omit [One K] in
theorem slosLayer_keys (U : M K) (i : Nat) (dist : List (FState × K)) (m : Nat)
    (hd : ∀ t ∈ dist.map (·.1), t.length = U.n ∧ photons t = m) :
    ∀ t ∈ (slosLayer U i dist).map (·.1), t.length = U.n ∧ photons t = m + 1 := by
  unfold slosLayer
  apply foldl_inv (fun out : List (FState × K) =>
    ∀ t ∈ out.map (·.1), t.length = U.n ∧ photons t = m + 1)
  · intro t ht; simp at ht
  · intro acc j hj hacc
    apply foldl_inv (fun out : List (FState × K) =>
      ∀ t ∈ out.map (·.1), t.length = U.n ∧ photons t = m + 1)
    · exact hacc
    · intro out x hx hout
      obtain ⟨t, v⟩ := x
      have ht := hd t (List.mem_map.2 ⟨(t, v), hx, rfl⟩)
      have hj' : j < t.length := by rw [ht.1]; exact List.mem_range.1 hj
      change ∀ k ∈ (PDist.addTo out (t.set j (t.getD j 0 + 1)) (v * U.get j i)).map (·.1), _
      apply addTo_keys_all _ out _ _ hout
      refine ⟨by rw [List.length_set]; exact ht.1, ?_⟩
      rw [photons_set_succ t j hj', ht.2]

omit [One K] in
theorem slos_fold_keys (U : M K) (l : List Nat) (d : List (FState × K)) (m : Nat)
    (hd : ∀ t ∈ d.map (·.1), t.length = U.n ∧ photons t = m) :
    ∀ t ∈ (l.foldl (fun d i => slosLayer U i d) d).map (·.1),
      t.length = U.n ∧ photons t = m + l.length := by
  induction l generalizing d m with
  | nil => simpa using hd
  | cons i l ih =>
    rw [List.foldl_cons, List.length_cons]
    have := ih (slosLayer U i d) (m + 1) (slosLayer_keys U i d m hd)
    intro t ht
    have h := this t ht
    refine ⟨h.1, by omega⟩

/-- every key of `slosPhi U s` has `U.n` modes and as many photons as `s` -/
theorem slosPhi_keys (U : M K) (s : FState) :
    ∀ t ∈ (slosPhi U s).map (·.1), t.length = U.n ∧ photons t = photons s := by
  unfold slosPhi
  intro t ht
  have h := slos_fold_keys U (partitionIdx s) [(List.replicate U.n 0, 1)] 0
    (by
      intro t ht
      simp only [List.map_cons, List.map_nil, List.mem_singleton] at ht
      subst ht
      exact ⟨by simp, photons_replicate_zero _⟩) t ht
  rw [partitionIdx_length, Nat.zero_add] at h
  exact h

end Slos

end LW.Proofs.C04a
