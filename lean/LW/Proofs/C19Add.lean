/-
  LW.Proofs.C19Add — the two spec rewrites `Circuit.add` performs (insertion of an empty mode,
  used both for the new ancilla modes of the parent and for the pass-through modes of the added
  circuit; and the shift of the added circuit to its position) keep every component drawable:
  `CompOk n` becomes `CompOk (n + 1)` resp. `CompOk (n + k)`.  This covers the ancilla-aware
  re-indexing of group boxes and of the heralds shown on them (`bumpGroupHeralds`).
-/
import LW.Proofs.C19
import LW.Proofs.DictLemmas

namespace LW.Disp

variable {K : Type}

/-! ### values of a dictionary built by assignment -/

theorem vals_set_inv {Q : Nat → Prop} {d : Dict} {k v : Nat} (hd : ∀ x ∈ d.vals, Q x) (hv : Q v) :
    ∀ x ∈ (d.set k v).vals, Q x := by
  unfold Dict.set
  split
  · intro x hx
    unfold Dict.vals at hx hd
    rw [List.map_map] at hx
    obtain ⟨p, hp, rfl⟩ := List.mem_map.mp hx
    by_cases h : p.1 = k
    · simpa [h] using hv
    · have : ((fun p : Nat × Nat => p.2) ∘ fun p => if (p.1 == k) = true then (k, v) else p) p = p.2 := by
        simp [h]
      rw [this]
      exact hd _ (List.mem_map.mpr ⟨p, hp, rfl⟩)
  · intro x hx
    unfold Dict.vals at hx hd
    rw [List.map_append] at hx
    rcases List.mem_append.mp hx with h | h
    · exact hd x h
    · simp at h; subst h; exact hv

theorem foldl_set_vals_inv {Q : Nat → Prop} (ps : List (Nat × Nat)) (d : Dict)
    (hd : ∀ x ∈ d.vals, Q x) (hps : ∀ p ∈ ps, Q p.2) :
    ∀ x ∈ (ps.foldl (fun d p => d.set p.1 p.2) d).vals, Q x := by
  induction ps generalizing d with
  | nil => exact hd
  | cons p ps ih =>
    rw [List.foldl_cons]
    exact ih _ (vals_set_inv hd (hps p List.mem_cons_self))
      (fun q hq => hps q (List.mem_cons_of_mem _ hq))

theorem ofPairs_vals_inv {Q : Nat → Prop} (ps : List (Nat × Nat)) (hps : ∀ p ∈ ps, Q p.2) :
    ∀ x ∈ (Dict.ofPairs ps).vals, Q x :=
  foldl_set_vals_inv ps [] (fun _ h => nomatch h) hps

theorem ofPairs_keys_inv {Q : Nat → Prop} (ps : List (Nat × Nat)) (hps : ∀ p ∈ ps, Q p.1) :
    ∀ x ∈ (Dict.ofPairs ps).keys, Q x :=
  (Dict.ofPairs_inv ps hps).2

theorem mem_keys {d : Dict} {p : Nat × Nat} (h : p ∈ d) : p.1 ∈ d.keys :=
  List.mem_map.mpr ⟨p, h, rfl⟩

theorem mem_vals {d : Dict} {p : Nat × Nat} (h : p ∈ d) : p.2 ∈ d.vals :=
  List.mem_map.mpr ⟨p, h, rfl⟩

/-! ### insertion of an empty mode -/

theorem bump_lt {mode m n : Nat} (h : m < n) : bump mode m < n + 1 := by
  unfold bump; split <;> omega

section
variable [Zero K] [One K]

theorem addModeToUnitary_n (u : M K) (k : Nat) : (addModeToUnitary u k).n = u.n + 1 := rfl

/-- `add_empty_mode_to_circuit_spec` keeps a component drawable on the enlarged circuit -/
theorem compOk_addEmptyMode {n : Nat} (mode : Nat) (comp : Comp K) (h : CompOk n comp) :
    CompOk (n + 1) (comp.addEmptyMode mode) := by
  cases comp with
  | prim p =>
    cases p with
    | bs m1 m2 c s cv =>
      refine ⟨bump_lt h.1, bump_lt h.2.1, ?_⟩
      have := h.2.2
      unfold bump
      split <;> split <;> omega
    | ps m p => exact bump_lt h
    | loss m a c => exact bump_lt h
    | barrier ms =>
      intro m hm
      obtain ⟨x, hx, rfl⟩ := List.mem_map.mp hm
      exact bump_lt (h x hx)
    | swaps σ =>
      intro m hm
      rcases List.mem_append.mp hm with h1 | h1
      · refine ofPairs_keys_inv (Q := fun x => x < n + 1) _ ?_ m h1
        intro p hp
        obtain ⟨q, hq, rfl⟩ := List.mem_map.mp hp
        exact bump_lt (h _ (List.mem_append_left _ (mem_keys hq)))
      · refine ofPairs_vals_inv (Q := fun x => x < n + 1) _ ?_ m h1
        intro p hp
        obtain ⟨q, hq, rfl⟩ := List.mem_map.mp hp
        exact bump_lt (h _ (List.mem_append_right _ (mem_vals hq)))
    | unitary m u =>
      obtain ⟨hpos, hle⟩ := h
      simp only [Comp.addEmptyMode, Prim.addEmptyMode]
      split
      · rename_i hin
        refine ⟨by rw [addModeToUnitary_n]; omega, ?_⟩
        rw [addModeToUnitary_n]
        unfold bump at hin ⊢
        split at hin <;> split <;> omega
      · rename_i hout
        refine ⟨hpos, ?_⟩
        unfold bump at hout ⊢
        split at hout <;> split <;> omega
  | group cs m1 m2 hin hout =>
    obtain ⟨h1, h2, hh⟩ := h
    refine ⟨bump_lt h1, bump_lt h2, ?_⟩
    intro k hk
    have key : ∀ (d : Dict), (∀ x ∈ d.keys, x + min m1 m2 < n) →
        ∀ x ∈ (bumpGroupHeralds mode (bump mode m1) d).keys,
          x + min (bump mode m1) (bump mode m2) < n + 1 := by
      intro d hd
      unfold bumpGroupHeralds
      refine ofPairs_keys_inv (Q := fun x => x + min (bump mode m1) (bump mode m2) < n + 1) _ ?_
      intro p hp
      obtain ⟨q, hq, rfl⟩ := List.mem_map.mp hp
      have := hd q.1 (mem_keys hq)
      simp only
      unfold bump
      split <;> split <;> split <;> omega
    rcases List.mem_append.mp hk with hk | hk
    · exact key hin (fun x hx => hh x (List.mem_append_left _ hx)) k hk
    · exact key hout (fun x hx => hh x (List.mem_append_right _ hx)) k hk

end

/-! ### shift to the position of the addition -/

/-- `add_modes_to_circuit_spec` keeps a component drawable on a circuit with `k` more modes -/
theorem compOk_shift {n : Nat} (k : Nat) (comp : Comp K) (h : CompOk n comp) :
    CompOk (n + k) (comp.shift k) := by
  cases comp with
  | prim p =>
    cases p with
    | bs m1 m2 c s cv => exact ⟨by have := h.1; omega, by have := h.2.1; omega, by have := h.2.2; omega⟩
    | ps m p => exact (by have : m < n := h; omega : m + k < n + k)
    | loss m a c => exact (by have : m < n := h; omega : m + k < n + k)
    | barrier ms =>
      intro m hm
      obtain ⟨x, hx, rfl⟩ := List.mem_map.mp hm
      have := h x hx
      omega
    | swaps σ =>
      intro m hm
      rcases List.mem_append.mp hm with h1 | h1
      · refine ofPairs_keys_inv (Q := fun x => x < n + k) _ ?_ m h1
        intro p hp
        obtain ⟨q, hq, rfl⟩ := List.mem_map.mp hp
        have := h _ (List.mem_append_left _ (mem_keys hq))
        simp only; omega
      · refine ofPairs_vals_inv (Q := fun x => x < n + k) _ ?_ m h1
        intro p hp
        obtain ⟨q, hq, rfl⟩ := List.mem_map.mp hp
        have := h _ (List.mem_append_right _ (mem_vals hq))
        simp only; omega
    | unitary m u =>
      obtain ⟨hpos, hle⟩ := h
      exact ⟨hpos, by omega⟩
  | group cs m1 m2 hin hout =>
    obtain ⟨h1, h2, hh⟩ := h
    refine ⟨by omega, by omega, ?_⟩
    intro x hx
    have := hh x hx
    omega

end LW.Disp
