/-
  LW.Proofs.C18Str — `str(State)` determines the State (so the string-based hash separates
  States exactly as far as Python's string hash does).
-/
import Mathlib.Data.List.Basic
import LW.Model.StateVal

namespace LW.SV

theorem toDigits_isDigit {n : Nat} {c : Char} (h : c ∈ Nat.toDigits 10 n) : c.isDigit = true :=
  Nat.isDigit_of_mem_toDigits (by decide) (by decide) h

theorem toDigits_injective {m n : Nat} (h : Nat.toDigits 10 m = Nat.toDigits 10 n) : m = n := by
  have h1 := Nat.ofDigitChars_ten_toDigits (n := m)
  rw [h, Nat.ofDigitChars_ten_toDigits] at h1
  exact h1.symm

theorem comma_not_mem_intChars (x : Int) : ',' ∉ intChars x := by
  unfold intChars
  intro h
  split at h
  · simp only [List.mem_cons] at h
    rcases h with h | h
    · exact absurd h (by decide)
    · exact absurd (toDigits_isDigit h) (by decide)
  · exact absurd (toDigits_isDigit h) (by decide)

theorem intChars_injective {x y : Int} (h : intChars x = intChars y) : x = y := by
  unfold intChars at h
  have key : ∀ n l, Nat.toDigits 10 n ≠ '-' :: l := by
    intro n l hh
    have : '-' ∈ Nat.toDigits 10 n := by rw [hh]; simp
    exact absurd (toDigits_isDigit this) (by decide)
  split at h <;> split at h
  · simp only [List.cons.injEq, true_and] at h
    have := toDigits_injective h
    omega
  · exact absurd h.symm (key _ _)
  · exact absurd h (key _ _)
  · have := toDigits_injective h
    omega

theorem append_sep_inj {c : Char} : ∀ (a b r r' : List Char), c ∉ a → c ∉ b →
    a ++ c :: r = b ++ c :: r' → a = b ∧ r = r'
  | [], [], _, _, _, _, h => by simpa using h
  | [], y :: b, _, _, _, hb, h => by
    simp only [List.nil_append, List.cons_append, List.cons.injEq] at h
    exact absurd h.1 (by intro e; apply hb; simp [e])
  | x :: a, [], _, _, ha, _, h => by
    simp only [List.nil_append, List.cons_append, List.cons.injEq] at h
    exact absurd h.1.symm (by intro e; apply ha; simp [e])
  | x :: a, y :: b, r, r', ha, hb, h => by
    simp only [List.cons_append, List.cons.injEq] at h
    have := append_sep_inj a b r r' (fun hh => ha (by simp [hh])) (fun hh => hb (by simp [hh])) h.2
    exact ⟨by rw [h.1, this.1], this.2⟩

def body (l : List Int) : List Char := l.flatMap fun x => intChars x ++ [',']

theorem body_cons (x : Int) (l : List Int) : body (x :: l) = intChars x ++ ',' :: body l := by
  simp [body]

theorem body_injective : ∀ (l l' : List Int), body l = body l' → l = l'
  | [], [], _ => rfl
  | [], y :: l', h => by
    rw [body_cons] at h
    have : (body [] : List Char) = [] := rfl
    rw [this] at h
    exact absurd (congrArg List.length h) (by simp)
  | x :: l, [], h => by
    rw [body_cons] at h
    have : (body [] : List Char) = [] := rfl
    rw [this] at h
    exact absurd (congrArg List.length h) (by simp)
  | x :: l, y :: l', h => by
    rw [body_cons, body_cons] at h
    have := append_sep_inj _ _ _ _ (comma_not_mem_intChars x) (comma_not_mem_intChars y) h
    rw [intChars_injective this.1, body_injective l l' this.2]

theorem body_nil_or_concat (l : List Int) : (l = [] ∧ body l = []) ∨ ∃ c, body l = c ++ [','] := by
  rcases List.eq_nil_or_concat l with h | ⟨l', x, h⟩
  · left; subst h; exact ⟨rfl, rfl⟩
  · right
    subst h
    refine ⟨body l' ++ intChars x, ?_⟩
    simp [body, List.flatMap_append]

/-- `state_to_string` is injective on integer occupation lists -/
theorem State.strChars_injective (a b : State) (h : a.strChars = b.strChars) : a = b := by
  unfold State.strChars at h
  rw [List.append_left_inj] at h
  change ('|' :: body a.s).dropLast = ('|' :: body b.s).dropLast at h
  have hab : body a.s = body b.s := by
    rcases body_nil_or_concat a.s with ⟨_, ha⟩ | ⟨c, ha⟩ <;>
      rcases body_nil_or_concat b.s with ⟨_, hb⟩ | ⟨c', hb⟩
    · rw [ha, hb]
    · rw [ha, hb] at h
      rw [show '|' :: (c' ++ [',']) = ('|' :: c') ++ [','] from rfl, List.dropLast_concat] at h
      simp at h
    · rw [ha, hb] at h
      rw [show '|' :: (c ++ [',']) = ('|' :: c) ++ [','] from rfl, List.dropLast_concat] at h
      simp at h
    · rw [ha, hb] at h
      rw [show '|' :: (c ++ [',']) = ('|' :: c) ++ [','] from rfl,
        show '|' :: (c' ++ [',']) = ('|' :: c') ++ [','] from rfl, List.dropLast_concat,
        List.dropLast_concat] at h
      simp only [List.cons.injEq, true_and] at h
      rw [ha, hb, h]
  have := body_injective _ _ hab
  cases a; cases b; simpa using this

theorem State.str_injective (a b : State) (h : a.str = b.str) : a = b := by
  apply State.strChars_injective
  have := congrArg String.toList h
  simpa [State.str, String.toList_ofList] using this

end LW.SV
