/-
  LW.Proofs.C02SemPrim — refinement of the primitive construction calls and of `herald`:
  a primitive on user modes acts on the port indices of the abstraction.
-/
import LW.Proofs.C02SemAbs
import LW.Proofs.C09
import LW.Proofs.Reach

open scoped BigOperators

namespace LW.Proofs.C02Sem

open LW LW.Proofs.C01Aux LW.Proofs.C02

variable {K : Type} [CommRing K] [StarRing K]

set_option linter.unusedSectionVars false

/-! ### folding `Optic.prim` -/

theorem optic_eq {x y : Optic K} (h1 : x.p = y.p) (h2 : x.a = y.a) (h3 : x.l = y.l) (h4 : x.W = y.W)
    (h5 : x.her = y.her) : x = y := by
  cases x; cases y; simp only at h1 h2 h3 h4 h5; subst h1 h2 h3 h4 h5; rfl

theorem prim_fields (i : K) (x : Optic K) (q : Prim K) :
    (Optic.prim i x q).p = x.p ∧ (Optic.prim i x q).a = x.a ∧
    (Optic.prim i x q).l = x.l + (if q.isLoss then 1 else 0) ∧
    (Optic.prim i x q).W = compilePrim i x.W q ∧ (Optic.prim i x q).her = x.her := by
  cases q <;> exact ⟨rfl, rfl, rfl, rfl, rfl⟩

theorem foldl_prim_fields (i : K) (qs : List (Prim K)) (x : Optic K) :
    (qs.foldl (Optic.prim i) x).p = x.p ∧ (qs.foldl (Optic.prim i) x).a = x.a ∧
    (qs.foldl (Optic.prim i) x).l = x.l + lossN qs ∧
    (qs.foldl (Optic.prim i) x).W = qs.foldl (compilePrim i) x.W ∧
    (qs.foldl (Optic.prim i) x).her = x.her := by
  induction qs generalizing x with
  | nil => exact ⟨rfl, rfl, rfl, rfl, rfl⟩
  | cons q qs ih =>
    obtain ⟨h1, h2, h3, h4, h5⟩ := ih (Optic.prim i x q)
    obtain ⟨g1, g2, g3, g4, g5⟩ := prim_fields i x q
    rw [List.foldl_cons]
    refine ⟨by rw [h1, g1], by rw [h2, g2], ?_, by rw [h4, g4]; rfl, by rw [h5, g5]⟩
    rw [h3, g3, lossN_cons]; omega

theorem lossN_rel {i : K} {inv : Nat → Option Nat} {nS T : Nat} {qs qs' : List (Prim K)}
    (h : List.Forall₂ (MatRel i inv nS T) qs qs') : lossN qs' = lossN qs := by
  induction h with
  | nil => rfl
  | cons hq _ ih => rw [lossN_cons, lossN_cons, ih, hq.loss]

theorem lossCount_append (s1 s2 : List (Comp K)) : lossCount (s1 ++ s2) = lossCount s1 + lossCount s2 := by
  unfold lossCount; rw [List.map_append, List.sum_append]

theorem lossCount_map_prim (qs : List (Prim K)) : lossCount (qs.map Comp.prim) = lossN qs := by
  rw [← lossN_flatten]
  congr 1
  unfold flattenSpec
  induction qs with
  | nil => rfl
  | cons q qs ih => simp only [List.map_cons, List.flatMap_cons, Comp.toPrims, ih]; rfl

theorem compile_append_prims (i : K) (n : Nat) (spec : List (Comp K)) (qs : List (Prim K)) :
    compile i n (spec ++ qs.map Comp.prim) = qs.foldl (compilePrim i) (compile i n spec) := by
  rw [C09.compile_eq_run, C09.run_append, C09.run_map_prim]
  rfl

theorem embedVia_mul_one (D : Nat) (A : M K) (inv : Nat → Option Nat) :
    (Optic.embedVia D A inv).mul (M.one D) = Optic.embedVia D A inv :=
  mul_one' _ (isOfFn_embedVia _ _ _)

/-- appending components that are, through `optMode`, the images of port-level components
refines applying these port-level components to the abstraction -/
theorem applyPrims_toOptic (i : K) (c : Circ K) (hwf : c.WF) (qsM qsP : List (Prim K))
    (hrel : List.Forall₂ (MatRel i (fun r => some (c.optMode r)) c.n c.n) qsM qsP)
    (hwf' : ({ c with spec := c.spec ++ qsM.map Comp.prim } : Circ K).WF) :
    qsP.foldl (Optic.prim i) (c.toOptic i)
      = ({ c with spec := c.spec ++ qsM.map Comp.prim } : Circ K).toOptic i := by
  obtain ⟨h1, h2, h3, h4, h5⟩ := foldl_prim_fields i qsP (c.toOptic i)
  apply optic_eq
  · rw [h1]; rfl
  · rw [h2]; rfl
  · rw [h3, toOptic_l, toOptic_l, lossCount_append, lossCount_map_prim, lossN_rel hrel]
  · rw [h4, toOptic_W i c hwf, toOptic_W i _ hwf']
    show _ = Optic.embedVia (c.n + lossCount (c.spec ++ qsM.map Comp.prim))
      (compile i c.n (c.spec ++ qsM.map Comp.prim)) (fun r => some (c.optMode r))
    rw [compile_append_prims, lossCount_append, lossCount_map_prim]
    have hP := fun L => pinj_optMode c hwf L
    have hU : (c.Ufull i).n = c.n + lossCount c.spec := Ufull_n i c
    have := run_rel i (fun L => pinj_optMode c hwf L) qsM qsP hrel (c.Ufull i)
      (M.one (c.n + lossCount c.spec)) (lossCount c.spec) hU rfl (M.isOfFn_one _)
    rw [embedVia_mul_one, one_pad, embedVia_mul_one] at this
    rw [this, Nat.add_assoc]
    rfl
  · rw [h5]; rfl

/-! ### the components seen through `optMode` -/

section Rel
variable (i : K) (c : Circ K) (hwf : c.WF)
include hwf

theorem matRel_opt_ps {a : Nat} (ha : a < c.n) (p : K) :
    MatRel i (fun r => some (c.optMode r)) c.n c.n (.ps a p) (.ps (optIdx c a) p) :=
  ⟨rfl, rfl, fun L _ => embed1_embedVia (pinj_optMode c hwf L) (by omega) p⟩

theorem matRel_opt_bs {a b : Nat} (ha : a < c.n) (hb : b < c.n) (x y : K) (cv : Conv) :
    MatRel i (fun r => some (c.optMode r)) c.n c.n (.bs a b x y cv)
      (.bs (optIdx c a) (optIdx c b) x y cv) := by
  refine ⟨rfl, rfl, fun L _ => ?_⟩
  cases cv <;> exact embed2_embedVia (pinj_optMode c hwf L) (by omega) (by omega) _ _ _ _

theorem matRel_opt_loss {a : Nat} (ha : a < c.n) (x y : K) :
    MatRel i (fun r => some (c.optMode r)) c.n c.n (.loss a x y) (.loss (optIdx c a) x y) := by
  refine ⟨rfl, rfl, fun L hL => ?_⟩
  have hL' := hL rfl
  show embed2 (c.n + L) (optIdx c a) (c.n + L - 1) x y (-y) x = _
  have e : c.n + L - 1 = optIdx c (c.n + L - 1) := by
    unfold optIdx; rw [if_neg (by omega)]
  have := embed2_embedVia (K := K) (pinj_optMode c hwf L) (m1 := a) (m2 := c.n + L - 1)
    (by omega) (by omega) x y (-y) x
  rw [← e] at this
  exact this

theorem matRel_opt_swaps (σM σP : Dict) (hlt : ∀ L x, x < c.n + L → Dict.fn σM x < c.n + L)
    (hc : ∀ x, Dict.fn σP (optIdx c x) = optIdx c (Dict.fn σM x)) :
    MatRel i (fun r => some (c.optMode r)) c.n c.n (.swaps σM) (.swaps σP) := by
  refine ⟨rfl, rfl, fun L _ => ?_⟩
  show permMat _ _ = Optic.embedVia _ (permMat σM _) _
  rw [permMat_eq_permF, permMat_eq_permF]
  apply permF_embedVia (pinj_optMode c hwf L)
  · intro x hx; exact hlt L x hx
  · intro x _; exact hc x
  · intro r _ hr; cases hr

end Rel

/-! ### the dummy circuit on which `Optic.applyCall` validates a call -/

theorem dummy_mapMode (P : Nat) (m : Int) : (({ n := P } : Circ K)).mapMode m = m := rfl

theorem dummy_inRange (P : Nat) (m : Int) (h0 : 0 ≤ m) (h1 : m < (P : Int)) :
    (({ n := P } : Circ K)).modeInRange m = .ok m.toNat := by
  unfold Circ.modeInRange
  rw [if_pos ⟨h0, h1⟩]

theorem dummy_ps (P : Nat) (m : Int) (h0 : 0 ≤ m) (h1 : m < (P : Int)) (p : K) (l : Option (K × K)) :
    (({ n := P } : Circ K)).ps m p l = .ok { n := P, spec := .prim (.ps m.toNat p) ::
      (match l with | none => [] | some (la, lb) => [.prim (.loss m.toNat la lb)]) } := by
  simp only [Circ.ps, dummy_mapMode, dummy_inRange P m h0 h1, bind, Except.bind]
  cases l with
  | none => rfl
  | some ab => rfl

theorem dummy_loss (P : Nat) (m : Int) (h0 : 0 ≤ m) (h1 : m < (P : Int)) (ab : K × K) :
    (({ n := P } : Circ K)).loss m ab = .ok { n := P, spec := [.prim (.loss m.toNat ab.1 ab.2)] } := by
  simp only [Circ.loss, dummy_mapMode, dummy_inRange P m h0 h1, bind, Except.bind]
  rfl

theorem dummy_bs (P : Nat) (m1 m2 : Int) (h0 : 0 ≤ m1) (h1 : m1 < (P : Int)) (h2 : 0 ≤ m2)
    (h3 : m2 < (P : Int)) (hne : m1 ≠ m2) (cs : K × K) (cv : Conv) (l : Option (K × K)) :
    (({ n := P } : Circ K)).bs m1 m2 cs cv l = .ok { n := P, spec := .prim (.bs m1.toNat m2.toNat cs.1 cs.2 cv) ::
      (match l with
        | none => []
        | some (la, lb) => [.prim (.loss m1.toNat la lb), .prim (.loss m2.toNat la lb)]) } := by
  have hne' : ¬ ((m1.toNat : Int) = m2) := by omega
  simp only [Circ.bs, dummy_mapMode, dummy_inRange P m1 h0 h1, dummy_inRange P m2 h2 h3, bind,
    Except.bind, hne', if_false]
  cases l with
  | none => rfl
  | some ab => rfl

/-! ### `ps` -/

theorem sem_ps (i : K) (c c' : Circ K) (hc : Reach c) (m : Int) (p : K) (l : Option (K × K))
    (h : c.ps m p l = .ok c') :
    ∃ x, (c.toOptic i).applyCall i (fun d => d.ps m p l) = .ok x ∧ x.closed = (c'.toOptic i).closed := by
  have hwf := (LW.Proofs.Reach.reach_inv c hc).wf
  have hwf' := (ps_avoid c c' hwf m p l h).1
  simp only [Circ.ps, bind, Except.bind] at h
  split at h
  · cases h
  · rename_i a ha
    obtain ⟨hm0, hm1, ha_eq, ha_lt, -⟩ := mapped_port c hwf ha
    have hidx : optIdx c a = m.toNat := by rw [ha_eq, optIdx_optMode c hwf]
    simp only [Bool.not_true, Bool.false_eq_true, if_false, pure, Except.pure] at h
    unfold Optic.applyCall
    beta_reduce
    rw [dummy_ps (c.toOptic i).p m hm0 hm1 p l]
    refine ⟨_, rfl, ?_⟩
    split at h
    · injection h with h; subst h
      have hrel : List.Forall₂ (MatRel i (fun r => some (c.optMode r)) c.n c.n)
          [.ps a p] [.ps m.toNat p] := by
        refine List.Forall₂.cons ?_ List.Forall₂.nil
        rw [← hidx]; exact matRel_opt_ps i c hwf ha_lt p
      exact congrArg Optic.closed (applyPrims_toOptic i c hwf _ _ hrel hwf')
    · rename_i la lb
      injection h with h
      rw [List.append_assoc] at h
      subst h
      have hrel : List.Forall₂ (MatRel i (fun r => some (c.optMode r)) c.n c.n)
          [.ps a p, .loss a la lb] [.ps m.toNat p, .loss m.toNat la lb] := by
        refine List.Forall₂.cons ?_ (List.Forall₂.cons ?_ List.Forall₂.nil)
        · rw [← hidx]; exact matRel_opt_ps i c hwf ha_lt p
        · rw [← hidx]; exact matRel_opt_loss i c hwf ha_lt la lb
      exact congrArg Optic.closed (applyPrims_toOptic i c hwf _ _ hrel hwf')

/-! ### `loss` -/

theorem sem_loss (i : K) (c c' : Circ K) (hc : Reach c) (m : Int) (ab : K × K)
    (h : c.loss m ab = .ok c') :
    ∃ x, (c.toOptic i).applyCall i (fun d => d.loss m ab) = .ok x ∧ x.closed = (c'.toOptic i).closed := by
  have hwf := (LW.Proofs.Reach.reach_inv c hc).wf
  have hwf' := (loss_avoid c c' hwf m ab h).1
  simp only [Circ.loss, bind, Except.bind] at h
  split at h
  · cases h
  · rename_i a ha
    obtain ⟨hm0, hm1, ha_eq, ha_lt, -⟩ := mapped_port c hwf ha
    have hidx : optIdx c a = m.toNat := by rw [ha_eq, optIdx_optMode c hwf]
    simp only [Bool.not_true, Bool.false_eq_true, if_false, pure, Except.pure] at h
    unfold Optic.applyCall
    beta_reduce
    rw [dummy_loss (c.toOptic i).p m hm0 hm1 ab]
    refine ⟨_, rfl, ?_⟩
    injection h with h; subst h
    have hrel : List.Forall₂ (MatRel i (fun r => some (c.optMode r)) c.n c.n)
        [.loss a ab.1 ab.2] [.loss m.toNat ab.1 ab.2] := by
      refine List.Forall₂.cons ?_ List.Forall₂.nil
      rw [← hidx]; exact matRel_opt_loss i c hwf ha_lt _ _
    exact congrArg Optic.closed (applyPrims_toOptic i c hwf _ _ hrel hwf')

/-! ### `bs` -/

theorem sem_bs (i : K) (c c' : Circ K) (hc : Reach c) (m1 m2 : Int) (cs : K × K) (cv : Conv)
    (l : Option (K × K)) (h : c.bs m1 m2 cs cv l = .ok c') :
    ∃ x, (c.toOptic i).applyCall i (fun d => d.bs m1 m2 cs cv l) = .ok x ∧ x.closed = (c'.toOptic i).closed := by
  have hwf := (LW.Proofs.Reach.reach_inv c hc).wf
  have hwf' := (bs_avoid c c' hwf m1 m2 cs cv l h).1
  simp only [Circ.bs, bind, Except.bind] at h
  split at h
  · cases h
  · rename_i a ha
    obtain ⟨hm0, hm1, ha_eq, ha_lt, -⟩ := mapped_port c hwf ha
    have hidx : optIdx c a = m1.toNat := by rw [ha_eq, optIdx_optMode c hwf]
    split at h
    · simp [throw, throwThe, MonadExceptOf.throw] at h
    · rename_i hne
      split at h
      · cases h
      · rename_i b hb
        obtain ⟨hn0, hn1, hb_eq, hb_lt, -⟩ := mapped_port c hwf hb
        have hidx2 : optIdx c b = m2.toNat := by rw [hb_eq, optIdx_optMode c hwf]
        have hne' : m1 ≠ m2 := by
          intro e
          apply hne
          rw [← e]
          exact (mapped_ok ha).2.2
        simp only [Bool.not_true, Bool.false_eq_true, if_false, pure, Except.pure] at h
        unfold Optic.applyCall
        beta_reduce
        rw [dummy_bs (c.toOptic i).p m1 m2 hm0 hm1 hn0 hn1 hne' cs cv l]
        refine ⟨_, rfl, ?_⟩
        split at h
        · injection h with h; subst h
          have hrel : List.Forall₂ (MatRel i (fun r => some (c.optMode r)) c.n c.n)
              [.bs a b cs.1 cs.2 cv] [.bs m1.toNat m2.toNat cs.1 cs.2 cv] := by
            refine List.Forall₂.cons ?_ List.Forall₂.nil
            rw [← hidx, ← hidx2]; exact matRel_opt_bs i c hwf ha_lt hb_lt _ _ _
          exact congrArg Optic.closed (applyPrims_toOptic i c hwf _ _ hrel hwf')
        · rename_i la lb
          injection h with h
          rw [List.append_assoc] at h
          subst h
          have hrel : List.Forall₂ (MatRel i (fun r => some (c.optMode r)) c.n c.n)
              [.bs a b cs.1 cs.2 cv, .loss a la lb, .loss b la lb]
              [.bs m1.toNat m2.toNat cs.1 cs.2 cv, .loss m1.toNat la lb, .loss m2.toNat la lb] := by
            refine List.Forall₂.cons ?_ (List.Forall₂.cons ?_ (List.Forall₂.cons ?_ List.Forall₂.nil))
            · rw [← hidx, ← hidx2]; exact matRel_opt_bs i c hwf ha_lt hb_lt _ _ _
            · rw [← hidx]; exact matRel_opt_loss i c hwf ha_lt la lb
            · rw [← hidx2]; exact matRel_opt_loss i c hwf hb_lt la lb
          exact congrArg Optic.closed (applyPrims_toOptic i c hwf _ _ hrel hwf')

end LW.Proofs.C02Sem
