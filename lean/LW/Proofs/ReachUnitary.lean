/-
  LW.Proofs.ReachUnitary — `add_mode_to_unitary` preserves unitarity.
-/
import Mathlib.Algebra.BigOperators.Fin
import LW.Proofs.UnitaryAlg

open scoped BigOperators

set_option linter.unusedSectionVars false

namespace LW.Proofs.Reach

open LW

variable {K : Type} [CommRing K] [StarRing K]

/-- index of the old matrix read at new index `x ≠ k` -/
def dn (k x : Nat) : Nat := if x > k then x - 1 else x

theorem get_addModeToUnitary (u : M K) (k : Nat) {a b : Nat} (ha : a < u.n + 1) (hb : b < u.n + 1) :
    (addModeToUnitary u k).get a b =
      if a = k ∨ b = k then (if a = b then 1 else 0) else u.get (dn k a) (dn k b) := by
  unfold addModeToUnitary dn
  rw [M.get_ofFn _ ha hb]

theorem succAbove_val (n k : Nat) (hk : k < n + 1) (i : Fin n) :
    ((⟨k, hk⟩ : Fin (n + 1)).succAbove i).val = if i.val < k then i.val else i.val + 1 := by
  unfold Fin.succAbove
  simp only [Fin.lt_def, Fin.val_castSucc]
  split <;> simp

theorem isUnitary_addModeToUnitary (u : M K) (k : Nat) (hk : k ≤ u.n) (hu : IsUnitary u) :
    IsUnitary (addModeToUnitary u k) := by
  rw [M.isUnitary_iff, M.UN_iff_rows] at hu ⊢
  show ∀ r c, r < u.n + 1 → c < u.n + 1 →
    ∑ j ∈ Finset.range (u.n + 1), (addModeToUnitary u k).get r j * star ((addModeToUnitary u k).get c j)
      = if r = c then 1 else 0
  intro r c hr hc
  by_cases hrk : r = k
  · subst hrk
    rw [Finset.sum_congr rfl (g := fun j => (if r = j then (1 : K) else 0) *
        star ((addModeToUnitary u r).get c j)) (fun j hj => by
      rw [get_addModeToUnitary u r hr (Finset.mem_range.mp hj)]
      simp)]
    rw [sum_delta_left hr, get_addModeToUnitary u r hc hr]
    by_cases e : c = r
    · simp [e]
    · have e' : ¬ r = c := fun h => e h.symm
      simp [e, e']
  · by_cases hck : c = k
    · subst hck
      rw [Finset.sum_congr rfl (g := fun j => (addModeToUnitary u c).get r j *
          star (if c = j then (1 : K) else 0)) (fun j hj => by
        rw [get_addModeToUnitary u c hc (Finset.mem_range.mp hj)]
        simp)]
      rw [sum_mul_star_delta hc, get_addModeToUnitary u c hr hc]
      simp [hrk]
    · -- both rows are old rows
      have hdr : dn k r < u.n := by unfold dn; split <;> omega
      have hdc : dn k c < u.n := by unfold dn; split <;> omega
      have hinj : dn k r = dn k c ↔ r = c := by unfold dn; split <;> split <;> omega
      rw [Finset.sum_range, Fin.sum_univ_succAbove _ (⟨k, by omega⟩ : Fin (u.n + 1))]
      have h0 : (addModeToUnitary u k).get r k = 0 := by
        rw [get_addModeToUnitary u k hr (by omega)]
        simp [hrk]
      simp only [h0, zero_mul, zero_add]
      have hterm : ∀ i : Fin u.n,
          (addModeToUnitary u k).get r ((⟨k, by omega⟩ : Fin (u.n + 1)).succAbove i).val *
            star ((addModeToUnitary u k).get c ((⟨k, by omega⟩ : Fin (u.n + 1)).succAbove i).val)
          = u.get (dn k r) i.val * star (u.get (dn k c) i.val) := by
        intro i
        have hv := succAbove_val u.n k (by omega) i
        have hi := i.2
        have hne : ((⟨k, by omega⟩ : Fin (u.n + 1)).succAbove i).val ≠ k := by
          rw [hv]; split <;> omega
        have hlt : ((⟨k, by omega⟩ : Fin (u.n + 1)).succAbove i).val < u.n + 1 := by
          rw [hv]; split <;> omega
        have hd : dn k ((⟨k, by omega⟩ : Fin (u.n + 1)).succAbove i).val = i.val := by
          rw [hv]; unfold dn; split <;> split <;> omega
        rw [get_addModeToUnitary u k hr hlt, get_addModeToUnitary u k hc hlt]
        simp only [hrk, hck, hne, or_self, if_false, hd]
      rw [Finset.sum_congr rfl (fun i _ => hterm i)]
      rw [← Finset.sum_range (fun j => u.get (dn k r) j * star (u.get (dn k c) j))]
      rw [hu (dn k r) (dn k c) hdr hdc]
      simp only [hinj]

end LW.Proofs.Reach
