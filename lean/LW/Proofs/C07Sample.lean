/-
  C07 helper: the tape-driven detector and the sampling loops.
-/
import LW.Proofs.C07Merge
import LW.Proofs.C07Cdf

set_option linter.unusedSimpArgs false

namespace LW.Proofs.C07

/-! ### detectorSample -/

/-- pointwise relation (with default 0) between two states of the same length -/
def Rel (R : Nat → Nat → Prop) (a b : FState) : Prop :=
  a.length = b.length ∧ ∀ m, R (a.getD m 0) (b.getD m 0)

theorem Rel.nil {R : Nat → Nat → Prop} (h0 : R 0 0) : Rel R [] [] := ⟨rfl, fun m => by simpa using h0⟩

theorem Rel.cons {R : Nat → Nat → Prop} {a b : FState} {c n : Nat} (hcn : R c n) (h : Rel R a b) :
    Rel R (c :: a) (n :: b) := by
  refine ⟨by simp [h.1], fun m => ?_⟩
  cases m with
  | zero => simpa using hcn
  | succ m => simpa using h.2 m

/-- a fold that appends one related entry per mode produces a related state -/
theorem foldl_append_rel {R : Nat → Nat → Prop} (h0 : R 0 0)
    (f : FState × List Rat → Nat → FState × List Rat)
    (hf : ∀ acc n, ∃ c, (f acc n).1 = acc.1 ++ [c] ∧ R c n) (s : FState) (acc : FState × List Rat) :
    ∃ out, (s.foldl f acc).1 = acc.1 ++ out ∧ Rel R out s := by
  induction s generalizing acc with
  | nil => exact ⟨[], by simp, Rel.nil h0⟩
  | cons n rest ih =>
    obtain ⟨c, hc, hR⟩ := hf acc n
    obtain ⟨out, hout, hrel⟩ := ih (f acc n)
    refine ⟨c :: out, ?_, Rel.cons hR hrel⟩
    rw [List.foldl_cons, hout, hc]; simp

/-- thinning of one mode never increases the count -/
theorem thin_inner_le (eta : Rat) (l : List Nat) (st : Nat × List Rat) :
    (l.foldl (fun (st : Nat × List Rat) _ =>
        match st.2 with
        | u :: rest => (if u > eta then st.1 - 1 else st.1, rest)
        | [] => st) st).1 ≤ st.1 := by
  induction l generalizing st with
  | nil => simp
  | cons x l ih =>
    rw [List.foldl_cons]
    refine Nat.le_trans (ih _) ?_
    split
    · simp only; split <;> omega
    · exact Nat.le_refl _

def effStep (d : Det) (acc : FState × List Rat) (n : Nat) : FState × List Rat :=
  let (kept, tp) := (List.range n).foldl (fun (st : Nat × List Rat) _ =>
    match st.2 with
    | u :: rest => (if u > d.eta then st.1 - 1 else st.1, rest)
    | [] => st) (n, acc.2)
  (acc.1 ++ [kept], tp)

def darkStep (d : Det) (acc : FState × List Rat) (n : Nat) : FState × List Rat :=
  match acc.2 with
  | u :: rest => (acc.1 ++ [if u < d.pDark then n + 1 else n], rest)
  | [] => (acc.1 ++ [n], [])

def stage1 (d : Det) (s : FState) (tape : List Rat) : FState × List Rat :=
  if d.eta < 1 then s.foldl (effStep d) ([], tape) else (s, tape)

def stage2 (d : Det) (out1 : FState) (tape1 : List Rat) : FState × List Rat :=
  if d.pDark > 0 then out1.foldl (darkStep d) ([], tape1) else (out1, tape1)

def stage3 (d : Det) (out2 : FState) : FState :=
  if d.pnr then out2 else out2.map fun c => if c ≥ 1 then 1 else 0

theorem detectorSample_eq (d : Det) (s : FState) (tape : List Rat) :
    detectorSample d s tape =
      if d.eta = 1 ∧ d.pDark = 0 ∧ d.pnr then (s, tape)
      else
        (stage3 d (stage2 d (stage1 d s tape).1 (stage1 d s tape).2).1,
          (stage2 d (stage1 d s tape).1 (stage1 d s tape).2).2) := rfl

theorem rel_refl {R : Nat → Nat → Prop} (hR : ∀ n, R n n) (s : FState) : Rel R s s :=
  ⟨rfl, fun _ => hR _⟩

theorem stage1_rel (d : Det) (s : FState) (tape : List Rat) :
    Rel (· ≤ ·) (stage1 d s tape).1 s := by
  unfold stage1
  split
  · obtain ⟨out, hout, hrel⟩ := foldl_append_rel (R := (· ≤ ·)) (Nat.le_refl 0) (effStep d) (by
      intro acc n
      exact ⟨_, rfl, thin_inner_le d.eta (List.range n) (n, acc.2)⟩) s ([], tape)
    rw [hout]; simpa using hrel
  · exact rel_refl Nat.le_refl s

theorem stage2_rel (d : Det) (o : FState) (tape : List Rat) :
    Rel (fun c n => c ≤ n + 1) (stage2 d o tape).1 o := by
  unfold stage2
  split
  · obtain ⟨out, hout, hrel⟩ := foldl_append_rel (R := fun c n => c ≤ n + 1) (Nat.le_succ 0) (darkStep d) (by
      intro acc n
      unfold darkStep
      split
      · refine ⟨_, rfl, ?_⟩; split <;> omega
      · exact ⟨_, rfl, Nat.le_succ n⟩) o ([], tape)
    rw [hout]; simpa using hrel
  · exact rel_refl Nat.le_succ o

theorem stage3_rel (d : Det) (o : FState) : Rel (· ≤ ·) (stage3 d o) o := by
  unfold stage3
  split
  · exact rel_refl Nat.le_refl o
  · induction o with
    | nil => exact Rel.nil (Nat.le_refl 0)
    | cons n rest ih =>
      rw [List.map_cons]
      exact Rel.cons (by split <;> omega) ih

theorem stage3_le_one (d : Det) (h : d.pnr = false) (o : FState) : ∀ c ∈ stage3 d o, c ≤ 1 := by
  unfold stage3
  simp only [h, Bool.false_eq_true, if_false]
  intro c hc
  rw [List.mem_map] at hc
  obtain ⟨x, _, rfl⟩ := hc
  split <;> omega

theorem detectorSample_shape (d : Det) (s : FState) (tape : List Rat) :
    (detectorSample d s tape).1.length = s.length ∧
    (∀ m, (detectorSample d s tape).1.getD m 0 ≤ s.getD m 0 + 1) ∧
    (d.pnr = false → ∀ c ∈ (detectorSample d s tape).1, c ≤ 1) := by
  rw [detectorSample_eq]
  split
  · rename_i h
    refine ⟨rfl, fun m => Nat.le_succ _, fun hp => ?_⟩
    rw [h.2.2] at hp; cases hp
  · have h1 := stage1_rel d s tape
    have h2 := stage2_rel d (stage1 d s tape).1 (stage1 d s tape).2
    have h3 := stage3_rel d (stage2 d (stage1 d s tape).1 (stage1 d s tape).2).1
    refine ⟨by rw [h3.1, h2.1, h1.1], fun m => ?_, fun hp => stage3_le_one d hp _⟩
    have a := h1.2 m
    have b := h2.2 m
    have c := h3.2 m
    simp only at a b c ⊢
    omega

theorem detectorSample_perfect (s : FState) (tape : List Rat) :
    detectorSample ⟨1, 0, true⟩ s tape = (s, tape) := by
  simp [detectorSample]

/-- non-vacuity: an imperfect threshold detector on `[2,0,1]`; the tape is consumed in stage order
(3 thinning variates, then 3 dark-count variates) -/
example : detectorSample ⟨1/2, 1/4, false⟩ [2, 0, 1] [3/4, 1/4, 1/4, 1/2, 1/8, 1/2, 1/3] =
    ([1, 1, 1], [1/3]) := by decide +kernel

/-! ### acceptance -/

theorem acceptState_spec (outHer : Dict) (rules : List Rule) (minDet : Nat) (s hs : FState) :
    acceptState outHer rules minDet s = some hs ↔
      heraldsOk outHer s = true ∧ hs = removeHeralds s outHer.keys ∧
      psValidate rules hs = true ∧ minDet ≤ photons hs := by
  unfold acceptState
  by_cases h : heraldsOk outHer s = true
  · simp only [h, if_true, true_and]
    by_cases h2 : (psValidate rules (removeHeralds s outHer.keys) &&
        decide (photons (removeHeralds s outHer.keys) ≥ minDet)) = true
    · simp only [h2, if_true, Option.some.injEq]
      simp only [Bool.and_eq_true, decide_eq_true_eq] at h2
      constructor
      · rintro rfl; exact ⟨rfl, h2.1, h2.2⟩
      · rintro ⟨rfl, _, _⟩; rfl
    · simp only [h2, if_false, Bool.false_eq_true, reduceCtorEq, false_iff]
      rintro ⟨rfl, h3, h4⟩
      apply h2
      simp only [Bool.and_eq_true, decide_eq_true_eq]
      exact ⟨h3, h4⟩
  · simp [h]

/-! ### sample_N_inputs -/

theorem foldl_filter_append {Q : FState → Prop}
    (f : List FState × List Rat → Rat → List FState × List Rat)
    (hf : ∀ acc u, (f acc u).1 = acc.1 ∨ ∃ hs, (f acc u).1 = acc.1 ++ [hs] ∧ Q hs)
    (us : List Rat) (acc : List FState × List Rat) :
    (us.foldl f acc).1.length ≤ acc.1.length + us.length ∧
      ∀ hs ∈ (us.foldl f acc).1, hs ∈ acc.1 ∨ Q hs := by
  induction us generalizing acc with
  | nil => exact ⟨by simp, fun hs h => Or.inl h⟩
  | cons u us ih =>
    rw [List.foldl_cons]
    obtain ⟨hlen, hmem⟩ := ih (f acc u)
    rcases hf acc u with h | ⟨x, h, hQ⟩
    · rw [h] at hlen hmem
      exact ⟨by simp only [List.length_cons]; omega, hmem⟩
    · rw [h] at hlen hmem
      refine ⟨by simp only [List.length_cons, List.length_append, List.length_nil] at hlen ⊢; omega, ?_⟩
      intro hs hhs
      rcases hmem hs hhs with h' | h'
      · rw [List.mem_append] at h'
        rcases h' with h' | h'
        · exact Or.inl h'
        · simp at h'; subst h'; exact Or.inr hQ
      · exact Or.inr h'

def inStep (dist : List (FState × Rat)) (d : Det) (outHer : Dict) (rules : List Rule)
    (minDet : Nat) (acc : List FState × List Rat) (u : Rat) : List FState × List Rat :=
  let s := (dist.getD (inverseCdf (dist.map (·.2)) u) ([], 0)).1
  let (ds, tp) := detectorSample d s acc.2
  match acceptState outHer rules minDet ds with
  | some hs => (acc.1 ++ [hs], tp)
  | none => (acc.1, tp)

theorem sampleNInputs_eq (dist : List (FState × Rat)) (d : Det) (outHer : Dict) (rules : List Rule)
    (minDet : Nat) (us tape : List Rat) :
    sampleNInputs dist d outHer rules minDet us tape =
      (us.foldl (inStep dist d outHer rules minDet) ([], tape)).1 := rfl

theorem sampleNInputs_ok (dist : List (FState × Rat)) (d : Det) (outHer : Dict) (rules : List Rule)
    (minDet : Nat) (us tape : List Rat) :
    (sampleNInputs dist d outHer rules minDet us tape).length ≤ us.length ∧
    ∀ hs ∈ sampleNInputs dist d outHer rules minDet us tape,
      psValidate rules hs = true ∧ minDet ≤ photons hs ∧
      ∃ s, heraldsOk outHer s = true ∧ hs = removeHeralds s outHer.keys := by
  rw [sampleNInputs_eq]
  have := foldl_filter_append
    (Q := fun hs => psValidate rules hs = true ∧ minDet ≤ photons hs ∧
      ∃ s, heraldsOk outHer s = true ∧ hs = removeHeralds s outHer.keys)
    (inStep dist d outHer rules minDet) (by
      intro acc u
      unfold inStep
      simp only
      cases h : acceptState outHer rules minDet
        (detectorSample d (dist.getD (inverseCdf (dist.map (·.2)) u) ([], 0)).1 acc.2).1 with
      | none => left; rfl
      | some hs =>
        right
        refine ⟨hs, rfl, ?_⟩
        have := (acceptState_spec outHer rules minDet _ hs).mp h
        exact ⟨this.2.2.1, this.2.2.2, _, this.1, this.2.1⟩) us ([], tape)
  refine ⟨by simpa using this.1, fun hs hhs => ?_⟩
  rcases this.2 hs hhs with h | h
  · simp at h
  · exact h

/-! ### sample_N_outputs -/

/-- the thresholded, accepted, weighted entry contributed by one state of the distribution -/
def outEntry (pnr : Bool) (outHer : Dict) (rules : List Rule) (minDet : Nat) (x : FState × Rat) :
    Option (FState × Rat) :=
  (acceptState outHer rules minDet (if pnr then x.1 else x.1.map fun c => min c 1)).map (·, x.2)

def outStep (pnr : Bool) (outHer : Dict) (rules : List Rule) (minDet : Nat)
    (acc : List (FState × Rat)) (x : FState × Rat) : List (FState × Rat) :=
  let s' := if pnr then x.1 else x.1.map fun c => min c 1
  match acceptState outHer rules minDet s' with
  | some hs =>
      if acc.any (·.1 == hs) then acc.map fun y => if y.1 == hs then (hs, y.2 + x.2) else y
      else acc ++ [(hs, x.2)]
  | none => acc

theorem outputsDist_eq (dist : List (FState × Rat)) (pnr : Bool) (outHer : Dict) (rules : List Rule)
    (minDet : Nat) :
    outputsDist dist pnr outHer rules minDet = dist.foldl (outStep pnr outHer rules minDet) [] := rfl

theorem outStep_none {pnr : Bool} {outHer : Dict} {rules : List Rule} {minDet : Nat}
    (acc : List (FState × Rat)) {x : FState × Rat}
    (h : acceptState outHer rules minDet (if pnr then x.1 else x.1.map fun c => min c 1) = none) :
    outStep pnr outHer rules minDet acc x = acc := by
  unfold outStep; simp only [h]

theorem outStep_some {pnr : Bool} {outHer : Dict} {rules : List Rule} {minDet : Nat}
    (acc : List (FState × Rat)) {x : FState × Rat} {hs : FState}
    (h : acceptState outHer rules minDet (if pnr then x.1 else x.1.map fun c => min c 1) = some hs) :
    outStep pnr outHer rules minDet acc x = mergeStep acc (hs, x.2) := by
  unfold outStep mergeStep; simp only [h]

theorem outEntry_none {pnr : Bool} {outHer : Dict} {rules : List Rule} {minDet : Nat}
    {x : FState × Rat}
    (h : acceptState outHer rules minDet (if pnr then x.1 else x.1.map fun c => min c 1) = none) :
    outEntry pnr outHer rules minDet x = none := by
  unfold outEntry; simp only [h, Option.map_none]

theorem outEntry_some {pnr : Bool} {outHer : Dict} {rules : List Rule} {minDet : Nat}
    {x : FState × Rat} {hs : FState}
    (h : acceptState outHer rules minDet (if pnr then x.1 else x.1.map fun c => min c 1) = some hs) :
    outEntry pnr outHer rules minDet x = some (hs, x.2) := by
  unfold outEntry; simp only [h, Option.map_some]

theorem foldl_outStep (pnr : Bool) (outHer : Dict) (rules : List Rule) (minDet : Nat)
    (dist acc : List (FState × Rat)) :
    dist.foldl (outStep pnr outHer rules minDet) acc =
      (dist.filterMap (outEntry pnr outHer rules minDet)).foldl mergeStep acc := by
  induction dist generalizing acc with
  | nil => rfl
  | cons x dist ih =>
    rw [List.foldl_cons, ih, List.filterMap_cons]
    cases h : acceptState outHer rules minDet (if pnr then x.1 else x.1.map fun c => min c 1) with
    | none => rw [outStep_none acc h, outEntry_none h]
    | some hs => rw [outStep_some acc h, outEntry_some h, List.foldl_cons]

theorem filter_filterMap_outEntry (pnr : Bool) (outHer : Dict) (rules : List Rule) (minDet : Nat)
    (dist : List (FState × Rat)) (hs : FState) :
    (((dist.filterMap (outEntry pnr outHer rules minDet)).filter (·.1 == hs)).map (·.2)) =
      (dist.filter fun x =>
          acceptState outHer rules minDet (if pnr then x.1 else x.1.map fun c => min c 1) == some hs).map
        (·.2) := by
  induction dist with
  | nil => rfl
  | cons x dist ih =>
    rw [List.filterMap_cons, List.filter_cons]
    cases h : acceptState outHer rules minDet (if pnr then x.1 else x.1.map fun c => min c 1) with
    | none =>
      rw [outEntry_none h]
      rw [show ((none : Option FState) == some hs) = false from rfl]
      simpa using ih
    | some hs' =>
      rw [outEntry_some h]
      simp only [List.filter_cons]
      by_cases e : hs' = hs
      · subst e
        simp only [beq_self_eq_true, if_true, List.map_cons]
        rw [← ih]
      · have e1 : (hs' == hs) = false := by simpa using e
        have e2 : (some hs' == some hs) = false := by simpa using e
        simp only [e1, e2, Bool.false_eq_true, if_false]
        rw [← ih]

theorem outputsDist_spec (dist : List (FState × Rat)) (pnr : Bool) (outHer : Dict) (rules : List Rule)
    (minDet : Nat) :
    ((outputsDist dist pnr outHer rules minDet).map (·.1)).Nodup ∧
    ∀ hs, (((outputsDist dist pnr outHer rules minDet).find? (·.1 == hs)).map (·.2)).getD 0 =
      ((dist.filter fun x =>
          acceptState outHer rules minDet (if pnr then x.1 else x.1.map fun c => min c 1) == some hs).map
        (·.2)).sum := by
  rw [outputsDist_eq, foldl_outStep]
  refine ⟨nodup_foldl_mergeStep _ _ (by simp), fun hs => ?_⟩
  show lookup _ hs = _
  rw [lookup_foldl_mergeStep, lookup_nil, zero_add, filter_filterMap_outEntry]

theorem sampleNOutputs_count (cond : List (FState × Rat)) (us : List Rat) :
    (sampleNOutputs cond us).length = us.length ∧
    (cond ≠ [] → ∀ s ∈ sampleNOutputs cond us, s ∈ cond.map (·.1)) := by
  unfold sampleNOutputs
  refine ⟨by simp, fun hne s hs => ?_⟩
  simp only [List.mem_map] at hs
  obtain ⟨u, _, rfl⟩ := hs
  have hlt := inverseCdf_lt (cond.map (·.2)) (by simpa using hne) u
  rw [List.length_map] at hlt
  rw [List.mem_map]
  refine ⟨cond[inverseCdf (cond.map (·.2)) u], List.getElem_mem hlt, ?_⟩
  rw [List.getD_eq_getElem?_getD, List.getElem?_eq_getElem hlt]; rfl

/-- non-vacuity: two states map to the same accepted state under threshold detection -/
example : outputsDist [([2, 0], 1/4), ([1, 0], 1/4), ([0, 1], 1/2)] false [] [] 1 =
    [([1, 0], 1/2), ([0, 1], 1/2)] := by decide +kernel

end LW.Proofs.C07
