/-
  C05 helper: list/sum lemmas (sumQ, sums over duplicate-free lists, conditional-append folds) and
  two extra facts about `fockBasis`.
-/
import Mathlib.Algebra.Order.Field.Basic
import Mathlib.Algebra.BigOperators.Group.List.Basic
import Mathlib.Algebra.BigOperators.Ring.List
import Mathlib.Algebra.Order.BigOperators.Group.List
import Mathlib.Data.List.Nodup
import Mathlib.Data.List.Perm.Lattice
import LW.Model.Analysis
import LW.Proofs.C03Basis
import LW.Proofs.C04aFock

namespace LW.Proofs.C05
open LW

/-! ### `sumQ` -/

theorem foldl_add_eq_sum {Q : Type} [AddCommMonoid Q] (l : List Q) (a : Q) :
    l.foldl (· + ·) a = a + l.sum := by
  induction l generalizing a with
  | nil => simp
  | cons x l ih => rw [List.foldl_cons, ih, List.sum_cons, add_assoc]

theorem sumQ_eq_sum {Q : Type} [AddCommMonoid Q] (l : List Q) : sumQ l = l.sum := by
  unfold sumQ
  rw [foldl_add_eq_sum, zero_add]

theorem foldl_add_map_eq_sum {Q α : Type} [AddCommMonoid Q] (f : α → Q) (l : List α) (a : Q) :
    l.foldl (fun acc x => acc + f x) a = a + (l.map f).sum := by
  induction l generalizing a with
  | nil => simp
  | cons x l ih => rw [List.foldl_cons, ih, List.map_cons, List.sum_cons, add_assoc]

/-! ### sums over duplicate-free lists -/

/-- two duplicate-free lists with the same members give the same sum -/
theorem sum_eq_of_nodup_of_mem_iff {Q α : Type} [AddCommMonoid Q] (f : α → Q) (l₁ l₂ : List α)
    (h₁ : l₁.Nodup) (h₂ : l₂.Nodup) (h : ∀ x, x ∈ l₁ ↔ x ∈ l₂) :
    (l₁.map f).sum = (l₂.map f).sum :=
  ((List.perm_ext_iff_of_nodup h₁ h₂).2 h).map f |>.sum_eq

/-- in a duplicate-free list the entries equal to a given member sum to its value -/
theorem sum_filter_eq_single {Q α : Type} [AddCommMonoid Q] [DecidableEq α] (f : α → Q)
    (l : List α) (hl : l.Nodup) (a : α) (ha : a ∈ l) (c : α → Prop) [DecidablePred c] (hc : c a)
    (k : α → α) (hk : ∀ o ∈ l, k o = o) :
    ((l.filter fun o => k o = a ∧ c o).map f).sum = f a := by
  induction l with
  | nil => cases ha
  | cons x l ih =>
    rw [List.nodup_cons] at hl
    have hkx : k x = x := hk x (by simp)
    have hk' : ∀ o ∈ l, k o = o := fun o ho => hk o (by simp [ho])
    by_cases hx : x = a
    · subst hx
      have hnone : l.filter (fun o => k o = x ∧ c o) = [] := by
        rw [List.filter_eq_nil_iff]
        intro o ho
        simp only [decide_eq_true_eq, not_and]
        intro h
        rw [hk' o ho] at h
        exact absurd (h ▸ ho) hl.1
      rw [List.filter_cons_of_pos (by simp [hkx, hc]), hnone]
      simp
    · have hal : a ∈ l := by
        rcases List.mem_cons.1 ha with h | h
        · exact absurd h.symm hx
        · exact h
      rw [List.filter_cons_of_neg (by simp [hkx, hx])]
      exact ih hl.2 hal hk'

/-- zero terms may be added back to a sum of non-negative terms -/
theorem sum_filter_pos {Q α : Type} [AddCommMonoid Q] [PartialOrder Q] (f : α → Q) (l : List α)
    (c : α → Prop) [DecidablePred c] [DecidableLT Q] (hf : ∀ x ∈ l, 0 ≤ f x) :
    ((l.filter fun o => c o ∧ 0 < f o).map f).sum = ((l.filter fun o => c o).map f).sum := by
  induction l with
  | nil => rfl
  | cons x l ih =>
    have ih' := ih (fun y hy => hf y (by simp [hy]))
    by_cases hc : c x
    · by_cases hp : 0 < f x
      · rw [List.filter_cons_of_pos (by simp [hc, hp]), List.filter_cons_of_pos (by simp [hc])]
        simp only [List.map_cons, List.sum_cons, ih']
      · have h0 : f x = 0 := by
          rcases lt_or_eq_of_le (hf x (by simp)) with h | h
          · exact absurd h hp
          · exact h.symm
        rw [List.filter_cons_of_neg (by simp [hp]), List.filter_cons_of_pos (by simp [hc])]
        simp only [List.map_cons, List.sum_cons, ih', h0, zero_add]
    · rw [List.filter_cons_of_neg (by simp [hc]), List.filter_cons_of_neg (by simp [hc])]
      exact ih'

/-! ### a fold that appends conditionally is `filter` then `map` -/

theorem foldl_append_if {α β : Type} (c : α → Prop) [DecidablePred c] (g : α → β) (l : List α)
    (init : List β) :
    l.foldl (fun pd o => if c o then pd ++ [g o] else pd) init =
      init ++ (l.filter fun o => c o).map g := by
  induction l generalizing init with
  | nil => simp
  | cons x l ih =>
    rw [List.foldl_cons, ih]
    by_cases hc : c x
    · simp [hc]
    · simp [hc]

/-! ### `fockBasis` -/

theorem fockBasis_zero_photons (N : Nat) : fockBasis (N + 1) 0 = [List.replicate (N + 1) 0] := by
  induction N with
  | zero => rfl
  | succ N ih =>
    have : fockBasis (N + 2) 0 =
        (List.range 1).flatMap fun v => (fockBasis (N + 1) (0 - v)).map fun p => p ++ [v] := rfl
    rw [this]
    simp only [List.range_one, List.flatMap_cons, List.flatMap_nil, List.append_nil, Nat.sub_zero,
      ih, List.map_cons, List.map_nil]
    rw [List.replicate_succ' (n := N + 1)]

/-- the outputs of `N + L` modes whose first `N` modes show `fo` are `fo ++ ls` for the
configurations `ls` of the remaining photons on the last `L` modes -/
theorem mem_fockBasis_take_iff (N L n : Nat) (hL : 0 < L) (fo : FState) (hfo : fo.length = N)
    (hle : photons fo ≤ n) (o : FState) :
    o ∈ (fockBasis (N + L) n).filter (fun o => o.take N = fo) ↔
      o ∈ (fockBasis L (n - photons fo)).map (fun ls => fo ++ ls) := by
  rw [List.mem_filter, List.mem_map, C03.fockBasis_complete _ _ (by omega)]
  simp only [decide_eq_true_eq]
  constructor
  · rintro ⟨⟨h1, h2⟩, h3⟩
    refine ⟨o.drop N, ?_, by rw [← h3, List.take_append_drop]⟩
    rw [C03.fockBasis_complete _ _ hL]
    refine ⟨by simp [h1], ?_⟩
    have h4 : photons o = photons (o.take N) + photons (o.drop N) := by
      rw [← C04a.photons_append, List.take_append_drop]
    rw [h3] at h4
    omega
  · rintro ⟨ls, hls, rfl⟩
    rw [C03.fockBasis_complete _ _ hL] at hls
    refine ⟨⟨by simp [hfo, hls.1], ?_⟩, ?_⟩
    · rw [C04a.photons_append, hls.2]; omega
    · rw [← hfo, List.take_left]

end LW.Proofs.C05
