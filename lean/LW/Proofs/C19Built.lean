/-
  LW.Proofs.C19Built — an invariant of circuit objects that is strong enough to be carried through
  `Circuit.add` (any mix of grouped / ungrouped / heralded additions, at any nesting) and
  `unpack_groups`, and that implies `Disp.WF`.
-/
import LW.Proofs.C19Synth
import Mathlib.Data.List.Nodup
import Mathlib.Data.List.Pairwise

namespace LW.Disp

open LW

variable {K : Type}

/-- every leaf of a spec entry — also inside a group — is drawable -/
def InnerOk (n : Nat) (comp : Comp K) : Prop := ∀ p ∈ comp.toPrims, CompOk n (Comp.prim p)

/-- `Disp.WF` plus what `add` needs to know about a circuit it is given: input heralds on
distinct modes of the circuit, output heralds on modes of the circuit, and drawable leaves
inside groups (they are exposed by `unpack_groups`) -/
structure Built (c : Circ K) : Prop where
  wf : WF c
  inNodup : c.inHer.keys.Nodup
  inLt : ∀ k ∈ c.inHer.keys, k < c.n
  outLt : ∀ k ∈ c.outHer.keys, k < c.n
  inner : ∀ comp ∈ c.spec, InnerOk c.n comp

theorem compOk_mono {n n' : Nat} (h : n ≤ n') (comp : Comp K) (hc : CompOk n comp) :
    CompOk n' comp := by
  cases comp with
  | prim p =>
    cases p with
    | bs m1 m2 c s cv => exact ⟨by have := hc.1; omega, by have := hc.2.1; omega, hc.2.2⟩
    | ps m p => exact (by have : m < n := hc; omega : m < n')
    | loss m a c => exact (by have : m < n := hc; omega : m < n')
    | barrier ms => exact fun m hm => by have := hc m hm; omega
    | swaps σ => exact fun m hm => by have := hc m hm; omega
    | unitary m u => exact ⟨hc.1, by have := hc.2; omega⟩
  | group cs m1 m2 hin hout =>
    exact ⟨by have := hc.1; omega, by have := hc.2.1; omega, fun k hk => by have := hc.2.2 k hk; omega⟩

theorem innerOk_mono {n n' : Nat} (h : n ≤ n') (comp : Comp K) (hc : InnerOk n comp) :
    InnerOk n' comp := fun p hp => compOk_mono h _ (hc p hp)

theorem innerOk_shift {n : Nat} (k : Nat) (comp : Comp K) (hc : InnerOk n comp) :
    InnerOk (n + k) (comp.shift k) := by
  intro p hp
  cases comp with
  | prim q =>
    simp only [Comp.shift, Comp.toPrims, List.mem_singleton] at hp
    subst hp
    exact compOk_shift k (.prim q) (hc q (by simp [Comp.toPrims]))
  | group cs m1 m2 hin hout =>
    simp only [Comp.shift, Comp.toPrims] at hp
    obtain ⟨q, hq, rfl⟩ := List.mem_map.mp hp
    exact compOk_shift k (.prim q) (hc q hq)

section
variable [Zero K] [One K]

theorem innerOk_addEmptyMode {n : Nat} (mode : Nat) (comp : Comp K) (hc : InnerOk n comp) :
    InnerOk (n + 1) (comp.addEmptyMode mode) := by
  intro p hp
  cases comp with
  | prim q =>
    simp only [Comp.addEmptyMode, Comp.toPrims, List.mem_singleton] at hp
    subst hp
    exact compOk_addEmptyMode mode (.prim q) (hc q (by simp [Comp.toPrims]))
  | group cs m1 m2 hin hout =>
    simp only [Comp.addEmptyMode, Comp.toPrims] at hp
    obtain ⟨q, hq, rfl⟩ := List.mem_map.mp hp
    exact compOk_addEmptyMode mode (.prim q) (hc q hq)

end

/-! ### `unpack_groups` -/

theorem built_unpack {c : Circ K} (hb : Built c) : Built c.unpackGroups := by
  have hspec : ∀ comp ∈ unpackSpec c.spec, CompOk c.n comp ∧ InnerOk c.n comp := by
    intro comp hc
    unfold unpackSpec at hc
    obtain ⟨x, hx, hcx⟩ := List.mem_flatMap.mp hc
    cases x with
    | prim p =>
      simp only [List.mem_singleton] at hcx
      subst hcx
      exact ⟨hb.wf.compOk _ hx, hb.inner _ hx⟩
    | group cs m1 m2 hin hout =>
      simp only at hcx
      obtain ⟨q, hq, rfl⟩ := List.mem_map.mp hcx
      have := hb.inner _ hx q hq
      refine ⟨this, ?_⟩
      intro p hp
      simp only [Comp.toPrims, List.mem_singleton] at hp
      subst hp; exact this
  exact {
    wf := { pos := hb.wf.pos, intNodup := List.nodup_nil, intLt := (fun _ h => nomatch h),
            extInLt := hb.inLt, extOutLt := hb.outLt, compOk := fun comp hc => (hspec comp hc).1 }
    inNodup := hb.inNodup, inLt := hb.inLt, outLt := hb.outLt,
    inner := fun comp hc => (hspec comp hc).2 }

/-! ### dictionaries under re-indexing -/

theorem ofPairs_eq_self_aux (ps acc : Dict) (h : (acc.keys ++ ps.keys).Nodup) :
    ps.foldl (fun d p => d.set p.1 p.2) acc = acc ++ ps := by
  induction ps generalizing acc with
  | nil => simp
  | cons p ps ih =>
    rw [List.foldl_cons]
    have hnc : acc.contains p.1 = false := by
      rw [Bool.eq_false_iff, Ne, Dict.contains_iff]
      intro hm
      have := (List.nodup_append.mp h).2.2 p.1 hm p.1 (by simp [Dict.keys])
      exact this rfl
    have hs : acc.set p.1 p.2 = acc ++ [p] := by
      unfold Dict.set; rw [hnc]; simp
    rw [hs, ih]
    · simp
    · have : (acc ++ [p]).keys ++ Dict.keys ps = acc.keys ++ Dict.keys (p :: ps) := by
        simp [Dict.keys]
      rw [this]; exact h

theorem ofPairs_eq_self {ps : Dict} (h : ps.keys.Nodup) : Dict.ofPairs ps = ps := by
  have := ofPairs_eq_self_aux ps [] (by simpa [Dict.keys] using h)
  simpa [Dict.ofPairs] using this

theorem bump_injective (mode : Nat) : Function.Injective (bump mode) := by
  intro a b h
  unfold bump at h
  split at h <;> split at h <;> omega

theorem bump_ne (mode x : Nat) : bump mode x ≠ mode := by
  unfold bump; split <;> omega

theorem bumpDict_eq {d : Dict} (mode : Nat) (h : d.keys.Nodup) :
    bumpDict mode d = d.map fun p => (bump mode p.1, p.2) := by
  unfold bumpDict
  apply ofPairs_eq_self
  have : Dict.keys (d.map fun p => (bump mode p.1, p.2)) = d.keys.map (bump mode) := by
    simp [Dict.keys]
  rw [this]
  exact h.map (bump_injective mode)

theorem bumpDict_keys {d : Dict} (mode : Nat) (h : d.keys.Nodup) :
    (bumpDict mode d).keys = d.keys.map (bump mode) := by
  rw [bumpDict_eq mode h]; simp [Dict.keys]

theorem bumpDict_keys_lt {d : Dict} {n : Nat} (mode : Nat) (h : ∀ k ∈ d.keys, k < n) :
    ∀ k ∈ (bumpDict mode d).keys, k < n + 1 := by
  unfold bumpDict
  refine ofPairs_keys_inv (Q := fun x => x < n + 1) _ ?_
  intro p hp
  obtain ⟨q, hq, rfl⟩ := List.mem_map.mp hp
  exact bump_lt (h _ (mem_keys hq))

/-! ### sorting -/

theorem insertSorted_pairwise (x : Nat) (l : List Nat) (h : l.Pairwise (· ≤ ·)) :
    (insertSorted x l).Pairwise (· ≤ ·) := by
  induction l with
  | nil => simp [insertSorted]
  | cons y ys ih =>
    unfold insertSorted
    split
    · rename_i hxy
      refine List.pairwise_cons.mpr ⟨?_, h⟩
      intro z hz
      rcases List.mem_cons.mp hz with rfl | hz
      · exact hxy
      · exact Nat.le_trans hxy ((List.pairwise_cons.mp h).1 z hz)
    · rename_i hxy
      have hyx : y ≤ x := by omega
      refine List.pairwise_cons.mpr ⟨?_, ih (List.pairwise_cons.mp h).2⟩
      intro z hz
      have := (insertSorted_perm x ys).mem_iff.mp hz
      rcases List.mem_cons.mp this with rfl | hz'
      · exact hyx
      · exact (List.pairwise_cons.mp h).1 z hz'

theorem sortNat_pairwise (l : List Nat) : (sortNat l).Pairwise (· ≤ ·) := by
  induction l with
  | nil => simp [sortNat]
  | cons x xs ih => exact insertSorted_pairwise x _ ih

theorem sortNat_strict {l : List Nat} (h : l.Nodup) : (sortNat l).Pairwise (· < ·) := by
  have h1 := sortNat_pairwise l
  have h2 : (sortNat l).Nodup := (sortNat_perm l).nodup_iff.mpr h
  exact (h1.and h2).imp fun ⟨a, b⟩ => Nat.lt_of_le_of_ne a b

theorem strict_head_bound {N m : Nat} {rest : List Nat} (h : (m :: rest).Pairwise (· < ·))
    (hl : ∀ x ∈ m :: rest, x < N) : m + (rest.length + 1) ≤ N := by
  induction rest generalizing m with
  | nil => have := hl m (List.mem_cons_self ..); simp; omega
  | cons y ys ih =>
    have hp := List.pairwise_cons.mp h
    have := ih hp.2 (fun x hx => hl x (List.mem_cons_of_mem _ hx))
    have hmy := hp.1 y (List.mem_cons_self ..)
    simp only [List.length_cons] at this ⊢
    omega

end LW.Disp
