/-
  LW.Proofs.C17 — collects the proof modules of property C17.
-/
import LW.Proofs.C17Dict
import LW.Proofs.C17Accum
import LW.Proofs.C17Result
