/-
  LW.Proofs.C12FullIface1 — the interface `Iface` for single-qubit gates and for `swap`.
-/
import LW.Proofs.C12FullGeneric
import LW.Proofs.C12FullBits
import LW.Proofs.C12FullInd
import LW.Proofs.C12FullInstrPlan

open MvPolynomial

namespace LW.C12F

open LW LW.QC LW.Gates LW.QF LW.Proofs.C02Sem

variable {R : Type} [CommRing R]

/-! ### the ideal single-qubit gate on a basis vector -/

theorem applySQ_delta_agree (m : ℕ → ℕ → R) (nq q : ℕ) (ib mid : List Bool) (hib : ib.length = nq)
    (hmid : mid.length = nq) (hq : q < nq)
    (hag : ∀ q', q' < nq → q' ∉ [q] → getBit mid q' = getBit ib q') :
    applySQ m q (delta ib) mid = m (getBit mid q).toNat (getBit ib q).toNat := by
  have e1 : mid.set q (getBit ib q) = ib := by
    apply bits_ext (n := nq) (by simpa using hmid) hib
    intro q' hq'
    rw [getBit_set]
    by_cases h : q' = q
    · subst h; rw [if_pos ⟨rfl, by omega⟩]
    · rw [if_neg (fun hc => h hc.1)]
      exact hag q' hq' (by simpa using h)
  have e2 : mid.set q (!getBit ib q) ≠ ib := by
    intro hc
    have := congrArg (fun l => getBit l q) hc
    simp only [getBit_set] at this
    have hql : q < mid.length := by omega
    simp only [hql, and_self, if_true] at this
    cases hb : getBit ib q <;> simp [hb] at this
  unfold applySQ delta
  cases hb : getBit ib q
  · rw [hb] at e1 e2
    simp only [Bool.not_false] at e2
    rw [if_pos e1, if_neg e2]
    simp
  · rw [hb] at e1 e2
    simp only [Bool.not_true] at e2
    rw [if_neg e2, if_pos e1]
    simp

theorem applySQ_delta_differ (m : ℕ → ℕ → R) (q q' : ℕ) (ib mid : List Bool) (hne : q' ≠ q)
    (hd : getBit mid q' ≠ getBit ib q') : applySQ m q (delta ib) mid = 0 := by
  unfold applySQ
  rw [delta_eq_zero q' (by rw [getBit_set, if_neg (fun hc => hne hc.1)]; exact hd),
    delta_eq_zero q' (by rw [getBit_set, if_neg (fun hc => hne hc.1)]; exact hd)]
  simp

/-! ### single-qubit gates -/

theorem iface_single [StarRing R] (c : GC R) (par : ℕ → R × R) (nq : ℕ) (g : Instr) (f : Bool)
    (q : ℕ) (hq : g.qubits = [q]) (hlt : q < nq) : Iface c par nq g f := by
  have hsw : isSwap g = false := by simp [isSwap, hq]
  have hQ : instrQ g = [q] := by simp [instrQ, hq]
  have hH : instrHer g f = [] := by simp [instrHer, hq]
  have hnd : [q].Nodup := by simp
  have hQlt : ∀ q' ∈ [q], q' < nq := by intro q' hq'; simp at hq'; omega
  have hφ : ∀ idx P, instrHom c par idx g f P =
      placeHomG (homOf (closedE c.i (sqCirc c (sqOfName g.name (par idx)))) (2 * [q].length + 0))
        (fwdQ [q] P) (invQ [q] P) (P + 0) := by
    intro idx P
    unfold instrHom
    rw [hsw, hQ, hH]
    simp only [Bool.false_eq_true, if_false, instrSub, hq]
    rfl
  refine ⟨?_, ?_, ?_, ?_⟩
  · intro idx P z hP hz hz2
    rw [hφ]
    rw [hH] at hz2
    exact gen_touch nq [q] P 0 _ hnd hQlt hP hz hz2
  · intro idx P w s hP hne _ _
    rw [hφ] at hne
    unfold stepRel
    rw [if_pos (by rw [hq]; rfl)]
    funext q'
    by_cases hqq : q' = q
    · subst hqq
      have := gen_cfg_sum nq [q'] P 0 _ hnd hQlt hP (H := []) rfl hne
        (fun k hk => absurd hk (Nat.not_lt_zero k)) (fun k hk => absurd hk (Nat.not_lt_zero k))
      simpa using this
    · exact gen_cfg_outside nq [q] P 0 _ hnd hQlt hP hne (by simpa using hqq)
  · intro idx P ib mid η hP hib hmid hη _
    rw [hφ]
    have hK : instrK c g f = 1 := by simp [instrK, hq]
    have hA : applyInstr c par idx g (delta ib) mid =
        applySQ (sqEntry c (sqOfName g.name (par idx))) q (delta ib) mid := by
      simp only [applyInstr, hq]
    rw [hK, hA, one_mul]
    by_cases hag : ∀ q', q' < nq → q' ∉ [q] → getBit mid q' = getBit ib q'
    · rw [gen_table_local nq [q] P 0 _ hnd hQlt hP (H := []) rfl hib hmid hη
        (fun k hk => absurd hk (Nat.not_lt_zero k)) hag,
        applySQ_delta_agree _ nq q ib mid hib hmid hlt hag]
      simp only [List.map_cons, List.map_nil, List.append_nil]
      exact amp_sq c (sqOfName g.name (par idx)) (getBit ib q) (getBit mid q)
    · push Not at hag
      obtain ⟨q', hq', hq'Q, hd⟩ := hag
      rw [gen_table_zero nq [q] P 0 _ hnd hQlt hP hib hmid hη hq' hq'Q hd,
        applySQ_delta_differ _ q q' ib mid (by simpa using hq'Q) hd]
  · intro cf _
    unfold stepRel
    rw [if_pos (by rw [hq]; rfl)]

/-! ### `swap` -/

theorem amp_rename (σ : ℕ → ℕ) (w s : ℕ →₀ ℕ) :
    amp (rename σ : Hom R) w s = if Finsupp.mapDomain σ s = w then 1 else 0 := by
  classical
  unfold amp
  rw [rename_monomial, coeff_monomial]

theorem mapDomain_invol {σ : ℕ → ℕ} (hσ : ∀ z, σ (σ z) = z) (s : ℕ →₀ ℕ) (z : ℕ) :
    Finsupp.mapDomain σ s z = s (σ z) := by
  have hinj : Function.Injective σ := by
    intro x y e
    have := congrArg σ e
    rwa [hσ, hσ] at this
  conv_lhs => rw [← hσ z]
  exact Finsupp.mapDomain_apply hinj s (σ z)

/-- the qubit exchanged with `q` -/
def qperm (a b q : ℕ) : ℕ := if q = a then b else if q = b then a else q

theorem qswap_even (a b q : ℕ) : qswap a b (2 * q) = 2 * qperm a b q := by
  unfold qswap qperm
  split_ifs <;> omega

theorem qswap_odd (a b q : ℕ) : qswap a b (2 * q + 1) = 2 * qperm a b q + 1 := by
  unfold qswap qperm
  split_ifs <;> omega

theorem qperm_invol (a b q : ℕ) : qperm a b (qperm a b q) = q := by
  unfold qperm
  split_ifs <;> omega

theorem qperm_lt {a b nq q : ℕ} (ha : a < nq) (hb : b < nq) (hq : q < nq) : qperm a b q < nq := by
  unfold qperm
  split_ifs <;> omega

theorem getBit_swapBits (mid : List Bool) (a b q : ℕ) (hab : a ≠ b) (ha : a < mid.length)
    (hb : b < mid.length) :
    getBit ((mid.set a (getBit mid b)).set b (getBit mid a)) q = getBit mid (qperm a b q) := by
  rw [getBit_set, getBit_set, List.length_set]
  unfold qperm
  by_cases h1 : q = b
  · subst h1
    rw [if_pos ⟨rfl, hb⟩, if_neg (Ne.symm hab), if_pos rfl]
  · rw [if_neg (fun hc => h1 hc.1)]
    by_cases h2 : q = a
    · subst h2
      rw [if_pos ⟨rfl, ha⟩, if_pos rfl]
    · rw [if_neg (fun hc => h2 hc.1), if_neg h2, if_neg h1]

theorem iface_swap (c : GC R) (par : ℕ → R × R) (nq : ℕ) (g : Instr) (f : Bool)
    (a b : ℕ) (hq : g.qubits = [a, b]) (hab : a ≠ b) (ha : a < nq) (hb : b < nq)
    (hn : g.name = "swap") : Iface c par nq g f := by
  have hsw : isSwap g = true := by simp [isSwap, hq, hn]
  have hH : instrHer g f = [] := by simp [instrHer, hq, hn]
  have hφ : ∀ idx P, instrHom c par idx g f P = (rename (qswap a b) : Hom R) := by
    intro idx P
    unfold instrHom
    rw [hsw, if_pos rfl, hq]
    rfl
  have hσ := qswap_invol a b
  have hfix : ∀ z, 2 * nq ≤ z → qswap a b z = z := by
    intro z hz
    unfold qswap
    rw [if_neg (by omega), if_neg (by omega)]
  have hK : instrK c g f = 1 := by simp [instrK, hq, hn]
  refine ⟨?_, ?_, ?_, ?_⟩
  · intro idx P z hP hz _
    rw [hφ]
    have := pres2_rename (R := R) (qswap a b) (wtP (· = z))
    have e : (fun j => wtP (· = z) (qswap a b j)) = wtP (· = z) := by
      funext j
      unfold wtP
      by_cases hj : j = z
      · rw [if_pos hj, if_pos (by rw [hj]; exact hfix z hz)]
      · rw [if_neg hj, if_neg]
        intro hc
        apply hj
        have := congrArg (qswap a b) hc
        rw [hσ, hfix z hz] at this
        exact this
    rw [e] at this
    exact this
  · intro idx P w s hP hne _ _
    rw [hφ, amp_rename] at hne
    have hw : Finsupp.mapDomain (qswap a b) s = w := by
      by_contra hc
      rw [if_neg hc] at hne
      exact hne rfl
    have hwz : ∀ z, w z = s (qswap a b z) := by
      intro z
      rw [← hw]
      exact mapDomain_invol hσ s z
    have hcfg : ∀ q, q < nq → cfgN nq w q = cfgN nq s (qperm a b q) := by
      intro q hq'
      rw [cfgN_lt w hq', cfgN_lt s (qperm_lt ha hb hq'), hwz, hwz, qswap_even, qswap_odd]
    unfold stepRel
    rw [if_neg (by rw [hq]; simp), if_pos hn]
    refine ⟨a, b, hq, ?_, ?_, ?_⟩
    · rw [hcfg a ha]
      unfold qperm
      rw [if_pos rfl]
    · rw [hcfg b hb]
      unfold qperm
      rw [if_neg (Ne.symm hab), if_pos rfl]
    · intro q hqa hqb
      by_cases hqn : q < nq
      · rw [hcfg q hqn]
        unfold qperm
        rw [if_neg hqa, if_neg hqb]
      · unfold cfgN
        rw [if_neg hqn, if_neg hqn]
  · intro idx P ib mid η hP hib hmid hη _
    rw [hφ, amp_rename, hK, one_mul]
    have hA : applyInstr c par idx g (delta ib) mid =
        delta ib ((mid.set a (getBit mid b)).set b (getBit mid a)) := by
      simp only [applyInstr, hq, hn, if_true]
    rw [hA]
    unfold delta
    have hkey : (Finsupp.mapDomain (qswap a b) (mk (dualRail ib) η) = mk (dualRail mid) η) ↔
        ((mid.set a (getBit mid b)).set b (getBit mid a) = ib) := by
      constructor
      · intro h
        apply bits_ext (n := nq) (by simpa using hmid) hib
        intro q hq'
        rw [getBit_swapBits mid a b q hab (by omega) (by omega)]
        have hp := qperm_lt ha hb hq'
        have := DFunLike.congr_fun h (2 * qperm a b q)
        rw [mapDomain_invol hσ, qswap_even, qperm_invol, mk_dualRail_even hib hη hq',
          mk_dualRail_even hmid hη hp] at this
        cases h1 : getBit mid (qperm a b q) <;> cases h2 : getBit ib q <;> simp_all
      · intro h
        ext z
        rw [mapDomain_invol hσ]
        by_cases hz : z < 2 * nq
        · have hzq : z / 2 < nq := by omega
          have hbit : getBit mid (z / 2) = getBit ib (qperm a b (z / 2)) := by
            rw [← h, getBit_swapBits mid a b _ hab (by omega) (by omega), qperm_invol]
          have hp := qperm_lt ha hb hzq
          rcases Nat.mod_two_eq_zero_or_one z with h0 | h1
          · have e : z = 2 * (z / 2) := by omega
            rw [e, qswap_even, mk_dualRail_even hib hη hp, mk_dualRail_even hmid hη hzq, hbit]
          · have e : z = 2 * (z / 2) + 1 := by omega
            rw [e, qswap_odd, mk_dualRail_odd hib hη hp, mk_dualRail_odd hmid hη hzq, hbit]
        · rw [hfix z (by omega), mk_apply_ge (by rw [dualRail_length, hib]; omega),
            mk_apply_ge (by rw [dualRail_length, hmid]; omega)]
    by_cases hc : (mid.set a (getBit mid b)).set b (getBit mid a) = ib
    · rw [if_pos hc, if_pos (hkey.mpr hc)]
    · rw [if_neg hc, if_neg (fun h => hc (hkey.mp h))]
  · intro cf hcf
    unfold stepRel
    rw [if_neg (by rw [hq]; simp), if_pos hn]
    exact ⟨a, b, hq, by rw [hcf a ha, hcf b hb], by rw [hcf a ha, hcf b hb], fun _ _ _ => rfl⟩

end LW.C12F
