/-
  LW.Proofs.C16ProjCP — the CP step of the MLE process tomography: `_cp_proj` (LW.Model.MLEProj
  `cpProjFrom`) returns a positive semi-definite matrix (Mathlib's `Matrix.PosSemidef`) for ANY
  matrix of eigenvectors and ANY real eigenvalues `eigh` may return; with the `eigh` contract
  (`vecs` unitary) the part removed is negative semi-definite and orthogonal to the part kept
  (Moreau decomposition: the result is the nearest positive semi-definite matrix); positive
  semi-definiteness survives the convex updates of `pgdb`.
-/
import Mathlib.LinearAlgebra.Matrix.PosDef
import Mathlib.Analysis.Complex.Basic
import LW.Proofs.C16Proj

open scoped BigOperators ComplexOrder
open Matrix

namespace LW.Tomo

/-- `v ↦ max(v, 0)` on a real eigenvalue stored as a complex number -/
noncomputable def clipC (z : ℂ) : ℂ := ((max z.re 0 : ℝ) : ℂ)
/-- the part `_cp_proj` removes: `v ↦ min(v, 0)` -/
noncomputable def clipNegC (z : ℂ) : ℂ := ((min z.re 0 : ℝ) : ℂ)

theorem get_diagOf (vals : List ℂ) {r k : Nat} (hr : r < vals.length) (hk : k < vals.length) :
    (diagOf vals).get r k = if r = k then vals.getD r 0 else 0 := by
  unfold diagOf
  rw [M.get_ofFn _ hr hk]

theorem getD_map_lt (f : ℂ → ℂ) (vals : List ℂ) {j : Nat} (hj : j < vals.length) :
    (vals.map f).getD j 0 = f (vals.getD j 0) := by
  simp [List.getD_eq_getElem?_getD, List.getElem?_eq_getElem hj]

/-- the model's `vecs @ diag(f(vals)) @ vecs†` as a Mathlib matrix product -/
theorem cpProjFrom_toMatN (f : ℂ → ℂ) (vals : List ℂ) (V : M ℂ) (n : Nat) (hV : V.n = n)
    (hl : vals.length = n) :
    (cpProjFrom f vals V).toMatN n
      = V.toMatN n * Matrix.diagonal (fun j : Fin n => f (vals.getD j 0)) * (V.toMatN n)ᴴ := by
  subst hV
  ext r k
  have hr := r.isLt
  have hk := k.isLt
  have hlm : (vals.map f).length = V.n := by simpa using hl
  simp only [M.toMatN, cpProjFrom]
  rw [M.get_mul _ _ (by simpa using hr) (by simpa using hk)]
  simp only [M.mul_n]
  rw [Matrix.mul_apply, Finset.sum_range (fun j => (V.mul (diagOf (vals.map f))).get r j * V.dagger.get j k)]
  refine Finset.sum_congr rfl fun j _ => ?_
  have hj := j.isLt
  rw [get_dagger V hj hk, M.get_mul _ _ hr hj, Matrix.mul_diagonal, Matrix.conjTranspose_apply]
  congr 1
  have : ∀ l ∈ Finset.range V.n, V.get r l * (diagOf (vals.map f)).get l j
      = if l = j then V.get r j * f (vals.getD j 0) else 0 := by
    intro l hl'
    have hl'' := Finset.mem_range.mp hl'
    rw [get_diagOf _ (by omega) (by omega)]
    by_cases h : l = (j : Nat)
    · rw [h, if_pos rfl, if_pos rfl, getD_map_lt f vals (by omega)]
    · simp [h]
  rw [Finset.sum_congr rfl this, Finset.sum_ite_eq' , if_pos (Finset.mem_range.mpr hj)]
  rfl

theorem clipC_nonneg (z : ℂ) : 0 ≤ clipC z := by
  unfold clipC
  exact_mod_cast le_max_right _ _

theorem clipNegC_nonpos (z : ℂ) : clipNegC z ≤ 0 := by
  unfold clipNegC
  exact_mod_cast min_le_right _ _

/-- **`_cp_proj` returns a positive semi-definite matrix**, whatever `eigh` returned. -/
theorem cpProj_posSemidef (vals : List ℂ) (V : M ℂ) (n : Nat) (hV : V.n = n) (hl : vals.length = n) :
    ((cpProjFrom clipC vals V).toMatN n).PosSemidef := by
  rw [cpProjFrom_toMatN clipC vals V n hV hl]
  exact Matrix.PosSemidef.mul_mul_conjTranspose_same
    (Matrix.PosSemidef.diagonal fun j => clipC_nonneg _) _

/-- the part removed, `A − _cp_proj(A) = vecs @ diag(min(v,0)) @ vecs†`, is negative semi-definite -/
theorem cpProj_removed_negSemidef (vals : List ℂ) (V : M ℂ) (n : Nat) (hV : V.n = n)
    (hl : vals.length = n) :
    (-(cpProjFrom clipNegC vals V).toMatN n).PosSemidef := by
  rw [cpProjFrom_toMatN clipNegC vals V n hV hl]
  have : -(V.toMatN n * Matrix.diagonal (fun j : Fin n => clipNegC (vals.getD j 0)) * (V.toMatN n)ᴴ)
      = V.toMatN n * Matrix.diagonal (fun j : Fin n => -clipNegC (vals.getD j 0)) * (V.toMatN n)ᴴ := by
    rw [← Matrix.diagonal_neg, Matrix.mul_neg, Matrix.neg_mul]
  rw [this]
  exact Matrix.PosSemidef.mul_mul_conjTranspose_same
    (Matrix.PosSemidef.diagonal fun j => neg_nonneg.mpr (clipNegC_nonpos _)) _

/-- for real eigenvalues the kept and the removed part add up to `vecs @ diag(vals) @ vecs†` … -/
theorem cpProj_decomposition (vals : List ℂ) (hre : ∀ v ∈ vals, v.im = 0) (V : M ℂ) (n : Nat)
    (hV : V.n = n) (hl : vals.length = n) :
    (cpProjFrom clipC vals V).toMatN n + (cpProjFrom clipNegC vals V).toMatN n
      = (cpProjFrom id vals V).toMatN n := by
  rw [cpProjFrom_toMatN _ vals V n hV hl, cpProjFrom_toMatN _ vals V n hV hl,
    cpProjFrom_toMatN _ vals V n hV hl, ← Matrix.add_mul, ← Matrix.mul_add, Matrix.diagonal_add]
  congr 3
  ext j
  have hj : (j : Nat) < vals.length := hl ▸ j.isLt
  have hmem : vals.getD j 0 ∈ vals := by
    rw [List.getD_eq_getElem?_getD, List.getElem?_eq_getElem hj]; exact List.getElem_mem hj
  have him := hre _ hmem
  generalize vals.getD j 0 = v at him
  apply Complex.ext
  · simp [clipC, clipNegC, max_add_min]
  · simp [clipC, clipNegC, him]

/-- … and, `vecs` being unitary, they are orthogonal: `_cp_proj(A) · (A − _cp_proj(A)) = 0`.
Together with the two semi-definiteness statements this is the Moreau decomposition, i.e. the
result is the Frobenius-nearest positive semi-definite matrix to `A`. -/
theorem cpProj_orthogonal (vals : List ℂ) (V : M ℂ) (n : Nat) (hV : V.n = n) (hl : vals.length = n)
    (hU : (V.toMatN n)ᴴ * V.toMatN n = 1) :
    (cpProjFrom clipC vals V).toMatN n * (cpProjFrom clipNegC vals V).toMatN n = 0 := by
  rw [cpProjFrom_toMatN _ vals V n hV hl, cpProjFrom_toMatN _ vals V n hV hl]
  have hd : Matrix.diagonal (fun j : Fin n => clipC (vals.getD j 0))
      * Matrix.diagonal (fun j : Fin n => clipNegC (vals.getD j 0)) = 0 := by
    rw [Matrix.diagonal_mul_diagonal]
    ext r k
    by_cases h : r = k
    · subst h
      simp only [Matrix.diagonal_apply_eq, Matrix.zero_apply, clipC, clipNegC]
      generalize vals.getD r 0 = v
      rcases le_total v.re 0 with h0 | h0
      · simp [max_eq_right h0]
      · simp [min_eq_right h0]
    · simp [Matrix.diagonal_apply_ne _ h]
  calc V.toMatN n * diagonal (fun j : Fin n => clipC (vals.getD j 0)) * (V.toMatN n)ᴴ
        * (V.toMatN n * diagonal (fun j : Fin n => clipNegC (vals.getD j 0)) * (V.toMatN n)ᴴ)
      = V.toMatN n * (diagonal (fun j : Fin n => clipC (vals.getD j 0))
          * ((V.toMatN n)ᴴ * V.toMatN n) * diagonal (fun j : Fin n => clipNegC (vals.getD j 0)))
          * (V.toMatN n)ᴴ := by simp only [Matrix.mul_assoc]
    _ = 0 := by rw [hU, Matrix.mul_one, hd, Matrix.mul_zero, Matrix.zero_mul]

/-- a matrix all of whose eigenvalues are non-negative is returned unchanged -/
theorem cpProj_fixes_psd (vals : List ℂ) (hre : ∀ v ∈ vals, v.im = 0 ∧ 0 ≤ v.re) (V : M ℂ) :
    cpProjFrom clipC vals V = cpProjFrom id vals V := by
  unfold cpProjFrom
  congr 3
  apply List.map_congr_left
  intro v hv
  obtain ⟨h1, h2⟩ := hre v hv
  apply Complex.ext <;> simp [clipC, max_eq_left h2, h1]

/-! ### `pgdb`: positive semi-definiteness is an invariant of the loop -/

theorem toMatN_madd (A B : M ℂ) (n : Nat) (hA : A.n = n) :
    (madd A B).toMatN n = A.toMatN n + B.toMatN n := by
  subst hA
  ext r k
  simp only [M.toMatN, Matrix.add_apply]
  exact get_madd _ _ r.isLt k.isLt

theorem toMatN_msub (A B : M ℂ) (n : Nat) (hA : A.n = n) :
    (msub A B).toMatN n = A.toMatN n - B.toMatN n := by
  subst hA
  ext r k
  simp only [M.toMatN, Matrix.sub_apply]
  exact get_msub _ _ r.isLt k.isLt

theorem toMatN_scale (c : ℂ) (A : M ℂ) (n : Nat) (hA : A.n = n) :
    (scale c A).toMatN n = c • A.toMatN n := by
  subst hA
  ext r k
  simp only [M.toMatN, Matrix.smul_apply, smul_eq_mul]
  exact get_scale _ _ r.isLt k.isLt

/-- one `pgdb` update is the convex combination `(1-α)·choi + α·proj(…)` -/
theorem pgdbStep_toMatN (proj grad : M ℂ → M ℂ) (muInv alpha : ℂ) (choi : M ℂ) (n : Nat)
    (hn : choi.n = n) (hp : ∀ X, X.n = n → (proj X).n = n) :
    (pgdbStep proj grad muInv alpha choi).toMatN n
      = (1 - alpha) • choi.toMatN n
        + alpha • (proj (msub choi (scale muInv (grad choi)))).toMatN n := by
  unfold pgdbStep
  simp only
  have hX : (msub choi (scale muInv (grad choi))).n = n := by simpa using hn
  rw [toMatN_madd _ _ n hn, toMatN_scale _ _ n (by simpa using hp _ hX),
    toMatN_msub _ _ n (hp _ hX), smul_sub, sub_smul, one_smul]
  abel

/-- **every `pgdb` iterate is positive semi-definite**: if the projection returns positive
semi-definite matrices (`_cptp_proj` returns an output of `_cp_proj`, `cpProj_posSemidef`) and the
accepted step sizes lie in `[0,1]` (the code uses `0.5^j`), then starting from a positive
semi-definite matrix every iterate is positive semi-definite — for every gradient, every data
set, every number of iterations. -/
theorem pgdbRun_posSemidef (n : Nat) (proj grad : M ℂ → M ℂ) (muInv : ℂ)
    (hproj : ∀ X, X.n = n → (proj X).n = n ∧ ((proj X).toMatN n).PosSemidef)
    (alphas : List ℝ) (hal : ∀ a ∈ alphas, 0 ≤ a ∧ a ≤ 1) (choi : M ℂ) (hn : choi.n = n)
    (hpsd : (choi.toMatN n).PosSemidef) :
    ((pgdbRun proj grad muInv (alphas.map Complex.ofReal) choi).toMatN n).PosSemidef := by
  induction alphas generalizing choi with
  | nil => exact hpsd
  | cons al as ih =>
    rw [List.map_cons, pgdbRun]
    obtain ⟨h0, h1⟩ := hal al (List.mem_cons_self ..)
    refine ih (fun a ha => hal a (List.mem_cons_of_mem _ ha)) _ (by rw [pgdbStep_n]; exact hn) ?_
    rw [pgdbStep_toMatN proj grad muInv al choi n hn (fun X hX => (hproj X hX).1)]
    have hX : (msub choi (scale muInv (grad choi))).n = n := by simpa using hn
    refine Matrix.PosSemidef.add (hpsd.smul ?_) ((hproj _ hX).2.smul ?_)
    · have : (0 : ℝ) ≤ 1 - al := by linarith
      exact_mod_cast this
    · exact_mod_cast h0

/-- the starting point `I/d` is positive semi-definite -/
theorem pgdbInit_posSemidef (d : Nat) :
    ((pgdbInit d : M ℂ).toMatN (d * d)).PosSemidef := by
  have : (pgdbInit d : M ℂ).toMatN (d * d) = ((d : ℂ)⁻¹) • (1 : Matrix (Fin (d * d)) (Fin (d * d)) ℂ) := by
    unfold pgdbInit
    rw [toMatN_scale _ _ _ (by simp), natK_eq]
    congr 1
    ext r k
    simp only [M.toMatN]
    rw [M.get_one r.isLt k.isLt, Matrix.one_apply]
    by_cases h : r = k
    · subst h; simp
    · have : (r : Nat) ≠ k := fun h' => h (Fin.ext h')
      simp [h, this]
  rw [this]
  refine Matrix.PosSemidef.one.smul ?_
  have : (0 : ℝ) ≤ (d : ℝ)⁻¹ := by positivity
  simpa using Complex.zero_le_real.mpr this

/-! ### `_cptp_proj`: the value returned is an output of the CP step -/

theorem iter_succ' {α : Type} (f : α → α) (k : Nat) (a : α) : iter f (k + 1) a = f (iter f k a) := by
  induction k generalizing a with
  | zero => rfl
  | succ k ih => rw [iter, ih (f a)]; rfl

/-- what the model assumes about `np.linalg.eigh` as far as shapes go -/
def EighShapes (eigh : M ℂ → List ℂ × M ℂ) (n : Nat) : Prop :=
  ∀ Y, Y.n = n → (eigh Y).2.n = n ∧ (eigh Y).1.length = n

/-- `_cp_proj` with `eigh` as a parameter -/
noncomputable def cpProjWith (eigh : M ℂ → List ℂ × M ℂ) (Y : M ℂ) : M ℂ :=
  cpProjFrom clipC (eigh Y).1 (eigh Y).2

theorem dykstra_iter_n (tp cp : M ℂ → M ℂ) (n : Nat) (htp : ∀ X, (tp X).n = X.n)
    (hcp : ∀ X, X.n = n → (cp X).n = n) (k : Nat) (s : Dykstra ℂ) (hs : s.x.n = n) :
    (iter (Dykstra.step tp cp) k s).x.n = n := by
  induction k generalizing s with
  | zero => exact hs
  | succ k ih =>
    rw [iter]
    apply ih
    simp only [Dykstra.step]
    exact hcp _ (by rw [madd_n, htp, madd_n, hs])

/-- **`_cptp_proj` returns a positive semi-definite matrix of the right size**, for every input,
every number of passes (so: whatever the stopping rule decides) and every `eigh` that returns
arrays of the right shape. -/
theorem cptpProj_posSemidef (d : Nat) (eigh : M ℂ → List ℂ × M ℂ) (he : EighShapes eigh (d * d))
    (iters : Nat) (A : M ℂ) (hA : A.n = d * d) :
    (cptpProj (tpProj d) (cpProjWith eigh) (d * d) iters A).n = d * d ∧
      ((cptpProj (tpProj d) (cpProjWith eigh) (d * d) iters A).toMatN (d * d)).PosSemidef := by
  have hcp : ∀ X : M ℂ, X.n = d * d → (cpProjWith eigh X).n = d * d := fun X hX => by
    unfold cpProjWith cpProjFrom
    rw [M.mul_n, M.mul_n]
    exact (he X hX).1
  unfold cptpProj
  simp only
  rw [iter_succ']
  set s := iter (Dykstra.step (tpProj d) (cpProjWith eigh)) iters
    { x := A, p := M.ofFn (d * d) fun _ _ => 0, q := M.ofFn (d * d) fun _ _ => 0,
      y := M.ofFn (d * d) fun _ _ => 0 } with hs
  have hsn : s.x.n = d * d :=
    dykstra_iter_n (tpProj d) (cpProjWith eigh) (d * d) (fun X => tpProj_n d X) hcp iters _ hA
  simp only [Dykstra.step]
  have hY : (madd (tpProj d (madd s.x s.p)) s.q).n = d * d := by
    rw [madd_n, tpProj_n, madd_n, hsn]
  refine ⟨hcp _ hY, ?_⟩
  unfold cpProjWith
  exact cpProj_posSemidef _ _ _ (he _ hY).1 (he _ hY).2

/-- **`pgdb` returns a positive semi-definite matrix**: the whole outer loop of the maximum-
likelihood tomography, with `_cptp_proj` as built (any stopping rule `stop`), any `eigh` of the right
shapes, any gradient (any data), any accepted step sizes in `[0,1]`, any number of iterations. -/
theorem pgdb_posSemidef (d : Nat) (eigh : M ℂ → List ℂ × M ℂ) (he : EighShapes eigh (d * d))
    (stop : M ℂ → Nat) (grad : M ℂ → M ℂ) (muInv : ℂ) (alphas : List ℝ)
    (hal : ∀ a ∈ alphas, 0 ≤ a ∧ a ≤ 1) :
    ((pgdbRun (fun X => cptpProj (tpProj d) (cpProjWith eigh) (d * d) (stop X) X) grad muInv
        (alphas.map Complex.ofReal) (pgdbInit d)).toMatN (d * d)).PosSemidef :=
  pgdbRun_posSemidef (d * d) _ grad muInv
    (fun X hX => cptpProj_posSemidef d eigh he (stop X) X hX) alphas hal (pgdbInit d)
    (by simp [pgdbInit]) (pgdbInit_posSemidef d)

end LW.Tomo
