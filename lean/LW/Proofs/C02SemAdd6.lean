/-
  LW.Proofs.C02SemAdd6 — REFINEMENT of `Circuit.add`: on canonical closed forms the abstraction of
  the result is the composition of the abstractions.
-/
import LW.Proofs.C02SemAdd5

open scoped BigOperators

namespace LW.Proofs.C02Sem

open LW LW.Proofs.C01Aux LW.Proofs.C02

variable {K : Type} [CommRing K] [StarRing K]

set_option linter.unusedSectionVars false

/-! ### the matrix of `compose` -/

def invP (x : Optic K) (aS : Nat) (r : Nat) : Option Nat :=
  if r < x.p + x.a then some r
  else if r < x.p + x.a + aS then none
  else if r < x.p + x.a + aS + x.l then some (r - aS)
  else none

def invS (x : Optic K) (s : Closed K) (m : Nat) (r : Nat) : Option Nat :=
  if m ≤ r ∧ r < m + s.q then some (r - m)
  else if x.p + x.a ≤ r ∧ r < x.p + x.a + s.hn.length then some (s.q + (r - (x.p + x.a)))
  else if x.p + x.a + s.hn.length + x.l ≤ r then
    some (s.q + s.hn.length + (r - (x.p + x.a + s.hn.length + x.l)))
  else none

theorem compose_W (x : Optic K) (s : Closed K) (m : Nat) :
    (x.compose s m).W =
      (Optic.embedVia (x.p + x.a + s.hn.length + x.l + s.l) s.W (invS x s m)).mul
        (Optic.embedVia (x.p + x.a + s.hn.length + x.l + s.l) x.W (invP x s.hn.length)) := rfl

/-! ### the swap of the sub-circuit on the closed-form selectors -/

theorem swap_row_col (sub : Circ K) (hwfs : sub.WF) {y : Nat}
    (hy : y < sub.n - sub.inHer.length + sub.inHer.length + lossCount sub.spec) :
    Dict.fn (Circ.synthSwaps sub.n (sub.outHer.keys.zip sub.inHer.keys)) (rowM sub y) = colM sub y := by
  have hlen : sub.outHer.keys.length = sub.inHer.keys.length := by
    rw [keys_length, keys_length, hwfs.lenEq]
  obtain ⟨s1, s2, s3⟩ := synthSwaps_spec sub.n sub.outHer.keys sub.inHer.keys hlen hwfs.outNodup
    hwfs.inNodup hwfs.outLt hwfs.inLt
  have hfl := length_freeOf sub.n _ hwfs.inNodup hwfs.inLt
  rw [keys_length] at hfl
  unfold rowM colM
  by_cases h1 : y < sub.n - sub.inHer.length
  · rw [if_pos h1, if_pos h1]
    have l2 : y < (freeOf sub.n sub.inHer.keys).length := by rw [hfl]; exact h1
    have l1 : y < (freeOf sub.n sub.outHer.keys).length := by rw [s3]; exact l2
    rw [List.getD_eq_getElem _ _ l1, List.getD_eq_getElem _ _ l2]
    exact s2 y l1 l2
  · rw [if_neg h1, if_neg h1]
    by_cases h2 : y < sub.n - sub.inHer.length + sub.inHer.length
    · rw [if_pos h2, if_pos h2]
      have l2 : y - (sub.n - sub.inHer.length) < sub.inHer.keys.length := by rw [keys_length]; omega
      have l1 : y - (sub.n - sub.inHer.length) < sub.outHer.keys.length := by rw [hlen]; exact l2
      rw [List.getD_eq_getElem _ _ l1, List.getD_eq_getElem _ _ l2]
      exact s1 _ l1 l2
    · rw [if_neg h2, if_neg h2]
      have hok := swapDict_swapsOk sub hwfs
      exact (SwapsOk.permOk hok).fix _ (by omega)

theorem lossCount_unpack (spec : List (Comp K)) : lossCount (unpackSpec spec) = lossCount spec := by
  rw [← lossN_flatten, ← lossN_flatten]
  congr 1
  unfold flattenSpec unpackSpec
  induction spec with
  | nil => rfl
  | cons c cs ih =>
    simp only [List.flatMap_cons, List.flatMap_append, ih]
    congr 1
    cases c with
    | prim p => rfl
    | group cs' m1 m2 hin hout =>
      simp only [Comp.toPrims, List.flatMap_map, List.flatMap_singleton']

theorem pick_facts (i : K) (sub : Circ K) (g : Bool) :
    (pick sub g).1.n = sub.n ∧ (pick sub g).1.inHer = sub.inHer ∧ (pick sub g).1.outHer = sub.outHer ∧
    lossCount (pick sub g).1.spec = lossCount sub.spec ∧
    compile i sub.n (pick sub g).1.spec = compile i sub.n sub.spec := by
  unfold pick
  simp only
  split
  · exact ⟨rfl, rfl, rfl, lossCount_unpack _, C09.unpack_compile i sub.n sub.spec⟩
  · exact ⟨rfl, rfl, rfl, rfl, rfl⟩

/-! ### the two factors -/

section
variable {par sub res : Circ K} {m : Int} {g : Bool} {mode : Nat} {ts : List Nat}

/-- the list of new ancilla modes of the result -/
abbrev Kk (sub : Circ K) (mode : Nat) (ts : List Nat) : List Nat :=
  (sortNat (sub.inHer.keys.map (bumps ts))).map (mode + ·)

theorem Ctx.pinjK (c : Ctx par sub res m g mode ts) (L : Nat) :
    PInj (par.n + L) (par.n + sub.inHer.length + L) (fK sub mode ts) (unbumps (Kk sub mode ts)) := by
  have hKlen : (Kk sub mode ts).length = sub.inHer.length := by
    simp [Kk, length_sortNat, keys_length]
  have hknd : (sub.inHer.keys.map (bumps ts)).Nodup :=
    nodup_map_of_inj (fun a b => bumps_inj ts) c.wfs.inNodup
  have hKs : (Kk sub mode ts).Pairwise (· < ·) := by
    rw [List.pairwise_map]
    exact (strictSorted_sortNat hknd).imp (fun hab => by omega)
  have hKlt : ∀ x ∈ Kk sub mode ts, x < par.n + (Kk sub mode ts).length := by
    intro x hx
    obtain ⟨k, hk, rfl⟩ := List.mem_map.mp hx
    rw [mem_sortNat] at hk
    obtain ⟨x0, hx0, rfl⟩ := List.mem_map.mp hk
    have := c.pos.b_lt x0 (c.wfs.inLt x0 hx0)
    have := c.pos.fit
    rw [hKlen]; omega
  have := pinj_bumps par.n L (Kk sub mode ts) (insOk_sorted par.n _ hKs hKlt)
  rwa [hKlen] at this

/-- classification of a specification index with respect to the parent -/
theorem Ctx.classP (c : Ctx par sub res m g mode ts) (i : K) {R : Nat}
    (hR : R < par.n + sub.inHer.length + lossCount par.spec + lossCount sub.spec) :
    (∃ R0, invP (par.toOptic i) sub.inHer.length R = some R0 ∧ R0 < par.n + lossCount par.spec ∧
        tau par sub mode ts R = fK sub mode ts (par.optMode R0)) ∨
    (invP (par.toOptic i) sub.inHer.length R = none ∧
      ((tau par sub mode ts R < par.n + sub.inHer.length + lossCount par.spec ∧
          unbumps (Kk sub mode ts) (tau par sub mode ts R) = none) ∨
        par.n + sub.inHer.length + lossCount par.spec ≤ tau par sub mode ts R)) := by
  have hpl := portModes_length par c.wf
  have hxl := toOptic_l i par
  have hpa : (par.toOptic i).p + (par.toOptic i).a = par.n := hpl
  unfold invP
  rw [hpa, hxl]
  by_cases h1 : R < par.n
  · left
    refine ⟨R, by rw [if_pos h1], by omega, ?_⟩
    unfold tau; rw [if_pos h1]
  · rw [if_neg h1]
    by_cases h2 : R < par.n + sub.inHer.length
    · right
      refine ⟨by rw [if_pos h2], Or.inl ?_⟩
      have hlt := c.tau_lt (R := R) (Nat.le_refl _) h2
      refine ⟨by omega, ?_⟩
      cases hu : unbumps (Kk sub mode ts) (tau par sub mode ts R) with
      | none => rfl
      | some x0 =>
        exfalso
        obtain ⟨-, e⟩ := (c.pinjK 0).inv_some _ x0 (by omega) hu
        unfold tau at e
        rw [if_neg h1, if_pos h2] at e
        obtain ⟨hk, -⟩ := c.key_lt (k := R - par.n) (by omega)
        exact c.pos.f_not_new x0 _ hk e
    · rw [if_neg h2]
      have ht : tau par sub mode ts R = R := by unfold tau; rw [if_neg h1, if_neg h2]
      by_cases h3 : R < par.n + sub.inHer.length + lossCount par.spec
      · left
        refine ⟨R - sub.inHer.length, by rw [if_pos h3], by omega, ?_⟩
        rw [ht, optMode_loss par c.wf (by omega), c.pos.f_loss _ (by omega)]
        omega
      · right
        exact ⟨by rw [if_neg h3], Or.inr (by omega)⟩

/-- (i-a): the parent factor -/
theorem Ctx.factorP (c : Ctx par sub res m g mode ts) (i : K) {R C : Nat}
    (hR : R < par.n + sub.inHer.length + lossCount par.spec + lossCount sub.spec)
    (hC : C < par.n + sub.inHer.length + lossCount par.spec + lossCount sub.spec) :
    ((Optic.embedVia (par.n + sub.inHer.length + lossCount par.spec) (par.Ufull i)
        (unbumps (Kk sub mode ts))).pad (lossCount sub.spec)).get
        (tau par sub mode ts R) (tau par sub mode ts C)
      = (Optic.embedVia (par.n + sub.inHer.length + lossCount par.spec + lossCount sub.spec)
          (par.toOptic i).W (invP (par.toOptic i) sub.inHer.length)).get R C := by
  have hN : par.n + sub.inHer.length ≤ par.n + sub.inHer.length + lossCount par.spec + lossCount sub.spec := by
    omega
  have htR := c.tau_lt hN hR
  have htC := c.tau_lt hN hC
  have hP1 := c.pinjK (lossCount par.spec)
  have hδ : (if tau par sub mode ts R = tau par sub mode ts C then (1 : K) else 0) = if R = C then 1 else 0 := by
    by_cases e : R = C
    · rw [if_pos e, if_pos (by rw [e])]
    · rw [if_neg e, if_neg (fun e' => e (c.tau_inj e'))]
  rw [M.get_pad' _ _ (by rw [embedVia_n]; exact htR) (by rw [embedVia_n]; exact htC), embedVia_n]
  rcases c.classP i hR with ⟨R0, hR1, hR2, hR3⟩ | ⟨hR1, hR2⟩
  · have hRa : par.optMode R0 < par.n + lossCount par.spec := optMode_lt' par c.wf (by omega) hR2
    have hRt : tau par sub mode ts R < par.n + sub.inHer.length + lossCount par.spec := by
      rw [hR3]; exact hP1.fwd_lt _ hRa
    rcases c.classP i hC with ⟨C0, hC1, hC2, hC3⟩ | ⟨hC1, hC2⟩
    · have hCa : par.optMode C0 < par.n + lossCount par.spec := optMode_lt' par c.wf (by omega) hC2
      have hCt : tau par sub mode ts C < par.n + sub.inHer.length + lossCount par.spec := by
        rw [hC3]; exact hP1.fwd_lt _ hCa
      rw [if_pos ⟨hRt, hCt⟩, get_embedVia _ _ _ hR hC, hR1, hC1]
      simp only
      rw [hR3, hC3, get_embedVia_fwd hP1 _ hRa hCa, get_toOptic_W i par c.wf hR2 hC2]
    · rw [get_embedVia_none_right _ hR hC hC1, ← hδ]
      rcases hC2 with ⟨hC2, hC3⟩ | hC2
      · rw [if_pos ⟨hRt, hC2⟩, get_embedVia_none_right _ hRt hC2 hC3]
      · rw [if_neg (by omega)]
  · rw [get_embedVia_none_left _ hR hC hR1, ← hδ]
    rcases hR2 with ⟨hR2, hR3⟩ | hR2
    · by_cases hCt : tau par sub mode ts C < par.n + sub.inHer.length + lossCount par.spec
      · rw [if_pos ⟨hR2, hCt⟩, get_embedVia_none_left _ hR2 hCt hR3]
      · rw [if_neg (by omega)]
    · rw [if_neg (by omega)]

/-- forward map of the sub-circuit's modes into the result -/
def phi (sub : Circ K) (par : Circ K) (mode : Nat) (ts : List Nat) (x : Nat) : Nat :=
  winFwd (sub.n + ts.length) mode (par.n + sub.inHer.length + lossCount par.spec) (bumps ts x)

def iota (sub : Circ K) (par : Circ K) (mode : Nat) (ts : List Nat) (r : Nat) : Option Nat :=
  (winInv (sub.n + ts.length) mode (par.n + sub.inHer.length + lossCount par.spec) r).bind (unbumps ts)

theorem Ctx.pinjPhi (c : Ctx par sub res m g mode ts) :
    PInj (sub.n + lossCount sub.spec)
      (par.n + sub.inHer.length + lossCount par.spec + lossCount sub.spec)
      (phi sub par mode ts) (iota sub par mode ts) := by
  have h1 := pinj_bumps sub.n (lossCount sub.spec) ts c.d.ok
  have h2 := pinj_win (sub.n + ts.length) mode (par.n + sub.inHer.length + lossCount par.spec)
    (lossCount sub.spec) (by have := c.pos.fit; omega)
  exact h1.comp h2

theorem Ctx.colM_sub_lt (c : Ctx par sub res m g mode ts) {y : Nat}
    (hy : y < sub.n - sub.inHer.length + sub.inHer.length + lossCount sub.spec) :
    colM sub y < sub.n + lossCount sub.spec := by
  have hle := c.h_le
  have hfl := length_freeOf sub.n _ c.wfs.inNodup c.wfs.inLt
  rw [keys_length] at hfl
  unfold colM
  split
  · rename_i h1
    have l2 : y < (freeOf sub.n sub.inHer.keys).length := by rw [hfl]; exact h1
    rw [List.getD_eq_getElem _ _ l2]
    have := (mem_freeOf.mp (List.getElem_mem l2)).1
    omega
  · split
    · rename_i h1 h2
      have := (c.key_lt (k := y - (sub.n - sub.inHer.length)) (by omega)).2
      omega
    · omega

/-- the sub-circuit's indices that are wired: their position in the result -/
theorem Ctx.someS (c : Ctx par sub res m g mode ts) (i : K) {R y : Nat}
    (hR : R < par.n + sub.inHer.length + lossCount par.spec + lossCount sub.spec)
    (hy : invS (par.toOptic i) (sub.toOptic i).closed m.toNat R = some y) :
    y < sub.n - sub.inHer.length + sub.inHer.length + lossCount sub.spec ∧
    tau par sub mode ts R = phi sub par mode ts (colM sub y) := by
  have hpl := portModes_length par c.wf
  have hpa : (par.toOptic i).p + (par.toOptic i).a = par.n := hpl
  have hxl := toOptic_l i par
  have hsq := closed_q i sub c.wfs
  have hsl := closed_hn_length i sub c.wfs
  have hle := c.h_le
  have hfl := length_freeOf sub.n _ c.wfs.inNodup c.wfs.inLt
  rw [keys_length] at hfl
  have hmq := c.hmq
  have hm1 := c.hm1
  unfold invS at hy
  rw [hpa, hxl, hsq, hsl] at hy
  split at hy
  · -- a free port of the sub-circuit
    rename_i h1
    injection hy with hy; subst hy
    refine ⟨by omega, ?_⟩
    have hj : R - m.toNat < (freeOf sub.n sub.inHer.keys).length := by rw [hfl]; omega
    have hmode : par.portModes[m.toNat] = mode := by rw [← optMode_port par hm1]; exact c.hmode
    obtain ⟨hmj, e⟩ := window par sub mode ts _ c.pos c.d.sorted m.toNat hm1 hmode _ hj
    have hRm : m.toNat + (R - m.toNat) = R := by omega
    have hRp : R < par.portModes.length := by omega
    unfold tau
    rw [if_pos (by omega), optMode_port par hRp]
    have e' : par.portModes[R] = par.portModes[m.toNat + (R - m.toNat)] := by congr 1; omega
    rw [e', e]
    unfold phi colM
    rw [if_pos (by omega), List.getD_eq_getElem _ _ hj]
    have hb := c.pos.b_lt _ (mem_freeOf.mp (List.getElem_mem hj)).1
    unfold winFwd
    rw [if_pos hb]; omega
  · split at hy
    · -- a herald of the sub-circuit
      rename_i h1 h2
      injection hy with hy; subst hy
      refine ⟨by omega, ?_⟩
      unfold tau
      rw [if_neg (by omega), if_pos (by omega)]
      unfold phi colM
      rw [if_neg (by omega), if_pos (by omega)]
      have e : sub.n - sub.inHer.length + (R - par.n) - (sub.n - sub.inHer.length) = R - par.n := by omega
      rw [e]
      have hb := c.pos.b_lt _ (c.key_lt (k := R - par.n) (by omega)).2
      unfold winFwd
      rw [if_pos hb]; omega
    · split at hy
      · -- a loss mode of the sub-circuit
        rename_i h1 h2 h3
        injection hy with hy; subst hy
        refine ⟨by omega, ?_⟩
        unfold tau
        rw [if_neg (by omega), if_neg (by omega)]
        unfold phi colM
        rw [if_neg (by omega), if_neg (by omega)]
        rw [bumps_of_ge sub.n ts c.d.ok _ (by omega)]
        unfold winFwd
        rw [if_neg (by omega)]; omega
      · cases hy

/-- every mode of the sub-circuit is wired -/
theorem Ctx.surjS (c : Ctx par sub res m g mode ts) (i : K) {x0 : Nat}
    (hx : x0 < sub.n + lossCount sub.spec) :
    ∃ R y, R < par.n + sub.inHer.length + lossCount par.spec + lossCount sub.spec ∧
      invS (par.toOptic i) (sub.toOptic i).closed m.toNat R = some y ∧ colM sub y = x0 := by
  have hpl := portModes_length par c.wf
  have hpa : (par.toOptic i).p + (par.toOptic i).a = par.n := hpl
  have hxl := toOptic_l i par
  have hsq := closed_q i sub c.wfs
  have hsl := closed_hn_length i sub c.wfs
  have hle := c.h_le
  have hfl := length_freeOf sub.n _ c.wfs.inNodup c.wfs.inLt
  rw [keys_length] at hfl
  have hmq := c.hmq
  have hm1 := c.hm1
  by_cases h1 : x0 < sub.n
  · by_cases hk : x0 ∈ sub.inHer.keys
    · obtain ⟨k, hk1, hk2⟩ := List.mem_iff_getElem.mp hk
      have hk1' : k < sub.inHer.length := by rwa [keys_length] at hk1
      refine ⟨par.n + k, sub.n - sub.inHer.length + k, by omega, ?_, ?_⟩
      · unfold invS
        rw [hpa, hxl, hsq, hsl, if_neg (by omega), if_pos (by omega)]
        congr 2; omega
      · unfold colM
        rw [if_neg (by omega), if_pos (by omega)]
        have e : sub.n - sub.inHer.length + k - (sub.n - sub.inHer.length) = k := by omega
        rw [e, List.getD_eq_getElem _ _ hk1]
        exact hk2
    · have hf : x0 ∈ freeOf sub.n sub.inHer.keys := mem_freeOf.mpr ⟨h1, hk⟩
      obtain ⟨j, hj1, hj2⟩ := List.mem_iff_getElem.mp hf
      have hj1' : j < sub.n - sub.inHer.length := by rwa [hfl] at hj1
      refine ⟨m.toNat + j, j, by omega, ?_, ?_⟩
      · unfold invS
        rw [hsq, if_pos (by omega)]
        congr 1; omega
      · unfold colM
        rw [if_pos hj1', List.getD_eq_getElem _ _ hj1]
        exact hj2
  · refine ⟨par.n + sub.inHer.length + lossCount par.spec + (x0 - sub.n),
      sub.n - sub.inHer.length + sub.inHer.length + (x0 - sub.n), by omega, ?_, ?_⟩
    · unfold invS
      rw [hpa, hxl, hsq, hsl, if_neg (by omega), if_neg (by omega), if_pos (by omega)]
      congr 2; omega
    · unfold colM
      rw [if_neg (by omega), if_neg (by omega)]
      omega

/-- the indices that are not wired to the sub-circuit lie outside its image -/
theorem Ctx.noneS (c : Ctx par sub res m g mode ts) (i : K) {R : Nat}
    (hR : R < par.n + sub.inHer.length + lossCount par.spec + lossCount sub.spec)
    (hy : invS (par.toOptic i) (sub.toOptic i).closed m.toNat R = none) :
    iota sub par mode ts (tau par sub mode ts R) = none := by
  have hN : par.n + sub.inHer.length ≤ par.n + sub.inHer.length + lossCount par.spec + lossCount sub.spec := by
    omega
  cases hi : iota sub par mode ts (tau par sub mode ts R) with
  | none => rfl
  | some x0 =>
    exfalso
    obtain ⟨hx0, e⟩ := c.pinjPhi.inv_some _ x0 (c.tau_lt hN hR) hi
    obtain ⟨R', y', hR', hy', hc⟩ := c.surjS i hx0
    obtain ⟨-, e'⟩ := c.someS i hR' hy'
    rw [hc, e] at e'
    have := c.tau_inj e'
    subst this
    rw [hy] at hy'
    cases hy'

/-- (i-b): the sub-circuit factor -/
theorem Ctx.factorS (c : Ctx par sub res m g mode ts) (i : K) {R C : Nat}
    (hR : R < par.n + sub.inHer.length + lossCount par.spec + lossCount sub.spec)
    (hC : C < par.n + sub.inHer.length + lossCount par.spec + lossCount sub.spec) :
    (Optic.embedVia (par.n + sub.inHer.length + lossCount par.spec + lossCount sub.spec)
        (Optic.embedVia (sub.n + ts.length + lossCount sub.spec)
          (compile i sub.n (swapSpec (pick sub g).1)) (unbumps ts))
        (winInv (sub.n + ts.length) mode (par.n + sub.inHer.length + lossCount par.spec))).get
        (tau par sub mode ts R) (tau par sub mode ts C)
      = (Optic.embedVia (par.n + sub.inHer.length + lossCount par.spec + lossCount sub.spec)
          (sub.toOptic i).closed.W (invS (par.toOptic i) (sub.toOptic i).closed m.toNat)).get R C := by
  have hN : par.n + sub.inHer.length ≤ par.n + sub.inHer.length + lossCount par.spec + lossCount sub.spec := by
    omega
  have htR := c.tau_lt hN hR
  have htC := c.tau_lt hN hC
  have hPφ := c.pinjPhi
  have hwin := pinj_win (sub.n + ts.length) mode (par.n + sub.inHer.length + lossCount par.spec)
    (lossCount sub.spec) (by have := c.pos.fit; omega)
  have hδ : (if tau par sub mode ts R = tau par sub mode ts C then (1 : K) else 0) = if R = C then 1 else 0 := by
    by_cases e : R = C
    · rw [if_pos e, if_pos (by rw [e])]
    · rw [if_neg e, if_neg (fun e' => e (c.tau_inj e'))]
  rw [embedVia_comp (f1 := bumps ts) hwin]
  show (Optic.embedVia _ _ (iota sub par mode ts)).get _ _ = _
  cases hyR : invS (par.toOptic i) (sub.toOptic i).closed m.toNat R with
  | none =>
    rw [get_embedVia_none_left _ hR hC hyR, get_embedVia_none_left _ htR htC (c.noneS i hR hyR), hδ]
  | some y1 =>
    obtain ⟨hy1, e1⟩ := c.someS i hR hyR
    cases hyC : invS (par.toOptic i) (sub.toOptic i).closed m.toNat C with
    | none =>
      rw [get_embedVia_none_right _ hR hC hyC, get_embedVia_none_right _ htR htC (c.noneS i hC hyC), hδ]
    | some y2 =>
      obtain ⟨hy2, e2⟩ := c.someS i hC hyC
      have hc1 := c.colM_sub_lt hy1
      have hc2 := c.colM_sub_lt hy2
      rw [get_embedVia _ _ _ hR hC, hyR, hyC]
      simp only
      rw [e1, e2, get_embedVia_fwd hPφ _ hc1 hc2]
      -- the swap
      obtain ⟨pn, pin, pout, pl, pc⟩ := pick_facts i sub g
      have pwf : (pick sub g).1.WF := by
        unfold pick; simp only; split
        · exact LW.Proofs.Reach.unpackGroups_WF sub c.wfs
        · exact c.wfs
      obtain ⟨ginv, hperm, hget⟩ := get_compile_swapSpec i (pick sub g).1 pwf
        (r := colM sub y1) (k := colM sub y2) (by rw [pn, pl]; exact hc1) (by rw [pn, pl]; exact hc2)
      rw [pn, pc] at hget
      rw [pn, pin, pout] at hperm
      rw [hget]
      have hsw := swap_row_col sub c.wfs hy1
      have hg : ginv (colM sub y1) = rowM sub y1 := by
        rw [← hsw]; exact hperm.left _
      rw [hg, closed_toOptic i sub c.wfs]
      simp only
      rw [M.get_ofFn _ hy1 hy2]
      rfl

end

/-! ### the theorem -/

theorem lossCount_res {par sub res : Circ K} {m : Int} {g : Bool} {mode : Nat} {ts : List Nat}
    (d : AddData par sub res m g mode ts) : lossCount res.spec = lossCount par.spec + lossCount sub.spec := by
  rw [← lossN_flatten, d.flat]
  unfold lossN
  rw [List.filter_append, List.length_append]
  show lossN _ + lossN _ = _
  rw [lossN_flatten, lossN_flatten, lossCount_specIns]
  congr 1
  have : lossCount ((specIns ts (swapSpec (pick sub g).1)).map (Comp.shift mode))
      = lossCount (specIns ts (swapSpec (pick sub g).1)) := by
    rw [← lossN_flatten, ← lossN_flatten, flatten_shift]
    unfold lossN
    rw [List.filter_map, List.length_map]
    congr 1
    apply List.filter_congr
    intro p _
    cases p <;> rfl
  rw [this, lossCount_specIns, lossCount_swapSpec]
  unfold pick
  simp only
  split
  · exact lossCount_unpack _
  · rfl

theorem sem_add (i : K) (self sub self' : Circ K) (hs : Reach self) (hsub : Reach sub)
    (m : Int) (g : Bool) (h : self.add sub m g = .ok self') :
    (self'.toOptic i).closed = ((self.toOptic i).compose (sub.toOptic i).closed m.toNat).closed := by
  have inv := LW.Proofs.Reach.reach_inv self hs
  have invs := LW.Proofs.Reach.reach_inv sub hsub
  have inv' := LW.Proofs.Reach.reach_inv self' (Reach.add m g hs hsub h)
  have hwf := inv.wf
  have hwfs := invs.wf
  obtain ⟨mode, ts, d⟩ := add_data self sub self' hwf hwfs m g h
  have pos := addPos self sub self' m g mode ts d hwfs
  obtain ⟨hm0, hm1, hmode, -, -⟩ := mapped_port self hwf d.hmode
  have hrej := add_rejects self sub hwf hwfs m g
  have hcond : ¬ (m < 0 ∨ (self.ports : Int) < m + ((sub.n - sub.inHer.length : Nat) : Int)) := by
    intro hc
    rw [hrej hc] at h
    cases h
  have hP := portModes_length_eq_ports self hwf
  have c : Ctx self sub self' m g mode ts :=
    ⟨hwf, hwfs, inv'.wf, d, pos, hm0, by omega, hmode.symm, by omega⟩
  -- the sub-circuit's swap spec is well formed
  obtain ⟨pwf, pws, pgs⟩ := LW.Proofs.Reach.pick_ok sub g hwfs invs.spec invs.grp
  have hwsub := (LW.Proofs.Reach.swapSpec_ok _ pwf pws pgs).1
  rw [(pick_props sub g).1] at hwsub
  have hU := Ufull_add i self sub self' m g mode ts d hwfs inv.spec hwsub
  -- both closed forms
  rw [closed_toOptic i self' inv'.wf, closed_eq]
  have hxle := c.hx_le
  have hfi := freeIn_length i self hwf
  have hhl := her_length i self hwf
  have hsl := closed_hn_length i sub hwfs
  have hq : self'.n - self'.inHer.length = self.n - self.inHer.length := by
    rw [d.n_eq, c.res_inLen]; omega
  have hl := lossCount_res d
  rw [compose_freeIn, compose_her_length, compose_her_n, compose_l, hfi, hhl, hsl, hq, c.res_inLen, hl,
    her_map_n i self hwf, toOptic_l]
  have hsn : (sub.toOptic i).closed.hn = sub.inHer.map (·.2) := by rw [closed_toOptic i sub hwfs]
  have hsl2 : (sub.toOptic i).closed.l = lossCount sub.spec := by rw [closed_toOptic i sub hwfs]
  have hhn : self'.inHer.map (·.2) = self.inHer.map (·.2) ++ sub.inHer.map (·.2) := by
    rw [d.inHer, List.map_append]
    simp [Dict.mapKeys, Function.comp_def]
  rw [hsn, hsl2, hhn]
  congr 1
  apply M.ofFn_congr
  intro r k hr hk
  obtain ⟨r1, r2⟩ := c.row_corr i hr
  obtain ⟨k1, k2⟩ := c.col_corr i hk
  rw [r1, k1, hU, compose_W]
  -- both sides are products over the same index space
  have hpl := portModes_length self hwf
  have hD : (self.toOptic i).p + (self.toOptic i).a + (sub.toOptic i).closed.hn.length
      + (self.toOptic i).l + (sub.toOptic i).closed.l
      = self.n + sub.inHer.length + lossCount self.spec + lossCount sub.spec := by
    rw [hsl, toOptic_l, hsl2]
    show self.portModes.length + self.internal.length + _ + _ + _ = _
    rw [hpl]
  rw [hD, hsl]
  have hN : self.n + sub.inHer.length ≤ self.n + sub.inHer.length + lossCount self.spec + lossCount sub.spec := by
    omega
  rw [M.get_mul _ _ (by rw [embedVia_n]; exact c.tau_lt hN r2) (by rw [embedVia_n]; exact c.tau_lt hN k2),
    M.get_mul _ _ (by rw [embedVia_n]; exact r2) (by rw [embedVia_n]; exact k2), embedVia_n, embedVia_n,
    c.sum_tau _ hN]
  apply Finset.sum_congr rfl
  intro x hx
  have hx' := Finset.mem_range.mp hx
  rw [c.factorS i r2 hx', c.factorP i hx' k2]

end LW.Proofs.C02Sem
