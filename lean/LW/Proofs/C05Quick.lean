/-
  C05 helper: the QuickSampler's distribution (`quickDist`).
-/
import LW.Model.Analysis
import LW.Proofs.C05Aux

namespace LW.Proofs.C05
open LW

set_option linter.unusedSectionVars false
set_option linter.unusedVariables false

variable {K Q : Type} [CommRing K] [Field Q] [LinearOrder Q] [IsStrictOrderedRing Q]

/-- normalising a non-empty list of positive weights -/
theorem normalise_spec {α : Type} (F : List α) (p : α → Q) (hF : F ≠ []) (hp : ∀ o ∈ F, 0 < p o)
    (d : List (α × Q))
    (hd : d = (F.map fun o => (o, p o)).map fun x =>
      (x.1, x.2 / sumQ ((F.map fun o => (o, p o)).map (·.2)))) :
    d.map (·.1) = F ∧ (∀ x ∈ d, x.2 = p x.1 / (F.map p).sum) ∧ (d.map (·.2)).sum = 1 := by
  have htot : sumQ ((F.map fun o => (o, p o)).map (·.2)) = (F.map p).sum := by
    rw [sumQ_eq_sum, List.map_map]
    rfl
  rw [htot, List.map_map] at hd
  have hpos : 0 < (F.map p).sum := by
    apply List.sum_pos
    · intro x hx
      obtain ⟨o, ho, rfl⟩ := List.mem_map.1 hx
      exact hp o ho
    · simpa using hF
  subst hd
  refine ⟨?_, ?_, ?_⟩
  · rw [List.map_map]
    exact List.map_id' F
  · intro x hx
    obtain ⟨o, _, rfl⟩ := List.mem_map.1 hx
    rfl
  · rw [List.map_map]
    have : ((fun x : α × Q => x.2) ∘ ((fun x : α × Q => (x.1, x.2 / (F.map p).sum)) ∘
        fun o => (o, p o))) = fun o => p o * ((F.map p).sum)⁻¹ := by
      funext o
      simp only [Function.comp_apply, div_eq_mul_inv]
    rw [this, List.sum_map_mul_right]
    exact mul_inv_cancel₀ (ne_of_gt hpos)

theorem quickDist_spec (i : K) (nsq : K → Q) (eps : Q) (heps : 0 ≤ eps) (c : Circ K) (rules : List Rule)
    (pnr : Bool) (input : FState) (d : PDist Q) (h : quickDist i nsq eps c rules pnr input = .ok d) :
    let U := c.Ufull i
    let z := List.replicate (U.n - c.n) 0
    let p := fun (o : FState) => transProb nsq U (addHeralds input c.inHer ++ z) (addHeralds o c.outHer ++ z)
    let acc := ((fockBasis input.length (photons input)).filter fun o =>
                  (pnr || o.all (· ≤ 1)) && psValidate rules o && decide (eps < p o))
    d.map (·.1) = acc ∧
    (∀ x ∈ d, x.2 = p x.1 / (acc.map p).sum) ∧
    (d.map (·.2)).sum = 1 := by
  intro U z p acc
  unfold quickDist at h
  simp only [bind, Except.bind, throw, throwThe, MonadExceptOf.throw, pure, Except.pure] at h
  split at h
  · cases h
  · rw [foldl_append_if (fun o => eps < p o) (fun o => (o, p o)), List.nil_append] at h
    have hacc : (List.filter (psValidate rules)
          (if pnr = true then fockBasis input.length (photons input)
          else List.filter (fun s => s.all fun x => decide (x ≤ 1))
            (fockBasis input.length (photons input)))).filter (fun o => eps < p o) = acc := by
      cases pnr with
      | true =>
        rw [if_pos rfl, List.filter_filter]
        apply List.filter_congr
        intro o _
        simp [Bool.and_comm]
      | false =>
        rw [if_neg (by simp), List.filter_filter, List.filter_filter]
        apply List.filter_congr
        intro o _
        simp only [Bool.false_or]
        ac_rfl
    rw [hacc] at h
    generalize List.filter (psValidate rules)
          (if pnr = true then fockBasis input.length (photons input)
          else List.filter (fun s => s.all fun x => decide (x ≤ 1))
            (fockBasis input.length (photons input))) = outs at h
    split at h
    · cases h
    · split at h
      · cases h
      · rename_i hne
        apply normalise_spec acc p
        · intro he
          apply hne
          rw [he]; rfl
        · intro o ho
          have := (List.mem_filter.1 ho).2
          simp only [Bool.and_eq_true, decide_eq_true_eq] at this
          exact lt_of_le_of_lt heps this.2
        · cases h; rfl

end LW.Proofs.C05
