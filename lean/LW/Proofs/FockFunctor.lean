/-
  LW.Proofs.FockFunctor — Cauchy–Binet for permanents (`Φ(U·V) = Φ(U)·Φ(V)` on Fock space):
  * `permanent_mul_expand`     first-quantised expansion of `perm((U*V)[x|y])`
  * `sum_permanent_mul_permanent`  division-free form, summing over all intermediate functions
  * `permanent_mul_occ`        sum over intermediate occupations, weights `1/∏ w_z!`
  * `ampNum_mul`               the model-level statement for `M.mul`
-/
import LW.Proofs.FockIso

open Equiv Finset

namespace LW.Proofs.FockIso

set_option linter.unusedSectionVars false

section Pure

variable {n N : Type*} [Fintype n] [DecidableEq n] [Fintype N] [DecidableEq N]
variable {R : Type*} [CommSemiring R]

/-- first half of Cauchy–Binet for permanents -/
theorem permanent_mul_expand_aux (A : Matrix n N R) (B : Matrix N n R) :
    (A * B).permanent =
      ∑ f : n → N, (∏ k, A k (f k)) * (Matrix.of fun r c => B (f r) c).permanent := by
  classical
  simp only [Matrix.permanent, Matrix.mul_apply, Matrix.of_apply]
  have h1 : ∀ σ : Perm n, ∏ i, ∑ z, A (σ i) z * B z i
      = ∑ f : n → N, ∏ i, A (σ i) (f i) * B (f i) i := by
    intro σ
    rw [Finset.prod_univ_sum]
    simp [Fintype.piFinset_univ]
  simp_rw [h1]
  rw [Finset.sum_comm]
  have h2 : ∀ σ : Perm n, ∑ f : n → N, ∏ i, A (σ i) (f i) * B (f i) i
      = ∑ f : n → N, (∏ k, A k (f k)) * ∏ i, B (f (σ i)) i := by
    intro σ
    rw [← (Equiv.arrowCongr σ.symm (Equiv.refl N)).sum_comp]
    apply Finset.sum_congr rfl
    intro f _
    simp only [Equiv.arrowCongr_apply, Equiv.refl_apply, Function.comp_apply, Equiv.symm_symm,
      Finset.prod_mul_distrib]
    congr 1
    exact Equiv.prod_comp σ (fun k => A k (f k))
  rw [Finset.sum_comm]
  simp_rw [h2]
  rw [Finset.sum_comm]
  simp_rw [Finset.mul_sum]

/-- `perm((U*V)[x|y]) = Σ_f (∏_k U[x k, f k]) · perm(V[f|y])` -/
theorem permanent_mul_expand (U V : Matrix N N R) (x y : n → N) :
    ((U * V).submatrix x y).permanent =
      ∑ f : n → N, (∏ k, U (x k) (f k)) * (V.submatrix f y).permanent := by
  rw [Matrix.submatrix_mul U V x id y Function.bijective_id, permanent_mul_expand_aux]
  rfl

/-- the permanent of `V[f|y]` only depends on the occupation of `f` -/
theorem permanent_submatrix_congr_occ (V : Matrix N N R) (y : n → N) {f g : n → N}
    (h : occ f = occ g) : (V.submatrix f y).permanent = (V.submatrix g y).permanent := by
  rw [permanent_eq_fibre, permanent_eq_fibre, h]

/-- `perm(U[x|f])` as a multiple of the sum of `∏_k U[x k, f' k]` over the occupation class -/
theorem permanent_eq_fibre_cols (U : Matrix N N R) (x f : n → N) :
    (U.submatrix x f).permanent =
      (∏ z, (occ f z).factorial : ℕ) •
        ∑ f' ∈ univ.filter (fun f' : n → N => occ f' = occ f), ∏ k, U (x k) (f' k) := by
  rw [← Matrix.permanent_transpose, Matrix.transpose_submatrix, permanent_eq_fibre]
  rfl

/-- division-free Cauchy–Binet: summing over all intermediate index functions over-counts by
`n!` -/
theorem sum_permanent_mul_permanent (U V : Matrix N N R) (x y : n → N) :
    ∑ f : n → N, (U.submatrix x f).permanent * (V.submatrix f y).permanent =
      (Fintype.card n).factorial • ((U * V).submatrix x y).permanent := by
  have h : ∀ σ : Perm n, ∑ f : n → N, (∏ k, U (x k) (f (σ k))) * (V.submatrix f y).permanent =
      ((U * V).submatrix x y).permanent := by
    intro σ
    rw [permanent_mul_expand]
    refine Fintype.sum_equiv (Equiv.arrowCongr σ.symm (Equiv.refl N)) _ _ fun f => ?_
    have e : (Equiv.arrowCongr σ.symm (Equiv.refl N)) f = f ∘ σ := by
      funext k; simp [Equiv.arrowCongr_apply]
    rw [e, permanent_submatrix_congr_occ V y (occ_comp_perm f σ)]
    rfl
  have h2 : ∀ f : n → N, (U.submatrix x f).permanent =
      ∑ σ : Perm n, ∏ k, U (x k) (f (σ k)) := by
    intro f
    rw [← Matrix.permanent_transpose]
    simp [Matrix.permanent]
  simp_rw [h2, Finset.sum_mul]
  rw [Finset.sum_comm]
  simp_rw [h]
  rw [Finset.sum_const, Finset.card_univ, Fintype.card_perm]

end Pure

section Field

variable {n N : Type*} [Fintype n] [DecidableEq n] [Fintype N] [DecidableEq N]
variable {K : Type*} [Field K] [CharZero K]

/-- Cauchy–Binet for permanents, summed over intermediate occupations: `T` is any finite set of
occupations containing all occupations of functions `n → N`, and `G w` is
`perm U[x|f] · perm V[f|y] / ∏ w!` for some `f` of occupation `w` -/
theorem permanent_mul_occ (U V : Matrix N N K) (x y : n → N)
    (T : Finset (N → ℕ)) (hT : ∀ f : n → N, occ f ∈ T) (G : (N → ℕ) → K)
    (hG : ∀ w ∈ T, ∃ f : n → N, occ f = w ∧
      G w = (U.submatrix x f).permanent * (V.submatrix f y).permanent /
        ((∏ z, (w z).factorial : ℕ) : K)) :
    ((U * V).submatrix x y).permanent = ∑ w ∈ T, G w := by
  classical
  rw [permanent_mul_expand,
    ← Finset.sum_fiberwise_of_maps_to (g := fun f : n → N => occ f) (t := T) (fun f _ => hT f)]
  apply Finset.sum_congr rfl
  intro w hw
  obtain ⟨f0, hf0, hGw⟩ := hG w hw
  have hwf : (((∏ z, (w z).factorial : ℕ)) : K) ≠ 0 :=
    Nat.cast_ne_zero.mpr (Finset.prod_ne_zero_iff.mpr fun z _ => Nat.factorial_ne_zero _)
  rw [Finset.sum_congr rfl (g := fun f => (∏ k, U (x k) (f k)) * (V.submatrix f0 y).permanent)]
  · rw [hGw, permanent_eq_fibre_cols U x f0, hf0, nsmul_eq_mul, ← Finset.sum_mul]
    field_simp
  · intro f hf
    simp only [Finset.mem_filter, Finset.mem_univ, true_and] at hf
    rw [permanent_submatrix_congr_occ V y (hf.trans hf0.symm)]

end Field

/-! ### the model-level statement -/

variable {K : Type}

theorem toMat_mul [CommRing K] (U V : M K) (h : V.n = U.n) :
    (U.mul V).toMat = U.toMat * (V.toMat.submatrix (Fin.cast h.symm) (Fin.cast h.symm)) := by
  funext r c
  have hr : r.val < U.n := r.2
  have hc : c.val < U.n := c.2
  show (U.mul V).get r c = ∑ j : Fin U.n, U.get r j * V.get j c
  rw [M.get_mul _ _ hr hc, Finset.sum_range]

/-- FOCK FUNCTOR: the amplitude numerators of a product are the (occupation-weighted) matrix
product of the amplitude numerators -/
theorem ampNum_mul [Field K] [CharZero K] (U V : M K) (hV : V.n = U.n) (hN : 0 < U.n)
    (s t : FState) (hs : s.length = U.n) (ht : t.length = U.n) (hp : photons t = photons s) :
    ampNum (U.mul V) s t =
      ((fockBasis U.n (photons s)).map fun w =>
        ampNum U w t * ampNum V s w / ((factProd w : Nat) : K)).sum := by
  classical
  rw [← List.sum_toFinset _ (fockBasis_nodup _ _)]
  have hmem : ∀ t, t ∈ (fockBasis U.n (photons s)).toFinset ↔
      t.length = U.n ∧ photons t = photons s := fun t => by
    rw [List.mem_toFinset, fockBasis_complete _ _ hN]
  set F : FState → K := fun w => ampNum U w t * ampNum V s w / ((factProd w : Nat) : K) with hF
  have hinj : Set.InjOn (toW U.n) ((fockBasis U.n (photons s)).toFinset : Set FState) := by
    intro t1 h1 t2 h2 h
    rw [← ofFn_toW t1 ((hmem t1).mp h1).1, ← ofFn_toW t2 ((hmem t2).mp h2).1, h]
  have key := permanent_mul_occ U.toMat (V.toMat.submatrix (Fin.cast hV.symm) (Fin.cast hV.symm))
    (stateFn t ht hp) (stateFn s hs rfl)
    ((fockBasis U.n (photons s)).toFinset.image (toW U.n)) ?_ (fun w => F (List.ofFn w)) ?_
  · rw [Finset.sum_image hinj] at key
    have h0 := ampNum_eq (U.mul V) s t hs rfl ht hp
    rw [toMat_mul U V hV] at h0
    rw [h0]
    refine key.trans ?_
    apply Finset.sum_congr rfl
    intro w hw
    rw [ofFn_toW w ((hmem w).mp hw).1]
  · intro f
    refine Finset.mem_image.mpr ⟨List.ofFn (occ f), (hmem _).mpr ⟨by simp, ?_⟩, toW_ofFn _⟩
    rw [photons_eq_sum, List.sum_ofFn, sum_occ, Fintype.card_fin]
  · intro w' hw'
    obtain ⟨w, hw, rfl⟩ := Finset.mem_image.mp hw'
    obtain ⟨hwl, hwp⟩ := (hmem w).mp hw
    refine ⟨stateFn w hwl hwp, occ_stateFn w hwl hwp, ?_⟩
    simp only [ofFn_toW w hwl, hF]
    rw [ampNum_eq U w t hwl hwp ht hp, ← factProd_eq_prod w hwl]
    congr 2
    have := ampNum_eq V s w (hs.trans hV.symm) rfl (hwl.trans hV.symm) hwp
    rw [this]
    rfl

end LW.Proofs.FockIso
