/-
  LW.Proofs.C18 — collects the proof modules of property C18.
-/
import LW.Proofs.C18State
import LW.Proofs.C18Str
import LW.Proofs.C18Annot
import LW.Proofs.C18Alias
import LW.Proofs.C18Herald
import LW.Proofs.C18Misc
