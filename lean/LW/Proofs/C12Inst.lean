/-
  LW.Proofs.C12Inst — the body of `convert_correct_statement` decided by the kernel on two concrete
  circuits over the exact towers (instances of the unproved amplitude-level clause).
-/
import LW.Model.QConvertSem
import LW.Model.GateTowers

namespace LW.QC

open LW.Gates LW.QF

section
variable {K : Type} [Add K] [Mul K] [Neg K] [Zero K] [One K] [Eqv K]

/-- executable body of `convert_correct_statement` for one circuit, one mode and a given scalar -/
def convertCorrectB (c : GC K) (par : Nat → K × K) (aps : Bool) (nq : Nat) (gs : List Instr) (k : K) : Bool :=
  match convert aps true nq gs with
  | .error _ => false
  | .ok o =>
    match buildCirc c par nq o.plan with
    | .error _ => false
    | .ok circ =>
      (circ.n - circ.inHer.length == 2 * nq) &&
      (bitStrings nq).all fun ib => (fockStates (2 * nq) nq).all fun out =>
        !accepted o.psQubits out ||
        Eqv.eqv (gateAmp c.i circ (dualRail ib) out)
          (if isDualRail out then k * idealRun c par 0 gs (delta ib) (unDualRail out) else 0)
end

/-- `h(0); cx(0,1); cx(2,1)` with post-selection allowed (both `cx` post-selected): scalar 1/9 -/
theorem convert_correct_instance_ps :
    convertCorrectB cCZ (fun _ => (0, 0)) true 3 [⟨"h", [0]⟩, ⟨"cx", [0, 1]⟩, ⟨"cx", [2, 1]⟩]
      (TCZ.ofT2 (T2.ofS ⟨4, 2⟩)) = true := by decide +kernel

/-- `h(0); cx(1,0)` heralded-only: scalar 1/4, all ten two-photon outputs covered -/
theorem convert_correct_instance_heralded :
    convertCorrectB cCZH (fun _ => (0, 0)) false 2 [⟨"h", [0]⟩, ⟨"cx", [1, 0]⟩]
      (TCZH.ofT2 (T2.ofS ⟨9, 2⟩)) = true := by decide +kernel

end LW.QC
