/-
  LW.Proofs.C12FullPlan — the circuit assembled from a plan of placements (`buildCirc`): every
  well-placed plan builds, the result keeps the invariant `HerInv` (heralds = ancillas appended in
  order), its herald photon numbers are those of the placements in order, and its substitution
  homomorphism is the composition of the placed homomorphisms (`planHom`).
-/
import LW.Proofs.C12FullConj
import LW.Proofs.C12FullSem

open MvPolynomial

namespace LW.C12F

open LW LW.QC LW.Gates LW.QF LW.Proofs.C02Sem

variable {R : Type} [CommRing R] [StarRing R]

/-- herald photon numbers of a placement -/
def placedHer : Placed → List ℕ
  | .two _ ps _ _ => if ps then [0, 0] else [0, 1, 1, 0]
  | .three _ _ _ => [0, 0, 0, 0]
  | _ => []

/-- number of ports of the sub-circuit of a placement -/
def placedQ : Placed → ℕ
  | .single _ _ _ => 2
  | .swap a b => 2 * max a b + 2
  | .two _ _ _ _ => 4
  | .three _ _ _ => 6

/-- user mode the placement is added on -/
def placedMode : Placed → ℕ
  | .single _ _ m => m
  | .swap _ _ => 0
  | .two _ _ _ m => m
  | .three _ _ m => m

/-- the explicit sub-circuit of a placement -/
def placedSub (c : GC R) (par : ℕ → R × R) : Placed → Circ R
  | .single name idx _ => sqCirc c (sqOfName name (par idx))
  | .swap a b => swapCirc R a b
  | .two cx ps t _ => twoCirc c cx ps t
  | .three ccx t _ => threeCirc c ccx t

/-- homomorphism of a placement whose heralds start at mode `P` -/
noncomputable def placedHom (c : GC R) (par : ℕ → R × R) (p : Placed) (P : ℕ) : Hom R :=
  placeHomG (circHom c.i (placedSub c par p)) (fwdS (placedMode p) (placedQ p) P)
    (invS' (placedMode p) (placedQ p) P) (P + (placedHer p).length)

noncomputable def planHom (c : GC R) (par : ℕ → R × R) : List Placed → ℕ → Hom R
  | [], _ => AlgHom.id R _
  | p :: ps, P => (planHom c par ps (P + (placedHer p).length)).comp (placedHom c par p P)

def planHer : List Placed → List ℕ
  | [] => []
  | p :: ps => placedHer p ++ planHer ps

/-- the placement fits on `nq` qubits -/
def PlacedOk (nq : ℕ) : Placed → Prop
  | .single _ _ m => m + 2 ≤ 2 * nq
  | .swap a b => a ≠ b ∧ a < nq ∧ b < nq
  | .two cx _ t m => t < 2 ∧ (cx = false → t = 0) ∧ m + 4 ≤ 2 * nq
  | .three ccx t m => t < 3 ∧ (ccx = false → t = 0) ∧ m + 6 ≤ 2 * nq

theorem planHom_append (c : GC R) (par : ℕ → R × R) (p1 p2 : List Placed) (P : ℕ) :
    planHom c par (p1 ++ p2) P =
      (planHom c par p2 (P + (planHer p1).length)).comp (planHom c par p1 P) := by
  induction p1 generalizing P with
  | nil => simp [planHom, planHer]
  | cons p ps ih =>
    simp only [List.cons_append, planHom, planHer, List.length_append]
    rw [ih, AlgHom.comp_assoc, Nat.add_assoc]

theorem planHer_append (p1 p2 : List Placed) : planHer (p1 ++ p2) = planHer p1 ++ planHer p2 := by
  induction p1 with
  | nil => rfl
  | cons p ps ih => simp [planHer, ih]

theorem placed_ok (c : GC R) (par : ℕ → R × R) (nq : ℕ) (p : Placed) (h : PlacedOk nq p) :
    placedCircK c par p = .ok (placedSub c par p, (placedMode p : Int)) ∧
      SubOk (placedSub c par p) (placedQ p) (placedHer p) ∧ placedMode p + placedQ p ≤ 2 * nq ∧
      0 < placedQ p := by
  cases p with
  | single name idx m =>
    exact ⟨placed_single c par name idx m, subOk_sq c _, h, Nat.zero_lt_succ _⟩
  | swap a b =>
    obtain ⟨hab, ha, hb⟩ := h
    refine ⟨placed_swap c par a b hab, subOk_swap a b hab, ?_, ?_⟩
    · show 0 + (2 * max a b + 2) ≤ 2 * nq
      omega
    · show 0 < 2 * max a b + 2
      omega
  | two cx ps t m =>
    obtain ⟨ht, hcz, hm⟩ := h
    exact ⟨placed_two c par cx ps t m ht hcz, subOk_two c cx ps t ht, hm, Nat.zero_lt_succ _⟩
  | three ccx t m =>
    obtain ⟨ht, hcz, hm⟩ := h
    exact ⟨placed_three c par ccx t m ht hcz, subOk_three c ccx t ht, hm, Nat.zero_lt_succ _⟩

/-- one step of `buildCirc` -/
theorem add_placed (c : GC R) (par : ℕ → R × R) (nq : ℕ) (self : Circ R) (hs : HerInv self)
    (hok : SpecOk self.n self.spec) (hq : self.n - self.inHer.length = 2 * nq) (p : Placed)
    (hp : PlacedOk nq p) :
    ∃ self', (do
        let (g, mode) ← placedCircK c par p
        self.add g mode false) = .ok self' ∧
      HerInv self' ∧ SpecOk self'.n self'.spec ∧ self'.n - self'.inHer.length = 2 * nq ∧
      self'.inHer.map (·.2) = self.inHer.map (·.2) ++ placedHer p ∧
      self'.n = self.n + (placedHer p).length ∧
      circHom c.i self' = (placedHom c par p self.n).comp (circHom c.i self) := by
  obtain ⟨hpc, hsub, hfit, hpos⟩ := placed_ok c par nq p hp
  have hil : self.internal.length = self.inHer.length := by
    rw [← hs.keys, keys_length]
  obtain ⟨self', hadd⟩ := add_succeeds self (placedSub c par p) hs.wf hsub.wf (placedMode p) false
    (by rw [hsub.ports, hil, hq]; exact hfit) (by rw [hsub.ports]; exact hpos)
  obtain ⟨hinv', hn', hher'⟩ := add_herInv self (placedSub c par p) self' hs hsub.wf hsub.io
    hsub.sorted hsub.loss _ false hadd
  have hhom := circHom_add c.i self (placedSub c par p) self' hs hok hsub.wf hsub.ok hsub.io
    hsub.sorted hsub.loss (placedMode p) false hadd
  rw [hsub.her] at hher'
  have hlen : self'.inHer.length = self.inHer.length + (placedHer p).length := by
    have := congrArg List.length hher'
    simpa using this
  have hle' := her_length_le hinv'.wf.inNodup hinv'.wf.inLt
  have hle := her_length_le hs.wf.inNodup hs.wf.inLt
  have hnn : self'.n = self.n + (placedHer p).length := by omega
  refine ⟨self', ?_, hinv', add_specOk self _ self' hs.wf hsub.wf hok hsub.ok _ false hadd,
    by rw [hn', hq], hher', hnn, ?_⟩
  · rw [hpc]
    exact hadd
  · rw [hhom]
    unfold placedHom
    rw [hsub.ports, ← congrArg List.length hsub.her, List.length_map]

/-- `buildCirc` from any circuit satisfying the invariant -/
theorem plan_fold (c : GC R) (par : ℕ → R × R) (nq : ℕ) (plan : List Placed)
    (hplan : ∀ p ∈ plan, PlacedOk nq p) :
    ∀ (self : Circ R), HerInv self → SpecOk self.n self.spec →
      self.n - self.inHer.length = 2 * nq →
      ∃ circ, plan.foldlM (fun (circ : Circ R) p => do
          let (g, mode) ← placedCircK c par p
          circ.add g mode false) self = .ok circ ∧
        HerInv circ ∧ circ.n - circ.inHer.length = 2 * nq ∧
        circ.inHer.map (·.2) = self.inHer.map (·.2) ++ planHer plan ∧
        circHom c.i circ = (planHom c par plan self.n).comp (circHom c.i self) := by
  induction plan with
  | nil =>
    intro self hs _ hq
    exact ⟨self, rfl, hs, hq, by simp [planHer], by simp [planHom]⟩
  | cons p ps ih =>
    intro self hs hok hq
    obtain ⟨self', hstep, hs', hok', hq', hher', hn', hhom'⟩ :=
      add_placed c par nq self hs hok hq p (hplan p List.mem_cons_self)
    obtain ⟨circ, hfold, hc, hcq, hcher, hchom⟩ :=
      ih (fun q hq => hplan q (List.mem_cons_of_mem _ hq)) self' hs' hok' hq'
    refine ⟨circ, ?_, hc, hcq, ?_, ?_⟩
    · rw [List.foldlM_cons, hstep]
      exact hfold
    · rw [hcher, hher', planHer, List.append_assoc]
    · rw [hchom, hhom', hn', planHom, AlgHom.comp_assoc]

end LW.C12F
