/-
  LW.Proofs.C12FullMainDefs — shared definitions for the main induction of `convert_correct`:
  the interface `SubOk` of the explicit sub-circuits, the index maps of an instruction
  (`fwdQ` / `invQ`: sub-circuit ports ↦ the modes of the instruction's qubits, sub-circuit heralds
  ↦ fresh modes from `P` on), the substitution homomorphism of one qiskit instruction
  (`instrHom`) and of an instruction list (`listHom`), herald patterns, scalars, and the
  per-qubit photon-number configuration of a state.
-/
import LW.Proofs.C12FullPlanDefs
import LW.Proofs.C12FullPoly2
import LW.Proofs.C12FullAddInv
import LW.Proofs.C12FullSpecOk
import LW.Proofs.C13Field

open MvPolynomial

namespace LW.C12F

open LW LW.QC LW.Gates LW.QF

/-! ### what the main proof needs to know about a sub-circuit -/

/-- a loss-free sub-circuit with `q` ports whose heralds (equal on input and output, listed in
increasing mode order) carry the photon numbers `H` -/
structure SubOk {K : Type} [CommRing K] [StarRing K] (sub : Circ K) (q : Nat) (H : List Nat) :
    Prop where
  wf : sub.WF
  ok : SpecOk sub.n sub.spec
  io : sub.outHer = sub.inHer
  sorted : sub.inHer.keys.Pairwise (· < ·)
  loss : lossCount sub.spec = 0
  ports : sub.n - sub.inHer.length = q
  her : sub.inHer.map (·.2) = H

/-! ### index maps of an instruction -/

/-- closed index of the sub-circuit ↦ global mode: port `2j + e` ↦ mode `2·Q[j] + e`, herald `k`
↦ mode `P + k` -/
def fwdQ (Q : List Nat) (P : Nat) (y : Nat) : Nat :=
  if y < 2 * Q.length then 2 * Q.getD (y / 2) 0 + y % 2 else P + (y - 2 * Q.length)

/-- partial inverse of `fwdQ` -/
def invQ (Q : List Nat) (P : Nat) (z : Nat) : Option Nat :=
  if z < P then (if z / 2 ∈ Q then some (2 * Q.idxOf (z / 2) + z % 2) else none)
  else some (2 * Q.length + (z - P))

/-- exchange of the two modes of qubit `a` with those of qubit `b` -/
def qswap (a b : Nat) (z : Nat) : Nat :=
  if z / 2 = a then 2 * b + z % 2 else if z / 2 = b then 2 * a + z % 2 else z

/-! ### one instruction -/

/-- the instruction is a `swap` on two qubits -/
def isSwap (g : Instr) : Bool := g.qubits.length == 2 && g.name == "swap"

/-- the qubits of the instruction in the port order of its sub-circuit -/
def instrQ (g : Instr) : List Nat :=
  match g.qubits with
  | [q] => [q]
  | [a, b] => [min a b, max a b]
  | [a, b, t] => [min a (min b t), min a (min b t) + 1, min a (min b t) + 2]
  | _ => []

/-- herald photon numbers of the sub-circuit of the instruction (`f` = post-selected variant) -/
def instrHer (g : Instr) (f : Bool) : List Nat :=
  match g.qubits with
  | [_, _] => if g.name = "swap" then [] else if f then [0, 0] else [0, 1, 1, 0]
  | [_, _, _] => [0, 0, 0, 0]
  | _ => []

section
variable {K : Type} [Add K] [Mul K] [Neg K] [Zero K] [One K]

/-- the sub-circuit of a non-swap instruction -/
def instrSub (c : GC K) (par : Nat → K × K) (idx : Nat) (g : Instr) (f : Bool) : Circ K :=
  match g.qubits with
  | [a, b] => twoCirc c (g.name = "cx") f (if g.name = "cx" then (if a < b then 1 else 0) else 0)
  | [a, b, t] => threeCirc c (g.name = "ccx") (if g.name = "ccx" then t - min a (min b t) else 0)
  | _ => sqCirc c (sqOfName g.name (par idx))

/-- the common scalar contributed by the instruction -/
def instrK (c : GC K) (g : Instr) (f : Bool) : K :=
  match g.qubits with
  | [_, _] => if g.name = "swap" then 1 else if f then -c.third else c.half * c.half
  | [_, _, _] => c.i * (c.rh * (c.half * c.third))
  | _ => 1

end

section
variable {R : Type} [CommRing R]

/-- substitution homomorphism of one converted instruction whose heralds start at mode `P` -/
noncomputable def instrHom (c : GC R) (par : Nat → R × R) (idx : Nat) (g : Instr) (f : Bool)
    (P : Nat) : Hom R :=
  if isSwap g then rename (qswap (g.qubits.getD 0 0) (g.qubits.getD 1 0))
  else placeHomG (circHom c.i (instrSub c par idx g f)) (fwdQ (instrQ g) P) (invQ (instrQ g) P)
    (P + (instrHer g f).length)

/-- substitution homomorphism of a converted instruction list (first instruction innermost) -/
noncomputable def listHom (c : GC R) (par : Nat → R × R) :
    Nat → List Instr → List Bool → Nat → Hom R
  | _, [], _, _ => AlgHom.id R _
  | idx, g :: rest, fs, P =>
    (listHom c par (idx + 1) rest fs.tail (P + (instrHer g (fs.headD false)).length)).comp
      (instrHom c par idx g (fs.headD false) P)

/-- product of the scalars of the instructions -/
def listK (c : GC R) : List Instr → List Bool → R
  | [], _ => 1
  | g :: rest, fs => instrK c g (fs.headD false) * listK c rest fs.tail

end

/-- herald photon numbers of an instruction list, in order -/
def listHer : List Instr → List Bool → List Nat
  | [], _ => []
  | g :: rest, fs => instrHer g (fs.headD false) ++ listHer rest fs.tail

/-! ### photon-number configurations -/

/-- photons in the two modes of each qubit -/
def cfg (s : ℕ →₀ ℕ) : Config := fun q => s (2 * q) + s (2 * q + 1)

end LW.C12F
