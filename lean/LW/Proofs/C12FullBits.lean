/-
  LW.Proofs.C12FullBits — bit-string lemmas for the per-gate tables: reading a bit after `set`,
  extensionality, the basis vector `delta` on updated strings, closed forms of the named matrices
  `namedCNOT` / `namedCZ` on two and three bits (kernel decisions), and `scaleBy`.
-/
import Mathlib.Algebra.Ring.Basic
import Mathlib.Data.List.GetD
import Mathlib.Tactic.Ring
import LW.Model.QConvertSem

namespace LW.C12F

open LW LW.QC LW.Gates LW.QF

/-! ### bits of lists -/

theorem getBit_set (l : List Bool) (i q : ℕ) (v : Bool) :
    getBit (l.set i v) q = if q = i ∧ i < l.length then v else getBit l q := by
  unfold getBit
  rw [List.getD_eq_getElem?_getD, List.getD_eq_getElem?_getD, List.getElem?_set]
  by_cases h : i = q
  · subst h
    by_cases hl : i < l.length
    · simp [hl]
    · simp [hl]
  · rw [if_neg h, if_neg (by intro hc; exact h hc.1.symm)]

theorem bits_ext {n : ℕ} {x y : List Bool} (hx : x.length = n) (hy : y.length = n)
    (h : ∀ q, q < n → getBit x q = getBit y q) : x = y := by
  apply List.ext_getElem (by rw [hx, hy])
  intro i h1 h2
  have := h i (by omega)
  unfold getBit at this
  rw [List.getD_eq_getElem _ _ h1, List.getD_eq_getElem _ _ h2] at this
  exact this

/-- equality with `ib` can be tested on a set `S` of positions when the strings agree elsewhere -/
theorem eq_iff_on {n : ℕ} {x ib : List Bool} (hx : x.length = n) (hib : ib.length = n)
    (S : List ℕ) (hag : ∀ q, q < n → q ∉ S → getBit x q = getBit ib q) :
    x = ib ↔ ∀ q ∈ S, getBit x q = getBit ib q := by
  constructor
  · intro h q _
    rw [h]
  · intro h
    apply bits_ext hx hib
    intro q hq
    by_cases hs : q ∈ S
    · exact h q hs
    · exact hag q hq hs

variable {K : Type} [CommRing K]

theorem delta_eq_zero {ib x : List Bool} (q : ℕ) (h : getBit x q ≠ getBit ib q) :
    (delta ib x : K) = 0 := by
  unfold delta
  rw [if_neg]
  intro hc
  rw [hc] at h
  exact h rfl

theorem delta_on {n : ℕ} {x ib : List Bool} (hx : x.length = n) (hib : ib.length = n)
    (S : List ℕ) (hag : ∀ q, q < n → q ∉ S → getBit x q = getBit ib q)
    [Decidable (∀ q ∈ S, getBit x q = getBit ib q)] :
    (delta ib x : K) = if ∀ q ∈ S, getBit x q = getBit ib q then 1 else 0 := by
  unfold delta
  by_cases h : x = ib
  · rw [if_pos h, if_pos ((eq_iff_on hx hib S hag).mp h)]
  · rw [if_neg h, if_neg (fun hc => h ((eq_iff_on hx hib S hag).mpr hc))]

/-! ### closed forms of the named matrices -/

theorem namedCNOT_two : ∀ (xa xb ya yb : Bool),
    namedCNOT 1 [xa, xb] [ya, yb] = (if xa = ya ∧ (xb != xa) = yb then 1 else 0) ∧
    namedCNOT 0 [xb, xa] [yb, ya] = (if xa = ya ∧ (xb != xa) = yb then 1 else 0) := by
  decide

theorem namedCZ_two : ∀ (xa xb ya yb : Bool),
    namedCZ [xa, xb] [ya, yb] =
      (if xa = ya ∧ xb = yb then (if (xa && xb) = true then -1 else 1) else 0) ∧
    namedCZ [xb, xa] [yb, ya] =
      (if xa = ya ∧ xb = yb then (if (xa && xb) = true then -1 else 1) else 0) := by
  decide

theorem namedCNOT_three : ∀ (xa xb xt ya yb yt : Bool),
    namedCNOT 2 [xa, xb, xt] [ya, yb, yt] =
      (if xa = ya ∧ xb = yb ∧ (xt != (xa && xb)) = yt then 1 else 0) ∧
    namedCNOT 2 [xb, xa, xt] [yb, ya, yt] =
      (if xa = ya ∧ xb = yb ∧ (xt != (xa && xb)) = yt then 1 else 0) ∧
    namedCNOT 1 [xa, xt, xb] [ya, yt, yb] =
      (if xa = ya ∧ xb = yb ∧ (xt != (xa && xb)) = yt then 1 else 0) ∧
    namedCNOT 1 [xb, xt, xa] [yb, yt, ya] =
      (if xa = ya ∧ xb = yb ∧ (xt != (xa && xb)) = yt then 1 else 0) ∧
    namedCNOT 0 [xt, xa, xb] [yt, ya, yb] =
      (if xa = ya ∧ xb = yb ∧ (xt != (xa && xb)) = yt then 1 else 0) ∧
    namedCNOT 0 [xt, xb, xa] [yt, yb, ya] =
      (if xa = ya ∧ xb = yb ∧ (xt != (xa && xb)) = yt then 1 else 0) := by
  decide

theorem namedCZ_three : ∀ (xa xb xt ya yb yt : Bool),
    namedCZ [xa, xb, xt] [ya, yb, yt] =
      (if xa = ya ∧ xb = yb ∧ xt = yt then (if (xa && xb && xt) = true then -1 else 1) else 0) ∧
    namedCZ [xb, xa, xt] [yb, ya, yt] =
      (if xa = ya ∧ xb = yb ∧ xt = yt then (if (xa && xb && xt) = true then -1 else 1) else 0) ∧
    namedCZ [xa, xt, xb] [ya, yt, yb] =
      (if xa = ya ∧ xb = yb ∧ xt = yt then (if (xa && xb && xt) = true then -1 else 1) else 0) ∧
    namedCZ [xb, xt, xa] [yb, yt, ya] =
      (if xa = ya ∧ xb = yb ∧ xt = yt then (if (xa && xb && xt) = true then -1 else 1) else 0) ∧
    namedCZ [xt, xa, xb] [yt, ya, yb] =
      (if xa = ya ∧ xb = yb ∧ xt = yt then (if (xa && xb && xt) = true then -1 else 1) else 0) ∧
    namedCZ [xt, xb, xa] [yt, yb, ya] =
      (if xa = ya ∧ xb = yb ∧ xt = yt then (if (xa && xb && xt) = true then -1 else 1) else 0) := by
  decide

/-! ### `scaleBy` -/

theorem scaleBy_ite (k : K) (p : Prop) [Decidable p] :
    scaleBy k (if p then 1 else 0) = k * (if p then 1 else 0) := by
  unfold scaleBy
  split <;> simp

theorem scaleBy_sign (k : K) (p : Prop) [Decidable p] (s : Bool) :
    scaleBy k (if p then (if s = true then -1 else 1) else 0)
      = k * (if s = true then -(if p then 1 else 0) else (if p then 1 else 0)) := by
  unfold scaleBy
  by_cases hp : p <;> cases s <;> simp [hp]

end LW.C12F
