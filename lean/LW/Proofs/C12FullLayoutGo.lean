/-
  LW.Proofs.C12FullLayoutGo — pointwise characterisation of `LW.QF.fullStateGo` / `fullState`:
  length, the entry on a herald mode, the entry on a free mode.
-/
import Mathlib.Data.List.GetD
import Mathlib.Data.List.Nodup
import LW.Model.QFock
import LW.Proofs.C02SemClosed

namespace LW.C12F

open LW LW.Proofs.C02Sem

/-! ### dictionaries with distinct keys -/

theorem get?_of_mem {d : Dict} (hnd : d.keys.Nodup) {k v : Nat} (h : (k, v) ∈ d) :
    d.get? k = some v := by
  induction d with
  | nil => simp at h
  | cons p d ih =>
    rw [LW.Proofs.C02.get?_cons]
    simp only [Dict.keys, List.map_cons, List.nodup_cons] at hnd
    rcases List.mem_cons.mp h with h | h
    · subst h; simp
    · have hk : k ∈ d.map (·.1) := List.mem_map.mpr ⟨(k, v), h, rfl⟩
      have hne : ¬ p.1 = k := fun e => hnd.1 (e ▸ hk)
      rw [if_neg hne]
      exact ih hnd.2 h

theorem get?_key (d : Dict) (hnd : d.keys.Nodup) (j : Nat) (hj : j < d.length) :
    d.get? (d.keys.getD j 0) = some ((d.map (·.2)).getD j 0) := by
  have h1 : d.keys.getD j 0 = d[j].1 := by
    rw [List.getD_eq_getElem _ _ (by simpa [Dict.keys] using hj)]; simp [Dict.keys]
  have h2 : (d.map (·.2)).getD j 0 = d[j].2 := by
    rw [List.getD_eq_getElem _ _ (by simpa using hj)]; simp
  rw [h1, h2]
  exact get?_of_mem hnd (List.getElem_mem hj)

/-! ### `fullStateGo` -/

theorem fullStateGo_length (her : Dict) (k m : Nat) (s : List Nat) :
    (LW.QF.fullStateGo her k m s).length = k := by
  induction k generalizing m s with
  | zero => rfl
  | succ k ih =>
    unfold LW.QF.fullStateGo
    cases her.get? m with
    | some p => simp [ih]
    | none => cases s <;> simp [ih]

theorem tail_getD (s : List Nat) (i : Nat) : s.tail.getD i 0 = s.getD (i + 1) 0 := by
  cases s <;> simp

/-- one unfolding step, with the user state consumed expressed by `tail` -/
theorem fullStateGo_succ (her : Dict) (k m : Nat) (s : List Nat) :
    LW.QF.fullStateGo her (k + 1) m s =
      match her.get? m with
      | some p => p :: LW.QF.fullStateGo her k (m + 1) s
      | none => s.getD 0 0 :: LW.QF.fullStateGo her k (m + 1) s.tail := by
  cases hg : her.get? m with
  | some p => simp [LW.QF.fullStateGo, hg]
  | none => cases s <;> simp [LW.QF.fullStateGo, hg]

/-- entry of `fullStateGo` at offset `j` -/
theorem fullStateGo_getD (her : Dict) (k m : Nat) (s : List Nat) (j : Nat) (hj : j < k) :
    (LW.QF.fullStateGo her k m s).getD j 0 =
      match her.get? (m + j) with
      | some p => p
      | none => s.getD (freeFrom her.keys m j).length 0 := by
  induction k generalizing m s j with
  | zero => omega
  | succ k ih =>
    rw [fullStateGo_succ]
    cases j with
    | zero =>
      simp only [Nat.add_zero, freeFrom_zero, List.length_nil]
      cases her.get? m <;> simp
    | succ j =>
      have hj' : j < k := by omega
      have e : m + (j + 1) = m + 1 + j := by omega
      cases hm : her.get? m with
      | some p =>
        have hmem : m ∈ her.keys := by
          have := (LW.Proofs.C02.get?_isSome_iff (d := her) (k := m)).mp (by simp [hm])
          exact this
        simp only [List.getD_cons_succ]
        rw [ih (m + 1) s j hj', freeFrom_succ_mem j hmem, e]
      | none =>
        have hmem : m ∉ her.keys := LW.Proofs.C02.get?_eq_none_iff.mp hm
        simp only [List.getD_cons_succ]
        rw [ih (m + 1) s.tail j hj', freeFrom_succ_not_mem j hmem, e]
        cases her.get? (m + 1 + j) with
        | some p => rfl
        | none => simp only [List.length_cons]; exact tail_getD s _

/-! ### `fullState` -/

theorem fullState_length (her : Dict) (n : Nat) (s : List Nat) :
    (LW.QF.fullState her n s).length = n :=
  fullStateGo_length her n 0 s

theorem fullState_getD_herald (her : Dict) (n : Nat) (s : List Nat) (z p : Nat) (hz : z < n)
    (h : her.get? z = some p) : (LW.QF.fullState her n s).getD z 0 = p := by
  unfold LW.QF.fullState
  rw [fullStateGo_getD her n 0 s z hz, Nat.zero_add, h]

theorem fullState_getD_free (her : Dict) (n : Nat) (s : List Nat) (z : Nat) (hz : z < n)
    (h : z ∉ her.keys) :
    (LW.QF.fullState her n s).getD z 0 = s.getD (freeOf z her.keys).length 0 := by
  unfold LW.QF.fullState
  rw [fullStateGo_getD her n 0 s z hz, Nat.zero_add, LW.Proofs.C02.get?_eq_none_iff.mpr h,
    freeOf_eq_freeFrom]

end LW.C12F
