/-
  LW.Proofs.C15Expect — `_calculate_expectation_value` on noiseless outcome tables:
  the eigenvalue multiplier on dual-rail states, and
      expectation(meas, Born table of setting toZ(meas)) = tr(P_meas ρ₀) / tr ρ₀ .
-/
import LW.Proofs.TomoLocal

open scoped BigOperators

namespace LW.Tomo

variable {K : Type} [Field K] [StarRing K]

set_option linter.unusedSectionVars false

/-! ### Except helpers -/

theorem mapM_ok {α β : Type} (f : α → Except Err β) (g : α → β) (l : List α)
    (h : ∀ x ∈ l, f x = .ok (g x)) : l.mapM f = .ok (l.map g) := by
  induction l with
  | nil => rfl
  | cons a t ih =>
    rw [List.mapM_cons, h a List.mem_cons_self, ih (fun x hx => h x (List.mem_cons_of_mem _ hx))]
    rfl

/-! ### dual-rail states -/

theorem dualRail_length (n b : Nat) : (dualRail n b).length = 2 * n := by
  induction n generalizing b with
  | zero => rfl
  | succ n ih =>
    simp only [dualRail, List.length_append, ih]
    split <;> simp <;> omega

theorem pairAt_append_left (l t : List Nat) (j : Nat) (h : 2 * j + 2 ≤ l.length) :
    pairAt (l ++ t) j = pairAt l j := by
  unfold pairAt
  rw [List.drop_append_of_le_length (by omega), List.take_append_of_le_length (by
    rw [List.length_drop]; omega)]

theorem pairAt_dualRail_last (n b : Nat) :
    pairAt (dualRail (n + 1) b) n = if b % 2 = 0 then [1, 0] else [0, 1] := by
  unfold pairAt
  simp only [dualRail]
  rw [List.drop_append_of_le_length (by rw [dualRail_length]),
    List.drop_of_length_le (by rw [dualRail_length]), List.nil_append]
  split <;> rfl

/-! ### the multiplier -/

theorem multOne_congr (g : Pauli) (s s' : List Nat) (j : Nat) (h : pairAt s j = pairAt s' j) :
    (multOne g s j : Except Err K) = multOne g s' j := by
  unfold multOne
  rw [h]

theorem multGo_congr (s s' : List Nat) (l : Meas) (j0 : Nat)
    (h : ∀ j, j0 ≤ j → j < j0 + l.length → pairAt s j = pairAt s' j) :
    (multGo s j0 l : Except Err K) = multGo s' j0 l := by
  induction l generalizing j0 with
  | nil => rfl
  | cons g t ih =>
    simp only [multGo]
    rw [multOne_congr g s s' j0 (h j0 (le_refl _) (by simp)),
      ih (j0 + 1) (fun j h1 h2 => h j (by omega) (by simp only [List.length_cons]; omega))]

theorem multGo_snoc (s : List Nat) (l : Meas) (g : Pauli) (j : Nat) :
    (multGo s j (l ++ [g]) : Except Err K) =
      (multGo s j l).bind fun m => (multOne g s (j + l.length)).bind fun m2 => .ok (m * m2) := by
  induction l generalizing j with
  | nil =>
    simp only [List.nil_append, multGo, List.length_nil, Nat.add_zero]
    cases (multOne g s j : Except Err K) <;> simp [bind, Except.bind, pure, Except.pure]
  | cons x t ih =>
    simp only [List.cons_append, multGo, List.length_cons]
    rw [ih (j + 1), show j + 1 + t.length = j + (t.length + 1) by omega]
    cases (multOne x s j : Except Err K) <;> cases (multGo s (j + 1) t : Except Err K) <;>
      cases (multOne g s (j + (t.length + 1)) : Except Err K) <;>
      simp [bind, Except.bind, pure, Except.pure, mul_assoc]

/-- on the dual-rail state of basis index `b` the multiplier is the product of eigenvalue signs -/
theorem multGo_dualRail (r : List Pauli) (b : Nat) :
    (multGo (dualRail r.length b) 0 r.reverse : Except Err K) = .ok (sgnRev r b) := by
  induction r generalizing b with
  | nil => rfl
  | cons g t ih =>
    rw [List.reverse_cons, multGo_snoc, List.length_cons]
    have h1 : (multGo (dualRail (t.length + 1) b) 0 t.reverse : Except Err K)
        = multGo (dualRail t.length (b / 2)) 0 t.reverse := by
      apply multGo_congr
      intro j _ hj
      simp only [dualRail]
      apply pairAt_append_left
      rw [dualRail_length]
      simp only [List.length_reverse] at hj
      omega
    rw [h1, ih (b / 2)]
    simp only [Except.bind, List.length_reverse, Nat.zero_add]
    unfold multOne
    rw [pairAt_dualRail_last]
    simp only [sgnRev, sgn]
    by_cases hb : b % 2 = 0
    · simp [hb, Except.bind]
    · by_cases hg : g = Pauli.I
      · simp [hb, hg, Except.bind]
      · simp [hb, hg, Except.bind]

theorem multiplier_dualRail (c : Meas) (b : Nat) :
    (multiplier c (dualRail c.length b) : Except Err K) = .ok (sgnRev c.reverse b) := by
  have := multGo_dualRail (K := K) c.reverse b
  simpa [multiplier] using this

/-! ### Born sums -/

theorem settingU_n (i h : K) (s : Meas) : (settingU i h s).n = 2 ^ s.length :=
  kronList_map_n _ (measU_n i h) s

theorem settingU_get (i h : K) (s : Meas) {a b : Nat} (ha : a < 2 ^ s.length) (hb : b < 2 ^ s.length) :
    (settingU i h s).get a b = entryRev (s.reverse.map fun t => (measU i h t).get) a b :=
  kronList_map_get _ (measU_n i h) s ha hb

theorem pauliKron_get (i : K) (c : Meas) {a b : Nat} (ha : a < 2 ^ c.length) (hb : b < 2 ^ c.length) :
    (pauliKron i c).get a b = entryRev (c.reverse.map fun t => (pauliM i t).get) a b :=
  kronList_map_get _ (pauliM_n i) c ha hb

theorem born_eq (U rho0 : M K) (b : Nat) :
    born U rho0 b = ∑ a ∈ Finset.range U.n, ∑ a' ∈ Finset.range U.n,
      U.get b a * rho0.get a a' * star (U.get b a') := by
  unfold born
  rw [M.sumN_eq_sum]
  refine Finset.sum_congr rfl fun a _ => ?_
  rw [M.sumN_eq_sum]
  rfl

/-- weighted sum of the Born table of setting `s` against the eigenvalue signs of `gsig`
(`gsig` and `s` of equal length): the outcome index is summed out qubit by qubit -/
theorem born_sum (i h : K) (rho0 : M K) (s gsig : Meas) (hlen : gsig.length = s.length) :
    ∑ b ∈ Finset.range (2 ^ s.length), sgnRev gsig.reverse b * born (settingU i h s) rho0 b
      = ∑ a ∈ Finset.range (2 ^ s.length), ∑ a' ∈ Finset.range (2 ^ s.length),
          rho0.get a a' * entryRev ((gsig.zip s).reverse.map fun p => loc i h p.1 p.2) a' a := by
  have hz : (gsig.zip s).length = s.length := by simp [hlen]
  have hfac := sum_factor i h (gsig.zip s).reverse
  have e1 : ((gsig.zip s).reverse.map (·.1)) = gsig.reverse := by
    rw [List.map_reverse, List.map_fst_zip (by omega)]
  have e2 : ((gsig.zip s).reverse.map fun p => (measU i h p.2).get)
      = s.reverse.map fun t => (measU i h t).get := by
    rw [List.map_reverse, List.map_reverse]
    congr 1
    have : (gsig.zip s).map (fun p => (measU i h p.2).get)
        = ((gsig.zip s).map (·.2)).map fun t => (measU i h t).get := by
      rw [List.map_map]; rfl
    rw [this, List.map_snd_zip (by omega)]
  rw [e1, e2, List.length_reverse, hz] at hfac
  calc ∑ b ∈ Finset.range (2 ^ s.length), sgnRev gsig.reverse b * born (settingU i h s) rho0 b
      = ∑ b ∈ Finset.range (2 ^ s.length), ∑ a ∈ Finset.range (2 ^ s.length),
          ∑ a' ∈ Finset.range (2 ^ s.length),
            rho0.get a a' * (sgnRev gsig.reverse b
              * entryRev (s.reverse.map fun t => (measU i h t).get) b a
              * star (entryRev (s.reverse.map fun t => (measU i h t).get) b a')) := by
        refine Finset.sum_congr rfl fun b hb => ?_
        rw [born_eq, settingU_n, Finset.mul_sum]
        refine Finset.sum_congr rfl fun a ha => ?_
        rw [Finset.mul_sum]
        refine Finset.sum_congr rfl fun a' ha' => ?_
        rw [settingU_get i h s (Finset.mem_range.mp hb) (Finset.mem_range.mp ha),
          settingU_get i h s (Finset.mem_range.mp hb) (Finset.mem_range.mp ha')]
        ring
    _ = ∑ a ∈ Finset.range (2 ^ s.length), ∑ a' ∈ Finset.range (2 ^ s.length),
          rho0.get a a' * entryRev ((gsig.zip s).reverse.map fun p => loc i h p.1 p.2) a' a := by
        rw [Finset.sum_comm]
        refine Finset.sum_congr rfl fun a _ => ?_
        rw [Finset.sum_comm]
        refine Finset.sum_congr rfl fun a' _ => ?_
        rw [← Finset.mul_sum, hfac a a']

theorem zip_map_self {α β : Type} (f : α → β) (c : List α) :
    c.zip (c.map f) = c.map fun g => (g, f g) := by
  induction c with
  | nil => rfl
  | cons x t ih => rw [List.map_cons, List.zip_cons_cons, ih, List.map_cons]

theorem zip_const_left {α β : Type} (x : β) (s : List α) :
    (s.map fun _ => x).zip s = s.map fun t => (x, t) := by
  induction s with
  | nil => rfl
  | cons y t ih => rw [List.map_cons, List.zip_cons_cons, ih, List.map_cons]

/-- `Σ_b sgn_c(b) · Born_{toZ c}(b) = tr(P_c ρ₀)` -/
theorem born_sum_pauli {i h : K} (hc : Consts i h) (rho0 : M K) (c : Meas) :
    ∑ b ∈ Finset.range (2 ^ c.length),
        sgnRev c.reverse b * born (settingU i h (c.map toZ)) rho0 b
      = ∑ a ∈ Finset.range (2 ^ c.length), ∑ a' ∈ Finset.range (2 ^ c.length),
          rho0.get a a' * (pauliKron i c).get a' a := by
  have hb := born_sum i h rho0 (c.map toZ) c (by simp)
  rw [List.length_map] at hb
  rw [hb]
  refine Finset.sum_congr rfl fun a ha => Finset.sum_congr rfl fun a' ha' => ?_
  rw [pauliKron_get i c (Finset.mem_range.mp ha') (Finset.mem_range.mp ha)]
  congr 1
  rw [zip_map_self, ← List.map_reverse, List.map_map]
  exact entryRev_congr _ _ _ (fun g _ x y hx hy => loc_pauli hc g hx hy) a' a

/-- the counts of any setting's Born table add up to `tr ρ₀` (basis changes are unitary) -/
theorem born_sum_total {i h : K} (hc : Consts i h) (rho0 : M K) (s : Meas) :
    ∑ b ∈ Finset.range (2 ^ s.length), born (settingU i h s) rho0 b
      = ∑ a ∈ Finset.range (2 ^ s.length), rho0.get a a := by
  have hb := born_sum i h rho0 s (s.map fun _ => Pauli.I) (by simp)
  have e : ∀ b, (sgnRev (s.map fun _ => Pauli.I).reverse b : K) = 1 := fun b =>
    sgnRev_allI _ (by
      intro g hg
      simp only [List.mem_reverse, List.mem_map] at hg
      obtain ⟨_, _, rfl⟩ := hg
      rfl) b
  simp only [e, one_mul] at hb
  rw [hb]
  refine Finset.sum_congr rfl fun a ha => ?_
  have hz : ((s.map fun _ => Pauli.I).zip s) = s.map fun t => (Pauli.I, t) := zip_const_left _ s
  have e3 : ∀ a', a' ∈ Finset.range (2 ^ s.length) →
      rho0.get a a' * entryRev (((s.map fun _ => Pauli.I).zip s).reverse.map
        fun p => loc i h p.1 p.2) a' a = if a' = a then rho0.get a a' else 0 := by
    intro a' ha'
    rw [hz, ← List.map_reverse, List.map_map,
      entryRev_congr ((fun p : Pauli × Pauli => loc i h p.1 p.2) ∘ fun t => (Pauli.I, t))
        (fun _ x' x => if x' = x then (1 : K) else 0)
        s.reverse (fun t _ x y hx hy => loc_unitary hc t hx hy) a' a,
      entryRev_delta s.reverse (by simpa using Finset.mem_range.mp ha')
        (by simpa using Finset.mem_range.mp ha)]
    split <;> simp
  rw [Finset.sum_congr rfl e3, Finset.sum_ite_eq' _ a, if_pos ha]

end LW.Tomo
