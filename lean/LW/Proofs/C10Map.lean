/-
  LW.Proofs.C10Map — the construction API is natural in the scalar type: mapping the scalars of
  a circuit commutes with every construction call (C10: a `Parameter` travels through the
  bookkeeping untouched, so resolving it before or after the calls gives the same circuit).
-/
import Mathlib.Tactic.SplitIfs
import LW.Model.PCircuit

namespace LW

variable {K K' : Type}

namespace M

@[simp] theorem map_n (f : K → K') (A : M K) : (A.map f).n = A.n := rfl

theorem get_map [Zero K] [Zero K'] (f : K → K') (hf0 : f 0 = 0) (A : M K) (i j : Nat) :
    (A.map f).get i j = f (A.get i j) := by
  unfold M.get M.map
  simp only [Array.getD_eq_getD_getElem?, Array.getElem?_map]
  cases h : A.a[i]? with
  | none => simp [hf0]
  | some row =>
    simp only [Option.map_some, Option.getD_some, Array.getElem?_map]
    cases h2 : row[j]? with
    | none => simp [hf0]
    | some x => simp

theorem ofFn_map (f : K → K') (n : Nat) (g : Nat → Nat → K) :
    (M.ofFn n g).map f = M.ofFn n fun i j => f (g i j) := by
  unfold M.ofFn M.map
  simp [Array.map_ofFn, Function.comp_def]

end M

/-- a scalar map that fixes the two constants the bookkeeping itself writes (`add_mode_to_unitary`) -/
structure Fix01 [Zero K] [One K] [Zero K'] [One K'] (f : K → K') : Prop where
  zero : f 0 = 0
  one : f 1 = 1

section
variable [Zero K] [One K] [Zero K'] [One K'] {f : K → K'}

theorem addModeToUnitary_map (hf : Fix01 f) (u : M K) (k : Nat) :
    addModeToUnitary (u.map f) k = (addModeToUnitary u k).map f := by
  unfold addModeToUnitary
  rw [M.ofFn_map, M.map_n]
  congr 1
  funext r c
  split
  · split <;> simp [hf.zero, hf.one]
  · exact M.get_map f hf.zero u _ _

theorem Prim.addEmptyMode_map (hf : Fix01 f) (mode : Nat) (p : Prim K) :
    (p.map f).addEmptyMode mode = (p.addEmptyMode mode).map f := by
  cases p with
  | unitary m u =>
    simp only [Prim.map, Prim.addEmptyMode, M.map_n]
    by_cases h : bump mode m < mode ∧ mode < bump mode m + u.n
    · simp only [h, and_self, if_true, Prim.map, addModeToUnitary_map hf]
    · simp only [h, if_false, Prim.map]
  | _ => rfl

theorem Comp.addEmptyMode_map (hf : Fix01 f) (mode : Nat) (c : Comp K) :
    (c.map f).addEmptyMode mode = (c.addEmptyMode mode).map f := by
  cases c with
  | prim p => simp only [Comp.map, Comp.addEmptyMode, Prim.addEmptyMode_map hf]
  | group cs m1 m2 hin hout =>
    simp only [Comp.map, Comp.addEmptyMode, List.map_map]
    congr 1
    apply List.map_congr_left
    intro p _
    exact Prim.addEmptyMode_map hf mode p

theorem addEmptyModeSpec_map (hf : Fix01 f) (spec : List (Comp K)) (mode : Nat) :
    Circ.addEmptyModeSpec (spec.map (Comp.map f)) mode = (Circ.addEmptyModeSpec spec mode).map (Comp.map f) := by
  unfold Circ.addEmptyModeSpec
  simp only [List.map_map]
  apply List.map_congr_left
  intro c _
  exact Comp.addEmptyMode_map hf mode c

end

theorem Prim.shift_map (f : K → K') (k : Nat) (p : Prim K) : (p.map f).shift k = (p.shift k).map f := by
  cases p <;> rfl

theorem Comp.shift_map (f : K → K') (k : Nat) (c : Comp K) : (c.map f).shift k = (c.shift k).map f := by
  cases c with
  | prim p => simp only [Comp.map, Comp.shift, Prim.shift_map]
  | group cs m1 m2 hin hout =>
    simp only [Comp.map, Comp.shift, List.map_map]
    congr 1
    apply List.map_congr_left
    intro p _
    exact Prim.shift_map f k p

theorem Comp.toPrims_map (f : K → K') (c : Comp K) : (c.map f).toPrims = c.toPrims.map (Prim.map f) := by
  cases c <;> rfl

theorem unpackSpec_map (f : K → K') (spec : List (Comp K)) :
    unpackSpec (spec.map (Comp.map f)) = (unpackSpec spec).map (Comp.map f) := by
  unfold unpackSpec
  induction spec with
  | nil => rfl
  | cons c cs ih =>
    simp only [List.map_cons, List.flatMap_cons, List.map_append, ih]
    congr 1
    cases c with
    | prim p => rfl
    | group ps m1 m2 hin hout => simp [Comp.map, List.map_map, Function.comp_def]

theorem primsOf_map (f : K → K') (spec : List (Comp K)) :
    primsOf (spec.map (Comp.map f)) = (primsOf spec).map (Prim.map f) := by
  unfold primsOf
  induction spec with
  | nil => rfl
  | cons c cs ih => simp only [List.map_cons, List.flatMap_cons, List.map_append, ih, Comp.toPrims_map]

theorem Prim.syms_map (f : K → K') (p : Prim K) : (p.map f).syms = p.syms.map f := by
  cases p <;> rfl

theorem Circ.syms_map (f : K → K') (c : Circ K) : (c.map f).syms = c.syms.map f := by
  unfold Circ.syms
  simp only [Circ.map, primsOf_map, List.flatMap_map, List.map_flatMap, Prim.syms_map]

namespace Circ

@[simp] theorem map_n (f : K → K') (c : Circ K) : (c.map f).n = c.n := rfl
@[simp] theorem map_spec (f : K → K') (c : Circ K) : (c.map f).spec = c.spec.map (Comp.map f) := rfl
@[simp] theorem map_inHer (f : K → K') (c : Circ K) : (c.map f).inHer = c.inHer := rfl
@[simp] theorem map_outHer (f : K → K') (c : Circ K) : (c.map f).outHer = c.outHer := rfl
@[simp] theorem map_extIn (f : K → K') (c : Circ K) : (c.map f).extIn = c.extIn := rfl
@[simp] theorem map_extOut (f : K → K') (c : Circ K) : (c.map f).extOut = c.extOut := rfl
@[simp] theorem map_internal (f : K → K') (c : Circ K) : (c.map f).internal = c.internal := rfl
@[simp] theorem map_mapMode (f : K → K') (c : Circ K) (m : Int) : (c.map f).mapMode m = c.mapMode m := rfl
@[simp] theorem map_modeInRange (f : K → K') (c : Circ K) (m : Int) :
    (c.map f).modeInRange m = c.modeInRange m := rfl
@[simp] theorem map_inputModes (f : K → K') (c : Circ K) : (c.map f).inputModes = c.inputModes := rfl

theorem map_new (f : K → K') (n : Nat) : (Circ.new n : Circ K).map f = Circ.new n := rfl

theorem map_unpackGroups (f : K → K') (c : Circ K) : (c.map f).unpackGroups = c.unpackGroups.map f := by
  simp only [Circ.unpackGroups, Circ.map, unpackSpec_map]

theorem map_copy (f : K → K') (c : Circ K) : (c.map f).copy = c.copy.map f := rfl

/-- `Except.map` on the model's result type -/
theorem map_bs (f : K → K') (c : Circ K) (m1 m2 : Int) (cs : K × K) (cv : Conv) (l : Option (K × K))
    (rv lv : Bool) :
    (c.map f).bs m1 m2 (f cs.1, f cs.2) cv (l.map fun ab => (f ab.1, f ab.2)) rv lv =
      (c.bs m1 m2 cs cv l rv lv).map (Circ.map f) := by
  unfold Circ.bs
  simp only [map_mapMode, map_modeInRange]
  cases c.modeInRange (c.mapMode m1) with
  | error e => rfl
  | ok a =>
    simp only [bind, Except.bind, Except.map]
    split
    · rfl
    · cases c.modeInRange (c.mapMode m2) with
      | error e => rfl
      | ok b =>
        cases lv <;> cases rv <;> rcases l with _ | ⟨la, lb⟩ <;>
          simp [Circ.map, Comp.map, Prim.map, pure, Except.pure, throw, throwThe, MonadExceptOf.throw]

theorem map_ps (f : K → K') (c : Circ K) (m : Int) (p : K) (l : Option (K × K)) (lv : Bool) :
    (c.map f).ps m (f p) (l.map fun ab => (f ab.1, f ab.2)) lv =
      (c.ps m p l lv).map (Circ.map f) := by
  unfold Circ.ps
  simp only [map_mapMode, map_modeInRange]
  cases c.modeInRange (c.mapMode m) with
  | error e => rfl
  | ok a =>
    cases lv <;> rcases l with _ | ⟨la, lb⟩ <;>
      simp [bind, Except.bind, Except.map, Circ.map, Comp.map, Prim.map, pure, Except.pure, throw, throwThe,
        MonadExceptOf.throw]

theorem map_loss (f : K → K') (c : Circ K) (m : Int) (ab : K × K) (lv : Bool) :
    (c.map f).loss m (f ab.1, f ab.2) lv = (c.loss m ab lv).map (Circ.map f) := by
  unfold Circ.loss
  simp only [map_mapMode, map_modeInRange]
  cases c.modeInRange (c.mapMode m) with
  | error e => rfl
  | ok a =>
    cases lv <;>
      simp [bind, Except.bind, Except.map, Circ.map, Comp.map, Prim.map, pure, Except.pure, throw, throwThe,
        MonadExceptOf.throw]

theorem map_barrier (f : K → K') (c : Circ K) (ms : Option (List Int)) :
    (c.map f).barrier ms = (c.barrier ms).map (Circ.map f) := by
  unfold Circ.barrier
  simp only [map_mapMode, map_modeInRange, map_n, map_internal, bind, Except.bind, Except.map]
  split <;> simp_all [Circ.map, Comp.map, Prim.map, pure, Except.pure]

theorem map_modeSwaps (f : K → K') (c : Circ K) (sw : List (Int × Int)) :
    (c.map f).modeSwaps sw = (c.modeSwaps sw).map (Circ.map f) := by
  unfold Circ.modeSwaps
  simp only [map_mapMode, map_modeInRange]
  cases ((sw.map fun p => (c.mapMode p.1, c.mapMode p.2)).mapM fun p => c.modeInRange p.1) with
  | error e => rfl
  | ok ks =>
    cases ((sw.map fun p => (c.mapMode p.1, c.mapMode p.2)).mapM fun p => c.modeInRange p.2) with
    | error e => rfl
    | ok vs =>
      simp only [bind, Except.bind, Except.map]
      split
      · rfl
      · simp [Circ.map, Comp.map, Prim.map, pure, Except.pure]

theorem map_herald (f : K → K') (c : Circ K) (n : Nat) (i o : Int) :
    (c.map f).herald n i o = (c.herald n i o).map (Circ.map f) := by
  unfold Circ.herald
  simp only [map_mapMode, map_modeInRange, map_inHer, map_outHer, map_extIn, map_extOut]
  cases c.modeInRange (c.mapMode i) with
  | error e => rfl
  | ok a =>
    cases c.modeInRange (c.mapMode o) with
    | error e => rfl
    | ok b =>
      by_cases h1 : c.inHer.contains a = true <;> by_cases h2 : c.outHer.contains b = true <;>
        simp [h1, h2, bind, Except.bind, Except.map, Circ.map, pure, Except.pure, throw, throwThe,
          MonadExceptOf.throw]

theorem map_plus (f : K → K') (a b : Circ K) :
    (a.map f).plus (b.map f) = (a.plus b).map (Circ.map f) := by
  unfold Circ.plus
  simp only [map_n, map_inHer]
  by_cases h1 : a.n ≠ b.n
  · simp [h1, Except.map]
  · by_cases h2 : (!List.isEmpty a.inHer || !List.isEmpty b.inHer) = true
    · simp only [h1, h2, if_true, if_false, Except.map]
    · simp [h1, h2, Except.map, Circ.map]

/-! ### `Circuit.add` -/

section Add
variable [Zero K] [One K]

/-- one step of the pass-through insertion loop of `add` -/
def passStep (mode : Nat) (st : AddSt K) (i : Nat) : AddSt K :=
  let target : Int := (sortNat st.sub.inHer.keys).foldl
    (fun (t : Int) (m : Nat) => if t > (m : Int) then t + 1 else t) ((i : Int) - (mode : Int))
  if 0 ≤ target ∧ target < (st.sub.n : Int) then
    { sub := st.sub.addEmptyModeBook target.toNat,
      spec := addEmptyModeSpec st.spec target.toNat }
  else st

/-- one new ancilla mode in the parent -/
def ancStep (mode : Nat) (s : Circ K) (m : Nat) : Circ K :=
  let s' := s.addEmptyModeBook (mode + m)
  { s' with spec := addEmptyModeSpec s'.spec (mode + m), internal := s'.internal ++ [mode + m] }

def herStep (mode : Nat) (s : Circ K) (p : Nat × Nat) : Circ K :=
  { s with inHer := s.inHer.set (p.1 + mode) p.2, outHer := s.outHer.set (p.1 + mode) p.2 }

/-- `add` after the pass-through insertion loop -/
def addFinish (self : Circ K) (mode : Nat) (grouped : Bool) (nHer : Nat) (st : AddSt K) :
    Except Err (Circ K) :=
  if mode + st.sub.n - nHer > self.n then .error .modeRange else
  let self' := (sortNat st.sub.inHer.keys).foldl (ancStep mode) self
  let self' := st.sub.inHer.foldl (herStep mode) self'
  let addCs := st.spec.map (Comp.shift mode)
  if !grouped then .ok { self' with spec := self'.spec ++ addCs }
  else .ok { self' with spec := self'.spec ++
    [.group (addCs.flatMap Comp.toPrims) mode (mode + st.sub.n - 1) st.sub.inHer st.sub.inHer] }

/-- `add` after the first range check and the swap synthesis -/
def addTail (self : Circ K) (mode : Nat) (grouped : Bool) (nHer : Nat) (circuit0 : Circ K)
    (spec0 : List (Comp K)) : Except Err (Circ K) :=
  addFinish self mode grouped nHer ((sortNat self.internal).foldl (passStep mode) ⟨circuit0, spec0⟩)

/-- the spec of the circuit to add, followed by the swap that returns the heralds -/
def withSwaps (c' : Circ K) : List (Comp K) :=
  if (synthSwaps c'.n (Dict.ofPairs (c'.outHer.keys.zip c'.inHer.keys))).keys !=
      (synthSwaps c'.n (Dict.ofPairs (c'.outHer.keys.zip c'.inHer.keys))).vals
  then c'.spec ++ [.prim (.swaps (synthSwaps c'.n (Dict.ofPairs (c'.outHer.keys.zip c'.inHer.keys))))]
  else c'.spec

/-- `add` after the mode has been mapped and the argument unpacked -/
def addBody (self : Circ K) (m : Nat) (g : Bool) (c' : Circ K) : Except Err (Circ K) :=
  if m + c'.n - c'.inHer.length > self.n then .error .modeRange else
  addTail self m g c'.inHer.length c' (withSwaps c')

theorem add_eq (self circuit : Circ K) (mode : Int) (grouped : Bool) :
    self.add circuit mode grouped =
      match self.modeInRange (self.mapMode mode) with
      | .error e => .error e
      | .ok m =>
        addBody self m (grouped || !circuit.unpackGroups.inHer.isEmpty)
          (if (grouped || !circuit.unpackGroups.inHer.isEmpty) = true then circuit.unpackGroups else circuit) := by
  unfold Circ.add
  simp only [bind, Except.bind, pure, Except.pure, throw, throwThe, MonadExceptOf.throw]
  cases self.modeInRange (self.mapMode mode) with
  | error e => rfl
  | ok m =>
    simp only []
    generalize (grouped || !circuit.unpackGroups.inHer.isEmpty) = g
    generalize (if g = true then circuit.unpackGroups else circuit) = c'
    by_cases h1 : m + c'.n - c'.inHer.length > self.n
    · have e : addBody self m g c' = _ := if_pos h1
      rw [e]
      simp only [h1, if_true]
    · have e : addBody self m g c' = _ := if_neg h1
      rw [e]
      simp only [h1, if_false]
      rfl

def _root_.LW.Circ.AddSt.map (f : K → K') (st : AddSt K) : AddSt K' :=
  ⟨st.sub.map f, st.spec.map (Comp.map f)⟩

theorem foldl_comm {α β γ : Type} (φ : α → β) (g : α → γ → α) (g' : β → γ → β)
    (h : ∀ s x, g' (φ s) x = φ (g s x)) (l : List γ) (s : α) :
    l.foldl g' (φ s) = φ (l.foldl g s) := by
  induction l generalizing s with
  | nil => rfl
  | cons x xs ih => simp only [List.foldl_cons, h, ih]

variable [Zero K'] [One K'] {f : K → K'}

theorem map_addEmptyModeBook (f : K → K') (c : Circ K) (k : Nat) :
    (c.map f).addEmptyModeBook k = (c.addEmptyModeBook k).map f := rfl

theorem passStep_map (hf : Fix01 f) (mode : Nat) (st : AddSt K) (i : Nat) :
    passStep mode (st.map f) i = (passStep mode st i).map f := by
  by_cases h : 0 ≤ (sortNat st.sub.inHer.keys).foldl
      (fun (t : Int) (m : Nat) => if t > (m : Int) then t + 1 else t) ((i : Int) - (mode : Int)) ∧
    (sortNat st.sub.inHer.keys).foldl
      (fun (t : Int) (m : Nat) => if t > (m : Int) then t + 1 else t) ((i : Int) - (mode : Int)) < (st.sub.n : Int)
  · have e1 : passStep mode st i = _ := if_pos h
    have e2 : passStep mode (st.map f) i = _ := if_pos h
    rw [e1, e2]
    simp only [AddSt.map, map_inHer, map_addEmptyModeBook, addEmptyModeSpec_map hf]
  · have e1 : passStep mode st i = _ := if_neg h
    have e2 : passStep mode (st.map f) i = _ := if_neg h
    rw [e1, e2]

theorem ancStep_map (hf : Fix01 f) (mode : Nat) (s : Circ K) (m : Nat) :
    ancStep mode (s.map f) m = (ancStep mode s m).map f := by
  simp only [ancStep, Circ.addEmptyModeBook, Circ.map, addEmptyModeSpec_map hf]

theorem herStep_map (f : K → K') (mode : Nat) (s : Circ K) (p : Nat × Nat) :
    herStep mode (s.map f) p = (herStep mode s p).map f := rfl

theorem addFinish_map (hf : Fix01 f) (self : Circ K) (mode : Nat) (grouped : Bool) (nHer : Nat)
    (st : AddSt K) :
    addFinish (self.map f) mode grouped nHer (st.map f) =
      (addFinish self mode grouped nHer st).map (Circ.map f) := by
  by_cases h : mode + st.sub.n - nHer > self.n
  · have e1 : addFinish self mode grouped nHer st = _ := if_pos h
    have e2 : addFinish (self.map f) mode grouped nHer (st.map f) = _ := if_pos h
    rw [e1, e2]; rfl
  · have h1 : (sortNat st.sub.inHer.keys).foldl (ancStep mode) (self.map f) =
        ((sortNat st.sub.inHer.keys).foldl (ancStep mode) self).map f :=
      foldl_comm (Circ.map f) (ancStep mode) (ancStep mode) (fun s x => ancStep_map hf mode s x) _ _
    have h2 : ∀ s : Circ K, st.sub.inHer.foldl (herStep mode) (s.map f) =
        (st.sub.inHer.foldl (herStep mode) s).map f := fun s =>
      foldl_comm (Circ.map f) (herStep mode) (herStep mode) (fun s x => herStep_map f mode s x) _ _
    have hsh : (st.spec.map (Comp.map f)).map (Comp.shift mode) =
        (st.spec.map (Comp.shift mode)).map (Comp.map f) := by
      simp only [List.map_map]
      apply List.map_congr_left
      intro c _
      exact Comp.shift_map f mode c
    have e1 : addFinish self mode grouped nHer st = _ := if_neg h
    have e2 : addFinish (self.map f) mode grouped nHer (st.map f) = _ := if_neg h
    rw [e1, e2]
    simp only [AddSt.map, map_n, map_inHer, h1, h2, hsh]
    generalize st.sub.inHer.foldl (herStep mode) ((sortNat st.sub.inHer.keys).foldl (ancStep mode) self) = s'
    cases grouped
    · simp only [Bool.not_false, if_true, Except.map, Circ.map, List.map_append]
    · simp only [Bool.not_true, Bool.false_eq_true, if_false, Except.map, Circ.map, List.map_append,
        ← primsOf.eq_1, primsOf_map, List.map_cons, List.map_nil, Comp.map]

theorem addTail_map (hf : Fix01 f) (self : Circ K) (mode : Nat) (grouped : Bool) (nHer : Nat)
    (c0 : Circ K) (spec0 : List (Comp K)) :
    addTail (self.map f) mode grouped nHer (c0.map f) (spec0.map (Comp.map f)) =
      (addTail self mode grouped nHer c0 spec0).map (Circ.map f) := by
  unfold addTail
  have hst : (sortNat self.internal).foldl (passStep mode) (AddSt.map f ⟨c0, spec0⟩) =
      AddSt.map f ((sortNat self.internal).foldl (passStep mode) ⟨c0, spec0⟩) :=
    foldl_comm (AddSt.map f) (passStep mode) (passStep mode) (fun s x => passStep_map hf mode s x) _ _
  have hst' : (⟨c0.map f, spec0.map (Comp.map f)⟩ : AddSt K') = AddSt.map f ⟨c0, spec0⟩ := rfl
  rw [map_internal, hst', hst]
  exact addFinish_map hf self mode grouped nHer _

theorem withSwaps_map (f : K → K') (c' : Circ K) :
    withSwaps (c'.map f) = (withSwaps c').map (Comp.map f) := by
  by_cases h : ((synthSwaps c'.n (Dict.ofPairs (c'.outHer.keys.zip c'.inHer.keys))).keys !=
      (synthSwaps c'.n (Dict.ofPairs (c'.outHer.keys.zip c'.inHer.keys))).vals) = true
  · have e1 : withSwaps c' = _ := if_pos h
    have e2 : withSwaps (c'.map f) = _ := if_pos h
    rw [e1, e2]
    simp only [map_spec, List.map_append, List.map_cons, List.map_nil, Comp.map, Prim.map]
    rfl
  · have e1 : withSwaps c' = _ := if_neg h
    have e2 : withSwaps (c'.map f) = _ := if_neg h
    rw [e1, e2]
    rfl

theorem addBody_map (hf : Fix01 f) (self : Circ K) (m : Nat) (g : Bool) (c' : Circ K) :
    addBody (self.map f) m g (c'.map f) = (addBody self m g c').map (Circ.map f) := by
  by_cases h : m + c'.n - c'.inHer.length > self.n
  · have e1 : addBody self m g c' = _ := if_pos h
    have e2 : addBody (self.map f) m g (c'.map f) = _ := if_pos h
    rw [e1, e2]; rfl
  · have e1 : addBody self m g c' = _ := if_neg h
    have e2 : addBody (self.map f) m g (c'.map f) = _ := if_neg h
    rw [e1, e2, withSwaps_map]
    exact addTail_map hf self m g _ c' _

theorem map_add (hf : Fix01 f) (self circuit : Circ K) (mode : Int) (grouped : Bool) :
    (self.map f).add (circuit.map f) mode grouped = (self.add circuit mode grouped).map (Circ.map f) := by
  rw [add_eq, add_eq]
  simp only [map_mapMode, map_modeInRange]
  cases self.modeInRange (self.mapMode mode) with
  | error e => rfl
  | ok m =>
    simp only [map_unpackGroups, map_inHer]
    generalize (grouped || !circuit.unpackGroups.inHer.isEmpty) = g
    have hc : (if g = true then circuit.unpackGroups.map f else circuit.map f) =
        (if g = true then circuit.unpackGroups else circuit).map f := by
      split <;> rfl
    rw [hc]
    exact addBody_map hf self m g _

end Add

end Circ

end LW
