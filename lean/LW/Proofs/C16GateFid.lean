/-
  LW.Proofs.C16GateFid — the sum of `GateFidelity.process` evaluates to the average gate fidelity
  `(|tr(U†V)|² + d)/(d(d+1))` when the reconstructed states are those of `ρ ↦ V ρ V†`
  (Pauli twirl from the completeness relation; no unitarity needed for the algebraic identity).
-/
import LW.Proofs.C16Alpha

open scoped BigOperators

namespace LW.Tomo

variable {K : Type} [Field K] [StarRing K] [DecidableEq K]

set_option linter.unusedSectionVars false

theorem trace_mul' (A B : M K) {N : Nat} (hA : A.n = N) :
    trace (A.mul B) = ∑ x ∈ Finset.range N, ∑ y ∈ Finset.range N, A.get x y * B.get y x := by
  rw [trace_eq_sum, M.mul_n, hA]
  refine Finset.sum_congr rfl fun x hx => ?_
  rw [M.get_mul A B (by rw [hA]; exact Finset.mem_range.mp hx) (by rw [hA]; exact Finset.mem_range.mp hx),
    hA]

theorem get_twirl_factor (T P : M K) {N : Nat} (hT : T.n = N) (hP : P.n = N) {x y : Nat}
    (hx : x < N) (hy : y < N) :
    ((T.mul P.dagger).mul T.dagger).get x y
      = ∑ u ∈ Finset.range N, (∑ w ∈ Finset.range N, T.get x w * star (P.get u w)) * star (T.get y u) := by
  rw [M.get_mul _ _ (by rw [M.mul_n, hT]; exact hx) (by rw [M.mul_n, hT]; exact hy), M.mul_n, hT]
  refine Finset.sum_congr rfl fun u hu => ?_
  have hu' := Finset.mem_range.mp hu
  rw [M.get_mul T P.dagger (by rw [hT]; exact hx) (by rw [hT]; exact hu'), hT,
    get_dagger T (by rw [hT]; exact hu') (by rw [hT]; exact hy)]
  congr 1
  refine Finset.sum_congr rfl fun w hw => ?_
  rw [get_dagger P (by rw [hP]; exact Finset.mem_range.mp hw) (by rw [hP]; exact hu')]

/-- single-qubit completeness for the order of `PAULI_MAPPING` -/
theorem pauli_complete1' {i : K} (hi : i * i = -1) (x' x c d : Nat) (hx' : x' < 2) (hx : x < 2)
    (hc : c < 2) (hd : d < 2) :
    ((Pauli.basisOrder.map fun p => (pauliM i p).get x' x * (pauliM i p).get c d).sum : K) =
      if x' = d ∧ x = c then 1 + 1 else 0 := by
  simp only [Pauli.basisOrder, List.map_cons, List.map_nil, List.sum_cons, List.sum_nil, pauliM]
  interval_cases x' <;> interval_cases x <;> interval_cases c <;> interval_cases d <;>
    simp <;> first | linear_combination hi | linear_combination (-1 : K) * hi

theorem pauli_complete' {i : K} (hi : i * i = -1) (k : Nat) {w u a b : Nat}
    (hw : w < 2 ^ (k + 1)) (hu : u < 2 ^ (k + 1)) (ha : a < 2 ^ (k + 1)) (hb : b < 2 ^ (k + 1)) :
    (((combineAll Pauli.basisOrder (k + 1)).map fun ps =>
        (pauliKron i ps).get w u * (pauliKron i ps).get a b).sum : K)
      = if w = b ∧ u = a then (1 + 1) ^ (k + 1) else 0 := by
  rw [← complete_lift Pauli.basisOrder (fun p => (pauliM i p).get) (fun p => (pauliM i p).get) (1 + 1)
    (pauli_complete1' hi) k hw hu ha hb]
  simp only [combineAll, Nat.add_sub_cancel]
  congr 1
  apply List.map_congr_left
  intro ps hps
  have hl := combos_length _ _ ps hps
  rw [pauliKron_get i ps (by rw [hl]; exact hw) (by rw [hl]; exact hu),
    pauliKron_get i ps (by rw [hl]; exact ha) (by rw [hl]; exact hb)]

theorem mem_basis_length {k : Nat} {ps : Meas} (h : ps ∈ combineAll Pauli.basisOrder (k + 1)) :
    ps.length = k + 1 := by
  simp only [combineAll, Nat.add_sub_cancel] at h
  exact combos_length _ _ ps h

/-- one term of the outer sum: `Σ_j α_ij tr(U U_i† U† ρ_j)` with `ρ_j = V ρ_in_j V†` -/
theorem gf_inner {i : K} (hs : star i = -i) (h2 : (1 + 1 : K) ≠ 0) (k : Nat) (T V : M K)
    (hT : T.n = 2 ^ (k + 1)) (hV : V.n = 2 ^ (k + 1)) (ps : Meas) (hps : ps.length = k + 1) :
    (((combineAll tomoInputsLI (k + 1)).map fun ins =>
        alphaN ps ins * trace (((T.mul (pauliKron i ps).dagger).mul T.dagger).mul
          (channel V (rhoKron i ins)))).sum : K)
      = ∑ x ∈ Finset.range (2 ^ (k + 1)), ∑ y ∈ Finset.range (2 ^ (k + 1)),
          ∑ b ∈ Finset.range (2 ^ (k + 1)), ∑ a ∈ Finset.range (2 ^ (k + 1)),
            ∑ u ∈ Finset.range (2 ^ (k + 1)), ∑ w ∈ Finset.range (2 ^ (k + 1)),
              (T.get x w * star (T.get y u) * V.get y a * star (V.get x b))
                * ((pauliKron i ps).get w u * (pauliKron i ps).get a b) := by
  set N := 2 ^ (k + 1) with hN
  have hP : (pauliKron i ps).n = N := by rw [pauliKron_n, hps]
  have hm : ((T.mul (pauliKron i ps).dagger).mul T.dagger).n = N := by rw [M.mul_n, M.mul_n, hT]
  -- each term, fully expanded
  have term : ∀ ins : Ins,
      alphaN ps ins * trace (((T.mul (pauliKron i ps).dagger).mul T.dagger).mul
          (channel V (rhoKron i ins)))
        = ∑ x ∈ Finset.range N, ∑ y ∈ Finset.range N, ∑ b ∈ Finset.range N, ∑ a ∈ Finset.range N,
            (((T.mul (pauliKron i ps).dagger).mul T.dagger).get x y * V.get y a * star (V.get x b))
              * (alphaN ps ins * (rhoKron i ins).get a b) := by
    intro ins
    rw [trace_mul' _ _ hm, Finset.mul_sum]
    refine Finset.sum_congr rfl fun x hx => ?_
    rw [Finset.mul_sum]
    refine Finset.sum_congr rfl fun y hy => ?_
    rw [get_channel V _ (by rw [hV]; exact Finset.mem_range.mp hy) (by rw [hV]; exact Finset.mem_range.mp hx),
      hV, Finset.mul_sum, Finset.mul_sum]
    refine Finset.sum_congr rfl fun b hb => ?_
    rw [Finset.sum_mul, Finset.mul_sum, Finset.mul_sum]
    refine Finset.sum_congr rfl fun a ha => ?_
    ring
  rw [List.map_congr_left (fun ins _ => term ins)]
  simp only [list_sum_finset_sum]
  refine Finset.sum_congr rfl fun x hx => Finset.sum_congr rfl fun y hy =>
    Finset.sum_congr rfl fun b hb => Finset.sum_congr rfl fun a ha => ?_
  rw [List.sum_map_mul_left,
    alpha_reconstruct h2 k ps hps (Finset.mem_range.mp ha) (Finset.mem_range.mp hb),
    get_twirl_factor T _ hT hP (Finset.mem_range.mp hx) (Finset.mem_range.mp hy),
    Finset.sum_mul, Finset.sum_mul, Finset.sum_mul]
  refine Finset.sum_congr rfl fun u hu => ?_
  rw [Finset.sum_mul, Finset.sum_mul, Finset.sum_mul, Finset.sum_mul]
  refine Finset.sum_congr rfl fun w hw => ?_
  rw [pauliKron_herm hs ps (by rw [hps]; exact Finset.mem_range.mp hu)
    (by rw [hps]; exact Finset.mem_range.mp hw)]
  ring

/-- the total of equation 19: `d · |tr(U†V)|²` -/
theorem gf_total {i : K} (hi : i * i = -1) (hs : star i = -i) (h2 : (1 + 1 : K) ≠ 0) (k : Nat)
    (T V : M K) (hT : T.n = 2 ^ (k + 1)) (hV : V.n = 2 ^ (k + 1)) :
    (((combineAll Pauli.basisOrder (k + 1)).map fun ps =>
        ((combineAll tomoInputsLI (k + 1)).map fun ins =>
          alphaN ps ins * trace (((T.mul (pauliKron i ps).dagger).mul T.dagger).mul
            (channel V (rhoKron i ins)))).sum).sum : K)
      = (1 + 1) ^ (k + 1) * (trace (T.dagger.mul V) * star (trace (T.dagger.mul V))) := by
  set N := 2 ^ (k + 1) with hN
  rw [List.map_congr_left (fun ps hps => gf_inner hs h2 k T V hT hV ps (mem_basis_length hps))]
  simp only [list_sum_finset_sum]
  -- the Pauli twirl, index by index
  have tw : ∀ x ∈ Finset.range N, ∀ y ∈ Finset.range N, ∀ b ∈ Finset.range N, ∀ a ∈ Finset.range N,
      (∑ u ∈ Finset.range N, ∑ w ∈ Finset.range N,
        ((combineAll Pauli.basisOrder (k + 1)).map fun ps =>
          (T.get x w * star (T.get y u) * V.get y a * star (V.get x b))
            * ((pauliKron i ps).get w u * (pauliKron i ps).get a b)).sum)
        = (T.get x b * star (V.get x b)) * (star (T.get y a) * V.get y a) * (1 + 1) ^ (k + 1) := by
    intro x _ y _ b hb a ha
    have e : ∀ u ∈ Finset.range N, (∑ w ∈ Finset.range N,
        ((combineAll Pauli.basisOrder (k + 1)).map fun ps =>
          (T.get x w * star (T.get y u) * V.get y a * star (V.get x b))
            * ((pauliKron i ps).get w u * (pauliKron i ps).get a b)).sum)
        = if u = a then (T.get x b * star (T.get y u) * V.get y a * star (V.get x b))
            * (1 + 1) ^ (k + 1) else 0 := by
      intro u hu
      have e2 : ∀ w ∈ Finset.range N,
          ((combineAll Pauli.basisOrder (k + 1)).map fun ps =>
            (T.get x w * star (T.get y u) * V.get y a * star (V.get x b))
              * ((pauliKron i ps).get w u * (pauliKron i ps).get a b)).sum
          = if w = b then (if u = a then (T.get x w * star (T.get y u) * V.get y a * star (V.get x b))
              * (1 + 1) ^ (k + 1) else 0) else 0 := by
        intro w hw
        rw [List.sum_map_mul_left, pauli_complete' hi k (Finset.mem_range.mp hw) (Finset.mem_range.mp hu)
          (Finset.mem_range.mp ha) (Finset.mem_range.mp hb)]
        by_cases h1 : w = b <;> by_cases h3 : u = a <;> simp [h1, h3]
      rw [Finset.sum_congr rfl e2, Finset.sum_ite_eq' _ b, if_pos hb]
    rw [Finset.sum_congr rfl e, Finset.sum_ite_eq' _ a, if_pos ha]
    ring
  rw [Finset.sum_congr rfl fun x hx => Finset.sum_congr rfl fun y hy =>
    Finset.sum_congr rfl fun b hb => Finset.sum_congr rfl fun a ha => tw x hx y hy b hb a ha]
  -- factor the four-fold sum
  have ht : trace (T.dagger.mul V)
      = ∑ y ∈ Finset.range N, ∑ a ∈ Finset.range N, star (T.get y a) * V.get y a := by
    have hTd : T.dagger.n = N := hT
    rw [trace_mul' _ _ hTd, Finset.sum_comm]
    refine Finset.sum_congr rfl fun y hy => Finset.sum_congr rfl fun a ha => ?_
    rw [get_dagger T (by rw [hT]; exact Finset.mem_range.mp ha) (by rw [hT]; exact Finset.mem_range.mp hy)]
  have hst : star (trace (T.dagger.mul V))
      = ∑ x ∈ Finset.range N, ∑ b ∈ Finset.range N, T.get x b * star (V.get x b) := by
    rw [ht, star_sum]
    refine Finset.sum_congr rfl fun y _ => ?_
    rw [star_sum]
    refine Finset.sum_congr rfl fun a _ => ?_
    rw [star_mul', star_star]
  rw [hst, ht]
  have inner : ∀ x ∈ Finset.range N, ∀ y ∈ Finset.range N,
      (∑ b ∈ Finset.range N, ∑ a ∈ Finset.range N,
        (T.get x b * star (V.get x b)) * (star (T.get y a) * V.get y a) * (1 + 1) ^ (k + 1))
        = (∑ b ∈ Finset.range N, T.get x b * star (V.get x b))
            * (∑ a ∈ Finset.range N, star (T.get y a) * V.get y a) * (1 + 1) ^ (k + 1) := by
    intro x _ y _
    rw [Finset.sum_mul_sum, Finset.sum_mul]
    refine Finset.sum_congr rfl fun b _ => ?_
    rw [Finset.sum_mul]
  rw [Finset.sum_congr rfl fun x hx => Finset.sum_congr rfl fun y hy => inner x hx y hy]
  simp only [← Finset.sum_mul, ← Finset.mul_sum]
  ring

/-- `GateFidelity.process(target)` on the exactly reconstructed output states of `ρ ↦ V ρ V†`
returns `(|tr(U†V)|² + d)/(d(d+1))` -/
theorem gate_fidelity_formula {i : K} (hi : i * i = -1) (hs : star i = -i) (h2 : (1 + 1 : K) ≠ 0)
    (k : Nat) (T V : M K) (hT : T.n = 2 ^ (k + 1)) (hV : V.n = 2 ^ (k + 1)) :
    gateFidelityOf i (k + 1) T ((combineAll tomoInputsLI (k + 1)).map fun ins =>
        (ins, channel V (rhoKron i ins)))
      = avgGateFidelity (k + 1) T V := by
  unfold gateFidelityOf avgGateFidelity
  simp only [lsum_eq_sum, List.map_map, Function.comp_def]
  rw [gf_total hi hs h2 k T V hT hV, twoPow_eq]
  set d : K := (1 + 1) ^ (k + 1) with hd
  have hd0 : d ≠ 0 := pow_ne_zero _ h2
  set t := trace (T.dagger.mul V)
  rw [show d * d * (d + 1) = d * (d * (d + 1)) by ring, mul_inv]
  linear_combination ((t * star t + d) * (d * (d + 1))⁻¹) * (mul_inv_cancel₀ hd0)

end LW.Tomo
