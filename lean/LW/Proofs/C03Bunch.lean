/-
  LW.Proofs.C03Bunch — closed form of the amplitude when all photons enter (or leave) through one
  mode: the photon-indexed sub-matrix has identical columns (rows), i.e. rank one, and the permanent
  of a rank-one matrix is `k! · ∏ aᵢ · ∏ bⱼ`.
-/
import LW.Proofs.C03

open scoped BigOperators
open Matrix

namespace LW.Proofs.C03

variable {K : Type} [CommRing K]

/-- permanent of a rank-one matrix -/
theorem permanent_rank_one {k : Nat} (a b : Fin k → K) :
    Matrix.permanent (Matrix.of fun i j => a i * b j) = (k.factorial : K) * (∏ i, a i) * ∏ j, b j := by
  unfold Matrix.permanent
  have h : ∀ σ : Equiv.Perm (Fin k), ∏ i, (Matrix.of fun i j => a i * b j) (σ i) i
      = (∏ i, a i) * ∏ j, b j := by
    intro σ
    simp only [Matrix.of_apply, Finset.prod_mul_distrib]
    congr 1
    exact Equiv.prod_comp σ a
  rw [Finset.sum_congr rfl fun σ _ => h σ, Finset.sum_const, Finset.card_univ, Fintype.card_perm,
    Fintype.card_fin, nsmul_eq_mul, mul_assoc]

/-- all `k` photons enter through mode `c`: the model's permanent is `k! · ∏ᵣ U[rowᵣ, c]` -/
theorem permRC_bunched_input (U : M K) (k : Nat) (rows : Fin k → Nat) (c : Nat) :
    permRC U (List.ofFn rows) (List.ofFn fun _ : Fin k => c)
      = (k.factorial : K) * ∏ r, U.get (rows r) c := by
  rw [permRC_eq_permanent U k rows fun _ => c]
  have := permanent_rank_one (fun r => U.get (rows r) c) (fun _ : Fin k => (1 : K))
  simp only [mul_one, Finset.prod_const_one] at this
  exact this

/-- all `k` photons leave through mode `r` -/
theorem permRC_bunched_output (U : M K) (k : Nat) (r : Nat) (cols : Fin k → Nat) :
    permRC U (List.ofFn fun _ : Fin k => r) (List.ofFn cols)
      = (k.factorial : K) * ∏ c, U.get r (cols c) := by
  rw [permRC_eq_permanent U k (fun _ => r) cols]
  have := permanent_rank_one (fun _ : Fin k => (1 : K)) (fun c => U.get r (cols c))
  simp only [one_mul, Finset.prod_const_one, mul_one] at this
  exact this

end LW.Proofs.C03
