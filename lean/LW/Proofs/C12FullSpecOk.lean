/-
  LW.Proofs.C12FullSpecOk — shared definitions for the proof of `convert_correct`:
  * `PrimOk` / `SpecOk`: the *positional* part of the documented parameter ranges (`Prim.Wf`
    without unitarity): enough for the matrix lemmas about `Circuit.add`, and satisfied by the
    gate library's blocks over ANY commutative ring and for ANY rotation parameters (a rotation
    block with arbitrary parameters need not be invertible, so `SpecWf` is not available);
  * `Tidy`: an optic without loss whose heralds are exactly its private ancillas, in order.
-/
import LW.Model.Abs
import LW.Model.CircuitSpec
import LW.Proofs.CircuitWf
import LW.Proofs.MatAlg2

namespace LW.C12F

open LW

variable {K : Type}

/-- positional well-formedness of a leaf component on `n` modes; only unitary blocks and mode
swaps occur in converted circuits -/
def PrimOk (n : Nat) : Prim K → Prop
  | .unitary m u => m + u.n ≤ n
  | .swaps σ => SwapsOk n σ
  | _ => False

/-- every leaf component (through groups) is positionally well formed -/
def SpecOk (n : Nat) (spec : List (Comp K)) : Prop := ∀ p ∈ flattenSpec spec, PrimOk n p

/-- an optic without loss whose heralds are exactly its private ancillas, in index order -/
structure Tidy [Zero K] (x : Optic K) : Prop where
  l0 : x.l = 0
  len : x.her.length = x.a
  idx : ∀ j (hj : j < x.her.length), (x.her[j]).i = x.p + j ∧ (x.her[j]).o = x.p + j
  wn : x.W.n = x.p + x.a
  wofn : x.W.IsOfFn

end LW.C12F
