/-
  C05 helper: the shape of a successful `analyze` run.
-/
import LW.Model.Analysis
import LW.Proofs.C03
import LW.Proofs.C05Aux

namespace LW.Proofs.C05
open LW

set_option linter.unusedSectionVars false

variable {K Q : Type} [CommRing K] [Field Q] [LinearOrder Q] [IsStrictOrderedRing Q]

/-- the outputs reported by `analyze` for validated inputs `ins` -/
def anOuts (i : K) (c : Circ K) (rules : List Rule) (ins : List FState) : List FState :=
  analyzerOutputs rules c.inputModes
    (match ins with
      | s :: _ => photons s
      | [] => 0)
    ((c.Ufull i).n - c.n != 0)

/-- a successful `analyze`: inputs validated to `ins`, probability table computed entry by entry
with `analyzerProb`, remaining fields by their defining formulas -/
theorem analyze_ok_form (i : K) (nsq : K → Q) (c : Circ K) (rules : List Rule)
    (inputs : List (List Occ)) (ex : Option (List (List FState))) (r : AnalysisResult Q)
    (h : analyze i nsq c rules inputs ex = .ok r) :
    ∃ ins : List FState,
      inputs.mapM (validateState c.inputModes) = .ok ins ∧
      r.outputs = anOuts i c rules ins ∧
      (ins.map fun s => addHeralds s c.inHer ++ List.replicate ((c.Ufull i).n - c.n) 0).mapM
        (fun fi => (r.outputs.map fun t => addHeralds t c.outHer).mapM fun fo =>
          analyzerProb nsq (c.Ufull i) ((c.Ufull i).n - c.n) fi fo) = .ok r.probs ∧
      r.performance = sumQ (r.probs.map sumQ) / ((ins.length : Nat) : Q) ∧
      r.errorRate = ex.map fun ex =>
        sumQ ((r.probs.zip ex).map fun (row, exps) =>
          exps.eraseDups.foldl (fun e o => match r.outputs.idxOf? o with
            | some k => e - row.getD k 0 / sumQ row
            | none => e) 1) /
          ((((r.probs.zip ex).map fun (row, exps) =>
          exps.eraseDups.foldl (fun e o => match r.outputs.idxOf? o with
            | some k => e - row.getD k 0 / sumQ row
            | none => e) 1).length : Nat) : Q) := by
  unfold analyze at h
  simp only [bind, Except.bind, throw, throwThe, MonadExceptOf.throw, pure, Except.pure] at h
  split at h
  · cases h
  · split at h
    · cases h
    · cases h1 : List.mapM (validateState c.inputModes) inputs with
      | error e => simp only [h1] at h; cases h
      | ok ins =>
        simp only [h1] at h
        change (if (anOuts i c rules ins).isEmpty = true then Except.error Err.value else _) =
          Except.ok r at h
        by_cases hemp : (anOuts i c rules ins).isEmpty = true
        · rw [if_pos hemp] at h; cases h
        · rw [if_neg hemp] at h
          split at h
          · cases h
          · rename_i probs hprobs
            cases h
            refine ⟨ins, rfl, rfl, hprobs, ?_, rfl⟩
            simp only [List.length_map]

/-! ### `mapM` in `Except`: lengths and members -/

theorem mapM_ok_length {α β ε : Type} (f : α → Except ε β) (l : List α) (r : List β)
    (h : l.mapM f = .ok r) : r.length = l.length :=
  ((C03.mapM_ok_iff f l r).1 h).length_eq.symm

theorem forall₂_exists_of_mem_right {α β : Type} {R : α → β → Prop} {l : List α} {r : List β}
    (h : List.Forall₂ R l r) {b : β} (hb : b ∈ r) : ∃ a ∈ l, R a b := by
  induction h with
  | nil => cases hb
  | cons h1 _ ih =>
    rcases List.mem_cons.1 hb with rfl | hb
    · exact ⟨_, by simp, h1⟩
    · obtain ⟨a, ha, hr⟩ := ih hb
      exact ⟨a, by simp [ha], hr⟩

theorem mapM_ok_mem {α β ε : Type} (f : α → Except ε β) (l : List α) (r : List β)
    (h : l.mapM f = .ok r) {b : β} (hb : b ∈ r) : ∃ a ∈ l, f a = .ok b :=
  forall₂_exists_of_mem_right ((C03.mapM_ok_iff f l r).1 h) hb

theorem analyze_performance_def (i : K) (nsq : K → Q) (c : Circ K) (rules : List Rule)
    (inputs : List (List Occ)) (ex : Option (List (List FState))) (r : AnalysisResult Q)
    (h : analyze i nsq c rules inputs ex = .ok r) :
    r.performance = sumQ (r.probs.map sumQ) / ((r.probs.length : Nat) : Q) ∧
    r.probs.length = inputs.length ∧
    (∀ row ∈ r.probs, row.length = r.outputs.length) ∧
    (r.errorRate.isSome ↔ ex.isSome) := by
  obtain ⟨ins, hins, _, hprobs, hperf, herr⟩ := analyze_ok_form i nsq c rules inputs ex r h
  have hl1 : ins.length = inputs.length := mapM_ok_length _ _ _ hins
  have hl2 : r.probs.length = ins.length := by
    rw [mapM_ok_length _ _ _ hprobs, List.length_map]
  refine ⟨by rw [hperf, hl2], by rw [hl2, hl1], ?_, ?_⟩
  · intro row hrow
    obtain ⟨fi, _, hfi⟩ := mapM_ok_mem _ _ _ hprobs hrow
    rw [mapM_ok_length _ _ _ hfi, List.length_map]
  · rw [herr, Option.isSome_map]

theorem analyze_error_rate_def (i : K) (nsq : K → Q) (c : Circ K) (rules : List Rule)
    (inputs : List (List Occ)) (ex : List (List FState)) (r : AnalysisResult Q)
    (h : analyze i nsq c rules inputs (some ex) = .ok r) :
    r.errorRate = some (sumQ ((r.probs.zip ex).map fun (row, exps) =>
        exps.eraseDups.foldl (fun e o => match r.outputs.idxOf? o with
          | some k => e - row.getD k 0 / sumQ row
          | none => e) 1) / (((r.probs.zip ex).length : Nat) : Q)) := by
  obtain ⟨ins, _, _, _, _, herr⟩ := analyze_ok_form i nsq c rules inputs (some ex) r h
  rw [herr, Option.map_some, List.length_map]

end LW.Proofs.C05
