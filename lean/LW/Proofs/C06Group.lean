/-
  LW.Proofs.C06Group — `group_empty_modes` finds exactly the maximal runs of at least two empty
  modes: what `_full_distribution` needs in order to treat a run as one block.
-/
import Mathlib.Data.List.Basic
import Mathlib.Data.List.Range
import Mathlib.Tactic.Linarith
import LW.Model.Source

set_option linter.unusedSectionVars false

namespace LW.Proofs.C06

open LW.Src

/-- number of leading zeros -/
def zerosRun (l : List Nat) : Nat := (l.takeWhile (· == 0)).length

theorem zerosRun_spec (l : List Nat) :
    (∀ j, j < zerosRun l → l.getD j 1 = 0) ∧ zerosRun l ≤ l.length ∧
      (zerosRun l < l.length → l.getD (zerosRun l) 0 ≠ 0) := by
  induction l with
  | nil => simp [zerosRun]
  | cons a l ih =>
    by_cases ha : a = 0
    · subst ha
      have hz : zerosRun (0 :: l) = zerosRun l + 1 := by simp [zerosRun]
      rw [hz]
      refine ⟨?_, by simpa using ih.2.1, ?_⟩
      · intro j hj
        cases j with
        | zero => simp
        | succ j => simpa using ih.1 j (by omega)
      · intro h
        simpa using ih.2.2 (by simpa using h)
    · have hz : zerosRun (a :: l) = 0 := by simp [zerosRun, ha]
      rw [hz]
      refine ⟨by intro j hj; omega, by simp, ?_⟩
      intro _
      simpa using ha

theorem getD_drop (s : List Nat) (i j d : Nat) : (s.drop i).getD j d = s.getD (i + j) d := by
  simp [List.getD_eq_getElem?_getD, List.getElem?_drop]

/-- what `_full_distribution` relies on: `ts` are exactly the non-initial modes of the groups, a
group is a maximal run of ≥ 2 empty modes inside the state, and group starts are not skipped -/
structure ValidGrouping (s : FState) (tg : List (Nat × List Nat)) (ts : List Nat) : Prop where
  skip_iff : ∀ k, k ∈ ts ↔ ∃ g ∈ tg, g.1 < k ∧ k < g.1 + g.2.length
  two_le : ∀ g ∈ tg, 2 ≤ g.2.length
  le_len : ∀ g ∈ tg, g.1 + g.2.length ≤ s.length
  zeros : ∀ g ∈ tg, ∀ k, g.1 ≤ k → k < g.1 + g.2.length → s.getD k 1 = 0
  maximal : ∀ g ∈ tg, g.1 + g.2.length < s.length → s.getD (g.1 + g.2.length) 0 ≠ 0
  start_not_skipped : ∀ g ∈ tg, g.1 ∉ ts

/-- the loop body of `group_empty_modes` -/
def gemStep (s : FState) (acc : List (Nat × List Nat) × List Nat) (i : Nat) :
    List (Nat × List Nat) × List Nat :=
  if acc.2.contains i || i == s.length - 1 then acc
  else if s.getD i 0 == 0 then
    if s.getD (i + 1) 0 > 0 then acc
    else
      let n := ((s.drop i).takeWhile (· == 0)).length
      (acc.1 ++ [(i, (List.range n).map (· + i))],
       acc.2 ++ (List.range (n - 1)).map (· + (i + 1)))
  else acc

theorem groupEmptyModes_eq (s : FState) :
    groupEmptyModes s = (List.range s.length).foldl (gemStep s) ([], []) := rfl

/-- invariant of the loop after the modes `< i` -/
structure GemInv (s : FState) (i : Nat) (tg : List (Nat × List Nat)) (ts : List Nat) : Prop
    extends ValidGrouping s tg ts where
  start_lt : ∀ g ∈ tg, g.1 < i

theorem gemStep_inv (s : FState) (i : Nat) (hi : i < s.length) (acc : List (Nat × List Nat) × List Nat)
    (h : GemInv s i acc.1 acc.2) : GemInv s (i + 1) (gemStep s acc i).1 (gemStep s acc i).2 := by
  have keep : GemInv s (i + 1) acc.1 acc.2 :=
    { h with start_lt := fun g hg => Nat.lt_succ_of_lt (h.start_lt g hg) }
  unfold gemStep
  by_cases h1 : (acc.2.contains i || i == s.length - 1) = true
  · rw [if_pos h1]; exact keep
  · rw [if_neg h1]
    by_cases h2 : (s.getD i 0 == 0) = true
    · rw [if_pos h2]
      by_cases h3 : s.getD (i + 1) 0 > 0
      · rw [if_pos h3]; exact keep
      · rw [if_neg h3]
        simp only [Bool.or_eq_true, List.contains_iff_mem, beq_iff_eq, not_or] at h1
        obtain ⟨hnot, hlast⟩ := h1
        have hsi : s.getD i 0 = 0 := by simpa using h2
        have hsi1 : s.getD (i + 1) 0 = 0 := by omega
        have hi1 : i + 1 < s.length := by omega
        obtain ⟨hz, hle, hmax⟩ := zerosRun_spec (s.drop i)
        set n := ((s.drop i).takeWhile (· == 0)).length with hn
        have hnz : zerosRun (s.drop i) = n := rfl
        rw [hnz] at hz hle hmax
        rw [List.length_drop] at hle hmax
        -- the run has at least two modes
        have hn2 : 2 ≤ n := by
          by_contra hcon
          have hlt : n < s.length - i := by omega
          have := hmax hlt
          rw [getD_drop] at this
          have hn01 : n = 0 ∨ n = 1 := by omega
          rcases hn01 with h0 | h1'
          · rw [h0] at this; exact this (by simpa using hsi)
          · rw [h1'] at this; exact this hsi1
        have hlen : ((List.range n).map (· + i)).length = n := by simp
        refine
          { skip_iff := ?_, two_le := ?_, le_len := ?_, zeros := ?_, maximal := ?_,
            start_not_skipped := ?_, start_lt := ?_ }
        · intro k
          simp only [List.mem_append, List.mem_map, List.mem_range, List.mem_singleton]
          constructor
          · rintro (hk | ⟨a, ha, rfl⟩)
            · obtain ⟨g, hg, hgk⟩ := (h.skip_iff k).1 hk
              exact ⟨g, Or.inl hg, hgk⟩
            · exact ⟨_, Or.inr rfl, by simp only [hlen]; omega⟩
          · rintro ⟨g, hg | rfl, hgk⟩
            · exact Or.inl ((h.skip_iff k).2 ⟨g, hg, hgk⟩)
            · simp only [hlen] at hgk
              exact Or.inr ⟨k - (i + 1), by omega, by omega⟩
        · intro g hg
          simp only [List.mem_append, List.mem_singleton] at hg
          rcases hg with hg | rfl
          · exact h.two_le g hg
          · simpa [hlen] using hn2
        · intro g hg
          simp only [List.mem_append, List.mem_singleton] at hg
          rcases hg with hg | rfl
          · exact h.le_len g hg
          · simp only [hlen]; omega
        · intro g hg k hk1 hk2
          simp only [List.mem_append, List.mem_singleton] at hg
          rcases hg with hg | rfl
          · exact h.zeros g hg k hk1 hk2
          · simp only [hlen] at hk2
            have := hz (k - i) (by omega)
            rw [getD_drop] at this
            have hki : i + (k - i) = k := by omega
            rwa [hki] at this
        · intro g hg hlt
          simp only [List.mem_append, List.mem_singleton] at hg
          rcases hg with hg | rfl
          · exact h.maximal g hg hlt
          · simp only [hlen] at hlt ⊢
            have := hmax (by omega)
            rwa [getD_drop] at this
        · intro g hg
          simp only [List.mem_append, List.mem_singleton, List.mem_map, List.mem_range] at hg ⊢
          rcases hg with hg | rfl
          · rintro (hk | ⟨a, _, ha⟩)
            · exact h.start_not_skipped g hg hk
            · have := h.start_lt g hg; omega
          · rintro (hk | ⟨a, _, ha⟩)
            · exact hnot hk
            · simp only at ha; omega
        · intro g hg
          simp only [List.mem_append, List.mem_singleton] at hg
          rcases hg with hg | rfl
          · exact Nat.lt_succ_of_lt (h.start_lt g hg)
          · exact Nat.lt_succ_self _
    · rw [if_neg h2]; exact keep

theorem gem_fold_inv (s : FState) (i : Nat) (hi : i ≤ s.length) :
    GemInv s i ((List.range i).foldl (gemStep s) ([], [])).1
      ((List.range i).foldl (gemStep s) ([], [])).2 := by
  induction i with
  | zero =>
    exact
      { skip_iff := by simp, two_le := by simp, le_len := by simp, zeros := by simp,
        maximal := by simp, start_not_skipped := by simp, start_lt := by simp }
  | succ i ih =>
    rw [List.range_succ, List.foldl_append, List.foldl_cons, List.foldl_nil]
    exact gemStep_inv s i (by omega) _ (ih (by omega))

/-- `group_empty_modes` returns a valid grouping -/
theorem groupEmptyModes_valid (s : FState) :
    ValidGrouping s (groupEmptyModes s).1 (groupEmptyModes s).2 :=
  (gem_fold_inv s s.length (le_refl _)).toValidGrouping

end LW.Proofs.C06
