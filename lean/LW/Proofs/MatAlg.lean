/-
  LW.Proofs.MatAlg — bridge from the materialised model matrices `LW.M K` to Mathlib's
  `Matrix (Fin n) (Fin n) K`, and the algebra shared by the property proofs.
-/
import Mathlib.LinearAlgebra.UnitaryGroup
import Mathlib.Algebra.BigOperators.Fin
import Mathlib.Algebra.Star.Basic
import LW.Model.CircuitSpec

open scoped BigOperators

namespace LW

variable {K : Type}

/-- the star of a star ring is the model's conjugation -/
instance instHasConjOfStar [Star K] : HasConj K := ⟨star⟩

namespace M

@[simp] theorem ofFn_n (n : Nat) (f : Nat → Nat → K) : (ofFn n f).n = n := rfl

/-- the one lemma through which all array reasoning goes -/
@[simp] theorem get_ofFn [Zero K] {n : Nat} (f : Nat → Nat → K) {i j : Nat} (hi : i < n) (hj : j < n) :
    (ofFn n f).get i j = f i j := by
  simp [ofFn, get, hi, hj]

theorem get_ofFn_of_ge_left [Zero K] {n : Nat} (f : Nat → Nat → K) {i j : Nat} (hi : n ≤ i) :
    (ofFn n f).get i j = 0 := by
  simp [ofFn, get, Array.getD, Nat.not_lt.mpr hi]

theorem ofFn_congr {n : Nat} {f g : Nat → Nat → K} (h : ∀ i j, i < n → j < n → f i j = g i j) :
    ofFn n f = ofFn n g := by
  unfold ofFn
  congr 1
  apply Array.ext (by simp)
  intro i h1 h2
  simp only [Array.getElem_ofFn]
  apply Array.ext (by simp)
  intro j h3 h4
  simp only [Array.getElem_ofFn]
  exact h _ _ (by simpa using h1) (by simpa using h3)

/-- the model matrix as a Mathlib matrix at its own dimension -/
def toMat [Zero K] (A : M K) : Matrix (Fin A.n) (Fin A.n) K := fun i j => A.get i j

/-- the model matrix read at a given dimension `N` -/
def toMatN [Zero K] (A : M K) (N : Nat) : Matrix (Fin N) (Fin N) K := fun i j => A.get i j

/-! ### sums, products, dimensions -/

theorem sumN_eq_sum [AddCommMonoid K] (n : Nat) (f : Nat → K) :
    sumN n f = ∑ k ∈ Finset.range n, f k := by
  induction n with
  | zero => rfl
  | succ n ih => rw [Finset.sum_range_succ, ← ih]; rfl

@[simp] theorem mul_n [Add K] [Mul K] [Zero K] (A B : M K) : (A.mul B).n = A.n := rfl
@[simp] theorem pad_n [Zero K] [One K] (A : M K) (k : Nat) : (A.pad k).n = A.n + k := rfl
@[simp] theorem lead_n [Zero K] (A : M K) (k : Nat) : (A.lead k).n = k := rfl
@[simp] theorem one_n [Zero K] [One K] (n : Nat) : (M.one n : M K).n = n := rfl

theorem get_mul [Semiring K] (A B : M K) {r c : Nat} (hr : r < A.n) (hc : c < A.n) :
    (A.mul B).get r c = ∑ k ∈ Finset.range A.n, A.get r k * B.get k c := by
  unfold mul
  rw [get_ofFn _ hr hc, sumN_eq_sum]

theorem get_one [Semiring K] {n r c : Nat} (hr : r < n) (hc : c < n) :
    (M.one n : M K).get r c = if r = c then 1 else 0 := by
  unfold one
  rw [get_ofFn _ hr hc]

theorem get_lead [Zero K] (A : M K) {k r c : Nat} (hr : r < k) (hc : c < k) :
    (A.lead k).get r c = A.get r c := by
  unfold lead
  rw [get_ofFn _ hr hc]

theorem get_pad [Semiring K] (A : M K) {k r c : Nat} (hr : r < A.n + k) (hc : c < A.n + k) :
    (A.pad k).get r c = if r < A.n ∧ c < A.n then A.get r c else if r = c then 1 else 0 := by
  unfold pad
  rw [get_ofFn _ hr hc]

end M

/-- unitarity of a model matrix, stated through Mathlib's unitary group -/
def IsUnitary [CommRing K] [StarRing K] (A : M K) : Prop :=
  A.toMat ∈ Matrix.unitaryGroup (Fin A.n) K

end LW
