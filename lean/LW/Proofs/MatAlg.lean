/-
  LW.Proofs.MatAlg — bridge from the materialised model matrices `LW.M K` to Mathlib's
  `Matrix (Fin n) (Fin n) K`, and the algebra shared by the property proofs.
-/
import Mathlib.LinearAlgebra.UnitaryGroup
import Mathlib.Algebra.BigOperators.Fin
import Mathlib.Algebra.Star.Basic
import LW.Model.CircuitSpec

open scoped BigOperators

namespace LW

variable {K : Type}

/-- the star of a star ring is the model's conjugation -/
instance instHasConjOfStar [Star K] : HasConj K := ⟨star⟩

namespace M

@[simp] theorem ofFn_n (n : Nat) (f : Nat → Nat → K) : (ofFn n f).n = n := rfl

/-- the one lemma through which all array reasoning goes -/
@[simp] theorem get_ofFn [Zero K] {n : Nat} (f : Nat → Nat → K) {i j : Nat} (hi : i < n) (hj : j < n) :
    (ofFn n f).get i j = f i j := by
  simp [ofFn, get, hi, hj]

theorem get_ofFn_of_ge_left [Zero K] {n : Nat} (f : Nat → Nat → K) {i j : Nat} (hi : n ≤ i) :
    (ofFn n f).get i j = 0 := by
  simp [ofFn, get, Array.getD, hi, Nat.not_lt.mpr hi]

theorem ofFn_congr {n : Nat} {f g : Nat → Nat → K} (h : ∀ i j, i < n → j < n → f i j = g i j) :
    ofFn n f = ofFn n g := by
  unfold ofFn
  congr 1
  apply Array.ext (by simp)
  intro i h1 h2
  simp only [Array.getElem_ofFn]
  apply Array.ext (by simp)
  intro j h3 h4
  simp only [Array.getElem_ofFn]
  exact h _ _ (by simpa using h1) (by simpa using h3)

/-- the model matrix as a Mathlib matrix at its own dimension -/
def toMat [Zero K] (A : M K) : Matrix (Fin A.n) (Fin A.n) K := fun i j => A.get i j

/-- the model matrix read at a given dimension `N` -/
def toMatN [Zero K] (A : M K) (N : Nat) : Matrix (Fin N) (Fin N) K := fun i j => A.get i j

end M

/-- unitarity of a model matrix, stated through Mathlib's unitary group -/
def IsUnitary [CommRing K] [StarRing K] (A : M K) : Prop :=
  A.toMat ∈ Matrix.unitaryGroup (Fin A.n) K

end LW
