/-
  LW.Proofs.MatAlg2 — further entrywise algebra of the model matrices: `sumN` as a `Finset` sum,
  entries of `mul`/`one`/`pad`/`permMat`/`embed*`, associativity of `M.mul`, and the action of
  permutation matrices given by a function `Nat → Nat`.
-/
import Mathlib.Algebra.BigOperators.Ring.Finset
import Mathlib.Algebra.BigOperators.Intervals
import LW.Proofs.MatAlg

open scoped BigOperators

namespace LW

variable {K : Type}

namespace M

/-- the matrix is materialised from its own entries (true of every matrix the model builds) -/
def IsOfFn [Zero K] (A : M K) : Prop := A = ofFn A.n A.get

theorem isOfFn_ofFn [Zero K] (n : Nat) (f : Nat → Nat → K) : (ofFn n f).IsOfFn := by
  show ofFn n f = ofFn n (ofFn n f).get
  apply ofFn_congr
  intro i j hi hj
  rw [get_ofFn _ hi hj]

/-- extensionality for materialised matrices -/
theorem ext_get [Zero K] {A B : M K} (hA : A.IsOfFn) (hB : B.IsOfFn) (hn : A.n = B.n)
    (h : ∀ i j, i < A.n → j < A.n → A.get i j = B.get i j) : A = B := by
  rw [hA, hB, ← hn]
  exact ofFn_congr h

variable [CommRing K]

theorem isOfFn_mul (A B : M K) : (A.mul B).IsOfFn := isOfFn_ofFn _ _
theorem isOfFn_one (n : Nat) : (M.one n : M K).IsOfFn := isOfFn_ofFn _ _
theorem isOfFn_pad (A : M K) (k : Nat) : (A.pad k).IsOfFn := isOfFn_ofFn _ _

theorem get_pad' (A : M K) (k : Nat) {i j : Nat} (hi : i < A.n + k) (hj : j < A.n + k) :
    (A.pad k).get i j = if i < A.n ∧ j < A.n then A.get i j else if i = j then 1 else 0 := by
  rw [pad, get_ofFn _ hi hj]

/-- two matrices of equal dimension with equal entries below the dimension, both built by `ofFn` -/
theorem mul_congr_right (A : M K) {B C : M K}
    (h : ∀ k j, k < A.n → j < A.n → B.get k j = C.get k j) : A.mul B = A.mul C := by
  unfold mul
  apply ofFn_congr
  intro i j _ hj
  rw [sumN_eq_sum, sumN_eq_sum]
  apply Finset.sum_congr rfl
  intro k hk
  rw [h k j (Finset.mem_range.mp hk) hj]

/-- associativity of the model product (all dimensions are taken from the left factor) -/
theorem mul_assoc' (A B C : M K) (h : B.n = A.n) : (A.mul B).mul C = A.mul (B.mul C) := by
  show ofFn A.n _ = ofFn A.n _
  apply ofFn_congr
  intro i j hi hj
  rw [sumN_eq_sum, sumN_eq_sum]
  simp only [mul_n]
  have e1 : ∀ k ∈ Finset.range A.n, (A.mul B).get i k * C.get k j
      = ∑ l ∈ Finset.range A.n, A.get i l * B.get l k * C.get k j := by
    intro k hk
    rw [get_mul A B hi (Finset.mem_range.mp hk), Finset.sum_mul]
  have e2 : ∀ l ∈ Finset.range A.n, A.get i l * (B.mul C).get l j
      = ∑ k ∈ Finset.range A.n, A.get i l * B.get l k * C.get k j := by
    intro l hl
    rw [get_mul B C (by rw [h]; exact Finset.mem_range.mp hl) (by rw [h]; exact hj), h,
      Finset.mul_sum]
    apply Finset.sum_congr rfl
    intro k _
    ring
  rw [Finset.sum_congr rfl e1, Finset.sum_congr rfl e2, Finset.sum_comm]

end M

/-! ### permutation matrices of a function on modes -/

/-- `t` is a permutation of `ℕ` with inverse `g` fixing every `k ≥ n` -/
structure PermBelow (n : Nat) (t g : Nat → Nat) : Prop where
  left : ∀ k, g (t k) = k
  right : ∀ k, t (g k) = k
  fix : ∀ k, n ≤ k → t k = k

namespace PermBelow
variable {n : Nat} {t g : Nat → Nat}

theorem inj (h : PermBelow n t g) {a b : Nat} (e : t a = t b) : a = b := by
  rw [← h.left a, e, h.left]

theorem eq_iff (h : PermBelow n t g) {a b : Nat} : t a = t b ↔ a = b :=
  ⟨h.inj, fun e => by rw [e]⟩

theorem fix_inv (h : PermBelow n t g) (k : Nat) (hk : n ≤ k) : g k = k := by
  have := h.left k
  rwa [h.fix k hk] at this

theorem symm (h : PermBelow n t g) : PermBelow n g t := ⟨h.right, h.left, h.fix_inv⟩

theorem mono (h : PermBelow n t g) {N : Nat} (hN : n ≤ N) : PermBelow N t g :=
  ⟨h.left, h.right, fun k hk => h.fix k (le_trans hN hk)⟩

theorem lt (h : PermBelow n t g) {N k : Nat} (hN : n ≤ N) (hk : k < N) : t k < N := by
  by_contra hc
  have h1 : t (t k) = t k := h.fix _ (le_trans hN (Nat.le_of_not_lt hc))
  have := h.inj h1
  omega

theorem eq_fixed_iff (h : PermBelow n t g) {m r : Nat} (hm : t m = m) : t r = m ↔ r = m := by
  constructor
  · intro e; rw [← hm] at e; exact h.inj e
  · intro e; rw [e, hm]

end PermBelow

section PermF
variable [CommRing K]

/-- permutation matrix of a function on modes: `P[t c, c] = 1` -/
def permF (t : Nat → Nat) (n : Nat) : M K := M.ofFn n fun r c => if t c = r then 1 else 0

theorem permMat_eq_permF (σ : Dict) (n : Nat) :
    (permMat σ n : M K) = permF (fun c => σ.getD c c) n := rfl

theorem isOfFn_permF (t : Nat → Nat) (n : Nat) : (permF t n : M K).IsOfFn := M.isOfFn_ofFn _ _

@[simp] theorem permF_n (t : Nat → Nat) (n : Nat) : (permF t n : M K).n = n := rfl

theorem get_permF (t : Nat → Nat) {n r c : Nat} (hr : r < n) (hc : c < n) :
    (permF t n : M K).get r c = if t c = r then 1 else 0 := by
  rw [permF, M.get_ofFn _ hr hc]

variable {n N : Nat} {t g : Nat → Nat}

/-- left multiplication by a permutation matrix permutes the rows -/
theorem permF_mul_get (h : PermBelow n t g) (hN : n ≤ N) (A : M K) {r c : Nat}
    (hr : r < N) (hc : c < N) : ((permF t N).mul A).get r c = A.get (g r) c := by
  rw [M.get_mul _ _ (by simpa using hr) (by simpa using hc), permF_n]
  rw [Finset.sum_eq_single (g r)]
  · rw [get_permF t hr (h.symm.lt hN hr), if_pos (h.right r), one_mul]
  · intro k hk hne
    rw [get_permF t hr (Finset.mem_range.mp hk), if_neg, zero_mul]
    intro e
    apply hne
    rw [← e, h.left]
  · intro hn
    exact absurd (Finset.mem_range.mpr (h.symm.lt hN hr)) hn

/-- right multiplication by a permutation matrix permutes the columns -/
theorem mul_permF_get (h : PermBelow n t g) (hN : n ≤ N) (A : M K) (hA : A.n = N) {r c : Nat}
    (hr : r < N) (hc : c < N) : (A.mul (permF t N)).get r c = A.get r (t c) := by
  rw [M.get_mul _ _ (by rw [hA]; exact hr) (by rw [hA]; exact hc), hA]
  rw [Finset.sum_eq_single (t c)]
  · rw [get_permF t (h.lt hN hc) hc, if_pos rfl, mul_one]
  · intro k hk hne
    rw [get_permF t (Finset.mem_range.mp hk) hc, if_neg (Ne.symm hne), mul_zero]
  · intro hn
    exact absurd (Finset.mem_range.mpr (h.lt hN hc)) hn

/-- composition of permutations is the product of the permutation matrices -/
theorem permF_mul_permF {t1 g1 : Nat → Nat} (h1 : PermBelow n t1 g1) (hN : n ≤ N)
    (t2 : Nat → Nat) : ((permF t2 N).mul (permF t1 N) : M K) = permF (fun c => t2 (t1 c)) N := by
  refine M.ext_get (M.isOfFn_mul _ _) (isOfFn_permF _ _) rfl ?_
  intro r c hr hc
  simp only [M.mul_n, permF_n] at hr hc
  rw [mul_permF_get h1 hN (permF t2 N : M K) rfl hr hc, get_permF t2 hr (h1.lt hN hc),
    get_permF _ hr hc]

/-- a matrix whose entries are invariant under the permutation commutes with its matrix -/
theorem permF_comm (h : PermBelow n t g) (hN : n ≤ N) (A : M K) (hA : A.n = N)
    (hinv : ∀ r c, r < N → c < N → A.get (t r) (t c) = A.get r c) :
    (permF t N).mul A = A.mul (permF t N) := by
  refine M.ext_get (M.isOfFn_mul _ _) (M.isOfFn_mul _ _) (by simp [hA]) ?_
  intro r c hr hc
  simp only [M.mul_n, permF_n] at hr hc
  rw [permF_mul_get h hN A hr hc, mul_permF_get h hN A hA hr hc,
    ← hinv (g r) c (h.symm.lt hN hr) hc, h.right]

/-- conjugating by a permutation re-indexes the entries -/
theorem permF_conj (h : PermBelow n t g) (hN : n ≤ N) (A : M K) (hA : A.n = N) :
    (permF g N).mul (A.mul (permF t N)) = M.ofFn N fun r c => A.get (t r) (t c) := by
  refine M.ext_get (M.isOfFn_mul _ _) (M.isOfFn_ofFn _ _) rfl ?_
  intro r c hr hc
  simp only [M.mul_n, permF_n] at hr hc
  rw [permF_mul_get h.symm hN _ hr hc, mul_permF_get h hN A hA (h.lt hN hr) hc,
    M.get_ofFn _ hr hc]

/-- appending an identity mode commutes with a row permutation of the old modes -/
theorem permF_mul_pad (h : PermBelow n t g) (U : M K) (hN : n ≤ U.n) :
    ((permF t U.n).mul U).pad 1 = (permF t (U.n + 1)).mul (U.pad 1) := by
  refine M.ext_get (M.isOfFn_pad _ _) (M.isOfFn_mul _ _) rfl ?_
  intro r c hr hc
  simp only [M.pad_n, M.mul_n, permF_n] at hr hc
  have hN1 : n ≤ U.n + 1 := Nat.le_succ_of_le hN
  rw [permF_mul_get h hN1 (U.pad 1) hr hc, M.get_pad' U 1 (h.symm.lt hN1 hr) hc,
    M.get_pad' _ 1 (by simpa using hr) (by simpa using hc)]
  simp only [M.mul_n, permF_n]
  by_cases hrN : r < U.n
  · have hg : g r < U.n := h.symm.lt hN hrN
    by_cases hcN : c < U.n
    · simp only [hrN, hcN, hg, and_self, if_true]
      exact (permF_mul_get h hN U hrN hcN)
    · have h1 : r ≠ c := by omega
      have h2 : g r ≠ c := by omega
      simp only [hcN, and_false, if_false, h1, h2]
  · have hg : g r = r := h.fix_inv r (by omega)
    simp only [hg, hrN, false_and, if_false]

end PermF

/-! ### entries of the embedded blocks and their invariance under mode permutations -/

section Embed
variable [CommRing K] {n N : Nat} {t g : Nat → Nat}

@[simp] theorem embed2_n (n m1 m2 : Nat) (a b c d : K) : (embed2 n m1 m2 a b c d).n = n := rfl
@[simp] theorem embed1_n (n m : Nat) (p : K) : (embed1 n m p).n = n := rfl
@[simp] theorem embedBlock_n (n m : Nat) (u : M K) : (embedBlock n m u).n = n := rfl
@[simp] theorem permMat_n (σ : Dict) (n : Nat) : (permMat σ n : M K).n = n := rfl

theorem get_embed2 (m1 m2 : Nat) (a b c d : K) {r k : Nat} (hr : r < n) (hk : k < n) :
    (embed2 n m1 m2 a b c d).get r k =
      if r = m1 ∧ k = m1 then a else if r = m1 ∧ k = m2 then b
      else if r = m2 ∧ k = m1 then c else if r = m2 ∧ k = m2 then d
      else if r = k then 1 else 0 := by
  rw [embed2, M.get_ofFn _ hr hk]

theorem get_embed1 (m : Nat) (p : K) {r k : Nat} (hr : r < n) (hk : k < n) :
    (embed1 n m p).get r k = if r = k then (if r = m then p else 1) else 0 := by
  rw [embed1, M.get_ofFn _ hr hk]

theorem get_embedBlock (m : Nat) (u : M K) {r k : Nat} (hr : r < n) (hk : k < n) :
    (embedBlock n m u).get r k =
      if m ≤ r ∧ r < m + u.n ∧ m ≤ k ∧ k < m + u.n then u.get (r - m) (k - m)
      else if r = k then 1 else 0 := by
  rw [embedBlock, M.get_ofFn _ hr hk]

theorem embed2_get_perm (h : PermBelow n t g) (hN : n ≤ N) (x y : Nat) (a b c d : K) {r k : Nat}
    (hr : r < N) (hk : k < N) :
    (embed2 N (t x) (t y) a b c d).get (t r) (t k) = (embed2 N x y a b c d).get r k := by
  rw [get_embed2 _ _ _ _ _ _ (h.lt hN hr) (h.lt hN hk), get_embed2 _ _ _ _ _ _ hr hk]
  simp only [h.eq_iff]

theorem embed1_get_perm (h : PermBelow n t g) (hN : n ≤ N) (x : Nat) (p : K) {r k : Nat}
    (hr : r < N) (hk : k < N) :
    (embed1 N (t x) p).get (t r) (t k) = (embed1 N x p).get r k := by
  rw [get_embed1 _ _ (h.lt hN hr) (h.lt hN hk), get_embed1 _ _ hr hk]
  simp only [h.eq_iff]

theorem one_get_perm (h : PermBelow n t g) (hN : n ≤ N) {r k : Nat} (hr : r < N) (hk : k < N) :
    (M.one N : M K).get (t r) (t k) = (M.one N : M K).get r k := by
  rw [M.get_one (h.lt hN hr) (h.lt hN hk), M.get_one hr hk]
  simp only [h.eq_iff]

theorem embedBlock_get_perm (h : PermBelow n t g) (hN : n ≤ N) (m : Nat) (u : M K)
    (hfix : ∀ x, m ≤ x → x < m + u.n → t x = x) {r k : Nat} (hr : r < N) (hk : k < N) :
    (embedBlock N m u).get (t r) (t k) = (embedBlock N m u).get r k := by
  rw [get_embedBlock _ _ (h.lt hN hr) (h.lt hN hk), get_embedBlock _ _ hr hk]
  have key : ∀ x, (m ≤ t x ∧ t x < m + u.n) ↔ (m ≤ x ∧ x < m + u.n) := by
    intro x
    constructor
    · intro ⟨h1, h2⟩
      have : t x = x := h.inj (hfix (t x) h1 h2)
      rw [this] at h1 h2
      exact ⟨h1, h2⟩
    · intro ⟨h1, h2⟩
      rw [hfix x h1 h2]
      exact ⟨h1, h2⟩
  by_cases hb : m ≤ r ∧ r < m + u.n ∧ m ≤ k ∧ k < m + u.n
  · have e1 := hfix r hb.1 hb.2.1
    have e2 := hfix k hb.2.2.1 hb.2.2.2
    rw [e1, e2]
  · have hb' : ¬(m ≤ t r ∧ t r < m + u.n ∧ m ≤ t k ∧ t k < m + u.n) := by
      intro hc
      exact hb ⟨((key r).mp ⟨hc.1, hc.2.1⟩).1, ((key r).mp ⟨hc.1, hc.2.1⟩).2,
        ((key k).mp hc.2.2).1, ((key k).mp hc.2.2).2⟩
    rw [if_neg hb, if_neg hb']
    simp only [h.eq_iff]

/-- the matrix of a permutation commuting with `t` is invariant under `t` -/
theorem permF_get_perm (h : PermBelow n t g) (hN : n ≤ N) (s : Nat → Nat)
    (hcomm : ∀ x, s (t x) = t (s x)) {r k : Nat} (hr : r < N) (hk : k < N) :
    (permF s N : M K).get (t r) (t k) = (permF s N : M K).get r k := by
  rw [get_permF _ (h.lt hN hr) (h.lt hN hk), get_permF _ hr hk, hcomm]
  simp only [h.eq_iff]

end Embed

end LW
