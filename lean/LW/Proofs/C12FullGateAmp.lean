/-
  LW.Proofs.C12FullGateAmp — the model's heralded amplitude `gateAmp` of a circuit is `∏ t_k!` times
  the coefficient amplitude of the circuit's substitution homomorphism in its closed layout.
-/
import LW.Proofs.C12FullPoly2

open MvPolynomial

namespace LW.C12F

open LW LW.Proofs.C02Sem

variable {R : Type} [CommRing R]

theorem gateAmp_eq_amp (i : R) (c : Circ R) (hwf : c.WF) (hio : c.outHer = c.inHer)
    (ins outs : List ℕ) (hi : ins.length = c.n - c.inHer.length)
    (ho : outs.length = c.n - c.inHer.length) :
    LW.Gates.gateAmp i c ins outs =
      ((factProd (outs ++ c.inHer.map (·.2)) : ℕ) : R) *
        amp (circHom i c) (outs ++ c.inHer.map (·.2)).toFinsupp
          (ins ++ c.inHer.map (·.2)).toFinsupp := by
  have hnd := hwf.inNodup
  have hlt := hwf.inLt
  have hle := her_length_le hnd hlt
  unfold LW.Gates.gateAmp LW.QF.permAmp
  rw [hio, permAmpFull_eq_amp' _ c.n _ _ (fullState_length _ _ _) (fullState_length _ _ _)]
  have hf : factProd (LW.QF.fullState c.inHer c.n outs) = factProd (outs ++ c.inHer.map (·.2)) :=
    fullState_factProd hnd hlt outs ho
  rw [hf, toFinsupp_fullState hnd hlt ins hi, toFinsupp_fullState hnd hlt outs ho]
  have key := amp_homOf_conj (c.Ufull i).get c.n (layout c.inHer c.n) (layout_injective hnd hlt)
    (fun y hy => layout_lt hnd hlt hy)
    (fun z hz => by
      obtain ⟨y, hy, e⟩ := layout_surj hnd hlt hz
      exact ⟨y, hy, e⟩) (outs ++ c.inHer.map (·.2)).toFinsupp (ins ++ c.inHer.map (·.2)).toFinsupp
    (by
      intro y hy
      have := List.toFinsupp_support_subset _ hy
      rw [Finset.mem_range, List.length_append, List.length_map, hi] at this
      omega)
  rw [key]
  rfl
end LW.C12F
