/-
  LW.Proofs.DictLemmas — association-list dictionaries, `sortNat`.
-/
import Mathlib.Data.List.Perm.Basic
import Mathlib.Data.List.Nodup
import LW.Model.Circuit

namespace LW

namespace Dict

theorem get?_of_not_mem_keys {d : Dict} {k : Nat} (h : k ∉ d.keys) : d.get? k = none := by
  unfold Dict.get?
  rw [Option.map_eq_none_iff, List.find?_eq_none]
  intro p hp hpk
  apply h
  simp only [Dict.keys, List.mem_map]
  exact ⟨p, hp, by simpa using hpk⟩

theorem getD_of_not_mem_keys {d : Dict} {k dflt : Nat} (h : k ∉ d.keys) : d.getD k dflt = dflt := by
  unfold Dict.getD
  rw [get?_of_not_mem_keys h]; rfl

/-- either `k` is not a key and the default is returned, or the value of some pair `(k, v)` -/
theorem getD_cases (d : Dict) (k : Nat) :
    (k ∉ d.keys ∧ d.getD k k = k) ∨ (∃ v, (k, v) ∈ d ∧ d.getD k k = v) := by
  by_cases hk : k ∈ d.keys
  · right
    unfold Dict.getD Dict.get?
    cases hf : d.find? (·.1 == k) with
    | none =>
      exfalso
      rw [List.find?_eq_none] at hf
      simp only [Dict.keys, List.mem_map] at hk
      obtain ⟨p, hp, hpk⟩ := hk
      exact hf p hp (by simp [hpk])
    | some p =>
      have h1 := List.find?_some hf
      have h2 := List.mem_of_find?_eq_some hf
      have h3 : p.1 = k := by simpa using h1
      refine ⟨p.2, ?_, rfl⟩
      rw [← h3]; exact h2
  · exact Or.inl ⟨hk, getD_of_not_mem_keys hk⟩

theorem mem_keys_of_mem {d : Dict} {k v : Nat} (h : (k, v) ∈ d) : k ∈ d.keys :=
  List.mem_map.mpr ⟨(k, v), h, rfl⟩

theorem mem_vals_of_mem {d : Dict} {k v : Nat} (h : (k, v) ∈ d) : v ∈ d.vals :=
  List.mem_map.mpr ⟨(k, v), h, rfl⟩

/-- a dictionary whose values are a rearrangement of its keys acts injectively -/
theorem getD_injective {d : Dict} (hperm : d.keys.Perm d.vals) (hnd : d.keys.Nodup) {a b : Nat}
    (h : d.getD a a = d.getD b b) : a = b := by
  have hvnd : d.vals.Nodup := hperm.nodup_iff.mp hnd
  rcases getD_cases d a with ⟨ha, ea⟩ | ⟨va, hma, ea⟩ <;>
    rcases getD_cases d b with ⟨hb, eb⟩ | ⟨vb, hmb, eb⟩
  · rw [ea, eb] at h; exact h
  · rw [ea, eb] at h
    exact absurd (hperm.mem_iff.mpr (h ▸ mem_vals_of_mem hmb)) ha
  · rw [ea, eb] at h
    exact absurd (hperm.mem_iff.mpr (h ▸ mem_vals_of_mem hma)) hb
  · rw [ea, eb] at h
    have := List.inj_on_of_nodup_map (f := fun p : Nat × Nat => p.2) hvnd hma hmb h
    exact congrArg Prod.fst this

theorem getD_lt {d : Dict} {N : Nat} (hperm : d.keys.Perm d.vals) (hlt : ∀ k ∈ d.keys, k < N)
    {a : Nat} (ha : a < N) : d.getD a a < N := by
  rcases getD_cases d a with ⟨_, ea⟩ | ⟨va, hma, ea⟩
  · rw [ea]; exact ha
  · rw [ea]; exact hlt _ (hperm.mem_iff.mpr (mem_vals_of_mem hma))

/-! ### dictionary assignment -/

theorem contains_iff {d : Dict} {k : Nat} : d.contains k = true ↔ k ∈ d.keys := by
  unfold Dict.contains Dict.keys
  simp only [List.any_eq_true, List.mem_map, beq_iff_eq]

theorem keys_set (d : Dict) (k v : Nat) :
    (d.set k v).keys = if d.contains k then d.keys else d.keys ++ [k] := by
  unfold Dict.set
  split
  · unfold Dict.keys
    rw [List.map_map]
    apply List.map_congr_left
    intro p _
    by_cases h : p.1 = k <;> simp [h]
  · simp [Dict.keys]

/-- invariant preserved by `d[k] = v`: keys distinct and all satisfying `Q` -/
theorem set_inv {Q : Nat → Prop} {d : Dict} {k v : Nat} (hnd : d.keys.Nodup)
    (hQ : ∀ x ∈ d.keys, Q x) (hk : Q k) :
    (d.set k v).keys.Nodup ∧ ∀ x ∈ (d.set k v).keys, Q x := by
  rw [keys_set]
  split
  · exact ⟨hnd, hQ⟩
  · rename_i hc
    have hk' : k ∉ d.keys := fun h => hc (contains_iff.mpr h)
    refine ⟨?_, ?_⟩
    · rw [List.nodup_append]
      refine ⟨hnd, List.nodup_singleton k, ?_⟩
      intro a ha b hb
      rw [List.mem_singleton] at hb
      subst hb
      exact fun h => hk' (h ▸ ha)
    · intro x hx
      rcases List.mem_append.mp hx with h | h
      · exact hQ x h
      · rw [List.mem_singleton] at h; subst h; exact hk

theorem foldl_set_inv {Q : Nat → Prop} (ps : List (Nat × Nat)) (d : Dict) (hnd : d.keys.Nodup)
    (hQ : ∀ x ∈ d.keys, Q x) (hps : ∀ p ∈ ps, Q p.1) :
    (ps.foldl (fun d p => d.set p.1 p.2) d).keys.Nodup ∧
      ∀ x ∈ (ps.foldl (fun d p => d.set p.1 p.2) d).keys, Q x := by
  induction ps generalizing d with
  | nil => exact ⟨hnd, hQ⟩
  | cons p ps ih =>
    rw [List.foldl_cons]
    obtain ⟨h1, h2⟩ := set_inv (v := p.2) hnd hQ (hps p List.mem_cons_self)
    exact ih _ h1 h2 (fun q hq => hps q (List.mem_cons_of_mem _ hq))

theorem ofPairs_inv {Q : Nat → Prop} (ps : List (Nat × Nat)) (hps : ∀ p ∈ ps, Q p.1) :
    (Dict.ofPairs ps).keys.Nodup ∧ ∀ x ∈ (Dict.ofPairs ps).keys, Q x :=
  foldl_set_inv ps [] List.nodup_nil (fun _ h => by cases h) hps

end Dict

/-! ### sorting -/

theorem insertSorted_perm (x : Nat) (l : List Nat) : (insertSorted x l).Perm (x :: l) := by
  induction l with
  | nil => exact List.Perm.refl _
  | cons y ys ih =>
    unfold insertSorted
    split
    · exact List.Perm.refl _
    · exact (List.Perm.cons y ih).trans (List.Perm.swap x y ys)

theorem sortNat_perm (l : List Nat) : (sortNat l).Perm l := by
  induction l with
  | nil => exact List.Perm.refl _
  | cons x xs ih =>
    show (insertSorted x (sortNat xs)).Perm (x :: xs)
    exact (insertSorted_perm x _).trans (List.Perm.cons x ih)

theorem perm_of_sortNat_eq {l₁ l₂ : List Nat} (h : sortNat l₁ = sortNat l₂) : l₁.Perm l₂ :=
  (sortNat_perm l₁).symm.trans (h ▸ sortNat_perm l₂)

/-! ### `mapM` in `Except` -/

theorem mapM_ok_forall {α β ε : Type} {f : α → Except ε β} {P : β → Prop}
    (hf : ∀ a b, f a = .ok b → P b) (l : List α) (r : List β) (h : l.mapM f = .ok r) :
    ∀ b ∈ r, P b := by
  induction l generalizing r with
  | nil =>
    rw [List.mapM_nil] at h
    cases h
    intro b hb; cases hb
  | cons a as ih =>
    rw [List.mapM_cons] at h
    cases ha : f a with
    | error e => simp [ha, bind, Except.bind] at h
    | ok b0 =>
      cases has : as.mapM f with
      | error e => simp [ha, has, bind, Except.bind] at h
      | ok bs =>
        simp only [ha, has, bind, Except.bind, pure, Except.pure, Except.ok.injEq] at h
        subst h
        intro b hb
        rcases List.mem_cons.mp hb with rfl | hb
        · exact hf a _ ha
        · exact ih bs has b hb

end LW
