/-
  LW.Proofs.C15Full5 — the corrected circuits clause of C15 in its final form: the circuit
  `_create_circuit` returns is the base with an explicit list of unitary components appended
  (`railSpec`: for each qubit, the 2×2 unitaries of its basis change, stretched over the ancillas
  lying between the two rails of the qubit), and its `U_full` is the base's followed by those 2×2
  unitaries on the full modes `_map_mode(2k)`, `_map_mode(2k+1)`.
-/
import LW.Proofs.C15Full4
import LW.Proofs.Reach

namespace LW.Tomo

open LW.Proofs.C02

variable {K : Type} [CommRing K]

set_option linter.unusedSectionVars false

/-- the components `_create_circuit` appends to the base for the setting `s`: for qubit `k` with
operator `g`, one `Unitary` component per 2×2 matrix `u` of `MEASUREMENT_MAPPING[g]`, placed at the
full mode of the first rail and stretched (`add_mode_to_unitary`) over the `railGap` ancillas between
the two rails -/
def railSpec (i h : K) (base : Circ K) (s : Meas) : List (Comp K) :=
  ((List.range s.length).zip s).flatMap fun ks =>
    (measUs i h ks.2).map fun u =>
      Comp.prim (.unitary (base.mapMode (2 * (ks.1 : Int))).toNat
        (stretchU (railGap base (2 * ks.1)) u))

theorem stretchedSpec_railSpec (i h : K) (base : Circ K) (s : Meas) :
    stretchedSpec i h base 0 s = railSpec i h base s := by
  rw [stretchedSpec_eq, railSpec, ← List.range_eq_range']
  apply flatMap_congr_fun
  intro ks
  rw [measCirc_spec, stretchSpec_unitaries _ (measUs_n i h ks.2), List.map_map]
  apply List.map_congr_left
  intro u _
  have e : ((2 * ks.1 : Nat) : Int) = 2 * (ks.1 : Int) := by push_cast; rfl
  simp [Comp.shift, Prim.shift, e]
where
  flatMap_congr_fun {α β : Type} {l : List α} {f g : α → List β} (hfg : ∀ a, f a = g a) :
      l.flatMap f = l.flatMap g := by
    rw [show f = g from funext hfg]

/-- one appended component acts as the 2×2 unitary `u` on the full modes `a` and `a + t + 1`
(identity on every other mode — in particular on the `t` ancillas in between) -/
theorem railComp_compile (i : K) (U : M K) (a t : Nat) (u : M K) (hu : u.n = 2) :
    compileComp i U (.prim (.unitary a (stretchU t u)))
      = (embed2 U.n a (a + t + 1) (u.get 0 0) (u.get 0 1) (u.get 1 0) (u.get 1 1)).mul U := by
  rw [compileComp_unitary, embedBlock_stretchU _ _ _ _ hu]

/-- the corrected circuits clause, for every base circuit satisfying the bookkeeping invariant -/
theorem requested_circuits_corrected (i h : K) (nQ : Nat) (base : Circ K) (s : Meas)
    (hwf : base.WF) (hin : base.inputModes = 2 * nQ) (hs : s.length = nQ) :
    ∃ c, createCircuit nQ base (s.map (measCirc i h)) = .ok c ∧
      c = { base with spec := base.spec ++ railSpec i h base s } ∧
      c.n = base.n ∧ c.inHer = base.inHer ∧ c.outHer = base.outHer ∧ c.internal = base.internal ∧
      Circ.Ufull i c = ((List.range nQ).zip s).foldl
        (fun U ks => (measUs i h ks.2).foldl
          (fun U u =>
            (embed2 U.n (base.mapMode (2 * (ks.1 : Int))).toNat
              (base.mapMode (2 * (ks.1 : Int) + 1)).toNat
              (u.get 0 0) (u.get 0 1) (u.get 1 0) (u.get 1 1)).mul U) U)
        (base.Ufull i) := by
  obtain ⟨c, h1, _, _, _, _, h6⟩ := requested_circuits_matrix i h nQ base s hwf hin hs
  have hc : c = { base with spec := base.spec ++ railSpec i h base s } := by
    rw [createCircuit_stretch i h nQ base hwf hin s hs, stretchedSpec_railSpec] at h1
    injection h1 with h1
    exact h1.symm
  refine ⟨c, h1, hc, ?_, ?_, ?_, ?_, h6⟩ <;> rw [hc]

/-- the images of the two rails of a qubit: `_map_mode(2k+1) = _map_mode(2k) + railGap + 1` -/
theorem railGap_rails (base : Circ K) (k : Nat) :
    (base.mapMode (2 * (k : Int))).toNat + railGap base (2 * k) + 1
      = (base.mapMode (2 * (k : Int) + 1)).toNat := by
  have := railGap_spec base (2 * k)
  push_cast at this
  exact this

/-- … in particular for every circuit constructible through the API -/
theorem requested_circuits_reach [StarRing K] (i h : K) (nQ : Nat) (base : Circ K) (s : Meas)
    (hreach : Reach base) (hin : base.inputModes = 2 * nQ) (hs : s.length = nQ) :
    ∃ c, createCircuit nQ base (s.map (measCirc i h)) = .ok c ∧
      c = { base with spec := base.spec ++ railSpec i h base s } ∧
      c.n = base.n ∧ c.inHer = base.inHer ∧ c.outHer = base.outHer ∧ c.internal = base.internal ∧
      Circ.Ufull i c = ((List.range nQ).zip s).foldl
        (fun U ks => (measUs i h ks.2).foldl
          (fun U u =>
            (embed2 U.n (base.mapMode (2 * (ks.1 : Int))).toNat
              (base.mapMode (2 * (ks.1 : Int) + 1)).toNat
              (u.get 0 0) (u.get 0 1) (u.get 1 0) (u.get 1 1)).mul U) U)
        (base.Ufull i) :=
  requested_circuits_corrected i h nQ base s (Proofs.Reach.reach_WF base hreach) hin hs

end LW.Tomo
