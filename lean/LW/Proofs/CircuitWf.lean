/-
  LW.Proofs.CircuitWf — well-formedness predicates on components (the documented parameter
  ranges of C01, expressed on the model's algebraic inputs, DESIGN §3.1).
-/
import LW.Proofs.MatAlg

namespace LW

variable {K : Type} [CommRing K] [StarRing K]

/-- a swap dictionary is a permutation of a set of modes `< n` -/
def SwapsOk (n : Nat) (σ : Dict) : Prop :=
  σ.keys.Nodup ∧ σ.keys.Perm σ.vals ∧ ∀ k ∈ σ.keys, k < n

/-- the documented parameter ranges, on `n` real modes.
`i` is the imaginary unit used by the `Rx` beam splitter. -/
def Prim.Wf (n : Nat) : Prim K → Prop
  | .bs m1 m2 c s _ => m1 < n ∧ m2 < n ∧ m1 ≠ m2 ∧ star c = c ∧ star s = s ∧ c * c + s * s = 1
  | .ps m p => m < n ∧ p * star p = 1
  | .loss m a b => m < n ∧ star a = a ∧ star b = b ∧ a * a + b * b = 1
  | .barrier ms => ∀ m ∈ ms, m < n
  | .swaps σ => SwapsOk n σ
  | .unitary m u => m + u.n ≤ n ∧ IsUnitary u

def Comp.Wf (n : Nat) : Comp K → Prop
  | .prim p => p.Wf n
  | .group cs _ _ _ _ => ∀ p ∈ cs, p.Wf n

def SpecWf (n : Nat) (spec : List (Comp K)) : Prop := ∀ c ∈ spec, c.Wf n

/-- `i` behaves as the imaginary unit -/
structure IsImagUnit (i : K) : Prop where
  sq : i * i = -1
  star : star i = -i

end LW
