/-
  LW.Proofs.C05 — proofs of the C05 property theorems (Analyzer / QuickSampler / Sampler /
  Simulator consistency).
-/
import LW.Model.Analysis
import LW.Proofs.C04a
import LW.Proofs.C03
import LW.Proofs.C05Aux
import LW.Proofs.C05Analyze
import LW.Proofs.C05Quick
import LW.Proofs.C05Err
import LW.Proofs.C05ErrAnalyze
namespace LW.Proofs.C05
open LW

-- the property lemmas keep the binder list of LW/Properties/C05.lean even where an instance is unused
set_option linter.unusedSectionVars false
set_option linter.unusedVariables false

variable {K Q : Type} [CommRing K] [Field Q] [LinearOrder Q] [IsStrictOrderedRing Q]

/-! ### `analyzerProb` -/

theorem transProb_nonneg (nsq : K → Q) (hn : ∀ z, 0 ≤ nsq z) (U : M K) (a b : FState) :
    0 ≤ transProb nsq U a b := by
  unfold transProb
  exact div_nonneg (hn _) (Nat.cast_nonneg _)

theorem analyzerProb_eq_marginal (nsq : K → Q) (U : M K) (lossModes : Nat) (fin fo : FState)
    (hle : photons fo ≤ photons fin) :
    analyzerProb nsq U lossModes fin fo =
      .ok (((fockBasis lossModes (photons fin - photons fo)).map fun ls =>
              transProb nsq U fin (fo ++ ls)).sum) ∨
    (lossModes = 0 ∧ analyzerProb nsq U lossModes fin fo = .ok (transProb nsq U fin fo)) := by
  unfold analyzerProb
  by_cases h0 : lossModes = 0
  · right
    exact ⟨h0, by rw [if_pos h0]⟩
  · left
    rw [if_neg h0]
    by_cases h1 : photons fin = photons fo
    · rw [if_pos h1, h1, Nat.sub_self]
      obtain ⟨L, rfl⟩ : ∃ L, lossModes = L + 1 := ⟨lossModes - 1, by omega⟩
      rw [fockBasis_zero_photons]
      simp
    · rw [if_neg h1, if_neg (by omega), foldl_add_map_eq_sum, zero_add]

theorem analyzerProb_rejects (nsq : K → Q) (U : M K) (lossModes : Nat) (fin fo : FState)
    (hl : lossModes ≠ 0) (hgt : photons fin < photons fo) :
    analyzerProb nsq U lossModes fin fo = .error .photonNumber := by
  unfold analyzerProb
  rw [if_neg hl, if_neg (by omega), if_pos hgt]

theorem analyzer_eq_sampler (nsq : K → Q) (hn : ∀ z, 0 ≤ nsq z) (U : M K) (nReal : Nat)
    (input fo : FState) (hin : input.length = nReal) (hfo : fo.length = nReal) (hU : nReal < U.n)
    (hpos : 0 < nReal) (hp : photons fo ≠ 0) (hle : photons fo ≤ photons input) :
    analyzerProb nsq U (U.n - nReal) (input ++ List.replicate (U.n - nReal) 0) fo =
      .ok (((fullDistPermanent nsq 0 U nReal input).get? fo).getD 0) := by
  have hL : 0 < U.n - nReal := by omega
  have hph : photons (input ++ List.replicate (U.n - nReal) 0) = photons input := by
    rw [C04a.photons_append, C04a.photons_replicate_zero, Nat.add_zero]
  have hlen : (input ++ List.replicate (U.n - nReal) 0).length = nReal + (U.n - nReal) := by
    rw [List.length_append, List.length_replicate, hin]
  rcases analyzerProb_eq_marginal nsq U (U.n - nReal) (input ++ List.replicate (U.n - nReal) 0) fo
    (by rw [hph]; exact hle) with h | ⟨h, _⟩
  · rw [h]
    congr 1
    have hm := C04a.fullDistPermanent_marginal nsq 0 U nReal input (by omega) fo hp
    simp only at hm
    rw [hm, sum_filter_pos _ _ (fun o => o.take nReal = fo)
      (fun o _ => transProb_nonneg nsq hn U _ o), hlen, hph]
    rw [show (fun ls => transProb nsq U (input ++ List.replicate (U.n - nReal) 0) (fo ++ ls)) =
        (transProb nsq U (input ++ List.replicate (U.n - nReal) 0)) ∘ (fun ls => fo ++ ls) from rfl,
      ← List.map_map]
    apply sum_eq_of_nodup_of_mem_iff
    · exact (C03.fockBasis_nodup _ _).map (fun a b hab => List.append_cancel_left hab)
    · exact (C03.fockBasis_nodup _ _).filter _
    · intro o
      exact (mem_fockBasis_take_iff nReal (U.n - nReal) (photons input) hL fo hfo hle o).symm
  · omega

/-! ### `analyzerOutputs` -/

theorem analyzerOutputs_spec (rules : List Rule) (im n : Nat) (lossy : Bool) (t : FState) :
    t ∈ analyzerOutputs rules im n lossy ↔
      psValidate rules t = true ∧
      (if lossy then ∃ k ≤ n, t ∈ fockBasis im k else t ∈ fockBasis im n) := by
  unfold analyzerOutputs
  cases lossy with
  | false => simp [List.mem_filter, and_comm]
  | true =>
    simp only [if_true, List.mem_filter, List.mem_flatMap, List.mem_range, Nat.lt_succ_iff]
    exact and_comm

/-! ### simulator amplitudes vs sampler probabilities -/

theorem sim_sq_eq_sampler (nsq : K → Q) (U : M K) (nReal : Nat) (input t : FState)
    (hU : U.n = nReal) (hin : input.length = nReal) (ht : t.length = nReal) (hpos : 0 < nReal)
    (hp : photons t = photons input) (hne : photons input ≠ 0) (hpp : 0 < transProb nsq U input t) :
    ((fullDistPermanent nsq 0 U nReal input).get? t).getD 0 =
      nsq (ampNum U input t) / ((ampNormSq input t : Nat) : Q) := by
  have hm := C04a.fullDistPermanent_marginal nsq 0 U nReal input hne t (by omega)
  simp only at hm
  have hz : input ++ List.replicate (U.n - nReal) 0 = input := by
    rw [hU, Nat.sub_self]; simp
  rw [hz, hin] at hm
  rw [hm]
  have hmem : t ∈ fockBasis nReal (photons input) :=
    (C03.fockBasis_complete _ _ hpos t).2 ⟨ht, hp⟩
  rw [sum_filter_eq_single (transProb nsq U input) _ (C03.fockBasis_nodup _ _) t hmem
    (fun o => 0 < transProb nsq U input o) hpp (fun o => o.take nReal)]
  · rfl
  · intro o ho
    rw [← ((C03.fockBasis_complete _ _ hpos o).1 ho).1, List.take_length]

/-! ### non-vacuity: the hypotheses hold on a concrete lossy instance
`K = Q = ℚ`, `|z|² := z·z`; two circuit modes with the real beam splitter `[[3/5, 4/5], [4/5, -3/5]]`
followed by a loss element (`a = 3/5`, `b = 4/5`, i.e. 64 % loss) on mode 0, hence one loss mode and
an orthogonal 3×3 `Ufull`; `cex0` is the same circuit without the loss element. -/

section NonVacuity

private def cex : Circ Rat :=
  { n := 2, spec := [.prim (.bs 0 1 (3/5) (4/5) .h), .prim (.loss 0 (3/5) (4/5))] }
private def cex0 : Circ Rat := { n := 2, spec := [.prim (.bs 0 1 (3/5) (4/5) .h)] }
private def nsqex : Rat → Rat := fun z => z * z

private theorem nsqex_nonneg : ∀ z, 0 ≤ nsqex z := fun z => mul_self_nonneg z

/-- analyzer = sampler on `|1,1⟩ → |1,0⟩` (one photon lost) -/
example :
    analyzerProb nsqex (cex.Ufull 0) ((cex.Ufull 0).n - 2)
        ([1, 1] ++ List.replicate ((cex.Ufull 0).n - 2) 0) [1, 0] =
      .ok (((fullDistPermanent nsqex 0 (cex.Ufull 0) 2 [1, 1]).get? [1, 0]).getD 0) :=
  analyzer_eq_sampler nsqex nsqex_nonneg (cex.Ufull 0) 2 [1, 1] [1, 0] rfl rfl
    (by decide +kernel) (by decide) (by decide) (by decide)

example : analyzerProb nsqex (cex.Ufull 0) 1 [1, 1, 0] [1, 0] = .ok (82944 / 390625) := by
  decide +kernel

example : analyzerProb nsqex (cex.Ufull 0) 1 [1, 0, 0] [1, 1] = .error .photonNumber :=
  analyzerProb_rejects nsqex (cex.Ufull 0) 1 [1, 0, 0] [1, 1] (by decide) (by decide)

/-- the quick sampler succeeds on `|1,1⟩` and its entries sum to one -/
example : quickDist 0 nsqex 0 cex [] true [1, 1] =
    .ok [([2, 0], 864 / 7939), ([1, 1], 1225 / 23817), ([0, 2], 20000 / 23817)] := by
  decide +kernel

example (d : PDist Rat) (h : quickDist 0 nsqex 0 cex [] true [1, 1] = .ok d) :
    (d.map (·.2)).sum = 1 :=
  (quickDist_spec 0 nsqex 0 le_rfl cex [] true [1, 1] d h).2.2

/-- threshold detection with a post-selection rule on mode 0 -/
example : quickDist 0 nsqex 0 cex [⟨[0], [1, 2]⟩] false [1, 1] = .ok [([1, 1], 1)] := by
  decide +kernel

/-- `analyze` succeeds on `|1,1⟩` with expected output `|1,1⟩` -/
example : (analyze 0 nsqex cex [] [[.int 1, .int 1]] (some [[[1, 1]]])).map
      (fun r => (r.outputs, r.performance, r.errorRate)) =
    .ok ([[0, 0], [1, 0], [0, 1], [2, 0], [1, 1], [0, 2]], 1, some (15184 / 15625)) := by
  decide +kernel

/-- lossless circuit: sampler probability = squared simulator amplitude on `|1,1⟩ → |2,0⟩` -/
example : ((fullDistPermanent nsqex 0 (cex0.Ufull 0) 2 [1, 1]).get? [2, 0]).getD 0 =
    nsqex (ampNum (cex0.Ufull 0) [1, 1] [2, 0]) / ((ampNormSq [1, 1] [2, 0] : Nat) : Rat) :=
  sim_sq_eq_sampler nsqex (cex0.Ufull 0) 2 [1, 1] [2, 0] (by decide +kernel) rfl rfl (by decide)
    (by decide) (by decide) (by decide +kernel)

end NonVacuity

end LW.Proofs.C05
