/-
  LW.Proofs.C14 — the statements of LW/Properties/C14.lean, assembled from the C14* lemma files,
  and the concrete instances used as non-vacuity witnesses.
-/
import LW.Proofs.C14Complex
import LW.Proofs.C14Noise

open Matrix

namespace LW.Proofs.C14

open LW.Reck

section Generic

variable {K : Type} [CommRing K] [StarRing K]

set_option linter.unusedSectionVars false

theorem unit_cell_identity {n j : Nat} (hj : j + 1 < n) {i h : K} (hi : IsImagUnit i)
    (hh : 2 * (h * h) = 1) {x : Cell K} (hx : CellOk i x) (a : Nat) (r k : Nat) (hr : r < n)
    (hk : k < n) :
    (orderedProd i n (flattenSpec (cellSpec (EM.ideal h) n x a j))).get r k =
      (bsMatrix i n j (j + 1) x).get (n - 1 - r) (n - 1 - k) := by
  have h1 := cell_prodMat hj hi hh hx a
  rw [← toMatN_orderedProd] at h1
  have h2 := congrFun (congrFun h1 ⟨r, hr⟩) ⟨k, hk⟩
  simp only [M.toMatN, Rev, Matrix.submatrix_apply, Fin.val_rev] at h2
  rw [h2]
  congr 1 <;> omega

theorem null_step_zeroes_entry {n loc j : Nat} {i : K} (U : M K) (hU : U.n = n) (hloc : loc < n)
    (hj : j < loc) {x : Cell K} (hx : CellOk i x)
    (hnull : x.c * U.get loc (j + 1) = star x.p * x.s * U.get loc j) :
    (nullStep i U j x).get loc j = 0 := by
  have hne : (⟨j, by omega⟩ : Fin n) ≠ ⟨j + 1, by omega⟩ := fun e => by
    have := Fin.mk.inj e; omega
  have h1 := toMatN_nullStep i U hU (show j + 1 < n by omega) x
  have h2 := congrFun (congrFun h1 ⟨loc, hloc⟩) ⟨j, by omega⟩
  simp only [M.toMatN] at h2
  rw [h2, mul_E2_apply hne, if_pos rfl]
  simp only [Matrix.conjTranspose_apply, Tblk, Matrix.cons_val', Matrix.cons_val_zero,
    Matrix.cons_val_one, Matrix.empty_val', Matrix.cons_val_fin_one, Matrix.of_apply,
    star_neg, star_mul', hx.c_real, hx.s_real, M.toMatN]
  linear_combination (star i * star x.w) * hnull

theorem chosen_settings_null {i : K} {N : Num K} (hN : NumOk i N) (U : M K) (a j : Nat) :
    (stepCell N i U a j).c * U.get (U.n - 1 - a) (j + 1) =
      star (stepCell N i U a j).p * (stepCell N i U a j).s * U.get (U.n - 1 - a) j :=
  stepCell_nulls hN U a j

theorem nulling_loop_lower_zero {i : K} (hi : IsImagUnit i) {N : Num K} (hN : NumOk i N)
    (U : M K) (r c : Nat) (hr : r < U.n) (hcr : c < r) :
    (decompLoop N i U).U.get r c = 0 := by
  unfold decompLoop
  rw [foldl_decompStep]
  exact lower_zero hi hN U rfl ⟨r, hr⟩ ⟨c, by omega⟩ hcr

theorem nulled_unitary_diagonal {n : Nat} (X : Matrix (Fin n) (Fin n) K)
    (hX : X ∈ Matrix.unitaryGroup (Fin n) K) (hlow : ∀ r c : Fin n, c < r → X r c = 0) :
    (∀ r c : Fin n, r ≠ c → X r c = 0) ∧ ∀ r, X r r * star (X r r) = 1 :=
  upper_unitary_diag X hX hlow

end Generic

/-! ### the complex numbers with the real trigonometric functions: no hypothesis left -/

theorem map_U_eq_complex (src : Src ℂ) (hn : src.U.n = src.n)
    (hU : src.U.toMatN src.n ∈ Matrix.unitaryGroup (Fin src.n) ℂ)
    (hH : HeraldsOk src.n src.inHer src.outHer) :
    ∃ c', Reck.map complexNum (EM.ideal rtHalfC) Complex.I src = .ok c' ∧ c'.n = src.n ∧
      c'.inHer = src.inHer ∧ c'.outHer = src.outHer ∧
      ∀ r k, r < src.n → k < src.n → (c'.U Complex.I).get r k = src.U.get r k :=
  map_U_eq imagUnit_I rtHalfC_sq rtHalfC_real complexNum_ok complexNum_checks src hn hU hH

/-! ### concrete witnesses -/

/-- a 2-mode beam-splitter-like unitary (3-4-5 triangle) -/
noncomputable def exU : M ℂ :=
  M.ofFn 2 fun r k =>
    if r = 0 ∧ k = 0 then 3 / 5 else if r = 0 ∧ k = 1 then 4 / 5 * Complex.I
    else if r = 1 ∧ k = 0 then 4 / 5 * Complex.I else 3 / 5

/-- … heralded: 1 photon in on mode 0, out on mode 1 -/
noncomputable def exSrc : Src ℂ := ⟨2, exU, [(0, 1)], [(1, 1)]⟩

theorem exU_toMatN : exU.toMatN 2 = !![3 / 5, 4 / 5 * Complex.I; 4 / 5 * Complex.I, 3 / 5] := by
  unfold exU M.toMatN
  ext r k
  rw [M.get_ofFn _ r.2 k.2]
  fin_cases r <;> fin_cases k <;> simp

theorem exSrc_unitary : exSrc.U.toMatN exSrc.n ∈ Matrix.unitaryGroup (Fin exSrc.n) ℂ := by
  show exU.toMatN 2 ∈ Matrix.unitaryGroup (Fin 2) ℂ
  rw [exU_toMatN, Matrix.mem_unitaryGroup_iff]
  ext r k
  fin_cases r <;> fin_cases k <;>
    simp [Matrix.mul_apply, Fin.sum_univ_two, Matrix.star_apply, map_ofNat] <;>
    (try ring_nf) <;> (try simp [Complex.I_sq]) <;> (try norm_num)

theorem exSrc_heralds : HeraldsOk exSrc.n exSrc.inHer exSrc.outHer := by
  refine ⟨rfl, ?_, ?_, ?_, ?_, ?_⟩
  · intro io hio; simp [exSrc] at hio; subst hio; rfl
  · simp [exSrc, Dict.keys]
  · simp [exSrc, Dict.keys]
  · intro k hk; simp [exSrc, Dict.keys] at hk; subst hk; decide
  · intro k hk; simp [exSrc, Dict.keys] at hk; subst hk; decide

/-- a concrete cell: theta/2 from the 3-4-5 triangle, phi = pi/2 -/
noncomputable def exCell : Cell ℂ := ⟨3 / 5, 4 / 5, 3 / 5 + Complex.I * (4 / 5), Complex.I⟩

theorem exCell_ok : CellOk Complex.I exCell := by
  refine ⟨?_, ?_, ?_, rfl, ?_⟩
  · simp [exCell]
  · simp [exCell]
  · simp [exCell]; norm_num
  · simp [exCell]

/-- an error model with a TopHat reflectivity, constant loss and Gaussian phase offset -/
def exEMS : EMS :=
  ⟨.topHat (2 / 5) (3 / 5), .constant (1 / 10), .gaussian 0 (1 / 10) (some (-1 / 5)) (some (1 / 5)),
   [1 / 2, 1 / 4], [], [3 / 10, 1 / 10, -1 / 10, 0]⟩

end LW.Proofs.C14
