/-
  LW.Proofs.C06Stats — input statistics of the imperfect source as a mixture over independent
  per-photon emission outcomes: single photon, single mode.
-/
import LW.Proofs.C06Table
import LW.Proofs.C06Dict
import LW.Proofs.C18Annot

set_option linter.unusedSectionVars false

namespace LW.Proofs.C06

open LW.Src LW.SV

/-- the documented parameter ranges (`p2 = 0` ⇔ purity = 1, `p2 < 1` ⇔ purity > 1/2) -/
structure InRange {Q : Type} [Zero Q] [One Q] [LE Q] (P : Params Q) : Prop where
  nu0 : 0 ≤ P.nu
  nu1 : P.nu ≤ 1
  x0 : 0 ≤ P.p2
  x1 : P.p2 ≤ 1
  q0 : 0 ≤ P.pi
  q1 : P.pi ≤ 1

section
variable {Q : Type} [Field Q] [LinearOrder Q] [IsStrictOrderedRing Q]

theorem outcomeTable_nonneg (P : Params Q) (h : InRange P) (ctr : Int) :
    ∀ x ∈ outcomeTable P ctr, 0 ≤ x.2 := by
  obtain ⟨h0, h1, h2, h3, h4, h5⟩ := table_nonneg P h.nu0 h.nu1 h.x0 h.x1 h.q0 h.q1
  intro x hx
  simp only [outcomeTable, List.mem_cons, List.not_mem_nil, or_false] at hx
  rcases hx with rfl | rfl | rfl | rfl | rfl | rfl <;> assumption

/-- the `p > 0` filter of `_single_photon_distribution` only drops outcomes of probability zero -/
theorem mix_singlePhoton (P : Params Q) (h : InRange P) (ctr : Int) (F : List Int → Q) :
    mix (singlePhoton P ctr) F = mix (outcomeTable P ctr) F :=
  mix_filter_pos _ F (outcomeTable_nonneg P h ctr)

theorem mix_outcomeTable_one (P : Params Q) (ctr : Int) :
    mix (outcomeTable P ctr) (fun _ => 1) = 1 := by
  simp only [outcomeTable, mix_cons, mix_nil, mul_one, add_zero]
  rw [← table_sums_to_one P]
  ring

/-- all emission outcomes of `k` photons in one mode (labels concatenated, unsorted), the `j`-th
photon drawing its fresh labels at counter `ctr + 2j` -/
def specMode (P : Params Q) (ctr : Int) : Nat → List (List Int × Q)
  | 0 => [([], 1)]
  | k + 1 =>
    (specMode P ctr k).flatMap fun d1 =>
      (outcomeTable P (ctr + 2 * (k : Int))).map fun d2 => (d1.1 ++ d2.1, d1.2 * d2.2)

theorem mix_specMode_succ (P : Params Q) (ctr : Int) (k : Nat) (F : List Int → Q) :
    mix (specMode P ctr (k + 1)) F =
      mix (specMode P ctr k) (fun a => mix (outcomeTable P (ctr + 2 * (k : Int))) fun b => F (a ++ b)) :=
  mix_product _ _ (fun a b => a ++ b) F

theorem mix_specMode_one (P : Params Q) (ctr : Int) (k : Nat) :
    mix (specMode P ctr k) (fun _ => 1) = 1 := by
  induction k with
  | zero => simp [specMode]
  | succ k ih =>
    rw [mix_specMode_succ]
    simp only [mix_outcomeTable_one]
    exact ih

theorem modeDist_succ (P : Params Q) (ctr : Int) (k : Nat) :
    modeDist P ctr (k + 1) =
      if (modeDist P ctr k).isEmpty then singlePhoton P (ctr + 2 * (k : Int))
      else (modeDist P ctr k).flatMap fun d1 =>
        (singlePhoton P (ctr + 2 * (k : Int))).map fun d2 => (d1.1 ++ d2.1, d1.2 * d2.2) := rfl

/-- `mode_dist` after `k ≥ 1` photons is the mixture over all outcome tuples -/
theorem mix_modeDist (P : Params Q) (h : InRange P) (ctr : Int) (k : Nat) (F : List Int → Q) :
    mix (modeDist P ctr (k + 1)) F = mix (specMode P ctr (k + 1)) F := by
  induction k generalizing F with
  | zero =>
    rw [modeDist_succ]
    have : (modeDist P ctr 0).isEmpty = true := rfl
    rw [if_pos this, mix_singlePhoton P h, mix_specMode_succ]
    simp [specMode]
  | succ k ih =>
    rw [modeDist_succ]
    by_cases he : (modeDist P ctr (k + 1)).isEmpty = true
    · -- impossible: the mixture of the constant 1 would be 0
      have hnil : modeDist P ctr (k + 1) = [] := List.isEmpty_iff.1 he
      have h1 := ih (fun _ => 1)
      rw [hnil, mix_nil, mix_specMode_one] at h1
      exact absurd h1 zero_ne_one
    · rw [if_neg he, mix_product _ _ (fun a b => a ++ b) F, mix_specMode_succ P ctr (k + 1)]
      have := ih (fun a => mix (singlePhoton P (ctr + 2 * ((k + 1 : Nat) : Int))) fun b => F (a ++ b))
      rw [this]
      apply mix_congr
      intro x _
      exact mix_singlePhoton P h _ _

theorem singleMode_ctr (P : Params Q) (n : Nat) (ctr : Int) :
    (singleMode P n ctr).2 = ctr + 2 * (n : Int) := by
  unfold singleMode
  by_cases hn : n = 0
  · simp [hn]
  · simp [hn]

/-- `_single_mode_distribution(n)`: mixture over all outcome tuples of the mode's `n` photons, each
tuple contributing the one-mode annotated state with the sorted concatenation of its labels -/
theorem mix_singleMode (P : Params Q) (h : InRange P) (n : Nat) (ctr : Int) (F : AState → Q) :
    mix (singleMode P n ctr).1 F = mix (specMode P ctr n) (fun l => F (AState.new [sortInt l])) := by
  unfold singleMode
  cases n with
  | zero => simp [specMode, sortInt]
  | succ k =>
    rw [if_neg (Nat.succ_ne_zero k)]
    show mix (KD.ofPairs _) F = _
    rw [mix_ofPairs, mix_map_key (modeDist P ctr (k + 1)) (fun l => AState.new [sortInt l]) F]
    exact mix_modeDist P h ctr k _

theorem singleMode_keys_nodup (P : Params Q) (n : Nat) (ctr : Int) :
    ((singleMode P n ctr).1.map (·.1)).Nodup := by
  unfold singleMode
  by_cases hn : n = 0
  · simp [hn]
  · rw [if_neg hn]
    exact ofPairs_keys_nodup _

/-- every key of a single-mode distribution is a well-formed one-mode state -/
theorem singleMode_keys (P : Params Q) (n : Nat) (ctr : Int) :
    ∀ a ∈ (singleMode P n ctr).1.map (·.1), a.WF ∧ a.nModes = 1 := by
  unfold singleMode
  by_cases hn : n = 0
  · simp only [hn, if_true, List.map_cons, List.map_nil, List.mem_singleton]
    rintro a rfl
    exact ⟨AState.new_wf _, by simp [AState.new_nModes]⟩
  · rw [if_neg hn]
    intro a ha
    rw [mem_ofPairs_keys] at ha
    simp only [List.map_map, List.mem_map, Function.comp] at ha
    obtain ⟨x, _, rfl⟩ := ha
    exact ⟨AState.new_wf _, by simp [AState.new_nModes]⟩

end

end LW.Proofs.C06
