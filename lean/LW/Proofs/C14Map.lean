/-
  LW.Proofs.C14Map — the interferometer built from the decomposition implements the original
  matrix: ordered product of the components of `mapSpec` = `U`.
-/
import LW.Proofs.C14Null
import LW.Proofs.C01

open Matrix

namespace LW.Proofs.C14

open LW.Reck LW.Proofs.C01Aux

variable {K : Type} [CommRing K] [StarRing K]

set_option linter.unusedSectionVars false

/-- product of the documented component matrices, later components on the left -/
def prodMat (i : K) (n : Nat) (ps : List (Prim K)) : Matrix (Fin n) (Fin n) K :=
  (ps.reverse.map fun p => (p.specMat i n).toMatN n).prod

theorem prodMat_nil (i : K) (n : Nat) : prodMat i n [] = 1 := by simp [prodMat]

theorem prodMat_append (i : K) (n : Nat) (l1 l2 : List (Prim K)) :
    prodMat i n (l1 ++ l2) = prodMat i n l2 * prodMat i n l1 := by
  simp [prodMat, List.reverse_append, List.map_append, List.prod_append]

theorem prodMat_cons (i : K) (n : Nat) (p : Prim K) (l : List (Prim K)) :
    prodMat i n (p :: l) = prodMat i n l * (p.specMat i n).toMatN n := by
  simp [prodMat]

theorem foldl_toMatN (i : K) (n : Nat) (ps : List (Prim K)) (U : M K) :
    (ps.foldl (fun U p => (p.specMat i n).mul U) U).toMatN n = prodMat i n ps * U.toMatN n := by
  induction ps generalizing U with
  | nil => simp [prodMat_nil]
  | cons p rest ih =>
    rw [List.foldl_cons, ih, M.toMatN_mul _ _ (specMat_n i n p), prodMat_cons, Matrix.mul_assoc]

theorem toMatN_orderedProd (i : K) (n : Nat) (ps : List (Prim K)) :
    (orderedProd i n ps).toMatN n = prodMat i n ps := by
  unfold orderedProd
  rw [foldl_toMatN, toMatN_one, Matrix.mul_one]

/-! ### one unit cell -/

theorem flatten_cellSpec_ideal (h : K) (n : Nat) (x : Cell K) (a j : Nat) :
    flattenSpec (cellSpec (EM.ideal h) n x a j) =
      [.barrier [n - j - 2, n - j - 2 + 1], .ps (n - j - 2 + 1) (x.p * 1),
       .bs (n - j - 2) (n - j - 2 + 1) h h .rx, .ps (n - j - 2) (x.w * x.w * 1),
       .bs (n - j - 2) (n - j - 2 + 1) h h .rx] := by
  simp [flattenSpec, cellSpec, EM.ideal, Comp.toPrims]

/-- **unit cell identity** on `n` modes: the five components of a cell multiply to `bs_matrix` of
the decomposition, read in reversed mode order -/
theorem cell_prodMat {n j : Nat} (hj : j + 1 < n) {i h : K} (hi : IsImagUnit i)
    (hh : 2 * (h * h) = 1) {x : Cell K} (hx : CellOk i x) (a : Nat) :
    prodMat i n (flattenSpec (cellSpec (EM.ideal h) n x a j)) =
      Rev ((bsMatrix i n j (j + 1) x).toMatN n) := by
  have hm1 : n - j - 2 < n := by omega
  have hm2 : n - j - 2 + 1 < n := by omega
  have hne : n - j - 2 ≠ n - j - 2 + 1 := by omega
  have hneF : (⟨n - j - 2, hm1⟩ : Fin n) ≠ ⟨n - j - 2 + 1, hm2⟩ := fun e => by
    have := Fin.mk.inj e; omega
  rw [flatten_cellSpec_ideal]
  simp only [prodMat, List.reverse_cons, List.reverse_nil, List.nil_append, List.cons_append,
    List.map_cons, List.map_nil, List.prod_cons, List.prod_nil, Prim.specMat,
    Prim.mat, mul_one]
  rw [toMatN_embed2 hm1 hm2 hne, toMatN_embed1_left hm1 hm2 hne, toMatN_embed1_right hm1 hm2 hne,
    toMatN_one, Matrix.mul_one, E2_mul hneF, E2_mul hneF, E2_mul hneF]
  have hB : (!![h, i * h; i * h, h] : Matrix (Fin 2) (Fin 2) K) = Bblk i h := rfl
  simp only [← Matrix.mul_assoc]
  rw [hB, unit_cell_2x2 hi hh hx, ← E2_swap (Ne.symm hneF), toMatN_bsMatrix hj, Rev_E2]
  · congr 1; (apply Fin.ext; simp [Fin.rev]; omega)
  · intro e
    have := Fin.mk.inj e
    omega

/-! ### all cells -/

theorem prodMat_cells {n : Nat} {i h : K} (hi : IsImagUnit i) (hh : 2 * (h * h) = 1)
    (cs : List ((Nat × Nat) × Cell K)) (hcs : ∀ e ∈ cs, e.1.2 + 1 < n ∧ CellOk i e.2) :
    prodMat i n (flattenSpec (cs.flatMap fun e => cellSpec (EM.ideal h) n e.2 e.1.1 e.1.2)) =
      Rev (Tprod i n cs) := by
  induction cs with
  | nil => simp [flattenSpec, prodMat_nil, Tprod, Rev_one]
  | cons e rest ih =>
    have he := hcs e List.mem_cons_self
    rw [List.flatMap_cons, show flattenSpec (cellSpec (EM.ideal h) n e.2 e.1.1 e.1.2 ++
        rest.flatMap fun e => cellSpec (EM.ideal h) n e.2 e.1.1 e.1.2) =
        flattenSpec (cellSpec (EM.ideal h) n e.2 e.1.1 e.1.2) ++
        flattenSpec (rest.flatMap fun e => cellSpec (EM.ideal h) n e.2 e.1.1 e.1.2) by
          simp [flattenSpec],
      prodMat_append, ih (fun e' he' => hcs e' (List.mem_cons_of_mem _ he')),
      cell_prodMat he.1 hi hh he.2, Tprod_cons, Rev_mul]

/-! ### residual phases -/

theorem toMatN_embed1_diag (n m : Nat) (p : K) :
    (embed1 n m p).toMatN n = Matrix.diagonal fun r : Fin n => if r.val = m then p else 1 := by
  ext r k
  simp only [M.toMatN, get_embed1 _ _ r.2 k.2, Matrix.diagonal_apply, Fin.ext_iff]

theorem prod_diagonal {n : Nat} {ι : Type} (l : List ι) (d : ι → Fin n → K) :
    (l.map fun k => Matrix.diagonal (d k)).prod = Matrix.diagonal fun r => (l.map fun k => d k r).prod := by
  induction l with
  | nil => simp
  | cons k rest ih =>
    rw [List.map_cons, List.prod_cons, ih, Matrix.diagonal_mul_diagonal]
    simp

theorem prod_select (n : Nat) (e : Nat → K) (r : Nat) (m : Nat) (hm : m ≤ n) (hr : r < n) :
    ((List.range m).map fun k => if r = n - k - 1 then e k else 1).prod =
      if n - 1 - r < m then e (n - 1 - r) else 1 := by
  induction m with
  | zero => simp
  | succ m ih =>
    rw [List.range_succ, List.map_append, List.prod_append, ih (by omega)]
    simp only [List.map_cons, List.map_nil, List.prod_cons, List.prod_nil, mul_one]
    by_cases h1 : n - 1 - r < m
    · have : r ≠ n - m - 1 := by omega
      rw [if_pos h1, if_neg this, mul_one, if_pos (by omega)]
    · by_cases h2 : r = n - m - 1
      · have e1 : n - 1 - r = m := by omega
        rw [if_neg h1, if_pos h2, one_mul, if_pos (by omega), e1]
      · have : ¬ n - 1 - r < m + 1 := by omega
        rw [if_neg h1, if_neg h2, mul_one, if_neg this]

theorem prodMat_ends (i : K) (n : Nat) (e : Nat → K) :
    prodMat i n ((List.range n).map fun k => Prim.ps (n - k - 1) (e k)) =
      Rev (Matrix.diagonal fun r : Fin n => e r.val) := by
  unfold prodMat
  rw [← List.map_reverse, List.map_map]
  have : ((fun p => (Prim.specMat i n p).toMatN n) ∘ fun k => Prim.ps (n - k - 1) (e k)) =
      fun k => Matrix.diagonal fun r : Fin n => if r.val = n - k - 1 then e k else 1 := by
    funext k
    simp [Prim.specMat, Prim.mat, toMatN_embed1_diag]
  rw [this, prod_diagonal]
  ext r k
  simp only [Rev, Matrix.submatrix_apply, Matrix.diagonal_apply, Fin.rev_inj]
  by_cases hrk : r = k
  · subst hrk
    simp only [if_true]
    rw [List.map_reverse, List.prod_reverse, prod_select n e r.val n (le_refl _) r.2,
      if_pos (by omega), Fin.val_rev]
    congr 1
    omega
  · simp [hrk]

/-! ### assembling -/

theorem Rev_unitary {n : Nat} {X : Matrix (Fin n) (Fin n) K}
    (hX : X ∈ Matrix.unitaryGroup (Fin n) K) : Rev X ∈ Matrix.unitaryGroup (Fin n) K := by
  rw [Matrix.mem_unitaryGroup_iff'] at hX ⊢
  have : star (Rev X) = Rev (star X) := by
    ext r k; simp [Rev, Matrix.star_apply]
  rw [this, ← Rev_mul, hX, Rev_one]

/-- the matrix left by the nulling loop is unitary, diagonal, and the loop telescopes -/
theorem decomp_facts {n : Nat} {i : K} (hi : IsImagUnit i) {N : Num K} (hN : NumOk i N)
    (W : M K) (hW : W.n = n) (hWu : W.toMatN n ∈ Matrix.unitaryGroup (Fin n) K) :
    (finalGo N i (steps n) W).toMatN n * Tprod i n ((steps n).zip (cellsGo N i (steps n) W)) =
        W.toMatN n ∧
    (∀ r c : Fin n, r ≠ c → (finalGo N i (steps n) W).toMatN n r c = 0) ∧
    (∀ r : Fin n, (finalGo N i (steps n) W).toMatN n r r *
        star ((finalGo N i (steps n) W).toMatN n r r) = 1) := by
  obtain ⟨h1, h2⟩ := telescope hi hN (steps n) (fun aj h => mem_steps h) W hW
  set F := (finalGo N i (steps n) W).toMatN n
  set T := Tprod i n ((steps n).zip (cellsGo N i (steps n) W))
  have hT1 : T * star T = 1 := (Matrix.mem_unitaryGroup_iff).mp h2
  have hF : F = W.toMatN n * star T := by
    calc F = F * (T * star T) := by rw [hT1, Matrix.mul_one]
      _ = (F * T) * star T := by rw [Matrix.mul_assoc]
      _ = _ := by rw [h1]
  have hFu : F ∈ Matrix.unitaryGroup (Fin n) K := by
    rw [hF]; exact mul_mem hWu (Unitary.star_mem h2)
  have hd := upper_unitary_diag F hFu (fun r c hcr => lower_zero hi hN W hW r c hcr)
  exact ⟨h1, hd.1, hd.2⟩

theorem flatMap_single {α β : Type} (f : α → β) (l : List α) :
    l.flatMap (fun a => [f a]) = l.map f := by
  induction l with
  | nil => rfl
  | cons a rest ih => simp [ih]

theorem flattenSpec_append (a b : List (Comp K)) :
    flattenSpec (a ++ b) = flattenSpec a ++ flattenSpec b := by
  simp [flattenSpec]

/-- **the mapped interferometer implements the original matrix** (specification level) -/
theorem mapSpec_prodMat {n : Nat} {i h : K} (hi : IsImagUnit i) (hh : 2 * (h * h) = 1)
    {N : Num K} (hN : NumOk i N) (V : M K) (hV : V.n = n)
    (hVu : V.toMatN n ∈ Matrix.unitaryGroup (Fin n) K) :
    prodMat i n (flattenSpec (mapSpec (EM.ideal h) n
        ((steps n).zip (cellsGo N i (steps n) (flip V)))
        ((List.range n).map fun k => N.ang ((finalGo N i (steps n) (flip V)).get k k)))) =
      V.toMatN n := by
  have hW : (flip V).n = n := hV
  have hWm : (flip V).toMatN n = Rev (V.toMatN n) := toMatN_flip V hV
  have hWu : (flip V).toMatN n ∈ Matrix.unitaryGroup (Fin n) K := by
    rw [hWm]; exact Rev_unitary hVu
  obtain ⟨h1, h2, h3⟩ := decomp_facts hi hN (flip V) hW hWu
  set fin := finalGo N i (steps n) (flip V)
  set cs := (steps n).zip (cellsGo N i (steps n) (flip V))
  unfold mapSpec
  rw [flattenSpec_append, flattenSpec_append, prodMat_append, prodMat_append]
  -- cells
  have hcs : ∀ e ∈ cs, e.1.2 + 1 < n ∧ CellOk i e.2 := by
    intro e he
    refine ⟨mem_steps (List.of_mem_zip he).1, ?_⟩
    have := (List.of_mem_zip he).2
    clear_value fin
    revert this
    generalize steps n = l
    generalize flip V = W
    intro hmem
    induction l generalizing W with
    | nil => simp [cellsGo] at hmem
    | cons aj rest ih =>
      simp only [cellsGo, List.mem_cons] at hmem
      rcases hmem with hm | hmem
      · rw [hm]; exact stepCell_ok hi hN W aj.1 aj.2
      · exact ih _ hmem
  rw [prodMat_cells hi hh cs hcs]
  -- barrier
  have hb : prodMat i n (flattenSpec [Comp.prim (Prim.barrier (List.range n))]) = 1 := by
    simp [flattenSpec, Comp.toPrims, prodMat, Prim.specMat, Prim.mat, toMatN_one]
  rw [hb, Matrix.one_mul]
  -- residual phases
  have he : flattenSpec ((List.range n).map fun k => Comp.prim (Prim.ps (n - k - 1)
      ((((List.range n).map fun k => N.ang (fin.get k k)).getD k 1) * (EM.ideal h).offEnd k))) =
      (List.range n).map fun k => Prim.ps (n - k - 1)
        ((((List.range n).map fun k => N.ang (fin.get k k)).getD k 1) * 1) := by
    simp only [flattenSpec, Comp.toPrims, EM.ideal, List.flatMap_map]
    exact flatMap_single _ _
  rw [he, prodMat_ends, ← Rev_mul]
  have hD : (Matrix.diagonal fun r : Fin n =>
      (((List.range n).map fun k => N.ang (fin.get k k)).getD r.val 1) * 1) = fin.toMatN n := by
    ext r k
    rw [Matrix.diagonal_apply]
    by_cases hrk : r = k
    · subst hrk
      simp only [if_true, mul_one]
      have : ((List.range n).map fun k => N.ang (fin.get k k)).getD r.val 1 = N.ang (fin.get r r) := by
        simp [List.getD_eq_getElem?_getD, r.2]
      rw [this]
      exact hN.ang_unit _ (h3 r)
    · rw [if_neg hrk]
      exact (h2 r k hrk).symm
  rw [hD, h1, hWm, Rev_Rev]

end LW.Proofs.C14
