/-
  C07 limit statements, part B2: the strong law of large numbers for inverse-CDF selection.

  For pairwise independent variates, each uniform on `[0,1)`, the empirical frequency of index `k`
  among the first `n` selections tends almost surely to `p_k / Σp`.
-/
import Mathlib.Probability.StrongLaw
import LW.Proofs.C07LimitReal

namespace LW.Proofs.C07

open MeasureTheory ProbabilityTheory Filter Topology

/-- the uniform law on `[0,1)` -/
noncomputable abbrev uniform01 : Measure ℝ := volume.restrict (Set.Ico (0 : ℝ) 1)

theorem uniform01_univ : uniform01 Set.univ = 1 := by
  simp [uniform01]

instance : IsProbabilityMeasure uniform01 := ⟨uniform01_univ⟩

/-- a function whose law is the uniform law is a.e. measurable (otherwise its law would be 0) -/
theorem aemeasurable_of_map_eq_uniform {Ω : Type*} [MeasurableSpace Ω] {μ : Measure Ω}
    (X : Ω → ℝ) (h : Measure.map X μ = uniform01) : AEMeasurable X μ := by
  by_contra hX
  rw [Measure.map_of_not_aemeasurable hX] at h
  have := uniform01_univ
  rw [← h] at this
  simp at this

/-- indicator of "the variate selects `k`" -/
noncomputable def selInd (ps : List ℝ) (k : ℕ) : ℝ → ℝ :=
  Set.indicator {u : ℝ | inverseCdfR ps u = k} 1

theorem measurable_selInd (ps : List ℝ) (k : ℕ) : Measurable (selInd ps k) :=
  measurable_one.indicator (measurableSet_inverseCdfR_eq ps k)

theorem selInd_apply (ps : List ℝ) (k : ℕ) (u : ℝ) :
    selInd ps k u = if inverseCdfR ps u = k then 1 else 0 := by
  unfold selInd
  rw [Set.indicator_apply]
  rfl

theorem integral_selInd (ps : List ℝ) (hnn : ∀ p ∈ ps, 0 ≤ p) (htot : 0 < ps.sum)
    (k : ℕ) (hk : k < ps.length) :
    ∫ u, selInd ps k u ∂uniform01 = ps.getD k 0 / ps.sum := by
  unfold selInd
  rw [integral_indicator_one (measurableSet_inverseCdfR_eq ps k), Measure.real,
    volume_inverseCdfR_eq ps hnn htot k hk]
  refine ENNReal.toReal_ofReal (div_nonneg ?_ htot.le)
  rw [List.getD_eq_getElem ps 0 hk]
  exact hnn _ (List.getElem_mem hk)

/-- STRONG LAW for the sampler's selection step: if the variates `U 0, U 1, …` are pairwise
independent and each is uniformly distributed on `[0,1)`, then almost surely the fraction of the
first `n` draws that select index `k` tends to `p_k / Σp`. -/
theorem sampling_frequencies_converge {Ω : Type*} [MeasurableSpace Ω] {μ : Measure Ω}
    (U : ℕ → Ω → ℝ)
    (hindep : Pairwise fun i j => IndepFun (U i) (U j) μ)
    (hlaw : ∀ i, Measure.map (U i) μ = volume.restrict (Set.Ico (0 : ℝ) 1))
    (ps : List ℝ) (hnn : ∀ p ∈ ps, 0 ≤ p) (htot : 0 < ps.sum) (k : ℕ) (hk : k < ps.length) :
    ∀ᵐ ω ∂μ, Tendsto
      (fun n : ℕ =>
        (((Finset.range n).filter fun i => inverseCdfR ps (U i ω) = k).card : ℝ) / n)
      atTop (𝓝 (ps.getD k 0 / ps.sum)) := by
  have haem : ∀ i, AEMeasurable (U i) μ := fun i => aemeasurable_of_map_eq_uniform (U i) (hlaw i)
  have hg := measurable_selInd ps k
  -- integrability of the indicator of the first draw
  have hint : Integrable (selInd ps k ∘ U 0) μ := by
    have h1 : Integrable (selInd ps k) (Measure.map (U 0) μ) := by
      rw [hlaw 0]
      exact (integrable_const (1 : ℝ)).indicator (measurableSet_inverseCdfR_eq ps k)
    exact (integrable_map_measure hg.aestronglyMeasurable (haem 0)).mp h1
  have hind : Pairwise fun i j => IndepFun (selInd ps k ∘ U i) (selInd ps k ∘ U j) μ :=
    fun i j hij => (hindep hij).comp hg hg
  have hident : ∀ i, IdentDistrib (selInd ps k ∘ U i) (selInd ps k ∘ U 0) μ μ := fun i =>
    (IdentDistrib.mk (haem i) (haem 0) (by rw [hlaw i, hlaw 0])).comp hg
  have hmean : μ[selInd ps k ∘ U 0] = ps.getD k 0 / ps.sum := by
    have := integral_map (haem 0) (hg.aestronglyMeasurable (μ := Measure.map (U 0) μ))
    rw [hlaw 0] at this
    rw [← integral_selInd ps hnn htot k hk, this]
    rfl
  have hslln := strong_law_ae (fun i => selInd ps k ∘ U i) hint hind hident
  rw [hmean] at hslln
  filter_upwards [hslln] with ω hω
  refine hω.congr fun n => ?_
  simp only [Function.comp_apply, selInd_apply, Finset.sum_boole, smul_eq_mul]
  rw [div_eq_inv_mul]

/-- the same under full (mutual) independence -/
theorem sampling_frequencies_converge_iIndep {Ω : Type*} [MeasurableSpace Ω] {μ : Measure Ω}
    (U : ℕ → Ω → ℝ) (hindep : iIndepFun U μ)
    (hlaw : ∀ i, Measure.map (U i) μ = volume.restrict (Set.Ico (0 : ℝ) 1))
    (ps : List ℝ) (hnn : ∀ p ∈ ps, 0 ≤ p) (htot : 0 < ps.sum) (k : ℕ) (hk : k < ps.length) :
    ∀ᵐ ω ∂μ, Tendsto
      (fun n : ℕ =>
        (((Finset.range n).filter fun i => inverseCdfR ps (U i ω) = k).card : ℝ) / n)
      atTop (𝓝 (ps.getD k 0 / ps.sum)) :=
  sampling_frequencies_converge U (fun _ _ hij => hindep.indepFun hij) hlaw ps hnn htot k hk

/-- the same for the model's rational weights: the limit is the (cast of the) exact rational
normalised weight, and on rational variates `inverseCdfR (ps.map (↑))` is the model's `inverseCdf`
(`inverseCdfR_cast`) -/
theorem sampling_frequencies_converge_rat {Ω : Type*} [MeasurableSpace Ω] {μ : Measure Ω}
    (U : ℕ → Ω → ℝ)
    (hindep : Pairwise fun i j => IndepFun (U i) (U j) μ)
    (hlaw : ∀ i, Measure.map (U i) μ = volume.restrict (Set.Ico (0 : ℝ) 1))
    (ps : List ℚ) (hnn : ∀ p ∈ ps, 0 ≤ p) (htot : 0 < ps.sum) (k : ℕ) (hk : k < ps.length) :
    ∀ᵐ ω ∂μ, Tendsto
      (fun n : ℕ =>
        (((Finset.range n).filter fun i =>
          inverseCdfR (ps.map (fun q : ℚ => (q : ℝ))) (U i ω) = k).card : ℝ) / n)
      atTop (𝓝 ((ps.getD k 0 / ps.sum : ℚ) : ℝ)) := by
  have hsum : (ps.map (fun q : ℚ => (q : ℝ))).sum = ((ps.sum : ℚ) : ℝ) :=
    (map_list_sum (Rat.castHom ℝ) ps).symm
  have hget : (ps.map (fun q : ℚ => (q : ℝ))).getD k 0 = ((ps.getD k 0 : ℚ) : ℝ) := by
    have := List.getD_map ps (0 : ℚ) (n := k) (fun q : ℚ => (q : ℝ))
    rwa [Rat.cast_zero] at this
  have h := sampling_frequencies_converge U hindep hlaw (ps.map (fun q : ℚ => (q : ℝ)))
    (by
      intro p hp
      obtain ⟨q, hq, rfl⟩ := List.mem_map.mp hp
      exact_mod_cast hnn q hq)
    (by rw [hsum]; exact_mod_cast htot) k (by rwa [List.length_map])
  rw [hsum, hget] at h
  rw [Rat.cast_div]
  exact h

end LW.Proofs.C07
