/-
  LW.Proofs.ReachSwaps — `SwapsOk` closure lemmas used by the reachability proof:
  `PermOk → SwapsOk`, relabelling by an injective map, inversion, `nonAdjSwaps`, monotonicity of
  `Prim.Wf`, and `Comp.Wf → modes < n`.
-/
import LW.Proofs.SwapDict
import LW.Proofs.C02Modes
import LW.Proofs.GroupWf

set_option linter.unusedSectionVars false

namespace LW.Proofs.Reach

open LW LW.Proofs.C02

variable {K : Type} [CommRing K] [StarRing K]

/-! ### `PermOk → SwapsOk` -/

theorem vals_length (σ : Dict) : (Dict.vals σ).length = (Dict.keys σ).length := by
  simp [Dict.vals, Dict.keys]

theorem PermOk.swapsOk {n : Nat} {σ : Dict} (h : PermOk n σ) : SwapsOk n σ := by
  refine ⟨h.nodup, ?_, h.lt⟩
  have hsub : (Dict.vals σ).Subperm (Dict.keys σ) :=
    h.vals_nodup.subperm (fun v hv => h.val_mem_keys hv)
  exact (hsub.perm_of_length_le (le_of_eq (vals_length σ).symm)).symm

theorem SwapsOk.combine {n : Nat} {σ τ : Dict} (hσ : SwapsOk n σ) (hτ : SwapsOk n τ) :
    SwapsOk n (combineSwapDicts σ τ) :=
  PermOk.swapsOk ((LW.SwapsOk.permOk hσ).combine (LW.SwapsOk.permOk hτ))

theorem SwapsOk.mono {n N : Nat} {σ : Dict} (h : SwapsOk n σ) (hN : n ≤ N) : SwapsOk N σ :=
  ⟨h.1, h.2.1, fun k hk => lt_of_lt_of_le (h.2.2 k hk) hN⟩

theorem SwapsOk.vals_lt {n : Nat} {σ : Dict} (h : SwapsOk n σ) : ∀ v ∈ Dict.vals σ, v < n :=
  fun v hv => h.2.2 v (h.2.1.mem_iff.mpr hv)

/-! ### relabelling -/

theorem keys_map_pair (σ : Dict) (f g : Nat → Nat) :
    Dict.keys (σ.map fun p => (f p.1, g p.2)) = (Dict.keys σ).map f := by
  simp [Dict.keys, Function.comp_def]

theorem vals_map_pair (σ : Dict) (f g : Nat → Nat) :
    Dict.vals (σ.map fun p => (f p.1, g p.2)) = (Dict.vals σ).map g := by
  simp [Dict.vals, Function.comp_def]

theorem ofPairs_map_of_inj (σ : Dict) (f g : Nat → Nat) (hf : ∀ a b, f a = f b → a = b)
    (hnd : (Dict.keys σ).Nodup) :
    Dict.ofPairs (σ.map fun p => (f p.1, g p.2)) = σ.map fun p => (f p.1, g p.2) := by
  apply ofPairs_of_nodup
  have := keys_map_pair σ f g
  unfold Dict.keys at this
  rw [this]
  exact nodup_map_of_inj hf hnd

theorem SwapsOk.relabel {n N : Nat} {σ : Dict} (h : SwapsOk n σ) (f : Nat → Nat)
    (hf : ∀ a b, f a = f b → a = b) (hlt : ∀ k, k < n → f k < N) :
    SwapsOk N (Dict.ofPairs (σ.map fun p => (f p.1, f p.2))) := by
  rw [ofPairs_map_of_inj σ f f hf h.1]
  refine ⟨?_, ?_, ?_⟩
  · rw [keys_map_pair]; exact nodup_map_of_inj hf h.1
  · rw [keys_map_pair, vals_map_pair]; exact h.2.1.map f
  · intro k hk
    rw [keys_map_pair] at hk
    obtain ⟨a, ha, rfl⟩ := List.mem_map.mp hk
    exact hlt a (h.2.2 a ha)

/-- inverse dictionary -/
theorem SwapsOk.inverse {n : Nat} {σ : Dict} (h : SwapsOk n σ) :
    SwapsOk n (Dict.ofPairs (σ.map fun p => (p.2, p.1))) := by
  have hvnd : (Dict.vals σ).Nodup := h.2.1.nodup_iff.mp h.1
  have hk : Dict.keys (σ.map fun p => (p.2, p.1)) = Dict.vals σ := by
    simp [Dict.keys, Dict.vals, Function.comp_def]
  have hv : Dict.vals (σ.map fun p => (p.2, p.1)) = Dict.keys σ := by
    simp [Dict.keys, Dict.vals, Function.comp_def]
  have he : Dict.ofPairs (σ.map fun p => (p.2, p.1)) = σ.map fun p => (p.2, p.1) := by
    apply ofPairs_of_nodup
    unfold Dict.keys at hk
    rw [hk]; exact hvnd
  rw [he]
  refine ⟨by rw [hk]; exact hvnd, by rw [hk, hv]; exact h.2.1.symm, ?_⟩
  intro k hk'
  rw [hk] at hk'
  exact SwapsOk.vals_lt h k hk'

theorem nonAdjSwaps_swapsOk (n lo hi : Nat) (h : lo < hi) (hn : hi < n) :
    SwapsOk n (nonAdjSwaps lo hi) :=
  PermOk.swapsOk (nonAdjSwaps_permOk n lo hi h hn)

/-! ### monotonicity and modes -/

theorem Prim.Wf.mono {n N : Nat} {p : Prim K} (h : p.Wf n) (hN : n ≤ N) : p.Wf N := by
  cases p with
  | bs m1 m2 c s cv =>
    obtain ⟨h1, h2, h3⟩ := h
    exact ⟨by omega, by omega, h3⟩
  | ps m q => exact ⟨by have := h.1; omega, h.2⟩
  | loss m a b => exact ⟨by have := h.1; omega, h.2⟩
  | barrier ms => intro m hm; have := h m hm; omega
  | swaps σ => exact SwapsOk.mono h hN
  | unitary m u => exact ⟨by have := h.1; omega, h.2⟩

theorem Comp.Wf.mono {n N : Nat} {c : Comp K} (h : c.Wf n) (hN : n ≤ N) : c.Wf N := by
  cases c with
  | prim p => exact Prim.Wf.mono (p := p) h hN
  | group cs m1 m2 hin hout => exact fun p hp => Prim.Wf.mono (h p hp) hN

theorem SpecWf.mono {n N : Nat} {spec : List (Comp K)} (h : SpecWf n spec) (hN : n ≤ N) :
    SpecWf N spec := fun c hc => Comp.Wf.mono (h c hc) hN

theorem Prim.Wf.modes_lt {n : Nat} {p : Prim K} (h : p.Wf n) : ∀ m ∈ p.modes, m < n := by
  cases p with
  | bs m1 m2 c s cv =>
    intro m hm
    simp only [Prim.modes, List.mem_cons, List.not_mem_nil, or_false] at hm
    rcases hm with rfl | rfl
    · exact h.1
    · exact h.2.1
  | ps m0 q =>
    intro m hm
    simp only [Prim.modes, List.mem_cons, List.not_mem_nil, or_false] at hm
    subst hm; exact h.1
  | loss m0 a b =>
    intro m hm
    simp only [Prim.modes, List.mem_cons, List.not_mem_nil, or_false] at hm
    subst hm; exact h.1
  | barrier ms => exact h
  | swaps σ =>
    intro m hm
    simp only [Prim.modes, List.mem_append] at hm
    rcases hm with hm | hm
    · exact h.2.2 m hm
    · exact SwapsOk.vals_lt h m hm
  | unitary m0 u =>
    intro m hm
    simp only [Prim.modes, List.mem_map, List.mem_range] at hm
    obtain ⟨r, hr, rfl⟩ := hm
    have := h.1; omega

theorem Comp.Wf.modes_lt {n : Nat} {c : Comp K} (h : c.Wf n) : ∀ m ∈ c.modes, m < n := by
  cases c with
  | prim p => exact Prim.Wf.modes_lt (p := p) h
  | group cs m1 m2 hin hout =>
    intro m hm
    simp only [Comp.modes, List.mem_flatMap] at hm
    obtain ⟨p, hp, hm⟩ := hm
    exact Prim.Wf.modes_lt (h p hp) m hm

theorem SpecWf.modes_lt {n : Nat} {spec : List (Comp K)} (h : SpecWf n spec) :
    ∀ c ∈ spec, ∀ m ∈ c.modes, m < n := fun c hc => Comp.Wf.modes_lt (h c hc)

end LW.Proofs.Reach
