/-
  LW.Proofs.C02Modes — C02: bump, key renaming of dicts, modes of rewritten components.
-/
import LW.Proofs.C02AddDefs
namespace LW.Proofs.C02
variable {K : Type}

/-! ### bump -/
theorem bump_inj {mode a b : Nat} (h : bump mode a = bump mode b) : a = b := by
  unfold bump at h; split at h <;> split at h <;> omega

theorem bump_ne (mode a : Nat) : bump mode a ≠ mode := by
  unfold bump; split <;> omega

theorem le_bump (mode a : Nat) : a ≤ bump mode a := by
  unfold bump; split <;> omega

theorem bump_le_succ (mode a : Nat) : bump mode a ≤ a + 1 := by
  unfold bump; split <;> omega

theorem bump_of_lt {mode a : Nat} (h : a < mode) : bump mode a = a := by
  unfold bump; split <;> omega

theorem bump_ne_of_lt {mode a x : Nat} (hx : x < mode) (h : a ≠ x) : bump mode a ≠ x := by
  unfold bump; split <;> omega

theorem nodup_map_of_inj {f : Nat → Nat} (hf : ∀ a b, f a = f b → a = b) {l : List Nat}
    (h : l.Nodup) : (l.map f).Nodup := by
  induction l with
  | nil => simp
  | cons x xs ih =>
    simp only [List.map_cons, List.nodup_cons] at h ⊢
    refine ⟨?_, ih h.2⟩
    intro hx
    simp only [List.mem_map] at hx
    obtain ⟨y, hy, e⟩ := hx
    have := hf _ _ e; subst this
    exact h.1 hy

/-- key-renaming of a dict by an injective map -/
def Dict.mapKeys (f : Nat → Nat) (d : Dict) : Dict := d.map fun p => (f p.1, p.2)

theorem keys_mapKeys (f : Nat → Nat) (d : Dict) : (Dict.mapKeys f d).keys = d.keys.map f := by
  simp [Dict.mapKeys, Dict.keys]

theorem length_mapKeys (f : Nat → Nat) (d : Dict) : (Dict.mapKeys f d).length = d.length := by
  simp [Dict.mapKeys]

theorem get?_mapKeys {f : Nat → Nat} (hf : ∀ a b, f a = f b → a = b) (d : Dict) (k : Nat) :
    (Dict.mapKeys f d).get? (f k) = d.get? k := by
  induction d with
  | nil => rfl
  | cons p d ih =>
    show Dict.get? ((f p.1, p.2) :: Dict.mapKeys f d) (f k) = _
    rw [get?_cons, get?_cons, ih]
    by_cases e : p.1 = k
    · simp [e]
    · have : ¬ f p.1 = f k := fun h => e (hf _ _ h)
      simp [e, this]

theorem mapKeys_mapKeys (f g : Nat → Nat) (d : Dict) :
    Dict.mapKeys g (Dict.mapKeys f d) = Dict.mapKeys (g ∘ f) d := by
  simp [Dict.mapKeys]

theorem bumpDict_of_nodup {mode : Nat} {d : Dict} (h : d.keys.Nodup) :
    bumpDict mode d = Dict.mapKeys (bump mode) d := by
  unfold bumpDict Dict.mapKeys
  apply ofPairs_of_nodup
  rw [List.map_map]
  have : ((fun x : Nat × Nat => x.1) ∘ fun p : Nat × Nat => (bump mode p.1, p.2)) = (bump mode) ∘ (·.1) := rfl
  rw [this, ← List.map_map]
  exact nodup_map_of_inj (fun a b => bump_inj) h

/-! ### modes of rewritten components -/
section
variable [Zero K] [One K]

theorem Prim.modes_addEmptyMode_lt (mode n : Nat) (p : Prim K) (h : ∀ m ∈ p.modes, m < n) :
    ∀ m ∈ (p.addEmptyMode mode).modes, m < n + 1 := by
  cases p with
  | bs m1 m2 c s cv =>
    intro m hm
    simp only [Prim.addEmptyMode, Prim.modes, List.mem_cons, List.not_mem_nil, or_false] at hm h
    rcases hm with rfl | rfl
    · have := h m1 (Or.inl rfl); have := bump_le_succ mode m1; omega
    · have := h m2 (Or.inr rfl); have := bump_le_succ mode m2; omega
  | ps m0 p =>
    intro m hm
    simp only [Prim.addEmptyMode, Prim.modes, List.mem_cons, List.not_mem_nil, or_false] at hm h
    subst hm
    have := h m0 rfl; have := bump_le_succ mode m0; omega
  | loss m0 a b =>
    intro m hm
    simp only [Prim.addEmptyMode, Prim.modes, List.mem_cons, List.not_mem_nil, or_false] at hm h
    subst hm
    have := h m0 rfl; have := bump_le_succ mode m0; omega
  | barrier ms =>
    intro m hm
    simp only [Prim.addEmptyMode, Prim.modes, List.mem_map] at hm h
    obtain ⟨a, ha, rfl⟩ := hm
    have := h a ha; have := bump_le_succ mode a; omega
  | swaps σ =>
    intro m hm
    simp only [Prim.addEmptyMode, Prim.modes, List.mem_append] at hm h
    rcases hm with hm | hm
    · have := mem_keys_ofPairs.mp hm
      simp only [List.map_map, List.mem_map, Function.comp] at this
      obtain ⟨q, hq, rfl⟩ := this
      have := h q.1 (Or.inl (by simp only [Dict.keys, List.mem_map]; exact ⟨q, hq, rfl⟩))
      have := bump_le_succ mode q.1; omega
    · have := mem_vals_ofPairs hm
      simp only [List.map_map, List.mem_map, Function.comp] at this
      obtain ⟨q, hq, rfl⟩ := this
      have := h q.2 (Or.inr (by simp only [Dict.vals, List.mem_map]; exact ⟨q, hq, rfl⟩))
      have := bump_le_succ mode q.2; omega
  | unitary m0 u =>
    intro m hm
    simp only [Prim.modes, List.mem_map, List.mem_range] at h
    simp only [Prim.addEmptyMode] at hm
    split at hm
    · rename_i hc
      simp only [Prim.modes, List.mem_map, List.mem_range] at hm
      obtain ⟨r, hr, rfl⟩ := hm
      have hn : (addModeToUnitary u (mode - bump mode m0)).n = u.n + 1 := rfl
      rw [hn] at hr
      have hb : bump mode m0 = m0 := by
        unfold bump at hc ⊢; split <;> rename_i h' <;> simp only [h', if_true, if_false] at hc <;> omega
      rw [hb] at hc ⊢
      have hpos : 0 < u.n := by omega
      have := h (u.n - 1 + m0) ⟨u.n - 1, by omega, rfl⟩
      omega
    · simp only [Prim.modes, List.mem_map, List.mem_range] at hm
      obtain ⟨r, hr, rfl⟩ := hm
      have := h (r + m0) ⟨r, hr, rfl⟩
      have := bump_le_succ mode m0; omega

theorem Comp.modes_addEmptyMode_lt (mode n : Nat) (c : Comp K) (h : ∀ m ∈ c.modes, m < n) :
    ∀ m ∈ (c.addEmptyMode mode).modes, m < n + 1 := by
  cases c with
  | prim p => exact Prim.modes_addEmptyMode_lt mode n p h
  | group cs m1 m2 hin hout =>
    intro m hm
    simp only [Comp.addEmptyMode, Comp.modes, List.mem_flatMap, List.mem_map] at hm h
    obtain ⟨p', ⟨p, hp, rfl⟩, hm⟩ := hm
    exact Prim.modes_addEmptyMode_lt mode n p (fun x hx => h x ⟨p, hp, hx⟩) m hm

theorem spec_addEmptyMode_lt (mode n : Nat) (spec : List (Comp K))
    (h : ∀ c ∈ spec, ∀ m ∈ c.modes, m < n) :
    ∀ c ∈ Circ.addEmptyModeSpec spec mode, ∀ m ∈ c.modes, m < n + 1 := by
  intro c hc
  simp only [Circ.addEmptyModeSpec, List.mem_map] at hc
  obtain ⟨c0, hc0, rfl⟩ := hc
  exact Comp.modes_addEmptyMode_lt mode n c0 (h c0 hc0)
end

theorem Prim.modes_shift_lt (k n : Nat) (p : Prim K) (h : ∀ m ∈ p.modes, m < n) :
    ∀ m ∈ (p.shift k).modes, m < n + k := by
  cases p with
  | bs m1 m2 c s cv =>
    intro m hm
    simp only [Prim.shift, Prim.modes, List.mem_cons, List.not_mem_nil, or_false] at hm h
    rcases hm with rfl | rfl
    · have := h m1 (Or.inl rfl); omega
    · have := h m2 (Or.inr rfl); omega
  | ps m0 p =>
    intro m hm
    simp only [Prim.shift, Prim.modes, List.mem_cons, List.not_mem_nil, or_false] at hm h
    subst hm
    have := h m0 rfl; omega
  | loss m0 a b =>
    intro m hm
    simp only [Prim.shift, Prim.modes, List.mem_cons, List.not_mem_nil, or_false] at hm h
    subst hm
    have := h m0 rfl; omega
  | barrier ms =>
    intro m hm
    simp only [Prim.shift, Prim.modes, List.mem_map] at hm h
    obtain ⟨a, ha, rfl⟩ := hm
    have := h a ha; omega
  | swaps σ =>
    intro m hm
    simp only [Prim.shift, Prim.modes, List.mem_append] at hm h
    rcases hm with hm | hm
    · have := mem_keys_ofPairs.mp hm
      simp only [List.map_map, List.mem_map, Function.comp] at this
      obtain ⟨q, hq, rfl⟩ := this
      have := h q.1 (Or.inl (by simp only [Dict.keys, List.mem_map]; exact ⟨q, hq, rfl⟩))
      omega
    · have := mem_vals_ofPairs hm
      simp only [List.map_map, List.mem_map, Function.comp] at this
      obtain ⟨q, hq, rfl⟩ := this
      have := h q.2 (Or.inr (by simp only [Dict.vals, List.mem_map]; exact ⟨q, hq, rfl⟩))
      omega
  | unitary m0 u =>
    intro m hm
    simp only [Prim.shift, Prim.modes, List.mem_map, List.mem_range] at h hm
    obtain ⟨r, hr, rfl⟩ := hm
    have := h (r + m0) ⟨r, hr, rfl⟩
    omega

theorem Comp.modes_shift_lt (k n : Nat) (c : Comp K) (h : ∀ m ∈ c.modes, m < n) :
    ∀ m ∈ (c.shift k).modes, m < n + k := by
  cases c with
  | prim p => exact Prim.modes_shift_lt k n p h
  | group cs m1 m2 hin hout =>
    intro m hm
    simp only [Comp.shift, Comp.modes, List.mem_flatMap, List.mem_map] at hm h
    obtain ⟨p', ⟨p, hp, rfl⟩, hm⟩ := hm
    exact Prim.modes_shift_lt k n p (fun x hx => h x ⟨p, hp, hx⟩) m hm

theorem modes_toPrims (c : Comp K) : c.toPrims.flatMap Prim.modes = c.modes := by
  cases c <;> simp [Comp.toPrims, Comp.modes]

theorem modes_unpackSpec_lt (n : Nat) (spec : List (Comp K)) (h : ∀ c ∈ spec, ∀ m ∈ c.modes, m < n) :
    ∀ c ∈ unpackSpec spec, ∀ m ∈ c.modes, m < n := by
  intro c hc m hm
  simp only [unpackSpec, List.mem_flatMap] at hc
  obtain ⟨c0, hc0, hc⟩ := hc
  cases c0 with
  | prim p =>
    simp only [List.mem_singleton] at hc; subst hc
    exact h _ hc0 m hm
  | group cs m1 m2 hin hout =>
    simp only [List.mem_map] at hc
    obtain ⟨p, hp, rfl⟩ := hc
    apply h _ hc0 m
    simp only [Comp.modes, List.mem_flatMap]
    exact ⟨p, hp, hm⟩

end LW.Proofs.C02
