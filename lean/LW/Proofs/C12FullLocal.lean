/-
  LW.Proofs.C12FullLocal — amplitudes of a sub-circuit placed on the qubits `Q` with heralds from
  mode `P` on (`placeHomG (homOf U d) (fwdQ Q P) (invQ Q P) (P + h)`): a non-zero amplitude leaves
  every other mode alone and conserves the photons on the placement; between states that agree
  outside the placement the amplitude is the sub-circuit's amplitude between the local states
  `userList Q · ++ H`.
-/
import LW.Proofs.C12FullIdx
import LW.Proofs.C12FullIdeal

open MvPolynomial

namespace LW.C12F

open LW LW.QC LW.Gates LW.QF LW.Proofs.C02Sem

variable {R : Type} [CommRing R]

/-! ### the local user state -/

/-- occupations of the modes of the qubits `Q`, in order -/
def userList : List ℕ → (ℕ →₀ ℕ) → List ℕ
  | [], _ => []
  | q :: Q, s => s (2 * q) :: s (2 * q + 1) :: userList Q s

theorem userList_length (Q : List ℕ) (s : ℕ →₀ ℕ) : (userList Q s).length = 2 * Q.length := by
  induction Q with
  | nil => rfl
  | cons q Q ih => simp [userList, ih]; omega

theorem userList_getD (Q : List ℕ) (s : ℕ →₀ ℕ) (j e : ℕ) (hj : j < Q.length) (he : e < 2) :
    (userList Q s).getD (2 * j + e) 0 = s (2 * Q.getD j 0 + e) := by
  induction Q generalizing j with
  | nil => simp at hj
  | cons q Q ih =>
    cases j with
    | zero =>
      have : e = 0 ∨ e = 1 := by omega
      rcases this with rfl | rfl <;> simp [userList]
    | succ j =>
      have e1 : 2 * (j + 1) + e = (2 * j + e) + 1 + 1 := by omega
      rw [e1]
      simp only [userList, List.getD_cons_succ]
      rw [ih j (by simpa using hj)]

theorem userList_sum (Q : List ℕ) (s : ℕ →₀ ℕ) :
    (userList Q s).sum = (Q.map fun q => s (2 * q) + s (2 * q + 1)).sum := by
  induction Q with
  | nil => rfl
  | cons q Q ih => simp [userList, ih]; omega

theorem userList_congr (Q : List ℕ) (s t : ℕ →₀ ℕ)
    (h : ∀ q ∈ Q, s (2 * q) = t (2 * q) ∧ s (2 * q + 1) = t (2 * q + 1)) :
    userList Q s = userList Q t := by
  induction Q with
  | nil => rfl
  | cons q Q ih =>
    simp only [userList]
    rw [(h q (by simp)).1, (h q (by simp)).2, ih (fun q' hq' => h q' (by simp [hq']))]

/-- the local user state of a dual-rail state is the dual-rail state of the local bits -/
theorem userList_dualRail (Q : List ℕ) (b : List Bool) (η : ℕ →₀ ℕ)
    (hη : ∀ z ∈ η.support, 2 * b.length ≤ z) (hQ : ∀ q ∈ Q, q < b.length) :
    userList Q (mk (dualRail b) η) = dualRail (Q.map (getBit b)) := by
  have hl : (dualRail b).length = 2 * b.length := dualRail_length b
  induction Q with
  | nil => rfl
  | cons q Q ih =>
    have hq := hQ q (by simp)
    simp only [userList, List.map_cons]
    rw [ih (fun q' hq' => hQ q' (by simp [hq'])),
      mk_apply_lt (by rw [hl]; exact hη) (by omega), mk_apply_lt (by rw [hl]; exact hη) (by omega),
      dualRail_getD_even, dualRail_getD_odd]
    cases hgb : getBit b q <;> simp [dualRail, hq]

theorem pull_fwdQ (Q : List ℕ) (P : ℕ) (H : List ℕ) (s : ℕ →₀ ℕ) (hs : HerAt P H s) :
    pull (2 * Q.length + H.length) (fwdQ Q P) s = (userList Q s ++ H).toFinsupp := by
  ext y
  rw [pull_apply, List.toFinsupp_apply]
  have hul := userList_length Q s
  by_cases h1 : y < 2 * Q.length
  · rw [if_pos (by omega), fwdQ_lt_port h1, List.getD_append _ _ _ _ (by omega)]
    have := userList_getD Q s (y / 2) (y % 2) (by omega) (by omega)
    rw [Nat.div_add_mod] at this
    exact this.symm
  · by_cases h2 : y < 2 * Q.length + H.length
    · rw [if_pos h2, fwdQ_ge_port (by omega), List.getD_append_right _ _ _ _ (by omega), hul]
      exact hs _ (by omega)
    · rw [if_neg h2, List.getD_eq_default _ _ (by rw [List.length_append, hul]; omega)]

/-! ### sums over the modes of a list of qubits -/

theorem sum_pairs (Q : List ℕ) (hnd : Q.Nodup) (w : ℕ →₀ ℕ) :
    ∑ j ∈ Q.toFinset.biUnion (fun q => ({2 * q, 2 * q + 1} : Finset ℕ)), w j
      = (Q.map fun q => w (2 * q) + w (2 * q + 1)).sum := by
  induction Q with
  | nil => simp
  | cons q Q ih =>
    rw [List.nodup_cons] at hnd
    rw [List.toFinset_cons, Finset.biUnion_insert, Finset.sum_union, ih hnd.2, List.map_cons,
      List.sum_cons, Finset.sum_pair (by omega)]
    rw [Finset.disjoint_left]
    intro j hj hj'
    rw [Finset.mem_biUnion] at hj'
    obtain ⟨q', hq', hjq'⟩ := hj'
    rw [List.mem_toFinset] at hq'
    simp only [Finset.mem_insert, Finset.mem_singleton] at hj hjq'
    have : q = q' := by omega
    subst this
    exact hnd.1 hq'

/-! ### the placed homomorphism -/

section placed

variable (Q : List ℕ) (P h : ℕ) (U : ℕ → ℕ → R) (hnd : Q.Nodup) (hlt : ∀ q ∈ Q, 2 * q + 1 < P)

include hnd hlt

/-- modes outside the placement keep their occupation -/
theorem place_outside {w s : ℕ →₀ ℕ}
    (hne : amp (placeHomG (homOf U (2 * Q.length + h)) (fwdQ Q P) (invQ Q P) (P + h)) w s ≠ 0)
    {z : ℕ} (hz1 : ¬ (z / 2 ∈ Q ∧ z < P)) (hz2 : ¬ (P ≤ z ∧ z < P + h)) : w z = s z := by
  have hp := pinj_fwdQ Q P h hnd hlt
  have hne' := fwdQ_ne (h := h) hz1 hz2 hlt
  have hpres : Pres (wtP (· = z)) (placeHomG (homOf U (2 * Q.length + h)) (fwdQ Q P) (invQ Q P)
      (P + h)) := by
    apply pres_place hp
    intro x y hx hy
    unfold wtP
    rw [if_neg (hne' x hx), if_neg (hne' y hy)]
  exact hpres.apply_eq hne

theorem place_pres_outside {z : ℕ} (hz1 : ¬ (z / 2 ∈ Q ∧ z < P)) (hz2 : ¬ (P ≤ z ∧ z < P + h)) :
    Pres (wtP (· = z)) (placeHomG (homOf U (2 * Q.length + h)) (fwdQ Q P) (invQ Q P) (P + h)) := by
  have hp := pinj_fwdQ Q P h hnd hlt
  have hne' := fwdQ_ne (h := h) hz1 hz2 hlt
  apply pres_place hp
  intro x y hx hy
  unfold wtP
  rw [if_neg (hne' x hx), if_neg (hne' y hy)]

theorem place_rest {w s : ℕ →₀ ℕ}
    (hne : amp (placeHomG (homOf U (2 * Q.length + h)) (fwdQ Q P) (invQ Q P) (P + h)) w s ≠ 0) :
    rest (P + h) (invQ Q P) w = rest (P + h) (invQ Q P) s := by
  ext z
  rw [rest_apply, rest_apply]
  by_cases hz : z < P + h ∧ (invQ Q P z).isSome = true
  · rw [if_pos hz, if_pos hz]
  · rw [if_neg hz, if_neg hz]
    apply place_outside Q P h U hnd hlt hne
    · rintro ⟨hm, hzP⟩
      apply hz
      refine ⟨by omega, ?_⟩
      unfold invQ
      rw [if_pos hzP, if_pos hm]
      rfl
    · rintro ⟨h1, h2⟩
      apply hz
      refine ⟨h2, ?_⟩
      unfold invQ
      rw [if_neg (by omega)]
      rfl

omit hnd hlt in
/-- agreement outside the placement gives equal outside parts -/
theorem rest_eq_of_agree {w s : ℕ →₀ ℕ}
    (hag : ∀ z, ¬ (z / 2 ∈ Q ∧ z < P) → ¬ (P ≤ z ∧ z < P + h) → w z = s z) :
    rest (P + h) (invQ Q P) w = rest (P + h) (invQ Q P) s := by
  ext z
  rw [rest_apply, rest_apply]
  by_cases hz : z < P + h ∧ (invQ Q P z).isSome = true
  · rw [if_pos hz, if_pos hz]
  · rw [if_neg hz, if_neg hz]
    apply hag
    · rintro ⟨hm, hzP⟩
      apply hz
      refine ⟨by omega, ?_⟩
      unfold invQ
      rw [if_pos hzP, if_pos hm]
      rfl
    · rintro ⟨h1, h2⟩
      apply hz
      refine ⟨h2, ?_⟩
      unfold invQ
      rw [if_neg (by omega)]
      rfl

/-- the photons on the qubits of the placement are conserved when the heralds are in place -/
theorem place_sum {H : List ℕ} (hH : H.length = h) {w s : ℕ →₀ ℕ}
    (hne : amp (placeHomG (homOf U (2 * Q.length + h)) (fwdQ Q P) (invQ Q P) (P + h)) w s ≠ 0)
    (hw : HerAt P H w) (hs : HerAt P H s) :
    (Q.map fun q => w (2 * q) + w (2 * q + 1)).sum = (Q.map fun q => s (2 * q) + s (2 * q + 1)).sum := by
  classical
  have hp := pinj_fwdQ Q P h hnd hlt
  set p : ℕ → Prop := fun j => (j / 2 ∈ Q ∧ j < P) ∨ (P ≤ j ∧ j < P + h) with hpdef
  set UA := Q.toFinset.biUnion (fun q => ({2 * q, 2 * q + 1} : Finset ℕ)) with hUA
  have hUAmem : ∀ j, j ∈ UA ↔ j / 2 ∈ Q := by
    intro j
    rw [hUA, Finset.mem_biUnion]
    constructor
    · rintro ⟨q, hq, hj⟩
      rw [List.mem_toFinset] at hq
      simp only [Finset.mem_insert, Finset.mem_singleton] at hj
      have : j / 2 = q := by omega
      rw [this]; exact hq
    · intro hj
      refine ⟨j / 2, List.mem_toFinset.mpr hj, ?_⟩
      simp only [Finset.mem_insert, Finset.mem_singleton]
      omega
  have hA : ∀ j, j ∈ UA ∪ Finset.Ico P (P + h) ↔ p j := by
    intro j
    rw [Finset.mem_union, hUAmem, Finset.mem_Ico]
    constructor
    · rintro (hj | hj)
      · left
        have := hlt _ hj
        exact ⟨hj, by omega⟩
      · right; exact hj
    · rintro (⟨hj, _⟩ | hj)
      · left; exact hj
      · right; exact hj
  have hpres : Pres (wtP p) (placeHomG (homOf U (2 * Q.length + h)) (fwdQ Q P) (invQ Q P)
      (P + h)) := by
    apply pres_place hp
    have hone : ∀ x, x < 2 * Q.length + h → wtP p (fwdQ Q P x) = 1 := by
      intro x hx
      unfold wtP
      rw [if_pos]
      by_cases h1 : x < 2 * Q.length
      · left
        rw [fwdQ_lt_port h1]
        have hm := getD_mem' (Q := Q) (j := x / 2) (by omega)
        have := hlt _ hm
        have e1 : (2 * Q.getD (x / 2) 0 + x % 2) / 2 = Q.getD (x / 2) 0 := by omega
        rw [e1]
        exact ⟨hm, by omega⟩
      · right
        rw [fwdQ_ge_port (by omega)]
        omega
    intro x y hx hy
    rw [hone x hx, hone y hy]
  have hsum := hpres.sum_eq _ hA hne
  have hdisj : Disjoint UA (Finset.Ico P (P + h)) := by
    rw [Finset.disjoint_left]
    intro j hj hj'
    rw [hUAmem] at hj
    rw [Finset.mem_Ico] at hj'
    have := hlt _ hj
    omega
  rw [Finset.sum_union hdisj, Finset.sum_union hdisj] at hsum
  have hher : ∑ j ∈ Finset.Ico P (P + h), w j = ∑ j ∈ Finset.Ico P (P + h), s j := by
    apply Finset.sum_congr rfl
    intro j hj
    rw [Finset.mem_Ico] at hj
    have e : j = P + (j - P) := by omega
    rw [e, hw (j - P) (by omega), hs (j - P) (by omega)]
  rw [hher] at hsum
  have := Nat.add_right_cancel hsum
  rw [sum_pairs Q hnd, sum_pairs Q hnd] at this
  exact this

/-- the amplitude between states that agree outside the placement, with the heralds in place, is
the sub-circuit's amplitude between the local states -/
theorem amp_local {H : List ℕ} (hH : H.length = h) (w s : ℕ →₀ ℕ)
    (hr : rest (P + h) (invQ Q P) w = rest (P + h) (invQ Q P) s)
    (hw : HerAt P H w) (hs : HerAt P H s) :
    amp (placeHomG (homOf U (2 * Q.length + h)) (fwdQ Q P) (invQ Q P) (P + h)) w s =
      amp (homOf U (2 * Q.length + h)) (userList Q w ++ H).toFinsupp
        (userList Q s ++ H).toFinsupp := by
  have hp := pinj_fwdQ Q P h hnd hlt
  have hinj := fwdQ_injective Q P hnd hlt
  rw [amp_place hp hinj _ w s hr]
  subst hH
  rw [pull_fwdQ Q P H w hw, pull_fwdQ Q P H s hs]

end placed

end LW.C12F
