/-
  LW.Proofs.C02Basic — sorting, the skipping fold of `mapMode`, and `Dict` lemmas (for C02).
-/
import LW.Proofs.CircInv

namespace LW.Proofs.C02

variable {K : Type}

/-! ### sorting -/
theorem perm_insertSorted (x : Nat) (l : List Nat) : (insertSorted x l).Perm (x :: l) := by
  induction l with
  | nil => simp [insertSorted]
  | cons y ys ih =>
    simp only [insertSorted]
    split
    · exact List.Perm.refl _
    · exact (List.Perm.cons y ih).trans (List.Perm.swap x y ys)

theorem mem_insertSorted {a x : Nat} {l : List Nat} : a ∈ insertSorted x l ↔ a = x ∨ a ∈ l := by
  rw [(perm_insertSorted x l).mem_iff]; simp

theorem sorted_insertSorted (x : Nat) (l : List Nat) (h : l.Pairwise (· ≤ ·)) :
    (insertSorted x l).Pairwise (· ≤ ·) := by
  induction l with
  | nil => simp [insertSorted]
  | cons y ys ih =>
    simp only [insertSorted]
    split
    · rename_i hxy
      refine List.Pairwise.cons ?_ h
      intro a ha
      rcases List.mem_cons.mp ha with rfl | ha
      · exact hxy
      · exact Nat.le_trans hxy (List.rel_of_pairwise_cons h ha)
    · rename_i hxy
      refine List.Pairwise.cons ?_ (ih h.of_cons)
      intro a ha
      rcases mem_insertSorted.mp ha with rfl | ha
      · omega
      · exact List.rel_of_pairwise_cons h ha

theorem perm_sortNat (l : List Nat) : (sortNat l).Perm l := by
  induction l with
  | nil => exact List.Perm.refl _
  | cons x xs ih =>
    show (insertSorted x (sortNat xs)).Perm (x :: xs)
    exact (perm_insertSorted x _).trans (List.Perm.cons x ih)

theorem mem_sortNat {a : Nat} {l : List Nat} : a ∈ sortNat l ↔ a ∈ l := (perm_sortNat l).mem_iff

theorem length_sortNat (l : List Nat) : (sortNat l).length = l.length := (perm_sortNat l).length_eq

theorem sorted_sortNat (l : List Nat) : (sortNat l).Pairwise (· ≤ ·) := by
  induction l with
  | nil => exact List.Pairwise.nil
  | cons x xs ih => exact sorted_insertSorted x _ ih

theorem nodup_sortNat {l : List Nat} (h : l.Nodup) : (sortNat l).Nodup := (perm_sortNat l).nodup_iff.mpr h

theorem strictSorted_sortNat {l : List Nat} (h : l.Nodup) : (sortNat l).Pairwise (· < ·) := by
  have h1 := sorted_sortNat l
  have h2 : (sortNat l).Pairwise (· ≠ ·) := nodup_sortNat h
  exact (h1.and h2).imp (fun ⟨a, b⟩ => Nat.lt_of_le_of_ne a b)

/-! ### the skipping fold of `mapMode` -/
abbrev skipFold (l : List Nat) (m : Int) : Int :=
  l.foldl (fun (m : Int) (i : Nat) => if m ≥ (i : Int) then m + 1 else m) m

theorem skipFold_strictMono (l : List Nat) {m m' : Int} (h : m < m') : skipFold l m < skipFold l m' := by
  induction l generalizing m m' with
  | nil => exact h
  | cons i t ih =>
    simp only [skipFold, List.foldl_cons]
    apply ih
    split <;> split <;> omega

theorem le_skipFold (l : List Nat) (m : Int) : m ≤ skipFold l m := by
  induction l generalizing m with
  | nil => exact Int.le_refl _
  | cons i t ih =>
    simp only [skipFold, List.foldl_cons]
    refine Int.le_trans ?_ (ih _)
    split <;> omega

theorem skipFold_of_lt (l : List Nat) (m : Int) (h : ∀ a ∈ l, m < (a : Int)) : skipFold l m = m := by
  induction l generalizing m with
  | nil => rfl
  | cons i t ih =>
    simp only [skipFold, List.foldl_cons]
    have : ¬ m ≥ (i : Int) := by have := h i (by simp); omega
    rw [if_neg this]
    exact ih m (fun a ha => h a (by simp [ha]))

theorem skipFold_not_mem (l : List Nat) (hs : l.Pairwise (· ≤ ·)) (m : Int) :
    ∀ a ∈ l, skipFold l m ≠ (a : Int) := by
  induction l generalizing m with
  | nil => simp
  | cons i t ih =>
    intro a ha
    simp only [skipFold, List.foldl_cons]
    rcases List.mem_cons.mp ha with rfl | ha
    · by_cases hmi : m ≥ (a : Int)
      · rw [if_pos hmi]
        have := le_skipFold t (m + 1)
        simp only [skipFold] at this
        omega
      · rw [if_neg hmi]
        have := skipFold_of_lt t m (fun b hb => by
          have := List.rel_of_pairwise_cons hs hb
          omega)
        simp only [skipFold] at this
        rw [this]; omega
    · exact ih hs.of_cons _ a ha

theorem head_add_length_le (i : Nat) (t : List Nat) (n : Nat) (hs : (i :: t).Pairwise (· < ·))
    (hn : ∀ a ∈ i :: t, a < n) : i + t.length + 1 ≤ n := by
  induction t generalizing i with
  | nil => have := hn i (by simp); simp; omega
  | cons j u ih =>
    have hij : i < j := List.rel_of_pairwise_cons hs (by simp)
    have := ih j hs.of_cons (fun a ha => hn a (by simp [ha]))
    simp only [List.length_cons]; omega

theorem skipFold_lt_iff (l : List Nat) (n : Nat) (hs : l.Pairwise (· < ·)) (hn : ∀ a ∈ l, a < n)
    (m : Int) : skipFold l m < (n : Int) ↔ m + (l.length : Int) < (n : Int) := by
  induction l generalizing m with
  | nil => simp [skipFold]
  | cons i t ih =>
    simp only [skipFold, List.foldl_cons]
    have hlen := head_add_length_le i t n hs hn
    by_cases hmi : m ≥ (i : Int)
    · rw [if_pos hmi]
      have := ih hs.of_cons (fun a ha => hn a (by simp [ha])) (m + 1)
      simp only [skipFold] at this
      rw [this]; simp only [List.length_cons]; omega
    · rw [if_neg hmi]
      have := skipFold_of_lt t m (fun b hb => by
          have := List.rel_of_pairwise_cons hs hb
          omega)
      simp only [skipFold] at this
      rw [this]; simp only [List.length_cons]; omega

/-! ### Dict -/
theorem contains_iff {d : Dict} {k : Nat} : d.contains k = true ↔ k ∈ d.keys := by
  simp [Dict.contains, Dict.keys]

theorem get?_cons (p : Nat × Nat) (d : Dict) (k : Nat) :
    Dict.get? (p :: d) k = if p.1 = k then some p.2 else Dict.get? d k := by
  simp only [Dict.get?, List.find?_cons]
  by_cases h : p.1 = k
  · simp [h]
  · have : (p.1 == k) = false := by simp [h]
    simp [this, h]

theorem get?_eq_none_iff {d : Dict} {k : Nat} : d.get? k = none ↔ k ∉ d.keys := by
  induction d with
  | nil => simp [Dict.get?, Dict.keys]
  | cons p d ih =>
    rw [get?_cons]
    by_cases h : p.1 = k
    · simp [h, Dict.keys]
    · simp only [if_neg h, ih, Dict.keys, List.map_cons, List.mem_cons, not_or]
      constructor
      · intro h2; exact ⟨fun e => h e.symm, h2⟩
      · intro h2; exact h2.2

theorem get?_isSome_iff {d : Dict} {k : Nat} : (d.get? k).isSome ↔ k ∈ d.keys := by
  rw [Option.isSome_iff_ne_none, Ne, get?_eq_none_iff, Classical.not_not]

theorem get?_mem_vals {d : Dict} {k v : Nat} (h : d.get? k = some v) : v ∈ d.vals := by
  induction d with
  | nil => simp [Dict.get?] at h
  | cons p d ih =>
    rw [get?_cons] at h
    by_cases e : p.1 = k
    · simp [e] at h; simp [Dict.vals, h]
    · simp only [if_neg e] at h; have := ih h; simp [Dict.vals] at this ⊢; right; exact this

theorem set_of_not_mem {d : Dict} {k v : Nat} (h : k ∉ d.keys) : d.set k v = d ++ [(k, v)] := by
  have : d.contains k = false := by
    rw [← Bool.not_eq_true, contains_iff]; exact h
  simp [Dict.set, this]

theorem keys_set_of_mem {d : Dict} {k v : Nat} (h : k ∈ d.keys) : (d.set k v).keys = d.keys := by
  have : d.contains k = true := contains_iff.mpr h
  simp only [Dict.set, this, if_true, Dict.keys, List.map_map]
  apply List.map_congr_left
  intro p _
  by_cases e : p.1 = k <;> simp [e]

theorem keys_set (d : Dict) (k v : Nat) :
    (d.set k v).keys = if k ∈ d.keys then d.keys else d.keys ++ [k] := by
  split
  · rename_i h; exact keys_set_of_mem h
  · rename_i h; rw [set_of_not_mem h]; simp [Dict.keys]

theorem mem_keys_set {d : Dict} {k v x : Nat} : x ∈ (d.set k v).keys ↔ x = k ∨ x ∈ d.keys := by
  rw [keys_set]
  split
  · rename_i h; constructor
    · exact Or.inr
    · rintro (rfl | h2); exact h; exact h2
  · simp [or_comm]

theorem nodup_keys_set {d : Dict} {k v : Nat} (h : d.keys.Nodup) : (d.set k v).keys.Nodup := by
  rw [keys_set]
  split
  · exact h
  · rename_i hk
    rw [List.nodup_append]
    refine ⟨h, by simp, ?_⟩
    intro a ha b hb
    simp at hb; subst hb
    intro e; subst e; exact hk ha

theorem mem_vals_set {d : Dict} {k v x : Nat} (h : x ∈ (d.set k v).vals) : x = v ∨ x ∈ d.vals := by
  unfold Dict.set at h
  split at h
  · simp only [Dict.vals, List.map_map, List.mem_map, Function.comp] at h
    obtain ⟨p, hp, rfl⟩ := h
    by_cases e : p.1 = k
    · simp [e]
    · right; simp only [beq_iff_eq, e, if_false, Dict.vals, List.mem_map]; exact ⟨p, hp, rfl⟩
  · simp only [Dict.vals, List.map_append, List.mem_append, List.map_cons, List.map_nil,
      List.mem_singleton] at h
    rcases h with h | h
    · right; exact h
    · left; exact h

theorem get?_append (d e : Dict) (k : Nat) :
    Dict.get? (d ++ e) k = (Dict.get? d k).or (Dict.get? e k) := by
  induction d with
  | nil => simp [Dict.get?]
  | cons p d ih =>
    rw [List.cons_append, get?_cons, get?_cons, ih]
    split <;> simp

theorem get?_set (d : Dict) (k v k' : Nat) :
    (d.set k v).get? k' = if k' = k then some v else d.get? k' := by
  by_cases hk : k ∈ d.keys
  · have : d.contains k = true := contains_iff.mpr hk
    simp only [Dict.set, this, if_true]
    clear this
    induction d with
    | nil => simp [Dict.keys] at hk
    | cons p d ih =>
      rw [List.map_cons, get?_cons, get?_cons]
      by_cases e : p.1 = k
      · simp only [e, beq_self_eq_true, if_true]
        by_cases e2 : k = k'
        · simp [e2]
        · have e3 : ¬ k' = k := fun h => e2 h.symm
          simp only [e2, e3, if_false]
          by_cases hk2 : k ∈ Dict.keys d
          · have := ih hk2; rw [if_neg e3] at this; exact this
          · -- no more occurrences of k: the map is the identity
            have : d.map (fun p => if (p.1 == k) = true then (k, v) else p) = d := by
              conv => rhs; rw [← List.map_id d]
              apply List.map_congr_left
              intro q hq
              have : q.1 ≠ k := by
                intro h; apply hk2; simp only [Dict.keys, List.mem_map]; exact ⟨q, hq, h⟩
              simp [this]
            rw [this]
      · have hk2 : k ∈ Dict.keys d := by
          simp only [Dict.keys, List.map_cons, List.mem_cons] at hk
          rcases hk with h | h
          · exact absurd h.symm e
          · exact h
        have e' : (p.1 == k) = false := by simp [e]
        simp only [e', Bool.false_eq_true, if_false]
        rw [ih hk2]
        by_cases e2 : p.1 = k'
        · have : ¬ k' = k := by rw [← e2]; exact e
          simp [e2, this]
        · simp [e2]
  · rw [set_of_not_mem hk, get?_append, get?_cons]
    by_cases e : k' = k
    · subst e
      have := get?_eq_none_iff.mpr hk
      simp [this]
    · have e2 : ¬ k = k' := fun h => e h.symm
      simp [e, e2, Dict.get?]

/-- folding `set` over fresh, pairwise distinct keys appends -/
theorem foldl_set_fresh (ps : List (Nat × Nat)) (d : Dict)
    (hnd : (ps.map (·.1)).Nodup) (hdis : ∀ k ∈ ps.map (·.1), k ∉ d.keys) :
    ps.foldl (fun d p => d.set p.1 p.2) d = d ++ ps := by
  induction ps generalizing d with
  | nil => simp
  | cons p ps ih =>
    simp only [List.foldl_cons]
    have hp : p.1 ∉ d.keys := hdis p.1 (by simp)
    rw [set_of_not_mem hp]
    simp only [List.map_cons, List.nodup_cons] at hnd
    rw [ih _ hnd.2]
    · simp
    · intro k hk
      simp only [Dict.keys, List.map_append, List.mem_append, List.map_cons, List.map_nil,
        List.mem_singleton, not_or]
      refine ⟨hdis k (by simp [hk]), ?_⟩
      intro e; subst e; exact hnd.1 hk

theorem ofPairs_of_nodup {ps : List (Nat × Nat)} (h : (ps.map (·.1)).Nodup) : Dict.ofPairs ps = ps := by
  unfold Dict.ofPairs
  rw [foldl_set_fresh ps [] h (by simp [Dict.keys])]
  simp

theorem foldl_set_keys (ps : List (Nat × Nat)) (d : Dict) :
    (∀ x, x ∈ (ps.foldl (fun d p => d.set p.1 p.2) d).keys ↔ x ∈ d.keys ∨ x ∈ ps.map (·.1)) ∧
    (∀ x ∈ (ps.foldl (fun d p => d.set p.1 p.2) d).vals, x ∈ d.vals ∨ x ∈ ps.map (·.2)) ∧
    (d.keys.Nodup → (ps.foldl (fun d p => d.set p.1 p.2) d).keys.Nodup) := by
  induction ps generalizing d with
  | nil => simp
  | cons p ps ih =>
    simp only [List.foldl_cons]
    obtain ⟨h1, h2, h3⟩ := ih (d.set p.1 p.2)
    refine ⟨?_, ?_, ?_⟩
    · intro x; rw [h1, mem_keys_set]; simp only [List.map_cons, List.mem_cons]
      constructor
      · rintro ((h | h) | h)
        · exact Or.inr (Or.inl h)
        · exact Or.inl h
        · exact Or.inr (Or.inr h)
      · rintro (h | h | h)
        · exact Or.inl (Or.inr h)
        · exact Or.inl (Or.inl h)
        · exact Or.inr h
    · intro x hx
      rcases h2 x hx with h | h
      · rcases mem_vals_set h with h | h
        · right; simp [h]
        · left; exact h
      · right; simp only [List.map_cons, List.mem_cons]; right; exact h
    · intro hd; exact h3 (nodup_keys_set hd)

theorem mem_keys_ofPairs {ps : List (Nat × Nat)} {x : Nat} :
    x ∈ (Dict.ofPairs ps).keys ↔ x ∈ ps.map (·.1) := by
  have := (foldl_set_keys ps []).1 x
  simpa [Dict.keys, Dict.ofPairs] using this

theorem mem_vals_ofPairs {ps : List (Nat × Nat)} {x : Nat} (h : x ∈ (Dict.ofPairs ps).vals) :
    x ∈ ps.map (·.2) := by
  have := (foldl_set_keys ps []).2.1 x h
  simpa [Dict.vals, Dict.ofPairs] using this

theorem nodup_keys_ofPairs (ps : List (Nat × Nat)) : (Dict.ofPairs ps).keys.Nodup :=
  (foldl_set_keys ps []).2.2 (by simp [Dict.keys])

end LW.Proofs.C02
