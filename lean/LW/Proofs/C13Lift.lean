/-
  LW.Proofs.C13Lift — transport of the kernel-decided amplitude tables from the exact towers to
  ANY field containing constants that satisfy the defining equations (in particular ℂ).

    * `THom φ`: `φ` preserves 0, 1, +, ·, − between a type with bare operations and a ring;
      `phi6` (ℤ[1/6] → R) and `quadPhi` (adjoining a square root) build such maps on the towers,
      sound for the towers' zero test and semantic equality;
    * `MRel φ A B`: entrywise image of a model matrix; closed under every matrix operation the
      gate constructors use; the permanent-based amplitude commutes with `φ`;
    * `HasTable.lift`: a table over a tower yields the same table over the field.
-/
import Mathlib.Tactic.Ring
import Mathlib.Tactic.FieldSimp
import Mathlib.Tactic.LinearCombination
import Mathlib.Algebra.Field.Basic
import LW.Proofs.MatAlg
import LW.Proofs.C13Struct
import LW.Proofs.C13

set_option linter.unusedSectionVars false

namespace LW.Gates

open LW.QF

/-! ### structure-preserving maps -/

structure THom {T R : Type} [Add T] [Mul T] [Neg T] [Zero T] [One T] [Ring R] (φ : T → R) : Prop where
  map_zero : φ 0 = 0
  map_one : φ 1 = 1
  map_add : ∀ x y, φ (x + y) = φ x + φ y
  map_mul : ∀ x y, φ (x * y) = φ x * φ y
  map_neg : ∀ x, φ (-x) = -φ x

/-- the zero test is sound for `φ` -/
def ZSound {T R : Type} [ZTest T] [Zero R] (φ : T → R) : Prop := ∀ x, ZTest.isZero x = true → φ x = 0
/-- semantic equality is sound for `φ` -/
def ESound {T R : Type} [Eqv T] (φ : T → R) : Prop := ∀ x y, Eqv.eqv x y = true → φ x = φ y

section S6
variable (R : Type) [Field R]

/-- `n / 6^e` in a field -/
def phi6 (x : S6) : R := (x.n : R) / 6 ^ x.e

variable {R}

theorem S6.add_def (x y : S6) : x + y =
    if x.n == 0 then y else if y.n == 0 then x
    else ⟨x.n * S6.pow6 (max x.e y.e - x.e) + y.n * S6.pow6 (max x.e y.e - y.e), max x.e y.e⟩ := rfl
theorem S6.mul_def (x y : S6) : x * y =
    if x.n == 0 || y.n == 0 then ⟨0, 0⟩ else ⟨x.n * y.n, x.e + y.e⟩ := rfl
theorem S6.neg_def (x : S6) : -x = ⟨-x.n, x.e⟩ := rfl

theorem cast_pow6 (k : Nat) : ((S6.pow6 k : Int) : R) = 6 ^ k := by simp [S6.pow6]

theorem phi6_hom (h6 : (6 : R) ≠ 0) : THom (phi6 R) where
  map_zero := by show phi6 R ⟨0, 0⟩ = 0; simp [phi6]
  map_one := by show phi6 R ⟨1, 0⟩ = 1; simp [phi6]
  map_neg := by intro x; rw [S6.neg_def]; simp [phi6, neg_div]
  map_mul := by
    intro x y
    rw [S6.mul_def]
    by_cases hx : x.n = 0
    · simp [hx, phi6]
    · by_cases hy : y.n = 0
      · simp [hy, phi6]
      · have hcond : (x.n == 0 || y.n == 0) = false := by simp [hx, hy]
        rw [hcond]
        simp only [Bool.false_eq_true, if_false, phi6, Int.cast_mul, pow_add]
        field_simp
  map_add := by
    intro x y
    rw [S6.add_def]
    by_cases hx : x.n = 0
    · simp [hx, phi6]
    · by_cases hy : y.n = 0
      · simp [hx, hy, phi6]
      · have hxb : (x.n == 0) = false := by simpa using hx
        have hyb : (y.n == 0) = false := by simpa using hy
        rw [hxb, hyb]
        simp only [Bool.false_eq_true, if_false, phi6, Int.cast_add, Int.cast_mul, cast_pow6]
        have h1 : (6 : R) ^ (max x.e y.e) = 6 ^ x.e * 6 ^ (max x.e y.e - x.e) := by
          rw [← pow_add]; congr 1; omega
        have h2 : (6 : R) ^ (max x.e y.e) = 6 ^ y.e * 6 ^ (max x.e y.e - y.e) := by
          rw [← pow_add]; congr 1; omega
        have ha : (6 : R) ^ x.e ≠ 0 := pow_ne_zero _ h6
        have hb : (6 : R) ^ y.e ≠ 0 := pow_ne_zero _ h6
        have hm : (6 : R) ^ (max x.e y.e) ≠ 0 := pow_ne_zero _ h6
        rw [div_add_div _ _ ha hb, div_eq_div_iff hm (mul_ne_zero ha hb)]
        generalize (6 : R) ^ (max x.e y.e) = m at h1 h2
        generalize (6 : R) ^ (max x.e y.e - x.e) = a' at h1
        generalize (6 : R) ^ (max x.e y.e - y.e) = b' at h2
        generalize (6 : R) ^ x.e = a at h1
        generalize (6 : R) ^ y.e = b at h2
        subst h1
        linear_combination (-(y.n : R) * a) * h2

theorem phi6_zsound : ZSound (phi6 R) := by
  intro x hx
  have : x.n = 0 := by simpa [ZTest.isZero] using hx
  simp [phi6, this]

theorem phi6_esound (h6 : (6 : R) ≠ 0) : ESound (phi6 R) := by
  intro x y h
  have h' : x.n * S6.pow6 y.e = y.n * S6.pow6 x.e := by simpa [Eqv.eqv] using h
  have h'' : (x.n : R) * 6 ^ y.e = y.n * 6 ^ x.e := by
    have := congrArg (fun z : Int => (z : R)) h'
    simpa [cast_pow6] using this
  simp only [phi6]
  rw [div_eq_div_iff (pow_ne_zero _ h6) (pow_ne_zero _ h6)]
  exact h''

end S6

section QuadHom
variable {K R : Type} [Add K] [Mul K] [Neg K] [Zero K] [One K] [ZTest K] [CommRing R] {d : K}

/-- `a + b√d ↦ φ a + r·φ b` where `r² = φ d` -/
def quadPhi (φ : K → R) (r : R) (x : Quad K d) : R := φ x.a + r * φ x.b

theorem Quad.mul_def (x y : Quad K d) : x * y = Quad.mul x y := rfl

theorem quadPhi_hom (φ : K → R) (r : R) (hφ : THom φ) (hz : ZSound φ) (hr : r * r = φ d) :
    THom (quadPhi (d := d) φ r) where
  map_zero := by show φ (0 : K) + r * φ (0 : K) = 0; simp [hφ.map_zero]
  map_one := by show φ (1 : K) + r * φ (0 : K) = 1; simp [hφ.map_zero, hφ.map_one]
  map_neg := by
    intro x
    show φ (-x.a) + r * φ (-x.b) = -(φ x.a + r * φ x.b)
    rw [hφ.map_neg, hφ.map_neg]; ring
  map_add := by
    intro x y
    show φ (x.a + y.a) + r * φ (x.b + y.b) = (φ x.a + r * φ x.b) + (φ y.a + r * φ y.b)
    rw [hφ.map_add, hφ.map_add]; ring
  map_mul := by
    intro x y
    rw [Quad.mul_def]
    unfold Quad.mul quadPhi
    split_ifs with h1 h2 h3
    · have hx : φ x.b = 0 := hz _ (by simp only [Bool.and_eq_true] at h1; exact h1.1)
      have hy : φ y.b = 0 := hz _ (by simp only [Bool.and_eq_true] at h1; exact h1.2)
      simp only [hφ.map_mul, hφ.map_zero, hx, hy]; ring
    · have hx : φ x.b = 0 := hz _ h2
      simp only [hφ.map_mul, hx]; ring
    · have hy : φ y.b = 0 := hz _ h3
      simp only [hφ.map_mul, hy]; ring
    · simp only [hφ.map_mul, hφ.map_add]
      linear_combination (φ x.b * φ y.b) * hr.symm

theorem quadPhi_zsound (φ : K → R) (r : R) (hz : ZSound φ) : ZSound (quadPhi (d := d) φ r) := by
  intro x hx
  have h : ZTest.isZero x.a = true ∧ ZTest.isZero x.b = true := by
    simpa [ZTest.isZero] using hx
  simp [quadPhi, hz _ h.1, hz _ h.2]

theorem quadPhi_esound [Eqv K] (φ : K → R) (r : R) (he : ESound φ) : ESound (quadPhi (d := d) φ r) := by
  intro x y h
  have h' : Eqv.eqv x.a y.a = true ∧ Eqv.eqv x.b y.b = true := by
    simpa [Eqv.eqv] using h
  simp [quadPhi, he _ _ h'.1, he _ _ h'.2]

end QuadHom

/-! ### entrywise image of model matrices -/

section MRel
variable {T R : Type} [Add T] [Mul T] [Neg T] [Zero T] [One T] [CommRing R]

theorem get_ofFn' {K : Type} [Zero K] (n : Nat) (f : Nat → Nat → K) (r k : Nat) :
    (M.ofFn n f).get r k = if r < n ∧ k < n then f r k else 0 := by
  by_cases hr : r < n
  · by_cases hk : k < n
    · simp [M.get_ofFn f hr hk, hr, hk]
    · simp [M.ofFn, M.get, hr, hk]
  · simp [M.ofFn, M.get, hr]

def MRel (φ : T → R) (A : M T) (B : M R) : Prop := A.n = B.n ∧ ∀ r k, φ (A.get r k) = B.get r k

variable {φ : T → R}

theorem MRel.ofFn (hφ : THom φ) (n : Nat) (f : Nat → Nat → T) (g : Nat → Nat → R)
    (h : ∀ r k, r < n → k < n → φ (f r k) = g r k) : MRel φ (M.ofFn n f) (M.ofFn n g) := by
  refine ⟨rfl, fun r k => ?_⟩
  rw [get_ofFn', get_ofFn']
  split_ifs with hc
  · exact h r k hc.1 hc.2
  · exact hφ.map_zero

theorem map_sumN (hφ : THom φ) (n : Nat) (f : Nat → T) (g : Nat → R) (h : ∀ k, φ (f k) = g k) :
    φ (M.sumN n f) = M.sumN n g := by
  induction n with
  | zero => exact hφ.map_zero
  | succ n ih => simp only [M.sumN]; rw [hφ.map_add, ih, h]

theorem MRel.mul (hφ : THom φ) {A A' : M T} {B B' : M R} (h1 : MRel φ A B) (h2 : MRel φ A' B') :
    MRel φ (A.mul A') (B.mul B') := by
  unfold M.mul
  rw [h1.1]
  apply MRel.ofFn hφ
  intro r k _ _
  apply map_sumN hφ
  intro j
  rw [hφ.map_mul, h1.2, h2.2]

theorem MRel.one (hφ : THom φ) (n : Nat) : MRel φ (M.one n : M T) (M.one n : M R) := by
  apply MRel.ofFn hφ
  intro r k _ _
  split_ifs
  · exact hφ.map_one
  · exact hφ.map_zero

theorem MRel.transpose (hφ : THom φ) {A : M T} {B : M R} (h : MRel φ A B) :
    MRel φ A.transpose B.transpose := by
  unfold M.transpose
  rw [h.1]
  apply MRel.ofFn hφ
  intro r k _ _
  exact h.2 k r

theorem MRel.permMat (hφ : THom φ) (σ : Dict) (n : Nat) :
    MRel φ (permMat σ n : M T) (permMat σ n : M R) := by
  apply MRel.ofFn hφ
  intro r k _ _
  split_ifs
  · exact hφ.map_one
  · exact hφ.map_zero

theorem MRel.embedBlock (hφ : THom φ) (n m : Nat) {u : M T} {v : M R} (h : MRel φ u v) :
    MRel φ (embedBlock n m u) (embedBlock n m v) := by
  unfold LW.embedBlock
  rw [h.1]
  apply MRel.ofFn hφ
  intro r k _ _
  split_ifs
  · exact h.2 _ _
  · exact hφ.map_one
  · exact hφ.map_zero

/-- related lists of unitary blocks -/
inductive PrimsRel (φ : T → R) : List (Prim T) → List (Prim R) → Prop
  | nil : PrimsRel φ [] []
  | cons (m : Nat) (u : M T) (v : M R) (ps : List (Prim T)) (qs : List (Prim R)) :
      MRel φ u v → PrimsRel φ ps qs → PrimsRel φ (.unitary m u :: ps) (.unitary m v :: qs)

theorem foldl_compile_rel (hφ : THom φ) (i : T) (j : R) {ps : List (Prim T)} {qs : List (Prim R)}
    (h : PrimsRel φ ps qs) : ∀ (U : M T) (V : M R), MRel φ U V →
      MRel φ (ps.foldl (compilePrim i) U) (qs.foldl (compilePrim j) V) := by
  induction h with
  | nil => intro U V hUV; exact hUV
  | cons m u v ps qs huv _ ih =>
    intro U V hUV
    simp only [List.foldl_cons]
    apply ih
    show MRel φ ((LW.embedBlock U.n m u).mul U) ((LW.embedBlock V.n m v).mul V)
    rw [hUV.1]
    exact MRel.mul hφ (MRel.embedBlock hφ _ _ huv) hUV

/-! ### the amplitude commutes with `φ` -/

theorem map_permN (hφ : THom φ) : ∀ (n : Nat) (A : Nat → Nat → T) (B : Nat → Nat → R),
    (∀ r c, φ (A r c) = B r c) → φ (permN n A) = permN n B := by
  intro n
  induction n with
  | zero => intro A B _; exact hφ.map_one
  | succ n ih =>
    intro A B h
    simp only [permN]
    apply map_sumN hφ
    intro j
    rw [hφ.map_mul, h, ih _ _ (fun r c => h _ _)]

theorem map_permAmp (hφ : THom φ) (U : Nat → Nat → T) (V : Nat → Nat → R) (h : ∀ r c, φ (U r c) = V r c)
    (n : Nat) (hin hout : Dict) (ins outs : List Nat) :
    φ (permAmp U n hin hout ins outs) = permAmp V n hin hout ins outs := by
  unfold permAmp permAmpFull
  simp only
  split_ifs
  · exact map_permN hφ _ _ _ (fun r c => h _ _)
  · exact hφ.map_zero

theorem map_gateAmp (hφ : THom φ) (i : T) (j : R) (n : Nat) (her : Dict) {ps : List (Prim T)}
    {qs : List (Prim R)} (h : PrimsRel φ ps qs) (ins outs : List Nat) :
    φ (gateAmp i (gateCirc n her ps) ins outs) = gateAmp j (gateCirc n her qs) ins outs := by
  unfold gateAmp
  rw [gateCirc_Ufull, gateCirc_Ufull]
  have hrel := foldl_compile_rel hφ i j h (M.one n) (M.one n) (MRel.one hφ n)
  exact map_permAmp hφ _ _ hrel.2 _ _ _ _ _

theorem map_scaleBy (hφ : THom φ) (k : T) (g : Int) : φ (scaleBy k g) = scaleBy (φ k) g := by
  unfold scaleBy
  split_ifs
  · exact hφ.map_zero
  · rfl
  · exact hφ.map_neg k

/-- **Lifting a table.**  A table of the gate `gateCirc n her ps` over a tower, with semantic
equality, gives the same table, with `=`, for the image gate over the ring `R`. -/
theorem HasTable.lift [Eqv T] (hφ : THom φ) (he : ESound φ) (i : T) (j : R) (n : Nat) (her : Dict)
    {ps : List (Prim T)} {qs : List (Prim R)} (h : PrimsRel φ ps qs) (nq : Nat) (k : T)
    (G : List Bool → List Bool → Int) (lf : Bool)
    (ht : HasTable eqvRel i (.ok (gateCirc n her ps)) nq k G lf) :
    HasTable Eq j (.ok (gateCirc n her qs)) nq (φ k) G lf := by
  obtain ⟨c, hc, hn, htab⟩ := ht
  have hc' : c = gateCirc n her ps := by injection hc with h'; exact h'.symm
  subst hc'
  refine ⟨gateCirc n her qs, rfl, hn, fun ib hib => ⟨fun ob hob => ?_, fun hl o ho hnd => ?_⟩⟩
  · rw [← map_gateAmp hφ i j n her h, ← map_scaleBy hφ]
    exact he _ _ ((htab ib hib).1 ob hob)
  · rw [← map_gateAmp hφ i j n her h, ← hφ.map_zero]
    exact he _ _ ((htab ib hib).2 hl o ho hnd)

end MRel

end LW.Gates
