/-
  LW.Proofs.C13Complex — the constants of the gate library as complex numbers satisfy `GC.Valid`,
  so every field-level table of C13 applies to ℂ with √2, √3, √7, 2^(-1/4), √(3/√2−2), i, e^{±iπ/4}.
-/
import Mathlib.Analysis.Real.Sqrt
import Mathlib.Data.Complex.Basic
import LW.Proofs.C13Field
namespace LW.Gates
open Complex

/-- the constants of the gate library as complex numbers -/
noncomputable def cComplex : GC ℂ where
  i := I
  s2 := (Real.sqrt 2 : ℝ)
  rh := (Real.sqrt 2 / 2 : ℝ)
  half := 1 / 2
  third := 1 / 3
  s3i := (Real.sqrt 3 / 3 : ℝ)
  q4i := (Real.sqrt (Real.sqrt 2 / 2) : ℝ)
  w := (Real.sqrt (3 * (Real.sqrt 2 / 2) - 2) : ℝ)
  s7 := (Real.sqrt 7 : ℝ)
  t8 := (Real.sqrt 2 / 2 : ℝ) * (1 + I)
  t8c := (Real.sqrt 2 / 2 : ℝ) * (1 - I)

theorem cComplex_valid : cComplex.Valid := by
  have h2 : Real.sqrt 2 * Real.sqrt 2 = 2 := Real.mul_self_sqrt (by norm_num)
  have h3 : Real.sqrt 3 * Real.sqrt 3 = 3 := Real.mul_self_sqrt (by norm_num)
  have h7 : Real.sqrt 7 * Real.sqrt 7 = 7 := Real.mul_self_sqrt (by norm_num)
  have hpos : (0 : ℝ) ≤ Real.sqrt 2 / 2 := by positivity
  have hq : Real.sqrt (Real.sqrt 2 / 2) * Real.sqrt (Real.sqrt 2 / 2) = Real.sqrt 2 / 2 :=
    Real.mul_self_sqrt hpos
  have h43 : (4 / 3 : ℝ) ≤ Real.sqrt 2 := by
    rw [Real.le_sqrt' (by norm_num)]; norm_num
  have hwpos : (0 : ℝ) ≤ 3 * (Real.sqrt 2 / 2) - 2 := by linarith
  have hw : Real.sqrt (3 * (Real.sqrt 2 / 2) - 2) * Real.sqrt (3 * (Real.sqrt 2 / 2) - 2) =
      3 * (Real.sqrt 2 / 2) - 2 := Real.mul_self_sqrt hwpos
  have h2c : ((Real.sqrt 2 : ℝ) : ℂ) * ((Real.sqrt 2 : ℝ) : ℂ) = 2 := by
    rw [← ofReal_mul, h2]; norm_num
  constructor
  · exact I_mul_I
  · exact h2c
  · show ((Real.sqrt 2 / 2 : ℝ) : ℂ) * ((Real.sqrt 2 : ℝ) : ℂ) = 1
    rw [← ofReal_mul]; norm_cast; linarith
  · show (1 / 2 : ℂ) * 2 = 1; norm_num
  · show (1 / 3 : ℂ) * 3 = 1; norm_num
  · show 3 * (((Real.sqrt 3 / 3 : ℝ) : ℂ) * ((Real.sqrt 3 / 3 : ℝ) : ℂ)) = 1
    rw [← ofReal_mul]; norm_cast; nlinarith
  · show ((Real.sqrt (Real.sqrt 2 / 2) : ℝ) : ℂ) * ((Real.sqrt (Real.sqrt 2 / 2) : ℝ) : ℂ) = ((Real.sqrt 2 / 2 : ℝ) : ℂ)
    rw [← ofReal_mul, hq]
  · show ((Real.sqrt (3 * (Real.sqrt 2 / 2) - 2) : ℝ) : ℂ) * ((Real.sqrt (3 * (Real.sqrt 2 / 2) - 2) : ℝ) : ℂ) = 3 * ((Real.sqrt 2 / 2 : ℝ) : ℂ) - 2
    rw [← ofReal_mul, hw]; push_cast; ring
  · show ((Real.sqrt 7 : ℝ) : ℂ) * ((Real.sqrt 7 : ℝ) : ℂ) = 7
    rw [← ofReal_mul, h7]; norm_num
  · show ((Real.sqrt 2 / 2 : ℝ) : ℂ) * (1 + I) * (((Real.sqrt 2 / 2 : ℝ) : ℂ) * (1 + I)) = I
    push_cast
    have : (1 + I) * (1 + I) = 2 * I := by ring_nf; rw [I_sq]; ring
    linear_combination (I / 2) * h2c + (((Real.sqrt 2 : ℝ) : ℂ) * ((Real.sqrt 2 : ℝ) : ℂ) / 4) * this
  · show ((Real.sqrt 2 / 2 : ℝ) : ℂ) * (1 + I) * (((Real.sqrt 2 / 2 : ℝ) : ℂ) * (1 - I)) = 1
    push_cast
    have : (1 + I) * (1 - I) = 2 := by ring_nf; rw [I_sq]; ring
    linear_combination (1 / 2 : ℂ) * h2c + (((Real.sqrt 2 : ℝ) : ℂ) * ((Real.sqrt 2 : ℝ) : ℂ) / 4) * this
end LW.Gates
