/-
  LW.Proofs.C06FullEmit — the specification `specFull` of the input statistics for a source whose
  single-photon outcome table has only two live outcomes ("nothing" with weight `1 - ν`, one photon
  with label `lab ctr` and weight `ν`), re-enumerated photon by photon, head first:

      mix (specFull P s).1 G = emitL ν lab (pidx 0 s) 1 Ψ

  whenever `G (AState.new rows) = Ψ (pairs of rows)`; the pairs `(mode, label)` of the emitted
  photons are produced in the order of `partitionIdx s`.  Everything is an equality of weighted sums
  for an arbitrary observable; no list orders are aligned.
-/
import LW.Proofs.C06Two

set_option linter.unusedSectionVars false

namespace LW.Proofs.C06

open LW.Src LW.SV

/-- `(mode, label)` of every photon of a list of rows, the first row being mode `c` -/
def pairsFrom : Nat → List (List Int) → List (Nat × Int)
  | _, [] => []
  | c, row :: rows => row.map (fun x => (c, x)) ++ pairsFrom (c + 1) rows

theorem pairsFrom_snoc (c : Nat) (rows : List (List Int)) (l : List Int) :
    pairsFrom c (rows ++ [l]) = pairsFrom c rows ++ l.map (fun x => (c + rows.length, x)) := by
  induction rows generalizing c with
  | nil => simp [pairsFrom]
  | cons row rows ih =>
    simp only [List.cons_append, pairsFrom, ih, List.append_assoc, List.length_cons]
    have : c + 1 + rows.length = c + (rows.length + 1) := by omega
    rw [this]

theorem pairsFrom_map_snd (c : Nat) (rows : List (List Int)) :
    (pairsFrom c rows).map (·.2) = rows.flatten := by
  induction rows generalizing c with
  | nil => rfl
  | cons row rows ih =>
    simp only [pairsFrom, List.map_append, List.map_map, List.flatten_cons, ih]
    congr 1
    simp [Function.comp_def]

/-- mode indices repeated by occupation, the first entry being mode `c` -/
def pidx : Nat → List Nat → List Nat
  | _, [] => []
  | c, n :: modes => List.replicate n c ++ pidx (c + 1) modes

theorem partitionIdx_eq_pidx (s : FState) : partitionIdx s = pidx 0 s := by
  have key : ∀ (s : FState) (c : Nat),
      ((List.range' c s.length).zip s).flatMap (fun x : Nat × Nat => List.replicate x.2 x.1) =
        pidx c s := by
    intro s
    induction s with
    | nil => intro c; rfl
    | cons n s ih =>
      intro c
      rw [List.length_cons, List.range'_succ, List.zip_cons_cons, List.flatMap_cons, ih (c + 1)]
      rfl
  unfold partitionIdx
  rw [List.range_eq_range']
  exact key s 0

section
variable {Q : Type} [Field Q] [LinearOrder Q] [IsStrictOrderedRing Q]

/-! ### per-photon enumeration, head first -/

theorem mix_specMode_cons (P : Params Q) (ctr : Int) (k : Nat) (H : List Int → Q) :
    mix (specMode P ctr (k + 1)) H =
      mix (outcomeTable P ctr) (fun b => mix (specMode P (ctr + 2) k) (fun a => H (b ++ a))) := by
  induction k generalizing H with
  | zero =>
    rw [mix_specMode_succ]
    simp [specMode]
  | succ k ih =>
    rw [mix_specMode_succ, ih]
    apply mix_congr
    intro b _
    rw [mix_specMode_succ]
    have e : ctr + 2 + 2 * (k : Int) = ctr + 2 * ((k + 1 : Nat) : Int) := by push_cast; ring
    rw [e]
    simp only [List.append_assoc]

/-- independent emission of the photons `ms` (given by their modes), each with probability `nu`:
mixture over the lists of emitted photons -/
def emitMix (nu : Q) : List Nat → (List Nat → Q) → Q
  | [], G => G []
  | m :: ms, G => (1 - nu) * emitMix nu ms G + nu * emitMix nu ms (fun e => G (m :: e))

/-- the same with labels: the `j`-th photon of `ms`, if emitted, carries the label `lab (ctr + 2j)` -/
def emitL (nu : Q) (lab : Int → Int) : List Nat → Int → (List (Nat × Int) → Q) → Q
  | [], _, G => G []
  | m :: ms, ctr, G =>
    (1 - nu) * emitL nu lab ms (ctr + 2) G +
      nu * emitL nu lab ms (ctr + 2) (fun e => G ((m, lab ctr) :: e))

theorem emitL_fst (nu : Q) (lab : Int → Int) (ms : List Nat) (ctr : Int) (Φ : List Nat → Q) :
    emitL nu lab ms ctr (fun e => Φ (e.map (·.1))) = emitMix nu ms Φ := by
  induction ms generalizing ctr Φ with
  | nil => rfl
  | cons m ms ih =>
    simp only [emitL, emitMix, List.map_cons]
    rw [ih (ctr + 2) Φ, ih (ctr + 2) (fun e => Φ (m :: e))]

theorem emitMix_const (nu : Q) (ms : List Nat) (c : Q) : emitMix nu ms (fun _ => c) = c := by
  induction ms with
  | nil => rfl
  | cons m ms ih =>
    simp only [emitMix, ih]
    ring

theorem emitMix_congr (nu : Q) (ms : List Nat) (G G' : List Nat → Q) (h : ∀ e, G e = G' e) :
    emitMix nu ms G = emitMix nu ms G' := by
  have : G = G' := funext h
  rw [this]

/-- a mixture over an independent dictionary commutes with the emission mixture -/
theorem mix_emitMix {α : Type} (d : List (α × Q)) (nu : Q) (ms : List Nat) (H : α → List Nat → Q) :
    mix d (fun b => emitMix nu ms (H b)) = emitMix nu ms (fun e => mix d (fun b => H b e)) := by
  induction ms generalizing H with
  | nil => rfl
  | cons m ms ih =>
    simp only [emitMix]
    rw [mix_add, mix_mul_left, mix_mul_left, ih H, ih (fun b e => H b (m :: e))]

/-- the labels of the emitted photons are `lab` of strictly increasing counters `≥ ctr` -/
def EmInv (lab : Int → Int) (ctr : Int) (e : List (Nat × Int)) : Prop :=
  ∃ cs : List Int, cs.Pairwise (· < ·) ∧ (∀ x ∈ cs, ctr ≤ x) ∧ e.map (·.2) = cs.map lab

theorem emitL_congr (nu : Q) (lab : Int → Int) (ms : List Nat) (ctr : Int)
    (G G' : List (Nat × Int) → Q) (h : ∀ e, EmInv lab ctr e → G e = G' e) :
    emitL nu lab ms ctr G = emitL nu lab ms ctr G' := by
  induction ms generalizing ctr G G' with
  | nil => exact h [] ⟨[], List.Pairwise.nil, by simp, rfl⟩
  | cons m ms ih =>
    simp only [emitL]
    rw [ih (ctr + 2) G G', ih (ctr + 2) (fun e => G ((m, lab ctr) :: e))
      (fun e => G' ((m, lab ctr) :: e))]
    · intro e ⟨cs, h1, h2, h3⟩
      refine h _ ⟨ctr :: cs, List.pairwise_cons.2 ⟨?_, h1⟩, ?_, ?_⟩
      · intro x hx
        have := h2 x hx
        omega
      · intro x hx
        rcases List.mem_cons.1 hx with rfl | hx
        · exact le_refl _
        · have := h2 x hx
          omega
      · simp [h3]
    · intro e ⟨cs, h1, h2, h3⟩
      exact h e ⟨cs, h1, fun x hx => by have := h2 x hx; omega, h3⟩

/-- all photons of one mode `c` -/
theorem mix_specMode_emit (P : Params Q) (lab : Int → Int)
    (htable : ∀ (ctr : Int) (H : List Int → Q),
      mix (outcomeTable P ctr) H = (1 - P.nu) * H [] + P.nu * H [lab ctr])
    (c : Nat) (rest : List Nat) (k : Nat) (ctr : Int) (Θ : List (Nat × Int) → Q) :
    mix (specMode P ctr k) (fun l => emitL P.nu lab rest (ctr + 2 * (k : Int))
        (fun e => Θ (l.map (fun x => (c, x)) ++ e))) =
      emitL P.nu lab (List.replicate k c ++ rest) ctr Θ := by
  induction k generalizing ctr Θ with
  | zero => simp [specMode]
  | succ k ih =>
    rw [mix_specMode_cons, htable]
    have e : ctr + 2 * ((k + 1 : Nat) : Int) = ctr + 2 + 2 * (k : Int) := by push_cast; ring
    simp only [e, List.nil_append, List.map_cons, List.cons_append]
    rw [ih (ctr + 2) Θ, ih (ctr + 2) (fun e => Θ ((c, lab ctr) :: e))]
    rw [List.replicate_succ, List.cons_append]
    rfl

/-! ### mode by mode, from the first mode on -/

/-- the remaining modes of `specFull`, started from the state `a` -/
def tailMix (P : Params Q) : List Nat → Int → AState → (AState → Q) → Q
  | [], _, a, G => G a
  | n :: modes, ctr, a, G =>
    mix (specMode P ctr n) (fun l => tailMix P modes (ctr + 2 * (n : Int)) (a.add (emb l)) G)

theorem mix_specFold (P : Params Q) (modes : List Nat) (A : List (AState × Q) × Int)
    (G : AState → Q) :
    mix (specFold P modes A).1 G = mix A.1 (fun a => tailMix P modes A.2 a G) := by
  induction modes generalizing A with
  | nil => rfl
  | cons n modes ih =>
    have : specFold P (n :: modes) A =
        specFold P modes (specStep P A.1 A.2 n, A.2 + 2 * (n : Int)) := rfl
    rw [this, ih, mix_specStep]
    rfl

/-- the same on raw rows (the constructor sorts them) -/
def rowsMix (P : Params Q) : List Nat → Int → List (List Int) → (List (List Int) → Q) → Q
  | [], _, rows, G => G rows
  | n :: modes, ctr, rows, G =>
    mix (specMode P ctr n) (fun l => rowsMix P modes (ctr + 2 * (n : Int)) (rows ++ [l]) G)

theorem new_add_emb (rows : List (List Int)) (l : List Int) :
    (AState.new rows).add (emb l) = AState.new (rows ++ [l]) := by
  unfold emb
  rw [AState.add_new]
  simp [AState.new, sortInt_idem]

theorem tailMix_new (P : Params Q) (modes : List Nat) (ctr : Int) (rows : List (List Int))
    (G : AState → Q) :
    tailMix P modes ctr (AState.new rows) G = rowsMix P modes ctr rows (fun r => G (AState.new r)) := by
  induction modes generalizing ctr rows with
  | nil => rfl
  | cons n modes ih =>
    simp only [tailMix, rowsMix]
    apply mix_congr
    intro x _
    rw [new_add_emb, ih]

theorem rowsMix_emit (P : Params Q) (lab : Int → Int)
    (htable : ∀ (ctr : Int) (H : List Int → Q),
      mix (outcomeTable P ctr) H = (1 - P.nu) * H [] + P.nu * H [lab ctr])
    (modes : List Nat) (ctr : Int) (rows : List (List Int)) (Ψ : List (Nat × Int) → Q) :
    rowsMix P modes ctr rows (fun r => Ψ (pairsFrom 0 r)) =
      emitL P.nu lab (pidx rows.length modes) ctr (fun e => Ψ (pairsFrom 0 rows ++ e)) := by
  induction modes generalizing ctr rows with
  | nil => simp [rowsMix, pidx, emitL]
  | cons n modes ih =>
    simp only [rowsMix, pidx]
    rw [← mix_specMode_emit P lab htable rows.length (pidx (rows.length + 1) modes) n ctr
      (fun e => Ψ (pairsFrom 0 rows ++ e))]
    apply mix_congr
    intro x _
    rw [ih, pairsFrom_snoc]
    simp [List.append_assoc]

/-- THE INPUT STATISTICS OF A TWO-OUTCOME SOURCE, PHOTON BY PHOTON: every photon of the input (in
the order of `partitionIdx`) is dropped with weight `1 - ν` or emitted with weight `ν` and the label
`lab` of its counter `1, 3, 5, …`; an observable that depends on the `(mode, label)` pairs only is
evaluated on the list of emitted photons -/
theorem mix_specFull_emit (P : Params Q) (lab : Int → Int)
    (htable : ∀ (ctr : Int) (H : List Int → Q),
      mix (outcomeTable P ctr) H = (1 - P.nu) * H [] + P.nu * H [lab ctr])
    (s : FState) (G : AState → Q) (Ψ : List (Nat × Int) → Q)
    (hG : ∀ rows, G (AState.new rows) = Ψ (pairsFrom 0 rows)) :
    mix (specFull P s).1 G = emitL P.nu lab (partitionIdx s) 1 Ψ := by
  unfold specFull
  rw [mix_specFold]
  simp only [mix_cons, mix_nil, one_mul, add_zero]
  rw [tailMix_new]
  have : (fun r => G (AState.new r)) = fun r => Ψ (pairsFrom 0 r) := funext hG
  rw [this, rowsMix_emit P lab htable, partitionIdx_eq_pidx]
  simp [pairsFrom]

/-- the outcome table of a pure source -/
theorem mix_outcomeTable_pure (P : Params Q) (hx : P.p2 = 0) (ctr : Int) (H : List Int → Q) :
    mix (outcomeTable P ctr) H =
      (1 - P.nu) * H [] + P.pi * P.nu * H [0] + (1 - P.pi) * P.nu * H [ctr] := by
  simp only [outcomeTable, mix_cons, mix_nil, add_zero, c1dp_of_pure P hx, c12d_of_pure P hx,
    c1d2d_of_pure P hx, zero_mul, c1_of_pure P hx, c1d_of_pure P hx, c0_of_pure P hx]
  ring

end

end LW.Proofs.C06
