/-
  LW.Proofs.C10 — the property theorems of C10 in the form stated in LW/Properties/C10.lean,
  assembled from C10Param (bounds, rejected calls), C10Map (naturality of the construction API),
  C10Circ (listing, frozen copies, validity), C10Add (`add`), C10World / C10Lit (histories).
-/
import LW.Proofs.C10Lit

namespace LW.Proofs.C10

variable {α K : Type}

section Bounds
variable [LinearOrder α] [Zero K] [One K]

theorem bounds_invariant (ν : Views α K) (ops : List (POp α K)) (w : World α K)
    (rs : List (Option Fail)) (h : World.run ν {} ops = some (w, rs)) :
    ∀ id p, w.store.get? id = some p →
      (∀ m, p.min = some m → ∃ x, p.value = .num x ∧ m ≤ x) ∧
      (∀ mx, p.max = some mx → ∃ x, p.value = .num x ∧ x ≤ mx) :=
  World.run_inBounds ν ops World.empty_inBounds h

theorem bounds_invariant_step (ν : Views α K) (w w' : World α K) (op : POp α K) (o : Option Fail)
    (hw : w.AllInBounds) (h : World.step ν w op = some (w', o)) : w'.AllInBounds :=
  World.step_inBounds ν hw h

theorem rejected_update_noop (ν : Views α K) (w w' : World α K) (op : POp α K) (e : Fail)
    (h : World.step ν w op = some (w', some e)) : w' = w :=
  World.failed_step_noop ν h

end Bounds

section Live
variable [Add K] [Mul K] [Neg K] [Zero K] [One K]

theorem U_reads_current_values (ν : Views α K) (i : K) (σ : Store α) (ops : List (CircOp (Sym α K)))
    (h h' : Heap (Sym α K)) (rs : List Outcome)
    (hr : heapRun h ops = some (h', rs)) :
    heapRun (Heap.mapK (Sym.eval ν σ) h) (ops.map (CircOp.map (Sym.eval ν σ))) =
        some (Heap.mapK (Sym.eval ν σ) h', rs) ∧
    ∀ cid c, Heap.get? h' cid = some c →
      Heap.get? (Heap.mapK (Sym.eval ν σ) h') cid = some (PCirc.resolve ν σ c) ∧
      (PCirc.fieldsValid ν σ c = true → PCirc.readU ν i σ c = .ok ((PCirc.resolve ν σ c).U i)) := by
  refine ⟨?_, ?_⟩
  · rw [heapRun_mapK (Sym.fix01_eval ν σ) ops h, hr]; rfl
  · intro cid c hcid
    refine ⟨?_, ?_⟩
    · rw [Heap.get?_mapK, hcid]; rfl
    · intro hv
      unfold PCirc.readU
      rw [hv]; rfl

theorem add_resolves (ν : Views α K) (σ : Store α) (parent sub : PCirc α K) (mode : Int) (grouped : Bool) :
    Circ.add (PCirc.resolve ν σ parent) (PCirc.resolve ν σ sub) mode grouped =
      (Circ.add parent sub mode grouped).map (PCirc.resolve ν σ) :=
  Circ.map_add (Sym.fix01_eval ν σ) parent sub mode grouped

end Live

section Listing
variable [Add K] [Mul K] [Neg K] [Zero K] [One K]

theorem all_params_nodup_complete (c : PCirc α K) :
    c.getAllParams.Nodup ∧
    ∀ id, id ∈ c.getAllParams ↔
      ∃ p ∈ primsOf c.spec, ∃ r, Sym.view r (.param id) ∈ p.syms := by
  refine ⟨PCirc.getAllParams_nodup c, fun id => ?_⟩
  rw [PCirc.mem_getAllParams]
  unfold Circ.syms
  constructor
  · rintro ⟨s, hs, hid⟩
    obtain ⟨p, hp, hsp⟩ := List.mem_flatMap.mp hs
    cases s with
    | lit k => simp [Sym.ids] at hid
    | view r src =>
      cases src with
      | const v => simp [Sym.ids] at hid
      | param id' =>
        simp only [Sym.ids, List.mem_singleton] at hid
        subst hid
        exact ⟨p, hp, r, hsp⟩
  · rintro ⟨p, hp, r, hsp⟩
    exact ⟨_, List.mem_flatMap.mpr ⟨p, hp, hsp⟩, by simp [Sym.ids]⟩

theorem add_params (parent sub c' : PCirc α K) (mode : Int) (grouped : Bool)
    (h : Circ.add parent sub mode grouped = .ok c') (id : Nat) :
    id ∈ c'.getAllParams ↔ id ∈ parent.getAllParams ∨ id ∈ sub.getAllParams :=
  PCirc.add_params parent sub c' mode grouped h id

theorem unlisted_param_no_influence (ν : Views α K) (i : K) (σ σ' : Store α) (c : PCirc α K)
    (hL : c.LitU) (h : ∀ id ∈ c.getAllParams, σ.val id = σ'.val id) :
    c.readU ν i σ = c.readU ν i σ' :=
  PCirc.readU_congr ν i σ σ' c hL h

end Listing

theorem reachable_blocks_literal [LT α] [DecidableLT α] [Zero K] [One K] (ν : Views α K)
    (ops : List (POp α K)) (w : World α K) (rs : List (Option Fail)) (hops : ∀ op ∈ ops, op.WF)
    (h : World.run ν {} ops = some (w, rs)) :
    ∀ cid c, Heap.get? w.circs cid = some c → PCirc.LitU c :=
  World.run_litU ν ops World.empty_litU hops h

section Frozen
variable [Add K] [Mul K] [Neg K] [Zero K] [One K]

theorem frozen_copy_constant (ν : Views α K) (i : K) (σ σ' : Store α) (c : PCirc α K) :
    (PCirc.freeze σ c).readU ν i σ' = c.readU ν i σ :=
  PCirc.freeze_readU ν i σ σ' c

theorem frozen_copy_has_no_params (σ : Store α) (c : PCirc α K) :
    (PCirc.freeze σ c).getAllParams = [] :=
  PCirc.freeze_params σ c

theorem frozen_copy_constant_history [LT α] [DecidableLT α] (ν : Views α K) (i : K)
    (w w1 w2 : World α K) (dst src : String) (ops : List (POp α K)) (rs : List (Option Fail))
    (hf : World.step ν w (.freeze dst src) = some (w1, none))
    (hr : World.run ν w1 ops = some (w2, rs))
    (hk : ∀ op ∈ ops, op.circTarget ≠ some dst) :
    World.readU ν i w2 dst = World.readU ν i w src ∧ World.allParams w2 dst = some [] :=
  World.frozen_history ν i w w1 w2 dst src ops rs hf hr hk

theorem invalid_value_is_compilation_error (ν : Views α K) (i : K) (σ : Store α) (c : PCirc α K) :
    (∀ e, c.readU ν i σ = .error e ↔ e = .compilation ∧ ∃ s ∈ Circ.syms c, s.valid ν σ = false) ∧
    (∀ r id, Sym.view r (.param id) ∈ Circ.syms c →
      ((∃ t, σ.val id = .other t) ∨ (∃ x, σ.val id = .num x ∧ r ≠ .expi ∧ ν.unit x = false)) →
      c.readU ν i σ = .error .compilation) ∧
    ((∀ s ∈ Circ.syms c, s.valid ν σ = true) ↔ c.readU ν i σ = .ok ((c.resolve ν σ).U i)) :=
  ⟨fun e => PCirc.readU_error_iff ν i σ c e,
   fun r id hm hb => PCirc.readU_invalid_param ν i σ c r id hm hb,
   PCirc.readU_ok_iff ν i σ c⟩

end Frozen

section Bridge
variable [LT α] [DecidableLT α] [Zero K] [One K]

theorem param_updates_touch_no_circuit (ν : Views α K) (w w' : World α K) (op : POp α K)
    (o : Option Fail) (h : World.step ν w op = some (w', o)) (k : String)
    (hk : op.circTarget ≠ some k) : Heap.get? w'.circs k = Heap.get? w.circs k :=
  World.step_circ_frame ν h k hk

theorem param_calls_are_plain_calls (ν : Views α K) (w : World α K) (cid : String) :
    (∀ m1 m2 r cv l, World.step ν w (.bs cid m1 m2 r cv l) =
      (heapStep w.circs (.bs cid m1 m2 r.fields.1 cv (l.fields ν w.store).1 r.fields.2
        (l.fields ν w.store).2.isNone)).map (World.ofHeap w (l.fields ν w.store).2)) ∧
    (∀ m phi l, World.step ν w (.ps cid m phi l) =
      (heapStep w.circs (.ps cid m phi.field (l.fields ν w.store).1
        (l.fields ν w.store).2.isNone)).map (World.ofHeap w (l.fields ν w.store).2)) ∧
    (∀ m l, World.step ν w (.loss cid m l) =
      (heapStep w.circs (.loss cid m ((l.fields ν w.store).1.getD (.lit 1, .lit 0))
        (l.fields ν w.store).2.isNone)).map (World.ofHeap w (l.fields ν w.store).2)) :=
  ⟨fun m1 m2 r cv l => World.step_bs ν w cid m1 m2 r cv l,
   fun m phi l => World.step_ps ν w cid m phi l,
   fun m l => World.step_loss ν w cid m l⟩

end Bridge

end LW.Proofs.C10
