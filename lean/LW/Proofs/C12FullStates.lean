/-
  LW.Proofs.C12FullStates — global states of a converted circuit as finitely supported functions
  on the modes: user part (a list on the `2·nq` qubit modes) plus a herald / spectator part, the
  per-qubit photon-number configuration, indicator weights and what weight conservation says
  about amplitudes, and the decomposition of a state along a partial injection.
-/
import LW.Proofs.C12FullMainDefs

open MvPolynomial

namespace LW.C12F

open LW LW.QC LW.Gates LW.QF LW.Proofs.C02Sem

variable {R : Type} [CommRing R]

/-! ### states -/

/-- user part `u` (a list on the first modes) plus the part `η` on the other modes -/
noncomputable def mk (u : List ℕ) (η : ℕ →₀ ℕ) : ℕ →₀ ℕ := u.toFinsupp + η

/-- the modes `P, P+1, …` carry the photon numbers `H` -/
def HerAt (P : ℕ) (H : List ℕ) (s : ℕ →₀ ℕ) : Prop := ∀ k, k < H.length → s (P + k) = H.getD k 0

/-- per-qubit photon numbers of the first `nq` qubits (0 beyond) -/
def cfgN (nq : ℕ) (s : ℕ →₀ ℕ) : Config := fun q => if q < nq then s (2 * q) + s (2 * q + 1) else 0

theorem mk_apply_lt {u : List ℕ} {η : ℕ →₀ ℕ} (hη : ∀ z ∈ η.support, u.length ≤ z) {z : ℕ}
    (hz : z < u.length) : mk u η z = u.getD z 0 := by
  unfold mk
  rw [Finsupp.add_apply, List.toFinsupp_apply]
  have : η z = 0 := by
    by_contra h
    have := hη z (Finsupp.mem_support_iff.mpr h)
    omega
  rw [this, Nat.add_zero]

theorem mk_apply_ge {u : List ℕ} {η : ℕ →₀ ℕ} {z : ℕ} (hz : u.length ≤ z) : mk u η z = η z := by
  unfold mk
  rw [Finsupp.add_apply, List.toFinsupp_apply, List.getD_eq_default _ _ hz, Nat.zero_add]

theorem herAt_mk {u : List ℕ} {η : ℕ →₀ ℕ} {P : ℕ} {H : List ℕ} (hP : u.length ≤ P) :
    HerAt P H (mk u η) ↔ HerAt P H η := by
  unfold HerAt
  constructor <;> intro h k hk
  · rw [← mk_apply_ge (u := u) (by omega)]; exact h k hk
  · rw [mk_apply_ge (by omega)]; exact h k hk

theorem herAt_append {P : ℕ} {H1 H2 : List ℕ} {s : ℕ →₀ ℕ} :
    HerAt P (H1 ++ H2) s ↔ HerAt P H1 s ∧ HerAt (P + H1.length) H2 s := by
  unfold HerAt
  constructor
  · intro h
    constructor
    · intro k hk
      have := h k (by rw [List.length_append]; omega)
      rw [this, List.getD_append _ _ _ _ hk]
    · intro k hk
      have := h (H1.length + k) (by rw [List.length_append]; omega)
      rw [Nat.add_assoc, this, List.getD_append_right _ _ _ _ (by omega)]
      congr 1; omega
  · rintro ⟨h1, h2⟩ k hk
    rw [List.length_append] at hk
    by_cases hk1 : k < H1.length
    · rw [h1 k hk1, List.getD_append _ _ _ _ hk1]
    · have := h2 (k - H1.length) (by omega)
      rw [List.getD_append_right _ _ _ _ (by omega), ← this]
      congr 1; omega

theorem herAt_congr {P : ℕ} {H : List ℕ} {s t : ℕ →₀ ℕ}
    (h : ∀ z, P ≤ z → z < P + H.length → t z = s z) (hs : HerAt P H s) : HerAt P H t := by
  intro k hk
  rw [h (P + k) (by omega) (by omega)]
  exact hs k hk

/-- a state that agrees with `η` beyond the user modes is `mk` of its user part -/
theorem eq_mk_of_agree (n : ℕ) (w η : ℕ →₀ ℕ) (hη : ∀ z ∈ η.support, n ≤ z)
    (h : ∀ z, n ≤ z → w z = η z) : w = mk ((List.range n).map w) η := by
  ext z
  by_cases hz : z < n
  · rw [mk_apply_lt (by simpa using hη) (by simpa using hz),
      List.getD_eq_getElem _ _ (by simpa using hz)]
    simp
  · rw [mk_apply_ge (by simpa using hz)]
    exact h z (by omega)

theorem mk_injective_left {u v : List ℕ} {η : ℕ →₀ ℕ} (hl : u.length = v.length)
    (h : mk u η = mk v η) : u = v := by
  unfold mk at h
  have h' := add_right_cancel h
  apply List.ext_getElem hl
  intro i h1 h2
  have := DFunLike.congr_fun h' i
  rw [List.toFinsupp_apply, List.toFinsupp_apply, List.getD_eq_getElem _ _ h1,
    List.getD_eq_getElem _ _ h2] at this
  exact this

/-! ### indicator weights -/

/-- indicator weight of a decidable set of modes -/
def wtP (p : ℕ → Prop) [DecidablePred p] : ℕ → ℕ := fun j => if p j then 1 else 0

theorem weight_wtP (p : ℕ → Prop) [DecidablePred p] (A : Finset ℕ) (hA : ∀ j, j ∈ A ↔ p j)
    (s : ℕ →₀ ℕ) : Finsupp.weight (wtP p) s = ∑ j ∈ A, s j := by
  classical
  rw [Finsupp.weight_apply, Finsupp.sum]
  have h1 : ∑ i ∈ s.support, s i • wtP p i = ∑ i ∈ s.support.filter p, s i := by
    rw [Finset.sum_filter]
    apply Finset.sum_congr rfl
    intro i _
    unfold wtP
    split <;> simp
  have h2 : s.support.filter p = A.filter (· ∈ s.support) := by
    ext j
    simp only [Finset.mem_filter, hA]
    tauto
  rw [h1, h2]
  apply Finset.sum_subset (Finset.filter_subset _ _)
  intro j hj hnj
  rw [Finset.mem_filter] at hnj
  by_contra h0
  exact hnj ⟨hj, Finsupp.mem_support_iff.mpr h0⟩

/-- conservation of an indicator weight along a non-zero amplitude -/
theorem Pres.sum_eq {p : ℕ → Prop} [DecidablePred p] {φ : Hom R} (h : Pres (wtP p) φ)
    (A : Finset ℕ) (hA : ∀ j, j ∈ A ↔ p j) {t s : ℕ →₀ ℕ} (hne : amp φ t s ≠ 0) :
    ∑ j ∈ A, t j = ∑ j ∈ A, s j := by
  by_contra hc
  apply hne
  apply h.amp_eq_zero
  rw [weight_wtP p A hA, weight_wtP p A hA]
  exact hc

/-- a mode whose indicator weight is preserved keeps its occupation -/
theorem Pres.apply_eq {z : ℕ} {φ : Hom R} (h : Pres (wtP (· = z)) φ) {t s : ℕ →₀ ℕ}
    (hne : amp φ t s ≠ 0) : t z = s z := by
  have := h.sum_eq {z} (by simp) hne
  simpa using this

/-! ### placed homomorphisms preserve the weights that are constant on the placement -/

theorem pres_place {d D : ℕ} {fwd : ℕ → ℕ} {inv : ℕ → Option ℕ} (h : PInj d D fwd inv)
    (U : ℕ → ℕ → R) (wt : ℕ → ℕ) (hwt : ∀ x y, x < d → y < d → wt (fwd x) = wt (fwd y)) :
    Pres wt (placeHomG (homOf U d) fwd inv D) := by
  intro j
  by_cases hj : j < D
  · cases hi : inv j with
    | none =>
      rw [placeHomG_X_none _ _ _ (fun _ => hi)]
      exact isWeightedHomogeneous_X R wt j
    | some y =>
      obtain ⟨hy, ey⟩ := h.inv_some j y hj hi
      rw [placeHomG_X_some _ _ _ hj hi, homOf_X_lt _ hy]
      unfold colForm
      rw [map_sum]
      apply IsWeightedHomogeneous.sum
      intro x hx
      rw [map_mul, rename_C, rename_X]
      have := (isWeightedHomogeneous_X R wt (fwd x)).C_mul (U x y)
      rw [hwt x y (Finset.mem_range.mp hx) hy, ey] at this
      exact this
  · rw [placeHomG_X_none _ _ _ (fun hh => absurd hh hj)]
    exact isWeightedHomogeneous_X R wt j

/-- a renaming of the variables carries the weight `wt ∘ σ` to `wt` -/
theorem pres2_rename (σ : ℕ → ℕ) (wt : ℕ → ℕ) :
    Pres2 (fun j => wt (σ j)) wt (rename σ : Hom R) := by
  intro j
  rw [rename_X]
  exact isWeightedHomogeneous_X R wt (σ j)

/-! ### decomposition of a state along a partial injection -/

/-- the part of `s` seen by the placed sub-circuit, in the sub-circuit's indices -/
noncomputable def pull (d : ℕ) (fwd : ℕ → ℕ) (s : ℕ →₀ ℕ) : ℕ →₀ ℕ :=
  Finsupp.onFinset (Finset.range d) (fun y => if y < d then s (fwd y) else 0) (by
    intro y hy
    by_cases h : y < d
    · exact Finset.mem_range.mpr h
    · simp [h] at hy)

/-- the part of `s` outside the placement -/
noncomputable def rest (D : ℕ) (inv : ℕ → Option ℕ) (s : ℕ →₀ ℕ) : ℕ →₀ ℕ :=
  s.filter fun z => ¬ (z < D ∧ (inv z).isSome = true)

theorem pull_apply (d : ℕ) (fwd : ℕ → ℕ) (s : ℕ →₀ ℕ) (y : ℕ) :
    pull d fwd s y = if y < d then s (fwd y) else 0 := rfl

theorem pull_support (d : ℕ) (fwd : ℕ → ℕ) (s : ℕ →₀ ℕ) : ∀ y ∈ (pull d fwd s).support, y < d := by
  intro y hy
  rw [Finsupp.mem_support_iff, pull_apply] at hy
  by_contra h
  simp [h] at hy

theorem rest_apply (D : ℕ) (inv : ℕ → Option ℕ) (s : ℕ →₀ ℕ) (z : ℕ) :
    rest D inv s z = if z < D ∧ (inv z).isSome = true then 0 else s z := by
  unfold rest
  rw [Finsupp.filter_apply]
  split <;> simp_all

theorem decomp {d D : ℕ} {fwd : ℕ → ℕ} {inv : ℕ → Option ℕ} (h : PInj d D fwd inv)
    (hinj : Function.Injective fwd) (s : ℕ →₀ ℕ) :
    s = Finsupp.mapDomain fwd (pull d fwd s) + rest D inv s := by
  ext z
  rw [Finsupp.add_apply, rest_apply]
  by_cases hz : z < D ∧ (inv z).isSome = true
  · rw [if_pos hz]
    obtain ⟨x, hx⟩ := Option.isSome_iff_exists.mp hz.2
    obtain ⟨hxd, rfl⟩ := h.inv_some z x hz.1 hx
    rw [Finsupp.mapDomain_apply hinj, pull_apply, if_pos hxd, Nat.add_zero]
  · rw [if_neg hz]
    have : Finsupp.mapDomain fwd (pull d fwd s) z = 0 := by
      by_cases hr : z ∈ Set.range fwd
      · obtain ⟨y, rfl⟩ := hr
        rw [Finsupp.mapDomain_apply hinj, pull_apply]
        split
        · rename_i hy
          exact absurd ⟨h.fwd_lt y hy, by rw [h.inv_fwd y hy]; rfl⟩ hz
        · rfl
      · exact Finsupp.mapDomain_of_notMem_range _ _ hr
    rw [this, Nat.zero_add]

/-- amplitude of a placed homomorphism between states with the same outside part -/
theorem amp_place {d D : ℕ} {fwd : ℕ → ℕ} {inv : ℕ → Option ℕ} (h : PInj d D fwd inv)
    (hinj : Function.Injective fwd) (φ : Hom R) (w s : ℕ →₀ ℕ)
    (hr : rest D inv w = rest D inv s) :
    amp (placeHomG φ fwd inv D) w s = amp φ (pull d fwd w) (pull d fwd s) := by
  have key := amp_placeHomG h hinj φ (pull d fwd s) (pull d fwd w) (rest D inv s)
    (pull_support d fwd s) (by
      intro j hj hjD
      rw [Finsupp.mem_support_iff, rest_apply] at hj
      by_contra hn
      apply hj
      rw [if_pos ⟨hjD, by
        cases hi : inv j with
        | none => exact absurd hi hn
        | some y => rfl⟩])
  rw [← key]
  conv_lhs => rw [decomp h hinj w, decomp h hinj s, hr]

end LW.C12F
