/-
  LW.Proofs.C12FullIdeal — the specification side of `convert_correct`: bit strings, dual-rail
  encoding / decoding, and linearity of the ideal action `idealRun` in the input amplitudes.
-/
import Mathlib.Algebra.BigOperators.Ring.Finset
import Mathlib.Algebra.BigOperators.Group.Finset.Sigma
import Mathlib.Tactic.Ring
import LW.Model.QConvertSem

namespace LW.C12F

open LW LW.QC LW.Gates LW.QF

/-! ### bit strings -/

theorem mem_bitStrings {n : ℕ} {b : List Bool} : b ∈ bitStrings n ↔ b.length = n := by
  induction n generalizing b with
  | zero => simp [bitStrings]
  | succ n ih =>
    simp only [bitStrings, List.mem_append, List.mem_map]
    constructor
    · rintro (⟨t, ht, rfl⟩ | ⟨t, ht, rfl⟩) <;> simp [ih.mp ht]
    · intro h
      cases b with
      | nil => simp at h
      | cons x t =>
        have ht : t ∈ bitStrings n := ih.mpr (by simpa using h)
        cases x
        · exact Or.inl ⟨t, ht, rfl⟩
        · exact Or.inr ⟨t, ht, rfl⟩

theorem mem_bitsF {n : ℕ} {b : List Bool} : b ∈ (bitStrings n).toFinset ↔ b.length = n := by
  rw [List.mem_toFinset, mem_bitStrings]

/-! ### dual rail -/

theorem dualRail_length (b : List Bool) : (dualRail b).length = 2 * b.length := by
  induction b with
  | nil => rfl
  | cons x t ih => cases x <;> simp [dualRail, ih] <;> omega

theorem unDualRail_dualRail (b : List Bool) : unDualRail (dualRail b) = b := by
  induction b with
  | nil => rfl
  | cons x t ih => cases x <;> simp [dualRail, unDualRail, ih]

theorem isDualRail_dualRail (b : List Bool) : isDualRail (dualRail b) = true := by
  induction b with
  | nil => rfl
  | cons x t ih => cases x <;> simp [dualRail, isDualRail, ih]

theorem dualRail_unDualRail : ∀ (u : List ℕ), isDualRail u = true → dualRail (unDualRail u) = u
  | [], _ => rfl
  | [_], h => by simp [isDualRail] at h
  | a :: b :: t, h => by
    simp only [isDualRail, Bool.and_eq_true, beq_iff_eq] at h
    have ih := dualRail_unDualRail t h.2
    unfold unDualRail
    by_cases ha : a = 0
    · have hb : b = 1 := by omega
      subst ha hb
      simp [dualRail, ih]
    · have ha1 : a = 1 := by omega
      have hb : b = 0 := by omega
      subst ha1 hb
      simp [dualRail, ih]

theorem unDualRail_length : ∀ (u : List ℕ) (n : ℕ), u.length = 2 * n → (unDualRail u).length = n
  | [], n, h => by simp at h; simp [unDualRail]; omega
  | [_], n, h => by simp at h; omega
  | a :: b :: t, n, h => by
    cases n with
    | zero => simp at h
    | succ n =>
      have := unDualRail_length t n (by simp at h; omega)
      simp [unDualRail, this]

theorem dualRail_injective {b b' : List Bool} (h : dualRail b = dualRail b') : b = b' := by
  rw [← unDualRail_dualRail b, h, unDualRail_dualRail]

theorem dualRail_getD_even (b : List Bool) (q : ℕ) :
    (dualRail b).getD (2 * q) 0 = if q < b.length ∧ getBit b q = false then 1 else 0 := by
  induction b generalizing q with
  | nil => simp [dualRail]
  | cons x t ih =>
    cases q with
    | zero => cases x <;> simp [dualRail, getBit]
    | succ q =>
      have e : 2 * (q + 1) = 2 * q + 1 + 1 := by omega
      cases x <;>
        (simp only [dualRail, e, List.getD_cons_succ, ih, getBit, List.length_cons,
          Nat.add_lt_add_iff_right]; rfl)

theorem dualRail_getD_odd (b : List Bool) (q : ℕ) :
    (dualRail b).getD (2 * q + 1) 0 = if q < b.length ∧ getBit b q = true then 1 else 0 := by
  induction b generalizing q with
  | nil => simp [dualRail]
  | cons x t ih =>
    cases q with
    | zero => cases x <;> simp [dualRail, getBit]
    | succ q =>
      have e : 2 * (q + 1) + 1 = 2 * q + 1 + 1 + 1 := by omega
      cases x <;>
        (simp only [dualRail, e, List.getD_cons_succ, ih, getBit, List.length_cons,
          Nat.add_lt_add_iff_right]; rfl)

/-- a user state with one photon in every qubit is a dual-rail state -/
theorem isDualRail_of_allOne : ∀ (u : List ℕ) (n : ℕ), u.length = 2 * n →
    (∀ q, q < n → u.getD (2 * q) 0 + u.getD (2 * q + 1) 0 = 1) → isDualRail u = true
  | [], _, _, _ => rfl
  | [_], n, h, _ => by simp at h; omega
  | a :: b :: t, n, h, hq => by
    cases n with
    | zero => simp at h
    | succ n =>
      have h0 := hq 0 (by omega)
      simp only [Nat.mul_zero, List.getD_cons_zero, Nat.zero_add, List.getD_cons_succ] at h0
      have ih := isDualRail_of_allOne t n (by simp at h; omega) (by
        intro q hq'
        have := hq (q + 1) (by omega)
        have e1 : 2 * (q + 1) = 2 * q + 1 + 1 := by omega
        have e2 : 2 * (q + 1) + 1 = 2 * q + 1 + 1 + 1 := by omega
        rw [e1, List.getD_cons_succ, List.getD_cons_succ, List.getD_cons_succ,
          List.getD_cons_succ] at this
        exact this)
      simp [isDualRail, h0, ih]

/-! ### linearity of the ideal action -/

variable {K : Type} [CommRing K]

theorem delta_expand (n : ℕ) (ψ : List Bool → K) (x : List Bool) (hx : x.length = n) :
    ψ x = ∑ m ∈ (bitStrings n).toFinset, ψ m * delta m x := by
  rw [Finset.sum_eq_single x]
  · simp [delta]
  · intro m _ hne
    simp [delta, Ne.symm hne]
  · intro h
    exact absurd (mem_bitsF.mpr hx) h

theorem applyInstr_linear (c : GC K) (par : ℕ → K × K) (idx : ℕ) (g : Instr) (n : ℕ)
    (ψ : List Bool → K) (b : List Bool) (hb : b.length = n) :
    applyInstr c par idx g ψ b =
      ∑ m ∈ (bitStrings n).toFinset, ψ m * applyInstr c par idx g (delta m) b := by
  rcases hq : g.qubits with _ | ⟨q, _ | ⟨q1, _ | ⟨q2, _ | ⟨q3, l⟩⟩⟩⟩
  · simp only [applyInstr, hq]
    exact delta_expand n ψ b hb
  · simp only [applyInstr, hq, applySQ]
    rw [delta_expand n ψ (b.set q false) (by simpa using hb),
      delta_expand n ψ (b.set q true) (by simpa using hb), Finset.mul_sum, Finset.mul_sum,
      ← Finset.sum_add_distrib]
    apply Finset.sum_congr rfl
    intro m _
    ring
  · simp only [applyInstr, hq]
    split_ifs
    · exact delta_expand n ψ _ (by simpa using hb)
    · exact delta_expand n ψ _ (by split <;> simpa using hb)
    · show (if (getBit b q && getBit b q1) = true then -ψ b else ψ b) = ∑ x ∈ (bitStrings n).toFinset,
        ψ x * (if (getBit b q && getBit b q1) = true then -delta x b else delta x b)
      split_ifs
      · rw [delta_expand n ψ b hb, ← Finset.sum_neg_distrib]
        apply Finset.sum_congr rfl
        intro m _
        ring
      · exact delta_expand n ψ b hb
  · simp only [applyInstr, hq]
    split_ifs
    · exact delta_expand n ψ _ (by split <;> simpa using hb)
    · show (if (getBit b q && getBit b q1 && getBit b q2) = true then -ψ b else ψ b)
        = ∑ x ∈ (bitStrings n).toFinset,
          ψ x * (if (getBit b q && getBit b q1 && getBit b q2) = true then -delta x b else delta x b)
      split_ifs
      · rw [delta_expand n ψ b hb, ← Finset.sum_neg_distrib]
        apply Finset.sum_congr rfl
        intro m _
        ring
      · exact delta_expand n ψ b hb
  · simp only [applyInstr, hq]
    exact delta_expand n ψ b hb

theorem idealRun_linear (c : GC K) (par : ℕ → K × K) (n : ℕ) (gs : List Instr) (idx : ℕ)
    (ψ : List Bool → K) (b : List Bool) (hb : b.length = n) :
    idealRun c par idx gs ψ b =
      ∑ m ∈ (bitStrings n).toFinset, ψ m * idealRun c par idx gs (delta m) b := by
  induction gs generalizing idx ψ with
  | nil => exact delta_expand n ψ b hb
  | cons g rest ih =>
    simp only [idealRun]
    rw [ih (idx + 1) (applyInstr c par idx g ψ)]
    have h2 : ∀ m ∈ (bitStrings n).toFinset,
        ψ m * idealRun c par (idx + 1) rest (applyInstr c par idx g (delta m)) b
          = ∑ m' ∈ (bitStrings n).toFinset,
              ψ m * (applyInstr c par idx g (delta m) m' * idealRun c par (idx + 1) rest (delta m') b) := by
      intro m _
      rw [ih (idx + 1) (applyInstr c par idx g (delta m)), Finset.mul_sum]
    rw [Finset.sum_congr rfl h2, Finset.sum_comm]
    apply Finset.sum_congr rfl
    intro m' hm'
    rw [applyInstr_linear c par idx g n ψ m' (mem_bitsF.mp hm'), Finset.sum_mul]
    apply Finset.sum_congr rfl
    intro m _
    ring

end LW.C12F
