/-
  LW.Proofs.C14Null — the nulling invariant of `reck_decomposition` and "upper triangular +
  unitary ⇒ diagonal".
-/
import LW.Proofs.C14Decomp

open Matrix

namespace LW.Proofs.C14

open LW.Reck

variable {K : Type} [CommRing K] [StarRing K]

set_option linter.unusedSectionVars false

/-- the entries below the diagonal that are nulled before step `(loc, j)`: all of the rows below
`loc`, and row `loc` left of column `j` -/
def Z {n : Nat} (X : Matrix (Fin n) (Fin n) K) (loc j : Nat) : Prop :=
  ∀ r c : Fin n, c.val < r.val → (loc < r.val ∨ (r.val = loc ∧ c.val < j)) → X r c = 0

/-- **the nulling step zeroes its entry and keeps what was nulled before** -/
theorem Z_step {n loc j : Nat} (hloc : loc < n) (hj : j < loc) {i : K} {x : Cell K}
    (hx : CellOk i x) (X : Matrix (Fin n) (Fin n) K) (hZ : Z X loc j)
    (hnull : x.c * X ⟨loc, hloc⟩ ⟨j + 1, by omega⟩ = star x.p * x.s * X ⟨loc, hloc⟩ ⟨j, by omega⟩) :
    Z (X * E2 ⟨j, by omega⟩ ⟨j + 1, by omega⟩ (Tblk i x)ᴴ) loc (j + 1) := by
  have hne : (⟨j, by omega⟩ : Fin n) ≠ ⟨j + 1, by omega⟩ := fun e => by
    have := Fin.mk.inj e; omega
  intro r c hcr hcond
  rw [mul_E2_apply hne]
  by_cases h1 : c = ⟨j, by omega⟩
  · rw [if_pos h1]
    rcases hcond with hlt | ⟨hr, _⟩
    · rw [hZ r ⟨j, by omega⟩ (by simp; omega) (Or.inl hlt),
        hZ r ⟨j + 1, by omega⟩ (by simp; omega) (Or.inl hlt)]
      simp
    · have hr' : r = ⟨loc, hloc⟩ := Fin.ext hr
      subst hr'
      simp only [Matrix.conjTranspose_apply, Tblk, Matrix.cons_val', Matrix.cons_val_zero,
        Matrix.cons_val_one, Matrix.empty_val', Matrix.cons_val_fin_one, Matrix.of_apply,
        star_neg, star_mul', hx.c_real, hx.s_real]
      linear_combination (star i * star x.w) * hnull
  · rw [if_neg h1]
    by_cases h2 : c = ⟨j + 1, by omega⟩
    · rw [if_pos h2]
      rcases hcond with hlt | ⟨hr, hc⟩
      · rw [hZ r ⟨j, by omega⟩ (by simp; omega) (Or.inl hlt),
          hZ r ⟨j + 1, by omega⟩ (by simp; omega) (Or.inl hlt)]
        simp
      · exfalso
        have := congrArg Fin.val h2
        simp at this
        omega
    · rw [if_neg h2]
      rcases hcond with hlt | ⟨hr, hc⟩
      · exact hZ r c hcr (Or.inl hlt)
      · refine hZ r c hcr (Or.inr ⟨hr, ?_⟩)
        have e1 : c.val ≠ j := fun e => h1 (Fin.ext e)
        omega

theorem Z_row_done {n loc : Nat} (X : Matrix (Fin n) (Fin n) K) (hloc : 1 ≤ loc)
    (hZ : Z X loc loc) : Z X (loc - 1) 0 := by
  intro r c hcr hcond
  rcases hcond with hlt | ⟨_, hc⟩
  · by_cases e : r.val = loc
    · exact hZ r c hcr (Or.inr ⟨e, by omega⟩)
    · exact hZ r c hcr (Or.inl (by omega))
  · omega

theorem Z_inner {n : Nat} {i : K} (hi : IsImagUnit i) {N : Num K} (hN : NumOk i N) (a : Nat)
    (m : Nat) (hm : m ≤ n - 1 - a) (ha : a < n) (U : M K) (hU : U.n = n)
    (hZ : Z (U.toMatN n) (n - 1 - a) 0) :
    Z ((finalGo N i ((List.range m).map fun j => (a, j)) U).toMatN n) (n - 1 - a) m := by
  induction m with
  | zero => simpa [finalGo] using hZ
  | succ m ih =>
    have ih := ih (by omega)
    rw [List.range_succ, List.map_append, finalGo_append]
    set cur := finalGo N i ((List.range m).map fun j => (a, j)) U with hcur
    have hn : cur.n = n := by rw [hcur, finalGo_n, hU]
    simp only [List.map_cons, List.map_nil, finalGo]
    rw [toMatN_nullStep i cur hn (by omega)]
    have hloc : n - 1 - a < n := by omega
    refine Z_step hloc (by omega) (stepCell_ok hi hN cur a m) _ ih ?_
    have := stepCell_nulls hN cur a m
    rw [hn] at this
    exact this

theorem Z_outer {n : Nat} {i : K} (hi : IsImagUnit i) {N : Num K} (hN : NumOk i N)
    (t : Nat) (ht : t ≤ n - 1) (U : M K) (hU : U.n = n) :
    Z ((finalGo N i ((List.range t).flatMap (stepsRow n)) U).toMatN n) (n - 1 - t) 0 := by
  induction t with
  | zero =>
    intro r c _ hcond
    rcases hcond with hlt | ⟨_, hc⟩
    · have := r.2; omega
    · omega
  | succ t ih =>
    have ih := ih (by omega)
    rw [List.range_succ, List.flatMap_append, finalGo_append]
    set cur := finalGo N i ((List.range t).flatMap (stepsRow n)) U with hcur
    have hn : cur.n = n := by rw [hcur, finalGo_n, hU]
    simp only [List.flatMap_cons, List.flatMap_nil, List.append_nil, stepsRow]
    have h1 := Z_inner hi hN t (n - 1 - t) (le_refl _) (by omega) cur hn ih
    have h2 := Z_row_done _ (by omega) h1
    have e : n - 1 - t - 1 = n - 1 - (t + 1) := by omega
    rw [e] at h2
    exact h2

theorem mem_steps {n : Nat} {aj : Nat × Nat} (h : aj ∈ steps n) : aj.2 + 1 < n := by
  simp only [steps, stepsRow, List.mem_flatMap, List.mem_map, List.mem_range] at h
  obtain ⟨a, ha, j, hj, rfl⟩ := h
  simp only
  omega

/-- after the loop every entry below the diagonal is zero -/
theorem lower_zero {n : Nat} {i : K} (hi : IsImagUnit i) {N : Num K} (hN : NumOk i N)
    (U : M K) (hU : U.n = n) (r c : Fin n) (hcr : c < r) :
    (finalGo N i (steps n) U).toMatN n r c = 0 := by
  have h := Z_outer hi hN (n - 1) (le_refl _) U hU
  refine h r c hcr (Or.inl ?_)
  have : c.val < r.val := hcr
  omega

/-- **an upper-triangular unitary matrix is diagonal, with unimodular diagonal** -/
theorem upper_unitary_diag {n : Nat} (X : Matrix (Fin n) (Fin n) K)
    (hX : X ∈ Matrix.unitaryGroup (Fin n) K) (hlow : ∀ r c : Fin n, c < r → X r c = 0) :
    (∀ r c : Fin n, r ≠ c → X r c = 0) ∧ ∀ r, X r r * star (X r r) = 1 := by
  have h1 : star X * X = 1 := (Matrix.mem_unitaryGroup_iff').mp hX
  have h2 : X * star X = 1 := (Matrix.mem_unitaryGroup_iff).mp hX
  have hup : ∀ r c : Fin n, r < c → X r c = 0 := by
    let _ : Invertible X := invertibleOfLeftInverse _ _ h1
    have hinv : X⁻¹ = star X := Matrix.inv_eq_left_inv h1
    have hbt : Matrix.BlockTriangular X id := fun r c h => hlow r c h
    have hbi := Matrix.blockTriangular_inv_of_blockTriangular hbt
    rw [hinv] at hbi
    intro r c hrc
    have := hbi (show id r < id c from hrc)
    rw [Matrix.star_apply] at this
    exact star_eq_zero.mp this
  have hoff : ∀ r c : Fin n, r ≠ c → X r c = 0 := fun r c hne => by
    rcases lt_or_gt_of_ne hne with h | h
    · exact hup r c h
    · exact hlow r c h
  refine ⟨hoff, fun r => ?_⟩
  have := congrFun (congrFun h2 r) r
  rw [Matrix.mul_apply, Matrix.one_apply_eq, Finset.sum_eq_single r] at this
  · rwa [Matrix.star_apply] at this
  · intro k _ hk
    rw [hoff r k (Ne.symm hk)]
    simp
  · simp

end LW.Proofs.C14
