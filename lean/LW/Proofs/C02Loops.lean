/-
  LW.Proofs.C02Loops — C02: the new-ancilla loop and the herald-setting loop of `add`.
-/
import LW.Proofs.C02PassThrough
namespace LW.Proofs.C02
variable {K : Type} [Zero K] [One K]

/-! ### the new-ancilla loop -/
structure AncInv (c0 : Circ K) (mode : Nat) (P : List Nat) (s : Circ K) (f : Nat → Nat) : Prop where
  n_eq : s.n = c0.n + P.length
  inj : ∀ a b, f a = f b → a = b
  le : ∀ a, a ≤ f a
  le' : ∀ a, f a ≤ a + P.length
  avoid : ∀ a, ∀ m ∈ P, f a ≠ mode + m
  inHer : s.inHer = Dict.mapKeys f c0.inHer
  outHer : s.outHer = Dict.mapKeys f c0.outHer
  internal : s.internal = c0.internal.map f ++ P.map (mode + ·)
  modes : ∀ c ∈ s.spec, ∀ m ∈ c.modes, m < s.n

omit [Zero K] [One K] in
theorem AncInv.init (self : Circ K) (hwf : self.WF) (mode : Nat) : AncInv self mode [] self id := by
  refine ⟨rfl, fun a b h => h, fun a => Nat.le_refl _, fun a => Nat.le_refl _, ?_, ?_, ?_, ?_, hwf.modesLt⟩
  · intro a m hm; cases hm
  · simp [Dict.mapKeys]
  · simp [Dict.mapKeys]
  · simp

theorem AncInv.step {self : Circ K} (hwf : self.WF) {mode : Nat} {P : List Nat} {s : Circ K}
    {f : Nat → Nat} (inv : AncInv self mode P s f) (m : Nat) (hm : ∀ m0 ∈ P, m0 < m) :
    AncInv self mode (P ++ [m]) (ancStep mode s m) (bump (mode + m) ∘ f) := by
  have hin : s.inHer.keys.Nodup := by
    rw [inv.inHer, keys_mapKeys]; exact nodup_map_of_inj inv.inj hwf.inNodup
  have hout : s.outHer.keys.Nodup := by
    rw [inv.outHer, keys_mapKeys]; exact nodup_map_of_inj inv.inj hwf.outNodup
  refine ⟨?_, ?_, ?_, ?_, ?_, ?_, ?_, ?_, ?_⟩
  · show s.n + 1 = _
    rw [inv.n_eq, List.length_append]; simp; omega
  · intro a b h; exact inv.inj a b (bump_inj h)
  · intro a; exact Nat.le_trans (inv.le a) (le_bump _ _)
  · intro a
    have := inv.le' a; have := bump_le_succ (mode + m) (f a)
    simp only [Function.comp, List.length_append, List.length_cons, List.length_nil]; omega
  · intro a m1 hm1
    rcases List.mem_append.mp hm1 with h | h
    · exact bump_ne_of_lt (by have := hm m1 h; omega) (inv.avoid a m1 h)
    · simp only [List.mem_singleton] at h; subst h
      exact bump_ne _ _
  · show bumpDict (mode + m) s.inHer = _
    rw [bumpDict_of_nodup hin, inv.inHer, mapKeys_mapKeys]
  · show bumpDict (mode + m) s.outHer = _
    rw [bumpDict_of_nodup hout, inv.outHer, mapKeys_mapKeys]
  · show s.internal.map (bump (mode + m)) ++ [mode + m] = _
    rw [inv.internal, List.map_append, List.map_map, List.map_map, List.map_append, List.append_assoc]
    congr 1
    congr 1
    apply List.map_congr_left
    intro m0 h0
    show bump (mode + m) (mode + m0) = mode + m0
    exact bump_of_lt (by have := hm m0 h0; omega)
  · show ∀ c ∈ Circ.addEmptyModeSpec s.spec (mode + m), ∀ x ∈ c.modes, x < s.n + 1
    exact spec_addEmptyMode_lt (mode + m) s.n s.spec inv.modes

theorem AncInv.fold {self : Circ K} (hwf : self.WF) {mode : Nat} (L : List Nat)
    (hL : L.Pairwise (· < ·)) {P : List Nat} {s : Circ K} {f : Nat → Nat}
    (inv : AncInv self mode P s f) (hP : ∀ m0 ∈ P, ∀ m ∈ L, m0 < m) :
    ∃ f', AncInv self mode (P ++ L) (L.foldl (ancStep mode) s) f' := by
  induction L generalizing P s f with
  | nil => exact ⟨f, by simpa using inv⟩
  | cons m t ih =>
    have h1 := inv.step hwf m (fun m0 h0 => hP m0 h0 m (by simp))
    obtain ⟨f', h2⟩ := ih hL.of_cons h1 (by
      intro m0 h0 x hx
      rcases List.mem_append.mp h0 with h | h
      · exact hP m0 h x (by simp [hx])
      · simp only [List.mem_singleton] at h; subst h
        exact List.rel_of_pairwise_cons hL hx)
    exact ⟨f', by simpa using h2⟩

/-! ### the herald-setting loop -/
omit [Zero K] [One K] in
theorem herFold_eq (mode : Nat) (H : Dict) (s : Circ K) :
    H.foldl (herStep mode) s =
      { s with inHer := (H.map fun p => (p.1 + mode, p.2)).foldl (fun d p => d.set p.1 p.2) s.inHer,
               outHer := (H.map fun p => (p.1 + mode, p.2)).foldl (fun d p => d.set p.1 p.2) s.outHer } := by
  induction H generalizing s with
  | nil => rfl
  | cons p t ih =>
    rw [List.foldl_cons, ih]
    rfl

end LW.Proofs.C02
