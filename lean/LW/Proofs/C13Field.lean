/-
  LW.Proofs.C13Field — the amplitude tables of the gate library over ANY field `R` with constants
  satisfying the defining equations of the numbers the constructors compute (`GC.Valid`):
  the kernel-decided tables over the exact towers (LW/Proofs/C13.lean) transported along the
  evaluation maps tower → R (LW/Proofs/C13Lift.lean).
-/
import LW.Proofs.C13Lift

set_option linter.unusedSectionVars false
set_option linter.unusedSimpArgs false

namespace LW.Gates

open LW.QF

/-- the defining equations of the constants of the gate library:
`i² = −1`, `√2² = 2`, `2^(-1/2)·√2 = 1`, `½·2 = 1`, `⅓·3 = 1`, `3·(3^(-1/2))² = 1`,
`(2^(-1/4))² = 2^(-1/2)`, `w² = 3/√2 − 2`, `√7² = 7`, `(e^{iπ/4})² = i`, `e^{iπ/4}·e^{-iπ/4} = 1` -/
structure GC.Valid {R : Type} [Field R] (c : GC R) : Prop where
  i_sq : c.i * c.i = -1
  s2_sq : c.s2 * c.s2 = 2
  rh_s2 : c.rh * c.s2 = 1
  half_two : c.half * 2 = 1
  third_three : c.third * 3 = 1
  s3i_sq : 3 * (c.s3i * c.s3i) = 1
  q4i_sq : c.q4i * c.q4i = c.rh
  w_sq : c.w * c.w = 3 * c.rh - 2
  s7_sq : c.s7 * c.s7 = 7
  t8_sq : c.t8 * c.t8 = c.i
  t8_t8c : c.t8 * c.t8c = 1

section Entries
variable {T R : Type} [Add T] [Mul T] [Neg T] [Zero T] [One T] [CommRing R] {φ : T → R}

theorem m2_map (hφ : THom φ) (a b c d : T) (r k : Nat) :
    φ (m2 a b c d r k) = m2 (φ a) (φ b) (φ c) (φ d) r k := by
  unfold m2
  split <;> first | rfl | exact hφ.map_zero

theorem uNS_map (hφ : THom φ) (cT : GC T) (cR : GC R) (h_s2 : φ cT.s2 = cR.s2) (h_rh : φ cT.rh = cR.rh)
    (h_half : φ cT.half = cR.half) (h_q : φ cT.q4i = cR.q4i) (h_w : φ cT.w = cR.w) (r k : Nat) :
    φ (uNS cT r k) = uNS cR r k := by
  unfold uNS
  split <;> first
    | exact hφ.map_zero
    | (simp only [hφ.map_add, hφ.map_neg, hφ.map_one, h_s2, h_rh, h_half, h_q, h_w])

theorem cczEntry_map (hφ : THom φ) (cT : GC T) (cR : GC R) (h_i : φ cT.i = cR.i) (h_s2 : φ cT.s2 = cR.s2)
    (h_rh : φ cT.rh = cR.rh) (h_half : φ cT.half = cR.half) (h_third : φ cT.third = cR.third)
    (h_s3i : φ cT.s3i = cR.s3i) (h_s7 : φ cT.s7 = cR.s7) (r k : Nat) :
    φ (cczEntry cT r k) = cczEntry cR r k := by
  have h7 : φ (ofN 7) = ofN 7 := by
    simp only [ofN, hφ.map_add, hφ.map_one, hφ.map_zero]
  unfold cczEntry
  split <;> first
    | exact hφ.map_zero
    | (simp only [hφ.map_add, hφ.map_neg, hφ.map_mul, hφ.map_one, h_i, h_s2, h_rh, h_half, h_third,
        h_s3i, h_s7, h7])

theorem sqH_rel (hφ : THom φ) (cT : GC T) (cR : GC R) (h_rh : φ cT.rh = cR.rh) :
    MRel φ (sqMat cT .H) (sqMat cR .H) := by
  unfold sqMat
  apply MRel.ofFn hφ
  intro r k _ _
  simp only [sqEntry]
  rw [m2_map hφ, hφ.map_neg, h_rh]

theorem czUnitary_rel (hφ : THom φ) (cT : GC T) (cR : GC R) (h_s2 : φ cT.s2 = cR.s2)
    (h_s3i : φ cT.s3i = cR.s3i) : MRel φ (czUnitary cT) (czUnitary cR) := by
  unfold czUnitary
  apply MRel.ofFn hφ
  intro r k _ _
  simp only
  split_ifs <;>
    simp only [hφ.map_neg, hφ.map_mul, hφ.map_zero, m2_map hφ, hφ.map_one, h_s2, h_s3i]

theorem czhUnitary_rel (hφ : THom φ) (cT : GC T) (cR : GC R) (h_i : φ cT.i = cR.i)
    (h_s2 : φ cT.s2 = cR.s2) (h_rh : φ cT.rh = cR.rh) (h_half : φ cT.half = cR.half)
    (h_q : φ cT.q4i = cR.q4i) (h_w : φ cT.w = cR.w) : MRel φ (czhUnitary cT) (czhUnitary cR) := by
  have hu := uNS_map hφ cT cR h_s2 h_rh h_half h_q h_w
  have hua : MRel φ
      (M.ofFn 8 fun r k =>
        let v :=
          if 1 ≤ r ∧ r < 4 ∧ 1 ≤ k ∧ k < 4 then uNS cT (3 - r) (3 - k)
          else if 4 ≤ r ∧ r < 7 ∧ 4 ≤ k ∧ k < 7 then uNS cT (r - 4) (k - 4)
          else if r = k then 1 else 0
        if k = 3 then -v else v)
      (M.ofFn 8 fun r k =>
        let v :=
          if 1 ≤ r ∧ r < 4 ∧ 1 ≤ k ∧ k < 4 then uNS cR (3 - r) (3 - k)
          else if 4 ≤ r ∧ r < 7 ∧ 4 ≤ k ∧ k < 7 then uNS cR (r - 4) (k - 4)
          else if r = k then 1 else 0
        if k = 3 then -v else v) := by
    apply MRel.ofFn hφ
    intro r k _ _
    simp only
    split_ifs <;> simp only [hφ.map_neg, hu, hφ.map_one, hφ.map_zero]
  have hubs : MRel φ
      (M.ofFn 8 fun r k =>
        if (r = 3 ∧ k = 3) ∨ (r = 4 ∧ k = 4) then cT.rh
        else if (r = 3 ∧ k = 4) ∨ (r = 4 ∧ k = 3) then cT.i * cT.rh
        else if r = k then 1 else 0)
      (M.ofFn 8 fun r k =>
        if (r = 3 ∧ k = 3) ∨ (r = 4 ∧ k = 4) then cR.rh
        else if (r = 3 ∧ k = 4) ∨ (r = 4 ∧ k = 3) then cR.i * cR.rh
        else if r = k then 1 else 0) := by
    apply MRel.ofFn hφ
    intro r k _ _
    split_ifs <;> simp only [hφ.map_mul, h_i, h_rh, hφ.map_one, hφ.map_zero]
  have hp := MRel.permMat (R := R) hφ czhSwaps 8
  exact MRel.mul hφ (MRel.mul hφ (MRel.mul hφ (MRel.mul hφ (MRel.transpose hφ hp) hubs) hua) hubs) hp

theorem cczUnitary_rel (hφ : THom φ) (cT : GC T) (cR : GC R) (h_i : φ cT.i = cR.i) (h_s2 : φ cT.s2 = cR.s2)
    (h_rh : φ cT.rh = cR.rh) (h_half : φ cT.half = cR.half) (h_third : φ cT.third = cR.third)
    (h_s3i : φ cT.s3i = cR.s3i) (h_s7 : φ cT.s7 = cR.s7) : MRel φ (cczUnitary cT) (cczUnitary cR) := by
  unfold cczUnitary
  apply MRel.ofFn hφ
  intro r k _ _
  exact cczEntry_map hφ cT cR h_i h_s2 h_rh h_half h_third h_s3i h_s7 r k

/-- `H · big · H` as related lists of blocks -/
theorem prims3_rel {h hT : M T} {h' hR : M R} (m : Nat) (h1 : MRel φ h h') (h2 : MRel φ hT hR) :
    PrimsRel φ [.unitary m h, .unitary 0 hT, .unitary m h] [.unitary m h', .unitary 0 hR, .unitary m h'] :=
  .cons _ _ _ _ _ h1 (.cons _ _ _ _ _ h2 (.cons _ _ _ _ _ h1 .nil))

theorem prims1_rel {hT : M T} {hR : M R} (h2 : MRel φ hT hR) :
    PrimsRel φ [.unitary 0 hT] [.unitary 0 hR] := .cons _ _ _ _ _ h2 .nil

end Entries

/-! ### evaluation maps of the towers into a field with valid constants -/

section Field
variable {R : Type} [Field R] (c : GC R)

theorem GC.Valid.two_ne (hv : c.Valid) : (2 : R) ≠ 0 := by
  intro h; have := hv.half_two; rw [h, mul_zero] at this; exact zero_ne_one this
theorem GC.Valid.three_ne (hv : c.Valid) : (3 : R) ≠ 0 := by
  intro h; have := hv.third_three; rw [h, mul_zero] at this; exact zero_ne_one this
theorem GC.Valid.six_ne (hv : c.Valid) : (6 : R) ≠ 0 := by
  have : (6 : R) = 2 * 3 := by norm_num
  rw [this]; exact mul_ne_zero hv.two_ne hv.three_ne
theorem GC.Valid.half_eq (hv : c.Valid) : c.half = 1 / 2 := by
  have := hv.two_ne; field_simp; exact hv.half_two
theorem GC.Valid.third_eq (hv : c.Valid) : c.third = 1 / 3 := by
  have := hv.three_ne; field_simp; exact hv.third_three
theorem GC.Valid.rh_eq (hv : c.Valid) : c.rh = c.s2 / 2 := by
  have := hv.two_ne
  field_simp
  linear_combination (c.s2) * hv.rh_s2 - c.rh * hv.s2_sq

@[simp] theorem phi6_zero : phi6 R 0 = 0 := by show phi6 R ⟨0, 0⟩ = 0; simp [phi6]
@[simp] theorem phi6_one : phi6 R 1 = 1 := by show phi6 R ⟨1, 0⟩ = 1; simp [phi6]
@[simp] theorem phi6_mk (n : Int) (e : Nat) : phi6 R ⟨n, e⟩ = (n : R) / 6 ^ e := rfl

def phi2 : T2 → R := quadPhi (phi6 R) c.s2
def phiCZ : TCZ → R := quadPhi (phi2 c) (3 * c.s3i)
def phiQ4 : TQ4 → R := quadPhi (phi2 c) (c.q4i * c.s2)
def phiW : TW → R := quadPhi (phiQ4 c) c.w
def phiCZH : TCZH → R := quadPhi (phiW c) c.i
def phi237 : T237 → R := quadPhi (phiCZ c) c.s7
def phiCCZ : TCCZ → R := quadPhi (phi237 c) c.i

variable {c}

theorem phi2_hom (hv : c.Valid) : THom (phi2 c) ∧ ZSound (phi2 c) ∧ ESound (phi2 c) :=
  ⟨quadPhi_hom _ _ (phi6_hom hv.six_ne) phi6_zsound (by simp [hv.s2_sq]),
   quadPhi_zsound _ _ phi6_zsound, quadPhi_esound _ _ (phi6_esound hv.six_ne)⟩

theorem phiCZ_hom (hv : c.Valid) : THom (phiCZ c) ∧ ZSound (phiCZ c) ∧ ESound (phiCZ c) := by
  obtain ⟨h1, h2, h3⟩ := phi2_hom hv
  refine ⟨quadPhi_hom _ _ h1 h2 ?_, quadPhi_zsound _ _ h2, quadPhi_esound _ _ h3⟩
  simp only [phi2, quadPhi, Quad.lift, phi6_mk, phi6_zero, phi6_one, pow_zero, div_one, mul_zero, add_zero]
  push_cast
  linear_combination 3 * hv.s3i_sq

theorem rh2_eq (hv : c.Valid) : 2 * c.rh = c.s2 := by
  linear_combination c.s2 * hv.rh_s2 - c.rh * hv.s2_sq

theorem phiQ4_hom (hv : c.Valid) : THom (phiQ4 c) ∧ ZSound (phiQ4 c) ∧ ESound (phiQ4 c) := by
  obtain ⟨h1, h2, h3⟩ := phi2_hom hv
  refine ⟨quadPhi_hom _ _ h1 h2 ?_, quadPhi_zsound _ _ h2, quadPhi_esound _ _ h3⟩
  simp only [phi2, quadPhi, Quad.root, phi6_mk, phi6_zero, phi6_one, pow_zero, div_one, zero_add]
  push_cast
  linear_combination (c.s2 * c.s2) * hv.q4i_sq + c.rh * hv.s2_sq + rh2_eq hv

theorem phiW_hom (hv : c.Valid) : THom (phiW c) ∧ ZSound (phiW c) ∧ ESound (phiW c) := by
  obtain ⟨h1, h2, h3⟩ := phiQ4_hom hv
  refine ⟨quadPhi_hom _ _ h1 h2 ?_, quadPhi_zsound _ _ h2, quadPhi_esound _ _ h3⟩
  have h6 := hv.six_ne
  simp only [phiQ4, phi2, quadPhi, wArg, Quad.lift, phi6_mk, phi6_zero, phi6_one, pow_zero, div_one, mul_zero,
    add_zero, pow_one, Quad.zero_a, Quad.zero_b]
  push_cast
  rw [hv.w_sq]
  field_simp
  linear_combination (9 : R) * rh2_eq hv

theorem phiCZH_hom (hv : c.Valid) : THom (phiCZH c) ∧ ZSound (phiCZH c) ∧ ESound (phiCZH c) := by
  obtain ⟨h1, h2, h3⟩ := phiW_hom hv
  refine ⟨quadPhi_hom _ _ h1 h2 ?_, quadPhi_zsound _ _ h2, quadPhi_esound _ _ h3⟩
  simp only [phiW, phiQ4, phi2, quadPhi, Quad.lift, phi6_mk, phi6_zero, phi6_one, pow_zero, div_one, mul_zero,
    add_zero, Quad.zero_a, Quad.zero_b]
  push_cast
  exact hv.i_sq

theorem phi237_hom (hv : c.Valid) : THom (phi237 c) ∧ ZSound (phi237 c) ∧ ESound (phi237 c) := by
  obtain ⟨h1, h2, h3⟩ := phiCZ_hom hv
  refine ⟨quadPhi_hom _ _ h1 h2 ?_, quadPhi_zsound _ _ h2, quadPhi_esound _ _ h3⟩
  simp only [phiCZ, phi2, quadPhi, Quad.lift, phi6_mk, phi6_zero, phi6_one, pow_zero, div_one, mul_zero,
    add_zero, Quad.zero_a, Quad.zero_b]
  push_cast
  exact hv.s7_sq

theorem phiCCZ_hom (hv : c.Valid) : THom (phiCCZ c) ∧ ZSound (phiCCZ c) ∧ ESound (phiCCZ c) := by
  obtain ⟨h1, h2, h3⟩ := phi237_hom hv
  refine ⟨quadPhi_hom _ _ h1 h2 ?_, quadPhi_zsound _ _ h2, quadPhi_esound _ _ h3⟩
  simp only [phi237, phiCZ, phi2, quadPhi, Quad.lift, phi6_mk, phi6_zero, phi6_one, pow_zero, div_one, mul_zero,
    add_zero, Quad.zero_a, Quad.zero_b]
  push_cast
  exact hv.i_sq

end Field

/-! ### the towers' constants are mapped to the field's constants -/

section Consts
variable {R : Type} [Field R] {c : GC R}

theorem phiCZ_consts (hv : c.Valid) :
    phiCZ c cCZ.s2 = c.s2 ∧ phiCZ c cCZ.rh = c.rh ∧ phiCZ c cCZ.s3i = c.s3i ∧
      phiCZ c kCZ = -c.third := by
  have h6 := hv.six_ne
  have h2 := hv.two_ne
  have h3 := hv.three_ne
  refine ⟨?_, ?_, ?_, ?_⟩ <;>
    simp only [phiCZ, phi2, quadPhi, cCZ, kCZ, TCZ.ofT2, T2.r2, T2.rh, T2.ofS, Quad.lift, Quad.root,
      S6.half, S6.third, phi6_mk, phi6_zero, phi6_one, pow_zero, pow_one, div_one, mul_zero, add_zero,
      zero_add, mul_one, Quad.zero_a, Quad.zero_b, Quad.one_a, Quad.one_b] <;> push_cast
  all_goals (try simp only [hv.rh_eq, hv.half_eq, hv.third_eq])
  all_goals (try field_simp)
  all_goals (first | ring1 | linear_combination (3 * c.q4i) * hv.s2_sq)

theorem phiCZH_consts (hv : c.Valid) :
    phiCZH c cCZH.i = c.i ∧ phiCZH c cCZH.s2 = c.s2 ∧ phiCZH c cCZH.rh = c.rh ∧
      phiCZH c cCZH.half = c.half ∧ phiCZH c cCZH.q4i = c.q4i ∧ phiCZH c cCZH.w = c.w ∧
      phiCZH c kCZH = c.half * c.half := by
  have h6 := hv.six_ne
  have h2 := hv.two_ne
  have h3 := hv.three_ne
  refine ⟨?_, ?_, ?_, ?_, ?_, ?_, ?_⟩ <;>
    simp only [phiCZH, phiW, phiQ4, phi2, quadPhi, cCZH, kCZH, TCZH.ofT2, T2.r2, T2.rh, T2.ofS, Quad.lift,
      Quad.root, S6.half, S6.third, phi6_mk, phi6_zero, phi6_one, pow_zero, pow_one, div_one, mul_zero,
      add_zero, zero_add, mul_one, Quad.zero_a, Quad.zero_b, Quad.one_a, Quad.one_b] <;> push_cast
  all_goals (try simp only [hv.rh_eq, hv.half_eq, hv.third_eq])
  all_goals (try field_simp)
  all_goals (first | ring1 | linear_combination (3 * c.q4i) * hv.s2_sq)

theorem phiCCZ_consts (hv : c.Valid) :
    phiCCZ c cCCZ.i = c.i ∧ phiCCZ c cCCZ.s2 = c.s2 ∧ phiCCZ c cCCZ.rh = c.rh ∧
      phiCCZ c cCCZ.half = c.half ∧ phiCCZ c cCCZ.third = c.third ∧ phiCCZ c cCCZ.s3i = c.s3i ∧
      phiCCZ c cCCZ.s7 = c.s7 ∧ phiCCZ c kCCZ = c.i * (c.rh * (c.half * c.third)) := by
  have h6 := hv.six_ne
  have h2 := hv.two_ne
  have h3 := hv.three_ne
  refine ⟨?_, ?_, ?_, ?_, ?_, ?_, ?_, ?_⟩ <;>
    simp only [phiCCZ, phi237, phiCZ, phi2, quadPhi, cCCZ, kCCZ, TCCZ.ofTCZ, cCZ, TCZ.ofT2, T2.r2, T2.rh,
      T2.ofS, Quad.lift, Quad.root, S6.half, S6.third, phi6_mk, phi6_zero, phi6_one, pow_zero, pow_one,
      div_one, mul_zero, add_zero, zero_add, mul_one, Quad.zero_a, Quad.zero_b, Quad.one_a, Quad.one_b] <;> push_cast
  all_goals (try simp only [hv.rh_eq, hv.half_eq, hv.third_eq])
  all_goals (try field_simp)
  all_goals (first | ring1 | linear_combination (3 * c.q4i) * hv.s2_sq)

end Consts

/-! ### the tables over a field -/

section Tables
variable {R : Type} [Field R] (c : GC R)

theorem CZ_table_field (hv : c.Valid) : HasTable Eq c.i (CZ c) 2 (-c.third) namedCZ false := by
  obtain ⟨hφ, _, he⟩ := phiCZ_hom hv
  obtain ⟨e1, _, e3, e4⟩ := phiCZ_consts hv
  have ht := CZ_table_tower
  rw [CZ_struct] at ht ⊢
  have := HasTable.lift hφ he cCZ.i c.i 6 herCZ (prims1_rel (czUnitary_rel hφ cCZ c e1 e3)) 2 kCZ
    namedCZ false ht
  rwa [e4] at this

theorem CNOT0_table_field (hv : c.Valid) :
    HasTable Eq c.i (CNOT c 0) 2 (-c.third) (namedCNOT 0) false := by
  obtain ⟨hφ, _, he⟩ := phiCZ_hom hv
  obtain ⟨e1, e2, e3, e4⟩ := phiCZ_consts hv
  have ht := CNOT0_table_tower
  rw [CNOT0_struct] at ht ⊢
  have := HasTable.lift hφ he cCZ.i c.i 6 herCZ
    (prims3_rel 1 (sqH_rel hφ cCZ c e2) (czUnitary_rel hφ cCZ c e1 e3)) 2 kCZ (namedCNOT 0) false ht
  rwa [e4] at this

theorem CNOT1_table_field (hv : c.Valid) :
    HasTable Eq c.i (CNOT c 1) 2 (-c.third) (namedCNOT 1) false := by
  obtain ⟨hφ, _, he⟩ := phiCZ_hom hv
  obtain ⟨e1, e2, e3, e4⟩ := phiCZ_consts hv
  have ht := CNOT1_table_tower
  rw [CNOT1_struct] at ht ⊢
  have := HasTable.lift hφ he cCZ.i c.i 6 herCZ
    (prims3_rel 3 (sqH_rel hφ cCZ c e2) (czUnitary_rel hφ cCZ c e1 e3)) 2 kCZ (namedCNOT 1) false ht
  rwa [e4] at this

theorem CZH_table_field (hv : c.Valid) :
    HasTable Eq c.i (CZH c) 2 (c.half * c.half) namedCZ true := by
  obtain ⟨hφ, _, he⟩ := phiCZH_hom hv
  obtain ⟨e1, e2, e3, e4, e5, e6, e7⟩ := phiCZH_consts hv
  have ht := CZH_table_tower
  rw [CZH_struct] at ht ⊢
  have := HasTable.lift hφ he cCZH.i c.i 8 herCZH
    (prims1_rel (czhUnitary_rel hφ cCZH c e1 e2 e3 e4 e5 e6)) 2 kCZH namedCZ true ht
  rwa [e7] at this

theorem CNOTH0_table_field (hv : c.Valid) :
    HasTable Eq c.i (CNOTH c 0) 2 (c.half * c.half) (namedCNOT 0) true := by
  obtain ⟨hφ, _, he⟩ := phiCZH_hom hv
  obtain ⟨e1, e2, e3, e4, e5, e6, e7⟩ := phiCZH_consts hv
  have ht := CNOTH0_table_tower
  rw [CNOTH0_struct] at ht ⊢
  have := HasTable.lift hφ he cCZH.i c.i 8 herCZH
    (prims3_rel 2 (sqH_rel hφ cCZH c e3) (czhUnitary_rel hφ cCZH c e1 e2 e3 e4 e5 e6)) 2 kCZH
    (namedCNOT 0) true ht
  rwa [e7] at this

theorem CNOTH1_table_field (hv : c.Valid) :
    HasTable Eq c.i (CNOTH c 1) 2 (c.half * c.half) (namedCNOT 1) true := by
  obtain ⟨hφ, _, he⟩ := phiCZH_hom hv
  obtain ⟨e1, e2, e3, e4, e5, e6, e7⟩ := phiCZH_consts hv
  have ht := CNOTH1_table_tower
  rw [CNOTH1_struct] at ht ⊢
  have := HasTable.lift hφ he cCZH.i c.i 8 herCZH
    (prims3_rel 4 (sqH_rel hφ cCZH c e3) (czhUnitary_rel hφ cCZH c e1 e2 e3 e4 e5 e6)) 2 kCZH
    (namedCNOT 1) true ht
  rwa [e7] at this

/-- the scalar of CCZ / CCNOT: `i/(6√2)` -/
def kCCZf : R := c.i * (c.rh * (c.half * c.third))

theorem CCZ_table_field (hv : c.Valid) : HasTable Eq c.i (CCZ c) 3 (kCCZf c) namedCZ false := by
  obtain ⟨hφ, _, he⟩ := phiCCZ_hom hv
  obtain ⟨e1, e2, e3, e4, e5, e6, e7, e8⟩ := phiCCZ_consts hv
  have ht := CCZ_table_tower
  rw [CCZ_struct] at ht ⊢
  have := HasTable.lift hφ he cCCZ.i c.i 10 herCCZ
    (prims1_rel (cczUnitary_rel hφ cCCZ c e1 e2 e3 e4 e5 e6 e7)) 3 kCCZ namedCZ false ht
  rwa [e8] at this

theorem CCNOT0_table_field (hv : c.Valid) :
    HasTable Eq c.i (CCNOT c 0) 3 (kCCZf c) (namedCNOT 0) false := by
  obtain ⟨hφ, _, he⟩ := phiCCZ_hom hv
  obtain ⟨e1, e2, e3, e4, e5, e6, e7, e8⟩ := phiCCZ_consts hv
  have ht := CCNOT0_table_tower
  rw [CCNOT0_struct] at ht ⊢
  have := HasTable.lift hφ he cCCZ.i c.i 10 herCCZ
    (prims3_rel 2 (sqH_rel hφ cCCZ c e3) (cczUnitary_rel hφ cCCZ c e1 e2 e3 e4 e5 e6 e7)) 3 kCCZ
    (namedCNOT 0) false ht
  rwa [e8] at this

theorem CCNOT1_table_field (hv : c.Valid) :
    HasTable Eq c.i (CCNOT c 1) 3 (kCCZf c) (namedCNOT 1) false := by
  obtain ⟨hφ, _, he⟩ := phiCCZ_hom hv
  obtain ⟨e1, e2, e3, e4, e5, e6, e7, e8⟩ := phiCCZ_consts hv
  have ht := CCNOT1_table_tower
  rw [CCNOT1_struct] at ht ⊢
  have := HasTable.lift hφ he cCCZ.i c.i 10 herCCZ
    (prims3_rel 4 (sqH_rel hφ cCCZ c e3) (cczUnitary_rel hφ cCCZ c e1 e2 e3 e4 e5 e6 e7)) 3 kCCZ
    (namedCNOT 1) false ht
  rwa [e8] at this

theorem CCNOT2_table_field (hv : c.Valid) :
    HasTable Eq c.i (CCNOT c 2) 3 (kCCZf c) (namedCNOT 2) false := by
  obtain ⟨hφ, _, he⟩ := phiCCZ_hom hv
  obtain ⟨e1, e2, e3, e4, e5, e6, e7, e8⟩ := phiCCZ_consts hv
  have ht := CCNOT2_table_tower
  rw [CCNOT2_struct] at ht ⊢
  have := HasTable.lift hφ he cCCZ.i c.i 10 herCCZ
    (prims3_rel 6 (sqH_rel hφ cCCZ c e3) (cczUnitary_rel hφ cCCZ c e1 e2 e3 e4 e5 e6 e7)) 3 kCCZ
    (namedCNOT 2) false ht
  rwa [e8] at this

/-- squared moduli of the scalars: `(-1/3)² = 1/9`, `(1/4)² = 1/16`, and for the purely imaginary
`k = i/(6√2)`: `k·conj k = k·(-k) = 1/72` -/
theorem scalar_sq_field (hv : c.Valid) :
    (-c.third) * (-c.third) * 9 = 1 ∧ (c.half * c.half) * (c.half * c.half) * 16 = 1 ∧
      (kCCZf c * -(kCCZf c)) * 72 = 1 := by
  have h2 := hv.two_ne
  have h3 := hv.three_ne
  refine ⟨?_, ?_, ?_⟩
  · rw [hv.third_eq]; field_simp; norm_num
  · rw [hv.half_eq]; field_simp; norm_num
  · unfold kCCZf
    rw [hv.rh_eq, hv.half_eq, hv.third_eq]
    field_simp
    linear_combination (-(c.s2 * c.s2) * 72) * hv.i_sq + (72 : R) * hv.s2_sq

end Tables

/-! ### single-qubit gates -/

section Single
variable {R : Type} [CommRing R]

theorem sqCirc_Ufull_get (c : GC R) (g : SQ R) (r k : Nat) (hr : r < 2) (hk : k < 2) :
    ((sqCirc c g).Ufull c.i).get r k = sqEntry c g r k := by
  show ((LW.embedBlock 2 0 (sqMat c g)).mul (M.one 2)).get r k = _
  have hn : (LW.embedBlock 2 0 (sqMat c g)).n = 2 := rfl
  rw [M.get_mul _ _ (by rw [hn]; exact hr) (by rw [hn]; exact hk), hn]
  simp only [Finset.sum_range_succ, Finset.sum_range_zero, zero_add]
  rw [M.get_one (by omega) hk, M.get_one (by omega) hk]
  have he : ∀ j, j < 2 → (LW.embedBlock 2 0 (sqMat c g)).get r j = sqEntry c g r j := by
    intro j hj
    unfold LW.embedBlock sqMat
    rw [M.get_ofFn _ hr hj]
    simp only [M.ofFn_n, Nat.zero_le, true_and, Nat.zero_add, Nat.sub_zero, hr, hj, if_true]
    exact M.get_ofFn _ hr hj
  rw [he 0 (by omega), he 1 (by omega)]
  have hk2 : k = 0 ∨ k = 1 := by omega
  rcases hk2 with rfl | rfl <;> simp

/-- **Single-qubit gates**, every gate and every rotation parameter: the amplitude between
dual-rail basis states is exactly the entry of the gate's 2×2 matrix (scalar 1); with one photon
on two modes every output is in the qubit subspace. -/
theorem single_qubit_amp (c : GC R) (g : SQ R) (b b' : Bool) :
    gateAmp c.i (sqCirc c g) (dualRail [b]) (dualRail [b']) = sqEntry c g b'.toNat b.toNat := by
  have h := sqCirc_Ufull_get c g
  have key : ∀ o i : Nat, o < 2 → i < 2 →
      permAmpFull ((sqCirc c g).Ufull c.i).get (if i = 0 then [1, 0] else [0, 1]) (if o = 0 then [1, 0] else [0, 1])
        = sqEntry c g o i := by
    intro o i ho hi
    have ho2 : o = 0 ∨ o = 1 := by omega
    have hi2 : i = 0 ∨ i = 1 := by omega
    rcases ho2 with rfl | rfl <;> rcases hi2 with rfl | rfl <;>
      simp [permAmpFull, idxs, idxsFrom, permN, M.sumN, h]
  cases b <;> cases b'
  · exact key 0 0 (by omega) (by omega)
  · exact key 1 0 (by omega) (by omega)
  · exact key 0 1 (by omega) (by omega)
  · exact key 1 1 (by omega) (by omega)
end Single

end LW.Gates
