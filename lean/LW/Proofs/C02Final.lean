/-
  LW.Proofs.C02Final — C02: explicit form of the result of `add` and the invariant it satisfies.
-/
import LW.Proofs.C02Loops
namespace LW.Proofs.C02
variable {K : Type} [Zero K] [One K]

theorem length_le_of_nodup_lt (l : List Nat) (n : Nat) (hnd : l.Nodup) (hlt : ∀ a ∈ l, a < n) :
    l.length ≤ n := by
  have hs := strictSorted_sortNat hnd
  have hl := length_sortNat l
  have hn : ∀ a ∈ sortNat l, a < n := fun a ha => hlt a (mem_sortNat.mp ha)
  cases hsl : sortNat l with
  | nil => rw [hsl] at hl; simp at hl; omega
  | cons i t =>
    rw [hsl] at hs hn hl
    have := head_add_length_le i t n hs hn
    simp at hl; omega

/-- the components appended by `add` -/
def addedComps (st : Circ.AddSt K) (mode : Nat) (grouped : Bool) : List (Comp K) :=
  if !grouped then st.spec.map (Comp.shift mode)
  else [.group ((st.spec.map (Comp.shift mode)).flatMap Comp.toPrims) mode (mode + st.sub.n - 1)
          st.sub.inHer st.sub.inHer]

omit [Zero K] [One K] in
theorem addedComps_modes {h : Nat} (st : Circ.AddSt K) (inv : SubInv h st) (mode : Nat) (grouped : Bool) :
    ∀ x ∈ addedComps st mode grouped, ∀ m ∈ x.modes, m < st.sub.n + mode := by
  have hsh : ∀ x ∈ st.spec.map (Comp.shift mode), ∀ m ∈ x.modes, m < st.sub.n + mode := by
    intro x hx
    simp only [List.mem_map] at hx
    obtain ⟨c, hc, rfl⟩ := hx
    exact Comp.modes_shift_lt mode st.sub.n c (inv.modes c hc)
  unfold addedComps
  split
  · exact hsh
  · intro x hx m hm
    simp only [List.mem_singleton] at hx; subst hx
    simp only [Comp.modes, List.mem_flatMap] at hm
    obtain ⟨p, ⟨c, hc, hp⟩, hm⟩ := hm
    apply hsh c hc m
    rw [← modes_toPrims]
    simp only [List.mem_flatMap]
    exact ⟨p, hp, hm⟩

theorem addFinal_form (self : Circ K) (hwf : self.WF) (st : Circ.AddSt K) (h : Nat) (inv : SubInv h st)
    (mode : Nat) (grouped : Bool) :
    ∃ f s1, AncInv self mode (sortNat st.sub.inHer.keys) s1 f ∧
      addFinal self st mode grouped =
        { n := s1.n, spec := s1.spec ++ addedComps st mode grouped,
          inHer := Dict.mapKeys f self.inHer ++ st.sub.inHer.map (fun p => (p.1 + mode, p.2)),
          outHer := Dict.mapKeys f self.outHer ++ st.sub.inHer.map (fun p => (p.1 + mode, p.2)),
          extIn := s1.extIn, extOut := s1.extOut,
          internal := self.internal.map f ++ (sortNat st.sub.inHer.keys).map (mode + ·) } := by
  obtain ⟨f, ai⟩ := AncInv.fold hwf (mode := mode) (sortNat st.sub.inHer.keys)
    (strictSorted_sortNat inv.nodup) (AncInv.init self hwf mode) (by simp)
  rw [List.nil_append] at ai
  refine ⟨f, _, ai, ?_⟩
  have hnd : ((st.sub.inHer.map fun p => (p.1 + mode, p.2)).map (·.1)).Nodup := by
    rw [List.map_map]
    have : ((fun x : Nat × Nat => x.1) ∘ fun p : Nat × Nat => (p.1 + mode, p.2)) = (· + mode) ∘ (·.1) := rfl
    rw [this, ← List.map_map]
    exact nodup_map_of_inj (fun a b h => by omega) inv.nodup
  have hfresh : ∀ (d : Dict), ∀ k ∈ (st.sub.inHer.map fun p => (p.1 + mode, p.2)).map (·.1),
      k ∉ (Dict.mapKeys f d).keys := by
    intro d k hk hk2
    simp only [List.map_map, List.mem_map, Function.comp] at hk
    obtain ⟨p, hp, rfl⟩ := hk
    rw [keys_mapKeys] at hk2
    simp only [List.mem_map] at hk2
    obtain ⟨a, -, ha⟩ := hk2
    have hpk : p.1 ∈ sortNat st.sub.inHer.keys := by
      rw [mem_sortNat]; simp only [Dict.keys, List.mem_map]; exact ⟨p, hp, rfl⟩
    exact ai.avoid a p.1 hpk (by omega)
  unfold addFinal
  simp only [herFold_eq]
  rw [ai.inHer, ai.outHer, foldl_set_fresh _ _ hnd (hfresh _), foldl_set_fresh _ _ hnd (hfresh _),
    ai.internal]
  unfold addedComps
  cases grouped <;> rfl


theorem keys_append (d e : Dict) : Dict.keys (d ++ e) = Dict.keys d ++ Dict.keys e := by
  simp [Dict.keys]

theorem get?_shifted_isSome (H : Dict) (mode m : Nat) (hm : m ∈ H.keys) :
    (Dict.get? (H.map fun p => (p.1 + mode, p.2)) (mode + m)).isSome := by
  rw [get?_isSome_iff]
  simp only [Dict.keys, List.map_map, List.mem_map, Function.comp] at hm ⊢
  obtain ⟨p, hp, rfl⟩ := hm
  exact ⟨p, hp, by omega⟩

theorem addFinal_props (self : Circ K) (hwf : self.WF) (st : Circ.AddSt K) (h : Nat) (inv : SubInv h st)
    (mode : Nat) (grouped : Bool) (hfit : mode + st.sub.n ≤ self.n + h) :
    (addFinal self st mode grouped).WF ∧
    (addFinal self st mode grouped).internal.length = self.internal.length + h ∧
    (addFinal self st mode grouped).ports = self.ports ∧
    (∀ a ∈ self.internal, ∃ a' ∈ (addFinal self st mode grouped).internal, a ≤ a' ∧
        (addFinal self st mode grouped).inHer.get? a' = self.inHer.get? a ∧
        (addFinal self st mode grouped).outHer.get? a' = self.outHer.get? a) := by
  obtain ⟨f, s1, ai, e⟩ := addFinal_form self hwf st h inv mode grouped
  rw [e]
  have hlenL : (sortNat st.sub.inHer.keys).length = h := by
    rw [length_sortNat]; simp [Dict.keys, inv.len]
  have hn : s1.n = self.n + h := by rw [ai.n_eq, hlenL]
  have hHkeys : (Dict.keys (st.sub.inHer.map fun p => (p.1 + mode, p.2))) = st.sub.inHer.keys.map (· + mode) := by
    simp [Dict.keys, Function.comp_def]
  have hfresh : ∀ (d : Dict) a, ∀ m ∈ st.sub.inHer.keys, f a ≠ m + mode := by
    intro d a m hm hh
    exact ai.avoid a m (mem_sortNat.mpr hm) (by omega)
  have hnodup : ∀ d : Dict, d.keys.Nodup →
      (Dict.keys (Dict.mapKeys f d ++ st.sub.inHer.map fun p => (p.1 + mode, p.2))).Nodup := by
    intro d hd
    rw [keys_append, keys_mapKeys, hHkeys, List.nodup_append]
    refine ⟨?_, ?_, ?_⟩
    · exact nodup_map_of_inj ai.inj hd
    · exact nodup_map_of_inj (fun a b h => by omega) inv.nodup
    · intro a ha b hb
      simp only [List.mem_map] at ha hb
      obtain ⟨x, -, rfl⟩ := ha
      obtain ⟨y, hy, rfl⟩ := hb
      exact hfresh d x y hy
  have hlt : ∀ d : Dict, (∀ k ∈ d.keys, k < self.n) →
      ∀ k ∈ (Dict.keys (Dict.mapKeys f d ++ st.sub.inHer.map fun p => (p.1 + mode, p.2))), k < s1.n := by
    intro d hd k hk
    rw [keys_append] at hk
    rcases List.mem_append.mp hk with hk | hk
    · rw [keys_mapKeys] at hk
      simp only [List.mem_map] at hk
      obtain ⟨a, ha, rfl⟩ := hk
      have := hd a ha; have := ai.le' a; omega
    · rw [hHkeys] at hk
      simp only [List.mem_map] at hk
      obtain ⟨a, ha, rfl⟩ := hk
      have := inv.lt a ha; omega
  have hold : ∀ (d : Dict) a, (d.get? a).isSome →
      Dict.get? (Dict.mapKeys f d ++ st.sub.inHer.map fun p => (p.1 + mode, p.2)) (f a) = d.get? a := by
    intro d a hs
    rw [get?_append, get?_mapKeys ai.inj]
    cases hg : d.get? a with
    | none => rw [hg] at hs; simp at hs
    | some v => rfl
  have hnew : ∀ (d : Dict) m, m ∈ st.sub.inHer.keys →
      Dict.get? (Dict.mapKeys f d ++ st.sub.inHer.map fun p => (p.1 + mode, p.2)) (mode + m) =
        Dict.get? (st.sub.inHer.map fun p => (p.1 + mode, p.2)) (mode + m) := by
    intro d m hm
    rw [get?_append]
    have : Dict.get? (Dict.mapKeys f d) (mode + m) = none := by
      rw [get?_eq_none_iff, keys_mapKeys]
      intro hh
      simp only [List.mem_map] at hh
      obtain ⟨a, -, ha⟩ := hh
      exact hfresh d a m hm (by omega)
    rw [this]; rfl
  refine ⟨⟨?_, ?_, ?_, ?_, ?_, ?_, ?_, ?_⟩, ?_, ?_, ?_⟩
  · exact hnodup _ hwf.inNodup
  · exact hnodup _ hwf.outNodup
  · exact hlt _ hwf.inLt
  · exact hlt _ hwf.outLt
  · show List.length (_ ++ _) = List.length (_ ++ _)
    simp [length_mapKeys, hwf.lenEq]
  · show (self.internal.map f ++ (sortNat st.sub.inHer.keys).map (mode + ·)).Nodup
    rw [List.nodup_append]
    refine ⟨nodup_map_of_inj ai.inj hwf.intNodup, ?_, ?_⟩
    · exact nodup_map_of_inj (fun a b h => by omega) (nodup_sortNat inv.nodup)
    · intro a ha b hb
      simp only [List.mem_map] at ha hb
      obtain ⟨x, -, rfl⟩ := ha
      obtain ⟨y, hy, rfl⟩ := hb
      exact ai.avoid x y hy
  · intro a ha
    have ha' : a ∈ self.internal.map f ++ (sortNat st.sub.inHer.keys).map (mode + ·) := ha
    rcases List.mem_append.mp ha' with ha' | ha'
    · simp only [List.mem_map] at ha'
      obtain ⟨x, hx, rfl⟩ := ha'
      obtain ⟨h1, h2⟩ := hwf.intHer x hx
      show (Dict.get? (_ ++ _) (f x)).isSome ∧ Dict.get? (_ ++ _) (f x) = Dict.get? (_ ++ _) (f x)
      rw [hold _ x h1, hold _ x (h2 ▸ h1)]
      exact ⟨h1, h2⟩
    · simp only [List.mem_map] at ha'
      obtain ⟨y, hy, rfl⟩ := ha'
      have hy' := mem_sortNat.mp hy
      show (Dict.get? (_ ++ _) (mode + y)).isSome ∧ Dict.get? (_ ++ _) (mode + y) = Dict.get? (_ ++ _) (mode + y)
      rw [hnew _ y hy', hnew _ y hy']
      exact ⟨get?_shifted_isSome _ mode y hy', rfl⟩
  · intro comp hc m hm
    have hc' : comp ∈ s1.spec ++ addedComps st mode grouped := hc
    show m < s1.n
    rcases List.mem_append.mp hc' with hc' | hc'
    · exact ai.modes comp hc' m hm
    · have := addedComps_modes st inv mode grouped comp hc' m hm
      omega
  · show (self.internal.map f ++ (sortNat st.sub.inHer.keys).map (mode + ·)).length = _
    simp [hlenL]
  · show s1.n - (self.internal.map f ++ (sortNat st.sub.inHer.keys).map (mode + ·)).length = self.n - self.internal.length
    simp only [List.length_append, List.length_map, hlenL, hn]; omega
  · intro a ha
    obtain ⟨h1, h2⟩ := hwf.intHer a ha
    refine ⟨f a, ?_, ai.le a, ?_, ?_⟩
    · show f a ∈ self.internal.map f ++ _
      exact List.mem_append_left _ (List.mem_map_of_mem ha)
    · exact hold _ a h1
    · exact hold _ a (h2 ▸ h1)

theorem add_WF (self sub self' : Circ K) (hs : self.WF) (hsub : sub.WF)
    (m : Int) (g : Bool) (h : self.add sub m g = .ok self') :
    self'.WF ∧
    self'.internal.length = self.internal.length + sub.inHer.length ∧
    self'.ports = self.ports ∧
    (∀ a ∈ self.internal, ∃ a' ∈ self'.internal, a ≤ a' ∧ self'.inHer.get? a' = self.inHer.get? a
        ∧ self'.outHer.get? a' = self.outHer.get? a) := by
  rw [add_eq] at h
  cases hm : self.modeInRange (self.mapMode m) with
  | error e => rw [hm] at h; cases h
  | ok mode =>
    rw [hm] at h
    simp only [Except.bind, addTail] at h
    split at h
    · cases h
    · split at h
      · cases h
      · rename_i h1 h2
        injection h with h; subst h
        have inv := (SubInv.init sub hsub g).fold mode (sortNat self.internal)
        have hlen : (pick sub g).1.inHer.length = sub.inHer.length := by rw [(pick_props sub g).2.1]
        rw [hlen] at h2
        have hle := length_le_of_nodup_lt _ _ inv.nodup inv.lt
        have hkl : (Dict.keys ((sortNat self.internal).foldl (ptStep mode)
            ⟨(pick sub g).1, swapSpec (pick sub g).1⟩).sub.inHer).length = sub.inHer.length := by
          rw [← inv.len]; simp [Dict.keys]
        rw [hkl] at hle
        exact addFinal_props self hs _ _ inv mode _ (by omega)

end LW.Proofs.C02
