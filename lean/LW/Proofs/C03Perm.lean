/-
  LW.Proofs.C03Perm — Laplace expansion of `Matrix.permanent` and the model's recursive
  permanent `permRC`.
-/
import Mathlib.LinearAlgebra.Matrix.Permanent
import Mathlib.GroupTheory.Perm.Fin
import Mathlib.Algebra.BigOperators.Fin
import LW.Proofs.MatAlg
import LW.Model.Fock

open scoped BigOperators
open Equiv Finset

namespace Matrix

variable {R : Type*} [CommSemiring R]

/-- Laplace expansion of the permanent along column 0 -/
theorem permanent_succ_column_zero {n : ℕ} (A : Matrix (Fin n.succ) (Fin n.succ) R) :
    permanent A = ∑ i : Fin n.succ, A i 0 * permanent (A.submatrix i.succAbove Fin.succ) := by
  rw [permanent, Finset.univ_perm_fin_succ, ← Finset.univ_product_univ]
  simp only [Finset.sum_map, Equiv.toEmbedding_apply, Finset.sum_product]
  refine Finset.sum_congr rfl fun i _ => Fin.cases ?_ (fun i => ?_) i
  · simp only [Fin.prod_univ_succ, permanent, Finset.mul_sum,
      Equiv.Perm.decomposeFin_symm_apply_zero,
      Equiv.Perm.decomposeFin_symm_apply_succ, Fin.succAbove_zero, Equiv.swap_self,
      Equiv.coe_refl, id, submatrix_apply]
  rw [← permanent_permute_cols i.cycleRange, permanent, Finset.mul_sum]
  refine Finset.sum_congr rfl fun σ _ => ?_
  simp only [Fin.prod_univ_succ, Fin.succAbove_cycleRange,
    Equiv.Perm.decomposeFin_symm_apply_zero, Equiv.Perm.decomposeFin_symm_apply_succ,
    submatrix_apply, id]

/-- Laplace expansion of the permanent along row 0 -/
theorem permanent_succ_row_zero {n : ℕ} (A : Matrix (Fin n.succ) (Fin n.succ) R) :
    permanent A = ∑ j : Fin n.succ, A 0 j * permanent (A.submatrix Fin.succ j.succAbove) := by
  rw [← permanent_transpose A, permanent_succ_column_zero]
  refine Finset.sum_congr rfl fun i _ => ?_
  rw [← permanent_transpose]
  simp only [transpose_apply, transpose_submatrix, transpose_transpose]

end Matrix

namespace LW.Proofs.C03

variable {K : Type}

theorem eraseIdx_ofFn {α : Type} {k : Nat} (f : Fin (k + 1) → α) (j : Fin (k + 1)) :
    (List.ofFn f).eraseIdx j = List.ofFn fun i => f (j.succAbove i) := by
  apply List.ext_getElem
  · simp [List.length_eraseIdx]; omega
  · intro i h1 h2
    simp only [List.length_ofFn] at h2
    rw [List.getElem_eraseIdx]
    simp only [List.getElem_ofFn]
    by_cases h : i < j.val
    · rw [dif_pos h]
      congr 1
      rw [Fin.succAbove_of_castSucc_lt]
      · rfl
      · exact h
    · rw [dif_neg h]
      congr 1
      rw [Fin.succAbove_of_le_castSucc]
      · rfl
      · exact Nat.le_of_not_lt h

theorem getD_ofFn {α : Type} {k : Nat} (f : Fin k → α) (j : Fin k) (d : α) :
    (List.ofFn f).getD j d = f j := by
  simp [List.getD]

/-- the model's recursive permanent is Mathlib's permanent of the row/column-selected matrix -/
theorem permRC_eq_permanent [CommRing K] (U : M K) (k : Nat) (rows cols : Fin k → Nat) :
    permRC U (List.ofFn rows) (List.ofFn cols) =
      Matrix.permanent (Matrix.of fun a b => U.get (rows a) (cols b)) := by
  induction k with
  | zero => simp [permRC, Matrix.permanent]
  | succ k ih =>
    rw [List.ofFn_succ (f := rows), permRC, M.sumN_eq_sum, List.length_ofFn, Finset.sum_range,
      Matrix.permanent_succ_row_zero]
    refine Finset.sum_congr rfl fun j _ => ?_
    rw [getD_ofFn, eraseIdx_ofFn, ih]
    rfl

example : Matrix.permanent (Matrix.of ![![(1 : ℤ), 2], ![3, 4]]) = 10 := by
  rw [Matrix.permanent_succ_row_zero]
  simp [Fin.sum_univ_succ, Matrix.permanent_unique]

example : permRC (M.ofFn 2 fun i j => ((2 * i + j + 1 : Nat) : Int)) [0, 1] [0, 1] = 10 := by
  decide

example : permRC (M.ofFn 2 fun i j => ((2 * i + j + 1 : Nat) : Int)) [0, 0] [1, 1] = 8 := by
  decide

end LW.Proofs.C03
