/-
  LW.Proofs.C18Annot — AnnotatedState: sorted label lists, multiset equality, +, merge, slices.
-/
import Mathlib.Data.List.Sort
import Mathlib.Data.List.Forall2
import LW.Proofs.C18State

namespace LW.SV

/-! ### `sorted` -/

theorem insInt_eq (x : Int) (l : List Int) : insInt x l = l.orderedInsert (· ≤ ·) x := by
  induction l with
  | nil => rfl
  | cons y ys ih => simp only [insInt, List.orderedInsert_cons, ih]

theorem sortInt_eq (l : List Int) : sortInt l = l.insertionSort (· ≤ ·) := by
  induction l with
  | nil => rfl
  | cons x xs ih =>
    show insInt x (sortInt xs) = _
    rw [insInt_eq, ih]; rfl

theorem sortInt_perm (l : List Int) : (sortInt l).Perm l := by
  rw [sortInt_eq]; exact List.perm_insertionSort _ l

theorem sortInt_sorted (l : List Int) : (sortInt l).Pairwise (· ≤ ·) := by
  rw [sortInt_eq]; exact List.pairwise_insertionSort _ l

theorem sortInt_eq_iff_perm (a b : List Int) : sortInt a = sortInt b ↔ a.Perm b := by
  constructor
  · intro h
    exact (sortInt_perm a).symm.trans (h ▸ sortInt_perm b)
  · intro h
    exact List.Perm.eq_of_pairwise' (sortInt_sorted a) (sortInt_sorted b)
      ((sortInt_perm a).trans (h.trans (sortInt_perm b).symm))

theorem sortInt_of_sorted {l : List Int} (h : l.Pairwise (· ≤ ·)) : sortInt l = l := by
  rw [sortInt_eq]; exact List.Pairwise.insertionSort_eq h

theorem sortInt_idem (l : List Int) : sortInt (sortInt l) = sortInt l :=
  sortInt_of_sorted (sortInt_sorted l)

theorem sortInt_append (a b : List Int) : sortInt (sortInt a ++ sortInt b) = sortInt (a ++ b) :=
  (sortInt_eq_iff_perm _ _).mpr ((sortInt_perm a).append (sortInt_perm b))

theorem sortInt_length (l : List Int) : (sortInt l).length = l.length := (sortInt_perm l).length_eq

theorem sortInt_nil : sortInt [] = [] := rfl

namespace AState

/-- the representation invariant: every row is sorted -/
def WF (a : AState) : Prop := ∀ row ∈ a.s, row.Pairwise (· ≤ ·)

theorem new_wf (r : List (List Int)) : (new r).WF := by
  intro row h
  simp only [new, List.mem_map] at h
  obtain ⟨x, _, rfl⟩ := h
  exact sortInt_sorted x

/-- each stored row holds exactly the labels given, as a multiset -/
theorem new_rows_perm (r : List (List Int)) : List.Forall₂ List.Perm (new r).s r := by
  induction r with
  | nil => exact .nil
  | cons x xs ih => exact .cons (sortInt_perm x) ih

theorem new_nModes (r : List (List Int)) : (new r).nModes = r.length := by simp [new, nModes]

/-- a well-formed value is a fixed point of the constructor (`AnnotatedState(a.s) == a`) -/
theorem new_of_wf (a : AState) (h : a.WF) : new a.s = a := by
  cases a with
  | mk s =>
    simp only [new, AState.mk.injEq]
    have : ∀ row ∈ s, sortInt row = row := fun row hr => sortInt_of_sorted (h row hr)
    calc s.map sortInt = s.map id := List.map_congr_left this
      _ = s := List.map_id s

theorem new_getS (r : List (List Int)) : new (new r).getS = new r := new_of_wf _ (new_wf r)

/-- two annotated states are the same value exactly when every mode carries the same multiset of
labels: the order in which labels were given is irrelevant -/
theorem new_eq_iff (r₁ r₂ : List (List Int)) : new r₁ = new r₂ ↔ List.Forall₂ List.Perm r₁ r₂ := by
  simp only [new, AState.mk.injEq]
  induction r₁ generalizing r₂ with
  | nil =>
    cases r₂ with
    | nil => simp
    | cons y ys => simp
  | cons x xs ih =>
    cases r₂ with
    | nil => simp
    | cons y ys =>
      simp only [List.map_cons, List.cons.injEq, List.forall₂_cons, ih ys, sortInt_eq_iff_perm]

theorem eq_iff (a b : AState) : a.eq b = true ↔ a = b := by
  cases a; cases b; simp [eq]

theorem eq_new_iff (r₁ r₂ : List (List Int)) : (new r₁).eq (new r₂) = true ↔ List.Forall₂ List.Perm r₁ r₂ := by
  rw [eq_iff, new_eq_iff]

theorem eq_hash {H : Type} (h : String → H) (a b : AState) (e : a.eq b = true) : a.hash h = b.hash h := by
  rw [(eq_iff a b).mp e]

/-! ### `+` -/

theorem add_new (a b : List (List Int)) : (new a).add (new b) = new (a ++ b) := by
  simp only [add, new, List.map_append, List.map_map, AState.mk.injEq]
  congr 1 <;> exact List.map_congr_left fun x _ => sortInt_idem x

theorem add_wf (a b : AState) : (a.add b).WF := new_wf _

theorem add_of_wf (a b : AState) (ha : a.WF) (hb : b.WF) : (a.add b).s = a.s ++ b.s := by
  have h1 := new_of_wf a ha
  have h2 := new_of_wf b hb
  conv_lhs => rw [← h1, ← h2, add_new]
  simp only [new, List.map_append]
  rw [show a.s.map sortInt = a.s from congrArg AState.s h1, show b.s.map sortInt = b.s from congrArg AState.s h2]

theorem add_assoc (a b c : AState) (ha : a.WF) (hb : b.WF) (hc : c.WF) :
    (a.add b).add c = a.add (b.add c) := by
  rw [← new_of_wf a ha, ← new_of_wf b hb, ← new_of_wf c hc]
  simp only [add_new, List.append_assoc]

theorem nModes_add (a b : AState) : (a.add b).nModes = a.nModes + b.nModes := by
  simp [add, new, nModes]

theorem nPhotons_new (r : List (List Int)) : (new r).nPhotons = (r.map List.length).sum := by
  simp only [nPhotons, new, List.map_map]
  congr 1
  exact List.map_congr_left fun x _ => sortInt_length x

theorem nPhotons_add (a b : AState) : (a.add b).nPhotons = a.nPhotons + b.nPhotons := by
  rw [add, nPhotons_new]
  simp [nPhotons]

/-! ### merge -/

theorem merge_error (a b : AState) (h : a.nModes ≠ b.nModes) : a.merge b = .error .value := by
  simp [merge, h]

theorem merge_ok (a b : AState) (h : a.nModes = b.nModes) :
    a.merge b = .ok (new (List.zipWith (· ++ ·) a.s b.s)) := by
  simp [merge, h, getS]

theorem merge_ok_iff (a b : AState) : (∃ c, a.merge b = .ok c) ↔ a.nModes = b.nModes := by
  unfold merge
  by_cases h : a.nModes = b.nModes <;> simp [h]

theorem map_sort_zipWith_sort (a b : List (List Int)) :
    (List.zipWith (· ++ ·) (a.map sortInt) (b.map sortInt)).map sortInt
      = (List.zipWith (· ++ ·) a b).map sortInt := by
  induction a generalizing b with
  | nil => simp
  | cons x xs ih =>
    cases b with
    | nil => simp
    | cons y ys =>
      simp only [List.map_cons, List.zipWith_cons_cons, List.cons.injEq]
      exact ⟨sortInt_append x y, ih ys⟩

/-- merging adds the label multisets mode by mode -/
theorem merge_new (a b : List (List Int)) (h : a.length = b.length) :
    (new a).merge (new b) = .ok (new (List.zipWith (· ++ ·) a b)) := by
  rw [merge_ok _ _ (by simp [new_nModes, h])]
  simp only [new, Except.ok.injEq, AState.mk.injEq]
  exact map_sort_zipWith_sort a b

theorem merge_wf (a b c : AState) (h : a.merge b = .ok c) : c.WF := by
  have hn := (merge_ok_iff a b).mp ⟨c, h⟩
  rw [merge_ok a b hn] at h
  cases h
  exact new_wf _

theorem merge_nModes (a b c : AState) (h : a.merge b = .ok c) : c.nModes = a.nModes := by
  have hn := (merge_ok_iff a b).mp ⟨c, h⟩
  rw [merge_ok a b hn] at h
  cases h
  simp only [nModes] at hn
  simp [new, nModes, hn]

theorem zipWith_append_perm_comm : ∀ (a b : List (List Int)),
    List.Forall₂ List.Perm (List.zipWith (· ++ ·) a b) (List.zipWith (· ++ ·) b a)
  | [], [] => .nil
  | [], _ :: _ => by simp
  | _ :: _, [] => by simp
  | x :: xs, y :: ys => by
    simp only [List.zipWith_cons_cons]
    exact .cons List.perm_append_comm (zipWith_append_perm_comm xs ys)

theorem merge_comm (a b : AState) : a.merge b = b.merge a := by
  by_cases h : a.nModes = b.nModes
  · rw [merge_ok a b h, merge_ok b a h.symm]
    congr 1
    exact (new_eq_iff _ _).mpr (zipWith_append_perm_comm a.s b.s)
  · rw [merge_error a b h, merge_error b a (Ne.symm h)]

theorem zipWith_append_assoc : ∀ (a b c : List (List Int)),
    List.zipWith (· ++ ·) (List.zipWith (· ++ ·) a b) c = List.zipWith (· ++ ·) a (List.zipWith (· ++ ·) b c)
  | [], _, _ => by simp
  | _ :: _, [], _ => by simp
  | _ :: _, _ :: _, [] => by simp
  | x :: xs, y :: ys, z :: zs => by
    simp only [List.zipWith_cons_cons, List.append_assoc, zipWith_append_assoc xs ys zs]

theorem merge_assoc (a b c : List (List Int)) (h1 : a.length = b.length) (h2 : b.length = c.length)
    (ab bc : AState) (hab : (new a).merge (new b) = .ok ab) (hbc : (new b).merge (new c) = .ok bc) :
    ab.merge (new c) = (new a).merge bc := by
  rw [merge_new a b h1] at hab
  rw [merge_new b c h2] at hbc
  cases hab; cases hbc
  rw [merge_new _ _ (by simp [h1, h2]), merge_new _ _ (by simp [h1, h2]), zipWith_append_assoc]

theorem sum_length_zipWith_append : ∀ (a b : List (List Int)), a.length = b.length →
    ((List.zipWith (· ++ ·) a b).map List.length).sum = (a.map List.length).sum + (b.map List.length).sum
  | [], [], _ => by simp
  | x :: xs, y :: ys, h => by
    simp only [List.length_cons, Nat.add_right_cancel_iff] at h
    simp only [List.zipWith_cons_cons, List.map_cons, List.sum_cons, List.length_append,
      sum_length_zipWith_append xs ys h]
    omega
  | [], _ :: _, h => by simp at h
  | _ :: _, [], h => by simp at h

theorem nPhotons_merge (a b c : AState) (h : a.merge b = .ok c) : c.nPhotons = a.nPhotons + b.nPhotons := by
  have hn := (merge_ok_iff a b).mp ⟨c, h⟩
  rw [merge_ok a b hn] at h
  cases h
  rw [nPhotons_new]
  exact sum_length_zipWith_append a.s b.s hn

/-! ### subscripts -/

theorem getItem_new (r : List (List Int)) (i : Int) :
    (new r).getItem i = (SV.getItem r i).map sortInt := by
  unfold getItem SV.getItem
  simp only [new, List.length_map]
  cases pyIndex r.length i with
  | none => rfl
  | some k =>
    simp only [List.getElem?_map]
    cases r[k]? <;> rfl

theorem sliceList_map {α β : Type} [Inhabited α] [Inhabited β] (f : α → β) (hf : f default = default)
    (l : List α) (sl : Slice) : sliceList (l.map f) sl = (sliceList l sl).map (List.map f) := by
  unfold sliceList
  simp only [List.length_map, bind, Except.bind, pure, Except.pure]
  cases sliceIdx l.length sl with
  | error e => rfl
  | ok idx =>
    simp only [Except.map, List.map_map, Except.ok.injEq]
    apply List.map_congr_left
    intro i _
    simp only [Function.comp, List.getD_eq_getElem?_getD, List.getElem?_map]
    cases l[i.toNat]? <;> simp [hf]

/-- slicing selects modes: the result is the annotated state of the selected label lists -/
theorem slice_new (r : List (List Int)) (sl : Slice) :
    (new r).slice sl = (sliceList r sl).map new := by
  unfold slice
  simp only [new, bind, Except.bind, pure, Except.pure]
  rw [sliceList_map sortInt rfl]
  cases sliceList r sl with
  | error e => rfl
  | ok v =>
    simp only [Except.map, List.map_map, Except.ok.injEq, new, AState.mk.injEq]
    exact List.map_congr_left fun x _ => sortInt_idem x

theorem slice_wf (a b : AState) (sl : Slice) (h : a.slice sl = .ok b) : b.WF := by
  unfold slice at h
  simp only [bind, Except.bind, pure, Except.pure] at h
  split at h
  · cases h
  · cases h; exact new_wf _

theorem newChecked_ok_iff (rows : List (Option (List Int))) :
    (∃ a, newChecked rows = .ok a) ↔ ∀ x ∈ rows, x ≠ none := by
  unfold newChecked
  by_cases h : rows.any Option.isNone = true
  · simp only [h, if_true, reduceCtorEq, exists_false, false_iff]
    simp only [List.any_eq_true] at h
    obtain ⟨x, hx, hn⟩ := h
    intro hc
    exact hc x hx (by cases x <;> simp_all)
  · simp only [h, Bool.false_eq_true, if_false, Except.ok.injEq, exists_eq', true_iff]
    simp only [List.any_eq_true, not_exists, not_and] at h
    intro x hx hn
    exact h x hx (by simp [hn])

theorem newChecked_some (r : List (List Int)) : newChecked (r.map some) = .ok (new r) := by
  unfold newChecked
  have : (r.map some).any Option.isNone = false := by simp
  simp [this]

end AState

end LW.SV
